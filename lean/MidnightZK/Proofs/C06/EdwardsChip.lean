import MidnightZK.Proofs.C06.Edwards
/-!
# C06 — the three gates of the native chip and the `mul` region, over any field

* the dumped gate polynomials (`Gen/C06Gates.lean`) are rewritten as the identities of the source
  comments (`*_gate_eval`);
* `CondAddHolds` / `DoubleHolds`: what one row of the ECC columns satisfies when the gates hold;
* `MulChain`: the rows of the `assign mul` region; `mulChain_sound`: the last conditional sum is
  `[Σ bᵢ 2^(n-1-i)]·base`, by induction on the number of rows, with associativity of the law as
  the only hypothesis that is not proved here.
-/
namespace MidnightZK.C06
open Lean.Grind

variable {F : Type} [Field F]

/-- The curve parameter found in the dumped gates, as an element of `F`. -/
def jubDF : F := OfNat.ofNat Gen.jubD

/-! ## Gate polynomials as identities -/

theorem cond_add_gate0_eval (env : Env F) :
    (Gen.condAddGate0 : Expr F).eval env = env.sel 1 *
      (env.adv 5 0 * (1 + env.adv 4 0 * jubDF * env.adv 8 0)
        - (env.adv 0 0 + env.adv 4 0 * (env.adv 0 0 * env.adv 3 0 + env.adv 2 0 * env.adv 1 0 - env.adv 0 0))) := by
  simp only [Gen.condAddGate0, Expr.eval, jubDF, Gen.jubD]; grind

theorem cond_add_gate1_eval (env : Env F) :
    (Gen.condAddGate1 : Expr F).eval env = env.sel 1 *
      (env.adv 6 0 * (1 - env.adv 4 0 * jubDF * env.adv 8 0)
        - (env.adv 1 0 + env.adv 4 0 * (env.adv 1 0 * env.adv 3 0 + env.adv 0 0 * env.adv 2 0 - env.adv 1 0))) := by
  simp only [Gen.condAddGate1, Expr.eval, jubDF, Gen.jubD]; grind

theorem cond_add_gate2_eval (env : Env F) :
    (Gen.condAddGate2 : Expr F).eval env = env.sel 1 *
      (env.adv 8 0 - env.adv 0 0 * env.adv 1 0 * env.adv 2 0 * env.adv 3 0) := by
  simp only [Gen.condAddGate2, Expr.eval]; grind

theorem double_gate0_eval (env : Env F) :
    (Gen.doubleGate0 : Expr F).eval env = env.sel 0 *
      (env.adv 0 1 * (1 + jubDF * env.adv 7 0 * (env.adv 6 0 * env.adv 6 0))
        - (env.adv 5 0 * env.adv 6 0 + env.adv 5 0 * env.adv 6 0)) := by
  simp only [Gen.doubleGate0, Expr.eval, jubDF, Gen.jubD]; grind

theorem double_gate1_eval (env : Env F) :
    (Gen.doubleGate1 : Expr F).eval env = env.sel 0 *
      (env.adv 1 1 * (1 - jubDF * env.adv 7 0 * (env.adv 6 0 * env.adv 6 0))
        - (env.adv 6 0 * env.adv 6 0 + env.adv 7 0)) := by
  simp only [Gen.doubleGate1, Expr.eval, jubDF, Gen.jubD]; grind

theorem double_gate2_eval (env : Env F) :
    (Gen.doubleGate2 : Expr F).eval env = env.sel 0 *
      (env.adv 5 0 * env.adv 5 0 - env.adv 7 0) := by
  simp only [Gen.doubleGate2, Expr.eval]; grind

theorem mem_gate_eval (env : Env F) :
    (Gen.memGate0 : Expr F).eval env = env.sel 2 *
      (env.adv 1 0 * env.adv 1 0 - env.adv 0 0 * env.adv 0 0
        - (1 + jubDF * (env.adv 0 0 * env.adv 0 0) * (env.adv 1 0 * env.adv 1 0))) := by
  simp only [Gen.memGate0, Expr.eval, jubDF, Gen.jubD]; grind

/-! ## Rows -/

/-- The nine cells of one row of the ECC columns (`cond_add` / `add_then_double` layout). -/
structure EccRow (F : Type) where
  xq : F
  yq : F
  xs : F
  ys : F
  b : F
  xr : F
  yr : F
  sq : F
  prod : F

/-- The three identities of the `conditional add` gate on a row. -/
def CondAddHolds (d : F) (r : EccRow F) : Prop :=
  r.xr * (1 + r.b * d * r.prod) = r.xq + r.b * (r.xq * r.ys + r.xs * r.yq - r.xq) ∧
  r.yr * (1 - r.b * d * r.prod) = r.yq + r.b * (r.yq * r.ys + r.xq * r.xs - r.yq) ∧
  r.prod = r.xq * r.yq * r.xs * r.ys

/-- The three identities of the `double` gate on a row whose next row starts with `(nx, ny)`. -/
def DoubleHolds (d : F) (r : EccRow F) (nx ny : F) : Prop :=
  nx * (1 + d * r.sq * (r.yr * r.yr)) = r.xr * r.yr + r.xr * r.yr ∧
  ny * (1 - d * r.sq * (r.yr * r.yr)) = r.yr * r.yr + r.sq ∧
  r.sq = r.xr * r.xr

/-- The row an environment shows to the gates. -/
def rowOf (env : Env F) : EccRow F :=
  ⟨env.adv 0 0, env.adv 1 0, env.adv 2 0, env.adv 3 0, env.adv 4 0, env.adv 5 0, env.adv 6 0,
   env.adv 7 0, env.adv 8 0⟩

theorem condAdd_sound {d : F} {r : EccRow F} (h : CondAddHolds d r) :
    (r.b = 0 → r.xr = r.xq ∧ r.yr = r.yq) ∧
    (r.b = 1 → EdSum d r.xq r.yq r.xs r.ys r.xr r.yr) := by
  obtain ⟨h1, h2, h3⟩ := h
  constructor
  · intro h0; rw [h0] at h1 h2; constructor <;> grind
  · intro hb1; rw [hb1, h3] at h1 h2; unfold EdSum; constructor <;> grind

theorem double_sound {d : F} {r : EccRow F} {nx ny : F} (h : DoubleHolds d r nx ny) :
    EdSum d r.xr r.yr r.xr r.yr nx ny := by
  obtain ⟨h1, h2, h3⟩ := h
  rw [h3] at h1 h2
  unfold EdSum; constructor <;> grind

/-! ## Multiples and the `assign mul` region -/

/-- `[n]P` for the concrete law: `[0]P = (0,1)`, `[n+1]P = [n]P + P`. -/
def edSmul (d : F) : Nat → F × F → F × F
  | 0, _ => (0, 1)
  | n + 1, P => edAdd d (edSmul d n P) P

/-- Associativity of the law on curve points: the one group axiom taken as a hypothesis. -/
def EdAssoc (d : F) : Prop :=
  ∀ P Q R : F × F, EdOnP d P → EdOnP d Q → EdOnP d R →
    edAdd d (edAdd d P Q) R = edAdd d P (edAdd d Q R)

theorem edSmul_on {d : F} (hc : EdComplete d) {P : F × F} (hP : EdOnP d P) :
    ∀ n, EdOnP d (edSmul d n P)
  | 0 => edOn_id d
  | n + 1 => edAdd_closed hc (edSmul_on hc hP n) hP

theorem edSmul_add {d : F} (hc : EdComplete d) (ha : EdAssoc d) {P : F × F} (hP : EdOnP d P)
    (m : Nat) : ∀ n, edSmul d (m + n) P = edAdd d (edSmul d m P) (edSmul d n P)
  | 0 => by
    simp only [Nat.add_zero, edSmul]
    exact (edAdd_id_right hc (edSmul_on hc hP m)).symm
  | n + 1 => by
    have ih := edSmul_add hc ha hP m n
    show edSmul d (m + n + 1) P = _
    simp only [edSmul]
    rw [ih, ha _ _ _ (edSmul_on hc hP m) (edSmul_on hc hP n) hP]

/-- Rows of the `assign mul` region for a fixed base: every row satisfies the conditional-add
gate with a boolean `b` and the base in columns 2, 3; every row but the last also satisfies the
double gate, whose result sits in columns 0, 1 of the next row. -/
def MulChain (d : F) (base : F × F) : List (EccRow F) → Prop
  | [] => True
  | [r] => CondAddHolds d r ∧ (r.xs, r.ys) = base ∧ (r.b = 0 ∨ r.b = 1)
  | r :: r' :: t =>
    CondAddHolds d r ∧ (r.xs, r.ys) = base ∧ (r.b = 0 ∨ r.b = 1) ∧
      DoubleHolds d r r'.xq r'.yq ∧ MulChain d base (r' :: t)

/-- The integer the chain multiplies by when the accumulator of the first row is `[k]·base`. -/
def chainScalar [DecidableEq F] (k : Nat) : List (EccRow F) → Nat
  | [] => k
  | [r] => k + (if r.b = 1 then 1 else 0)
  | r :: r' :: t => chainScalar (2 * (k + (if r.b = 1 then 1 else 0))) (r' :: t)

/-- Conditional sum of the last row. -/
def chainResult : List (EccRow F) → Option (F × F)
  | [] => none
  | [r] => some (r.xr, r.yr)
  | _ :: r' :: t => chainResult (r' :: t)

private theorem row_step [DecidableEq F] {d : F} (hc : EdComplete d)
    {base : F × F} (hB : EdOnP d base) {r : EccRow F} {k : Nat}
    (hacc : (r.xq, r.yq) = edSmul d k base)
    (h : CondAddHolds d r) (hbase : (r.xs, r.ys) = base) (hb : r.b = 0 ∨ r.b = 1) :
    (r.xr, r.yr) = edSmul d (k + (if r.b = 1 then 1 else 0)) base := by
  have hQ : EdOnP d (r.xq, r.yq) := by rw [hacc]; exact edSmul_on hc hB k
  have hS : EdOnP d (r.xs, r.ys) := by rw [hbase]; exact hB
  obtain ⟨s0, s1⟩ := condAdd_sound h
  rcases hb with h0 | h1
  · have hne : ¬ r.b = 1 := by
      intro h1; rw [h0] at h1
      have : (0 : F) ≠ 1 := by grind
      exact this h1
    obtain ⟨a, b⟩ := s0 h0
    simp only [hne, if_false, Nat.add_zero]
    rw [← hacc, a, b]
  · simp only [h1, if_true]
    have e := edSum_eq_edAdd hc hQ hS (s1 h1)
    rw [e, hacc, hbase]
    rfl

/-- **Scalar-multiplication loop**: if the rows of an `assign mul` region satisfy the gates and
the accumulator of the first row is `[k]·base`, the conditional sum of the last row is
`[chainScalar k rows]·base`. -/
theorem mulChain_sound [DecidableEq F] {d : F} (hc : EdComplete d) (ha : EdAssoc d)
    {base : F × F} (hB : EdOnP d base) :
    ∀ (rows : List (EccRow F)) (k : Nat) (r0 : EccRow F),
      MulChain d base (r0 :: rows) → (r0.xq, r0.yq) = edSmul d k base →
      chainResult (r0 :: rows) = some (edSmul d (chainScalar k (r0 :: rows)) base)
  | [], k, r0, h, hacc => by
    obtain ⟨h1, h2, h3⟩ := h
    simp only [chainResult, chainScalar]
    rw [row_step hc hB hacc h1 h2 h3]
  | r1 :: t, k, r0, h, hacc => by
    obtain ⟨h1, h2, h3, h4, h5⟩ := h
    have hs := row_step hc hB hacc h1 h2 h3
    have hS : EdOnP d (r0.xr, r0.yr) := by rw [hs]; exact edSmul_on hc hB _
    have hd2 := edSum_eq_edAdd hc hS hS (double_sound h4)
    have hnext : (r1.xq, r1.yq) = edSmul d (2 * (k + (if r0.b = 1 then 1 else 0))) base := by
      rw [hd2, hs, Nat.two_mul]
      exact (edSmul_add hc ha hB _ _).symm
    have ih := mulChain_sound hc ha hB t _ r1 h5 hnext
    simpa [chainResult, chainScalar] using ih

end MidnightZK.C06
