import MidnightZK.Proofs.C04.Basic
/-! The `q_next` chain of `assign_linear_combination_aux`, any length, 1..4 terms per row. -/
namespace MidnightZK.C04
open Lean.Grind
attribute [local instance] Semiring.natCast
set_option linter.unusedSectionVars false

variable {F : Type} [Field F] [DecidableEq F]
variable {R : Nat → F → Prop}

/-- `Σ_j coeffs[j] * asg (limb cell j)` for the terms numbered from `j`. -/
def lcSum (asg : Cell → F) (cu k off : Nat) : List F → Nat → F
  | [], _ => 0
  | c :: cs, j => c * asg (lcLimb cu k off j) + lcSum asg cu k off cs (j + 1)

theorem lcLimb_shift (cu k off j : Nat) (h : 0 < cu) :
    lcLimb cu k off (j + cu) = lcLimb cu k (off + 1) j := by
  simp only [lcLimb, advc, Nat.add_div_right _ h, Nat.add_mod_right]
  congr 1; omega

theorem lcSum_shift (asg : Cell → F) (cu k off : Nat) (h : 0 < cu) (cs : List F) (j : Nat) :
    lcSum asg cu k off cs (j + cu) = lcSum asg cu k (off + 1) cs j := by
  induction cs generalizing j with
  | nil => rfl
  | cons c cs ih =>
    simp only [lcSum]
    rw [lcLimb_shift cu k off j h, show j + cu + 1 = (j + 1) + cu by omega, ih]

theorem lcSum_append (asg : Cell → F) (cu k off : Nat) (a b : List F) (j : Nat) :
    lcSum asg cu k off (a ++ b) j = lcSum asg cu k off a j + lcSum asg cu k off b (j + a.length) := by
  induction a generalizing j with
  | nil => simp [lcSum]; grind
  | cons c cs ih =>
    simp only [List.cons_append, lcSum, ih, List.length_cons]
    rw [show j + 1 + cs.length = j + (cs.length + 1) by omega]; grind

/-- The first row of a chain only sees the first `cu ≤ 4` coefficients. -/
theorem lcSum_head (asg : Cell → F) (cu k off : Nat) (h0 : 0 < cu) (h4 : cu ≤ 4) (chunk : List F)
    (hl : chunk.length ≤ cu) :
    lcSum asg cu k off chunk 0
      = chunk.getD 0 0 * asg (advc k off 1) + chunk.getD 1 0 * asg (advc k off 2)
        + chunk.getD 2 0 * asg (advc k off 3) + chunk.getD 3 0 * asg (advc k off 4) := by
  have hcu : cu = 1 ∨ cu = 2 ∨ cu = 3 ∨ cu = 4 := by omega
  match chunk, hl with
  | [], _ => simp [lcSum]; grind
  | [a], _ => simp [lcSum, lcLimb, advc, Nat.div_eq_of_lt h0, Nat.mod_eq_of_lt h0]; grind
  | [a, b], hl =>
    have : 1 < cu := by simp at hl; omega
    simp [lcSum, lcLimb, advc, Nat.div_eq_of_lt h0, Nat.mod_eq_of_lt h0, Nat.div_eq_of_lt this,
      Nat.mod_eq_of_lt this]; grind
  | [a, b, c], hl =>
    have h1 : 1 < cu := by simp at hl; omega
    have h2 : 2 < cu := by simp at hl; omega
    simp [lcSum, lcLimb, advc, Nat.div_eq_of_lt h0, Nat.mod_eq_of_lt h0, Nat.div_eq_of_lt h1,
      Nat.mod_eq_of_lt h1, Nat.div_eq_of_lt h2, Nat.mod_eq_of_lt h2]; grind
  | [a, b, c, d], hl =>
    have h1 : 1 < cu := by simp at hl; omega
    have h2 : 2 < cu := by simp at hl; omega
    have h3 : 3 < cu := by simp at hl; omega
    simp [lcSum, lcLimb, advc, Nat.div_eq_of_lt h0, Nat.mod_eq_of_lt h0, Nat.div_eq_of_lt h1,
      Nat.mod_eq_of_lt h1, Nat.div_eq_of_lt h2, Nat.mod_eq_of_lt h2, Nat.div_eq_of_lt h3,
      Nat.mod_eq_of_lt h3]; grind
  | _ :: _ :: _ :: _ :: _ :: _, hl => simp at hl; omega

/-- **Chain soundness** (`assign_linear_combination_aux`): if every row of the chain satisfies
the arithmetic gate, the cell in column 0 of the first row equals `const + Σ cⱼ·limbⱼ`,
for every number of terms and 1..4 terms per row. -/
theorem lcRows_sound (asg : Cell → F) (nr k : Nat) (cu : Nat) (h0 : 0 < cu) (h4 : cu ≤ 4)
    (coeffs : List F) (const : F) (off : Nat)
    (h : rowsHold R nr asg k off (lcRows cu coeffs const)) :
    asg (advc k off 0) = const + lcSum asg cu k off coeffs 0 := by
  induction hn : coeffs.length using Nat.strongRecOn generalizing coeffs const off with
  | _ n ih =>
    unfold lcRows at h
    by_cases hle : coeffs.length ≤ cu
    · have hc : (coeffs.length ≤ cu ∨ cu = 0) := Or.inl hle
      rw [if_pos hc] at h
      have ht : coeffs.take cu = coeffs := List.take_of_length_le hle
      rw [ht] at h
      simp only [rowsHold, lcRow, mkArith, Row.gatesHold, advc] at h
      rw [lcSum_head asg cu k off h0 h4 coeffs hle]
      simp only [advc]
      grind
    · have hc : ¬ (coeffs.length ≤ cu ∨ cu = 0) := by omega
      rw [if_neg hc] at h
      simp only [rowsHold] at h
      obtain ⟨hrow, _, _, hrest⟩ := h
      have hlen : (coeffs.drop cu).length < n := by simp only [List.length_drop]; omega
      have ih' := ih _ hlen (coeffs.drop cu) 0 (off + 1) hrest rfl
      have hsplit : coeffs = coeffs.take cu ++ coeffs.drop cu := (List.take_append_drop cu coeffs).symm
      have htl : (coeffs.take cu).length = cu := by simp only [List.length_take]; omega
      rw [hsplit, lcSum_append, htl, Nat.zero_add]
      have hshift := lcSum_shift asg cu k off h0 (coeffs.drop cu) 0
      rw [Nat.zero_add] at hshift
      rw [hshift, lcSum_head asg cu k off h0 h4 (coeffs.take cu) (by omega)]
      simp only [lcRow, mkArith, Row.gatesHold, advc] at hrow ih' ⊢
      grind

/-- `Σ c·asg x` over `(c, x)` terms. -/
def termSum (asg : Cell → F) : List (F × Cell) → F
  | [] => 0
  | t :: ts => t.1 * asg t.2 + termSum asg ts

theorem termSum_filter (asg : Cell → F) (terms : List (F × Cell)) :
    termSum asg (terms.filter (fun t => t.1 ≠ 0)) = termSum asg terms := by
  induction terms with
  | nil => rfl
  | cons t ts ih =>
    by_cases h : t.1 = 0
    · simp only [List.filter, h, termSum, ne_eq, not_true_eq_false, decide_false]
      rw [ih]; grind
    · simp only [List.filter, h, termSum, ne_eq, not_false_eq_true, decide_true]
      rw [ih]

theorem copiesHold_append (asg : Cell → F) (a b : List (Cell × Cell)) :
    copiesHold asg (a ++ b) ↔ copiesHold asg a ∧ copiesHold asg b := by
  induction a with
  | nil => simp [copiesHold]
  | cons p ps ih => obtain ⟨x, y⟩ := p; simp [copiesHold, ih, and_assoc]

theorem copiesHold_iff (asg : Cell → F) (a : List (Cell × Cell)) :
    copiesHold asg a ↔ ∀ p ∈ a, asg p.1 = asg p.2 := by
  induction a with
  | nil => simp [copiesHold]
  | cons p ps ih => obtain ⟨x, y⟩ := p; simp [copiesHold, ih]

theorem holds_copies' (s : St F) (l : List (Cell × Cell)) (asg : Cell → F) :
    (s.copies' l).Holds R asg ↔ (∀ p ∈ l, asg p.1 = asg p.2) ∧ s.Holds R asg := by
  simp only [St.Holds, St.copies', copiesHold_iff, List.mem_append, List.mem_reverse]
  constructor
  · intro h
    exact ⟨fun p hp => h.2 p (Or.inl hp), h.1, fun p hp => h.2 p (Or.inr hp)⟩
  · intro h
    exact ⟨h.2.1, fun p hp => hp.elim (h.1 p) (h.2.2 p)⟩

theorem cacheOK_copies' (s : St F) (l : List (Cell × Cell)) (asg : Cell → F) :
    (s.copies' l).CacheOK asg ↔ s.CacheOK asg := Iff.rfl

theorem lcSum_eq_termSum (asg : Cell → F) (cu k off : Nat) (terms : List (F × Cell)) (j : Nat)
    (h : ∀ p ∈ terms.zipIdx j, asg (lcLimb cu k off p.2) = asg p.1.2) :
    lcSum asg cu k off (terms.map (·.1)) j = termSum asg terms := by
  induction terms generalizing j with
  | nil => rfl
  | cons t ts ih =>
    simp only [List.map_cons, lcSum, termSum]
    have h0 := h (t, j) (by simp [List.zipIdx_cons])
    simp only at h0
    rw [h0, ih (j + 1)]
    intro p hp
    exact h p (by simp [List.zipIdx_cons, hp])

/-- `linear_combination`: the result cell equals `const + Σ cᵢ·xᵢ` for every number of terms
(zero coefficients are dropped, an empty sum is the cached constant). -/
theorem linearCombination_sound (s : St F) (terms : List (F × Cell)) (const : F) (asg : Cell → F)
    (hc : s.CacheOK asg) (h : (linearCombination s terms const).2.Holds R asg) :
    s.Holds R asg ∧ (linearCombination s terms const).2.CacheOK asg ∧
    asg (linearCombination s terms const).1 = const + termSum asg terms := by
  rw [← termSum_filter asg terms]
  unfold linearCombination at h ⊢
  generalize terms.filter (fun t => t.1 ≠ 0) = ts at h ⊢
  by_cases he : ts.isEmpty = true
  · simp only [he, if_true] at h ⊢
    obtain ⟨h1, h2, h3⟩ := assignFixed_sound s const asg hc h
    have : ts = [] := by simpa using he
    subst this
    refine ⟨h1, h2, ?_⟩
    rw [h3]; simp [termSum]; grind
  · simp only [he] at h ⊢
    simp only [addRegion_fst_regions, addRegion_snd, Bool.false_eq_true, if_false] at h ⊢
    rw [holds_copies'] at h
    obtain ⟨hcp, hreg⟩ := h
    have hreg' : ({ s with regions := lcRows 4 (ts.map (·.1)) const :: s.regions } : St F).Holds R asg := hreg
    rw [holds_addRegion] at hreg'
    obtain ⟨hrows, hs⟩ := hreg'
    refine ⟨hs, hc, ?_⟩
    have := lcRows_sound asg s.nrCols s.regions.length 4 (by omega) (by omega) _ _ 0 hrows
    rw [this, lcSum_eq_termSum]
    intro p hp
    have := hcp (lcLimb 4 s.regions.length 0 p.2, p.1.2) (by
      simp only [List.mem_map]
      exact ⟨p, hp, rfl⟩)
    simpa using this
