import MidnightZK.Model.C04.Native
/-! Basic lemmas about `St.Holds` / `St.CacheOK` and the primitive emitters. -/
namespace MidnightZK.C04
open Lean.Grind
attribute [local instance] Semiring.natCast
set_option linter.unusedSectionVars false

variable {F : Type} [Field F] [DecidableEq F]
variable {R : Nat → F → Prop}

@[simp] theorem addRegion_fst_regions (s : St F) (rows : List (Row F)) :
    (s.addRegion rows).1 = { s with regions := rows :: s.regions } := rfl
@[simp] theorem addRegion_snd (s : St F) (rows : List (Row F)) :
    (s.addRegion rows).2 = s.regions.length := rfl

theorem holds_addRegion (s : St F) (rows : List (Row F)) (asg : Cell → F) :
    ({ s with regions := rows :: s.regions } : St F).Holds R asg ↔
      rowsHold R s.nrCols asg s.regions.length 0 rows ∧ s.Holds R asg := by
  simp only [St.Holds, regionsHold]; constructor <;> (intro h; simp_all)

theorem holds_copy (s : St F) (a b : Cell) (asg : Cell → F) :
    (s.copy a b).Holds R asg ↔ asg a = asg b ∧ s.Holds R asg := by
  simp only [St.Holds, St.copy, copiesHold]; constructor <;> (intro h; simp_all)

theorem cacheOK_addRegion (s : St F) (rows : List (Row F)) (asg : Cell → F) :
    ({ s with regions := rows :: s.regions } : St F).CacheOK asg ↔ s.CacheOK asg := Iff.rfl

theorem cacheOK_copy (s : St F) (a b : Cell) (asg : Cell → F) :
    (s.copy a b).CacheOK asg ↔ s.CacheOK asg := Iff.rfl

theorem assignFixed_some (s : St F) (c : F) (p : F × Cell)
    (hp : s.cache.find? (fun p => p.1 = c) = some p) : assignFixed s c = (p.2, s) := by
  simp [assignFixed, hp]

theorem assignFixed_none (s : St F) (c : F)
    (hp : s.cache.find? (fun p => p.1 = c) = none) :
    assignFixed s c = (⟨s.regions.length, 0, .fix fixedValuesCol⟩,
      { s with regions := [{ fixedVal := some c }] :: s.regions,
               cache := (c, ⟨s.regions.length, 0, .fix fixedValuesCol⟩) :: s.cache }) := by
  simp [assignFixed, hp]

/-- `assign_fixed`: the returned cell holds the constant, whether it comes from the cache or
from a new fixed cell. -/
theorem assignFixed_sound (s : St F) (c : F) (asg : Cell → F) (hc : s.CacheOK asg)
    (h : (assignFixed s c).2.Holds R asg) :
    s.Holds R asg ∧ (assignFixed s c).2.CacheOK asg ∧ asg (assignFixed s c).1 = c := by
  cases hp : s.cache.find? (fun p => p.1 = c) with
  | some p =>
    rw [assignFixed_some s c p hp] at h ⊢
    have hm := List.mem_of_find?_eq_some hp
    have hp1 := List.find?_some hp
    simp at hp1
    exact ⟨h, hc, by rw [hc p hm, hp1]⟩
  | none =>
    rw [assignFixed_none s c hp] at h ⊢
    have h' : ({ s with regions := [{ fixedVal := some c }] :: s.regions } : St F).Holds R asg := h
    rw [holds_addRegion] at h'
    obtain ⟨hr, hs⟩ := h'
    simp [rowsHold, Row.fixedHold] at hr
    refine ⟨hs, ?_, hr.2.2⟩
    intro p hp
    simp only [List.mem_cons] at hp
    rcases hp with rfl | hp
    · exact hr.2.2
    · exact hc p hp

/-! ### States only grow -/

/-- `s'` extends `s`: same configuration, more regions and copy constraints. -/
def St.Ext (s s' : St F) : Prop :=
  s'.nrCols = s.nrCols ∧ s'.maxBitLen = s.maxBitLen ∧ (∃ rs, s'.regions = rs ++ s.regions) ∧
    (∃ cs, s'.copies = cs ++ s.copies)

theorem St.Ext.refl (s : St F) : s.Ext s := ⟨rfl, rfl, ⟨[], rfl⟩, ⟨[], rfl⟩⟩

theorem St.Ext.trans {a b c : St F} (h1 : a.Ext b) (h2 : b.Ext c) : a.Ext c := by
  obtain ⟨n1, m1, ⟨r1, e1⟩, ⟨c1, f1⟩⟩ := h1
  obtain ⟨n2, m2, ⟨r2, e2⟩, ⟨c2, f2⟩⟩ := h2
  exact ⟨by rw [n2, n1], by rw [m2, m1], ⟨r2 ++ r1, by rw [e2, e1, List.append_assoc]⟩,
    ⟨c2 ++ c1, by rw [f2, f1, List.append_assoc]⟩⟩

theorem regionsHold_append (nr : Nat) (asg : Cell → F) (rs base : List (List (Row F)))
    (h : regionsHold R nr asg (rs ++ base)) : regionsHold R nr asg base := by
  induction rs with
  | nil => exact h
  | cons r rs ih => exact ih h.2

theorem copiesHold_append_right (asg : Cell → F) (a b : List (Cell × Cell))
    (h : copiesHold asg (a ++ b)) : copiesHold asg b := by
  induction a with
  | nil => exact h
  | cons p ps ih => obtain ⟨x, y⟩ := p; exact ih h.2

/-- Constraints are never removed: an assignment accepted by the later state is accepted by the
earlier one. -/
theorem St.Ext.holds {s s' : St F} (e : s.Ext s') (asg : Cell → F) (h : s'.Holds R asg) :
    s.Holds R asg := by
  obtain ⟨n, _, ⟨rs, er⟩, ⟨cs, ec⟩⟩ := e
  obtain ⟨hr, hcp⟩ := h
  rw [er, n] at hr; rw [ec] at hcp
  exact ⟨regionsHold_append _ _ _ _ hr, copiesHold_append_right _ _ _ hcp⟩

theorem ext_addRegion (s : St F) (rows : List (Row F)) :
    s.Ext ({ s with regions := rows :: s.regions } : St F) := ⟨rfl, rfl, ⟨[rows], rfl⟩, ⟨[], rfl⟩⟩

theorem ext_copy (s : St F) (a b : Cell) : s.Ext (s.copy a b) :=
  ⟨rfl, rfl, ⟨[], rfl⟩, ⟨[(a, b)], rfl⟩⟩

theorem ext_copies' (s : St F) (l : List (Cell × Cell)) : s.Ext (s.copies' l) :=
  ⟨rfl, rfl, ⟨[], rfl⟩, ⟨l.reverse, rfl⟩⟩

theorem assignFixed_ext (s : St F) (c : F) : s.Ext (assignFixed s c).2 := by
  cases hp : s.cache.find? (fun p => p.1 = c) with
  | some p => rw [assignFixed_some s c p hp]; exact St.Ext.refl s
  | none => rw [assignFixed_none s c hp]; exact ⟨rfl, rfl, ⟨[_], rfl⟩, ⟨[], rfl⟩⟩

end MidnightZK.C04
