import MidnightZK.Proofs.C04.Vector
import MidnightZK.Model.C04.Map
/-! Soundness of `MapGadget::verify_path` / `get` (Model/C04/Map.lean) for an abstract hash chip,
and the binding property of the Merkle root under the stated injectivity assumption on the hash. -/
namespace MidnightZK.C04
open Lean.Grind
attribute [local instance] Semiring.natCast
set_option linter.unusedSectionVars false
set_option linter.unusedSimpArgs false
set_option linter.unusedVariables false

variable {F : Type} [Field F] [DecidableEq F]
variable {R : Nat → F → Prop}

/-- What the map gadget needs from the hash chip: its emitter only adds constraints, preserves
the bundled state invariant, and every accepted assignment gives the output cell the value
`H (left) (right)` of a FUNCTION `H` (the chip is a sound implementation of `H`: property C07 for
Poseidon). -/
structure HashSound (R : Nat → F → Prop) (hashE : St F → Cell → Cell → Cell × St F)
    (H : F → F → F) : Prop where
  ext : ∀ (s : St F) (a b : Cell), s.Ext (hashE s a b).2
  sound : ∀ (s : St F) (a b : Cell) (asg : Cell → F), s.OK asg → (hashE s a b).2.Holds R asg →
    (hashE s a b).2.OK asg ∧ asg (hashE s a b).1 = H (asg a) (asg b)

/-- The assumption is satisfiable: the hash chip of the correspondence harness implements
`x + 2y + 7 + 3xy`. -/
theorem toyHash_sound : HashSound R (toyHashE (F := F)) (fun x y => x + 2 * y + 7 + 3 * x * y) where
  ext := fun s a b => addAndMul_ext ..
  sound := fun s a b asg ok h => by
    obtain ⟨c1, r1⟩ := addAndMul_sound s 1 a 2 b 0 a 7 3 asg ok.hc h
    exact ⟨ok.step (addAndMul_ext ..) c1 (boundsOK_of_bounds_eq asg (addAndMul_bounds ..) ok.hB),
      by simp only [toyHashE]; rw [r1]; grind⟩

/-- The recomputation of `verify_path` on values: at every level the node is hashed with the
sibling, on the side given by the bit. -/
def climbSpec (H : F → F → F) : F → List (F × F) → F
  | node, [] => node
  | node, (b, sib) :: rest => climbSpec H (if b = 1 then H sib node else H node sib) rest

/-- **The Merkle root is binding** under injectivity of the hash (the idealisation of collision
resistance, stated as a hypothesis): two openings of the same root along the same bits have the same
leaf value. -/
theorem merkle_binding (H : F → F → F) (hcr : ∀ a b c d : F, H a b = H c d → a = c ∧ b = d) :
    ∀ (bits : List F) (p p' : List F) (v v' : F), p.length = p'.length →
      climbSpec H v (bits.zip p) = climbSpec H v' (bits.zip p') → v = v'
  | [], _, _, v, v', _, h => by simpa [climbSpec] using h
  | b :: bits, [], p', v, v', hl, h => by
    cases p' with
    | nil => simpa [climbSpec] using h
    | cons _ _ => simp at hl
  | b :: bits, s :: p, [], v, v', hl, h => by simp at hl
  | b :: bits, s :: p, s' :: p', v, v', hl, h => by
    simp only [List.zip_cons_cons, climbSpec] at h
    have := merkle_binding H hcr bits p p' _ _ (by simpa using hl) h
    by_cases hb : b = 1
    · simp only [hb, if_true] at this; exact (hcr _ _ _ _ this).2
    · simp only [hb, if_false] at this; exact (hcr _ _ _ _ this).1

theorem condSwap_bounds (s : St F) (c x y : Cell) : (condSwap s c x y).2.bounds = s.bounds := rfl

theorem mapClimb_ext {hashE : St F → Cell → Cell → Cell × St F} {H : F → F → F}
    (hH : HashSound R hashE H) : ∀ (pairs : List (Cell × Cell)) (s : St F) (node : Cell),
    s.Ext (mapClimb hashE s node pairs).2
  | [], s, _ => St.Ext.refl s
  | (b, sib) :: rest, s, node => by
    simp only [mapClimb]
    exact (condSwap_ext ..).trans ((hH.ext ..).trans (mapClimb_ext hH rest _ _))

/-- The loop of `verify_path`: with boolean direction bits, the final node is `climbSpec`. -/
theorem mapClimb_sound {hashE : St F → Cell → Cell → Cell × St F} {H : F → F → F}
    (hH : HashSound R hashE H) (asg : Cell → F) :
    ∀ (pairs : List (Cell × Cell)) (s : St F) (node : Cell),
      (∀ q ∈ pairs, asg q.1 = 0 ∨ asg q.1 = 1) → s.OK asg →
      (mapClimb hashE s node pairs).2.Holds R asg →
      (mapClimb hashE s node pairs).2.OK asg ∧
      asg (mapClimb hashE s node pairs).1
        = climbSpec H (asg node) (pairs.map (fun q => (asg q.1, asg q.2)))
  | [], s, node, _, ok, _ => ⟨ok, rfl⟩
  | (b, sib) :: rest, s, node, hb, ok, h => by
    simp only [mapClimb] at h ⊢
    have h2 := (mapClimb_ext hH rest _ _).holds asg h
    have h1 := (hH.ext ..).holds asg h2
    obtain ⟨c1, rs, rf⟩ := condSwap_sound s b node sib asg ok.hc h1
    have ok1 : (condSwap s b node sib).2.OK asg :=
      ok.step (condSwap_ext ..) c1 (boundsOK_of_bounds_eq asg (condSwap_bounds ..) ok.hB)
    obtain ⟨ok2, r2⟩ := hH.sound _ _ _ asg ok1 h2
    obtain ⟨ok3, r3⟩ := mapClimb_sound hH asg rest _ _
      (fun q hq => hb q (List.mem_cons_of_mem _ hq)) ok2 h
    refine ⟨ok3, ?_⟩
    rw [r3, r2, rs, rf]
    simp only [List.map_cons, climbSpec]
    congr 1
    rcases hb (b, sib) (List.mem_cons_self ..) with h0 | h1'
    · have h01 : ¬ ((0 : F) = 1) := Field.zero_ne_one
      simp only at h0
      rw [h0]; simp only [h01, if_false]; congr 1 <;> grind
    · simp only at h1'
      rw [h1']; simp only [if_true]; congr 1 <;> grind

theorem mapVerifyPath_ext {hashE : St F → Cell → Cell → Cell × St F} {H : F → F → F}
    (hH : HashSound R hashE H) (s : St F) (key value : Cell) (proof : List Cell) (root : Cell)
    (numBits halfP : Nat) (hm : 1 ≤ s.maxBitLen) :
    s.Ext (mapVerifyPath hashE s key value proof root numBits halfP) := by
  simp only [mapVerifyPath]
  have e2 := (assignFixed_ext s (0 : F)).trans (hH.ext (assignFixed s (0 : F)).2 key (assignFixed s (0 : F)).1)
  exact e2.trans ((assignedToLeBits_ext _ _ _ _ _ _ (by rw [e2.2.1]; exact hm)).trans
    ((mapClimb_ext hH ..).trans (gAssertEqual_ext ..)))

theorem cellsHold_bits {asg : Cell → F} : ∀ {cs : List Cell} {vs : List Nat},
    CellsHold asg cs vs → (∀ b ∈ vs, b < 2) → ∀ c ∈ cs, asg c = 0 ∨ asg c = 1
  | [], [], _, _ => by intro c hc; simp at hc
  | c :: cs, v :: vs, h, hv => by
    intro c' hc'
    rcases List.mem_cons.mp hc' with rfl | hc'
    · have hv0 := hv v (List.mem_cons_self ..)
      rw [h.1]
      have : v = 0 ∨ v = 1 := by omega
      rcases this with rfl | rfl
      · left; exact natCast_zero'
      · right; exact natCast_one'
    · exact cellsHold_bits h.2 (fun b hb => hv b (List.mem_cons_of_mem _ hb)) c' hc'
  | [], _ :: _, h, _ => by simp [CellsHold] at h
  | _ :: _, [], h, _ => by simp [CellsHold] at h

theorem take_cast_eq {asg : Cell → F} {cells : List Cell} {bs : List Nat} (h : CellsHold asg cells bs)
    (n : Nat) : (List.take n bs).map (fun (k : Nat) => (k : F)) = (List.take n cells).map asg := by
  rw [List.map_take, List.map_take, h.map_eq]

/-- **`verify_path`** (map_gadget.rs), for an abstract sound hash chip: EVERY accepted assignment
satisfies `root = climb(value, siblings)` along the first 128 CANONICAL bits `bs` of
`H(key, 0)` (the bits are determined by the key: `fromLimbs 2 bs < p` and `H(key, 0) = Σ 2^i bs_i`). -/
theorem mapVerifyPath_sound {hashE : St F → Cell → Cell → Cell × St F} {H : F → F → F}
    (hH : HashSound R hashE H) (hR : RangeSound R) (p : Nat) (hodd : p % 2 = 1)
    (hp2 : 2 < p) (hp0 : ((p : Nat) : F) = 0)
    (hinj : ∀ a b : Nat, a < p → b < p → ((a : Nat) : F) = ((b : Nat) : F) → a = b)
    (numBits : Nat) (hnb0 : 0 < numBits) (hnb : 2 ^ numBits ≤ 2 * p)
    (s : St F) (key value : Cell) (proof : List Cell) (root : Cell) (asg : Cell → F) (ok : s.OK asg)
    (h : (mapVerifyPath hashE s key value proof root numBits ((p + 1) / 2)).Holds R asg) :
    (mapVerifyPath hashE s key value proof root numBits ((p + 1) / 2)).OK asg ∧
    ∃ bs : List Nat, bs.length = numBits ∧ (∀ b ∈ bs, b < 2) ∧ fromLimbs 2 bs < p ∧
      H (asg key) 0 = ((fromLimbs 2 bs : Nat) : F) ∧
      asg root = climbSpec H (asg value)
        (((bs.take treeHeight).map (fun (n : Nat) => (n : F))).zip (proof.map asg)) := by
  simp only [mapVerifyPath] at h ⊢
  have e2 := (assignFixed_ext s (0 : F)).trans (hH.ext (assignFixed s (0 : F)).2 key (assignFixed s (0 : F)).1)
  have hm2 : 1 ≤ (hashE (assignFixed s (0 : F)).2 key (assignFixed s (0 : F)).1).2.maxBitLen := by
    rw [e2.2.1]; exact ok.hm
  have h4 := (gAssertEqual_ext ..).holds asg h
  have h3 := (mapClimb_ext hH ..).holds asg h4
  have h2 := (assignedToLeBits_ext _ _ _ _ _ _ hm2).holds asg h3
  have h1 := (hH.ext ..).holds asg h2
  obtain ⟨ok1, r1⟩ := ok_assignFixed s 0 asg ok h1
  obtain ⟨ok2, r2⟩ := hH.sound _ _ _ asg ok1 h2
  obtain ⟨c3, B3, bs, hl, hlt, hcells, hval, hltp⟩ := assignedToLeBits_canonical_sound hR p hodd hp2
    hp0 hinj numBits hnb0 hnb _ _ asg ok2.hm ok2.h0 ok2.h4 (optOK_all _ _ ok2.h0 ok2.hm) ok2.hc ok2.hB h3
  have ok3 := ok2.step (assignedToLeBits_ext _ _ _ _ _ _ hm2) c3 B3
  have hbits := cellsHold_bits hcells hlt
  obtain ⟨ok4, r4⟩ := mapClimb_sound hH asg _ _ _ (fun q hq => by
    have := (List.of_mem_zip hq).1
    exact hbits _ (List.mem_of_mem_take this)) ok3 h4
  obtain ⟨c5, B5, r5⟩ := gAssertEqual_sound _ _ _ asg ok4.hc ok4.hB h
  refine ⟨ok4.step (gAssertEqual_ext ..) c5 B5, bs, hl, hlt, hltp, ?_, ?_⟩
  · rw [← hval, r2, r1]
  · rw [← r5, r4]
    congr 1
    rw [take_cast_eq hcells treeHeight, List.zip_map]
    apply List.map_congr_left
    intro q _
    rfl

theorem bits_unique : ∀ (bs bs' : List Nat), bs.length = bs'.length → (∀ b ∈ bs, b < 2) →
    (∀ b ∈ bs', b < 2) → fromLimbs 2 bs = fromLimbs 2 bs' → bs = bs'
  | [], [], _, _, _, _ => rfl
  | [], _ :: _, h, _, _, _ => by simp at h
  | _ :: _, [], h, _, _, _ => by simp at h
  | a :: t, a' :: t', hl, h1, h2, he => by
    simp only [fromLimbs] at he
    have ha := h1 a (List.mem_cons_self ..)
    have ha' := h2 a' (List.mem_cons_self ..)
    have : a = a' ∧ fromLimbs 2 t = fromLimbs 2 t' := by omega
    rw [this.1, bits_unique t t' (by simpa using hl) (fun b hb => h1 b (List.mem_cons_of_mem _ hb))
      (fun b hb => h2 b (List.mem_cons_of_mem _ hb)) this.2]

theorem mapGet_ext {hashE : St F → Cell → Cell → Cell × St F} {H : F → F → F}
    (hH : HashSound R hashE H) (s : St F) (key root : Cell) (numBits halfP : Nat)
    (hm : 1 ≤ s.maxBitLen) : s.Ext (mapGet hashE s key root numBits halfP).2 := by
  simp only [mapGet]
  exact (assign_ext s).trans ((assignMany_ext ..).trans (mapVerifyPath_ext hH _ _ _ _ _ _ _ hm))

/-- **`get`** (map_gadget.rs): the value the circuit returns for a key is THE value the root
commits to at the leaf of that key — for every opening `(v₀, path₀)` of the root along the
canonical bits of `H(key, 0)` (in particular the opening the committed map provides), every
accepted assignment has `value = v₀`. Assumptions, stated: the hash chip is a sound implementation
of a function `H` (`HashSound`) and `H` is injective (`hcr`: collision resistance, idealised). -/
theorem mapGet_sound {hashE : St F → Cell → Cell → Cell × St F} {H : F → F → F}
    (hH : HashSound R hashE H) (hcr : ∀ a b c d : F, H a b = H c d → a = c ∧ b = d)
    (hR : RangeSound R) (p : Nat) (hodd : p % 2 = 1)
    (hp2 : 2 < p) (hp0 : ((p : Nat) : F) = 0)
    (hinj : ∀ a b : Nat, a < p → b < p → ((a : Nat) : F) = ((b : Nat) : F) → a = b)
    (numBits : Nat) (hnb0 : 0 < numBits) (hnb : 2 ^ numBits ≤ 2 * p)
    (s : St F) (key root : Cell) (asg : Cell → F) (ok : s.OK asg)
    (h : (mapGet hashE s key root numBits ((p + 1) / 2)).2.Holds R asg)
    (v₀ : F) (path₀ : List F) (bs₀ : List Nat) (hl₀ : bs₀.length = numBits)
    (hb₀ : ∀ b ∈ bs₀, b < 2) (hlt₀ : fromLimbs 2 bs₀ < p)
    (hk₀ : H (asg key) 0 = ((fromLimbs 2 bs₀ : Nat) : F)) (hp₀ : path₀.length = treeHeight)
    (hopen : climbSpec H v₀ (((bs₀.take treeHeight).map (fun (n : Nat) => (n : F))).zip path₀)
      = asg root) :
    asg (mapGet hashE s key root numBits ((p + 1) / 2)).1 = v₀ := by
  simp only [mapGet] at h ⊢
  have ok1 : (assign s).2.OK asg := ok.step (assign_ext s) ok.hc ok.hB
  have ok2 : (assignMany (assign s).2 treeHeight).2.OK asg :=
    ok1.step (assignMany_ext ..) ok1.hc ok1.hB
  obtain ⟨_, bs, hl, hlt, hltp, hk, hroot⟩ := mapVerifyPath_sound hH hR p hodd hp2 hp0 hinj numBits
    hnb0 hnb _ key _ _ root asg ok2 h
  have hbs : bs = bs₀ := bits_unique bs bs₀ (by rw [hl, hl₀]) hlt hb₀
    (hinj _ _ hltp hlt₀ (by rw [← hk, ← hk₀]))
  subst hbs
  rw [hroot] at hopen
  exact (merkle_binding H hcr _ _ _ _ _ (by
    rw [hp₀, List.length_map, assignMany_length]) hopen).symm

/-- **`insert`** (map_gadget.rs): every accepted assignment exhibits ONE list of 128 siblings and
one leaf value `cur` such that the old root is the climb from `cur` and the new root the climb
from the inserted value along the same siblings and the same canonical bits of `H(key, 0)`: the
new root commits to the old map with exactly the leaf of `key` replaced. -/
theorem mapInsert_sound {hashE : St F → Cell → Cell → Cell × St F} {H : F → F → F}
    (hH : HashSound R hashE H) (hR : RangeSound R) (p : Nat) (hodd : p % 2 = 1)
    (hp2 : 2 < p) (hp0 : ((p : Nat) : F) = 0)
    (hinj : ∀ a b : Nat, a < p → b < p → ((a : Nat) : F) = ((b : Nat) : F) → a = b)
    (numBits : Nat) (hnb0 : 0 < numBits) (hnb : 2 ^ numBits ≤ 2 * p)
    (s : St F) (key value root : Cell) (asg : Cell → F) (ok : s.OK asg)
    (h : (mapInsert hashE s key value root numBits ((p + 1) / 2)).2.Holds R asg) :
    ∃ (bs : List Nat) (path : List F) (cur : F), bs.length = numBits ∧ (∀ b ∈ bs, b < 2) ∧
      fromLimbs 2 bs < p ∧ H (asg key) 0 = ((fromLimbs 2 bs : Nat) : F) ∧ path.length = treeHeight ∧
      asg root = climbSpec H cur (((bs.take treeHeight).map (fun (n : Nat) => (n : F))).zip path) ∧
      asg (mapInsert hashE s key value root numBits ((p + 1) / 2)).1
        = climbSpec H (asg value) (((bs.take treeHeight).map (fun (n : Nat) => (n : F))).zip path) := by
  simp only [mapInsert] at h ⊢
  have ok1 : (assign s).2.OK asg := ok.step (assign_ext s) ok.hc ok.hB
  have ok2 : (assignMany (assign s).2 treeHeight).2.OK asg :=
    ok1.step (assignMany_ext ..) ok1.hc ok1.hB
  have e3 := mapVerifyPath_ext hH (assignMany (assign s).2 treeHeight).2 key (assign s).1
    (assignMany (assign s).2 treeHeight).1 root numBits ((p + 1) / 2) ok2.hm
  have hm3 : 1 ≤ (mapVerifyPath hashE (assignMany (assign s).2 treeHeight).2 key (assign s).1
      (assignMany (assign s).2 treeHeight).1 root numBits ((p + 1) / 2)).maxBitLen := by
    rw [e3.2.1]; exact ok2.hm
  have h2 := (mapVerifyPath_ext hH _ _ _ _ _ _ _ (by
    show 1 ≤ (assign _).2.maxBitLen
    exact hm3)).holds asg h
  have h1 := (assign_ext _).holds asg h2
  obtain ⟨ok3, bs, hl, hlt, hltp, hk, hroot⟩ := mapVerifyPath_sound hH hR p hodd hp2 hp0 hinj numBits
    hnb0 hnb _ key _ _ root asg ok2 h1
  have ok4 := ok3.step (assign_ext _) ok3.hc ok3.hB
  obtain ⟨_, bs', hl', hlt', hltp', hk', hroot'⟩ := mapVerifyPath_sound hH hR p hodd hp2 hp0 hinj
    numBits hnb0 hnb _ key value _ _ asg ok4 h
  have hbs : bs' = bs := bits_unique bs' bs (by rw [hl', hl]) hlt' hlt
    (hinj _ _ hltp' hltp (by rw [← hk', ← hk]))
  subst hbs
  exact ⟨bs', _, _, hl', hlt', hltp', hk', by rw [List.length_map, assignMany_length], hroot, hroot'⟩

end MidnightZK.C04
