import MidnightZK.Model.C04.Decomp
import MidnightZK.Proofs.C04.Basic
/-! Range checks: the tagged linear-combination chain of `decompose_core` forces the recomposed
value to be (the image of) a natural number below `2^(Σ limb sizes)`. -/
namespace MidnightZK.C04
open Lean.Grind
attribute [local instance] Semiring.natCast
set_option linter.unusedSectionVars false
set_option linter.unusedSimpArgs false
set_option linter.unusedVariables false

variable {F : Type} [Field F] [DecidableEq F]
variable {R : Nat → F → Prop}

/-- What membership in the pow2range table means: a value looked up with tag `t` is the image
of a natural number below `2^t` (the loaded table is checked on every run to enumerate exactly
`[0, 2^t)` for each tag). -/
def RangeSound (R : Nat → F → Prop) : Prop := ∀ t v, R t v → ∃ n : Nat, n < 2 ^ t ∧ v = (n : F)

/-- Every limb of a chunk is zero-sized or has the size of the chunk's first limb (asserted by
`decompose_core`, chip.rs condition 3). -/
def chunkOK (chunk : List Nat) : Prop := ∀ x ∈ chunk, x = 0 ∨ chunk.head? = some x

def sizesOK (nr : Nat) (sizes : List Nat) : Prop := ∀ j, chunkOK ((sizes.drop (j * nr)).take nr)

theorem sizesOK_head (nr : Nat) (sizes : List Nat) (h : sizesOK nr sizes) : chunkOK (sizes.take nr) := by
  have := h 0; simpa using this

theorem sizesOK_drop (nr : Nat) (sizes : List Nat) (h : sizesOK nr sizes) : sizesOK nr (sizes.drop nr) := by
  intro j
  have := h (j + 1)
  rw [List.drop_drop]
  rw [show nr + j * nr = (j + 1) * nr by rw [Nat.add_mul]; omega]
  exact this

/-- `Σ cᵢ·asg(cellᵢ)` over one chunk, with `cᵢ = 2^shiftᵢ` (0 for zero-sized limbs). -/
def chunkVal (asg : Cell → F) (k off : Nat) : Nat → Nat → List Nat → F
  | _, _, [] => 0
  | col, shift, sz :: rest =>
    (((if sz = 0 then 0 else 2 ^ shift : Nat) : Nat) : F) * asg (advc k off col)
      + chunkVal asg k off (col + 1) (shift + sz) rest

theorem natCast_add' (a b : Nat) : ((a + b : Nat) : F) = (a : F) + (b : F) := Semiring.natCast_add a b
theorem natCast_mul' (a b : Nat) : ((a * b : Nat) : F) = (a : F) * (b : F) := Semiring.natCast_mul a b

theorem chunkVal_bound (asg : Cell → F) (k off : Nat) (chunk : List Nat) (col shift : Nat)
    (hR : ∀ i (hi : i < chunk.length), chunk[i] ≠ 0 →
      ∃ n : Nat, n < 2 ^ chunk[i] ∧ asg (advc k off (col + i)) = (n : F)) :
    ∃ N : Nat, N < 2 ^ chunk.sum ∧ chunkVal asg k off col shift chunk = ((2 ^ shift * N : Nat) : F) := by
  induction chunk generalizing col shift with
  | nil => exact ⟨0, by simp, by simp [chunkVal]; exact (Semiring.natCast_zero).symm⟩
  | cons sz rest ih =>
    have hrest := ih (col + 1) (shift + sz) (by
      intro i hi hne
      have := hR (i + 1) (by simp; omega) (by simpa using hne)
      simp only [List.getElem_cons_succ] at this
      rw [show col + (i + 1) = col + 1 + i by omega] at this
      exact this)
    obtain ⟨N', hN', hv'⟩ := hrest
    simp only [chunkVal, hv', List.sum_cons]
    by_cases hsz : sz = 0
    · subst hsz
      refine ⟨N', by simpa using hN', ?_⟩
      simp only [if_true, Nat.add_zero]
      rw [Semiring.natCast_zero]; grind
    · obtain ⟨n, hn, hvn⟩ := hR 0 (by simp) (by simpa using hsz)
      simp only [List.getElem_cons_zero, Nat.add_zero] at hn hvn
      refine ⟨n + 2 ^ sz * N', ?_, ?_⟩
      · have : 2 ^ (sz + rest.sum) = 2 ^ sz * 2 ^ rest.sum := Nat.pow_add 2 sz rest.sum
        rw [this]
        have h1 : 2 ^ sz * N' + 2 ^ sz ≤ 2 ^ sz * 2 ^ rest.sum := by
          have : N' + 1 ≤ 2 ^ rest.sum := hN'
          calc 2 ^ sz * N' + 2 ^ sz = 2 ^ sz * (N' + 1) := by rw [Nat.mul_add, Nat.mul_one]
            _ ≤ 2 ^ sz * 2 ^ rest.sum := Nat.mul_le_mul_left _ this
        omega
      · simp only [hsz, if_false, hvn]
        rw [← natCast_mul', ← natCast_add']
        congr 1
        rw [Nat.pow_add, Nat.mul_add]
        rw [Nat.mul_assoc]

/-- The chunk part of the gate of one `decompose_core` row is `chunkVal`. -/
theorem lcRow_chunk (asg : Cell → F) (k off shift : Nat) (chunk : List Nat) (h4 : chunk.length ≤ 4) :
    let coeffs : List F := (limbCoeffsAux shift chunk).map (fun (n : Nat) => (n : F))
    coeffs.getD 0 0 * asg (advc k off 1) + coeffs.getD 1 0 * asg (advc k off 2)
      + coeffs.getD 2 0 * asg (advc k off 3) + coeffs.getD 3 0 * asg (advc k off 4)
      = chunkVal asg k off 1 shift chunk := by
  match chunk, h4 with
  | [], _ => simp [limbCoeffsAux, chunkVal] <;> grind
  | [a], _ => simp [limbCoeffsAux, chunkVal] <;> grind
  | [a, b], _ => simp [limbCoeffsAux, chunkVal] <;> grind
  | [a, b, c], _ => simp [limbCoeffsAux, chunkVal] <;> grind
  | [a, b, c, d], _ => simp [limbCoeffsAux, chunkVal] <;> grind
  | _ :: _ :: _ :: _ :: _ :: _, h => simp at h

theorem rowsHold_tag_irrelevant_gates (asg : Cell → F) (k off : Nat) (row : Row F) (t : Option Nat) :
    ({ row with tag := t } : Row F).gatesHold asg k off ↔ row.gatesHold asg k off := Iff.rfl

/-- **Soundness of `decompose_core`** for every list of limb sizes, every number `1..4` of
pow2range columns and every position in the chain: if the rows hold (gates + lookups), the
cell in column 0 is the image of a natural number below `2^(Σ sizes)` (scaled by `2^shift`
inside the chain). -/
theorem decompRows_sound (hR : RangeSound R) (asg : Cell → F) (nr k : Nat) (h0 : 0 < nr) (h4 : nr ≤ 4)
    (sizes : List Nat) (shift off : Nat) (hok : sizesOK nr sizes)
    (h : rowsHold R nr asg k off (decompRows nr sizes shift)) :
    ∃ N : Nat, N < 2 ^ sizes.sum ∧ asg (advc k off 0) = ((2 ^ shift * N : Nat) : F) := by
  induction hn : sizes.length using Nat.strongRecOn generalizing sizes shift off with
  | _ n ih =>
    have hchunkOK := sizesOK_head nr sizes hok
    have hclen : (sizes.take nr).length ≤ 4 := by simp only [List.length_take]; omega
    -- range facts for the cells of this row, from the row's lookups
    have hrange : ∀ (row : Row F), row.tag = (sizes.take nr).head? →
        row.lookupsHold R nr asg k off →
        ∀ i (hi : i < (sizes.take nr).length), (sizes.take nr)[i] ≠ 0 →
          ∃ m : Nat, m < 2 ^ (sizes.take nr)[i] ∧ asg (advc k off (1 + i)) = (m : F) := by
      intro row htag hl i hi hne
      have hmem : (sizes.take nr)[i] ∈ sizes.take nr := List.getElem_mem hi
      rcases hchunkOK _ hmem with h0' | hh
      · exact absurd h0' hne
      · simp only [Row.lookupsHold, htag, hh] at hl
        have hi' : i < nr := by
          have : (sizes.take nr).length ≤ nr := by simp only [List.length_take]; omega
          omega
        exact hR _ _ (hl (1 + i) (by omega) (by omega))
    unfold decompRows at h
    by_cases hle : sizes.length ≤ nr
    · have hc : (sizes.length ≤ nr ∨ nr = 0) := Or.inl hle
      simp only [hc, if_true] at h
      simp only [rowsHold] at h
      obtain ⟨hg, hl, _, _⟩ := h
      obtain ⟨N, hN, hv⟩ := chunkVal_bound asg k off (sizes.take nr) 1 shift
        (hrange _ rfl hl)
      have ht : sizes.take nr = sizes := List.take_of_length_le hle
      refine ⟨N, by rw [ht] at hN; exact hN, ?_⟩
      rw [← hv, ← lcRow_chunk asg k off shift (sizes.take nr) hclen]
      simp only [Row.gatesHold, lcRow, mkArith, advc] at hg ⊢
      grind
    · have hc : ¬ (sizes.length ≤ nr ∨ nr = 0) := by omega
      simp only [hc, if_false] at h
      simp only [rowsHold] at h
      obtain ⟨hg, hl, _, hrest⟩ := h
      obtain ⟨N1, hN1, hv1⟩ := chunkVal_bound asg k off (sizes.take nr) 1 shift
        (hrange _ rfl hl)
      have hlen : (sizes.drop nr).length < n := by simp only [List.length_drop]; omega
      obtain ⟨N2, hN2, hv2⟩ := ih _ hlen (sizes.drop nr) (shift + (sizes.take nr).sum) (off + 1)
        (sizesOK_drop nr sizes hok) hrest rfl
      have hsum : sizes.sum = (sizes.take nr).sum + (sizes.drop nr).sum := by
        rw [← List.sum_append, List.take_append_drop]
      refine ⟨N1 + 2 ^ (sizes.take nr).sum * N2, ?_, ?_⟩
      · rw [hsum, Nat.pow_add]
        have : N2 + 1 ≤ 2 ^ (sizes.drop nr).sum := hN2
        have h1 : 2 ^ (sizes.take nr).sum * N2 + 2 ^ (sizes.take nr).sum
            ≤ 2 ^ (sizes.take nr).sum * 2 ^ (sizes.drop nr).sum := by
          calc 2 ^ (sizes.take nr).sum * N2 + 2 ^ (sizes.take nr).sum
              = 2 ^ (sizes.take nr).sum * (N2 + 1) := by rw [Nat.mul_add, Nat.mul_one]
            _ ≤ _ := Nat.mul_le_mul_left _ this
        omega
      · have e : (2 ^ shift * (N1 + 2 ^ (sizes.take nr).sum * N2) : Nat)
            = 2 ^ shift * N1 + 2 ^ (shift + (sizes.take nr).sum) * N2 := by
          rw [Nat.mul_add, Nat.pow_add, Nat.mul_assoc]
        rw [e, natCast_add', ← hv1, ← hv2, ← lcRow_chunk asg k off shift (sizes.take nr) hclen]
        simp only [Row.gatesHold, lcRow, mkArith, advc] at hg ⊢
        grind
