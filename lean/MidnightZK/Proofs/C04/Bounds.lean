import MidnightZK.Proofs.C04.Range2
import MidnightZK.Proofs.C04.Bool
/-! The bound cache of `NativeGadget` (`constrained_cells`): the invariant that justifies the
early returns of `assert_lower_than_fixed`, `lower_than_fixed` and of the conversions
native → bit / byte. `St.BoundsOK s asg`: every recorded strict upper bound is enforced by the
constraints emitted so far (i.e. holds for every assignment `asg` that satisfies them). -/
namespace MidnightZK.C04
open Lean.Grind
attribute [local instance] Semiring.natCast
set_option linter.unusedSectionVars false
set_option linter.unusedSimpArgs false
set_option linter.unusedVariables false

variable {F : Type} [Field F] [DecidableEq F]
variable {R : Nat → F → Prop}

/-- `x` is (the image of) a natural number below `b`. -/
def IsNatLt (asg : Cell → F) (x : Cell) (b : Nat) : Prop := ∃ n : Nat, n < b ∧ asg x = (n : F)

/-- Every bound recorded in `constrained_cells` holds under `asg`. -/
def St.BoundsOK (s : St F) (asg : Cell → F) : Prop :=
  ∀ p ∈ s.bounds, IsNatLt asg p.1 p.2

theorem IsNatLt.mono {asg : Cell → F} {x : Cell} {a b : Nat} (h : IsNatLt asg x a) (hab : a ≤ b) :
    IsNatLt asg x b := by
  obtain ⟨n, hn, hv⟩ := h
  exact ⟨n, by omega, hv⟩

theorem getBound_mem (s : St F) (c : Cell) (v : Nat) (h : s.getBound c = some v) :
    (c, v) ∈ s.bounds := by
  unfold St.getBound at h
  cases hf : s.bounds.find? (fun p => p.1 = c) with
  | none => simp [hf] at h
  | some p =>
    simp [hf] at h
    have hm := List.mem_of_find?_eq_some hf
    have hp := List.find?_some hf
    simp at hp
    obtain ⟨a, b⟩ := p
    simp at hp h
    subst hp; subst h
    exact hm

/-- The early-return test of `assert_lower_than_fixed` / `lower_than_fixed` / `convert`: a
recorded bound `≤ b` means the cell is below `b`. -/
theorem boundLe_sound (s : St F) (asg : Cell → F) (hB : s.BoundsOK asg) (x : Cell) (b : Nat)
    (h : s.boundLe x b = true) : IsNatLt asg x b := by
  unfold St.boundLe at h
  cases hg : s.getBound x with
  | none => simp [hg] at h
  | some v =>
    simp [hg] at h
    exact (hB (x, v) (getBound_mem s x v hg)).mono h

/-- `update_bound`: recording a bound that holds keeps the invariant (the new entry is the
minimum of the old and the new bound). -/
theorem updateBound_boundsOK (s : St F) (asg : Cell → F) (hB : s.BoundsOK asg) (c : Cell) (b : Nat)
    (hc : IsNatLt asg c b) : (s.updateBound c b).BoundsOK asg := by
  unfold St.updateBound
  cases hg : s.getBound c with
  | none =>
    simp only
    intro p hp
    simp only [List.mem_cons] at hp
    rcases hp with rfl | hp
    · exact hc
    · exact hB p hp
  | some v =>
    simp only
    intro p hp
    simp only [List.mem_cons, List.mem_filter] at hp
    rcases hp with rfl | ⟨hp, _⟩
    · have hv := hB (c, v) (getBound_mem s c v hg)
      simp only
      by_cases hvb : v ≤ b
      · rw [Nat.min_eq_left hvb]; exact hv
      · rw [Nat.min_eq_right (by omega)]; exact hc
    · exact hB p hp

theorem boundsOK_of_bounds_eq {s s' : St F} (asg : Cell → F) (e : s'.bounds = s.bounds)
    (h : s.BoundsOK asg) : s'.BoundsOK asg := by
  unfold St.BoundsOK at *; rw [e]; exact h

/-! ### emitters of the native chip never touch the bound cache -/

theorem assignFixed_bounds (s : St F) (c : F) : (assignFixed s c).2.bounds = s.bounds := by
  unfold assignFixed; split <;> rfl

theorem queryTag_bounds (s : St F) (t : Nat) : (s.queryTag t).bounds = s.bounds := by
  unfold St.queryTag; split <;> rfl

theorem foldl_queryTag_bounds (tags : List Nat) (s : St F) :
    (tags.foldl (fun s t => s.queryTag t) s).bounds = s.bounds := by
  induction tags generalizing s with
  | nil => rfl
  | cons t ts ih => simp only [List.foldl_cons]; rw [ih, queryTag_bounds]

theorem assign_bounds (s : St F) : (assign s).2.bounds = s.bounds := rfl
theorem assignBit_bounds (s : St F) : (assignBit s).2.bounds = s.bounds := rfl
theorem assertEqual_bounds (s : St F) (x y : Cell) : (assertEqual s x y).bounds = s.bounds := rfl
theorem addAndDoubleMul_bounds (s : St F) (a : F) (x : Cell) (b : F) (y : Cell) (c : F) (z : Cell)
    (k m1 m2 : F) : (addAndDoubleMul s a x b y c z k m1 m2).2.bounds = s.bounds := rfl
theorem addAndMul_bounds (s : St F) (a : F) (x : Cell) (b : F) (y : Cell) (c : F) (z : Cell)
    (k m : F) : (addAndMul s a x b y c z k m).2.bounds = s.bounds := rfl
theorem select_bounds (s : St F) (c x y : Cell) : (select s c x y).2.bounds = s.bounds := rfl

theorem linearCombination_bounds (s : St F) (terms : List (F × Cell)) (k : F) :
    (linearCombination s terms k).2.bounds = s.bounds := by
  unfold linearCombination; simp only; split
  · exact assignFixed_bounds s k
  · rfl

theorem addConstant_bounds (s : St F) (x : Cell) (c : F) : (addConstant s x c).2.bounds = s.bounds := by
  unfold addConstant; split
  · rfl
  · exact linearCombination_bounds ..

theorem not_bounds (s : St F) (b : Cell) : (not s b).2.bounds = s.bounds :=
  linearCombination_bounds ..

theorem mul_bounds (s : St F) (x y : Cell) (k : Option F) : (mul s x y k).2.bounds = s.bounds := by
  unfold mul
  split
  · exact assignFixed_bounds s 0
  · simp only
    split
    · exact assignFixed_bounds s 1
    · split
      · exact assignFixed_bounds s 1
      · rw [addAndMul_bounds]; exact assignFixed_bounds s 1

theorem assertEqualToFixed_bounds (s : St F) (x : Cell) (c : F) :
    (assertEqualToFixed s x c).bounds = s.bounds := by
  simp only [assertEqualToFixed, assertEqual_bounds, assignFixed_bounds]

theorem isEqualToFixed_bounds (s : St F) (x : Cell) (c : F) :
    (isEqualToFixed s x c).2.bounds = s.bounds := by
  simp only [isEqualToFixed, assertZero, assertEqualToFixed_bounds, addAndMul_bounds]
  rfl

theorem isEqual_bounds (s : St F) (x y : Cell) : (isEqual s x y).2.bounds = s.bounds := by
  simp only [isEqual, assertZero, assertEqualToFixed_bounds, addAndDoubleMul_bounds]
  rfl

theorem foldl_emitter_bounds (step : St F → Cell → Cell → Cell × St F)
    (hb : ∀ (s : St F) a b, (step s a b).2.bounds = s.bounds) (rest : List Cell) (acc : Cell) (s : St F) :
    (rest.foldl (fun (a : Cell × St F) b => step a.2 a.1 b) (acc, s)).2.bounds = s.bounds := by
  induction rest generalizing acc s with
  | nil => rfl
  | cons b rest ih => simp only [List.foldl_cons]; rw [ih, hb]

theorem and_bounds (s : St F) (b : Cell) (rest : List Cell) :
    (and s (b :: rest)).2.bounds = s.bounds := by
  simp only [and]
  exact foldl_emitter_bounds (fun (s : St F) a b => mul s a b none) (fun s a b => mul_bounds s a b none) rest b s

theorem or_bounds (s : St F) (b : Cell) (rest : List Cell) :
    (or s (b :: rest)).2.bounds = s.bounds := by
  simp only [or]
  exact foldl_emitter_bounds (fun (s : St F) a b => addAndMul s 1 a 1 b 0 a 0 (-1))
    (fun s a b => addAndMul_bounds ..) rest b s

theorem xor_bounds (s : St F) (b : Cell) (rest : List Cell) :
    (xor s (b :: rest)).2.bounds = s.bounds := by
  simp only [xor]
  exact foldl_emitter_bounds (fun (s : St F) a b => addAndMul s 1 a 1 b 0 a 0 (-2))
    (fun s a b => addAndMul_bounds ..) rest b s

theorem decomposeCore_bounds (s : St F) (sizes : List Nat) :
    (decomposeCore s sizes).2.bounds = s.bounds := by
  simp only [decomposeCore, addRegion_fst_regions, addRegion_snd]
  rw [foldl_queryTag_bounds]

theorem assignLessThanPow2_bounds (s : St F) (k : Nat) :
    (assignLessThanPow2 s k).2.bounds = s.bounds := by
  simp only [assignLessThanPow2]; exact decomposeCore_bounds s _

theorem assertLessThanPow2_bounds (s : St F) (x : Cell) (k : Nat) :
    (assertLessThanPow2 s x k).bounds = s.bounds := by
  simp only [assertLessThanPow2, addRegion_fst_regions]
  exact assignLessThanPow2_bounds s k

/-! ### `assert_lower_than_fixed` at full strength -/

theorem assertLowerThanFixed_ext (s : St F) (x : Cell) (bound : Nat) :
    s.Ext (assertLowerThanFixed s x bound) := by
  unfold assertLowerThanFixed
  split
  · exact St.Ext.refl s
  · simp only
    split
    · exact (updateBound_ext s x bound).trans (assertLessThanPow2_ext ..)
    · exact (updateBound_ext s x bound).trans ((assignBit_ext _).trans ((addConstant_ext ..).trans
        ((select_ext ..).trans (assertLessThanPow2_ext ..))))

/-- **`assert_lower_than_fixed`**, every path (including the early return through the bound
cache): every assignment accepted by the circuit has `x = M` for a natural number `M < bound`;
the constant-cache and bound-cache invariants are re-established for the new state. -/
theorem assertLowerThanFixed_sound (hR : RangeSound R) (s : St F) (x : Cell) (bound : Nat)
    (asg : Cell → F) (hb : 0 < bound) (h0 : 0 < s.nrCols) (h4 : s.nrCols ≤ 4)
    (hopt : OptOK s bound.log2) (hc : s.CacheOK asg) (hB : s.BoundsOK asg)
    (h : (assertLowerThanFixed s x bound).Holds R asg) :
    (assertLowerThanFixed s x bound).CacheOK asg ∧ (assertLowerThanFixed s x bound).BoundsOK asg ∧
    IsNatLt asg x bound := by
  cases hnb : s.boundLe x bound with
  | true =>
    have : assertLowerThanFixed s x bound = s := by unfold assertLowerThanFixed; simp [hnb]
    rw [this]
    exact ⟨hc, hB, boundLe_sound s asg hB x bound hnb⟩
  | false =>
    have hres := assertLowerThanFixed_sound_partial hR s x bound asg hnb hb h0 h4 hopt hc h
    have hB0 : (s.updateBound x bound).BoundsOK asg := updateBound_boundsOK s asg hB x bound hres
    have hk : 2 ^ bound.log2 ≤ bound := Nat.log2_self_le (by omega)
    unfold assertLowerThanFixed at h ⊢
    simp only [hnb, Bool.false_eq_true, if_false] at h ⊢
    have c0 := (updateBound_cache s x bound asg).mpr hc
    have e0 := updateBound_ext s x bound
    by_cases hp : 2 ^ bound.log2 = bound
    · simp only [hp, if_true] at h ⊢
      obtain ⟨c1, _⟩ := assertLessThanPow2_sound hR _ x bound.log2 asg (by rw [e0.1]; exact h0)
        (by rw [e0.1]; exact h4) (OptOK_ext e0 _ hopt).1 (OptOK_ext e0 _ hopt).2 c0 h
      exact ⟨c1, boundsOK_of_bounds_eq asg (assertLessThanPow2_bounds ..) hB0, hres⟩
    · simp only [hp, if_false] at h ⊢
      have e1 := assignBit_ext (s.updateBound x bound)
      have e2 := addConstant_ext (assignBit (s.updateBound x bound)).2 x
        (-(((bound - 2 ^ bound.log2 : Nat) : Nat) : F))
      have e3 := select_ext (addConstant (assignBit (s.updateBound x bound)).2 x
        (-(((bound - 2 ^ bound.log2 : Nat) : Nat) : F))).2 (assignBit (s.updateBound x bound)).1 x
        (addConstant (assignBit (s.updateBound x bound)).2 x
          (-(((bound - 2 ^ bound.log2 : Nat) : Nat) : F))).1
      have h3 := (assertLessThanPow2_ext _ _ _).holds asg h
      have h2 := e3.holds asg h3
      have h1 := e2.holds asg h2
      obtain ⟨c1, _⟩ := assignBit_sound _ asg c0 h1
      obtain ⟨c2, _⟩ := addConstant_sound _ x _ asg c1 h2
      obtain ⟨c3, _⟩ := select_sound _ _ _ _ asg c2 h3
      have eall := e0.trans (e1.trans (e2.trans e3))
      obtain ⟨c4, _⟩ := assertLessThanPow2_sound hR _ _ bound.log2 asg (by rw [eall.1]; exact h0)
        (by rw [eall.1]; exact h4) (OptOK_ext eall _ hopt).1 (OptOK_ext eall _ hopt).2 c3 h
      refine ⟨c4, ?_, hres⟩
      apply boundsOK_of_bounds_eq asg _ hB0
      rw [assertLessThanPow2_bounds, select_bounds, addConstant_bounds, assignBit_bounds]

end MidnightZK.C04
