import MidnightZK.Proofs.C04.Range2
/-! `compute_optimal_limb_sizes` (cpu_utils.rs) returns a well-formed solution for EVERY bit
length and EVERY configuration (number of parallel lookups ≥ 1, `max_bit_len` ≥ 1): induction
over the dynamic programme. This discharges the hypothesis `OptOK` of the range-check theorems. -/
namespace MidnightZK.C04
open Lean.Grind
set_option linter.unusedSectionVars false
set_option linter.unusedSimpArgs false
set_option linter.unusedVariables false

/-- A well-formed solution for `b` bits: rows are non-empty runs of one bit length in
`[1, maxBl]`, at most `nr` long, and the bit lengths add up to `b`. -/
def GoodSol (nr maxBl b : Nat) (sol : List (List Nat)) : Prop :=
  (∀ r ∈ sol, r ≠ [] ∧ r.length ≤ nr ∧ (∀ x ∈ r, r.head? = some x) ∧ ∀ x ∈ r, 1 ≤ x ∧ x ≤ maxBl) ∧
  (sol.map List.sum).sum = b

theorem goodSol_nil (nr maxBl : Nat) : GoodSol nr maxBl 0 [] := ⟨by simp, by simp⟩

theorem sum_replicate' (n a : Nat) : (List.replicate n a).sum = n * a := by
  induction n with
  | zero => simp
  | succ n ih => simp [List.replicate_succ, ih, Nat.succ_mul]; omega

theorem goodSol_snoc (nr maxBl b par bl : Nat) (sol : List (List Nat))
    (h : GoodSol nr maxBl (b - bl * par) sol) (hpar : 1 ≤ par) (hparn : par ≤ nr) (hbl : 1 ≤ bl)
    (hblm : bl ≤ maxBl) (hle : bl * par ≤ b) : GoodSol nr maxBl b (sol ++ [List.replicate par bl]) := by
  obtain ⟨h1, h2⟩ := h
  constructor
  · intro r hr
    simp only [List.mem_append, List.mem_singleton] at hr
    rcases hr with hr | rfl
    · exact h1 r hr
    · refine ⟨?_, by simp; omega, ?_, ?_⟩
      · cases par with
        | zero => omega
        | succ n => simp [List.replicate_succ]
      · intro x hx
        have := (List.mem_replicate.mp hx).2
        subst this
        cases par with
        | zero => omega
        | succ n => simp [List.replicate_succ]
      · intro x hx
        have := (List.mem_replicate.mp hx).2
        subst this; exact ⟨hbl, hblm⟩
  · simp only [List.map_append, List.map_cons, List.map_nil, List.sum_append, List.sum_cons,
      List.sum_nil, h2, sum_replicate']
    rw [Nat.mul_comm par bl]; omega

/-- The table invariant of the dynamic programme. -/
def TInv (nr maxBl : Nat) (t : Array (List (List Nat))) : Prop :=
  ∀ b, b < t.size → GoodSol nr maxBl b (t.getD b [])

/-- The candidate step of `compute_optimal_limb_sizes`. -/
def optCandStep (table : Array (List (List Nat))) (bound : Nat)
    (acc : List (List Nat) × Option Nat) (pb : Nat × Nat) : List (List Nat) × Option Nat :=
  let (par, bl) := pb
  if bl * par ≤ bound then
    let sol := (table.getD (bound - bl * par) []) ++ [List.replicate par bl]
    match acc.2 with
    | none => (sol, some sol.length)
    | some v => if sol.length < v then (sol, some sol.length) else acc
  else acc

theorem optStep_eq (maxPar maxBl : Nat) (table : Array (List (List Nat))) (bound : Nat) :
    optStep maxPar maxBl table bound =
      if bound = 0 then [] else
      (((List.range maxPar).flatMap (fun p => (List.range maxBl).map (fun b => (p + 1, maxBl - b)))).foldl
        (optCandStep table bound) ([], none)).1 := by
  unfold optStep optCandStep
  rfl

theorem cand_fold (nr maxBl bound : Nat) (hb : 0 < bound) (t : Array (List (List Nat)))
    (ht : TInv nr maxBl t) (hsz : bound ≤ t.size) :
    ∀ (l : List (Nat × Nat)) (acc : List (List Nat) × Option Nat),
      (∀ c ∈ l, 1 ≤ c.1 ∧ c.1 ≤ nr ∧ 1 ≤ c.2 ∧ c.2 ≤ maxBl) →
      (acc.2.isSome → GoodSol nr maxBl bound acc.1) →
      ((l.foldl (optCandStep t bound) acc).2.isSome → GoodSol nr maxBl bound (l.foldl (optCandStep t bound) acc).1) ∧
      (acc.2.isSome ∨ (1, 1) ∈ l → (l.foldl (optCandStep t bound) acc).2.isSome) := by
  intro l
  induction l with
  | nil => intro acc _ hacc; exact ⟨hacc, fun h => h.elim id (fun h => by simp at h)⟩
  | cons c l ih =>
    intro acc hl hacc
    simp only [List.foldl_cons]
    have hc := hl c (by simp)
    have hstep : ((optCandStep t bound acc c).2.isSome → GoodSol nr maxBl bound (optCandStep t bound acc c).1) ∧
        (acc.2.isSome ∨ c = (1, 1) → (optCandStep t bound acc c).2.isSome) := by
      obtain ⟨par, bl⟩ := c
      simp only at hc
      unfold optCandStep
      simp only
      by_cases hle : bl * par ≤ bound
      · simp only [hle, if_true]
        have hpos : 1 ≤ bl * par := Nat.mul_le_mul hc.2.2.1 hc.1
        have hgood : GoodSol nr maxBl bound (t.getD (bound - bl * par) [] ++ [List.replicate par bl]) :=
          goodSol_snoc nr maxBl bound par bl _ (ht _ (by omega)) hc.1 hc.2.1 hc.2.2.1 hc.2.2.2 hle
        cases hv : acc.2 with
        | none => exact ⟨fun _ => hgood, fun _ => rfl⟩
        | some v =>
          simp only
          split
          · exact ⟨fun _ => hgood, fun _ => rfl⟩
          · exact ⟨fun _ => hacc (by rw [hv]; rfl), fun _ => by rw [hv]; rfl⟩
      · simp only [hle, if_false]
        refine ⟨hacc, fun h => h.elim id (fun e => ?_)⟩
        simp only [Prod.mk.injEq] at e
        obtain ⟨rfl, rfl⟩ := e
        omega
    obtain ⟨a, b⟩ := ih (optCandStep t bound acc c) (fun c' hc' => hl c' (by simp [hc'])) hstep.1
    refine ⟨a, fun h => b ?_⟩
    simp only [List.mem_cons] at h
    rcases h with h | h | h
    · exact Or.inl (hstep.2 (Or.inl h))
    · exact Or.inl (hstep.2 (Or.inr h.symm))
    · exact Or.inr h

/-- One entry of the table is well-formed if the earlier ones are. -/
theorem optStep_good (nr maxBl : Nat) (h0 : 0 < nr) (hm : 0 < maxBl) (t : Array (List (List Nat)))
    (ht : TInv nr maxBl t) (bound : Nat) (hsz : bound ≤ t.size) :
    GoodSol nr maxBl bound (optStep nr maxBl t bound) := by
  rw [optStep_eq]
  by_cases hb : bound = 0
  · subst hb; simp only [if_true]; exact goodSol_nil nr maxBl
  · simp only [hb, if_false]
    have hcands : ∀ c ∈ (List.range nr).flatMap (fun p => (List.range maxBl).map (fun b => (p + 1, maxBl - b))),
        1 ≤ c.1 ∧ c.1 ≤ nr ∧ 1 ≤ c.2 ∧ c.2 ≤ maxBl := by
      intro c hc
      simp only [List.mem_flatMap, List.mem_range, List.mem_map] at hc
      obtain ⟨p, hp, b, hb', rfl⟩ := hc
      simp only; omega
    have h11 : (1, 1) ∈ (List.range nr).flatMap (fun p => (List.range maxBl).map (fun b => (p + 1, maxBl - b))) := by
      simp only [List.mem_flatMap, List.mem_range, List.mem_map]
      exact ⟨0, h0, maxBl - 1, by omega, by simp; omega⟩
    obtain ⟨a, b⟩ := cand_fold nr maxBl bound (by omega) t ht hsz _ ([], none) hcands (by simp)
    exact a (b (Or.inr h11))

theorem getD_push_lt (t : Array (List (List Nat))) (x : List (List Nat)) (b : Nat) (h : b < t.size) :
    (t.push x).getD b [] = t.getD b [] := by
  simp [Array.getD_eq_getD_getElem?, Array.getElem?_push, Nat.ne_of_lt h]

theorem getD_push_eq (t : Array (List (List Nat))) (x : List (List Nat)) :
    (t.push x).getD t.size [] = x := by
  simp [Array.getD_eq_getD_getElem?, Array.getElem?_push]

theorem optTable_inv (nr maxBl : Nat) (h0 : 0 < nr) (hm : 0 < maxBl) (n : Nat) :
    (optTable nr maxBl n).size = n + 1 ∧ TInv nr maxBl (optTable nr maxBl n) := by
  induction n with
  | zero =>
    simp only [optTable, List.range_succ, List.range_zero, List.nil_append, List.foldl_cons,
      List.foldl_nil]
    refine ⟨by simp, ?_⟩
    intro b hb
    simp only [Array.size_push, Array.size_empty] at hb
    have : b = 0 := by omega
    subst this
    have := getD_push_eq #[] (optStep nr maxBl #[] 0)
    simp only [Array.size_empty] at this
    rw [this]
    exact optStep_good nr maxBl h0 hm #[] (fun b hb => by simp at hb) 0 (by simp)
  | succ n ih =>
    obtain ⟨hs, hinv⟩ := ih
    have hunf : optTable nr maxBl (n + 1) =
        (optTable nr maxBl n).push (optStep nr maxBl (optTable nr maxBl n) (n + 1)) := by
      simp only [optTable]
      rw [List.range_succ (n := n + 1), List.foldl_append]
      rfl
    rw [hunf]
    refine ⟨by rw [Array.size_push, hs], ?_⟩
    intro b hb
    rw [Array.size_push, hs] at hb
    by_cases hlt : b < n + 1
    · rw [getD_push_lt _ _ _ (by omega)]
      exact hinv b (by omega)
    · have : b = n + 1 := by omega
      subst this
      have := getD_push_eq (optTable nr maxBl n) (optStep nr maxBl (optTable nr maxBl n) (n + 1))
      rw [hs] at this
      rw [this]
      exact optStep_good nr maxBl h0 hm _ hinv (n + 1) (by omega)

/-- **`compute_optimal_limb_sizes` is well-formed for every bit length in every configuration.** -/
theorem optTable_good (nr maxBl : Nat) (h0 : 0 < nr) (hm : 0 < maxBl) (k : Nat) :
    GoodSol nr maxBl k ((optTable nr maxBl k).getD k []) := by
  obtain ⟨hs, hinv⟩ := optTable_inv nr maxBl h0 hm k
  exact hinv k (by omega)

variable {F : Type} [Field F] [DecidableEq F]

theorem optOK_all (s : St F) (k : Nat) (h0 : 0 < s.nrCols) (hm : 0 < s.maxBitLen) : OptOK s k := by
  obtain ⟨h1, h2⟩ := optTable_good s.nrCols s.maxBitLen h0 hm k
  exact ⟨fun r hr => ⟨(h1 r hr).1, (h1 r hr).2.1, (h1 r hr).2.2.1⟩, h2⟩

end MidnightZK.C04
