import MidnightZK.Proofs.C04.LinComb
/-! Soundness lemmas of the `NativeChip` emitters, compositional: from `Holds` of the state after
the operation conclude the relation the operation enforces between its input and output cells
and the constant-cache invariant of the new state; `_ext` lemmas say that the operation only
adds constraints. -/
namespace MidnightZK.C04
open Lean.Grind
attribute [local instance] Semiring.natCast
set_option linter.unusedSectionVars false
set_option linter.unusedSimpArgs false
set_option linter.unusedVariables false

variable {F : Type} [Field F] [DecidableEq F]
variable {R : Nat → F → Prop}

/-- Unfold one-region emitters down to equations between cell values. -/
macro "cs_unfold" " at " h:ident : tactic =>
  `(tactic| simp only [addRegion_fst_regions, addRegion_snd, holds_copy, holds_addRegion,
    cacheOK_copy, cacheOK_addRegion, rowsHold, Row.gatesHold, Row.lookupsHold, Row.fixedHold,
    mkArith, advc] at $h:ident ⊢)

theorem field_bit {b : F} (h : b * b = b) : b = 0 ∨ b = 1 := by
  by_cases hb : b = 0
  · exact Or.inl hb
  · right
    have := Field.mul_inv_cancel hb
    grind

/-! ### primitives -/

theorem assign_ext (s : St F) : s.Ext (assign s).2 := ext_addRegion s _

theorem assignBit_ext (s : St F) : s.Ext (assignBit s).2 :=
  (ext_addRegion s _).trans (ext_copy _ _ _)

theorem assignBit_sound (s : St F) (asg : Cell → F) (hc : s.CacheOK asg)
    (h : (assignBit s).2.Holds R asg) :
    (assignBit s).2.CacheOK asg ∧ (asg (assignBit s).1 = 0 ∨ asg (assignBit s).1 = 1) := by
  simp only [assignBit] at h ⊢; cs_unfold at h
  refine ⟨hc, ?_⟩
  obtain ⟨hcp, ⟨hg, _⟩, _⟩ := h
  rw [← hcp] at hg
  apply field_bit; grind

theorem assertEqual_ext (s : St F) (x y : Cell) : s.Ext (assertEqual s x y) :=
  (ext_addRegion s _).trans (ext_copy _ _ _)

theorem assertEqual_sound (s : St F) (x y : Cell) (asg : Cell → F) (hc : s.CacheOK asg)
    (h : (assertEqual s x y).Holds R asg) :
    (assertEqual s x y).CacheOK asg ∧ asg x = asg y := by
  simp only [assertEqual] at h ⊢; cs_unfold at h
  exact ⟨hc, h.1⟩

theorem assertNotEqual_ext (s : St F) (x y : Cell) : s.Ext (assertNotEqual s x y) :=
  (ext_addRegion s _).trans ((ext_copy _ _ _).trans (ext_copy _ _ _))

theorem assertNotEqual_sound (s : St F) (x y : Cell) (asg : Cell → F) (hc : s.CacheOK asg)
    (h : (assertNotEqual s x y).Holds R asg) :
    (assertNotEqual s x y).CacheOK asg ∧ asg x ≠ asg y := by
  simp only [assertNotEqual] at h ⊢; cs_unfold at h
  refine ⟨hc, ?_⟩
  intro he; grind

theorem assertEqualToFixed_ext (s : St F) (x : Cell) (c : F) : s.Ext (assertEqualToFixed s x c) :=
  (assignFixed_ext s c).trans (assertEqual_ext _ _ _)

theorem assertEqualToFixed_sound (s : St F) (x : Cell) (c : F) (asg : Cell → F)
    (hc : s.CacheOK asg) (h : (assertEqualToFixed s x c).Holds R asg) :
    (assertEqualToFixed s x c).CacheOK asg ∧ asg x = c := by
  simp only [assertEqualToFixed] at h ⊢
  have h1 := (assertEqual_ext (assignFixed s c).2 x (assignFixed s c).1).holds asg h
  obtain ⟨_, c1, r1⟩ := assignFixed_sound s c asg hc h1
  obtain ⟨c2, r2⟩ := assertEqual_sound _ _ _ asg c1 h
  exact ⟨c2, by rw [r2, r1]⟩

theorem assignWithShiftedInverse_ext (s : St F) (c : F) :
    s.Ext (assignWithShiftedInverse s c).2 := ext_addRegion s _

theorem assignWithShiftedInverse_sound (s : St F) (shift : F) (asg : Cell → F)
    (hc : s.CacheOK asg) (h : (assignWithShiftedInverse s shift).2.Holds R asg) :
    (assignWithShiftedInverse s shift).2.CacheOK asg ∧
    (asg (assignWithShiftedInverse s shift).1.1 - shift) * asg (assignWithShiftedInverse s shift).1.2 = 1 := by
  simp only [assignWithShiftedInverse] at h ⊢; cs_unfold at h
  refine ⟨hc, ?_⟩; grind

theorem assertNotEqualToFixed_ext (s : St F) (x : Cell) (c : F) :
    s.Ext (assertNotEqualToFixed s x c) :=
  (assignWithShiftedInverse_ext s c).trans (assertEqual_ext _ _ _)

theorem assertNotEqualToFixed_sound (s : St F) (x : Cell) (c : F) (asg : Cell → F)
    (hc : s.CacheOK asg) (h : (assertNotEqualToFixed s x c).Holds R asg) :
    (assertNotEqualToFixed s x c).CacheOK asg ∧ asg x ≠ c := by
  simp only [assertNotEqualToFixed] at h ⊢
  have h1 := (assertEqual_ext (assignWithShiftedInverse s c).2 x _).holds asg h
  obtain ⟨c1, r1⟩ := assignWithShiftedInverse_sound s c asg hc h1
  obtain ⟨c2, r2⟩ := assertEqual_sound _ _ _ asg c1 h
  refine ⟨c2, ?_⟩
  intro he; rw [← r2, he] at r1; grind

theorem addAndDoubleMul_ext (s : St F) (a : F) (x : Cell) (b : F) (y : Cell) (c : F) (z : Cell)
    (k m1 m2 : F) : s.Ext (addAndDoubleMul s a x b y c z k m1 m2).2 :=
  (ext_addRegion s _).trans ((ext_copy _ _ _).trans ((ext_copy _ _ _).trans (ext_copy _ _ _)))

theorem addAndDoubleMul_sound (s : St F) (a : F) (x : Cell) (b : F) (y : Cell) (c : F) (z : Cell)
    (k m1 m2 : F) (asg : Cell → F) (hc : s.CacheOK asg)
    (h : (addAndDoubleMul s a x b y c z k m1 m2).2.Holds R asg) :
    (addAndDoubleMul s a x b y c z k m1 m2).2.CacheOK asg ∧
    asg (addAndDoubleMul s a x b y c z k m1 m2).1
      = a * asg x + b * asg y + c * asg z + k + m1 * asg x * asg y + m2 * asg x * asg z := by
  simp only [addAndDoubleMul] at h ⊢; cs_unfold at h
  refine ⟨hc, ?_⟩
  grind

theorem addAndMul_ext (s : St F) (a : F) (x : Cell) (b : F) (y : Cell) (c : F) (z : Cell)
    (k m : F) : s.Ext (addAndMul s a x b y c z k m).2 := addAndDoubleMul_ext ..

theorem addAndMul_sound (s : St F) (a : F) (x : Cell) (b : F) (y : Cell) (c : F) (z : Cell)
    (k m : F) (asg : Cell → F) (hc : s.CacheOK asg)
    (h : (addAndMul s a x b y c z k m).2.Holds R asg) :
    (addAndMul s a x b y c z k m).2.CacheOK asg ∧
    asg (addAndMul s a x b y c z k m).1 = a * asg x + b * asg y + c * asg z + k + m * asg x * asg y := by
  obtain ⟨c1, r1⟩ := addAndDoubleMul_sound s a x b y c z k m 0 asg hc h
  exact ⟨c1, by simp only [addAndMul]; rw [r1]; grind⟩

theorem linearCombination_ext (s : St F) (terms : List (F × Cell)) (const : F) :
    s.Ext (linearCombination s terms const).2 := by
  unfold linearCombination
  simp only
  split
  · exact assignFixed_ext s const
  · exact (ext_addRegion s _).trans (ext_copies' _ _)

/-! ### arithmetic -/

theorem add_sound (s : St F) (x y : Cell) (asg : Cell → F) (hc : s.CacheOK asg)
    (h : (add s x y).2.Holds R asg) :
    (add s x y).2.CacheOK asg ∧ asg (add s x y).1 = asg x + asg y := by
  obtain ⟨_, c1, r1⟩ := linearCombination_sound s [(1, x), (1, y)] 0 asg hc h
  exact ⟨c1, by simp only [add]; rw [r1]; simp [termSum]; grind⟩

theorem sub_sound (s : St F) (x y : Cell) (asg : Cell → F) (hc : s.CacheOK asg)
    (h : (sub s x y).2.Holds R asg) :
    (sub s x y).2.CacheOK asg ∧ asg (sub s x y).1 = asg x - asg y := by
  obtain ⟨_, c1, r1⟩ := linearCombination_sound s [(1, x), (-1, y)] 0 asg hc h
  exact ⟨c1, by simp only [sub]; rw [r1]; simp [termSum]; grind⟩

theorem neg_sound (s : St F) (x : Cell) (asg : Cell → F) (hc : s.CacheOK asg)
    (h : (neg s x).2.Holds R asg) :
    (neg s x).2.CacheOK asg ∧ asg (neg s x).1 = - asg x := by
  obtain ⟨_, c1, r1⟩ := linearCombination_sound s [(-1, x)] 0 asg hc h
  exact ⟨c1, by simp only [neg]; rw [r1]; simp [termSum]; grind⟩

theorem addConstant_ext (s : St F) (x : Cell) (c : F) : s.Ext (addConstant s x c).2 := by
  unfold addConstant; split
  · exact St.Ext.refl s
  · exact linearCombination_ext ..

theorem addConstant_sound (s : St F) (x : Cell) (c : F) (asg : Cell → F) (hc : s.CacheOK asg)
    (h : (addConstant s x c).2.Holds R asg) :
    (addConstant s x c).2.CacheOK asg ∧ asg (addConstant s x c).1 = asg x + c := by
  unfold addConstant at h ⊢
  split
  · next h0 => simp only [h0, if_true] at h ⊢; exact ⟨hc, by grind⟩
  · next h0 =>
    simp only [h0, if_false] at h ⊢
    obtain ⟨_, c1, r1⟩ := linearCombination_sound s [(1, x)] c asg hc h
    exact ⟨c1, by rw [r1]; simp [termSum]; grind⟩

theorem mulByConstant_sound (s : St F) (x : Cell) (c : F) (asg : Cell → F) (hc : s.CacheOK asg)
    (h : (mulByConstant s x c).2.Holds R asg) :
    (mulByConstant s x c).2.CacheOK asg ∧ asg (mulByConstant s x c).1 = c * asg x := by
  unfold mulByConstant at h ⊢
  by_cases h0 : c = 0
  · simp only [h0, if_true] at h ⊢
    obtain ⟨_, c1, r1⟩ := assignFixed_sound s 0 asg hc h
    exact ⟨c1, by rw [r1]; grind⟩
  · by_cases h1 : c = 1
    · subst h1
      have h10 : ¬ ((1 : F) = 0) := fun e => Field.zero_ne_one e.symm
      simp only [h10, if_true, if_false] at h ⊢
      exact ⟨hc, by grind⟩
    · simp only [h0, h1, if_false] at h ⊢
      obtain ⟨_, c1, r1⟩ := linearCombination_sound s [(c, x)] 0 asg hc h
      exact ⟨c1, by rw [r1]; simp [termSum]; grind⟩

theorem mul_ext (s : St F) (x y : Cell) (k : Option F) : s.Ext (mul s x y k).2 := by
  unfold mul
  split
  · exact assignFixed_ext s 0
  · simp only
    split
    · exact assignFixed_ext s 1
    · split
      · exact assignFixed_ext s 1
      · exact (assignFixed_ext s 1).trans (addAndMul_ext ..)

/-- `mul`: the result is `k·x·y` (`k = 1` when absent), including the shortcuts through the
cached constant `1` and the constant `0`. -/
theorem mul_sound (s : St F) (x y : Cell) (k : Option F) (asg : Cell → F) (hc : s.CacheOK asg)
    (h : (mul s x y k).2.Holds R asg) :
    (mul s x y k).2.CacheOK asg ∧ asg (mul s x y k).1 = k.getD 1 * asg x * asg y := by
  unfold mul at h ⊢
  by_cases h0 : k = some 0
  · simp only [h0, if_true] at h ⊢
    obtain ⟨_, c1, r1⟩ := assignFixed_sound s 0 asg hc h
    exact ⟨c1, by rw [r1]; simp; grind⟩
  · simp only [h0, if_false] at h ⊢
    by_cases h1 : k.getD 1 = 1 ∧ x = (assignFixed s 1).1
    · simp only [h1, and_self, if_true] at h ⊢
      obtain ⟨_, c1, r1⟩ := assignFixed_sound s 1 asg hc h
      refine ⟨c1, ?_⟩
      rw [r1]; grind
    · simp only [h1, if_false] at h ⊢
      by_cases h2 : k.getD 1 = 1 ∧ y = (assignFixed s 1).1
      · simp only [h2, and_self, if_true] at h ⊢
        obtain ⟨_, c1, r1⟩ := assignFixed_sound s 1 asg hc h
        refine ⟨c1, ?_⟩
        rw [r1]; grind
      · simp only [h2, if_false] at h ⊢
        have h1' := (addAndMul_ext (assignFixed s 1).2 0 x 0 y 0 x 0 (k.getD 1)).holds asg h
        obtain ⟨_, c1, _⟩ := assignFixed_sound s 1 asg hc h1'
        obtain ⟨c2, r2⟩ := addAndMul_sound _ 0 x 0 y 0 x 0 (k.getD 1) asg c1 h
        exact ⟨c2, by rw [r2]; grind⟩

theorem inv_ext (s : St F) (x : Cell) : s.Ext (inv s x).2 :=
  (assignWithShiftedInverse_ext s 0).trans (assertEqual_ext _ _ _)

/-- `inv`: `x · out = 1`; in particular the circuit is unsatisfiable for `x = 0`. -/
theorem inv_sound (s : St F) (x : Cell) (asg : Cell → F) (hc : s.CacheOK asg)
    (h : (inv s x).2.Holds R asg) :
    (inv s x).2.CacheOK asg ∧ asg x * asg (inv s x).1 = 1 := by
  simp only [inv] at h ⊢
  have h1 := (assertEqual_ext (assignWithShiftedInverse s 0).2 x _).holds asg h
  obtain ⟨c1, r1⟩ := assignWithShiftedInverse_sound s 0 asg hc h1
  obtain ⟨c2, r2⟩ := assertEqual_sound _ _ _ asg c1 h
  refine ⟨c2, ?_⟩
  rw [r2]; grind

theorem div_ext (s : St F) (x y : Cell) : s.Ext (div s x y).2 :=
  (inv_ext s y).trans (mul_ext ..)

/-- `div`: `y · out = x` with `y ≠ 0` enforced. -/
theorem div_sound (s : St F) (x y : Cell) (asg : Cell → F) (hc : s.CacheOK asg)
    (h : (div s x y).2.Holds R asg) :
    (div s x y).2.CacheOK asg ∧ asg y * asg (div s x y).1 = asg x ∧ asg y ≠ 0 := by
  simp only [div] at h ⊢
  have h1 := (mul_ext (inv s y).2 x (inv s y).1 none).holds asg h
  obtain ⟨c1, r1⟩ := inv_sound s y asg hc h1
  obtain ⟨c2, r2⟩ := mul_sound _ x _ none asg c1 h
  refine ⟨c2, ?_, ?_⟩
  · rw [r2]; simp; grind
  · intro h0; rw [h0] at r1; grind
