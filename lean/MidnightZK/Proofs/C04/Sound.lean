import MidnightZK.Proofs.C04.Basic
/-! Soundness lemmas of the `NativeChip` emitters, compositional: from `Holds` of the state after
the operation conclude `Holds` of the state before, the relation the operation enforces between
its input and output cells, and the constant-cache invariant. -/
namespace MidnightZK.C04
open Lean.Grind
attribute [local instance] Semiring.natCast
set_option linter.unusedSectionVars false

variable {F : Type} [Field F] [DecidableEq F]
variable {R : Nat → F → Prop}

theorem addAndDoubleMul_sound (s : St F) (a : F) (x : Cell) (b : F) (y : Cell) (c : F) (z : Cell)
    (k m1 m2 : F) (asg : Cell → F) (hc : s.CacheOK asg)
    (h : (addAndDoubleMul s a x b y c z k m1 m2).2.Holds R asg) :
    s.Holds R asg ∧ (addAndDoubleMul s a x b y c z k m1 m2).2.CacheOK asg ∧
    asg (addAndDoubleMul s a x b y c z k m1 m2).1
      = a * asg x + b * asg y + c * asg z + k + m1 * asg x * asg y + m2 * asg x * asg z := by
  simp only [addAndDoubleMul, addRegion_fst_regions, addRegion_snd, holds_copy, holds_addRegion,
    cacheOK_copy, cacheOK_addRegion, rowsHold, Row.gatesHold, Row.lookupsHold, Row.fixedHold,
    mkArith, advc] at h ⊢
  refine ⟨h.2.2.2.2, hc, ?_⟩
  grind
