import MidnightZK.Proofs.C04.Sound2
/-! Boolean logic of `NativeChip` (`and`, `or`, `xor`, `not`, equality of bits) for lists of
every length. -/
namespace MidnightZK.C04
open Lean.Grind
attribute [local instance] Semiring.natCast
set_option linter.unusedSectionVars false
set_option linter.unusedSimpArgs false
set_option linter.unusedVariables false

variable {F : Type} [Field F] [DecidableEq F]
variable {R : Nat → F → Prop}

theorem foldl_emitter_ext (step : St F → Cell → Cell → Cell × St F)
    (hext : ∀ (s : St F) a b, s.Ext (step s a b).2) (rest : List Cell) (acc : Cell) (s : St F) :
    s.Ext (rest.foldl (fun (a : Cell × St F) b => step a.2 a.1 b) (acc, s)).2 := by
  induction rest generalizing acc s with
  | nil => exact St.Ext.refl s
  | cons b rest ih =>
    simp only [List.foldl_cons]
    exact (hext s acc b).trans (ih _ _)

/-- Generic fold of a binary emitter over a list of cells: if each step only adds constraints
and enforces `out = g acc b`, the fold enforces the iterated `g`, for every list length. -/
theorem foldl_emitter_sound (step : St F → Cell → Cell → Cell × St F) (g : F → F → F)
    (hext : ∀ (s : St F) a b, s.Ext (step s a b).2)
    (hstep : ∀ (s : St F) a b (asg : Cell → F), s.CacheOK asg → (step s a b).2.Holds R asg →
      (step s a b).2.CacheOK asg ∧ asg (step s a b).1 = g (asg a) (asg b))
    (rest : List Cell) (acc : Cell) (s : St F) (asg : Cell → F) (hc : s.CacheOK asg)
    (h : (rest.foldl (fun (a : Cell × St F) b => step a.2 a.1 b) (acc, s)).2.Holds R asg) :
    (rest.foldl (fun (a : Cell × St F) b => step a.2 a.1 b) (acc, s)).2.CacheOK asg ∧
    asg (rest.foldl (fun (a : Cell × St F) b => step a.2 a.1 b) (acc, s)).1
      = (rest.map asg).foldl g (asg acc) := by
  induction rest generalizing acc s with
  | nil => exact ⟨hc, rfl⟩
  | cons b rest ih =>
    simp only [List.foldl_cons, List.map_cons] at h ⊢
    have h1 := (foldl_emitter_ext step hext rest (step s acc b).1 (step s acc b).2).holds asg h
    obtain ⟨c1, r1⟩ := hstep s acc b asg hc h1
    obtain ⟨c2, r2⟩ := ih (step s acc b).1 (step s acc b).2 c1 h
    exact ⟨c2, by rw [r2, r1]⟩

/-- `and`: the product of the inputs, for every number of bits. -/
theorem and_sound (s : St F) (b : Cell) (rest : List Cell) (asg : Cell → F) (hc : s.CacheOK asg)
    (h : (and s (b :: rest)).2.Holds R asg) :
    (and s (b :: rest)).2.CacheOK asg ∧
    asg (and s (b :: rest)).1 = (rest.map asg).foldl (fun a x => a * x) (asg b) := by
  simp only [and] at h ⊢
  exact foldl_emitter_sound (fun (s : St F) a b => mul s a b none) (fun a x => a * x)
    (fun (s : St F) a b => mul_ext s a b none)
    (fun (s : St F) a b asg hc h => by
      obtain ⟨c1, r1⟩ := mul_sound s a b none asg hc h
      exact ⟨c1, by rw [r1]; simp; grind⟩) rest b s asg hc h

/-- `or`: iterated `a + b − a·b`. -/
theorem or_sound (s : St F) (b : Cell) (rest : List Cell) (asg : Cell → F) (hc : s.CacheOK asg)
    (h : (or s (b :: rest)).2.Holds R asg) :
    (or s (b :: rest)).2.CacheOK asg ∧
    asg (or s (b :: rest)).1 = (rest.map asg).foldl (fun a x => a + x - a * x) (asg b) := by
  simp only [or] at h ⊢
  exact foldl_emitter_sound (fun (s : St F) a b => addAndMul s 1 a 1 b 0 a 0 (-1)) (fun a x => a + x - a * x)
    (fun (s : St F) a b => addAndMul_ext ..)
    (fun (s : St F) a b asg hc h => by
      obtain ⟨c1, r1⟩ := addAndMul_sound s 1 a 1 b 0 a 0 (-1) asg hc h
      exact ⟨c1, by rw [r1]; grind⟩) rest b s asg hc h

/-- `xor`: iterated `a + b − 2·a·b`. -/
theorem xor_sound (s : St F) (b : Cell) (rest : List Cell) (asg : Cell → F) (hc : s.CacheOK asg)
    (h : (xor s (b :: rest)).2.Holds R asg) :
    (xor s (b :: rest)).2.CacheOK asg ∧
    asg (xor s (b :: rest)).1 = (rest.map asg).foldl (fun a x => a + x - 2 * a * x) (asg b) := by
  simp only [xor] at h ⊢
  exact foldl_emitter_sound (fun (s : St F) a b => addAndMul s 1 a 1 b 0 a 0 (-2)) (fun a x => a + x - 2 * a * x)
    (fun (s : St F) a b => addAndMul_ext ..)
    (fun (s : St F) a b asg hc h => by
      obtain ⟨c1, r1⟩ := addAndMul_sound s 1 a 1 b 0 a 0 (-2) asg hc h
      exact ⟨c1, by rw [r1]; grind⟩) rest b s asg hc h

theorem not_ext (s : St F) (b : Cell) : s.Ext (not s b).2 := linearCombination_ext ..

theorem not_sound (s : St F) (b : Cell) (asg : Cell → F) (hc : s.CacheOK asg)
    (h : (not s b).2.Holds R asg) : (not s b).2.CacheOK asg ∧ asg (not s b).1 = 1 - asg b := by
  obtain ⟨_, c1, r1⟩ := linearCombination_sound s [(-1, b)] 1 asg hc h
  exact ⟨c1, by simp only [not]; rw [r1]; simp [termSum]; grind⟩

/-- The three binary connectives on field bits are the boolean ones. -/
theorem bit_ops {a b : F} (ha : a = 0 ∨ a = 1) (hb : b = 0 ∨ b = 1) :
    (a * b = if a = 1 ∧ b = 1 then 1 else 0) ∧
    (a + b - a * b = if a = 1 ∨ b = 1 then 1 else 0) ∧
    (a + b - 2 * a * b = if (a = 1) ≠ (b = 1) then 1 else 0) ∧
    (1 - a = if a = 1 then 0 else 1) ∧
    (1 - a - b + 2 * a * b = if a = b then 1 else 0) := by
  have h01 : ¬ ((0 : F) = 1) := Field.zero_ne_one
  have h10 : ¬ ((1 : F) = 0) := fun e => Field.zero_ne_one e.symm
  rcases ha with rfl | rfl <;> rcases hb with rfl | rfl <;> simp [h01, h10] <;> grind

/-- native_chip.rs `EqualityInstructions<AssignedBit>`: `1 + 2ab − a − b` and `a + b − 2ab`. -/
theorem bitIsEqual_sound (s : St F) (a b : Cell) (asg : Cell → F) (hc : s.CacheOK asg)
    (h : (bitIsEqual s a b).2.Holds R asg) :
    (bitIsEqual s a b).2.CacheOK asg ∧
    asg (bitIsEqual s a b).1 = 1 - asg a - asg b + 2 * asg a * asg b := by
  obtain ⟨c1, r1⟩ := addAndMul_sound s (-1) a (-1) b 0 a 1 2 asg hc h
  exact ⟨c1, by simp only [bitIsEqual]; rw [r1]; grind⟩

theorem bitIsNotEqual_sound (s : St F) (a b : Cell) (asg : Cell → F) (hc : s.CacheOK asg)
    (h : (bitIsNotEqual s a b).2.Holds R asg) :
    (bitIsNotEqual s a b).2.CacheOK asg ∧
    asg (bitIsNotEqual s a b).1 = asg a + asg b - 2 * asg a * asg b := by
  obtain ⟨c1, r1⟩ := addAndMul_sound s 1 a 1 b 0 a 0 (-2) asg hc h
  exact ⟨c1, by simp only [bitIsNotEqual]; rw [r1]; grind⟩

end MidnightZK.C04
