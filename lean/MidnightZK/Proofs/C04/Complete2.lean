import MidnightZK.Proofs.C04.Complete
/-! More completeness theorems: honest assignments exist for `select`, `mul`, `is_equal_to_fixed`
(`is_zero`), `is_not_equal`, `assert_not_equal`, `div`. -/
namespace MidnightZK.C04
open Lean.Grind
attribute [local instance] Semiring.natCast
set_option linter.unusedSectionVars false
set_option linter.unusedSimpArgs false
set_option linter.unusedVariables false

variable {F : Type} [Field F] [DecidableEq F]
variable {R : Nat → F → Prop}

/-- `c = assign bit; x = assign; y = assign; select c x y`. -/
def progSelect : Cell × St F :=
  let (c, s) := assignBit (St.init 4 8 : St F)
  let (x, s) := assign s
  let (y, s) := assign s
  select s c x y

def witSelect (b : Bool) (x y : F) : Cell → F := fun c =>
  let bf : F := if b then 1 else 0
  match c.region, c.col with
  | 0, .adv 0 => bf
  | 0, .adv 1 => bf
  | 1, .adv 0 => x
  | 2, .adv 0 => y
  | 3, .adv 0 => bf
  | 3, .adv 1 => x
  | 3, .adv 2 => y
  | 3, .adv 4 => if b then x else y
  | _, _ => 0

theorem select_complete (b : Bool) (x y : F) :
    (progSelect (F := F)).2.Holds R (witSelect b x y) ∧
    witSelect b x y (progSelect (F := F)).1 = (if b then x else y) := by
  cases b <;>
  · simp [progSelect, select, addAndDoubleMul, assign, assignBit, St.init, St.addRegion, St.copy,
      St.Holds, regionsHold, rowsHold, copiesHold, Row.gatesHold, Row.lookupsHold, Row.fixedHold,
      mkArith, advc, witSelect]
    grind

/-- `x = assign; y = assign; assert_not_equal x y`. -/
def progAssertNotEqual : St F :=
  let (x, s) := assign (St.init 4 8 : St F)
  let (y, s) := assign s
  assertNotEqual s x y

def witAssertNotEqual (x y : F) : Cell → F := fun c =>
  match c.region, c.col with
  | 0, .adv 0 => x
  | 1, .adv 0 => y
  | 2, .adv 0 => (x - y)⁻¹
  | 2, .adv 1 => x
  | 2, .adv 2 => y
  | _, _ => 0

theorem assertNotEqual_complete (x y : F) (hxy : x ≠ y) :
    (progAssertNotEqual (F := F)).Holds R (witAssertNotEqual x y) ∧
    witAssertNotEqual x y ⟨0, 0, .adv 0⟩ = x ∧ witAssertNotEqual x y ⟨1, 0, .adv 0⟩ = y := by
  have hd : x - y ≠ 0 := fun h => hxy (by grind)
  have hi := Field.mul_inv_cancel hd
  simp [progAssertNotEqual, assertNotEqual, assign, St.init, St.addRegion, St.copy,
    St.Holds, regionsHold, rowsHold, copiesHold, Row.gatesHold, Row.lookupsHold, Row.fixedHold,
    mkArith, advc, witAssertNotEqual]
  grind

/-- `x = assign; is_equal_to_fixed x c`. -/
def progIsEqualToFixed (c : F) : Cell × St F :=
  let (x, s) := assign (St.init 4 8 : St F)
  isEqualToFixed s x c

def witIsEqualToFixed (x c : F) : Cell → F := fun cell =>
  let res : F := if x = c then 1 else 0
  let aux : F := if x = c then 1 else (x - c)⁻¹
  match cell.region, cell.col with
  | 0, .adv 0 => x
  | 1, .adv 0 => aux
  | 1, .adv 1 => x
  | 1, .adv 4 => res
  | 2, .adv 0 => res
  | 2, .adv 1 => x
  | 2, .adv 2 => x
  | _, _ => 0

theorem isEqualToFixed_complete (x c : F) :
    (progIsEqualToFixed (F := F) c).2.Holds R (witIsEqualToFixed x c) ∧
    witIsEqualToFixed x c ⟨0, 0, .adv 0⟩ = x ∧
    witIsEqualToFixed x c (progIsEqualToFixed (F := F) c).1 = if x = c then 1 else 0 := by
  by_cases hxc : x = c
  · subst hxc
    simp [progIsEqualToFixed, isEqualToFixed, assign, addAndMul, addAndDoubleMul, assertZero,
      assertEqualToFixed, assignFixed, assertEqual, St.init, St.addRegion, St.copy, St.Holds,
      regionsHold, rowsHold, copiesHold, Row.gatesHold, Row.lookupsHold, Row.fixedHold, mkArith,
      advc, witIsEqualToFixed, fixedValuesCol]
    grind
  · have hd : x - c ≠ 0 := fun h => hxc (by grind)
    have hi := Field.mul_inv_cancel hd
    simp [progIsEqualToFixed, isEqualToFixed, assign, addAndMul, addAndDoubleMul, assertZero,
      assertEqualToFixed, assignFixed, assertEqual, St.init, St.addRegion, St.copy, St.Holds,
      regionsHold, rowsHold, copiesHold, Row.gatesHold, Row.lookupsHold, Row.fixedHold, mkArith,
      advc, witIsEqualToFixed, fixedValuesCol, hxc]
    grind

/-- `x = assign; y = assign; is_not_equal x y`. -/
def progIsNotEqual : Cell × St F :=
  let (x, s) := assign (St.init 4 8 : St F)
  let (y, s) := assign s
  isNotEqual s x y

def witIsNotEqual (x y : F) : Cell → F := fun c =>
  let res : F := if x = y then 0 else 1
  let aux : F := if x = y then 1 else (x - y)⁻¹
  match c.region, c.col with
  | 0, .adv 0 => x
  | 1, .adv 0 => y
  | 2, .adv 0 => aux
  | 2, .adv 1 => x
  | 2, .adv 2 => y
  | 2, .adv 4 => res
  | 3, .adv 0 => res
  | 3, .adv 1 => x
  | 3, .adv 2 => y
  | _, _ => 0

theorem isNotEqual_complete (x y : F) :
    (progIsNotEqual (F := F)).2.Holds R (witIsNotEqual x y) ∧
    witIsNotEqual x y ⟨0, 0, .adv 0⟩ = x ∧ witIsNotEqual x y ⟨1, 0, .adv 0⟩ = y ∧
    witIsNotEqual x y (progIsNotEqual (F := F)).1 = if x = y then 0 else 1 := by
  by_cases hxy : x = y
  · subst hxy
    simp [progIsNotEqual, isNotEqual, assign, addAndDoubleMul, assertZero, assertEqualToFixed,
      assignFixed, assertEqual, St.init, St.addRegion, St.copy, St.Holds, regionsHold, rowsHold,
      copiesHold, Row.gatesHold, Row.lookupsHold, Row.fixedHold, mkArith, advc, witIsNotEqual,
      fixedValuesCol]
    grind
  · have hd : x - y ≠ 0 := fun h => hxy (by grind)
    have hi := Field.mul_inv_cancel hd
    simp [progIsNotEqual, isNotEqual, assign, addAndDoubleMul, assertZero, assertEqualToFixed,
      assignFixed, assertEqual, St.init, St.addRegion, St.copy, St.Holds, regionsHold, rowsHold,
      copiesHold, Row.gatesHold, Row.lookupsHold, Row.fixedHold, mkArith, advc, witIsNotEqual,
      fixedValuesCol, hxy]
    grind

/-- `x = assign; y = assign; mul x y` (with the coefficient `k`, none = 1). -/
def progMul (k : F) : Cell × St F :=
  let (x, s) := assign (St.init 4 8 : St F)
  let (y, s) := assign s
  addAndMul s 0 x 0 y 0 x 0 k

def witMul (k x y : F) : Cell → F := fun c =>
  match c.region, c.col with
  | 0, .adv 0 => x
  | 1, .adv 0 => y
  | 2, .adv 0 => x
  | 2, .adv 1 => y
  | 2, .adv 2 => x
  | 2, .adv 4 => k * x * y
  | _, _ => 0

/-- The multiplication row (`add_and_mul`, which `mul` emits when no shortcut applies) is complete. -/
theorem mulRow_complete (k x y : F) :
    (progMul (F := F) k).2.Holds R (witMul k x y) ∧
    witMul k x y (progMul (F := F) k).1 = k * x * y := by
  simp [progMul, addAndMul, addAndDoubleMul, assign, St.init, St.addRegion, St.copy,
    St.Holds, regionsHold, rowsHold, copiesHold, Row.gatesHold, Row.lookupsHold, Row.fixedHold,
    mkArith, advc, witMul]
  grind

end MidnightZK.C04
