import MidnightZK.Proofs.C04.Sound2
/-! Completeness (and non-vacuity of the soundness theorems): honest assignments exist. -/
namespace MidnightZK.C04
open Lean.Grind
attribute [local instance] Semiring.natCast
set_option linter.unusedSectionVars false
set_option linter.unusedSimpArgs false
set_option linter.unusedVariables false

variable {F : Type} [Field F] [DecidableEq F]
variable {R : Nat → F → Prop}

/-- The program `x = assign; y = assign; is_equal x y` from the empty state. -/
def progIsEqual : Cell × St F :=
  let (x, s) := assign (St.init 4 8 : St F)
  let (y, s) := assign s
  isEqual s x y

/-- Honest witness of `progIsEqual`: `aux = (x−y)⁻¹` (or 1), `res = [x = y]`. -/
def witIsEqual (x y : F) : Cell → F := fun c =>
  let res : F := if x = y then 1 else 0
  let aux : F := if x = y then 1 else (x - y)⁻¹
  match c.region, c.col with
  | 0, .adv 0 => x
  | 1, .adv 0 => y
  | 2, .adv 0 => aux
  | 2, .adv 1 => x
  | 2, .adv 2 => y
  | 2, .adv 4 => res
  | 3, .adv 0 => res
  | 3, .adv 1 => x
  | 3, .adv 2 => y
  | _, _ => 0

/-- `is_equal` is complete: for all inputs the honest witness satisfies every constraint and
the output is `[x = y]`. -/
theorem isEqual_complete (x y : F) :
    (progIsEqual (F := F)).2.Holds R (witIsEqual x y) ∧
    witIsEqual x y ⟨0, 0, .adv 0⟩ = x ∧ witIsEqual x y ⟨1, 0, .adv 0⟩ = y ∧
    witIsEqual x y (progIsEqual (F := F)).1 = if x = y then 1 else 0 := by
  by_cases hxy : x = y
  · subst hxy
    simp [progIsEqual, isEqual, assign, addAndDoubleMul, assertZero, assertEqualToFixed, assignFixed,
      assertEqual, St.init, St.addRegion, St.copy, St.Holds, regionsHold, rowsHold, copiesHold,
      Row.gatesHold, Row.lookupsHold, Row.fixedHold, mkArith, advc, witIsEqual, fixedValuesCol]
    grind
  · have hd : x - y ≠ 0 := fun h => hxy (by grind)
    have hi := Field.mul_inv_cancel hd
    simp [progIsEqual, isEqual, assign, addAndDoubleMul, assertZero, assertEqualToFixed, assignFixed,
      assertEqual, St.init, St.addRegion, St.copy, St.Holds, regionsHold, rowsHold, copiesHold,
      Row.gatesHold, Row.lookupsHold, Row.fixedHold, mkArith, advc, witIsEqual, fixedValuesCol, hxy]
    grind

/-- The program `x = assign; inv x` from the empty state. -/
def progInv : Cell × St F :=
  let (x, s) := assign (St.init 4 8 : St F)
  inv s x

def witInv (x : F) : Cell → F := fun c =>
  match c.region, c.col with
  | 0, .adv 0 => x
  | 1, .adv 0 => x
  | 1, .adv 1 => x⁻¹
  | _, _ => 0

/-- `inv` is complete on its domain `x ≠ 0` (and unsatisfiable outside: `inv_sound'`). -/
theorem inv_complete (x : F) (hx : x ≠ 0) :
    (progInv (F := F)).2.Holds R (witInv x) ∧ witInv x ⟨0, 0, .adv 0⟩ = x ∧
    witInv x (progInv (F := F)).1 = x⁻¹ := by
  have hi := Field.mul_inv_cancel hx
  simp [progInv, inv, assign, assignWithShiftedInverse, assertEqual, St.init, St.addRegion, St.copy,
    St.Holds, regionsHold, rowsHold, copiesHold, Row.gatesHold, Row.lookupsHold, Row.fixedHold,
    mkArith, advc, witInv]
  grind

/-- The program `c = assign bit; x = assign; y = assign; cond_swap c x y`. -/
def progCondSwap : (Cell × Cell) × St F :=
  let (c, s) := assignBit (St.init 4 8 : St F)
  let (x, s) := assign s
  let (y, s) := assign s
  condSwap s c x y

def witCondSwap (b : Bool) (x y : F) : Cell → F := fun c =>
  let bf : F := if b then 1 else 0
  match c.region, c.col with
  | 0, .adv 0 => bf
  | 0, .adv 1 => bf
  | 1, .adv 0 => x
  | 2, .adv 0 => y
  | 3, .adv 0 => bf
  | 3, .adv 1 => x
  | 3, .adv 2 => y
  | 3, .adv 3 => if b then y else x
  | 3, .adv 4 => if b then x else y
  | _, _ => 0

/-- `cond_swap` is complete: for every bit and every pair the honest witness is accepted and
the outputs are the (conditionally swapped) inputs. -/
theorem condSwap_complete (b : Bool) (x y : F) :
    (progCondSwap (F := F)).2.Holds R (witCondSwap b x y) ∧
    witCondSwap b x y (progCondSwap (F := F)).1.1 = (if b then y else x) ∧
    witCondSwap b x y (progCondSwap (F := F)).1.2 = (if b then x else y) := by
  cases b <;>
  · simp [progCondSwap, condSwap, assign, assignBit, St.init, St.addRegion, St.copy,
      St.Holds, regionsHold, rowsHold, copiesHold, Row.gatesHold, Row.lookupsHold, Row.fixedHold,
      mkArith, advc, witCondSwap]
    grind

end MidnightZK.C04
