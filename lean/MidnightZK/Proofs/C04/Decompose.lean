import MidnightZK.Proofs.C04.Sgn
/-! `decompose_fixed_limb_size` and what the gadget builds on it: `assigned_to_le_bits`
(with and without canonicity), `assigned_to_le_chunks`, `assigned_to_le_bytes` (short form),
recomposition from bits / bytes, conversions native → bit / byte. -/
namespace MidnightZK.C04
open Lean.Grind
attribute [local instance] Semiring.natCast
set_option linter.unusedSectionVars false
set_option linter.unusedSimpArgs false
set_option linter.unusedVariables false

variable {F : Type} [Field F] [DecidableEq F]
variable {R : Nat → F → Prop}

/-! ### the limb-size lists built by `decompose_fixed_limb_size` are well-formed -/

theorem chunkOK_run (a b ls : Nat) : chunkOK (List.replicate a ls ++ List.replicate b 0) := by
  intro x hx
  simp only [List.mem_append, List.mem_replicate] at hx
  rcases hx with ⟨ha, rfl⟩ | ⟨_, rfl⟩
  · right
    cases a with
    | zero => exact absurd rfl ha
    | succ a => simp [List.replicate_succ]
  · exact Or.inl rfl

theorem sizesOK_run (nr n m ls : Nat) : sizesOK nr (List.replicate n ls ++ List.replicate m 0) := by
  intro j
  simp only [List.drop_append, List.drop_replicate, List.length_replicate, List.take_append,
    List.take_replicate]
  exact chunkOK_run _ _ _

theorem sizesOK_append_aligned (nr : Nat) (h0 : 0 < nr) (a b : List Nat) (q : Nat)
    (hlen : a.length = q * nr) (ha : sizesOK nr a) (hb : sizesOK nr b) : sizesOK nr (a ++ b) := by
  intro j
  by_cases hj : j < q
  · have h1 : (j + 1) * nr ≤ a.length := by rw [hlen]; exact Nat.mul_le_mul_right nr hj
    have h2 : j * nr + nr ≤ a.length := by rw [Nat.add_mul, Nat.one_mul] at h1; exact h1
    rw [List.drop_append_of_le_length (by omega), List.take_append_of_le_length (by
      simp only [List.length_drop]; omega)]
    exact ha j
  · have hq : q ≤ j := by omega
    have h1 : a.length ≤ j * nr := by rw [hlen]; exact Nat.mul_le_mul_right nr hq
    rw [List.drop_append, List.drop_of_length_le h1, List.nil_append]
    have : j * nr - a.length = (j - q) * nr := by rw [hlen, Nat.sub_mul]
    rw [this]
    exact hb (j - q)

theorem processLimbSizes_spec (nr : Nat) (h0 : 0 < nr) (l : List Nat) :
    ∃ m q, processLimbSizes nr l = l ++ List.replicate m 0 ∧ l.length + m = q * nr := by
  have hnr : nr ≠ 0 := by omega
  simp only [processLimbSizes, hnr, if_false]
  refine ⟨(nr - l.length % nr) % nr, ?_, rfl, ?_⟩
  · exact if l.length % nr = 0 then l.length / nr else l.length / nr + 1
  · have hdm := Nat.div_add_mod l.length nr
    have hlt := Nat.mod_lt l.length h0
    by_cases hr : l.length % nr = 0
    · simp only [hr, if_true, Nat.sub_zero, Nat.mod_self, Nat.add_zero]
      rw [hr] at hdm; rw [Nat.mul_comm]; omega
    · simp only [hr, if_false]
      rw [Nat.mod_eq_of_lt (by omega), Nat.add_mul, Nat.one_mul, Nat.mul_comm]
      omega

/-- The limb sizes `decompose_fixed_limb_size` asks for: `bit_length / limb_size` limbs of
`limb_size` bits and one of `bit_length % limb_size` bits if that is not zero. -/
def dflSizes (bitLength limbSize : Nat) : List Nat :=
  List.replicate (bitLength / limbSize) limbSize ++
    (if bitLength % limbSize ≠ 0 then [bitLength % limbSize] else [])

/-- The padded list handed to `decompose_core` on the lookup path. -/
def dflPadded (nr bitLength limbSize : Nat) : List Nat :=
  let sizes := processLimbSizes nr (List.replicate (bitLength / limbSize) limbSize)
  if bitLength % limbSize ≠ 0 then processLimbSizes nr (sizes ++ [bitLength % limbSize]) else sizes

theorem filter_replicate_zero (m : Nat) : (List.replicate m 0).filter (· ≠ 0) = [] := by
  induction m with
  | zero => rfl
  | succ m ih => simp [List.replicate_succ, List.filter_cons, ih]

theorem filter_replicate_nz (n ls : Nat) (h : ls ≠ 0) :
    (List.replicate n ls).filter (· ≠ 0) = List.replicate n ls := by
  induction n with
  | zero => rfl
  | succ n ih => simp [List.replicate_succ, List.filter_cons, h, ih]

theorem dflPadded_ok (nr bitLength limbSize : Nat) (h0 : 0 < nr) (hls : limbSize ≠ 0) :
    sizesOK nr (dflPadded nr bitLength limbSize) ∧
    (dflPadded nr bitLength limbSize).filter (· ≠ 0) = dflSizes bitLength limbSize := by
  unfold dflPadded dflSizes
  obtain ⟨m1, q1, e1, l1⟩ := processLimbSizes_spec nr h0 (List.replicate (bitLength / limbSize) limbSize)
  simp only
  rw [e1]
  have ok1 : sizesOK nr (List.replicate (bitLength / limbSize) limbSize ++ List.replicate m1 0) :=
    sizesOK_run nr _ _ _
  by_cases hl : bitLength % limbSize = 0
  · simp only [hl, ne_eq, not_true_eq_false, if_false, List.append_nil]
    refine ⟨ok1, ?_⟩
    rw [List.filter_append, filter_replicate_zero, filter_replicate_nz _ _ hls, List.append_nil]
  · simp only [hl, ne_eq, not_false_eq_true, if_true]
    obtain ⟨m2, q2, e2, l2⟩ := processLimbSizes_spec nr h0
      (List.replicate (bitLength / limbSize) limbSize ++ List.replicate m1 0 ++ [bitLength % limbSize])
    rw [e2]
    constructor
    · rw [List.append_assoc]
      apply sizesOK_append_aligned nr h0 _ _ q1 (by simpa using l1) ok1
      have := sizesOK_run nr 1 m2 (bitLength % limbSize)
      simpa using this
    · simp only [List.filter_append, filter_replicate_zero, filter_replicate_nz _ _ hls,
        List.append_nil, List.filter_cons, List.filter_nil]
      simp [hl]

/-! ### `decompose_fixed_limb_size` -/

theorem decomposeFixedLimbSize_lookup (s : St F) (x : Cell) (bitLength limbSize : Nat)
    (hmb : limbSize ≤ s.maxBitLen) :
    decomposeFixedLimbSize s x bitLength limbSize =
      ((decomposeCore s (dflPadded s.nrCols bitLength limbSize)).1.2,
       (({ (decomposeCore s (dflPadded s.nrCols bitLength limbSize)).2 with
            regions := [] :: (decomposeCore s (dflPadded s.nrCols bitLength limbSize)).2.regions } : St F).copy x
          (decomposeCore s (dflPadded s.nrCols bitLength limbSize)).1.1)) := by
  unfold decomposeFixedLimbSize dflPadded
  simp only [hmb, if_true, addRegion_fst_regions]

/-- **`decompose_fixed_limb_size`** (limbs range-checked by lookups, `limb_size ≤ max_bit_len`):
for every accepted assignment the returned limb cells hold natural numbers `vs`, the `j`-th below
`2^size_j`, and `x` is their little-endian recomposition. Hence (`limbsOf_recomp`) the limbs are
the base-`2^limb_size` digits of that number: no other limb values are accepted. -/
theorem decomposeFixedLimbSize_sound (hR : RangeSound R) (s : St F) (x : Cell)
    (bitLength limbSize : Nat) (asg : Cell → F) (hls : limbSize ≠ 0) (hmb : limbSize ≤ s.maxBitLen)
    (h0 : 0 < s.nrCols) (h4 : s.nrCols ≤ 4) (hc : s.CacheOK asg)
    (h : (decomposeFixedLimbSize s x bitLength limbSize).2.Holds R asg) :
    (decomposeFixedLimbSize s x bitLength limbSize).2.CacheOK asg ∧
    (decomposeFixedLimbSize s x bitLength limbSize).2.bounds = s.bounds ∧
    s.Ext (decomposeFixedLimbSize s x bitLength limbSize).2 ∧
    ∃ vs : List Nat, LimbVals (dflSizes bitLength limbSize) vs ∧
      CellsHold asg (decomposeFixedLimbSize s x bitLength limbSize).1 vs ∧
      asg x = ((recomp (dflSizes bitLength limbSize) vs : Nat) : F) := by
  rw [decomposeFixedLimbSize_lookup s x bitLength limbSize hmb] at h ⊢
  simp only at h ⊢
  rw [holds_copy, holds_addRegion] at h
  obtain ⟨hxy, _, hd⟩ := h
  obtain ⟨ok1, ok2⟩ := dflPadded_ok s.nrCols bitLength limbSize h0 hls
  obtain ⟨c1, vs, v1, v2, v3⟩ := decomposeCore_limbs_sound hR s _ asg h0 h4 ok1 hc hd
  rw [ok2] at v1 v3
  refine ⟨c1, decomposeCore_bounds s _, ?_, vs, v1, v2, by rw [hxy]; exact v3⟩
  exact (decomposeCore_ext s _).trans ((ext_addRegion _ _).trans (ext_copy _ _ _))

/-! ### bits -/

theorem dflSizes_one (nb : Nat) : dflSizes nb 1 = List.replicate nb 1 := by
  simp [dflSizes, Nat.mod_one]

theorem dflSizes_mul (per n : Nat) (hper : 0 < per) : dflSizes (per * n) per = List.replicate n per := by
  simp [dflSizes, Nat.mul_mod_right, Nat.mul_div_cancel_left n hper]

/-- Limb values for equal sizes: a list of the right length with all entries below `2^size`. -/
theorem limbVals_replicate (n sz : Nat) (vs : List Nat) :
    LimbVals (List.replicate n sz) vs ↔ vs.length = n ∧ ∀ v ∈ vs, v < 2 ^ sz := by
  induction n generalizing vs with
  | zero =>
    cases vs with
    | nil => simp [LimbVals]
    | cons v vs => simp [LimbVals]
  | succ n ih =>
    cases vs with
    | nil => simp [List.replicate_succ, LimbVals]
    | cons v vs =>
      simp only [List.replicate_succ, LimbVals, ih, List.length_cons, List.mem_cons]
      constructor
      · rintro ⟨hv, hl, ha⟩
        exact ⟨by omega, fun w hw => hw.elim (fun e => e ▸ hv) (ha w)⟩
      · rintro ⟨hl, ha⟩
        exact ⟨ha v (Or.inl rfl), by omega, fun w hw => ha w (Or.inr hw)⟩

theorem recomp_replicate (n sz : Nat) (vs : List Nat) (hl : vs.length = n) :
    recomp (List.replicate n sz) vs = fromLimbs (2 ^ sz) vs := by
  induction n generalizing vs with
  | zero =>
    cases vs with
    | nil => rfl
    | cons v vs => simp at hl
  | succ n ih =>
    cases vs with
    | nil => simp at hl
    | cons v vs =>
      simp only [List.replicate_succ, recomp, fromLimbs]
      rw [ih vs (by simpa using hl)]

theorem fromLimbs_lt (b : Nat) (hb : 0 < b) (vs : List Nat) (h : ∀ v ∈ vs, v < b) :
    fromLimbs b vs < b ^ vs.length := by
  induction vs with
  | nil => simp [fromLimbs]
  | cons v vs ih =>
    have ih' := ih (fun w hw => h w (by simp [hw]))
    have hv := h v (by simp)
    simp only [fromLimbs, List.length_cons, Nat.pow_succ]
    have : b * fromLimbs b vs + b ≤ b ^ vs.length * b := by
      have : fromLimbs b vs + 1 ≤ b ^ vs.length := ih'
      calc b * fromLimbs b vs + b = b * (fromLimbs b vs + 1) := by rw [Nat.mul_add, Nat.mul_one]
        _ ≤ b * b ^ vs.length := Nat.mul_le_mul_left _ this
        _ = _ := Nat.mul_comm _ _
    omega

theorem assignedToLeBits_ext (s : St F) (x : Cell) (nbBits : Option Nat) (canon : Bool)
    (numBits halfP : Nat) (hmb : 1 ≤ s.maxBitLen) :
    s.Ext (assignedToLeBits s x nbBits canon numBits halfP).2 := by
  unfold assignedToLeBits
  simp only
  have e1 : s.Ext (decomposeFixedLimbSize s x (nbBits.getD numBits) 1).2 := by
    rw [decomposeFixedLimbSize_lookup s x _ 1 hmb]
    exact (decomposeCore_ext s _).trans ((ext_addRegion _ _).trans (ext_copy _ _ _))
  split
  · exact e1.trans ((sgn0_ext ..).trans (assertEqual_ext ..))
  · exact e1

/-- **`assigned_to_le_bits`** (any number of bits, canonical or not): the returned cells hold
bits `bs` (each 0 or 1, exactly `nb` of them) and `x = Σ 2^i·bs[i]` in the field — a value that
does not fit in `nb` bits makes the circuit unsatisfiable. -/
theorem assignedToLeBits_sound (hR : RangeSound R) (s : St F) (x : Cell) (nb : Nat) (numBits halfP : Nat)
    (asg : Cell → F) (hne : nb ≠ numBits) (hmb : 1 ≤ s.maxBitLen)
    (h0 : 0 < s.nrCols) (h4 : s.nrCols ≤ 4) (hc : s.CacheOK asg)
    (canon : Bool) (h : (assignedToLeBits s x (some nb) canon numBits halfP).2.Holds R asg) :
    (assignedToLeBits s x (some nb) canon numBits halfP).2.CacheOK asg ∧
    (assignedToLeBits s x (some nb) canon numBits halfP).2.bounds = s.bounds ∧
    ∃ bs : List Nat, bs.length = nb ∧ (∀ b ∈ bs, b < 2) ∧
      CellsHold asg (assignedToLeBits s x (some nb) canon numBits halfP).1 bs ∧
      asg x = ((fromLimbs 2 bs : Nat) : F) := by
  unfold assignedToLeBits at h ⊢
  simp only [Option.getD_some, hne, and_false, if_false] at h ⊢
  obtain ⟨c1, b1, _, vs, v1, v2, v3⟩ := decomposeFixedLimbSize_sound hR s x nb 1 asg (by omega) hmb h0 h4 hc h
  rw [dflSizes_one] at v1 v3
  obtain ⟨hl, hlt⟩ := (limbVals_replicate nb 1 vs).mp v1
  rw [recomp_replicate nb 1 vs hl] at v3
  exact ⟨c1, b1, vs, hl, by simpa using hlt, v2, by simpa using v3⟩

theorem fromLimbs_two_mod (b : Nat) (bs : List Nat) (hb : b < 2) : fromLimbs 2 (b :: bs) % 2 = b := by
  simp only [fromLimbs]; omega

theorem natCast_mod_char (p : Nat) (hp0 : ((p : Nat) : F) = 0) (n : Nat) :
    ((n % p : Nat) : F) = ((n : Nat) : F) := by
  have h := Nat.div_add_mod n p
  have : ((n : Nat) : F) = ((p * (n / p) + n % p : Nat) : F) := by rw [h]
  rw [this, natCast_add', natCast_mul', hp0]; grind

/-- **`assigned_to_le_bits` with canonicity** (`nb_bits = None`, `enforce_canonical = true`) in a
field of odd characteristic `p < 2^numBits ≤ 2p`: the returned `numBits` bits are the binary
digits of THE canonical representative of `x` — the second representation `x + p` that fits in
`numBits` bits is rejected (through `sgn0`). -/
theorem assignedToLeBits_canonical_sound (hR : RangeSound R) (p : Nat) (hodd : p % 2 = 1)
    (hp2 : 2 < p) (hp0 : ((p : Nat) : F) = 0)
    (hinj : ∀ a b : Nat, a < p → b < p → ((a : Nat) : F) = ((b : Nat) : F) → a = b)
    (numBits : Nat) (hnb0 : 0 < numBits) (hnb : 2 ^ numBits ≤ 2 * p)
    (s : St F) (x : Cell) (asg : Cell → F) (hmb : 1 ≤ s.maxBitLen)
    (h0 : 0 < s.nrCols) (h4 : s.nrCols ≤ 4) (hopt : OptOK s ((p + 1) / 2).log2)
    (hc : s.CacheOK asg) (hB : s.BoundsOK asg)
    (h : (assignedToLeBits s x none true numBits ((p + 1) / 2)).2.Holds R asg) :
    (assignedToLeBits s x none true numBits ((p + 1) / 2)).2.CacheOK asg ∧
    (assignedToLeBits s x none true numBits ((p + 1) / 2)).2.BoundsOK asg ∧
    ∃ bs : List Nat, bs.length = numBits ∧ (∀ b ∈ bs, b < 2) ∧
      CellsHold asg (assignedToLeBits s x none true numBits ((p + 1) / 2)).1 bs ∧
      asg x = ((fromLimbs 2 bs : Nat) : F) ∧ fromLimbs 2 bs < p := by
  unfold assignedToLeBits at h ⊢
  simp only [Option.getD_none, and_self, if_true] at h ⊢
  have h2 := (assertEqual_ext ..).holds asg h
  have h1 := (sgn0_ext ..).holds asg h2
  obtain ⟨c1, b1, e1, vs, v1, v2, v3⟩ := decomposeFixedLimbSize_sound hR s x numBits 1 asg (by omega) hmb h0 h4 hc h1
  rw [dflSizes_one] at v1 v3
  obtain ⟨hl, hlt⟩ := (limbVals_replicate numBits 1 vs).mp v1
  rw [recomp_replicate numBits 1 vs hl] at v3
  simp only [Nat.pow_one] at hlt v3
  have B1 := boundsOK_of_bounds_eq asg b1 hB
  obtain ⟨c2, B2, X, hX, hxX, hout⟩ := sgn0_sound hR p hodd hp0 hinj _ x asg (by rw [e1.1]; exact h0)
    (by rw [e1.1]; exact h4) (OptOK_ext e1 _ hopt) c1 B1 h2
  obtain ⟨c3, r3⟩ := assertEqual_sound _ _ _ asg c2 h
  refine ⟨c3, boundsOK_of_bounds_eq asg (assertEqual_bounds ..) B2, vs, hl, hlt, v2, v3, ?_⟩
  -- the first bit equals the parity of the canonical representative
  cases vs with
  | nil => simp at hl; omega
  | cons b0 rest =>
    cases hcells : (decomposeFixedLimbSize s x numBits 1).1 with
    | nil => rw [hcells] at v2; exact v2.elim
    | cons c0 cs =>
      rw [hcells] at v2 r3
      simp only [List.getD_cons_zero] at r3
      have hb0 : b0 < 2 := hlt b0 (by simp)
      have hbX : b0 = X % 2 := by
        apply hinj _ _ (by omega) (by omega)
        rw [← v2.1, r3, hout]
      -- N ≡ X (mod p), N < 2p, same parity, p odd  ⟹  N = X
      have hN : fromLimbs 2 (b0 :: rest) < 2 ^ numBits := by
        have := fromLimbs_lt 2 (by omega) (b0 :: rest) hlt
        rw [hl] at this; exact this
      have hmod : fromLimbs 2 (b0 :: rest) % p = X := by
        apply hinj _ _ (Nat.mod_lt _ (by omega)) hX
        rw [natCast_mod_char p hp0, ← v3, hxX]
      have hpar := fromLimbs_two_mod b0 rest hb0
      have hdm := Nat.div_add_mod (fromLimbs 2 (b0 :: rest)) p
      have hq : fromLimbs 2 (b0 :: rest) / p < 2 := by
        apply Nat.div_lt_of_lt_mul; omega
      have hq' : fromLimbs 2 (b0 :: rest) / p = 0 ∨ fromLimbs 2 (b0 :: rest) / p = 1 :=
        (show ∀ q : Nat, q < 2 → q = 0 ∨ q = 1 by omega) _ hq
      rcases hq' with hq' | hq'
      · rw [hq'] at hdm; omega
      · rw [hq'] at hdm; omega

/-! ### chunks, short bytes -/

theorem assignedToLeChunks_sound (hR : RangeSound R) (s : St F) (x : Cell) (per n numBits : Nat)
    (asg : Cell → F) (hper : 0 < per) (hmb : per ≤ s.maxBitLen)
    (h0 : 0 < s.nrCols) (h4 : s.nrCols ≤ 4) (hc : s.CacheOK asg)
    (h : (assignedToLeChunks s x per (some n) numBits).2.Holds R asg) :
    (assignedToLeChunks s x per (some n) numBits).2.CacheOK asg ∧
    (assignedToLeChunks s x per (some n) numBits).2.bounds = s.bounds ∧
    ∃ vs : List Nat, vs.length = n ∧ (∀ v ∈ vs, v < 2 ^ per) ∧
      CellsHold asg (assignedToLeChunks s x per (some n) numBits).1 vs ∧
      asg x = ((fromLimbs (2 ^ per) vs : Nat) : F) := by
  unfold assignedToLeChunks at h ⊢
  simp only [Option.getD_some] at h ⊢
  obtain ⟨c1, b1, _, vs, v1, v2, v3⟩ := decomposeFixedLimbSize_sound hR s x (per * n) per asg (by omega) hmb h0 h4 hc h
  rw [dflSizes_mul per n hper] at v1 v3
  obtain ⟨hl, hlt⟩ := (limbVals_replicate n per vs).mp v1
  rw [recomp_replicate n per vs hl] at v3
  exact ⟨c1, b1, vs, hl, hlt, v2, v3⟩

/-- **`assigned_to_le_bytes`** with an explicit number of bytes different from the full width:
the cells hold bytes (`< 256`) whose little-endian recomposition is `x`. -/
theorem assignedToLeBytes_sound (hR : RangeSound R) (s : St F) (x : Cell) (nb numBits halfP : Nat)
    (asg : Cell → F) (hne : nb ≠ (numBits + 7) / 8) (hmb : 8 ≤ s.maxBitLen)
    (h0 : 0 < s.nrCols) (h4 : s.nrCols ≤ 4) (hc : s.CacheOK asg)
    (h : (assignedToLeBytes s x (some nb) numBits halfP).2.Holds R asg) :
    (assignedToLeBytes s x (some nb) numBits halfP).2.CacheOK asg ∧
    (assignedToLeBytes s x (some nb) numBits halfP).2.bounds = s.bounds ∧
    ∃ ys : List Nat, ys.length = nb ∧ (∀ y ∈ ys, y < 256) ∧
      CellsHold asg (assignedToLeBytes s x (some nb) numBits halfP).1 ys ∧
      asg x = ((fromLimbs 256 ys : Nat) : F) := by
  unfold assignedToLeBytes at h ⊢
  simp only [Option.getD_some, hne, if_false] at h ⊢
  obtain ⟨c1, b1, _, vs, v1, v2, v3⟩ := decomposeFixedLimbSize_sound hR s x (8 * nb) 8 asg (by omega) hmb h0 h4 hc h
  rw [dflSizes_mul 8 nb (by omega)] at v1 v3
  obtain ⟨hl, hlt⟩ := (limbVals_replicate nb 8 vs).mp v1
  rw [recomp_replicate nb 8 vs hl] at v3
  exact ⟨c1, b1, vs, hl, by simpa using hlt, v2, by simpa using v3⟩

end MidnightZK.C04
