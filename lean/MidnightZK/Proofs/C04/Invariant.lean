import MidnightZK.Proofs.C04.Bytes
import MidnightZK.Proofs.C04.Opt
/-! The invariant of the interpreter of the core language (`COp`, Model/C04/Interp.lean): in every
reachable state, for every assignment accepted by the constraints emitted so far,

* every cached constant cell holds its constant (`CacheOK`),
* every entry `(cell, b)` of the bound cache of `NativeGadget` holds: the cell is a natural number
  below `b` (`BoundsOK`),
* every variable of type bit / byte / bounded(n) holds a number below 2 / 256 / 2^n (`TyOK`;
  these are the facts the conversions bit → native and byte → native rely on when they record a
  bound without emitting a constraint, and the comparisons rely on for their operands).

`COp.run_good` is the induction step, one case per operation. -/
namespace MidnightZK.C04
open Lean.Grind
attribute [local instance] Semiring.natCast
set_option linter.unusedSectionVars false
set_option linter.unusedSimpArgs false
set_option linter.unusedVariables false

variable {F : Type} [Field F] [DecidableEq F]
variable {R : Nat → F → Prop}

/-- Type invariant of a variable: an `AssignedBit` is below 2, an `AssignedByte` below 256, an
`AssignedBounded` with bound `n` below `2^n`. -/
def TyOK (asg : Cell → F) (v : Var) : Prop :=
  match v.ty with
  | .B => IsNatLt asg v.cell 2
  | .Y => IsNatLt asg v.cell 256
  | .D n => IsNatLt asg v.cell (2 ^ n)
  | .N => True

/-- The invariant under one assignment. -/
def RunSt.Inv (r : RunSt F) (asg : Cell → F) : Prop :=
  r.st.CacheOK asg ∧ r.st.BoundsOK asg ∧ ∀ v ∈ r.vars.toList, TyOK asg v

/-- Admissible configuration, and the invariant under every accepted assignment. -/
def RunSt.Good (R : Nat → F → Prop) (r : RunSt F) : Prop :=
  0 < r.st.nrCols ∧ r.st.nrCols ≤ 4 ∧ 0 < r.st.maxBitLen ∧ ∀ asg, r.st.Holds R asg → r.Inv asg

theorem toList_foldl_push (news : List Var) (vars : Array Var) :
    (news.foldl (fun a v => a.push v) vars).toList = vars.toList ++ news := by
  induction news generalizing vars with
  | nil => simp
  | cons v vs ih => simp only [List.foldl_cons]; rw [ih]; simp

/-- The generic step: a new state that extends the old one, re-establishes the two cache
invariants and types its new variables. -/
theorem good_step {r : RunSt F} {s' : St F} (news : List Var) (hg : r.Good R) (hext : r.st.Ext s')
    (hstep : ∀ asg, r.Inv asg → s'.Holds R asg →
      s'.CacheOK asg ∧ s'.BoundsOK asg ∧ ∀ v ∈ news, TyOK asg v) :
    (⟨s', news.foldl (fun a v => a.push v) r.vars⟩ : RunSt F).Good R := by
  obtain ⟨h0, h4, hm, hall⟩ := hg
  refine ⟨by rw [hext.1]; exact h0, by rw [hext.1]; exact h4, by rw [hext.2.1]; exact hm, ?_⟩
  intro asg h
  have hI := hall asg (hext.holds asg h)
  obtain ⟨c, b, t⟩ := hstep asg hI h
  refine ⟨c, b, ?_⟩
  intro v hv
  simp only [toList_foldl_push, List.mem_append] at hv
  rcases hv with hv | hv
  · exact hI.2.2 v hv
  · exact t v hv

theorem cellOf_some {r : RunSt F} {i : Nat} {c : Cell} (h : r.cellOf i = some c) : True := trivial

theorem cellTy_some {r : RunSt F} {ty : Ty} {i : Nat} {c : Cell} (h : r.cellTy ty i = some c) :
    ∃ v ∈ r.vars.toList, v.ty = ty ∧ v.cell = c := by
  unfold RunSt.cellTy at h
  cases hv : r.vars[i]? with
  | none => simp [hv] at h
  | some v =>
    simp only [hv] at h
    by_cases ht : v.ty = ty
    · simp only [ht, if_true, Option.some.injEq] at h
      exact ⟨v, Array.mem_toList_iff.mpr (Array.mem_of_getElem? hv), ht, h⟩
    · simp [ht] at h

theorem cellsTy_some {r : RunSt F} {ty : Ty} : ∀ {l : List Nat} {cs : List Cell},
    r.cellsTy ty l = some cs → ∀ c ∈ cs, ∃ v ∈ r.vars.toList, v.ty = ty ∧ v.cell = c := by
  intro l
  induction l with
  | nil =>
    intro cs h c hc
    simp [RunSt.cellsTy] at h
    subst h; simp at hc
  | cons i l ih =>
    intro cs h c hc
    simp only [RunSt.cellsTy, List.mapM_cons, bind, Option.bind_eq_some_iff, pure,
      Option.some.injEq] at h
    obtain ⟨c0, h0, cs', h1, rfl⟩ := h
    simp only [List.mem_cons] at hc
    rcases hc with rfl | hc
    · exact cellTy_some h0
    · exact ih (cs := cs') h1 c hc

theorem tyB_of_inv {r : RunSt F} {asg : Cell → F} (hI : r.Inv asg) {i : Nat} {c : Cell}
    (h : r.cellTy .B i = some c) : IsNatLt asg c 2 := by
  obtain ⟨v, hv, ht, rfl⟩ := cellTy_some h
  have := hI.2.2 v hv
  simp only [TyOK, ht] at this
  exact this

theorem tyY_of_inv {r : RunSt F} {asg : Cell → F} (hI : r.Inv asg) {i : Nat} {c : Cell}
    (h : r.cellTy .Y i = some c) : IsNatLt asg c 256 := by
  obtain ⟨v, hv, ht, rfl⟩ := cellTy_some h
  have := hI.2.2 v hv
  simp only [TyOK, ht] at this
  exact this

theorem cellD_some {r : RunSt F} {i : Nat} {x : Cell × Nat} (h : r.cellD i = some x) :
    (⟨.D x.2, x.1⟩ : Var) ∈ r.vars.toList := by
  unfold RunSt.cellD at h
  cases hv : r.vars[i]? with
  | none => simp [hv] at h
  | some v =>
    obtain ⟨ty, c⟩ := v
    cases ty <;> simp [hv] at h
    obtain ⟨rfl, rfl⟩ := h
    exact Array.mem_toList_iff.mpr (Array.mem_of_getElem? hv)

theorem tyD_of_inv {r : RunSt F} {asg : Cell → F} (hI : r.Inv asg) {i : Nat} {x : Cell × Nat}
    (h : r.cellD i = some x) : IsNatLt asg x.1 (2 ^ x.2) := hI.2.2 _ (cellD_some h)

theorem bit_of_isNatLt {asg : Cell → F} {c : Cell} (h : IsNatLt asg c 2) : asg c = 0 ∨ asg c = 1 := by
  obtain ⟨n, hn, hv⟩ := h
  have : n = 0 ∨ n = 1 := by omega
  rcases this with rfl | rfl
  · left; rw [hv, natCast_zero']
  · right; rw [hv, natCast_one']

/-! ### Small frame lemmas that were not needed before -/

theorem assertNotEqual_bounds (s : St F) (x y : Cell) : (assertNotEqual s x y).bounds = s.bounds := rfl
theorem assertNotEqualToFixed_bounds (s : St F) (x : Cell) (c : F) :
    (assertNotEqualToFixed s x c).bounds = s.bounds := rfl

theorem isNotEqualToFixed_bounds (s : St F) (x : Cell) (c : F) :
    (isNotEqualToFixed s x c).2.bounds = s.bounds := by
  simp only [isNotEqualToFixed, assertZero, assertEqualToFixed_bounds, addAndMul_bounds]
  rfl

theorem isNotEqual_bounds (s : St F) (x y : Cell) : (isNotEqual s x y).2.bounds = s.bounds := by
  simp only [isNotEqual, assertZero, assertEqualToFixed_bounds, addAndDoubleMul_bounds]
  rfl

theorem mulByConstant_bounds (s : St F) (x : Cell) (c : F) :
    (mulByConstant s x c).2.bounds = s.bounds := by
  unfold mulByConstant
  split
  · exact assignFixed_bounds s 0
  · split
    · rfl
    · exact linearCombination_bounds ..

theorem mulByConstant_ext (s : St F) (x : Cell) (c : F) : s.Ext (mulByConstant s x c).2 := by
  unfold mulByConstant
  split
  · exact assignFixed_ext s 0
  · split
    · exact St.Ext.refl s
    · exact linearCombination_ext ..

theorem bit_one {asg : Cell → F} {c : Cell} (h : asg c = 1) : asg c = 0 ∨ asg c = 1 := Or.inr h

theorem bit_not {a : F} (ha : a = 0 ∨ a = 1) : 1 - a = 0 ∨ 1 - a = 1 := by
  rcases ha with h | h <;> subst h
  · right; grind
  · left; grind

theorem bit_or {a b : F} (ha : a = 0 ∨ a = 1) (hb : b = 0 ∨ b = 1) :
    a + b - a * b = 0 ∨ a + b - a * b = 1 := by
  rcases ha with h | h <;> rcases hb with h' | h' <;> subst h <;> subst h'
  · left; grind
  · right; grind
  · right; grind
  · right; grind

theorem bit_and {a b : F} (ha : a = 0 ∨ a = 1) (hb : b = 0 ∨ b = 1) : a * b = 0 ∨ a * b = 1 := by
  rcases ha with h | h <;> rcases hb with h' | h' <;> subst h <;> subst h'
  · left; grind
  · left; grind
  · left; grind
  · right; grind

theorem bit_xor {a b : F} (ha : a = 0 ∨ a = 1) (hb : b = 0 ∨ b = 1) :
    a + b - 2 * a * b = 0 ∨ a + b - 2 * a * b = 1 := by
  rcases ha with h | h <;> rcases hb with h' | h' <;> subst h <;> subst h'
  · left; grind
  · right; grind
  · right; grind
  · left; grind

/-- A fold of a bit-preserving connective over bits is a bit. -/
theorem foldl_bit (g : F → F → F) (hg : ∀ a b : F, (a = 0 ∨ a = 1) → (b = 0 ∨ b = 1) → (g a b = 0 ∨ g a b = 1))
    (l : List F) (hl : ∀ x ∈ l, x = 0 ∨ x = 1) (a : F) (ha : a = 0 ∨ a = 1) :
    l.foldl g a = 0 ∨ l.foldl g a = 1 := by
  induction l generalizing a with
  | nil => exact ha
  | cons x xs ih =>
    simp only [List.foldl_cons]
    exact ih (fun y hy => hl y (List.mem_cons_of_mem _ hy)) _ (hg a x ha (hl x List.mem_cons_self))

/-! ### Comparisons: the invariants and the bitness of the result, without any assumption on the
operands (what the induction over programs needs; the value of the result is the subject of
`lowerThan_sound'` etc.) -/

theorem lowerThan_inv (hR : RangeSound R) (s : St F) (x : Cell) (bx : Nat) (y : Cell) (by_ : Nat)
    (asg : Cell → F) (h0 : 0 < s.nrCols) (h4 : s.nrCols ≤ 4) (hopt : OptOK s (max bx by_))
    (hc : s.CacheOK asg) (hB : s.BoundsOK asg) (h : (lowerThan s x bx y by_).2.Holds R asg) :
    (lowerThan s x bx y by_).2.CacheOK asg ∧ (lowerThan s x bx y by_).2.BoundsOK asg ∧
    (asg (lowerThan s x bx y by_).1 = 0 ∨ asg (lowerThan s x bx y by_).1 = 1) := by
  simp only [lowerThan] at h ⊢
  have e1 := assignBit_ext s
  have e2 := updateBound_ext (assignBit s).2 (assignBit s).1 2
  have h5 := (assertLessThanPow2_ext _ _ _).holds asg h
  have h4' := (linearCombination_ext ..).holds asg h5
  have h3 := (mul_ext ..).holds asg h4'
  have h2 := (mul_ext ..).holds asg h3
  have h1 := (updateBound_holds _ _ _ asg).mp h2
  obtain ⟨c1, rb⟩ := assignBit_sound s asg hc h1
  have c2 := (updateBound_cache (assignBit s).2 (assignBit s).1 2 asg).mpr c1
  obtain ⟨c3, _⟩ := mul_sound _ x _ none asg c2 h3
  obtain ⟨c4, _⟩ := mul_sound _ y _ none asg c3 h4'
  obtain ⟨_, c5, _⟩ := linearCombination_sound _ _ _ asg c4 h5
  have eall := ext_hint h5 (e1.trans (e2.trans ((mul_ext ..).trans ((mul_ext ..).trans (linearCombination_ext ..)))))
  obtain ⟨c6, _⟩ := assertLessThanPow2_sound hR _ _ (max bx by_) asg (by rw [eall.1]; exact h0)
    (by rw [eall.1]; exact h4) (OptOK_ext eall _ hopt).1 (OptOK_ext eall _ hopt).2 c5 h
  have B1 : ((assignBit s).2.updateBound (assignBit s).1 2).BoundsOK asg :=
    updateBound_boundsOK _ asg (boundsOK_of_bounds_eq asg (assignBit_bounds s) hB) _ 2 (isNatLt_bit rb)
  refine ⟨c6, ?_, rb⟩
  apply boundsOK_of_bounds_eq asg _ B1
  rw [assertLessThanPow2_bounds, linearCombination_bounds, mul_bounds, mul_bounds]

theorem lowerThanFixed_inv (hR : RangeSound R) (s : St F) (x : Cell) (bx y : Nat) (asg : Cell → F)
    (h0 : 0 < s.nrCols) (h4 : s.nrCols ≤ 4) (hopt : OptOK s bx)
    (hc : s.CacheOK asg) (hB : s.BoundsOK asg) (h : (lowerThanFixed s x bx y).2.Holds R asg) :
    (lowerThanFixed s x bx y).2.CacheOK asg ∧ (lowerThanFixed s x bx y).2.BoundsOK asg ∧
    (asg (lowerThanFixed s x bx y).1 = 0 ∨ asg (lowerThanFixed s x bx y).1 = 1) := by
  unfold lowerThanFixed at h ⊢
  cases hbl : s.boundLe x y with
  | true =>
    simp only [hbl, if_true] at h ⊢
    obtain ⟨_, c1, r1⟩ := assignFixed_sound s 1 asg hc h
    exact ⟨c1, boundsOK_of_bounds_eq asg (assignFixed_bounds s 1) hB, Or.inr r1⟩
  | false =>
    simp only [hbl, Bool.false_eq_true, if_false] at h ⊢
    by_cases hge : y ≥ 2 ^ bx
    · simp only [hge, if_true] at h ⊢
      obtain ⟨_, c1, r1⟩ := assignFixed_sound s 1 asg hc h
      exact ⟨c1, boundsOK_of_bounds_eq asg (assignFixed_bounds s 1) hB, Or.inr r1⟩
    · simp only [hge, if_false] at h ⊢
      have e1 := assignBit_ext s
      have e2 := updateBound_ext (assignBit s).2 (assignBit s).1 2
      have h5 := (assertLessThanPow2_ext _ _ _).holds asg h
      have h4' := (linearCombination_ext ..).holds asg h5
      have h3 := (mul_ext ..).holds asg h4'
      have h1 := (updateBound_holds _ _ _ asg).mp h3
      obtain ⟨c1, rb⟩ := assignBit_sound s asg hc h1
      have c2 := (updateBound_cache (assignBit s).2 (assignBit s).1 2 asg).mpr c1
      obtain ⟨c3, r3⟩ := mul_sound _ x _ none asg c2 h4'
      obtain ⟨_, c5, r5⟩ := linearCombination_sound _ _ _ asg c3 h5
      have eall := ext_hint h5 (e1.trans (e2.trans ((mul_ext ..).trans (linearCombination_ext ..))))
      obtain ⟨c6, _⟩ := assertLessThanPow2_sound hR _ _ bx asg (by rw [eall.1]; exact h0)
        (by rw [eall.1]; exact h4) (OptOK_ext eall _ hopt).1 (OptOK_ext eall _ hopt).2 c5 h
      have B1 : ((assignBit s).2.updateBound (assignBit s).1 2).BoundsOK asg :=
        updateBound_boundsOK _ asg (boundsOK_of_bounds_eq asg (assignBit_bounds s) hB) _ 2 (isNatLt_bit rb)
      refine ⟨c6, ?_, rb⟩
      apply boundsOK_of_bounds_eq asg _ B1
      rw [assertLessThanPow2_bounds, linearCombination_bounds, mul_bounds]

theorem leq_inv (hR : RangeSound R) (s : St F) (x : Cell) (bx : Nat) (y : Cell) (by_ : Nat)
    (asg : Cell → F) (h0 : 0 < s.nrCols) (h4 : s.nrCols ≤ 4) (hopt : OptOK s (max bx by_))
    (hc : s.CacheOK asg) (hB : s.BoundsOK asg) (h : (leq s x bx y by_).2.Holds R asg) :
    (leq s x bx y by_).2.CacheOK asg ∧ (leq s x bx y by_).2.BoundsOK asg ∧
    (asg (leq s x bx y by_).1 = 0 ∨ asg (leq s x bx y by_).1 = 1) := by
  simp only [leq] at h ⊢
  have h2 := (or_ext ..).holds asg h
  have h1 := (isEqual_ext ..).holds asg h2
  obtain ⟨c1, B1, r1⟩ := lowerThan_inv hR s x bx y by_ asg h0 h4 hopt hc hB h1
  obtain ⟨c2, r2⟩ := isEqual_sound _ x y asg c1 h2
  have B2 := boundsOK_hint h2 (isEqual_bounds ..) B1
  obtain ⟨c3, r3⟩ := or_sound _ _ _ asg c2 h
  refine ⟨c3, boundsOK_hint h (or_bounds ..) B2, ?_⟩
  simp only [List.map_cons, List.map_nil, List.foldl_cons, List.foldl_nil] at r3
  rw [r3]
  have hb2 : asg (isEqual (lowerThan s x bx y by_).2 x y).1 = 0 ∨ asg (isEqual (lowerThan s x bx y by_).2 x y).1 = 1 := by
    rcases r2 with ⟨_, b⟩ | ⟨_, b⟩
    · exact Or.inr b
    · exact Or.inl b
  exact bit_or r1 hb2

theorem geq_ext (s : St F) (x : Cell) (bx : Nat) (y : Cell) (by_ : Nat) : s.Ext (geq s x bx y by_).2 := by
  simp only [geq]; exact (lowerThan_ext ..).trans (not_ext ..)

theorem greaterThan_ext (s : St F) (x : Cell) (bx : Nat) (y : Cell) (by_ : Nat) :
    s.Ext (greaterThan s x bx y by_).2 := by
  simp only [greaterThan]; exact (leq_ext ..).trans (not_ext ..)

theorem geq_inv (hR : RangeSound R) (s : St F) (x : Cell) (bx : Nat) (y : Cell) (by_ : Nat)
    (asg : Cell → F) (h0 : 0 < s.nrCols) (h4 : s.nrCols ≤ 4) (hopt : OptOK s (max bx by_))
    (hc : s.CacheOK asg) (hB : s.BoundsOK asg) (h : (geq s x bx y by_).2.Holds R asg) :
    (geq s x bx y by_).2.CacheOK asg ∧ (geq s x bx y by_).2.BoundsOK asg ∧
    (asg (geq s x bx y by_).1 = 0 ∨ asg (geq s x bx y by_).1 = 1) := by
  simp only [geq] at h ⊢
  have h1 := (not_ext ..).holds asg h
  obtain ⟨c1, B1, r1⟩ := lowerThan_inv hR s x bx y by_ asg h0 h4 hopt hc hB h1
  obtain ⟨c2, r2⟩ := not_sound _ _ asg c1 h
  refine ⟨c2, boundsOK_hint h (not_bounds ..) B1, ?_⟩
  rw [r2]; exact bit_not r1

theorem greaterThan_inv (hR : RangeSound R) (s : St F) (x : Cell) (bx : Nat) (y : Cell) (by_ : Nat)
    (asg : Cell → F) (h0 : 0 < s.nrCols) (h4 : s.nrCols ≤ 4) (hopt : OptOK s (max bx by_))
    (hc : s.CacheOK asg) (hB : s.BoundsOK asg) (h : (greaterThan s x bx y by_).2.Holds R asg) :
    (greaterThan s x bx y by_).2.CacheOK asg ∧ (greaterThan s x bx y by_).2.BoundsOK asg ∧
    (asg (greaterThan s x bx y by_).1 = 0 ∨ asg (greaterThan s x bx y by_).1 = 1) := by
  simp only [greaterThan] at h ⊢
  have h1 := (not_ext ..).holds asg h
  obtain ⟨c1, B1, r1⟩ := leq_inv hR s x bx y by_ asg h0 h4 hopt hc hB h1
  obtain ⟨c2, r2⟩ := not_sound _ _ asg c1 h
  refine ⟨c2, boundsOK_hint h (not_bounds ..) B1, ?_⟩
  rw [r2]; exact bit_not r1

theorem leqFixed_ext (s : St F) (x : Cell) (bx c p : Nat) : s.Ext (leqFixed s x bx c p).2 :=
  lowerThanFixed_ext ..

theorem geqFixed_ext (s : St F) (x : Cell) (bx c : Nat) : s.Ext (geqFixed s x bx c).2 := by
  simp only [geqFixed]; exact (lowerThanFixed_ext ..).trans (not_ext ..)

theorem greaterThanFixed_ext (s : St F) (x : Cell) (bx c p : Nat) :
    s.Ext (greaterThanFixed s x bx c p).2 := by
  simp only [greaterThanFixed]; exact (leqFixed_ext ..).trans (not_ext ..)

theorem geqFixed_inv (hR : RangeSound R) (s : St F) (x : Cell) (bx c : Nat) (asg : Cell → F)
    (h0 : 0 < s.nrCols) (h4 : s.nrCols ≤ 4) (hopt : OptOK s bx)
    (hc : s.CacheOK asg) (hB : s.BoundsOK asg) (h : (geqFixed s x bx c).2.Holds R asg) :
    (geqFixed s x bx c).2.CacheOK asg ∧ (geqFixed s x bx c).2.BoundsOK asg ∧
    (asg (geqFixed s x bx c).1 = 0 ∨ asg (geqFixed s x bx c).1 = 1) := by
  simp only [geqFixed] at h ⊢
  have h1 := (not_ext ..).holds asg h
  obtain ⟨c1, B1, r1⟩ := lowerThanFixed_inv hR s x bx c asg h0 h4 hopt hc hB h1
  obtain ⟨c2, r2⟩ := not_sound _ _ asg c1 h
  refine ⟨c2, boundsOK_hint h (not_bounds ..) B1, ?_⟩
  rw [r2]; exact bit_not r1

theorem greaterThanFixed_inv (hR : RangeSound R) (s : St F) (x : Cell) (bx c p : Nat) (asg : Cell → F)
    (h0 : 0 < s.nrCols) (h4 : s.nrCols ≤ 4) (hopt : OptOK s bx)
    (hc : s.CacheOK asg) (hB : s.BoundsOK asg) (h : (greaterThanFixed s x bx c p).2.Holds R asg) :
    (greaterThanFixed s x bx c p).2.CacheOK asg ∧ (greaterThanFixed s x bx c p).2.BoundsOK asg ∧
    (asg (greaterThanFixed s x bx c p).1 = 0 ∨ asg (greaterThanFixed s x bx c p).1 = 1) := by
  simp only [greaterThanFixed, leqFixed] at h ⊢
  have h1 := (not_ext ..).holds asg h
  obtain ⟨c1, B1, r1⟩ := lowerThanFixed_inv hR s x bx ((c + 1) % p) asg h0 h4 hopt hc hB h1
  obtain ⟨c2, r2⟩ := not_sound _ _ asg c1 h
  refine ⟨c2, boundsOK_hint h (not_bounds ..) B1, ?_⟩
  rw [r2]; exact bit_not r1

/-! ### Conversions, recomposition, `div_rem`, `bnot`, byte-typed instructions -/

theorem gConvertToBit_ext (s : St F) (x : Cell) : s.Ext (gConvertToBit s x).2 := by
  unfold gConvertToBit; split
  · exact St.Ext.refl s
  · exact (updateBound_ext s x 2).trans (convertToBit_ext ..)

theorem gConvertToByte_ext (s : St F) (x : Cell) : s.Ext (gConvertToByte s x).2 := by
  unfold gConvertToByte; split
  · exact St.Ext.refl s
  · exact (updateBound_ext s x 256).trans ((assignLessThanPow2_ext ..).trans (gAssertEqual_ext ..))

theorem assignedFromLeBits_ext (s : St F) (bits : List Cell) : s.Ext (assignedFromLeBits s bits).2 := by
  simp only [assignedFromLeBits]
  exact (foldl_updateBound_ext bits 2 s).trans (linearCombination_ext ..)

theorem assignedFromLeBytes_ext (s : St F) (bytes : List Cell) :
    s.Ext (assignedFromLeBytes s bytes).2 := by
  simp only [assignedFromLeBytes]
  exact (foldl_updateBound_ext bytes 256 s).trans (linearCombination_ext ..)

/-- `assigned_from_le_bits` / `assigned_from_le_bytes`: recording the bound `b` for cells that are
below `b` keeps the invariants. -/
theorem recompose_inv (b : Nat) (cells : List Cell) (terms : List (F × Cell)) (s : St F)
    (asg : Cell → F) (hall : ∀ c ∈ cells, IsNatLt asg c b) (hc : s.CacheOK asg) (hB : s.BoundsOK asg)
    (h : (linearCombination (cells.foldl (fun s c => s.updateBound c b) s) terms 0).2.Holds R asg) :
    (linearCombination (cells.foldl (fun s c => s.updateBound c b) s) terms 0).2.CacheOK asg ∧
    (linearCombination (cells.foldl (fun s c => s.updateBound c b) s) terms 0).2.BoundsOK asg := by
  obtain ⟨_, i2, i3⟩ := foldl_updateBound_inv (R := R) cells b s asg hall
  obtain ⟨_, c1, _⟩ := linearCombination_sound _ terms 0 asg (i2.mpr hc) h
  exact ⟨c1, boundsOK_of_bounds_eq asg (linearCombination_bounds ..) (i3 hB)⟩

theorem divRem_ext (s : St F) (x : Cell) (d : Nat) (bound : Option Nat) (pm1 : Nat) :
    s.Ext (divRem s x d bound pm1).2 := by
  unfold divRem; split
  · exact assignFixed_ext s 0
  · exact (assignLowerThanFixed_ext ..).trans ((assignLowerThanFixed_ext ..).trans
      ((linearCombination_ext ..).trans (gAssertEqual_ext ..)))

theorem divRem_inv (hR : RangeSound R) (s : St F) (x : Cell) (d : Nat) (bound : Option Nat) (pm1 : Nat)
    (asg : Cell → F) (hd : 0 < d) (h0 : 0 < s.nrCols) (h4 : s.nrCols ≤ 4) (hm : 0 < s.maxBitLen)
    (hc : s.CacheOK asg) (hB : s.BoundsOK asg) (h : (divRem s x d bound pm1).2.Holds R asg) :
    (divRem s x d bound pm1).2.CacheOK asg ∧ (divRem s x d bound pm1).2.BoundsOK asg := by
  unfold divRem at h ⊢
  by_cases h1 : d = 1
  · simp only [h1, if_true] at h ⊢
    obtain ⟨_, c1, _⟩ := assignFixed_sound s 0 asg hc h
    exact ⟨c1, boundsOK_of_bounds_eq asg (assignFixed_bounds s 0) hB⟩
  · simp only [h1, if_false] at h ⊢
    have e1 := assignLowerThanFixed_ext s d
    have e2 := assignLowerThanFixed_ext (assignLowerThanFixed s d).2 (bound.getD pm1 / d + 1)
    have h4' := (gAssertEqual_ext ..).holds asg h
    have h3 := (linearCombination_ext ..).holds asg h4'
    have h2 := e2.holds asg h3
    obtain ⟨c1, B1, _⟩ := assignLowerThanFixed_sound hR s d asg hd h0 h4 (optOK_all s _ h0 hm) hc hB h2
    obtain ⟨c2, B2, _⟩ := assignLowerThanFixed_sound hR _ (bound.getD pm1 / d + 1) asg (Nat.succ_pos _)
      (by rw [e1.1]; exact h0) (by rw [e1.1]; exact h4)
      (optOK_all _ _ (by rw [e1.1]; exact h0) (by rw [e1.2.1]; exact hm)) c1 B1 h3
    obtain ⟨_, c3, _⟩ := linearCombination_sound _ _ _ asg c2 h4'
    have B3 := boundsOK_hint h4' (linearCombination_bounds ..) B2
    obtain ⟨c4, B4, _⟩ := gAssertEqual_sound _ _ _ asg c3 B3 h
    exact ⟨c4, B4⟩

theorem bnot_ext (s : St F) (x : Cell) (n : Nat) : s.Ext (bnot s x n).2 := by
  simp only [bnot]
  exact (assertLowerThanFixed_ext ..).trans (linearCombination_ext ..)

theorem pow2_pos (n : Nat) : 0 < 2 ^ n := Nat.two_pow_pos n

theorem bnot_inv (hR : RangeSound R) (s : St F) (x : Cell) (n : Nat) (asg : Cell → F)
    (h0 : 0 < s.nrCols) (h4 : s.nrCols ≤ 4) (hm : 0 < s.maxBitLen)
    (hc : s.CacheOK asg) (hB : s.BoundsOK asg) (h : (bnot s x n).2.Holds R asg) :
    (bnot s x n).2.CacheOK asg ∧ (bnot s x n).2.BoundsOK asg ∧ IsNatLt asg x (2 ^ n) := by
  simp only [bnot] at h ⊢
  have h1 := (linearCombination_ext ..).holds asg h
  obtain ⟨c1, B1, r1⟩ := assertLowerThanFixed_sound hR s x (2 ^ n) asg (pow2_pos n) h0 h4
    (optOK_all s _ h0 hm) hc hB h1
  obtain ⟨_, c2, _⟩ := linearCombination_sound _ _ _ asg c1 h
  exact ⟨c2, boundsOK_hint h (linearCombination_bounds ..) B1, r1⟩

/-- byte → native conversion (`convertByteToNative`) / bit → native: recording the type bound. -/
theorem typeBound_inv (s : St F) (c : Cell) (b : Nat) (asg : Cell → F) (hty : IsNatLt asg c b)
    (hc : s.CacheOK asg) (hB : s.BoundsOK asg) :
    (s.updateBound c b).CacheOK asg ∧ (s.updateBound c b).BoundsOK asg :=
  ⟨(updateBound_cache s c b asg).mpr hc, updateBound_boundsOK s asg hB c b hty⟩

/-! ### The induction step -/

theorem tyN (asg : Cell → F) (c : Cell) : ∀ v ∈ [(⟨.N, c⟩ : Var)], TyOK asg v := by
  intro v hv; simp only [List.mem_cons, List.mem_nil_iff, or_false] at hv; subst hv; exact trivial

theorem tyD (asg : Cell → F) (c : Cell) (n : Nat) (h : IsNatLt asg c (2 ^ n)) :
    ∀ v ∈ [(⟨.D n, c⟩ : Var)], TyOK asg v := by
  intro v hv; simp only [List.mem_cons, List.mem_nil_iff, or_false] at hv; subst hv; exact h

theorem tyNone (asg : Cell → F) : ∀ v ∈ ([] : List Var), TyOK asg v := by
  intro v hv; simp at hv

theorem tyB (asg : Cell → F) (c : Cell) (h : asg c = 0 ∨ asg c = 1) :
    ∀ v ∈ [(⟨.B, c⟩ : Var)], TyOK asg v := by
  intro v hv; simp only [List.mem_cons, List.mem_nil_iff, or_false] at hv; subst hv
  exact isNatLt_bit h

theorem tyY (asg : Cell → F) (c : Cell) (h : IsNatLt asg c 256) :
    ∀ v ∈ [(⟨.Y, c⟩ : Var)], TyOK asg v := by
  intro v hv; simp only [List.mem_cons, List.mem_nil_iff, or_false] at hv; subst hv
  exact h

/-- No change of the bound cache, constant cache re-established: both invariants carry over. -/
theorem keep {r : RunSt F} {asg : Cell → F} (hI : r.Inv asg) {s' : St F} (hc : s'.CacheOK asg)
    (hb : s'.bounds = r.st.bounds) : s'.CacheOK asg ∧ s'.BoundsOK asg :=
  ⟨hc, boundsOK_of_bounds_eq asg hb hI.2.1⟩

section step
variable (hR : RangeSound R) (fi : FieldInfo)
include hR

/-- **The induction step**: one operation of the core language keeps the invariant. -/
theorem COp.run_good (r r' : RunSt F) (op : COp F) (hg : r.Good R) (h : op.run fi r = some r') :
    r'.Good R := by
  have h0 := hg.1
  have h4 := hg.2.1
  have hm := hg.2.2.1
  cases op with
  | assign =>
    simp only [COp.run, Option.some.injEq] at h; subst h
    exact good_step [⟨.N, _⟩] hg (assign_ext _) (fun asg hI h =>
      ⟨hI.1, boundsOK_of_bounds_eq asg (assign_bounds _) hI.2.1, tyN asg _⟩)
  | assignBit =>
    simp only [COp.run, Option.some.injEq] at h; subst h
    exact good_step [⟨.B, _⟩] hg (assignBit_ext _) (fun asg hI h =>
      have hs := assignBit_sound _ asg hI.1 h
      ⟨hs.1, boundsOK_of_bounds_eq asg (assignBit_bounds _) hI.2.1, tyB asg _ hs.2⟩)
  | assignByte =>
    simp only [COp.run, Option.some.injEq] at h; subst h
    exact good_step [⟨.Y, _⟩] hg (assignLessThanPow2_ext _ 8) (fun asg hI h =>
      have hs := assignLessThanPow2_sound hR _ 8 asg h0 h4 (optOK_all _ _ h0 hm) hI.1 h
      ⟨hs.1, boundsOK_of_bounds_eq asg (assignLessThanPow2_bounds _ 8) hI.2.1, tyY asg _ hs.2⟩)
  | fix c =>
    simp only [COp.run, Option.some.injEq] at h; subst h
    exact good_step [⟨.N, _⟩] hg (assignFixed_ext _ c) (fun asg hI h =>
      have hs := assignFixed_sound _ c asg hI.1 h
      ⟨hs.2.1, boundsOK_of_bounds_eq asg (assignFixed_bounds _ c) hI.2.1, tyN asg _⟩)
  | fixBit b =>
    simp only [COp.run, Option.some.injEq] at h; subst h
    exact good_step [⟨.B, _⟩] hg (assignFixed_ext _ _) (fun asg hI h =>
      have hs := assignFixed_sound _ (if b then (1 : F) else 0) asg hI.1 h
      ⟨hs.2.1, boundsOK_of_bounds_eq asg (assignFixed_bounds _ _) hI.2.1,
        tyB asg _ (by rw [hs.2.2]; cases b <;> simp)⟩)
  | fixByte b =>
    simp only [COp.run] at h
    by_cases hb : b < 256
    · simp only [hb, if_true, Option.some.injEq] at h; subst h
      exact good_step [⟨.Y, _⟩] hg (assignFixed_ext _ _) (fun asg hI h =>
        have hs := assignFixed_sound _ ((b : Nat) : F) asg hI.1 h
        ⟨hs.2.1, boundsOK_of_bounds_eq asg (assignFixed_bounds _ _) hI.2.1,
          tyY asg _ ⟨b, hb, hs.2.2⟩⟩)
    · simp [hb] at h
  | add a b =>
    simp only [COp.run, bind, Option.bind_eq_some_iff, pure, Option.some.injEq] at h
    obtain ⟨ca, _, cb, _, rfl⟩ := h
    exact good_step [⟨.N, _⟩] hg (linearCombination_ext ..) (fun asg hI h =>
      have hs := add_sound _ ca cb asg hI.1 h
      ⟨hs.1, boundsOK_of_bounds_eq asg (linearCombination_bounds ..) hI.2.1, tyN asg _⟩)
  | sub a b =>
    simp only [COp.run, bind, Option.bind_eq_some_iff, pure, Option.some.injEq] at h
    obtain ⟨ca, _, cb, _, rfl⟩ := h
    exact good_step [⟨.N, _⟩] hg (linearCombination_ext ..) (fun asg hI h =>
      have hs := sub_sound _ ca cb asg hI.1 h
      ⟨hs.1, boundsOK_of_bounds_eq asg (linearCombination_bounds ..) hI.2.1, tyN asg _⟩)
  | neg a =>
    simp only [COp.run, bind, Option.bind_eq_some_iff, pure, Option.some.injEq] at h
    obtain ⟨ca, _, rfl⟩ := h
    exact good_step [⟨.N, _⟩] hg (linearCombination_ext ..) (fun asg hI h =>
      have hs := neg_sound _ ca asg hI.1 h
      ⟨hs.1, boundsOK_of_bounds_eq asg (linearCombination_bounds ..) hI.2.1, tyN asg _⟩)
  | mul a b k =>
    simp only [COp.run, bind, Option.bind_eq_some_iff, pure, Option.some.injEq] at h
    obtain ⟨ca, _, cb, _, rfl⟩ := h
    exact good_step [⟨.N, _⟩] hg (mul_ext ..) (fun asg hI h =>
      have hs := mul_sound _ ca cb k asg hI.1 h
      ⟨hs.1, boundsOK_of_bounds_eq asg (mul_bounds ..) hI.2.1, tyN asg _⟩)
  | addc a c =>
    simp only [COp.run, bind, Option.bind_eq_some_iff, pure, Option.some.injEq] at h
    obtain ⟨ca, _, rfl⟩ := h
    exact good_step [⟨.N, _⟩] hg (addConstant_ext ..) (fun asg hI h =>
      have hs := addConstant_sound _ ca c asg hI.1 h
      ⟨hs.1, boundsOK_of_bounds_eq asg (addConstant_bounds ..) hI.2.1, tyN asg _⟩)
  | mulc a c =>
    simp only [COp.run, bind, Option.bind_eq_some_iff, pure, Option.some.injEq] at h
    obtain ⟨ca, _, rfl⟩ := h
    exact good_step [⟨.N, _⟩] hg (mulByConstant_ext ..) (fun asg hI h =>
      have hs := mulByConstant_sound _ ca c asg hI.1 h
      ⟨hs.1, boundsOK_of_bounds_eq asg (mulByConstant_bounds ..) hI.2.1, tyN asg _⟩)
  | lc ts k =>
    simp only [COp.run, bind, Option.bind_eq_some_iff, pure, Option.some.injEq] at h
    obtain ⟨ts', _, rfl⟩ := h
    exact good_step [⟨.N, _⟩] hg (linearCombination_ext ..) (fun asg hI h =>
      have hs := linearCombination_sound _ ts' k asg hI.1 h
      ⟨hs.2.1, boundsOK_of_bounds_eq asg (linearCombination_bounds ..) hI.2.1, tyN asg _⟩)
  | sel c a b =>
    simp only [COp.run, bind, Option.bind_eq_some_iff, pure, Option.some.injEq] at h
    obtain ⟨cc, _, ca, _, cb, _, rfl⟩ := h
    exact good_step [⟨.N, _⟩] hg (select_ext ..) (fun asg hI h =>
      have hs := select_sound _ cc ca cb asg hI.1 h
      ⟨hs.1, boundsOK_of_bounds_eq asg (select_bounds ..) hI.2.1, tyN asg _⟩)
  | aeq a b =>
    simp only [COp.run, bind, Option.bind_eq_some_iff, pure, Option.some.injEq] at h
    obtain ⟨ca, _, cb, _, rfl⟩ := h
    exact good_step [] hg (gAssertEqual_ext ..) (fun asg hI h =>
      have hs := gAssertEqual_sound _ ca cb asg hI.1 hI.2.1 h
      ⟨hs.1, hs.2.1, tyNone asg⟩)
  | aneq a b =>
    simp only [COp.run, bind, Option.bind_eq_some_iff, pure, Option.some.injEq] at h
    obtain ⟨ca, _, cb, _, rfl⟩ := h
    exact good_step [] hg (assertNotEqual_ext ..) (fun asg hI h =>
      have hs := assertNotEqual_sound _ ca cb asg hI.1 h
      ⟨hs.1, boundsOK_of_bounds_eq asg (assertNotEqual_bounds ..) hI.2.1, tyNone asg⟩)
  | aeqf a c =>
    simp only [COp.run, bind, Option.bind_eq_some_iff, pure, Option.some.injEq] at h
    obtain ⟨ca, _, rfl⟩ := h
    exact good_step [] hg (assertEqualToFixed_ext ..) (fun asg hI h =>
      have hs := assertEqualToFixed_sound _ ca c asg hI.1 h
      ⟨hs.1, boundsOK_of_bounds_eq asg (assertEqualToFixed_bounds ..) hI.2.1, tyNone asg⟩)
  | aneqf a c =>
    simp only [COp.run, bind, Option.bind_eq_some_iff, pure, Option.some.injEq] at h
    obtain ⟨ca, _, rfl⟩ := h
    exact good_step [] hg (assertNotEqualToFixed_ext ..) (fun asg hI h =>
      have hs := assertNotEqualToFixed_sound _ ca c asg hI.1 h
      ⟨hs.1, boundsOK_of_bounds_eq asg (assertNotEqualToFixed_bounds ..) hI.2.1, tyNone asg⟩)
  | iseq a b =>
    simp only [COp.run, bind, Option.bind_eq_some_iff, pure, Option.some.injEq] at h
    obtain ⟨ca, _, cb, _, rfl⟩ := h
    exact good_step [⟨.B, _⟩] hg (isEqual_ext ..) (fun asg hI h =>
      have hs := isEqual_sound _ ca cb asg hI.1 h
      ⟨hs.1, boundsOK_of_bounds_eq asg (isEqual_bounds ..) hI.2.1,
        tyB asg _ (hs.2.elim (fun x => Or.inr x.2) (fun x => Or.inl x.2))⟩)
  | isneq a b =>
    simp only [COp.run, bind, Option.bind_eq_some_iff, pure, Option.some.injEq] at h
    obtain ⟨ca, _, cb, _, rfl⟩ := h
    exact good_step [⟨.B, _⟩] hg (isNotEqual_ext ..) (fun asg hI h =>
      have hs := isNotEqual_sound _ ca cb asg hI.1 h
      ⟨hs.1, boundsOK_of_bounds_eq asg (isNotEqual_bounds ..) hI.2.1,
        tyB asg _ (hs.2.elim (fun x => Or.inl x.2) (fun x => Or.inr x.2))⟩)
  | iseqf a c =>
    simp only [COp.run, bind, Option.bind_eq_some_iff, pure, Option.some.injEq] at h
    obtain ⟨ca, _, rfl⟩ := h
    exact good_step [⟨.B, _⟩] hg (isEqualToFixed_ext ..) (fun asg hI h =>
      have hs := isEqualToFixed_sound _ ca c asg hI.1 h
      ⟨hs.1, boundsOK_of_bounds_eq asg (isEqualToFixed_bounds ..) hI.2.1,
        tyB asg _ (hs.2.elim (fun x => Or.inr x.2) (fun x => Or.inl x.2))⟩)
  | isneqf a c =>
    simp only [COp.run, bind, Option.bind_eq_some_iff, pure, Option.some.injEq] at h
    obtain ⟨ca, _, rfl⟩ := h
    exact good_step [⟨.B, _⟩] hg (isNotEqualToFixed_ext ..) (fun asg hI h =>
      have hs := isNotEqualToFixed_sound _ ca c asg hI.1 h
      ⟨hs.1, boundsOK_of_bounds_eq asg (isNotEqualToFixed_bounds ..) hI.2.1,
        tyB asg _ (hs.2.elim (fun x => Or.inl x.2) (fun x => Or.inr x.2))⟩)
  | not a =>
    simp only [COp.run, bind, Option.bind_eq_some_iff, pure, Option.some.injEq] at h
    obtain ⟨ca, hca, rfl⟩ := h
    exact good_step [⟨.B, _⟩] hg (not_ext ..) (fun asg hI h =>
      have hs := not_sound _ ca asg hI.1 h
      ⟨hs.1, boundsOK_of_bounds_eq asg (not_bounds ..) hI.2.1,
        tyB asg _ (by rw [hs.2]; exact bit_not (bit_of_isNatLt (tyB_of_inv hI hca)))⟩)
  | and l =>
    simp only [COp.run, bind, Option.bind_eq_some_iff, pure] at h
    obtain ⟨cs, hcs, h⟩ := h
    cases cs with
    | nil => simp at h
    | cons b rest =>
      simp only [Option.some.injEq] at h; subst h
      exact good_step [⟨.B, _⟩] hg (and_ext ..) (fun asg hI h =>
        have hs := and_sound _ b rest asg hI.1 h
        have hbits : ∀ c ∈ b :: rest, asg c = 0 ∨ asg c = 1 := fun c hc => by
          obtain ⟨v, hv, ht, rfl⟩ := cellsTy_some hcs c hc
          have := hI.2.2 v hv; simp only [TyOK, ht] at this; exact bit_of_isNatLt this
        ⟨hs.1, boundsOK_of_bounds_eq asg (and_bounds ..) hI.2.1,
          tyB asg _ (by
            rw [hs.2]
            exact foldl_bit _ (fun a b => bit_and) _ (fun x hx => by
              obtain ⟨c, hc, rfl⟩ := List.mem_map.mp hx
              exact hbits c (List.mem_cons_of_mem _ hc)) _ (hbits b List.mem_cons_self))⟩)
  | or l =>
    simp only [COp.run, bind, Option.bind_eq_some_iff, pure] at h
    obtain ⟨cs, hcs, h⟩ := h
    cases cs with
    | nil => simp at h
    | cons b rest =>
      simp only [Option.some.injEq] at h; subst h
      exact good_step [⟨.B, _⟩] hg (or_ext ..) (fun asg hI h =>
        have hs := or_sound _ b rest asg hI.1 h
        have hbits : ∀ c ∈ b :: rest, asg c = 0 ∨ asg c = 1 := fun c hc => by
          obtain ⟨v, hv, ht, rfl⟩ := cellsTy_some hcs c hc
          have := hI.2.2 v hv; simp only [TyOK, ht] at this; exact bit_of_isNatLt this
        ⟨hs.1, boundsOK_of_bounds_eq asg (or_bounds ..) hI.2.1,
          tyB asg _ (by
            rw [hs.2]
            exact foldl_bit _ (fun a b => bit_or) _ (fun x hx => by
              obtain ⟨c, hc, rfl⟩ := List.mem_map.mp hx
              exact hbits c (List.mem_cons_of_mem _ hc)) _ (hbits b List.mem_cons_self))⟩)
  | xor l =>
    simp only [COp.run, bind, Option.bind_eq_some_iff, pure] at h
    obtain ⟨cs, hcs, h⟩ := h
    cases cs with
    | nil => simp at h
    | cons b rest =>
      simp only [Option.some.injEq] at h; subst h
      exact good_step [⟨.B, _⟩] hg (xor_ext ..) (fun asg hI h =>
        have hs := xor_sound _ b rest asg hI.1 h
        have hbits : ∀ c ∈ b :: rest, asg c = 0 ∨ asg c = 1 := fun c hc => by
          obtain ⟨v, hv, ht, rfl⟩ := cellsTy_some hcs c hc
          have := hI.2.2 v hv; simp only [TyOK, ht] at this; exact bit_of_isNatLt this
        ⟨hs.1, boundsOK_of_bounds_eq asg (xor_bounds ..) hI.2.1,
          tyB asg _ (by
            rw [hs.2]
            exact foldl_bit _ (fun a b => bit_xor) _ (fun x hx => by
              obtain ⟨c, hc, rfl⟩ := List.mem_map.mp hx
              exact hbits c (List.mem_cons_of_mem _ hc)) _ (hbits b List.mem_cons_self))⟩)
  | b2n a =>
    simp only [COp.run, bind, Option.bind_eq_some_iff, pure, Option.some.injEq] at h
    obtain ⟨c, hc, rfl⟩ := h
    exact good_step [⟨.N, _⟩] hg (updateBound_ext _ c 2) (fun asg hI h =>
      have hs := typeBound_inv _ c 2 asg (tyB_of_inv hI hc) hI.1 hI.2.1
      ⟨hs.1, hs.2, tyN asg _⟩)
  | n2b a =>
    simp only [COp.run, bind, Option.bind_eq_some_iff, pure, Option.some.injEq] at h
    obtain ⟨ca, _, rfl⟩ := h
    exact good_step [⟨.B, _⟩] hg (gConvertToBit_ext ..) (fun asg hI h =>
      have hs := gConvertToBit_sound _ ca asg hI.1 hI.2.1 h
      ⟨hs.1, hs.2.1, tyB asg _ (by
        have := bit_of_isNatLt hs.2.2.2; rw [← hs.2.2.1] at this; exact this)⟩)
  | y2n a =>
    simp only [COp.run, bind, Option.bind_eq_some_iff, pure, Option.some.injEq] at h
    obtain ⟨c, hc, rfl⟩ := h
    exact good_step [⟨.N, _⟩] hg (updateBound_ext _ c 256) (fun asg hI h =>
      have hs := typeBound_inv _ c 256 asg (tyY_of_inv hI hc) hI.1 hI.2.1
      ⟨hs.1, hs.2, tyN asg _⟩)
  | n2y a =>
    simp only [COp.run, bind, Option.bind_eq_some_iff, pure, Option.some.injEq] at h
    obtain ⟨ca, _, rfl⟩ := h
    exact good_step [⟨.Y, _⟩] hg (gConvertToByte_ext ..) (fun asg hI h =>
      have hs := gConvertToByte_sound hR _ ca asg h0 h4 (optOK_all _ _ h0 hm) hI.1 hI.2.1 h
      ⟨hs.1, hs.2.1, tyY asg _ (by
        obtain ⟨n, hn, hv⟩ := hs.2.2.2
        exact ⟨n, hn, by rw [hs.2.2.1]; exact hv⟩)⟩)
  | alf a bound =>
    simp only [COp.run] at h
    by_cases hb : bound = 0
    · simp [hb] at h
    · simp only [hb, if_false, bind, Option.bind_eq_some_iff, pure, Option.some.injEq] at h
      obtain ⟨ca, _, rfl⟩ := h
      exact good_step [] hg (assertLowerThanFixed_ext ..) (fun asg hI h =>
        have hs := assertLowerThanFixed_sound hR _ ca bound asg (Nat.pos_of_ne_zero hb) h0 h4
          (optOK_all _ _ h0 hm) hI.1 hI.2.1 h
        ⟨hs.1, hs.2.1, tyNone asg⟩)
  | inlf bound =>
    simp only [COp.run] at h
    by_cases hb : bound = 0
    · simp [hb] at h
    · simp only [hb, if_false, Option.some.injEq] at h; subst h
      exact good_step [⟨.N, _⟩] hg (assignLowerThanFixed_ext ..) (fun asg hI h =>
        have hs := assignLowerThanFixed_sound hR _ bound asg (Nat.pos_of_ne_zero hb) h0 h4
          (optOK_all _ _ h0 hm) hI.1 hI.2.1 h
        ⟨hs.1, hs.2.1, tyN asg _⟩)
  | bnd a n =>
    simp only [COp.run, bind, Option.bind_eq_some_iff, pure, Option.some.injEq] at h
    obtain ⟨ca, _, rfl⟩ := h
    exact good_step [⟨.D n, _⟩] hg (assertLowerThanFixed_ext ..) (fun asg hI h =>
      have hs := assertLowerThanFixed_sound hR _ ca (2 ^ n) asg (pow2_pos n) h0 h4
        (optOK_all _ _ h0 hm) hI.1 hI.2.1 h
      ⟨hs.1, hs.2.1, tyD asg _ n hs.2.2⟩)
  | asltp2 a k =>
    simp only [COp.run, bind, Option.bind_eq_some_iff, pure, Option.some.injEq] at h
    obtain ⟨ca, _, rfl⟩ := h
    exact good_step [] hg (assertLessThanPow2_ext ..) (fun asg hI h =>
      have hs := assertLessThanPow2_sound hR _ ca k asg h0 h4 (optOK_all _ k h0 hm).1
        (optOK_all _ k h0 hm).2 hI.1 h
      ⟨hs.1, boundsOK_of_bounds_eq asg (assertLessThanPow2_bounds ..) hI.2.1, tyNone asg⟩)
  | altp2 k =>
    simp only [COp.run, Option.some.injEq] at h; subst h
    exact good_step [⟨.N, _⟩] hg (assignLessThanPow2_ext _ k) (fun asg hI h =>
      have hs := assignLessThanPow2_sound hR _ k asg h0 h4 (optOK_all _ _ h0 hm) hI.1 h
      ⟨hs.1, boundsOK_of_bounds_eq asg (assignLessThanPow2_bounds _ k) hI.2.1, tyN asg _⟩)
  | bnot a n =>
    simp only [COp.run, bind, Option.bind_eq_some_iff, pure, Option.some.injEq] at h
    obtain ⟨ca, _, rfl⟩ := h
    exact good_step [⟨.N, _⟩] hg (bnot_ext ..) (fun asg hI h =>
      have hs := bnot_inv hR _ ca n asg h0 h4 hm hI.1 hI.2.1 h
      ⟨hs.1, hs.2.1, tyN asg _⟩)
  | lt a b =>
    simp only [COp.run, bind, Option.bind_eq_some_iff, pure, Option.some.injEq] at h
    obtain ⟨x, _, y, _, rfl⟩ := h
    exact good_step [⟨.B, _⟩] hg (lowerThan_ext ..) (fun asg hI h =>
      have hs := lowerThan_inv hR _ x.1 x.2 y.1 y.2 asg h0 h4 (optOK_all _ _ h0 hm) hI.1 hI.2.1 h
      ⟨hs.1, hs.2.1, tyB asg _ hs.2.2⟩)
  | leq a b =>
    simp only [COp.run, bind, Option.bind_eq_some_iff, pure, Option.some.injEq] at h
    obtain ⟨x, _, y, _, rfl⟩ := h
    exact good_step [⟨.B, _⟩] hg (leq_ext ..) (fun asg hI h =>
      have hs := leq_inv hR _ x.1 x.2 y.1 y.2 asg h0 h4 (optOK_all _ _ h0 hm) hI.1 hI.2.1 h
      ⟨hs.1, hs.2.1, tyB asg _ hs.2.2⟩)
  | geq a b =>
    simp only [COp.run, bind, Option.bind_eq_some_iff, pure, Option.some.injEq] at h
    obtain ⟨x, _, y, _, rfl⟩ := h
    exact good_step [⟨.B, _⟩] hg (geq_ext ..) (fun asg hI h =>
      have hs := geq_inv hR _ x.1 x.2 y.1 y.2 asg h0 h4 (optOK_all _ _ h0 hm) hI.1 hI.2.1 h
      ⟨hs.1, hs.2.1, tyB asg _ hs.2.2⟩)
  | gt a b =>
    simp only [COp.run, bind, Option.bind_eq_some_iff, pure, Option.some.injEq] at h
    obtain ⟨x, _, y, _, rfl⟩ := h
    exact good_step [⟨.B, _⟩] hg (greaterThan_ext ..) (fun asg hI h =>
      have hs := greaterThan_inv hR _ x.1 x.2 y.1 y.2 asg h0 h4 (optOK_all _ _ h0 hm) hI.1 hI.2.1 h
      ⟨hs.1, hs.2.1, tyB asg _ hs.2.2⟩)
  | ltf a c =>
    simp only [COp.run, bind, Option.bind_eq_some_iff, pure, Option.some.injEq] at h
    obtain ⟨x, _, rfl⟩ := h
    exact good_step [⟨.B, _⟩] hg (lowerThanFixed_ext ..) (fun asg hI h =>
      have hs := lowerThanFixed_inv hR _ x.1 x.2 c asg h0 h4 (optOK_all _ _ h0 hm) hI.1 hI.2.1 h
      ⟨hs.1, hs.2.1, tyB asg _ hs.2.2⟩)
  | leqf a c =>
    simp only [COp.run, bind, Option.bind_eq_some_iff, pure, Option.some.injEq] at h
    obtain ⟨x, _, rfl⟩ := h
    exact good_step [⟨.B, _⟩] hg (leqFixed_ext ..) (fun asg hI h =>
      have hs := lowerThanFixed_inv hR _ x.1 x.2 ((c + 1) % fi.p) asg h0 h4 (optOK_all _ _ h0 hm)
        hI.1 hI.2.1 h
      ⟨hs.1, hs.2.1, tyB asg _ hs.2.2⟩)
  | geqf a c =>
    simp only [COp.run, bind, Option.bind_eq_some_iff, pure, Option.some.injEq] at h
    obtain ⟨x, _, rfl⟩ := h
    exact good_step [⟨.B, _⟩] hg (geqFixed_ext ..) (fun asg hI h =>
      have hs := geqFixed_inv hR _ x.1 x.2 c asg h0 h4 (optOK_all _ _ h0 hm) hI.1 hI.2.1 h
      ⟨hs.1, hs.2.1, tyB asg _ hs.2.2⟩)
  | gtf a c =>
    simp only [COp.run, bind, Option.bind_eq_some_iff, pure, Option.some.injEq] at h
    obtain ⟨x, _, rfl⟩ := h
    exact good_step [⟨.B, _⟩] hg (greaterThanFixed_ext ..) (fun asg hI h =>
      have hs := greaterThanFixed_inv hR _ x.1 x.2 c fi.p asg h0 h4 (optOK_all _ _ h0 hm) hI.1 hI.2.1 h
      ⟨hs.1, hs.2.1, tyB asg _ hs.2.2⟩)
  | frombits l =>
    simp only [COp.run, bind, Option.bind_eq_some_iff, pure, Option.some.injEq] at h
    obtain ⟨cs, hcs, rfl⟩ := h
    exact good_step [⟨.N, _⟩] hg (assignedFromLeBits_ext ..) (fun asg hI h =>
      have hall : ∀ c ∈ cs, IsNatLt asg c 2 := fun c hc => by
        obtain ⟨v, hv, ht, rfl⟩ := cellsTy_some hcs c hc
        have := hI.2.2 v hv; simp only [TyOK, ht] at this; exact this
      have hs := recompose_inv 2 cs _ _ asg hall hI.1 hI.2.1 h
      ⟨hs.1, hs.2, tyN asg _⟩)
  | frombytes l =>
    simp only [COp.run, bind, Option.bind_eq_some_iff, pure, Option.some.injEq] at h
    obtain ⟨cs, hcs, rfl⟩ := h
    exact good_step [⟨.N, _⟩] hg (assignedFromLeBytes_ext ..) (fun asg hI h =>
      have hall : ∀ c ∈ cs, IsNatLt asg c 256 := fun c hc => by
        obtain ⟨v, hv, ht, rfl⟩ := cellsTy_some hcs c hc
        have := hI.2.2 v hv; simp only [TyOK, ht] at this; exact this
      have hs := recompose_inv 256 cs _ _ asg hall hI.1 hI.2.1 h
      ⟨hs.1, hs.2, tyN asg _⟩)
  | divrem a d bound =>
    simp only [COp.run] at h
    by_cases hd : d = 0
    · simp [hd] at h
    · simp only [hd, if_false, bind, Option.bind_eq_some_iff, pure, Option.some.injEq] at h
      obtain ⟨ca, _, rfl⟩ := h
      exact good_step [⟨.N, _⟩, ⟨.N, _⟩] hg (divRem_ext ..) (fun asg hI h =>
        have hs := divRem_inv hR _ ca d bound (fi.p - 1) asg (Nat.pos_of_ne_zero hd) h0 h4 hm
          hI.1 hI.2.1 h
        ⟨hs.1, hs.2, fun v hv => by
          simp only [List.mem_cons, List.mem_nil_iff, or_false] at hv
          rcases hv with rfl | rfl <;> exact trivial⟩)
  | yaeq a b =>
    simp only [COp.run, bind, Option.bind_eq_some_iff, pure, Option.some.injEq] at h
    obtain ⟨ca, hca, cb, hcb, rfl⟩ := h
    exact good_step [] hg ((updateBound_ext _ ca 256).trans ((updateBound_ext _ cb 256).trans
        (gAssertEqual_ext ..))) (fun asg hI h =>
      have h1 := typeBound_inv _ ca 256 asg (tyY_of_inv hI hca) hI.1 hI.2.1
      have h2 := typeBound_inv _ cb 256 asg (tyY_of_inv hI hcb) h1.1 h1.2
      have hs := gAssertEqual_sound _ ca cb asg h2.1 h2.2 h
      ⟨hs.1, hs.2.1, tyNone asg⟩)
  | yaneq a b =>
    simp only [COp.run, bind, Option.bind_eq_some_iff, pure, Option.some.injEq] at h
    obtain ⟨ca, hca, cb, hcb, rfl⟩ := h
    exact good_step [] hg ((updateBound_ext _ ca 256).trans ((updateBound_ext _ cb 256).trans
        (assertNotEqual_ext ..))) (fun asg hI h =>
      have h1 := typeBound_inv _ ca 256 asg (tyY_of_inv hI hca) hI.1 hI.2.1
      have h2 := typeBound_inv _ cb 256 asg (tyY_of_inv hI hcb) h1.1 h1.2
      have hs := assertNotEqual_sound _ ca cb asg h2.1 h
      ⟨hs.1, boundsOK_of_bounds_eq asg (assertNotEqual_bounds ..) h2.2, tyNone asg⟩)
  | yaeqf a c =>
    simp only [COp.run, bind, Option.bind_eq_some_iff, pure, Option.some.injEq] at h
    obtain ⟨ca, hca, rfl⟩ := h
    exact good_step [] hg ((updateBound_ext _ ca 256).trans (assertEqualToFixed_ext ..)) (fun asg hI h =>
      have h1 := typeBound_inv _ ca 256 asg (tyY_of_inv hI hca) hI.1 hI.2.1
      have hs := assertEqualToFixed_sound _ ca _ asg h1.1 h
      ⟨hs.1, boundsOK_of_bounds_eq asg (assertEqualToFixed_bounds ..) h1.2, tyNone asg⟩)
  | yaneqf a c =>
    simp only [COp.run, bind, Option.bind_eq_some_iff, pure, Option.some.injEq] at h
    obtain ⟨ca, hca, rfl⟩ := h
    exact good_step [] hg ((updateBound_ext _ ca 256).trans (assertNotEqualToFixed_ext ..)) (fun asg hI h =>
      have h1 := typeBound_inv _ ca 256 asg (tyY_of_inv hI hca) hI.1 hI.2.1
      have hs := assertNotEqualToFixed_sound _ ca _ asg h1.1 h
      ⟨hs.1, boundsOK_of_bounds_eq asg (assertNotEqualToFixed_bounds ..) h1.2, tyNone asg⟩)
  | yiseq a b =>
    simp only [COp.run, bind, Option.bind_eq_some_iff, pure, Option.some.injEq] at h
    obtain ⟨ca, hca, cb, hcb, rfl⟩ := h
    exact good_step [⟨.B, _⟩] hg ((updateBound_ext _ ca 256).trans ((updateBound_ext _ cb 256).trans
        (isEqual_ext ..))) (fun asg hI h =>
      have h1 := typeBound_inv _ ca 256 asg (tyY_of_inv hI hca) hI.1 hI.2.1
      have h2 := typeBound_inv _ cb 256 asg (tyY_of_inv hI hcb) h1.1 h1.2
      have hs := isEqual_sound _ ca cb asg h2.1 h
      ⟨hs.1, boundsOK_of_bounds_eq asg (isEqual_bounds ..) h2.2,
        tyB asg _ (hs.2.elim (fun x => Or.inr x.2) (fun x => Or.inl x.2))⟩)
  | yisneq a b =>
    simp only [COp.run, bind, Option.bind_eq_some_iff, pure, Option.some.injEq] at h
    obtain ⟨ca, hca, cb, hcb, rfl⟩ := h
    exact good_step [⟨.B, _⟩] hg ((updateBound_ext _ ca 256).trans ((updateBound_ext _ cb 256).trans
        (isNotEqual_ext ..))) (fun asg hI h =>
      have h1 := typeBound_inv _ ca 256 asg (tyY_of_inv hI hca) hI.1 hI.2.1
      have h2 := typeBound_inv _ cb 256 asg (tyY_of_inv hI hcb) h1.1 h1.2
      have hs := isNotEqual_sound _ ca cb asg h2.1 h
      ⟨hs.1, boundsOK_of_bounds_eq asg (isNotEqual_bounds ..) h2.2,
        tyB asg _ (hs.2.elim (fun x => Or.inl x.2) (fun x => Or.inr x.2))⟩)
  | yiseqf a c =>
    simp only [COp.run, bind, Option.bind_eq_some_iff, pure, Option.some.injEq] at h
    obtain ⟨ca, hca, rfl⟩ := h
    exact good_step [⟨.B, _⟩] hg ((updateBound_ext _ ca 256).trans (isEqualToFixed_ext ..)) (fun asg hI h =>
      have h1 := typeBound_inv _ ca 256 asg (tyY_of_inv hI hca) hI.1 hI.2.1
      have hs := isEqualToFixed_sound _ ca _ asg h1.1 h
      ⟨hs.1, boundsOK_of_bounds_eq asg (isEqualToFixed_bounds ..) h1.2,
        tyB asg _ (hs.2.elim (fun x => Or.inr x.2) (fun x => Or.inl x.2))⟩)
  | yisneqf a c =>
    simp only [COp.run, bind, Option.bind_eq_some_iff, pure, Option.some.injEq] at h
    obtain ⟨ca, hca, rfl⟩ := h
    exact good_step [⟨.B, _⟩] hg ((updateBound_ext _ ca 256).trans (isNotEqualToFixed_ext ..)) (fun asg hI h =>
      have h1 := typeBound_inv _ ca 256 asg (tyY_of_inv hI hca) hI.1 hI.2.1
      have hs := isNotEqualToFixed_sound _ ca _ asg h1.1 h
      ⟨hs.1, boundsOK_of_bounds_eq asg (isNotEqualToFixed_bounds ..) h1.2,
        tyB asg _ (hs.2.elim (fun x => Or.inl x.2) (fun x => Or.inr x.2))⟩)

/-- Every state reachable by a program of the core language is good. -/
theorem runCore_good : ∀ (prog : List (COp F)) (r r' : RunSt F), r.Good R →
    runCore fi r prog = some r' → r'.Good R := by
  intro prog
  induction prog with
  | nil => intro r r' hg h; simp only [runCore, Option.some.injEq] at h; subst h; exact hg
  | cons o rest ih =>
    intro r r' hg h
    simp only [runCore, bind, Option.bind_eq_some_iff] at h
    obtain ⟨r1, h1, h2⟩ := h
    exact ih r1 r' (COp.run_good hR fi r r1 o hg h1) h2

end step

/-- The initial state of a synthesis is good (no constraint, empty caches, no variable). -/
theorem init_good (nr mbl : Nat) (h0 : 0 < nr) (h4 : nr ≤ 4) (hm : 0 < mbl) :
    (⟨St.init nr mbl, #[]⟩ : RunSt F).Good R := by
  refine ⟨h0, h4, hm, fun asg _ => ⟨?_, ?_, ?_⟩⟩
  · intro p hp; simp [St.init] at hp
  · intro p hp; simp [St.init] at hp
  · intro v hv; simp at hv

end MidnightZK.C04
