import MidnightZK.Proofs.C04.Extra
import MidnightZK.Proofs.C04.VecArith
/-! Soundness of the `VectorGadget` emitters (Model/C04/Vector.lean): `get_limits`,
`padding_flag`, `is_equal`, `assert_equal`, `assert_not_equal`, for every shape `(M, A)` with
`A ∣ M`, every length, every assignment. -/
namespace MidnightZK.C04
open Lean.Grind
attribute [local instance] Semiring.natCast
set_option linter.unusedSectionVars false
set_option linter.unusedSimpArgs false
set_option linter.unusedVariables false

variable {F : Type} [Field F] [DecidableEq F]
variable {R : Nat → F → Prop}

/-- Everything an emitter needs from the state it is emitted into, in one bundle: the
configuration is admissible, the constant cache and the bound cache are justified. -/
structure St.OK (s : St F) (asg : Cell → F) : Prop where
  h0 : 0 < s.nrCols
  h4 : s.nrCols ≤ 4
  hm : 0 < s.maxBitLen
  hc : s.CacheOK asg
  hB : s.BoundsOK asg

theorem St.OK.step {s s' : St F} {asg : Cell → F} (ok : s.OK asg) (e : s.Ext s')
    (hc : s'.CacheOK asg) (hB : s'.BoundsOK asg) : s'.OK asg :=
  ⟨by rw [e.1]; exact ok.h0, by rw [e.1]; exact ok.h4, by rw [e.2.1]; exact ok.hm, hc, hB⟩

/-- A boolean as a field element. -/
def b2f (b : Bool) : F := if b then 1 else 0

theorem b2f_bit (b : Bool) : (b2f b : F) = 0 ∨ (b2f b : F) = 1 := by cases b <;> simp [b2f]

theorem b2f_xor (a b : Bool) : (b2f a : F) + b2f b - 2 * b2f a * b2f b = b2f (a != b) := by
  cases a <;> cases b <;> simp [b2f] <;> grind

theorem b2f_or (a b : Bool) : (b2f a : F) + b2f b - b2f a * b2f b = b2f (a || b) := by
  cases a <;> cases b <;> simp [b2f] <;> grind

theorem b2f_and (a b : Bool) : (b2f a : F) * b2f b = b2f (a && b) := by
  cases a <;> cases b <;> simp [b2f] <;> grind

theorem b2f_one_iff (b : Bool) : (b2f b : F) = 1 ↔ b = true := by
  cases b <;> simp [b2f]
  exact Field.zero_ne_one

theorem b2f_zero_iff (b : Bool) : (b2f b : F) = 0 ↔ b = false := by
  cases b <;> simp [b2f]
  intro h; exact Field.zero_ne_one h.symm

/-! ### the building blocks, with the bundled invariant -/

theorem ok_assignFixed (s : St F) (c : F) (asg : Cell → F) (ok : s.OK asg)
    (h : (assignFixed s c).2.Holds R asg) :
    (assignFixed s c).2.OK asg ∧ asg (assignFixed s c).1 = c := by
  obtain ⟨_, c1, r1⟩ := assignFixed_sound s c asg ok.hc h
  exact ⟨ok.step (assignFixed_ext s c) c1 (boundsOK_of_bounds_eq asg (assignFixed_bounds s c) ok.hB), r1⟩

theorem ok_addConstant (s : St F) (x : Cell) (c : F) (asg : Cell → F) (ok : s.OK asg)
    (h : (addConstant s x c).2.Holds R asg) :
    (addConstant s x c).2.OK asg ∧ asg (addConstant s x c).1 = asg x + c := by
  obtain ⟨c1, r1⟩ := addConstant_sound s x c asg ok.hc h
  exact ⟨ok.step (addConstant_ext s x c) c1 (boundsOK_of_bounds_eq asg (addConstant_bounds s x c) ok.hB), r1⟩

theorem sub_ext (s : St F) (x y : Cell) : s.Ext (sub s x y).2 := linearCombination_ext ..
theorem sub_bounds (s : St F) (x y : Cell) : (sub s x y).2.bounds = s.bounds :=
  linearCombination_bounds ..

theorem ok_sub (s : St F) (x y : Cell) (asg : Cell → F) (ok : s.OK asg)
    (h : (sub s x y).2.Holds R asg) :
    (sub s x y).2.OK asg ∧ asg (sub s x y).1 = asg x - asg y := by
  obtain ⟨c1, r1⟩ := sub_sound s x y asg ok.hc h
  exact ⟨ok.step (sub_ext s x y) c1 (boundsOK_of_bounds_eq asg (sub_bounds s x y) ok.hB), r1⟩

theorem ok_select (s : St F) (c x y : Cell) (asg : Cell → F) (ok : s.OK asg)
    (h : (select s c x y).2.Holds R asg) :
    (select s c x y).2.OK asg ∧ asg (select s c x y).1 = asg c * asg x + (1 - asg c) * asg y := by
  obtain ⟨c1, r1⟩ := select_sound s c x y asg ok.hc h
  exact ⟨ok.step (select_ext s c x y) c1 (boundsOK_of_bounds_eq asg (select_bounds s c x y) ok.hB), r1⟩

theorem ok_isEqualToFixed (s : St F) (x : Cell) (c : F) (asg : Cell → F) (ok : s.OK asg)
    (h : (isEqualToFixed s x c).2.Holds R asg) :
    (isEqualToFixed s x c).2.OK asg ∧ asg (isEqualToFixed s x c).1 = b2f (decide (asg x = c)) := by
  obtain ⟨c1, r1⟩ := isEqualToFixed_sound s x c asg ok.hc h
  refine ⟨ok.step (isEqualToFixed_ext s x c) c1
    (boundsOK_of_bounds_eq asg (isEqualToFixed_bounds s x c) ok.hB), ?_⟩
  rcases r1 with ⟨a, b⟩ | ⟨a, b⟩ <;> simp [a, b, b2f]

theorem ok_isEqual (s : St F) (x y : Cell) (asg : Cell → F) (ok : s.OK asg)
    (h : (isEqual s x y).2.Holds R asg) :
    (isEqual s x y).2.OK asg ∧ asg (isEqual s x y).1 = b2f (decide (asg x = asg y)) := by
  obtain ⟨c1, r1⟩ := isEqual_sound s x y asg ok.hc h
  refine ⟨ok.step (isEqual_ext s x y) c1 (boundsOK_of_bounds_eq asg (isEqual_bounds s x y) ok.hB), ?_⟩
  rcases r1 with ⟨a, b⟩ | ⟨a, b⟩ <;> simp [a, b, b2f]

theorem ok_xor2 (s : St F) (a b : Cell) (asg : Cell → F) (ok : s.OK asg)
    (h : (xor s [a, b]).2.Holds R asg) :
    (xor s [a, b]).2.OK asg ∧ asg (xor s [a, b]).1 = asg a + asg b - 2 * asg a * asg b := by
  obtain ⟨c1, r1⟩ := xor_sound s a [b] asg ok.hc h
  exact ⟨ok.step (xor_ext s a [b]) c1 (boundsOK_of_bounds_eq asg (xor_bounds s a [b]) ok.hB),
    by rw [r1]; rfl⟩

theorem ok_or2 (s : St F) (a b : Cell) (asg : Cell → F) (ok : s.OK asg)
    (h : (or s [a, b]).2.Holds R asg) :
    (or s [a, b]).2.OK asg ∧ asg (or s [a, b]).1 = asg a + asg b - asg a * asg b := by
  obtain ⟨c1, r1⟩ := or_sound s a [b] asg ok.hc h
  exact ⟨ok.step (or_ext s a [b]) c1 (boundsOK_of_bounds_eq asg (or_bounds s a [b]) ok.hB),
    by rw [r1]; rfl⟩

theorem ok_and (s : St F) (b : Cell) (rest : List Cell) (asg : Cell → F) (ok : s.OK asg)
    (h : (and s (b :: rest)).2.Holds R asg) :
    (and s (b :: rest)).2.OK asg ∧
    asg (and s (b :: rest)).1 = (rest.map asg).foldl (fun a x => a * x) (asg b) := by
  obtain ⟨c1, r1⟩ := and_sound s b rest asg ok.hc h
  exact ⟨ok.step (and_ext s b rest) c1 (boundsOK_of_bounds_eq asg (and_bounds s b rest) ok.hB), r1⟩

/-! ### `rem` with a declared bound -/

/-- `rem(x, d, Some(B))` (division.rs): for a dividend `n ≤ B` with `B + d ≤ p` the remainder cell
holds `n mod d` — also for `d = 1`, where the code returns the constant 0. -/
theorem divRem_rem_sound (hR : RangeSound R) (p : Nat)
    (hinj : ∀ a b : Nat, a < p → b < p → ((a : Nat) : F) = ((b : Nat) : F) → a = b)
    (s : St F) (x : Cell) (d B pm1 n : Nat) (asg : Cell → F)
    (hd : 0 < d) (hBd : B + d ≤ p) (hn : n ≤ B) (hx : asg x = (n : F))
    (ok : s.OK asg) (h : (divRem s x d (some B) pm1).2.Holds R asg) :
    (divRem s x d (some B) pm1).2.OK asg ∧
    asg (divRem s x d (some B) pm1).1.2 = ((n % d : Nat) : F) := by
  obtain ⟨c1, B1⟩ := divRem_inv hR s x d (some B) pm1 asg hd ok.h0 ok.h4 ok.hm ok.hc ok.hB h
  refine ⟨ok.step (divRem_ext ..) c1 B1, ?_⟩
  by_cases h1 : d = 1
  · subst h1
    unfold divRem at h ⊢
    simp only [if_true] at h ⊢
    obtain ⟨_, _, r⟩ := assignFixed_sound s 0 asg ok.hc h
    rw [r, Nat.mod_one]; exact natCast_zero'.symm
  · exact (divRem_bounded_sound hR p hinj s x d B pm1 n asg (by omega) hBd hn hx ok.h0 ok.h4 ok.hm
      ok.hc ok.hB h).2

/-! ### `get_limits` -/

theorem vecGetLimits_ext (s : St F) (v : VecCells) (M A pm1 : Nat) :
    s.Ext (vecGetLimits s v M A pm1).2 := by
  simp only [vecGetLimits]
  exact (divRem_ext ..).trans ((addConstant_ext ..).trans ((addConstant_ext ..).trans
    ((isEqualToFixed_ext ..).trans ((select_ext ..).trans (sub_ext ..)))))

/-- **`get_limits`** (vector_gadget.rs): for a vector whose length cell holds `n ≤ M`, with
`A ∣ M`, EVERY accepted assignment gives the two output cells the values `get_lims::<M, A>(n)`:
the payload range is determined by the length alone, whatever the prover assigns to the remainder,
the quotient and the hints. -/
theorem vecGetLimits_sound (hR : RangeSound R) (p : Nat)
    (hinj : ∀ a b : Nat, a < p → b < p → ((a : Nat) : F) = ((b : Nat) : F) → a = b)
    (s : St F) (v : VecCells) (M A pm1 n : Nat) (asg : Cell → F)
    (hA : 0 < A) (hAM : A ∣ M) (hAle : A ≤ M) (hMp : M + A ≤ p) (hn : n ≤ M)
    (hlen : asg v.len = (n : F)) (ok : s.OK asg)
    (h : (vecGetLimits s v M A pm1).2.Holds R asg) :
    (vecGetLimits s v M A pm1).2.OK asg ∧
    asg (vecGetLimits s v M A pm1).1.1 = (((getLims M A n).1 : Nat) : F) ∧
    asg (vecGetLimits s v M A pm1).1.2 = (((getLims M A n).2 : Nat) : F) := by
  simp only [vecGetLimits] at h ⊢
  have h5 := (sub_ext ..).holds asg h
  have h4 := (select_ext ..).holds asg h5
  have h3 := (isEqualToFixed_ext ..).holds asg h4
  have h2 := (addConstant_ext ..).holds asg h3
  have h1 := (addConstant_ext ..).holds asg h2
  obtain ⟨ok1, r1⟩ := divRem_rem_sound hR p hinj s v.len A M pm1 n asg hA hMp hn hlen ok h1
  obtain ⟨ok2, r2⟩ := ok_addConstant _ _ _ asg ok1 h2
  obtain ⟨ok3, r3⟩ := ok_addConstant _ _ _ asg ok2 h3
  obtain ⟨ok4, r4⟩ := ok_isEqualToFixed _ _ _ asg ok3 h4
  obtain ⟨ok5, r5⟩ := ok_select _ _ _ _ asg ok4 h5
  obtain ⟨ok6, r6⟩ := ok_sub _ _ _ asg ok5 h
  obtain ⟨f1, f2, f3, f4, f5, f6⟩ := getLims_facts M A n hA hAM hn
  have hend : asg (select _ _ _ _).1 = (((getLims M A n).2 : Nat) : F) := r5.trans (by
    rw [r4, r3, r2, r1, f5]
    by_cases h0 : n % A = 0
    · have : (((n % A : Nat) : Nat) : F) = 0 := by rw [h0]; exact natCast_zero'
      simp only [h0, if_true, this, decide_true, b2f]
      have : ((M : Nat) : F) = (((M - A : Nat) : Nat) : F) + ((A : Nat) : F) := by
        rw [← natCast_add']; congr 1; omega
      rw [this]; grind
    · have hne : (((n % A : Nat) : Nat) : F) ≠ 0 := by
        intro e
        have hlt : n % A < A := Nat.mod_lt _ hA
        have hAp : A ≤ p := by omega
        have hlt' : n % A < p := Nat.lt_of_lt_of_le hlt hAp
        have hp0 : 0 < p := by omega
        have := hinj (n % A) 0 hlt' hp0 (by rw [e]; exact natCast_zero'.symm)
        exact h0 this
      simp only [h0, if_false, hne, decide_false, b2f]
      have : (((M - A + n % A : Nat) : Nat) : F) = (((M - A : Nat) : Nat) : F) + ((n % A : Nat) : F) :=
        natCast_add' _ _
      rw [this]; grind)
  refine ⟨ok6, ?_, hend⟩
  rw [r6, hend, hlen, ← f3, natCast_add']; grind

/-! ### `padding_flag` -/

theorem flagScan_ext (lim : Cell) : ∀ (is : List Nat) (s : St F) (d : Cell),
    s.Ext (flagScan s lim d is).2.2
  | [], s, d => St.Ext.refl s
  | i :: rest, s, d => by
    simp only [flagScan]
    exact (isEqualToFixed_ext ..).trans ((xor_ext ..).trans (flagScan_ext lim rest _ _))

/-- One scan of `padding_flag`: the flags are the boolean scan `scanSpec`. -/
theorem flagScan_sound (p : Nat)
    (hinj : ∀ a b : Nat, a < p → b < p → ((a : Nat) : F) = ((b : Nat) : F) → a = b)
    (asg : Cell → F) (lim : Cell) (L : Nat) (hL : L < p) (hlim : asg lim = (L : F)) :
    ∀ (is : List Nat) (s : St F) (d : Cell) (d0 : Bool), (∀ i ∈ is, i < p) → asg d = b2f d0 →
      s.OK asg → (flagScan s lim d is).2.2.Holds R asg →
      (flagScan s lim d is).2.2.OK asg ∧
      (flagScan s lim d is).1.map asg = (scanSpec d0 L is).map b2f ∧
      asg (flagScan s lim d is).2.1 = b2f (scanLast d0 L is)
  | [], s, d, d0, _, hd, ok, _ => ⟨ok, rfl, hd⟩
  | i :: rest, s, d, d0, hp, hd, ok, h => by
    simp only [flagScan] at h ⊢
    have h2 := (flagScan_ext lim rest _ _).holds asg h
    have h1 := (xor_ext ..).holds asg h2
    obtain ⟨ok1, r1⟩ := ok_isEqualToFixed _ _ _ asg ok h1
    obtain ⟨ok2, r2⟩ := ok_xor2 _ _ _ asg ok1 h2
    have hi : i < p := hp i (List.mem_cons_self ..)
    have hdec : decide (asg lim = ((i : Nat) : F)) = decide (L = i) := by
      by_cases e : L = i
      · subst e; simp [hlim]
      · have : ¬ asg lim = ((i : Nat) : F) := fun e' => e (hinj L i hL hi (by rw [← hlim, e']))
        simp [e, this]
    have hd1 := r2
    rw [r1, hd, hdec, b2f_xor] at hd1
    obtain ⟨ok3, r3, r4⟩ := flagScan_sound p hinj asg lim L hL hlim rest _ _ _
      (fun j hj => hp j (List.mem_cons_of_mem _ hj)) hd1 ok2 h
    refine ⟨ok3, ?_, r4⟩
    simp only [List.map_cons, scanSpec]
    rw [r3, hd1]

theorem vecPaddingFlag_ext (s : St F) (v : VecCells) (M A pm1 : Nat) :
    s.Ext (vecPaddingFlag s v M A pm1).2 := by
  simp only [vecPaddingFlag]
  exact (vecGetLimits_ext ..).trans ((assignFixed_ext ..).trans
    ((flagScan_ext ..).trans (flagScan_ext ..)))

/-- **`padding_flag`** (vector_gadget.rs): for EVERY `M`, every `A ∣ M` (`0 < A ≤ M`), every
length `n ≤ M` held by the length cell — including `1 ≤ n ≤ A`, where the payload starts at
`M − A` — and EVERY accepted assignment, the `M` returned bits are `1` exactly outside the
payload range `get_lims::<M, A>(n)`. -/
theorem vecPaddingFlag_sound (hR : RangeSound R) (p : Nat)
    (hinj : ∀ a b : Nat, a < p → b < p → ((a : Nat) : F) = ((b : Nat) : F) → a = b)
    (s : St F) (v : VecCells) (M A pm1 n : Nat) (asg : Cell → F)
    (hA : 0 < A) (hAM : A ∣ M) (hAle : A ≤ M) (hMp : M + A ≤ p) (hn : n ≤ M)
    (hlen : asg v.len = (n : F)) (ok : s.OK asg)
    (h : (vecPaddingFlag s v M A pm1).2.Holds R asg) :
    (vecPaddingFlag s v M A pm1).2.OK asg ∧
    (vecPaddingFlag s v M A pm1).1.map asg =
      (List.range M).map (fun i => b2f (!(decide ((getLims M A n).1 ≤ i ∧ i < (getLims M A n).2)))) := by
  simp only [vecPaddingFlag] at h ⊢
  have h3 := (flagScan_ext ..).holds asg h
  have h2 := (flagScan_ext ..).holds asg h3
  have h1 := (assignFixed_ext ..).holds asg h2
  obtain ⟨ok1, rS, rE⟩ := vecGetLimits_sound hR p hinj s v M A pm1 n asg hA hAM hAle hMp hn hlen ok h1
  obtain ⟨ok2, r2⟩ := ok_assignFixed _ 1 asg ok1 h2
  obtain ⟨f1, f2, f3, f4, f5, f6⟩ := getLims_facts M A n hA hAM hn
  have hone := r2.trans (by simp [b2f] : (1 : F) = b2f true)
  obtain ⟨ok3, r3, d3⟩ := flagScan_sound p hinj asg _ (getLims M A n).1 (by omega) rS
    (List.range (M - A + 1)) _ _ true
    (fun i hi => by have := List.mem_range.mp hi; omega) hone ok2 h3
  obtain ⟨ok4, r4, _⟩ := flagScan_sound p hinj asg _ (getLims M A n).2 (by omega) rE
    (List.range' (M - A + 1) (A - 1)) _ _ _
    (fun i hi => by have := (List.mem_range'_1.mp hi).2; omega) d3 ok3 h
  refine ⟨ok4, ?_⟩
  rw [List.map_append, r3, r4, ← List.map_append, padScan_correct M A n hA hAM hn hAle, List.map_map]
  rfl

/-! ### `is_equal` -/

/-- The element checks of `is_equal` on booleans. -/
def eqChecksSpec (asg : Cell → F) : List Bool → List Cell → List Cell → List Bool
  | f :: fs, a :: as, b :: bs => (f || decide (asg a = asg b)) :: eqChecksSpec asg fs as bs
  | _, _, _ => []

theorem vecEqChecks_ext : ∀ (fl as bs : List Cell) (s : St F), s.Ext (vecEqChecks s fl as bs).2
  | [], _, _, s => by simp only [vecEqChecks]; exact St.Ext.refl s
  | _ :: _, [], _, s => by simp only [vecEqChecks]; exact St.Ext.refl s
  | _ :: _, _ :: _, [], s => by simp only [vecEqChecks]; exact St.Ext.refl s
  | f :: fl, a :: as, b :: bs, s => by
    simp only [vecEqChecks]
    exact (isEqual_ext ..).trans ((or_ext ..).trans (vecEqChecks_ext fl as bs _))

theorem vecEqChecks_sound (asg : Cell → F) :
    ∀ (fl as bs : List Cell) (fs : List Bool) (s : St F), fl.map asg = fs.map b2f → s.OK asg →
      (vecEqChecks s fl as bs).2.Holds R asg →
      (vecEqChecks s fl as bs).2.OK asg ∧
      (vecEqChecks s fl as bs).1.map asg = (eqChecksSpec asg fs as bs).map b2f
  | [], _, _, fs, s, hf, ok, _ => by
    cases fs with
    | nil => simp only [vecEqChecks, eqChecksSpec]; exact ⟨ok, rfl⟩
    | cons _ _ => simp at hf
  | f :: fl, [], _, fs, s, hf, ok, _ => by
    cases fs with
    | nil => simp at hf
    | cons _ _ => simp only [vecEqChecks, eqChecksSpec]; exact ⟨ok, rfl⟩
  | f :: fl, a :: as, [], fs, s, hf, ok, _ => by
    cases fs with
    | nil => simp at hf
    | cons _ _ => simp only [vecEqChecks, eqChecksSpec]; exact ⟨ok, rfl⟩
  | f :: fl, a :: as, b :: bs, fs, s, hf, ok, h => by
    cases fs with
    | nil => simp at hf
    | cons f0 fs =>
      simp only [List.map_cons, List.cons.injEq] at hf
      simp only [vecEqChecks, eqChecksSpec] at h ⊢
      have h2 := (vecEqChecks_ext fl as bs _).holds asg h
      have h1 := (or_ext ..).holds asg h2
      obtain ⟨ok1, r1⟩ := ok_isEqual _ _ _ asg ok h1
      obtain ⟨ok2, r2⟩ := ok_or2 _ _ _ asg ok1 h2
      obtain ⟨ok3, r3⟩ := vecEqChecks_sound asg fl as bs fs _ hf.2 ok2 h
      refine ⟨ok3, ?_⟩
      simp only [List.map_cons]
      rw [r3, r2, r1, hf.1, b2f_or]

theorem foldl_mul_b2f (bs : List Bool) (b0 : Bool) :
    (bs.map (b2f : Bool → F)).foldl (fun a x => a * x) (b2f b0) = b2f (b0 && bs.all id) := by
  induction bs generalizing b0 with
  | nil => simp
  | cons b bs ih =>
    simp only [List.map_cons, List.foldl_cons, List.all_cons, id]
    rw [b2f_and, ih, Bool.and_assoc]

/-- Conjunction over a non-empty list of bit cells whose values are known booleans. -/
theorem and_b2f (s : St F) (cells : List Cell) (bs : List Bool) (asg : Cell → F) (hne : cells ≠ [])
    (hv : cells.map asg = bs.map b2f) (ok : s.OK asg) (h : (and s cells).2.Holds R asg) :
    (and s cells).2.OK asg ∧ asg (and s cells).1 = b2f (bs.all id) := by
  cases cells with
  | nil => exact absurd rfl hne
  | cons c rest =>
    cases bs with
    | nil => simp at hv
    | cons b bs =>
      simp only [List.map_cons, List.cons.injEq] at hv
      obtain ⟨ok1, r1⟩ := ok_and s c rest asg ok h
      refine ⟨ok1, ?_⟩
      rw [r1, hv.1, hv.2, foldl_mul_b2f]
      simp [List.all_cons]

theorem vecIsEqual_ext (s : St F) (x y : VecCells) (M A pm1 : Nat) :
    s.Ext (vecIsEqual s x y M A pm1).2 := by
  simp only [vecIsEqual]
  have hand : ∀ (S : St F) (cs : List Cell) (c : Cell), S.Ext (and S (cs ++ [c])).2 := by
    intro S cs c
    cases cs with
    | nil => exact and_ext ..
    | cons c' cs => exact and_ext ..
  exact (vecPaddingFlag_ext s x M A pm1).trans ((vecEqChecks_ext ..).trans
    ((isEqual_ext ..).trans (hand ..)))

/-- What `is_equal` decides, on booleans: the lengths are equal and every position that is not
flagged as padding holds equal values. -/
def vecEqSpec (asg : Cell → F) (M A n : Nat) (x y : VecCells) : Bool :=
  (eqChecksSpec asg ((List.range M).map (fun i =>
      !(decide ((getLims M A n).1 ≤ i ∧ i < (getLims M A n).2)))) x.buf y.buf ++
    [decide (asg x.len = asg y.len)]).all id

/-- **`is_equal` on vectors** (vector_gadget.rs), circuit level: the output bit is `vecEqSpec`. -/
theorem vecIsEqual_sound (hR : RangeSound R) (p : Nat)
    (hinj : ∀ a b : Nat, a < p → b < p → ((a : Nat) : F) = ((b : Nat) : F) → a = b)
    (s : St F) (x y : VecCells) (M A pm1 n : Nat) (asg : Cell → F)
    (hA : 0 < A) (hAM : A ∣ M) (hAle : A ≤ M) (hMp : M + A ≤ p) (hn : n ≤ M)
    (hlen : asg x.len = (n : F)) (ok : s.OK asg)
    (h : (vecIsEqual s x y M A pm1).2.Holds R asg) :
    (vecIsEqual s x y M A pm1).2.OK asg ∧
    asg (vecIsEqual s x y M A pm1).1 = b2f (vecEqSpec asg M A n x y) := by
  simp only [vecIsEqual] at h ⊢
  have hand : ∀ (S : St F) (cs : List Cell) (c : Cell), S.Ext (and S (cs ++ [c])).2 := by
    intro S cs c
    cases cs with
    | nil => exact and_ext ..
    | cons c' cs => exact and_ext ..
  have h3 := (hand ..).holds asg h
  have h2 := (isEqual_ext ..).holds asg h3
  have h1 := (vecEqChecks_ext ..).holds asg h2
  obtain ⟨ok1, r1⟩ := vecPaddingFlag_sound hR p hinj s x M A pm1 n asg hA hAM hAle hMp hn hlen ok h1
  have r1' : (vecPaddingFlag s x M A pm1).1.map asg = ((List.range M).map (fun i =>
      !(decide ((getLims M A n).1 ≤ i ∧ i < (getLims M A n).2)))).map b2f := by
    rw [r1, List.map_map]; rfl
  obtain ⟨ok2, r2⟩ := vecEqChecks_sound asg _ x.buf y.buf _ _ r1' ok1 h2
  obtain ⟨ok3, r3⟩ := ok_isEqual _ _ _ asg ok2 h3
  refine and_b2f _ _ (eqChecksSpec asg ((List.range M).map (fun i =>
      !(decide ((getLims M A n).1 ≤ i ∧ i < (getLims M A n).2)))) x.buf y.buf ++
      [decide (asg x.len = asg y.len)]) asg (by simp) ?_ ok3 h
  rw [List.map_append, List.map_append, r2, List.map_cons, List.map_nil, List.map_cons, List.map_nil, r3]

/-- The boolean `vecEqSpec` says: equal lengths, and equal values at every position of the payload
range of `x` (positions beyond the shorter buffer do not occur: both buffers have `M` cells). -/
theorem eqChecksSpec_all (asg : Cell → F) (g : Nat → Bool) :
    ∀ (m a : Nat) (as bs : List Cell), as.length = m → bs.length = m →
      ((eqChecksSpec asg ((List.range' a m).map g) as bs).all id = true ↔
        ∀ j, j < m → g (a + j) = true ∨ asg (as.getD j (advc 0 0 0)) = asg (bs.getD j (advc 0 0 0)))
  | 0, a, as, bs, ha, hb => by
    simp [List.range'_zero, eqChecksSpec]
  | m + 1, a, [], bs, ha, hb => by simp at ha
  | m + 1, a, x :: as, [], ha, hb => by simp at hb
  | m + 1, a, x :: as, y :: bs, ha, hb => by
    rw [List.range'_succ]
    simp only [List.map_cons, eqChecksSpec, List.all_cons, id, Bool.and_eq_true, Bool.or_eq_true,
      decide_eq_true_eq]
    rw [eqChecksSpec_all asg g m (a + 1) as bs (by simpa using ha) (by simpa using hb)]
    constructor
    · rintro ⟨h0, hr⟩ j hj
      cases j with
      | zero => simpa using h0
      | succ j =>
        have := hr j (by omega)
        simpa [Nat.add_assoc, Nat.add_comm 1 j] using this
    · intro hall
      refine ⟨by simpa using hall 0 (by omega), fun j hj => ?_⟩
      have := hall (j + 1) (by omega)
      simpa [Nat.add_assoc, Nat.add_comm 1 j] using this

theorem vecEqSpec_iff (asg : Cell → F) (M A n : Nat) (x y : VecCells) (hx : x.buf.length = M)
    (hy : y.buf.length = M) :
    vecEqSpec asg M A n x y = true ↔
      (asg x.len = asg y.len ∧ ∀ i, (getLims M A n).1 ≤ i → i < (getLims M A n).2 → i < M →
        asg (x.buf.getD i (advc 0 0 0)) = asg (y.buf.getD i (advc 0 0 0))) := by
  unfold vecEqSpec
  rw [List.all_append, Bool.and_eq_true, List.range_eq_range',
    eqChecksSpec_all asg _ M 0 x.buf y.buf hx hy]
  simp only [List.all_cons, List.all_nil, id, Bool.and_true, decide_eq_true_eq, Nat.zero_add,
    Bool.not_eq_true', decide_eq_false_iff_not]
  constructor
  · rintro ⟨h1, h2⟩
    refine ⟨h2, fun i hS hE hi => ?_⟩
    rcases h1 i hi with h | h
    · exact absurd ⟨hS, hE⟩ h
    · exact h
  · rintro ⟨h1, h2⟩
    refine ⟨fun j hj => ?_, h1⟩
    by_cases hp : (getLims M A n).1 ≤ j ∧ j < (getLims M A n).2
    · right; exact h2 j hp.1 hp.2 hj
    · left; exact hp

/-! ### `assert_equal` / `assert_not_equal` -/

/-- **`assert_equal` on vectors**: satisfiable only if the lengths are equal and the payloads agree
position by position. -/
theorem vecAssertEqual_sound (hR : RangeSound R) (p : Nat)
    (hinj : ∀ a b : Nat, a < p → b < p → ((a : Nat) : F) = ((b : Nat) : F) → a = b)
    (s : St F) (x y : VecCells) (M A pm1 n : Nat) (asg : Cell → F)
    (hA : 0 < A) (hAM : A ∣ M) (hAle : A ≤ M) (hMp : M + A ≤ p) (hn : n ≤ M)
    (hlen : asg x.len = (n : F)) (ok : s.OK asg)
    (h : (vecAssertEqual s x y M A pm1).Holds R asg) :
    vecEqSpec asg M A n x y = true := by
  simp only [vecAssertEqual, bitAssertEqualToFixed] at h
  have h1 := (assertEqualToFixed_ext ..).holds asg h
  obtain ⟨ok1, r1⟩ := vecIsEqual_sound hR p hinj s x y M A pm1 n asg hA hAM hAle hMp hn hlen ok h1
  obtain ⟨_, r2⟩ := assertEqualToFixed_sound _ _ _ asg ok1.hc h
  rw [r1] at r2
  simp only [if_true] at r2
  exact (b2f_one_iff _).mp r2

/-- **`assert_not_equal` on vectors**: unsatisfiable when the lengths are equal and the payloads
agree. -/
theorem vecAssertNotEqual_sound (hR : RangeSound R) (p : Nat)
    (hinj : ∀ a b : Nat, a < p → b < p → ((a : Nat) : F) = ((b : Nat) : F) → a = b)
    (s : St F) (x y : VecCells) (M A pm1 n : Nat) (asg : Cell → F)
    (hA : 0 < A) (hAM : A ∣ M) (hAle : A ≤ M) (hMp : M + A ≤ p) (hn : n ≤ M)
    (hlen : asg x.len = (n : F)) (ok : s.OK asg)
    (h : (vecAssertNotEqual s x y M A pm1).Holds R asg) :
    vecEqSpec asg M A n x y = false := by
  simp only [vecAssertNotEqual, bitAssertEqualToFixed] at h
  have h1 := (assertEqualToFixed_ext ..).holds asg h
  obtain ⟨ok1, r1⟩ := vecIsEqual_sound hR p hinj s x y M A pm1 n asg hA hAM hAle hMp hn hlen ok h1
  obtain ⟨_, r2⟩ := assertEqualToFixed_sound _ _ _ asg ok1.hc h
  rw [r1] at r2
  simp only [Bool.false_eq_true, if_false] at r2
  exact (b2f_zero_iff _).mp r2

/-! ### `assign` (length range check) and `resize` -/

theorem assignMany_length (s : St F) (n : Nat) : (assignMany s n).1.length = n := by
  simp [assignMany]

theorem assignMany_ext (s : St F) (n : Nat) : s.Ext (assignMany s n).2 := ext_addRegion s _

/-- **`assign` of a vector**: the buffer has `M` cells and EVERY accepted assignment gives the
length cell a natural number `n ≤ M` (`assign_lower_than_fixed(len, M + 1)`): the hypothesis
`asg len = n`, `n ≤ M` of the theorems above is enforced by the circuit. -/
theorem vecAssign_sound (hR : RangeSound R) (s : St F) (M : Nat) (asg : Cell → F) (ok : s.OK asg)
    (h : (vecAssign s M).2.Holds R asg) :
    (vecAssign s M).2.OK asg ∧ (vecAssign s M).1.buf.length = M ∧
    ∃ n : Nat, n ≤ M ∧ asg (vecAssign s M).1.len = (n : F) := by
  simp only [vecAssign] at h ⊢
  have e1 := assignMany_ext s M
  have ok1 : (assignMany s M).2.OK asg := ok.step e1 ok.hc ok.hB
  obtain ⟨c2, B2, ⟨n, hn, hv⟩⟩ := assignLowerThanFixed_sound hR _ (M + 1) asg (Nat.succ_pos _)
    ok1.h0 ok1.h4 (optOK_all _ _ ok1.h0 ok1.hm) ok1.hc ok1.hB h
  exact ⟨ok1.step (assignLowerThanFixed_ext ..) c2 B2, assignMany_length s M, n, by omega, hv⟩

/-- **`resize::<L>` keeps the payload**: the length cell is the same cell, the new buffer has `L`
cells, and position `get_lims::<L, A>(n).start + k` of the new buffer IS the cell at position
`get_lims::<M, A>(n).start + k` of the old one, for every `k` (no constraint is involved: the
payload cells are shared). -/
theorem vecResize_payload (s : St F) (v : VecCells) (M L A n k : Nat) (hA : 0 < A) (hAM : A ∣ M)
    (hn : n ≤ M) (hML : M ≤ L) (hbuf : v.buf.length = M) :
    (vecResize s v M L).1.len = v.len ∧ (vecResize s v M L).1.buf.length = L ∧
    (vecResize s v M L).1.buf.getD ((getLims L A n).1 + k) (advc 0 0 0)
      = v.buf.getD ((getLims M A n).1 + k) (advc 0 0 0) := by
  simp only [vecResize]
  refine ⟨trivial, by rw [List.length_append, assignMany_length, hbuf]; omega, ?_⟩
  rw [(getLims_resize M L A n hA hAM hn hML).1]
  simp only [List.getD_eq_getElem?_getD]
  rw [List.getElem?_append_right (by rw [assignMany_length]; omega), assignMany_length]
  congr 2; omega

/-! ### batch assignment of small values (decomposition/chip.rs: `assign_many_small`) -/

/-- **`assign_many_small`**: EVERY returned cell lies in a lookup-enabled column (`1..=nr`) of a
row tagged with the bit length, so every accepted assignment gives it a value below `2^k` — for
every batch length and every number of lookup columns. (A model that placed the batch in the value
columns starting at column 0, as seeded change C04-3 does, could not prove this: column 0 carries
no lookup.) -/
theorem assignManySmall_sound (hR : RangeSound R) (s : St F) (n k : Nat) (asg : Cell → F)
    (h : (assignManySmall s n k).2.Holds R asg) :
    ∀ c ∈ (assignManySmall s n k).1, IsNatLt asg c (2 ^ k) := by
  unfold assignManySmall at h ⊢
  simp only at h ⊢
  generalize (List.range (if s.nrCols = 0 then 0 else (n + s.nrCols - 1) / s.nrCols)) = js at h ⊢
  suffices hgen : ∀ (js : List Nat) (acc : List Cell × St F), acc.2.nrCols = s.nrCols →
      (∀ asg', acc.2.Holds R asg' → ∀ c ∈ acc.1, IsNatLt asg' c (2 ^ k)) →
      ∀ asg', (js.foldl (fun (acc : List Cell × St F) j =>
        ((acc.1 ++ (List.range (min s.nrCols (n - j * s.nrCols))).map
            (fun i => advc acc.2.regions.length 0 (i + 1))),
          ({ acc.2 with regions := [{ tag := some k, adv := (List.range s.nrCols).map (· + 1) }]
              :: acc.2.regions } : St F).queryTag k)) acc).2.Holds R asg' →
        ∀ c ∈ (js.foldl (fun (acc : List Cell × St F) j =>
        ((acc.1 ++ (List.range (min s.nrCols (n - j * s.nrCols))).map
            (fun i => advc acc.2.regions.length 0 (i + 1))),
          ({ acc.2 with regions := [{ tag := some k, adv := (List.range s.nrCols).map (· + 1) }]
              :: acc.2.regions } : St F).queryTag k)) acc).1, IsNatLt asg' c (2 ^ k) by
    exact hgen js ([], s) rfl (fun _ _ c hc => by simp at hc) asg h
  intro js
  induction js with
  | nil => intro acc _ hacc asg' h'; exact hacc asg' h'
  | cons j js ih =>
    intro acc hnr hacc asg' h'
    simp only [List.foldl_cons] at h' ⊢
    refine ih _ ?_ ?_ asg' h'
    · have : (({ acc.2 with regions := [{ tag := some k, adv := (List.range s.nrCols).map (· + 1) }]
          :: acc.2.regions } : St F).queryTag k).nrCols = acc.2.nrCols := by
        unfold St.queryTag; split <;> rfl
      rw [this, hnr]
    · intro asg2 h2 c hc
      rw [queryTag_holds, holds_addRegion] at h2
      obtain ⟨hrow, hs⟩ := h2
      rcases List.mem_append.mp hc with hc | hc
      · exact hacc asg2 hs c hc
      · obtain ⟨i, hi, rfl⟩ := List.mem_map.mp hc
        have hi' := List.mem_range.mp hi
        simp only [rowsHold, Row.lookupsHold] at hrow
        have := hrow.2.1 (i + 1) (by omega) (by rw [hnr]; omega)
        obtain ⟨N, hN, hv⟩ := hR _ _ this
        exact ⟨N, hN, hv⟩

end MidnightZK.C04
