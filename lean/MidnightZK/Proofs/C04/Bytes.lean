import MidnightZK.Proofs.C04.Arith2
/-! `assigned_to_le_bytes` at full width (canonical bits regrouped into bytes), the `_fixed`
comparison variants, and `decompose_fixed_limb_size` for limbs wider than `max_bit_len`. -/
namespace MidnightZK.C04
open Lean.Grind
attribute [local instance] Semiring.natCast
set_option linter.unusedSectionVars false
set_option linter.unusedSimpArgs false
set_option linter.unusedVariables false

variable {F : Type} [Field F] [DecidableEq F]
variable {R : Nat → F → Prop}

/-- `chunksOf` on values. -/
def chunksOfN (n : Nat) : Nat → List Nat → List (List Nat)
  | 0, _ => []
  | _, [] => []
  | fuel + 1, l => l.take n :: chunksOfN n fuel (l.drop n)

/-- Cell chunks hold value chunks. -/
def ChunksHold (asg : Cell → F) : List (List Cell) → List (List Nat) → Prop
  | [], [] => True
  | c :: cs, v :: vs => CellsHold asg c v ∧ ChunksHold asg cs vs
  | _, _ => False

theorem CellsHold.drop : ∀ {asg : Cell → F} {cs : List Cell} {vs : List Nat} (k : Nat),
    CellsHold asg cs vs → CellsHold asg (cs.drop k) (vs.drop k)
  | _, [], [], _, _ => by simp [CellsHold]
  | _, _ :: _, _ :: _, 0, h => by simpa using h
  | _, _ :: _, _ :: _, k + 1, h => by
    simp only [List.drop_succ_cons]; exact CellsHold.drop k h.2
  | _, [], _ :: _, _, h => h.elim
  | _, _ :: _, [], _, h => h.elim

theorem chunksOf_hold (asg : Cell → F) (n : Nat) : ∀ (fuel : Nat) (cs : List Cell) (vs : List Nat),
    CellsHold asg cs vs → ChunksHold asg (chunksOf n fuel cs) (chunksOfN n fuel vs) := by
  intro fuel
  induction fuel with
  | zero => intro cs vs _; simp [chunksOf, chunksOfN, ChunksHold]
  | succ fuel ih =>
    intro cs vs h
    match cs, vs, h with
    | [], [], _ => simp [chunksOf, chunksOfN, ChunksHold]
    | c :: cs, v :: vs, h =>
      simp only [chunksOf, chunksOfN, ChunksHold]
      exact ⟨h.take n, ih _ _ (h.drop n)⟩
    | [], _ :: _, h => exact h.elim
    | _ :: _, [], h => exact h.elim

/-- Regrouping bits into bytes does not change the number. -/
theorem fromLimbs_chunks : ∀ (fuel : Nat) (bs : List Nat), bs.length ≤ fuel →
    fromLimbs 256 ((chunksOfN 8 fuel bs).map (fromLimbs 2)) = fromLimbs 2 bs := by
  intro fuel
  induction fuel with
  | zero => intro bs h; have : bs = [] := by simpa using h
            subst this; simp [chunksOfN, fromLimbs]
  | succ fuel ih =>
    intro bs h
    match bs with
    | [] => simp [chunksOfN, fromLimbs]
    | b :: bs =>
      simp only [chunksOfN, List.map_cons, fromLimbs]
      rw [ih _ (by simp only [List.length_drop, List.length_cons] at h ⊢; omega)]
      have hsplit := congrArg (fromLimbs 2) (List.take_append_drop 8 (b :: bs)).symm
      rw [fromLimbs_append] at hsplit
      have e : fromLimbs 2 (b :: bs) = b + 2 * fromLimbs 2 bs := rfl
      by_cases hl : 8 ≤ (b :: bs).length
      · have : ((b :: bs).take 8).length = 8 := by rw [List.length_take]; omega
        rw [this] at hsplit
        rw [← e, hsplit]
      · have hd : (b :: bs).drop 8 = [] := List.drop_of_length_le (by omega)
        rw [hd] at hsplit ⊢
        rw [← e, hsplit]; simp [fromLimbs]

theorem chunksOfN_lt (n : Nat) : ∀ (fuel : Nat) (bs : List Nat), (∀ b ∈ bs, b < 2) →
    ∀ c ∈ chunksOfN n fuel bs, fromLimbs 2 c < 2 ^ n := by
  intro fuel
  induction fuel with
  | zero => intro bs _ c hc; simp [chunksOfN] at hc
  | succ fuel ih =>
    intro bs hb c hc
    match bs with
    | [] => simp [chunksOfN] at hc
    | b :: bs =>
      simp only [chunksOfN, List.mem_cons] at hc
      rcases hc with rfl | hc
      · have h1 := fromLimbs_lt 2 (by omega) ((b :: bs).take n) (fun x hx => hb x (List.mem_of_mem_take hx))
        have : 2 ^ ((b :: bs).take n).length ≤ 2 ^ n :=
          Nat.pow_le_pow_right (by omega) (by rw [List.length_take]; omega)
        omega
      · exact ih _ (fun x hx => hb x (List.mem_of_mem_drop hx)) c hc

theorem chunksOfN_length (n : Nat) (hn : 0 < n) : ∀ (fuel : Nat) (bs : List Nat), bs.length ≤ fuel →
    (chunksOfN n fuel bs).length = (bs.length + n - 1) / n := by
  intro fuel
  induction fuel with
  | zero => intro bs h; have : bs = [] := by simpa using h
            subst this; simp [chunksOfN]; exact (Nat.div_eq_of_lt (by omega)).symm
  | succ fuel ih =>
    intro bs h
    match bs with
    | [] => simp [chunksOfN]; exact (Nat.div_eq_of_lt (by omega)).symm
    | b :: bs =>
      simp only [chunksOfN, List.length_cons]
      rw [ih _ (by simp only [List.length_drop, List.length_cons] at h ⊢; omega)]
      simp only [List.length_drop, List.length_cons]
      by_cases hl : n ≤ bs.length + 1
      · have : bs.length + 1 + n - 1 = (bs.length + 1 - n + n - 1) + n := by omega
        rw [this, Nat.add_div_right _ hn]
      · have h1 : bs.length + 1 - n = 0 := by omega
        rw [h1]
        have h2 : (0 + n - 1) / n = 0 := Nat.div_eq_of_lt (by omega)
        have h3 : (bs.length + 1 + n - 1) / n = 1 := by
          apply Nat.div_eq_of_lt_le <;> omega
        rw [h2, h3]

theorem CellsHold.of_map_eq {asg : Cell → F} : ∀ {cs : List Cell} {vs : List Nat},
    cs.map asg = vs.map (fun (n : Nat) => (n : F)) → CellsHold asg cs vs
  | [], [], _ => trivial
  | c :: cs, v :: vs, h => by
    simp only [List.map_cons, List.cons.injEq] at h
    exact ⟨h.1, CellsHold.of_map_eq h.2⟩
  | [], _ :: _, h => by simp at h
  | _ :: _, [], h => by simp at h

/-- The byte-regrouping fold of `assigned_to_le_bytes` only adds constraints. -/
theorem bytes_fold_ext : ∀ (chunks : List (List Cell)) (acc : List Cell) (s : St F),
    let r := chunks.foldl (fun (acc : List Cell × St F) chunk =>
      let terms : List (F × Cell) := chunk.zipIdx.map (fun (b, i) => (((2 ^ i : Nat) : F), b))
      let (byte, s) := linearCombination acc.2 terms 0
      (acc.1 ++ [byte], s)) (acc, s)
    s.Ext r.2 ∧ r.2.bounds = s.bounds := by
  intro chunks
  induction chunks with
  | nil => intro acc s; exact ⟨St.Ext.refl s, rfl⟩
  | cons c cs ih =>
    intro acc s
    simp only [List.foldl_cons]
    obtain ⟨e2, b2⟩ := ih (acc ++ [(linearCombination s
      (c.zipIdx.map (fun (b, i) => (((2 ^ i : Nat) : F), b))) 0).1])
      (linearCombination s (c.zipIdx.map (fun (b, i) => (((2 ^ i : Nat) : F), b))) 0).2
    exact ⟨(linearCombination_ext ..).trans e2, by rw [b2, linearCombination_bounds]⟩

theorem bytes_fold_sound (asg : Cell → F) : ∀ (chunks : List (List Cell)) (vals : List (List Nat))
    (acc : List Cell) (s : St F), ChunksHold asg chunks vals →
    let r := chunks.foldl (fun (acc : List Cell × St F) chunk =>
      let terms : List (F × Cell) := chunk.zipIdx.map (fun (b, i) => (((2 ^ i : Nat) : F), b))
      let (byte, s) := linearCombination acc.2 terms 0
      (acc.1 ++ [byte], s)) (acc, s)
    s.CacheOK asg → r.2.Holds R asg → r.2.CacheOK asg ∧
      r.1.map asg = acc.map asg ++ vals.map (fun v => ((fromLimbs 2 v : Nat) : F)) := by
  intro chunks
  induction chunks with
  | nil =>
    intro vals acc s hv
    cases vals with
    | nil => exact fun hc _ => ⟨hc, by simp⟩
    | cons v vs => exact hv.elim
  | cons c cs ih =>
    intro vals acc s hv
    cases vals with
    | nil => exact hv.elim
    | cons v vs =>
      simp only [List.foldl_cons]
      intro hc h
      have e2 := (bytes_fold_ext cs (acc ++ [(linearCombination s
        (c.zipIdx.map (fun (b, i) => (((2 ^ i : Nat) : F), b))) 0).1])
        (linearCombination s (c.zipIdx.map (fun (b, i) => (((2 ^ i : Nat) : F), b))) 0).2).1
      have hmid := e2.holds asg h
      obtain ⟨_, c1, r1⟩ := linearCombination_sound s _ 0 asg hc hmid
      obtain ⟨c2, r2⟩ := ih vs _ _ hv.2 c1 h
      refine ⟨c2, ?_⟩
      rw [r2]
      simp only [List.map_append, List.map_cons, List.map_nil, List.append_assoc, List.cons_append,
        List.nil_append]
      rw [r1, termSum_pow asg 2 c v 0 hv.1]
      simp; grind

/-- **`assigned_to_le_bytes(x, None)`** (full width): the returned cells hold bytes whose
little-endian recomposition is THE canonical representative of `x` (below `p`). -/
theorem assignedToLeBytes_full_sound (hR : RangeSound R) (p : Nat) (hodd : p % 2 = 1)
    (hp2 : 2 < p) (hp0 : ((p : Nat) : F) = 0)
    (hinj : ∀ a b : Nat, a < p → b < p → ((a : Nat) : F) = ((b : Nat) : F) → a = b)
    (numBits : Nat) (hnb0 : 0 < numBits) (hnb : 2 ^ numBits ≤ 2 * p)
    (s : St F) (x : Cell) (asg : Cell → F) (hmb : 1 ≤ s.maxBitLen)
    (h0 : 0 < s.nrCols) (h4 : s.nrCols ≤ 4) (hopt : OptOK s ((p + 1) / 2).log2)
    (hc : s.CacheOK asg) (hB : s.BoundsOK asg)
    (h : (assignedToLeBytes s x none numBits ((p + 1) / 2)).2.Holds R asg) :
    (assignedToLeBytes s x none numBits ((p + 1) / 2)).2.CacheOK asg ∧
    (assignedToLeBytes s x none numBits ((p + 1) / 2)).2.BoundsOK asg ∧
    ∃ ys : List Nat, ys.length = (numBits + 7) / 8 ∧ (∀ y ∈ ys, y < 256) ∧
      CellsHold asg (assignedToLeBytes s x none numBits ((p + 1) / 2)).1 ys ∧
      asg x = ((fromLimbs 256 ys : Nat) : F) ∧ fromLimbs 256 ys < p := by
  unfold assignedToLeBytes at h ⊢
  simp only [Option.getD_none, if_true] at h ⊢
  have hbits_eq : assignedToLeBits s x (some numBits) true numBits ((p + 1) / 2)
      = assignedToLeBits s x none true numBits ((p + 1) / 2) := rfl
  rw [hbits_eq] at h ⊢
  have hcan := assignedToLeBits_canonical_sound hR p hodd hp2 hp0 hinj numBits hnb0 hnb s x asg hmb h0 h4
    hopt hc hB
  generalize assignedToLeBits s x none true numBits ((p + 1) / 2) = A at h hcan ⊢
  obtain ⟨eA, bA⟩ := bytes_fold_ext (chunksOf 8 A.1.length A.1) [] A.2
  obtain ⟨cA, BA, bs, hl, hlt, hcells, hx, hcanon⟩ := hcan (eA.holds asg h)
  obtain ⟨c2, r2⟩ := bytes_fold_sound (R := R) asg (chunksOf 8 A.1.length A.1) (chunksOfN 8 A.1.length bs) []
    A.2 (chunksOf_hold asg 8 A.1.length A.1 bs hcells) cA h
  have hAl : A.1.length = numBits := by rw [hcells.length, hl]
  have hfl : bs.length ≤ A.1.length := by omega
  refine ⟨c2, boundsOK_of_bounds_eq asg bA BA, (chunksOfN 8 A.1.length bs).map (fromLimbs 2), ?_, ?_, ?_, ?_, ?_⟩
  · rw [List.length_map, chunksOfN_length 8 (by omega) _ _ hfl, hl]
    congr 1
  · intro y hy
    simp only [List.mem_map] at hy
    obtain ⟨c, hc', rfl⟩ := hy
    exact chunksOfN_lt 8 _ _ hlt c hc'
  · apply CellsHold.of_map_eq
    rw [r2]; simp
  · rw [fromLimbs_chunks _ _ hfl]; exact hx
  · rw [fromLimbs_chunks _ _ hfl]; exact hcanon

/-! ### `_fixed` comparison variants -/

/-- **`leq_fixed`**, **`geq_fixed`**, **`greater_than_fixed`** for a constant `c` with `c + 1 < p`
(for `c = p − 1` the code computes `c + 1 = 0` in the field and `leq_fixed` answers `[x < 0]`:
outside the documented range `[0, 2^MAX_BOUND_IN_BITS)` of comparison operands). -/
theorem fixed_comparisons_sound (hR : RangeSound R) (p : Nat)
    (hinj : ∀ a b : Nat, a < p → b < p → ((a : Nat) : F) = ((b : Nat) : F) → a = b)
    (s : St F) (x : Cell) (bx c : Nat) (asg : Cell → F)
    (nx : Nat) (hx : asg x = (nx : F)) (hnx : nx < 2 ^ bx) (hcp : c + 1 < p) (hm : 2 * 2 ^ bx ≤ p)
    (h0 : 0 < s.nrCols) (h4 : s.nrCols ≤ 4) (hopt : OptOK s bx)
    (hc : s.CacheOK asg) (hB : s.BoundsOK asg) :
    ((leqFixed s x bx c p).2.Holds R asg → (leqFixed s x bx c p).2.CacheOK asg ∧
      (leqFixed s x bx c p).2.BoundsOK asg ∧ asg (leqFixed s x bx c p).1 = bF (decide (nx ≤ c))) ∧
    ((geqFixed s x bx c).2.Holds R asg → (geqFixed s x bx c).2.CacheOK asg ∧
      (geqFixed s x bx c).2.BoundsOK asg ∧ asg (geqFixed s x bx c).1 = bF (decide (c ≤ nx))) ∧
    ((greaterThanFixed s x bx c p).2.Holds R asg → (greaterThanFixed s x bx c p).2.CacheOK asg ∧
      (greaterThanFixed s x bx c p).2.BoundsOK asg ∧
      asg (greaterThanFixed s x bx c p).1 = bF (decide (c < nx))) := by
  have hmod : (c + 1) % p = c + 1 := Nat.mod_eq_of_lt hcp
  have hleq : (leqFixed s x bx c p).2.Holds R asg → (leqFixed s x bx c p).2.CacheOK asg ∧
      (leqFixed s x bx c p).2.BoundsOK asg ∧ asg (leqFixed s x bx c p).1 = bF (decide (nx ≤ c)) := by
    intro h
    simp only [leqFixed, hmod] at h ⊢
    obtain ⟨c1, B1, r1⟩ := lowerThanFixed_sound hR p hinj s x bx (c + 1) asg nx hx hnx hcp hm h0 h4 hopt hc hB h
    refine ⟨c1, B1, ?_⟩
    rw [r1]; by_cases hle : nx ≤ c
    · have : nx < c + 1 := by omega
      simp [bF, hle, this]
    · have : ¬ nx < c + 1 := by omega
      simp [bF, hle, this]
  refine ⟨hleq, ?_, ?_⟩
  · intro h
    simp only [geqFixed] at h ⊢
    have h1 := (not_ext ..).holds asg h
    obtain ⟨c1, B1, r1⟩ := lowerThanFixed_sound hR p hinj s x bx c asg nx hx hnx (by omega) hm h0 h4 hopt hc hB h1
    obtain ⟨c2, r2⟩ := not_sound _ _ asg c1 h
    refine ⟨c2, boundsOK_hint h (not_bounds ..) B1, ?_⟩
    rw [r2, r1]
    by_cases hlt : nx < c
    · have : ¬ c ≤ nx := by omega
      simp [bF, hlt, this]; grind
    · have : c ≤ nx := by omega
      simp [bF, hlt, this]; grind
  · intro h
    simp only [greaterThanFixed] at h ⊢
    have h1 := (not_ext ..).holds asg h
    obtain ⟨c1, B1, r1⟩ := hleq h1
    obtain ⟨c2, r2⟩ := not_sound _ _ asg c1 h
    refine ⟨c2, boundsOK_hint h (not_bounds ..) B1, ?_⟩
    rw [r2, r1]
    by_cases hle : nx ≤ c
    · have : ¬ c < nx := by omega
      simp [bF, hle, this]; grind
    · have : c < nx := by omega
      simp [bF, hle, this]; grind

end MidnightZK.C04
