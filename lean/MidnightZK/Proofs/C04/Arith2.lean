import MidnightZK.Proofs.C04.Compare
/-! `pow` (square-and-multiply) and `add_constants` (parallel-add gate). -/
namespace MidnightZK.C04
open Lean.Grind
attribute [local instance] Semiring.natCast
set_option linter.unusedSectionVars false
set_option linter.unusedSimpArgs false
set_option linter.unusedVariables false

variable {F : Type} [Field F] [DecidableEq F]
variable {R : Nat → F → Prop}

/-! ### pow -/

theorem sq_pow (t : F) (k : Nat) : (t * t) ^ k = t ^ (2 * k) := by
  induction k with
  | zero => simp [Semiring.pow_zero]
  | succ k ih =>
    rw [Semiring.pow_succ, ih, show 2 * (k + 1) = 2 * k + 1 + 1 by omega, Semiring.pow_succ,
      Semiring.pow_succ]
    grind

theorem pow_split (t : F) (n : Nat) : t ^ n = t ^ (n % 2) * (t * t) ^ (n / 2) := by
  rw [sq_pow, ← Semiring.pow_add]
  congr 1; omega

/-- Value of the optional accumulator of `pow` (absent = 1). -/
def optVal (asg : Cell → F) : Option Cell → F
  | none => 1
  | some r => asg r

theorem square_ext (s : St F) (x : Cell) : s.Ext (square s x).2 := mul_ext ..

/-- The multiply step of one iteration of `pow`. -/
def powStep (s : St F) (n : Nat) (tmp : Cell) (res : Option Cell) : Option Cell × St F :=
  if n % 2 = 1 then
    match res with
    | none => (some tmp, s)
    | some acc => let (r, s) := mul s acc tmp none; (some r, s)
  else (res, s)

theorem powLoop_succ (fuel : Nat) (s : St F) (n : Nat) (tmp : Cell) (res : Option Cell) :
    powLoop (fuel + 1) s n tmp res =
      if n = 0 then (res, s) else
      if n / 2 > 0 then
        powLoop fuel (square (powStep s n tmp res).2 tmp).2 (n / 2) (square (powStep s n tmp res).2 tmp).1
          (powStep s n tmp res).1
      else powStep s n tmp res := by
  simp only [powLoop, powStep]
  split
  · rfl
  · split <;> split <;> (try split) <;> rfl

theorem powStep_sound (s : St F) (n : Nat) (tmp : Cell) (res : Option Cell) (asg : Cell → F)
    (hc : s.CacheOK asg) :
    s.Ext (powStep s n tmp res).2 ∧ (powStep s n tmp res).2.bounds = s.bounds ∧
    (n % 2 = 1 ∨ res.isSome → (powStep s n tmp res).1.isSome) ∧
    ((powStep s n tmp res).2.Holds R asg → (powStep s n tmp res).2.CacheOK asg ∧
      optVal asg (powStep s n tmp res).1 = optVal asg res * (asg tmp) ^ (n % 2)) := by
  unfold powStep
  by_cases hodd : n % 2 = 1
  · simp only [hodd, if_true]
    cases res with
    | none =>
      refine ⟨St.Ext.refl s, rfl, fun _ => rfl, fun _ => ⟨hc, ?_⟩⟩
      simp [optVal, Semiring.pow_succ, Semiring.pow_zero]; grind
    | some acc =>
      refine ⟨mul_ext .., mul_bounds .., fun _ => rfl, fun h => ?_⟩
      obtain ⟨c1, r1⟩ := mul_sound s acc tmp none asg hc h
      refine ⟨c1, ?_⟩
      simp only [optVal, r1, Option.getD_none, Semiring.pow_succ, Semiring.pow_zero]; grind
  · simp only [hodd, if_false]
    have h0 : n % 2 = 0 := by omega
    refine ⟨St.Ext.refl s, by simp, ?_, fun _ => ⟨hc, ?_⟩⟩
    · intro h; simpa [hodd] using h
    · rw [h0, Semiring.pow_zero]; grind

theorem powLoop_ext_aux : ∀ (fuel : Nat) (s : St F) (n : Nat) (tmp : Cell) (res : Option Cell),
    s.Ext (powLoop fuel s n tmp res).2 := by
  intro fuel
  induction fuel with
  | zero => intro s n tmp res; exact St.Ext.refl s
  | succ fuel ih =>
    intro s n tmp res
    rw [powLoop_succ]
    have e1 : s.Ext (powStep s n tmp res).2 := by
      unfold powStep; split
      · split
        · exact St.Ext.refl s
        · exact mul_ext ..
      · exact St.Ext.refl s
    split
    · exact St.Ext.refl s
    · split
      · exact (e1.trans (square_ext ..)).trans (ih _ _ _ _)
      · exact e1
theorem powLoop_bounds_aux : ∀ (fuel : Nat) (s : St F) (n : Nat) (tmp : Cell) (res : Option Cell),
    (powLoop fuel s n tmp res).2.bounds = s.bounds := by
  intro fuel
  induction fuel with
  | zero => intro s n tmp res; rfl
  | succ fuel ih =>
    intro s n tmp res
    rw [powLoop_succ]
    have e1 : (powStep s n tmp res).2.bounds = s.bounds := by
      unfold powStep; split
      · split
        · rfl
        · exact mul_bounds ..
      · rfl
    split
    · rfl
    · split
      · rw [ih, square, mul_bounds, e1]
      · exact e1
theorem powLoop_some_aux : ∀ (fuel : Nat) (s : St F) (n : Nat) (tmp : Cell) (res : Option Cell),
    (n ≠ 0 ∧ n < 2 ^ fuel) ∨ res.isSome → (powLoop fuel s n tmp res).1.isSome := by
  intro fuel
  induction fuel with
  | zero =>
    intro s n tmp res h
    rcases h with ⟨h1, h2⟩ | h
    · simp at h2; omega
    · exact h
  | succ fuel ih =>
    intro s n tmp res h
    rw [powLoop_succ]
    have s1 : (n % 2 = 1 ∨ res.isSome → (powStep s n tmp res).1.isSome) := by
      unfold powStep; split
      · split <;> intro _ <;> rfl
      · next hodd => intro h; exact h.elim (fun e => absurd e hodd) id
    split
    · next hn0 =>
      rcases h with ⟨h1, _⟩ | h
      · exact absurd hn0 h1
      · exact h
    · next hn0 =>
      split
      · next hhalf =>
        apply ih
        by_cases hres : res.isSome
        · exact Or.inr (s1 (Or.inr hres))
        · rcases h with ⟨_, h2⟩ | h
          · left; rw [Nat.pow_succ] at h2; omega
          · exact absurd h hres
      · next hhalf =>
        by_cases hres : res.isSome
        · exact s1 (Or.inr hres)
        · exact s1 (Or.inl (by omega))


theorem powLoop_sound : ∀ (fuel : Nat) (s : St F) (n : Nat) (tmp : Cell) (res : Option Cell)
    (asg : Cell → F), n < 2 ^ fuel → s.CacheOK asg →
    s.Ext (powLoop fuel s n tmp res).2 ∧ (powLoop fuel s n tmp res).2.bounds = s.bounds ∧
    (n ≠ 0 ∨ res.isSome → (powLoop fuel s n tmp res).1.isSome) ∧
    ((powLoop fuel s n tmp res).2.Holds R asg → (powLoop fuel s n tmp res).2.CacheOK asg ∧
      optVal asg (powLoop fuel s n tmp res).1 = optVal asg res * (asg tmp) ^ n) := by
  intro fuel
  induction fuel with
  | zero =>
    intro s n tmp res asg hn hc
    have : n = 0 := by simp at hn; omega
    subst this
    simp only [powLoop]
    refine ⟨St.Ext.refl s, by simp, ?_, fun _ => ⟨hc, by rw [Semiring.pow_zero]; grind⟩⟩
    intro h; simpa using h
  | succ fuel ih =>
    intro s n tmp res asg hn hc
    rw [powLoop_succ]
    by_cases hn0 : n = 0
    · subst hn0
      simp only [if_true]
      refine ⟨St.Ext.refl s, by simp, ?_, fun _ => ⟨hc, by rw [Semiring.pow_zero]; grind⟩⟩
      intro h; simpa using h
    · simp only [hn0, if_false]
      obtain ⟨e1, b1, s1, hs1⟩ := powStep_sound (R := R) s n tmp res asg hc
      by_cases hhalf : n / 2 > 0
      · simp only [hhalf, if_true]
        have e2 := square_ext (powStep s n tmp res).2 tmp
        -- soundness facts are only available under `Holds`; get Ext / bounds first
        have hlt : n / 2 < 2 ^ fuel := by
          rw [Nat.pow_succ] at hn; omega
        refine ⟨?_, ?_, ?_, fun h => ?_⟩
        · exact (e1.trans e2).trans (powLoop_ext_aux fuel _ _ _ _)
        · rw [powLoop_bounds_aux, square, mul_bounds, b1]
        · intro _
          exact powLoop_some_aux fuel _ _ _ _ (Or.inl ⟨by omega, hlt⟩)
        · have hh := (powLoop_ext_aux fuel _ _ _ _).holds asg h
          have h1 := e2.holds asg hh
          obtain ⟨c1, r1⟩ := hs1 h1
          obtain ⟨c2, r2⟩ := mul_sound _ tmp tmp none asg c1 hh
          obtain ⟨_, _, _, hs3⟩ := ih (square (powStep s n tmp res).2 tmp).2 (n / 2)
            (square (powStep s n tmp res).2 tmp).1 (powStep s n tmp res).1 asg hlt c2
          obtain ⟨c3, r3⟩ := hs3 h
          refine ⟨c3, ?_⟩
          rw [r3, r1]
          have : asg (square (powStep s n tmp res).2 tmp).1 = asg tmp * asg tmp := by
            simp only [square]; rw [r2]; simp; grind
          rw [this, pow_split (asg tmp) n]; grind
      · simp only [hhalf, if_false]
        have hn1 : n = 1 := by omega
        refine ⟨e1, b1, fun _ => s1 (Or.inl (by omega)), fun h => ?_⟩
        obtain ⟨c1, r1⟩ := hs1 h
        refine ⟨c1, ?_⟩
        rw [r1, hn1]

theorem pow_ext (s : St F) (x : Cell) (n : Nat) : s.Ext (pow s x n).2 := by
  unfold pow; split
  · exact assignFixed_ext s 1
  · exact powLoop_ext_aux 65 s n x none

/-- **`pow`** (square-and-multiply over the bits of a `u64` exponent, least significant first):
the output is `x^n` for every exponent. -/
theorem pow_sound (s : St F) (x : Cell) (n : Nat) (hn : n < 2 ^ 64) (asg : Cell → F)
    (hc : s.CacheOK asg) (h : (pow s x n).2.Holds R asg) :
    (pow s x n).2.CacheOK asg ∧ asg (pow s x n).1 = (asg x) ^ n := by
  unfold pow at h ⊢
  by_cases hn0 : n = 0
  · subst hn0
    simp only [if_true] at h ⊢
    obtain ⟨_, c1, r1⟩ := assignFixed_sound s 1 asg hc h
    exact ⟨c1, by rw [r1, Semiring.pow_zero]⟩
  · simp only [hn0, if_false] at h ⊢
    have hlt : n < 2 ^ 65 := by
      have : (2 : Nat) ^ 64 ≤ 2 ^ 65 := Nat.pow_le_pow_right (by omega) (by omega)
      omega
    obtain ⟨_, _, hsome, hs⟩ := powLoop_sound (R := R) 65 s n x none asg hlt hc
    obtain ⟨c1, r1⟩ := hs h
    refine ⟨c1, ?_⟩
    have := hsome (Or.inl hn0)
    cases hres : (powLoop 65 s n x none).1 with
    | none => rw [hres] at this; simp at this
    | some r =>
      rw [hres] at r1
      simp only [Option.getD_some, optVal] at r1 ⊢
      rw [r1]; grind

end MidnightZK.C04

namespace MidnightZK.C04
open Lean.Grind
attribute [local instance] Semiring.natCast
set_option linter.unusedSectionVars false
set_option linter.unusedSimpArgs false
set_option linter.unusedVariables false

variable {F : Type} [Field F] [DecidableEq F]
variable {R : Nat → F → Prop}

/-! ### add_constants -/

/-- The fall-back of `add_constants` (fewer than three remaining pairs): one `add_constant` each. -/
theorem foldl_addConstant_sound (asg : Cell → F) : ∀ (ps : List (Cell × F)) (acc : List Cell) (s : St F),
    let r := ps.foldl (fun (acc : List Cell × St F) p =>
        let (o, s) := addConstant acc.2 p.1 p.2
        (acc.1 ++ [o], s)) (acc, s)
    s.Ext r.2 ∧ r.2.bounds = s.bounds ∧
    (s.CacheOK asg → r.2.Holds R asg → r.2.CacheOK asg ∧
      r.1.map asg = acc.map asg ++ ps.map (fun p => asg p.1 + p.2)) := by
  intro ps
  induction ps with
  | nil => intro acc s; exact ⟨St.Ext.refl s, rfl, fun hc _ => ⟨hc, by simp⟩⟩
  | cons p ps ih =>
    intro acc s
    simp only [List.foldl_cons]
    have e1 := addConstant_ext s p.1 p.2
    obtain ⟨e2, b2, hs⟩ := ih (acc ++ [(addConstant s p.1 p.2).1]) (addConstant s p.1 p.2).2
    refine ⟨e1.trans e2, by rw [b2, addConstant_bounds], fun hc h => ?_⟩
    have hmid := e2.holds asg h
    obtain ⟨c1, r1⟩ := addConstant_sound s p.1 p.2 asg hc hmid
    obtain ⟨c2, r2⟩ := hs c1 h
    refine ⟨c2, ?_⟩
    rw [r2]; simp [r1]

theorem chunks_sound (asg : Cell → F) : ∀ (fuel : Nat) (s : St F) (ps : List (Cell × F)),
    s.Ext (addConstants.chunks s ps fuel).2 ∧ (addConstants.chunks s ps fuel).2.bounds = s.bounds ∧
    (s.CacheOK asg → (addConstants.chunks s ps fuel).2.Holds R asg →
      (addConstants.chunks s ps fuel).2.CacheOK asg ∧
      (addConstants.chunks s ps fuel).1.map asg = ps.map (fun p => asg p.1 + p.2)) := by
  intro fuel
  induction fuel with
  | zero =>
    intro s ps
    rw [addConstants.chunks]
    · have := foldl_addConstant_sound (R := R) asg ps [] s
      simpa using this
    · intro fuel _ _ _ _ _ _ _ h; omega
  | succ fuel ih =>
    intro s ps
    match ps with
    | (x0, c0) :: (x1, c1) :: (x2, c2) :: rest =>
      rw [addConstants.chunks]
      simp only [addRegion_fst_regions, addRegion_snd]
      -- the state after the parallel-add region and its three copy constraints
      generalize hs1 : ((({ s with regions := [{ parAdd := some (c0, c1, c2), adv := [0, 1, 2] },
        { adv := [0, 1, 2] }] :: s.regions } : St F).copy x0 (advc s.regions.length 0 0)).copy x1
          (advc s.regions.length 0 1)).copy x2 (advc s.regions.length 0 2) = s1
      have e1 : s.Ext s1 := by
        rw [← hs1]
        exact (ext_addRegion s _).trans ((ext_copy _ _ _).trans ((ext_copy _ _ _).trans (ext_copy _ _ _)))
      have b1 : s1.bounds = s.bounds := by rw [← hs1]; rfl
      obtain ⟨e2, b2, hs2⟩ := ih s1 rest
      refine ⟨e1.trans e2, by rw [b2, b1], fun hc h => ?_⟩
      have c1' : s1.CacheOK asg := by rw [← hs1]; exact hc
      obtain ⟨c3, r3⟩ := hs2 c1' h
      refine ⟨c3, ?_⟩
      have h1 := e2.holds asg h
      rw [← hs1] at h1
      simp only [holds_copy, holds_addRegion, rowsHold, Row.gatesHold, Row.lookupsHold,
        Row.fixedHold, advc] at h1
      simp only [List.map_append, List.map_cons, List.map_nil, r3, advc]
      obtain ⟨h2, h1', h0', ⟨⟨_, _, hg⟩, _⟩, _⟩ := h1
      simp only [List.cons_append, List.nil_append, List.cons.injEq, and_true]
      refine ⟨?_, ?_, ?_⟩ <;> grind
    | [] =>
      rw [addConstants.chunks]
      · have := foldl_addConstant_sound (R := R) asg [] [] s
        simpa using this
      · intro _ _ _ _ _ _ _ _ _ h; simp at h
    | [a] =>
      rw [addConstants.chunks]
      · have := foldl_addConstant_sound (R := R) asg [a] [] s
        simpa using this
      · intro _ _ _ _ _ _ _ _ _ h; simp at h
    | [a, b] =>
      rw [addConstants.chunks]
      · have := foldl_addConstant_sound (R := R) asg [a, b] [] s
        simpa using this
      · intro _ _ _ _ _ _ _ _ _ h; simp at h

theorem merge_sound (asg : Cell → F) : ∀ (xs : List Cell) (cs : List F) (nt : List Cell),
    xs.length = cs.length →
    nt.map asg = ((xs.zip cs).filter (fun p => p.2 ≠ 0)).map (fun p => asg p.1 + p.2) →
    (addConstants.merge xs cs nt).map asg = (xs.zip cs).map (fun p => asg p.1 + p.2) := by
  intro xs
  induction xs with
  | nil => intro cs nt _ _; cases cs <;> simp [addConstants.merge]
  | cons x xs ih =>
    intro cs nt hl hnt
    cases cs with
    | nil => simp at hl
    | cons c cs =>
      simp only [addConstants.merge]
      by_cases hc0 : c = 0
      · simp only [hc0, ne_eq, not_true_eq_false, if_false, List.map_cons, List.zip_cons_cons]
        rw [ih cs nt (by simpa using hl) (by simpa [List.filter_cons, hc0] using hnt)]
        simp; grind
      · simp only [hc0, ne_eq, not_false_eq_true, if_true]
        simp only [List.zip_cons_cons, List.filter_cons, hc0, ne_eq, not_false_eq_true, decide_true,
          if_true, List.map_cons] at hnt
        cases nt with
        | nil => simp at hnt
        | cons o nt =>
          simp only [List.map_cons, List.cons.injEq] at hnt
          simp only [List.map_cons, List.zip_cons_cons, hnt.1]
          rw [ih cs nt (by simpa using hl) hnt.2]

theorem addConstants_ext (s : St F) (xs : List Cell) (cs : List F) : s.Ext (addConstants s xs cs).2 := by
  simp only [addConstants]
  exact (chunks_sound (R := fun _ _ => True) (fun _ => (0 : F)) _ s _).1

/-- **`add_constants`** (parallel-add gate, three additions per row; zero constants skipped and
re-inserted): `outᵢ = xᵢ + cᵢ` for every `i`, for lists of every length. -/
theorem addConstants_sound (s : St F) (xs : List Cell) (cs : List F) (hl : xs.length = cs.length)
    (asg : Cell → F) (hc : s.CacheOK asg) (h : (addConstants s xs cs).2.Holds R asg) :
    (addConstants s xs cs).2.CacheOK asg ∧ (addConstants s xs cs).2.bounds = s.bounds ∧
    (addConstants s xs cs).1.map asg = (xs.zip cs).map (fun p => asg p.1 + p.2) := by
  simp only [addConstants] at h ⊢
  obtain ⟨_, b1, hs⟩ := chunks_sound (R := R) asg
    (((xs.zip cs).filter (fun p => p.2 ≠ 0)).length + 1) s ((xs.zip cs).filter (fun p => p.2 ≠ 0))
  obtain ⟨c1, r1⟩ := hs hc h
  exact ⟨c1, b1, merge_sound asg xs cs _ hl r1⟩

end MidnightZK.C04
