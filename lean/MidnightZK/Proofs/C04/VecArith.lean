import MidnightZK.Model.C04.Vector
/-! Pure arithmetic of the vector layout (vec/vector.rs: `get_lims`) and of the two scans of
`padding_flag`, over `Nat` / `Bool` (no field, no circuit). -/
namespace MidnightZK.C04

/-- The three facts about `get_lims::<M, A>(n)` everything else follows from linearly: the payload
ends less than `A` before the end of the buffer, it has `n` elements, and it starts at most at
`M − A` unless the vector is empty (then it is the empty range at `M`). Needs `A ∣ M`. -/
theorem getLims_facts (M A n : Nat) (hA : 0 < A) (hAM : A ∣ M) (hn : n ≤ M) :
    (getLims M A n).2 ≤ M ∧ M < (getLims M A n).2 + A ∧
    (getLims M A n).1 + n = (getLims M A n).2 ∧
    ((getLims M A n).1 + A ≤ M ∨ ((getLims M A n).1 = M ∧ n = 0)) ∧
    (getLims M A n).2 = (if n % A = 0 then M else M - A + n % A) ∧
    n + (A - n % A) % A ≤ M := by
  obtain ⟨q, rfl⟩ := hAM
  simp only [getLims]
  have hr : n % A < A := Nat.mod_lt _ hA
  have hdm : A * (n / A) + n % A = n := Nat.div_add_mod n A
  by_cases h0 : n % A = 0
  · have hp : (A - n % A) % A = 0 := by rw [h0]; simp
    rw [hp]; simp only [h0, if_true]
    refine ⟨by omega, by omega, by omega, ?_, by omega, by omega⟩
    by_cases hn0 : n = 0
    · right; omega
    · left
      have : 0 < n / A := by
        rcases Nat.eq_zero_or_pos (n / A) with hz | hz
        · rw [hz] at hdm; omega
        · exact hz
      have : A * 1 ≤ A * (n / A) := Nat.mul_le_mul_left A this
      omega
  · have hp : (A - n % A) % A = A - n % A := Nat.mod_eq_of_lt (by omega)
    rw [hp]; simp only [h0, if_false]
    -- n + pad = A * (n / A + 1) ≤ A * q
    have hlt : n / A < q := by
      have : A * (n / A) < A * q := by omega
      exact Nat.lt_of_mul_lt_mul_left this
    have : A * (n / A + 1) ≤ A * q := Nat.mul_le_mul_left A hlt
    rw [Nat.mul_add, Nat.mul_one] at this
    refine ⟨by omega, by omega, by omega, ?_, by omega, by omega⟩
    left; omega

/-- `get_lims` after `resize::<L>`: the same payload, `L − M` positions further. -/
theorem getLims_resize (M L A n : Nat) (hA : 0 < A) (hAM : A ∣ M) (hn : n ≤ M) (hML : M ≤ L) :
    (getLims L A n).1 = (getLims M A n).1 + (L - M) ∧
    (getLims L A n).2 = (getLims M A n).2 + (L - M) := by
  have h3 := (getLims_facts M A n hA hAM hn).2.2.2.2.2
  simp only [getLims] at h3 ⊢
  have : (A - n % A) % A < A := Nat.mod_lt _ hA
  generalize (A - n % A) % A = pad at *
  omega

theorem dec_t {p : Prop} [Decidable p] (h : p) : decide p = true := decide_eq_true h
theorem dec_f {p : Prop} [Decidable p] (h : ¬ p) : decide p = false := decide_eq_false h

/-- One scan of `padding_flag` on booleans: the flag flips at the position equal to `L`. -/
def scanSpec (d : Bool) (L : Nat) : List Nat → List Bool
  | [] => []
  | i :: rest => (d != decide (L = i)) :: scanSpec (d != decide (L = i)) L rest

def scanLast (d : Bool) (L : Nat) : List Nat → Bool
  | [] => d
  | i :: rest => scanLast (d != decide (L = i)) L rest

theorem scanSpec_range' (d : Bool) (L a n : Nat) :
    scanSpec d L (List.range' a n) = (List.range' a n).map (fun i => d != decide (a ≤ L ∧ L ≤ i)) ∧
    scanLast d L (List.range' a n) = (d != decide (a ≤ L ∧ L < a + n)) := by
  induction n generalizing a d with
  | zero =>
    have : ¬ (a ≤ L ∧ L < a + 0) := by omega
    simp only [scanSpec, scanLast, List.range'_zero, List.map_nil, dec_f this]
    exact ⟨trivial, by cases d <;> rfl⟩
  | succ n ih =>
    rw [List.range'_succ]
    simp only [scanSpec, scanLast, List.map_cons]
    obtain ⟨i1, i2⟩ := ih (d != decide (L = a)) (a + 1)
    rw [i1, i2]
    refine ⟨?_, ?_⟩
    · congr 1
      · by_cases h : L = a
        · have e : (a ≤ L ∧ L ≤ a) := by omega
          rw [dec_t h, dec_t e]
        · have e : ¬ (a ≤ L ∧ L ≤ a) := by omega
          rw [dec_f h, dec_f e]
      · apply List.map_congr_left
        intro i hi
        have hia : a + 1 ≤ i := (List.mem_range'_1.mp hi).1
        by_cases h : L = a
        · have p1 : ¬ (a + 1 ≤ L ∧ L ≤ i) := by omega
          have p2 : (a ≤ L ∧ L ≤ i) := by omega
          rw [dec_t h, dec_f p1, dec_t p2]; cases d <;> rfl
        · by_cases e : (a ≤ L ∧ L ≤ i)
          · have e' : (a + 1 ≤ L ∧ L ≤ i) := by omega
            rw [dec_f h, dec_t e, dec_t e']; cases d <;> rfl
          · have e' : ¬ (a + 1 ≤ L ∧ L ≤ i) := by omega
            rw [dec_f h, dec_f e, dec_f e']; cases d <;> rfl
    · by_cases h : L = a
      · have p1 : ¬ (a + 1 ≤ L ∧ L < a + 1 + n) := by omega
        have p2 : (a ≤ L ∧ L < a + (n + 1)) := by omega
        rw [dec_t h, dec_f p1, dec_t p2]; cases d <;> rfl
      · by_cases e : (a ≤ L ∧ L < a + (n + 1))
        · have e' : (a + 1 ≤ L ∧ L < a + 1 + n) := by omega
          rw [dec_f h, dec_t e, dec_t e']; cases d <;> rfl
        · have e' : ¬ (a + 1 ≤ L ∧ L < a + 1 + n) := by omega
          rw [dec_f h, dec_f e, dec_f e']; cases d <;> rfl

/-- **The two scans of `padding_flag` compute the complement of the payload range** — for every
`M`, every `A ∣ M`, every length `n ≤ M` (including `1 ≤ n ≤ A`, where the payload starts at
`M − A`: the first scan must cover that position). -/
theorem padScan_correct (M A n : Nat) (hA : 0 < A) (hAM : A ∣ M) (hn : n ≤ M) (hAle : A ≤ M) :
    scanSpec true (getLims M A n).1 (List.range (M - A + 1)) ++
      scanSpec (scanLast true (getLims M A n).1 (List.range (M - A + 1))) (getLims M A n).2
        (List.range' (M - A + 1) (A - 1))
    = (List.range M).map (fun i => !(decide ((getLims M A n).1 ≤ i ∧ i < (getLims M A n).2))) := by
  obtain ⟨f1, f2, f3, f4, _, _⟩ := getLims_facts M A n hA hAM hn
  generalize (getLims M A n).1 = S at *
  generalize (getLims M A n).2 = E at *
  simp only [List.range_eq_range']
  rw [(scanSpec_range' true S 0 (M - A + 1)).1,
    (scanSpec_range' true S 0 (M - A + 1)).2, (scanSpec_range' _ E (M - A + 1) (A - 1)).1]
  have hsplit : List.range' 0 (M - A + 1) ++ List.range' (0 + (M - A + 1)) (A - 1)
      = List.range' 0 (M - A + 1 + (A - 1)) := List.range'_append_1
  have hM : M - A + 1 + (A - 1) = M := by omega
  rw [Nat.zero_add, hM] at hsplit
  rw [← hsplit, List.map_append]
  congr 1
  · apply List.map_congr_left
    intro i hi
    have hi' := (List.mem_range'_1.mp hi).2
    by_cases h : S ≤ i
    · have : i < E := by omega
      simp [h, this]
    · simp [h]
  · apply List.map_congr_left
    intro i hi
    have hi1 := (List.mem_range'_1.mp hi).1
    have hi2 := (List.mem_range'_1.mp hi).2
    rcases f4 with f4 | ⟨f4, f5⟩
    · have a1 : S < M - A + 1 := by omega
      have a2 : S ≤ i := by omega
      have a3 : M - A + 1 ≤ E := by omega
      by_cases h : E ≤ i
      · have : ¬ i < E := by omega
        simp [a1, a2, a3, h, this]
      · have : i < E := by omega
        simp [a1, a2, a3, h, this]
    · have a1 : ¬ S < M - A + 1 := by omega
      have a2 : ¬ S ≤ i := by omega
      have a3 : ¬ E ≤ i := by omega
      simp [a1, a2, a3]

/-- The off-by-one of /repo commit 33e5337 (scans over `0..M−A` and `M−A..M`): for `M = 8, A = 4`
and the length 2 the flags are wrong (all positions flagged as padding... the payload `[4, 6)` is
not recognised), so this model could not prove `padScan_correct`. -/
theorem padScan_off_by_one_wrong :
    let S := (getLims 8 4 2).1
    let E := (getLims 8 4 2).2
    scanSpec true S (List.range (8 - 4)) ++
      scanSpec (scanLast true S (List.range (8 - 4))) E (List.range' (8 - 4) 4)
    ≠ (List.range 8).map (fun i => !(decide (S ≤ i ∧ i < E))) := by decide

/-! ## `trim_beginning`: index arithmetic -/

/-- Value-level buffer of `trim_beginning` (vector_gadget.rs): `A` fillers, the input without its
first `n mod A` cells, `n mod A` fillers; position `i` of the result reads position `i` (when the
trailing padding would reach `A`: `needs_adjust`) or `A + i` of it. `none` = a filler. -/
def trimSrc (M A len n i : Nat) : Option Nat :=
  let r := len % A
  let t := n % A
  let adjust : Bool := decide (r ≠ 0 ∧ r ≤ t)
  let j := if adjust then i else A + i
  -- position j of (A fillers ++ input.drop t ++ t fillers)
  if j < A then none else if j - A + t < M then some (j - A + t) else none

/-- **`trim_beginning` keeps the payload**: for every `M`, `A ∣ M`, length `len ≤ M` and
`n ≤ len`, position `k` of the new payload (`k < len − n`, at `get_lims(len − n).start + k` of the
new buffer) reads position `get_lims(len).start + n + k` of the old buffer — the `(n + k)`-th
element of the old payload. -/
theorem trim_index_correct (M A len n k : Nat) (hA : 0 < A) (hAM : A ∣ M) (hlen : len ≤ M)
    (hn : n ≤ len) (hk : k < len - n) :
    trimSrc M A len n ((getLims M A (len - n)).1 + k) = some ((getLims M A len).1 + n + k) := by
  obtain ⟨e1, e2, e3, e4, e5, _⟩ := getLims_facts M A len hA hAM hlen
  obtain ⟨g1, g2, g3, g4, g5, _⟩ := getLims_facts M A (len - n) hA hAM (by omega)
  generalize (getLims M A len).1 = S at *
  generalize (getLims M A len).2 = E at *
  generalize (getLims M A (len - n)).1 = S' at *
  generalize (getLims M A (len - n)).2 = E' at *
  have hr : len % A < A := Nat.mod_lt _ hA
  have ht : n % A < A := Nat.mod_lt _ hA
  have hr' : (len - n) % A < A := Nat.mod_lt _ hA
  have hrl : len % A ≤ len := Nat.mod_le _ _
  have htl : n % A ≤ n := Nat.mod_le _ _
  have hrl' : (len - n) % A ≤ len - n := Nat.mod_le _ _
  -- (len − n) mod A in terms of len mod A and n mod A
  have hmod : (len - n) % A = if n % A ≤ len % A then len % A - n % A else A + len % A - n % A := by
    have h1 : A * (len / A) + len % A = len := Nat.div_add_mod len A
    have h2 : A * (n / A) + n % A = n := Nat.div_add_mod n A
    have hq : n / A ≤ len / A := Nat.div_le_div_right hn
    split
    · next hle =>
      have : len - n = (len % A - n % A) + A * (len / A - n / A) := by
        rw [Nat.mul_sub]; have := Nat.mul_le_mul_left A hq; omega
      rw [this, Nat.add_mul_mod_self_left]
      exact Nat.mod_eq_of_lt (by omega)
    · next hgt =>
      have hq' : n / A + 1 ≤ len / A := by
        rcases Nat.lt_or_ge (n / A) (len / A) with h | h
        · exact h
        · have : len / A = n / A := by omega
          rw [this] at h1; omega
      have : len - n = (A + len % A - n % A) + A * (len / A - (n / A + 1)) := by
        rw [Nat.mul_sub]
        have := Nat.mul_le_mul_left A hq'
        rw [Nat.mul_add, Nat.mul_one] at this ⊢
        omega
      rw [this, Nat.add_mul_mod_self_left]
      exact Nat.mod_eq_of_lt (by omega)
  unfold trimSrc
  simp only
  by_cases hadj : len % A ≠ 0 ∧ len % A ≤ n % A
  · have hd : decide (len % A ≠ 0 ∧ len % A ≤ n % A) = true := by simp [hadj]
    simp only [hd, if_true]
    have hlt : ¬ n % A ≤ len % A ∨ n % A = len % A := by omega
    by_cases heq : n % A = len % A
    · rw [heq] at hmod; simp at hmod
      simp only [hmod, if_true] at g5
      simp only [hadj.1, if_false] at e5
      have h1 : ¬ S' + k < A := by omega
      have h2 : S' + k - A + n % A < M := by omega
      simp only [h1, if_false, h2, if_true]
      congr 1; omega
    · have hgt : ¬ n % A ≤ len % A := by omega
      simp only [hgt, if_false] at hmod
      have hne : ¬ (len - n) % A = 0 := by omega
      simp only [hne, if_false] at g5
      simp only [hadj.1, if_false] at e5
      have h1 : ¬ S' + k < A := by omega
      have h2 : S' + k - A + n % A < M := by omega
      simp only [h1, if_false, h2, if_true]
      congr 1; omega
  · have hd : decide (len % A ≠ 0 ∧ len % A ≤ n % A) = false := by simp [hadj]
    simp only [hd, Bool.false_eq_true, if_false]
    have h1 : ¬ A + (S' + k) < A := by omega
    by_cases h0 : len % A = 0
    · simp only [h0, if_true] at e5
      rw [h0] at hmod
      by_cases ht0 : n % A = 0
      · rw [ht0] at hmod; simp at hmod
        simp only [hmod, if_true] at g5
        have h2 : A + (S' + k) - A + n % A < M := by omega
        simp only [h1, if_false, h2, if_true]
        congr 1; omega
      · have : ¬ n % A ≤ 0 := by omega
        simp only [this, if_false] at hmod
        have hne : ¬ (len - n) % A = 0 := by omega
        simp only [hne, if_false] at g5
        have h2 : A + (S' + k) - A + n % A < M := by omega
        simp only [h1, if_false, h2, if_true]
        congr 1; omega
    · simp only [h0, if_false] at e5
      have hle : n % A < len % A := by omega
      have hle' : n % A ≤ len % A := by omega
      simp only [hle', if_true] at hmod
      have hne : ¬ (len - n) % A = 0 := by omega
      simp only [hne, if_false] at g5
      have h2 : A + (S' + k) - A + n % A < M := by omega
      simp only [h1, if_false, h2, if_true]
      congr 1; omega

/-- What `trimSrc = some q` means, in the form the circuit-level proof uses. -/
theorem trimSrc_some (M A len n i q : Nat) (h : trimSrc M A len n i = some q) :
    A ≤ (if decide (len % A ≠ 0 ∧ len % A ≤ n % A) = true then i else A + i) ∧
    q = (if decide (len % A ≠ 0 ∧ len % A ≤ n % A) = true then i else A + i) - A + n % A ∧ q < M := by
  unfold trimSrc at h
  simp only at h
  generalize (if decide (len % A ≠ 0 ∧ len % A ≤ n % A) = true then i else A + i) = j at h ⊢
  by_cases hj : j < A
  · simp [hj] at h
  · simp only [hj, if_false] at h
    by_cases hq : j - A + n % A < M
    · simp only [hq, if_true, Option.some.injEq] at h
      exact ⟨by omega, h.symm, by omega⟩
    · simp [hq] at h

end MidnightZK.C04
