import MidnightZK.Proofs.C04.Bounds
import MidnightZK.Model.C04.Interp
/-! The limbs of `decompose_core`: the recomposed value is tied to the *individual limb cells*
(each the image of a natural number below `2^size`), for every list of limb sizes and 1..4 lookup
columns. This is what `assigned_to_le_bits / bytes / chunks` hand out. -/
namespace MidnightZK.C04
open Lean.Grind
attribute [local instance] Semiring.natCast
set_option linter.unusedSectionVars false
set_option linter.unusedSimpArgs false
set_option linter.unusedVariables false

variable {F : Type} [Field F] [DecidableEq F]
variable {R : Nat → F → Prop}

/-! ### limb sums over `(size, cell)` pairs -/

/-- The `(size, cell)` pairs of a chain whose first term has index `j`. -/
def limbPairs (nr k off : Nat) : List Nat → Nat → List (Nat × Cell)
  | [], _ => []
  | sz :: rest, j => (sz, lcLimb nr k off j) :: limbPairs nr k off rest (j + 1)

/-- `Σ 2^shiftᵢ · asg cellᵢ` with the coefficient 0 for zero-sized limbs. -/
def limbSumF (asg : Cell → F) : Nat → List (Nat × Cell) → F
  | _, [] => 0
  | shift, p :: rest =>
    (((if p.1 = 0 then 0 else 2 ^ shift : Nat) : Nat) : F) * asg p.2 + limbSumF asg (shift + p.1) rest

theorem lcSum_limbCoeffs (asg : Cell → F) (nr k off : Nat) (sizes : List Nat) (shift j : Nat) :
    lcSum asg nr k off ((limbCoeffsAux shift sizes).map (fun (n : Nat) => (n : F))) j
      = limbSumF asg shift (limbPairs nr k off sizes j) := by
  induction sizes generalizing shift j with
  | nil => rfl
  | cons sz rest ih =>
    simp only [limbCoeffsAux, List.map_cons, lcSum, limbPairs, limbSumF]
    rw [ih]

theorem limbSumF_filter (asg : Cell → F) (shift : Nat) (pairs : List (Nat × Cell)) :
    limbSumF asg shift (pairs.filter (fun p => p.1 ≠ 0)) = limbSumF asg shift pairs := by
  induction pairs generalizing shift with
  | nil => rfl
  | cons p ps ih =>
    by_cases h : p.1 = 0
    · simp only [List.filter, h, ne_eq, not_true_eq_false, decide_false, limbSumF, if_true,
        Nat.add_zero]
      rw [ih, Semiring.natCast_zero]; grind
    · simp only [List.filter, h, ne_eq, not_false_eq_true, decide_true, limbSumF, if_false]
      rw [ih]

/-- Little-endian recomposition of limbs of the given sizes. -/
def recomp : List Nat → List Nat → Nat
  | sz :: ss, v :: vs => v + 2 ^ sz * recomp ss vs
  | _, _ => 0

/-- Limb values `vs` of sizes `sizes`: one value per size, each below `2^size`. -/
def LimbVals : List Nat → List Nat → Prop
  | [], [] => True
  | sz :: ss, v :: vs => v < 2 ^ sz ∧ LimbVals ss vs
  | _, _ => False

theorem LimbVals.length : ∀ {sizes vs : List Nat}, LimbVals sizes vs → vs.length = sizes.length
  | [], [], _ => rfl
  | _ :: ss, _ :: vs, h => by simp [LimbVals.length (sizes := ss) (vs := vs) h.2]
  | [], _ :: _, h => h.elim
  | _ :: _, [], h => h.elim

theorem recomp_lt : ∀ (sizes vs : List Nat), LimbVals sizes vs → recomp sizes vs < 2 ^ sizes.sum
  | [], [], _ => by simp [recomp]
  | sz :: ss, v :: vs, h => by
    have ih := recomp_lt ss vs h.2
    simp only [recomp, List.sum_cons, Nat.pow_add]
    have h1 : 2 ^ sz * recomp ss vs + 2 ^ sz ≤ 2 ^ sz * 2 ^ ss.sum := by
      have : recomp ss vs + 1 ≤ 2 ^ ss.sum := ih
      calc 2 ^ sz * recomp ss vs + 2 ^ sz = 2 ^ sz * (recomp ss vs + 1) := by
            rw [Nat.mul_add, Nat.mul_one]
        _ ≤ _ := Nat.mul_le_mul_left _ this
    have := h.1
    omega
  | [], _ :: _, h => h.elim
  | _ :: _, [], h => h.elim

/-- The limbs are determined by the recomposed value: they are the base-`2^size` digits
(`limbsOf`, the specification used by the correspondence run; cpu_utils.rs
`decompose_in_variable_limbsizes`). -/
theorem limbsOf_recomp : ∀ (sizes vs : List Nat), LimbVals sizes vs →
    limbsOf (recomp sizes vs) sizes = vs
  | [], [], _ => rfl
  | sz :: ss, v :: vs, h => by
    have ih := limbsOf_recomp ss vs h.2
    have hpos : 0 < 2 ^ sz := Nat.pow_pos (by omega)
    simp only [recomp, limbsOf]
    have e1 : (v + 2 ^ sz * recomp ss vs) % 2 ^ sz = v := by
      rw [Nat.add_mul_mod_self_left]; exact Nat.mod_eq_of_lt h.1
    have e2 : (v + 2 ^ sz * recomp ss vs) / 2 ^ sz = recomp ss vs := by
      rw [Nat.add_mul_div_left _ _ hpos, Nat.div_eq_of_lt h.1, Nat.zero_add]
    rw [e1, e2, ih]
  | [], _ :: _, h => h.elim
  | _ :: _, [], h => h.elim

/-- The cells hold (the images of) the limb values. -/
def CellsHold (asg : Cell → F) : List Cell → List Nat → Prop
  | [], [] => True
  | c :: cs, v :: vs => asg c = (v : F) ∧ CellsHold asg cs vs
  | _, _ => False

theorem CellsHold.map_eq : ∀ {asg : Cell → F} {cs : List Cell} {vs : List Nat},
    CellsHold asg cs vs → cs.map asg = vs.map (fun (n : Nat) => (n : F))
  | _, [], [], _ => rfl
  | _, _ :: _, _ :: _, h => by simp [h.1, CellsHold.map_eq h.2]
  | _, [], _ :: _, h => h.elim
  | _, _ :: _, [], h => h.elim

/-- From per-cell range facts to a list of limb values, and the limb sum as a natural number. -/
theorem limbSumF_nat (asg : Cell → F) (pairs : List (Nat × Cell)) (shift : Nat)
    (h : ∀ p ∈ pairs, ∃ n : Nat, n < 2 ^ p.1 ∧ asg p.2 = (n : F)) (hnz : ∀ p ∈ pairs, p.1 ≠ 0) :
    ∃ vs : List Nat, LimbVals (pairs.map (·.1)) vs ∧ CellsHold asg (pairs.map (·.2)) vs ∧
      limbSumF asg shift pairs = ((2 ^ shift * recomp (pairs.map (·.1)) vs : Nat) : F) := by
  induction pairs generalizing shift with
  | nil => exact ⟨[], trivial, trivial, by simp [limbSumF, recomp]; exact (Semiring.natCast_zero).symm⟩
  | cons p ps ih =>
    obtain ⟨n, hn, hv⟩ := h p (by simp)
    obtain ⟨vs, h1, h2, h3⟩ := ih (shift + p.1) (fun q hq => h q (by simp [hq]))
      (fun q hq => hnz q (by simp [hq]))
    refine ⟨n :: vs, ⟨hn, h1⟩, ⟨hv, h2⟩, ?_⟩
    have hp := hnz p (by simp)
    simp only [limbSumF, hp, if_false, h3, hv, List.map_cons, recomp]
    rw [← natCast_mul', ← natCast_add']
    congr 1
    rw [Nat.mul_add, Nat.pow_add, Nat.mul_assoc]

/-! ### the chain of `decompose_core` is a linear-combination chain with tags -/

theorem limbCoeffsAux_take (shift : Nat) (sizes : List Nat) (n : Nat) :
    limbCoeffsAux shift (sizes.take n) = (limbCoeffsAux shift sizes).take n := by
  induction sizes generalizing shift n with
  | nil => simp [limbCoeffsAux]
  | cons sz rest ih =>
    cases n with
    | zero => simp [limbCoeffsAux]
    | succ n => simp [limbCoeffsAux, ih]

theorem limbCoeffsAux_drop (shift : Nat) (sizes : List Nat) (n : Nat) :
    limbCoeffsAux (shift + (sizes.take n).sum) (sizes.drop n) = (limbCoeffsAux shift sizes).drop n := by
  induction sizes generalizing shift n with
  | nil => simp [limbCoeffsAux]
  | cons sz rest ih =>
    cases n with
    | zero => simp [limbCoeffsAux]
    | succ n =>
      simp only [List.take_succ_cons, List.sum_cons, List.drop_succ_cons, limbCoeffsAux]
      rw [← ih, Nat.add_assoc]

theorem limbCoeffsAux_length (shift : Nat) (sizes : List Nat) :
    (limbCoeffsAux shift sizes).length = sizes.length := by
  induction sizes generalizing shift with
  | nil => rfl
  | cons sz rest ih => simp [limbCoeffsAux, ih]

/-- Forgetting tags and lookups, the rows of `decompose_core` are the rows of
`assign_linear_combination_aux` for the coefficients `2^shift` / 0. -/
theorem decompRows_gates (asg : Cell → F) (nr k : Nat) (sizes : List Nat) (shift off : Nat)
    (h : rowsHold R nr asg k off (decompRows nr sizes shift)) :
    rowsHold (fun _ _ => True) nr asg k off
      (lcRows nr ((limbCoeffsAux shift sizes).map (fun (n : Nat) => (n : F))) 0) := by
  induction hn : sizes.length using Nat.strongRecOn generalizing sizes shift off with
  | _ n ih =>
    unfold decompRows at h
    unfold lcRows
    simp only [List.length_map, limbCoeffsAux_length]
    by_cases hle : sizes.length ≤ nr ∨ nr = 0
    · simp only [hle, if_true] at h ⊢
      simp only [rowsHold] at h ⊢
      refine ⟨?_, ?_, ?_, trivial⟩
      · rw [← List.map_take, ← limbCoeffsAux_take]; exact h.1
      · simp [Row.lookupsHold, lcRow]
      · simp [Row.fixedHold, lcRow]
    · simp only [hle, if_false] at h ⊢
      simp only [rowsHold] at h ⊢
      obtain ⟨hg, _, _, hrest⟩ := h
      refine ⟨?_, ?_, ?_, ?_⟩
      · rw [← List.map_take, ← limbCoeffsAux_take]; exact hg
      · simp [Row.lookupsHold, lcRow]
      · simp [Row.fixedHold, lcRow]
      · have hlen : (sizes.drop nr).length < n := by simp only [List.length_drop]; omega
        have := ih _ hlen (sizes.drop nr) (shift + (sizes.take nr).sum) (off + 1) hrest rfl
        rw [limbCoeffsAux_drop] at this
        rw [← List.map_drop]; exact this

theorem decompRows_ranges_aux (hR : RangeSound R) (asg : Cell → F) (nr k : Nat) (h0 : 0 < nr) :
    ∀ (n : Nat) (sizes : List Nat) (shift off : Nat), sizes.length = n → sizesOK nr sizes →
      rowsHold R nr asg k off (decompRows nr sizes shift) →
      ∀ j (hj : j < sizes.length), sizes[j] ≠ 0 →
        ∃ m : Nat, m < 2 ^ sizes[j] ∧ asg (lcLimb nr k off j) = (m : F) := by
  intro n
  induction n using Nat.strongRecOn with
  | _ n ih =>
    intro sizes shift off hn hok h j hj hne
    have hchunkOK := sizesOK_head nr sizes hok
    -- the lookups of the first row
    have hfirst : ∀ (row : Row F), row.tag = (sizes.take nr).head? →
        row.lookupsHold R nr asg k off → j < nr →
        ∃ m : Nat, m < 2 ^ sizes[j] ∧ asg (lcLimb nr k off j) = (m : F) := by
      intro row htag hl hjn
      have hjt : j < (sizes.take nr).length := by simp only [List.length_take]; omega
      have hget : (sizes.take nr)[j] = sizes[j] := by simp
      have hmem : sizes[j] ∈ sizes.take nr := by rw [← hget]; exact List.getElem_mem hjt
      rcases hchunkOK _ hmem with hz | hh
      · exact absurd hz hne
      · simp only [Row.lookupsHold, htag, hh] at hl
        have := hR _ _ (hl (j + 1) (by omega) (by omega))
        simpa [lcLimb, advc, Nat.div_eq_of_lt hjn, Nat.mod_eq_of_lt hjn] using this
    unfold decompRows at h
    by_cases hle : sizes.length ≤ nr ∨ nr = 0
    · simp only [hle, if_true, rowsHold] at h
      exact hfirst _ rfl h.2.1 (by omega)
    · simp only [hle, if_false, rowsHold] at h
      obtain ⟨_, hl, _, hrest⟩ := h
      by_cases hjn : j < nr
      · exact hfirst _ rfl hl hjn
      · have hlen : (sizes.drop nr).length < n := by simp only [List.length_drop]; omega
        have hj' : j - nr < (sizes.drop nr).length := by simp only [List.length_drop]; omega
        have hget : (sizes.drop nr)[j - nr] = sizes[j] := by
          simp only [List.getElem_drop]; congr 1; omega
        have := ih _ hlen (sizes.drop nr) (shift + (sizes.take nr).sum) (off + 1) rfl
          (sizesOK_drop nr sizes hok) hrest (j - nr) hj' (by rw [hget]; exact hne)
        rw [hget, ← lcLimb_shift nr k off (j - nr) h0, show j - nr + nr = j by omega] at this
        exact this

/-- Every non-zero-sized limb cell of `decompose_core` is range-checked with its size. -/
theorem decompRows_ranges (hR : RangeSound R) (asg : Cell → F) (nr k : Nat) (h0 : 0 < nr)
    (sizes : List Nat) (shift off : Nat) (hok : sizesOK nr sizes)
    (h : rowsHold R nr asg k off (decompRows nr sizes shift)) :
    ∀ j (hj : j < sizes.length), sizes[j] ≠ 0 →
      ∃ m : Nat, m < 2 ^ sizes[j] ∧ asg (lcLimb nr k off j) = (m : F) :=
  decompRows_ranges_aux hR asg nr k h0 _ sizes shift off rfl hok h

theorem limbPairs_mem (nr k off : Nat) (sizes : List Nat) (j0 : Nat) (p : Nat × Cell)
    (hp : p ∈ limbPairs nr k off sizes j0) :
    ∃ j, ∃ (hj : j < sizes.length), p = (sizes[j], lcLimb nr k off (j0 + j)) := by
  induction sizes generalizing j0 with
  | nil => simp [limbPairs] at hp
  | cons sz rest ih =>
    simp only [limbPairs, List.mem_cons] at hp
    rcases hp with rfl | hp
    · exact ⟨0, by simp, by simp⟩
    · obtain ⟨j, hj, e⟩ := ih (j0 + 1) hp
      exact ⟨j + 1, by simp; omega, by simp [e]; congr 1; omega⟩

theorem limbPairs_eq_zipIdx (nr k off : Nat) (sizes : List Nat) (j0 : Nat) :
    limbPairs nr k off sizes j0 = (sizes.zipIdx j0).map (fun p => (p.1, lcLimb nr k off p.2)) := by
  induction sizes generalizing j0 with
  | nil => rfl
  | cons sz rest ih => simp [limbPairs, List.zipIdx_cons, ih]

/-- The limb cells handed out by `decompose_core` (the non-zero-sized ones, in order). -/
theorem decomposeCore_limbs (s : St F) (sizes : List Nat) :
    (decomposeCore s sizes).1.2
      = ((limbPairs s.nrCols s.regions.length 0 sizes 0).filter (fun p => p.1 ≠ 0)).map (·.2) := by
  simp only [decomposeCore, addRegion_snd, limbPairs_eq_zipIdx, List.filter_map, List.map_map]
  rfl

/-- **`decompose_core`, limb level**: for every accepted assignment there are natural numbers
`vs`, one per non-zero-sized limb, each below `2^size`, such that the limb cells hold them and
the recomposed cell holds their little-endian recomposition. -/
theorem decomposeCore_limbs_sound (hR : RangeSound R) (s : St F) (sizes : List Nat) (asg : Cell → F)
    (h0 : 0 < s.nrCols) (h4 : s.nrCols ≤ 4) (hok : sizesOK s.nrCols sizes) (hc : s.CacheOK asg)
    (h : (decomposeCore s sizes).2.Holds R asg) :
    (decomposeCore s sizes).2.CacheOK asg ∧
    ∃ vs : List Nat, LimbVals (sizes.filter (· ≠ 0)) vs ∧
      CellsHold asg (decomposeCore s sizes).1.2 vs ∧
      asg (decomposeCore s sizes).1.1 = ((recomp (sizes.filter (· ≠ 0)) vs : Nat) : F) := by
  have hcache := (decomposeCore_sound hR s sizes asg h0 h4 hok hc h).1
  refine ⟨hcache, ?_⟩
  rw [decomposeCore_limbs]
  simp only [decomposeCore, addRegion_fst_regions, addRegion_snd] at h ⊢
  obtain ⟨a, _, _, _⟩ := foldl_queryTag (R := R)
    ((decompRows s.nrCols sizes 0 : List (Row F)).filterMap (·.tag))
    ({ s with regions := decompRows s.nrCols sizes 0 :: s.regions } : St F) asg
  rw [a, holds_addRegion] at h
  have hrows := h.1
  have hg := lcRows_sound asg s.nrCols s.regions.length s.nrCols h0 h4 _ 0 0
    (decompRows_gates asg s.nrCols s.regions.length sizes 0 0 hrows)
  have hr := decompRows_ranges hR asg s.nrCols s.regions.length h0 sizes 0 0 hok hrows
  rw [lcSum_limbCoeffs, ← limbSumF_filter] at hg
  obtain ⟨vs, h1, h2, h3⟩ := limbSumF_nat asg
    ((limbPairs s.nrCols s.regions.length 0 sizes 0).filter (fun p => p.1 ≠ 0)) 0
    (by
      intro p hp
      simp only [List.mem_filter] at hp
      obtain ⟨j, hj, e⟩ := limbPairs_mem _ _ _ _ _ _ hp.1
      subst e
      simp only [Nat.zero_add]
      exact hr j hj (by simpa using hp.2))
    (by intro p hp; simp only [List.mem_filter] at hp; simpa using hp.2)
  have hsz : ((limbPairs s.nrCols s.regions.length 0 sizes 0).filter (fun p => p.1 ≠ 0)).map (·.1)
      = sizes.filter (· ≠ 0) := by
    rw [limbPairs_eq_zipIdx, List.filter_map, List.map_map]
    have : ∀ (l : List Nat) (j0 : Nat),
        ((l.zipIdx j0).filter ((fun p : Nat × Cell => decide (p.1 ≠ 0)) ∘
            fun p => (p.1, lcLimb s.nrCols s.regions.length 0 p.2))).map
          ((fun p : Nat × Cell => p.1) ∘ fun p => (p.1, lcLimb s.nrCols s.regions.length 0 p.2))
          = l.filter (· ≠ 0) := by
      intro l
      induction l with
      | nil => intro _; rfl
      | cons a t ih =>
        intro j0
        by_cases ha : a = 0
        · simp [List.zipIdx_cons, List.filter_cons, ha]
          simpa using ih (j0 + 1)
        · simp [List.zipIdx_cons, List.filter_cons, ha]
          simpa using ih (j0 + 1)
    exact this sizes 0
  rw [hsz] at h1 h3
  refine ⟨vs, h1, h2, ?_⟩
  rw [hg, h3]
  simp
  grind

end MidnightZK.C04
