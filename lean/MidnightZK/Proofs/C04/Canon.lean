import MidnightZK.Proofs.C04.Decompose
/-! Canonicity tests on bit strings: `le_bits_geq_than`, `le_bits_lower_than`, `is_canonical`. -/
namespace MidnightZK.C04
open Lean.Grind
attribute [local instance] Semiring.natCast
set_option linter.unusedSectionVars false
set_option linter.unusedSimpArgs false
set_option linter.unusedVariables false

variable {F : Type} [Field F] [DecidableEq F]
variable {R : Nat → F → Prop}

theorem CellsHold.length : ∀ {asg : Cell → F} {cs : List Cell} {vs : List Nat},
    CellsHold asg cs vs → cs.length = vs.length
  | _, [], [], _ => rfl
  | _, _ :: _, _ :: _, h => by simp [CellsHold.length h.2]
  | _, [], _ :: _, h => h.elim
  | _, _ :: _, [], h => h.elim

theorem CellsHold.take : ∀ {asg : Cell → F} {cs : List Cell} {vs : List Nat} (k : Nat),
    CellsHold asg cs vs → CellsHold asg (cs.take k) (vs.take k)
  | _, [], [], _, _ => by simp [CellsHold]
  | _, _ :: _, _ :: _, 0, _ => by simp [CellsHold]
  | _, _ :: _, _ :: _, k + 1, h => by
    simp only [List.take_succ_cons, CellsHold]; exact ⟨h.1, CellsHold.take k h.2⟩
  | _, [], _ :: _, _, h => h.elim
  | _, _ :: _, [], _, h => h.elim

theorem CellsHold.getD : ∀ {asg : Cell → F} {cs : List Cell} {vs : List Nat} (i : Nat) (d : Cell),
    CellsHold asg cs vs → i < cs.length → asg (cs.getD i d) = ((vs.getD i 0 : Nat) : F)
  | _, [], [], _, _, _, hi => by simp at hi
  | _, _ :: _, _ :: _, 0, _, h, _ => by simpa using h.1
  | _, _ :: _, _ :: _, i + 1, d, h, hi => by
    simp only [List.getD_cons_succ]
    exact CellsHold.getD i d h.2 (by simpa using hi)
  | _, [], _ :: _, _, _, h, _ => h.elim
  | _, _ :: _, [], _, _, h, _ => h.elim

theorem fromLimbs_append (b : Nat) (a c : List Nat) :
    fromLimbs b (a ++ c) = fromLimbs b a + b ^ a.length * fromLimbs b c := by
  induction a with
  | nil => simp [fromLimbs]
  | cons x xs ih =>
    simp only [List.cons_append, fromLimbs, ih, List.length_cons, Nat.pow_succ]
    rw [Nat.mul_add, Nat.add_assoc]
    congr 1
    rw [← Nat.mul_assoc, Nat.mul_comm b (b ^ xs.length)]

/-- A list of length `n+1` split at its last element. -/
theorem split_last (vs : List Nat) (n : Nat) (h : vs.length = n + 1) :
    vs = vs.take n ++ [vs.getD n 0] := by
  have h1 : vs = vs.take n ++ vs.drop n := (List.take_append_drop n vs).symm
  have h2 : vs.drop n = [vs.getD n 0] := by
    have hl : (vs.drop n).length = 1 := by simp [h]
    match hd : vs.drop n, hl with
    | [x], _ =>
      have e : vs[n]? = some x := by
        have := List.getElem?_drop (xs := vs) (i := n) (j := 0)
        rw [hd] at this; simpa using this.symm
      have : vs.getD n 0 = x := by rw [List.getD_eq_getElem?_getD, e]; rfl
      rw [this]
  rw [h2] at h1; exact h1

theorem bit_cast_cases (v : Nat) (h : v < 2) : ((v : Nat) : F) = 0 ∨ ((v : Nat) : F) = 1 := by
  have : v = 0 ∨ v = 1 := by omega
  rcases this with rfl | rfl
  · exact Or.inl natCast_zero'
  · exact Or.inr natCast_one'

/-- Decision values as field elements. -/
def bF (b : Bool) : F := if b then 1 else 0

/-- **`le_bits_geq_than`** (hence `le_bits_lower_than`, `is_canonical`): for bit cells holding
`bs` the output is `[Σ 2^i·bs[i] ≥ bound]`, for EVERY number of bits and EVERY bound (induction
over the recursion on the most significant bit, including the shortcuts for `bound = 0` and
bounds longer than the bit string). -/
theorem leBitsGeqThan_sound : ∀ (n : Nat) (s : St F) (bits : List Cell) (bound : Nat) (bs : List Nat)
    (asg : Cell → F), bits.length = n → CellsHold asg bits bs → (∀ b ∈ bs, b < 2) → s.CacheOK asg →
    s.Ext (leBitsGeqThan s bits bound).2 ∧ (leBitsGeqThan s bits bound).2.bounds = s.bounds ∧
    ((leBitsGeqThan s bits bound).2.Holds R asg →
      (leBitsGeqThan s bits bound).2.CacheOK asg ∧
      asg (leBitsGeqThan s bits bound).1 = bF (decide (bound ≤ fromLimbs 2 bs))) := by
  intro n
  induction n using Nat.strongRecOn with
  | _ n ih =>
    intro s bits bound bs asg hn hcells hbits hc
    have hlen := hcells.length
    rw [leBitsGeqThan]
    by_cases hb0 : bound = 0
    · simp only [hb0, if_true]
      refine ⟨assignFixed_ext s 1, assignFixed_bounds s 1, fun h => ?_⟩
      obtain ⟨_, c1, r1⟩ := assignFixed_sound s 1 asg hc h
      exact ⟨c1, by rw [r1]; simp [bF]⟩
    · simp only [hb0, if_false]
      have hlog : bound < 2 ^ (bound.log2 + 1) := Nat.lt_log2_self
      have hlog' : 2 ^ bound.log2 ≤ bound := Nat.log2_self_le hb0
      have hV : fromLimbs 2 bs < 2 ^ bs.length := fromLimbs_lt 2 (by omega) bs hbits
      by_cases hshort : bits.length < bound.log2 + 1
      · simp only [hshort, if_true]
        refine ⟨assignFixed_ext s 0, assignFixed_bounds s 0, fun h => ?_⟩
        obtain ⟨_, c1, r1⟩ := assignFixed_sound s 0 asg hc h
        refine ⟨c1, ?_⟩
        have : 2 ^ bs.length ≤ 2 ^ bound.log2 := Nat.pow_le_pow_right (by omega) (by omega)
        have hlt : ¬ bound ≤ fromLimbs 2 bs := by omega
        rw [r1]; simp [bF, hlt]
      · simp only [hshort, if_false]
        split
        · next h0 => omega
        · next h1 =>
          -- one bit, bound = 1
          refine ⟨St.Ext.refl s, rfl, fun h => ⟨hc, ?_⟩⟩
          have hbound : bound = 1 := by
            have : bound.log2 = 0 := by omega
            rw [this] at hlog; omega
          have hbs : ∃ b, bs = [b] := by
            match bs, hlen with
            | [b], _ => exact ⟨b, rfl⟩
            | [], h => simp [h1] at h
            | _ :: _ :: _, h => simp [h1] at h
          obtain ⟨b, rfl⟩ := hbs
          · rw [CellsHold.getD 0 _ hcells (by omega)]
            simp only [List.getD_cons_zero, fromLimbs, Nat.mul_zero, Nat.add_zero, hbound]
            have hb := hbits b (by simp)
            have : b = 0 ∨ b = 1 := by omega
            rcases this with rfl | rfl
            · simp [bF]; exact natCast_zero'
            · simp [bF]; exact natCast_one'
        · next m hm =>
          -- recursion on the most significant bit
          have hsmall : bound / 2 ^ (m + 1 + 1) = 0 := by
            apply Nat.div_eq_of_lt
            have : 2 ^ (bound.log2 + 1) ≤ 2 ^ (m + 1 + 1) := Nat.pow_le_pow_right (by omega) (by omega)
            omega
          simp only [hsmall, Nat.zero_mul, Nat.add_zero]
          have hrec := ih (m + 1) (by omega) s (bits.take (m + 1)) (bound % 2 ^ (m + 1)) (bs.take (m + 1)) asg
            (by simp; omega) (hcells.take (m + 1)) (fun b hb => hbits b (List.mem_of_mem_take hb)) hc
          obtain ⟨e1, b1, hs1⟩ := hrec
          have hsplit := split_last bs (m + 1) (by omega)
          have hmsb : asg (bits.getD (m + 1) (advc 0 0 0)) = ((bs.getD (m + 1) 0 : Nat) : F) :=
            CellsHold.getD (m + 1) _ hcells (by omega)
          have hmlt : bs.getD (m + 1) 0 < 2 := by
            apply hbits
            rw [List.getD_eq_getElem?_getD, List.getElem?_eq_getElem (h := by omega)]
            exact List.getElem_mem _
          have hVsplit : fromLimbs 2 bs = fromLimbs 2 (bs.take (m + 1)) + 2 ^ (m + 1) * bs.getD (m + 1) 0 := by
            have hTlen : (bs.take (m + 1)).length = m + 1 := by rw [List.length_take]; omega
            have := congrArg (fromLimbs 2) hsplit
            rw [fromLimbs_append, hTlen] at this
            rw [this]; simp only [fromLimbs, Nat.mul_zero, Nat.add_zero]
          have hV' : fromLimbs 2 (bs.take (m + 1)) < 2 ^ (m + 1) := by
            have := fromLimbs_lt 2 (by omega) (bs.take (m + 1)) (fun b hb => hbits b (List.mem_of_mem_take hb))
            simpa [show min (m + 1) bs.length = m + 1 by omega] using this
          have hBsplit := Nat.div_add_mod bound (2 ^ (m + 1))
          have hBlt : bound % 2 ^ (m + 1) < 2 ^ (m + 1) := Nat.mod_lt _ (Nat.pow_pos (by omega))
          have hBq : bound / 2 ^ (m + 1) < 2 := by
            apply Nat.div_lt_of_lt_mul
            have : 2 ^ (bound.log2 + 1) ≤ 2 ^ (m + 1 + 1) := Nat.pow_le_pow_right (by omega) (by omega)
            rw [Nat.pow_succ] at this; omega
          generalize hBq' : bound / 2 ^ (m + 1) = q at hBsplit hBq
          generalize hV0 : fromLimbs 2 (bs.take (m + 1)) = V' at hVsplit hV' hs1
          generalize hB0 : bound % 2 ^ (m + 1) = B' at hBsplit hBlt hs1 e1 b1
          generalize hM : bs.getD (m + 1) 0 = mb at hVsplit hmsb hmlt
          generalize hP : 2 ^ (m + 1) = P at hVsplit hV' hBsplit hBlt
          have hq : q = 0 ∨ q = 1 := by omega
          have hm' : mb = 0 ∨ mb = 1 := by omega
          by_cases hodd : q % 2 = 1
          · simp only [hodd, if_true]
            refine ⟨e1.trans (and_ext ..), by rw [and_bounds, b1], fun h => ?_⟩
            have h1 := (and_ext ..).holds asg h
            obtain ⟨c1, r1⟩ := hs1 h1
            obtain ⟨c2, r2⟩ := and_sound _ _ _ asg c1 h
            refine ⟨c2, ?_⟩
            simp only [List.map_cons, List.map_nil, List.foldl_cons, List.foldl_nil] at r2
            rw [r2, r1, hmsb]
            have hq1 : q = 1 := by omega
            subst hq1
            rcases hm' with rfl | rfl
            · have : ¬ bound ≤ fromLimbs 2 bs := by rw [hVsplit, ← hBsplit]; simp; omega
              simp [bF, this, natCast_zero']; grind
            · by_cases hge : B' ≤ V'
              · have : bound ≤ fromLimbs 2 bs := by rw [hVsplit, ← hBsplit]; simp; omega
                simp [bF, this, hge, natCast_one']; grind
              · have : ¬ bound ≤ fromLimbs 2 bs := by rw [hVsplit, ← hBsplit]; simp; omega
                simp [bF, this, hge, natCast_one']; grind
          · simp only [hodd, if_false]
            refine ⟨e1.trans (or_ext ..), by rw [or_bounds, b1], fun h => ?_⟩
            have h1 := (or_ext ..).holds asg h
            obtain ⟨c1, r1⟩ := hs1 h1
            obtain ⟨c2, r2⟩ := or_sound _ _ _ asg c1 h
            refine ⟨c2, ?_⟩
            simp only [List.map_cons, List.map_nil, List.foldl_cons, List.foldl_nil] at r2
            rw [r2, r1, hmsb]
            have hq0 : q = 0 := by omega
            subst hq0
            rcases hm' with rfl | rfl
            · by_cases hge : B' ≤ V'
              · have : bound ≤ fromLimbs 2 bs := by rw [hVsplit, ← hBsplit]; simp; omega
                simp [bF, this, hge, natCast_zero']; grind
              · have : ¬ bound ≤ fromLimbs 2 bs := by rw [hVsplit, ← hBsplit]; simp; omega
                simp [bF, this, hge, natCast_zero']; grind
            · have : bound ≤ fromLimbs 2 bs := by rw [hVsplit, ← hBsplit]; simp; omega
              by_cases hge : B' ≤ V'
              · simp [bF, this, hge, natCast_one']; grind
              · simp [bF, this, hge, natCast_one']; grind

/-- `le_bits_lower_than`: the negation. -/
theorem leBitsLowerThan_sound (s : St F) (bits : List Cell) (bound : Nat) (bs : List Nat)
    (asg : Cell → F) (hcells : CellsHold asg bits bs) (hbits : ∀ b ∈ bs, b < 2) (hc : s.CacheOK asg)
    (h : (leBitsLowerThan s bits bound).2.Holds R asg) :
    (leBitsLowerThan s bits bound).2.CacheOK asg ∧
    asg (leBitsLowerThan s bits bound).1 = bF (decide (fromLimbs 2 bs < bound)) := by
  simp only [leBitsLowerThan] at h ⊢
  obtain ⟨_, _, hs⟩ := leBitsGeqThan_sound (R := R) bits.length s bits bound bs asg rfl hcells hbits hc
  have h1 := (not_ext ..).holds asg h
  obtain ⟨c1, r1⟩ := hs h1
  obtain ⟨c2, r2⟩ := not_sound _ _ asg c1 h
  refine ⟨c2, ?_⟩
  rw [r2, r1]
  by_cases hge : bound ≤ fromLimbs 2 bs
  · have : ¬ fromLimbs 2 bs < bound := by omega
    simp [bF, hge, this]; grind
  · have : fromLimbs 2 bs < bound := by omega
    simp [bF, hge, this]; grind

end MidnightZK.C04
