import MidnightZK.Proofs.C04.Invariant
/-! `div_rem` with a declared dividend bound at circuit level, `bnot`, the byte-typed equality
tests and assertions. -/
namespace MidnightZK.C04
open Lean.Grind
attribute [local instance] Semiring.natCast
set_option linter.unusedSectionVars false
set_option linter.unusedSimpArgs false
set_option linter.unusedVariables false

variable {F : Type} [Field F] [DecidableEq F]
variable {R : Nat → F → Prop}

/-- **`div_rem` / `rem` with a declared dividend bound, circuit level** (division.rs): for a
dividend cell holding `n ≤ B` with `B + d ≤ p`, EVERY accepted assignment of the quotient and
remainder cells has `q = n / d`, `r = n mod d` (`d ≠ 1`: for `d = 1` the code returns the dividend
and the constant 0). -/
theorem divRem_bounded_sound (hR : RangeSound R) (p : Nat)
    (hinj : ∀ a b : Nat, a < p → b < p → ((a : Nat) : F) = ((b : Nat) : F) → a = b)
    (s : St F) (x : Cell) (d B pm1 n : Nat) (asg : Cell → F)
    (hd : 1 < d) (hBd : B + d ≤ p) (hn : n ≤ B) (hx : asg x = (n : F))
    (h0 : 0 < s.nrCols) (h4 : s.nrCols ≤ 4) (hm : 0 < s.maxBitLen)
    (hc : s.CacheOK asg) (hB : s.BoundsOK asg) (h : (divRem s x d (some B) pm1).2.Holds R asg) :
    asg (divRem s x d (some B) pm1).1.1 = ((n / d : Nat) : F) ∧
    asg (divRem s x d (some B) pm1).1.2 = ((n % d : Nat) : F) := by
  have h1 : d ≠ 1 := by omega
  unfold divRem at h ⊢
  simp only [h1, if_false, Option.getD_some] at h ⊢
  have e1 := assignLowerThanFixed_ext s d
  have e2 := assignLowerThanFixed_ext (assignLowerThanFixed s d).2 (B / d + 1)
  have h4' := (gAssertEqual_ext ..).holds asg h
  have h3 := (linearCombination_ext ..).holds asg h4'
  have h2 := e2.holds asg h3
  obtain ⟨c1, B1, ⟨rv, hrv, hr⟩⟩ := assignLowerThanFixed_sound hR s d asg (by omega) h0 h4
    (optOK_all s _ h0 hm) hc hB h2
  obtain ⟨c2, B2, ⟨qv, hqv, hq⟩⟩ := assignLowerThanFixed_sound hR _ (B / d + 1) asg (Nat.succ_pos _)
    (by rw [e1.1]; exact h0) (by rw [e1.1]; exact h4)
    (optOK_all _ _ (by rw [e1.1]; exact h0) (by rw [e1.2.1]; exact hm)) c1 B1 h3
  obtain ⟨_, c3, r3⟩ := linearCombination_sound _ _ _ asg c2 h4'
  have B3 := boundsOK_hint h4' (linearCombination_bounds ..) B2
  obtain ⟨_, _, r4⟩ := gAssertEqual_sound _ _ _ asg c3 B3 h
  -- the field equation, as an equation between natural numbers below p
  have hsum : ((n : Nat) : F) = ((d * qv + rv : Nat) : F) := by
    rw [← hx, r4, r3]
    simp only [termSum, hq, hr]
    rw [natCast_add', natCast_mul']; grind
  have hqd : d * qv ≤ B := by
    have : qv ≤ B / d := by omega
    calc d * qv ≤ d * (B / d) := Nat.mul_le_mul_left _ this
      _ ≤ B := Nat.mul_div_le B d
  have hnat : n = d * qv + rv := hinj _ _ (by omega) (by omega) hsum
  have hdiv : n / d = qv := by
    rw [hnat, Nat.mul_add_div (by omega), Nat.div_eq_of_lt hrv]; omega
  have hmod : n % d = rv := by
    rw [hnat, Nat.mul_add_mod, Nat.mod_eq_of_lt hrv]
  exact ⟨by rw [hdiv]; exact hq, by rw [hmod]; exact hr⟩

/-- **`bnot`** (bitwise.rs): `x` is a natural number below `2^n` (a larger value makes the circuit
unsatisfiable) and the output is `2^n − 1 − x`. -/
theorem bnot_sound (hR : RangeSound R) (s : St F) (x : Cell) (n : Nat) (asg : Cell → F)
    (h0 : 0 < s.nrCols) (h4 : s.nrCols ≤ 4) (hm : 0 < s.maxBitLen)
    (hc : s.CacheOK asg) (hB : s.BoundsOK asg) (h : (bnot s x n).2.Holds R asg) :
    IsNatLt asg x (2 ^ n) ∧ asg (bnot s x n).1 = ((2 ^ n : Nat) : F) - 1 - asg x := by
  obtain ⟨_, _, r1⟩ := bnot_inv hR s x n asg h0 h4 hm hc hB h
  refine ⟨r1, ?_⟩
  simp only [bnot] at h ⊢
  have h1 := (linearCombination_ext ..).holds asg h
  obtain ⟨c1, _, _⟩ := assertLowerThanFixed_sound hR s x (2 ^ n) asg (pow2_pos n) h0 h4
    (optOK_all s _ h0 hm) hc hB h1
  obtain ⟨_, _, r2⟩ := linearCombination_sound _ _ _ asg c1 h
  rw [r2]; simp [termSum]; grind

/-- **Byte-typed equality tests** (`is_equal`, `is_not_equal`, `is_equal_to_fixed`,
`is_not_equal_to_fixed` on `AssignedByte`): the bit `[x = y]` etc., for operands that hold bytes
(their type invariant); the bound 256 recorded for the operands keeps the cache invariant. -/
theorem byteIsEqual_sound (s : St F) (x y : Cell) (asg : Cell → F) (hx : IsNatLt asg x 256)
    (hy : IsNatLt asg y 256) (hc : s.CacheOK asg) (hB : s.BoundsOK asg)
    (h : (byteIsEqual s x y).2.Holds R asg) :
    (byteIsEqual s x y).2.CacheOK asg ∧ (byteIsEqual s x y).2.BoundsOK asg ∧
    ((asg x = asg y ∧ asg (byteIsEqual s x y).1 = 1) ∨ (asg x ≠ asg y ∧ asg (byteIsEqual s x y).1 = 0)) := by
  simp only [byteIsEqual, convertByteToNative] at h ⊢
  have h1 := typeBound_inv s x 256 asg hx hc hB
  have h2 := typeBound_inv _ y 256 asg hy h1.1 h1.2
  obtain ⟨c, r⟩ := isEqual_sound _ x y asg h2.1 h
  exact ⟨c, boundsOK_of_bounds_eq asg (isEqual_bounds ..) h2.2, r⟩

theorem byteAssertEqual_sound (s : St F) (x y : Cell) (asg : Cell → F) (hx : IsNatLt asg x 256)
    (hy : IsNatLt asg y 256) (hc : s.CacheOK asg) (hB : s.BoundsOK asg)
    (h : (byteAssertEqual s x y).Holds R asg) :
    (byteAssertEqual s x y).CacheOK asg ∧ (byteAssertEqual s x y).BoundsOK asg ∧ asg x = asg y := by
  simp only [byteAssertEqual, convertByteToNative] at h ⊢
  have h1 := typeBound_inv s x 256 asg hx hc hB
  have h2 := typeBound_inv _ y 256 asg hy h1.1 h1.2
  exact gAssertEqual_sound _ x y asg h2.1 h2.2 h

end MidnightZK.C04
