import MidnightZK.Proofs.C04.Canon
/-! Comparisons of bounded values (`lower_than_fixed`, `leq`, `geq`, `greater_than` and the
`_fixed` variants), conversions native → bit / byte, recomposition from bits / bytes. -/
namespace MidnightZK.C04
open Lean.Grind
attribute [local instance] Semiring.natCast
set_option linter.unusedSectionVars false
set_option linter.unusedSimpArgs false
set_option linter.unusedVariables false

variable {F : Type} [Field F] [DecidableEq F]
variable {R : Nat → F → Prop}

theorem isNatLt_bit {asg : Cell → F} {b : Cell} (h : asg b = 0 ∨ asg b = 1) : IsNatLt asg b 2 := by
  rcases h with h | h
  · exact ⟨0, by omega, by rw [h, natCast_zero']⟩
  · exact ⟨1, by omega, by rw [h, natCast_one']⟩

/-- `lower_than` with the invariants of the new state (see `lowerThan_sound`). -/
theorem lowerThan_sound' (hR : RangeSound R) (p : Nat)
    (hinj : ∀ a b : Nat, a < p → b < p → ((a : Nat) : F) = ((b : Nat) : F) → a = b)
    (s : St F) (x : Cell) (bx : Nat) (y : Cell) (by_ : Nat) (asg : Cell → F)
    (nx ny : Nat) (hx : asg x = (nx : F)) (hnx : nx < 2 ^ bx) (hy : asg y = (ny : F))
    (hny : ny < 2 ^ by_) (hm : 2 * 2 ^ (max bx by_) ≤ p)
    (h0 : 0 < s.nrCols) (h4 : s.nrCols ≤ 4) (hopt : OptOK s (max bx by_))
    (hc : s.CacheOK asg) (hB : s.BoundsOK asg) (h : (lowerThan s x bx y by_).2.Holds R asg) :
    (lowerThan s x bx y by_).2.CacheOK asg ∧ (lowerThan s x bx y by_).2.BoundsOK asg ∧
    asg (lowerThan s x bx y by_).1 = bF (decide (nx < ny)) := by
  have hval := lowerThan_sound hR p hinj s x bx y by_ asg nx ny hx hnx hy hny hm h0 h4 hopt hc h
  simp only [lowerThan] at h hval ⊢
  have e1 := assignBit_ext s
  have e2 := updateBound_ext (assignBit s).2 (assignBit s).1 2
  have h5 := (assertLessThanPow2_ext _ _ _).holds asg h
  have h4' := (linearCombination_ext ..).holds asg h5
  have h3 := (mul_ext ..).holds asg h4'
  have h2 := (mul_ext ..).holds asg h3
  have h1 := (updateBound_holds _ _ _ asg).mp h2
  obtain ⟨c1, rb⟩ := assignBit_sound s asg hc h1
  have c2 := (updateBound_cache (assignBit s).2 (assignBit s).1 2 asg).mpr c1
  obtain ⟨c3, _⟩ := mul_sound _ x _ none asg c2 h3
  obtain ⟨c4, _⟩ := mul_sound _ y _ none asg c3 h4'
  obtain ⟨_, c5, _⟩ := linearCombination_sound _ _ _ asg c4 h5
  have eall := ext_hint h5 (e1.trans (e2.trans ((mul_ext ..).trans ((mul_ext ..).trans (linearCombination_ext ..)))))
  obtain ⟨c6, _⟩ := assertLessThanPow2_sound hR _ _ (max bx by_) asg (by rw [eall.1]; exact h0)
    (by rw [eall.1]; exact h4) (OptOK_ext eall _ hopt).1 (OptOK_ext eall _ hopt).2 c5 h
  have B1 : ((assignBit s).2.updateBound (assignBit s).1 2).BoundsOK asg :=
    updateBound_boundsOK _ asg (boundsOK_of_bounds_eq asg (assignBit_bounds s) hB) _ 2 (isNatLt_bit rb)
  refine ⟨c6, ?_, ?_⟩
  · apply boundsOK_of_bounds_eq asg _ B1
    rw [assertLessThanPow2_bounds, linearCombination_bounds, mul_bounds, mul_bounds]
  · rw [hval]; by_cases hlt : nx < ny <;> simp [bF, hlt]

theorem lowerThanFixed_ext (s : St F) (x : Cell) (bx y : Nat) : s.Ext (lowerThanFixed s x bx y).2 := by
  unfold lowerThanFixed
  split
  · exact assignFixed_ext s 1
  · split
    · exact assignFixed_ext s 1
    · exact (assignBit_ext s).trans ((updateBound_ext _ _ _).trans ((mul_ext ..).trans
        ((linearCombination_ext ..).trans (assertLessThanPow2_ext ..))))

/-- **`lower_than_fixed`**: for a bounded value `x = nx < 2^bx` (with `2^(bx+1) ≤ p`, the
`MAX_BOUND_IN_BITS` condition) and EVERY constant `y < p` the output bit is `[nx < y]` — on the
constraint-emitting path and on both shortcuts (`y ≥ 2^bx`, and a recorded bound `≤ y`). -/
theorem lowerThanFixed_sound (hR : RangeSound R) (p : Nat)
    (hinj : ∀ a b : Nat, a < p → b < p → ((a : Nat) : F) = ((b : Nat) : F) → a = b)
    (s : St F) (x : Cell) (bx y : Nat) (asg : Cell → F)
    (nx : Nat) (hx : asg x = (nx : F)) (hnx : nx < 2 ^ bx) (hy : y < p) (hm : 2 * 2 ^ bx ≤ p)
    (h0 : 0 < s.nrCols) (h4 : s.nrCols ≤ 4) (hopt : OptOK s bx)
    (hc : s.CacheOK asg) (hB : s.BoundsOK asg) (h : (lowerThanFixed s x bx y).2.Holds R asg) :
    (lowerThanFixed s x bx y).2.CacheOK asg ∧ (lowerThanFixed s x bx y).2.BoundsOK asg ∧
    asg (lowerThanFixed s x bx y).1 = bF (decide (nx < y)) := by
  unfold lowerThanFixed at h ⊢
  cases hbl : s.boundLe x y with
  | true =>
    simp only [hbl, if_true] at h ⊢
    obtain ⟨_, c1, r1⟩ := assignFixed_sound s 1 asg hc h
    refine ⟨c1, boundsOK_of_bounds_eq asg (assignFixed_bounds s 1) hB, ?_⟩
    obtain ⟨n, hn, hv⟩ := boundLe_sound s asg hB x y hbl
    have : nx = n := hinj _ _ (by omega) (by omega) (by rw [← hx, hv])
    have hlt : nx < y := by omega
    rw [r1]; simp [bF, hlt]
  | false =>
    simp only [hbl, Bool.false_eq_true, if_false] at h ⊢
    by_cases hge : y ≥ 2 ^ bx
    · simp only [hge, if_true] at h ⊢
      obtain ⟨_, c1, r1⟩ := assignFixed_sound s 1 asg hc h
      refine ⟨c1, boundsOK_of_bounds_eq asg (assignFixed_bounds s 1) hB, ?_⟩
      have hlt : nx < y := by omega
      rw [r1]; simp [bF, hlt]
    · simp only [hge, if_false] at h ⊢
      have e1 := assignBit_ext s
      have e2 := updateBound_ext (assignBit s).2 (assignBit s).1 2
      have h5 := (assertLessThanPow2_ext _ _ _).holds asg h
      have h4' := (linearCombination_ext ..).holds asg h5
      have h3 := (mul_ext ..).holds asg h4'
      have h1 := (updateBound_holds _ _ _ asg).mp h3
      obtain ⟨c1, rb⟩ := assignBit_sound s asg hc h1
      have c2 := (updateBound_cache (assignBit s).2 (assignBit s).1 2 asg).mpr c1
      obtain ⟨c3, r3⟩ := mul_sound _ x _ none asg c2 h4'
      obtain ⟨_, c5, r5⟩ := linearCombination_sound _ _ _ asg c3 h5
      have eall := ext_hint h5 (e1.trans (e2.trans ((mul_ext ..).trans (linearCombination_ext ..))))
      obtain ⟨c6, N, hN, hv⟩ := assertLessThanPow2_sound hR _ _ bx asg (by rw [eall.1]; exact h0)
        (by rw [eall.1]; exact h4) (OptOK_ext eall _ hopt).1 (OptOK_ext eall _ hopt).2 c5 h
      have B1 : ((assignBit s).2.updateBound (assignBit s).1 2).BoundsOK asg :=
        updateBound_boundsOK _ asg (boundsOK_of_bounds_eq asg (assignBit_bounds s) hB) _ 2 (isNatLt_bit rb)
      refine ⟨c6, ?_, ?_⟩
      · apply boundsOK_of_bounds_eq asg _ B1
        rw [assertLessThanPow2_bounds, linearCombination_bounds, mul_bounds]
      · rw [r5] at hv
        simp only [termSum, r3, Option.getD_none, hx] at hv
        rcases rb with rb | rb
        · rw [rb] at hv ⊢
          have : ((nx : Nat) : F) = ((y + N : Nat) : F) := by rw [natCast_add']; grind
          have := hinj nx (y + N) (by omega) (by omega) this
          have hlt : ¬ nx < y := by omega
          simp [bF, hlt]
        · rw [rb] at hv ⊢
          have : ((y : Nat) : F) = ((nx + 1 + N : Nat) : F) := by
            rw [natCast_add', natCast_add', natCast_one']; grind
          have := hinj y (nx + 1 + N) (by omega) (by omega) this
          have hlt : nx < y := by omega
          simp [bF, hlt]

theorem leq_ext (s : St F) (x : Cell) (bx : Nat) (y : Cell) (by_ : Nat) : s.Ext (leq s x bx y by_).2 := by
  simp only [leq]
  exact (lowerThan_ext ..).trans ((isEqual_ext ..).trans (or_ext ..))

/-- **`leq`**, **`geq`**, **`greater_than`** on bounded values: `[x ≤ y]`, `[x ≥ y]`, `[x > y]`. -/
theorem leq_sound (hR : RangeSound R) (p : Nat)
    (hinj : ∀ a b : Nat, a < p → b < p → ((a : Nat) : F) = ((b : Nat) : F) → a = b)
    (s : St F) (x : Cell) (bx : Nat) (y : Cell) (by_ : Nat) (asg : Cell → F)
    (nx ny : Nat) (hx : asg x = (nx : F)) (hnx : nx < 2 ^ bx) (hy : asg y = (ny : F))
    (hny : ny < 2 ^ by_) (hm : 2 * 2 ^ (max bx by_) ≤ p)
    (h0 : 0 < s.nrCols) (h4 : s.nrCols ≤ 4) (hopt : OptOK s (max bx by_))
    (hc : s.CacheOK asg) (hB : s.BoundsOK asg) (h : (leq s x bx y by_).2.Holds R asg) :
    (leq s x bx y by_).2.CacheOK asg ∧ (leq s x bx y by_).2.BoundsOK asg ∧
    asg (leq s x bx y by_).1 = bF (decide (nx ≤ ny)) := by
  simp only [leq] at h ⊢
  have h2 := (or_ext ..).holds asg h
  have h1 := (isEqual_ext ..).holds asg h2
  obtain ⟨c1, B1, r1⟩ := lowerThan_sound' hR p hinj s x bx y by_ asg nx ny hx hnx hy hny hm h0 h4 hopt hc hB h1
  obtain ⟨c2, r2⟩ := isEqual_sound _ x y asg c1 h2
  have B2 := boundsOK_hint h2 (isEqual_bounds ..) B1
  obtain ⟨c3, r3⟩ := or_sound _ _ _ asg c2 h
  refine ⟨c3, boundsOK_hint h (or_bounds ..) B2, ?_⟩
  simp only [List.map_cons, List.map_nil, List.foldl_cons, List.foldl_nil] at r3
  rw [r3, r1]
  have hbx : 2 ^ bx ≤ 2 ^ (max bx by_) := Nat.pow_le_pow_right (by omega) (Nat.le_max_left _ _)
  have hby : 2 ^ by_ ≤ 2 ^ (max bx by_) := Nat.pow_le_pow_right (by omega) (Nat.le_max_right _ _)
  rcases r2 with ⟨a, b⟩ | ⟨a, b⟩
  · have : nx = ny := hinj _ _ (by omega) (by omega) (by rw [← hx, ← hy, a])
    have h1 : ¬ nx < ny := by omega
    have h2 : nx ≤ ny := by omega
    rw [b]; simp [bF, h1, h2]; grind
  · have hne : nx ≠ ny := fun e => a (by rw [hx, hy, e])
    rw [b]
    by_cases hlt : nx < ny
    · have : nx ≤ ny := by omega
      simp [bF, hlt, this]; grind
    · have : ¬ nx ≤ ny := by omega
      simp [bF, hlt, this]; grind

theorem geq_sound (hR : RangeSound R) (p : Nat)
    (hinj : ∀ a b : Nat, a < p → b < p → ((a : Nat) : F) = ((b : Nat) : F) → a = b)
    (s : St F) (x : Cell) (bx : Nat) (y : Cell) (by_ : Nat) (asg : Cell → F)
    (nx ny : Nat) (hx : asg x = (nx : F)) (hnx : nx < 2 ^ bx) (hy : asg y = (ny : F))
    (hny : ny < 2 ^ by_) (hm : 2 * 2 ^ (max bx by_) ≤ p)
    (h0 : 0 < s.nrCols) (h4 : s.nrCols ≤ 4) (hopt : OptOK s (max bx by_))
    (hc : s.CacheOK asg) (hB : s.BoundsOK asg) (h : (geq s x bx y by_).2.Holds R asg) :
    (geq s x bx y by_).2.CacheOK asg ∧ (geq s x bx y by_).2.BoundsOK asg ∧
    asg (geq s x bx y by_).1 = bF (decide (ny ≤ nx)) := by
  simp only [geq] at h ⊢
  have h1 := (not_ext ..).holds asg h
  obtain ⟨c1, B1, r1⟩ := lowerThan_sound' hR p hinj s x bx y by_ asg nx ny hx hnx hy hny hm h0 h4 hopt hc hB h1
  obtain ⟨c2, r2⟩ := not_sound _ _ asg c1 h
  refine ⟨c2, boundsOK_hint h (not_bounds ..) B1, ?_⟩
  rw [r2, r1]
  by_cases hlt : nx < ny
  · have : ¬ ny ≤ nx := by omega
    simp [bF, hlt, this]; grind
  · have : ny ≤ nx := by omega
    simp [bF, hlt, this]; grind

theorem greaterThan_sound (hR : RangeSound R) (p : Nat)
    (hinj : ∀ a b : Nat, a < p → b < p → ((a : Nat) : F) = ((b : Nat) : F) → a = b)
    (s : St F) (x : Cell) (bx : Nat) (y : Cell) (by_ : Nat) (asg : Cell → F)
    (nx ny : Nat) (hx : asg x = (nx : F)) (hnx : nx < 2 ^ bx) (hy : asg y = (ny : F))
    (hny : ny < 2 ^ by_) (hm : 2 * 2 ^ (max bx by_) ≤ p)
    (h0 : 0 < s.nrCols) (h4 : s.nrCols ≤ 4) (hopt : OptOK s (max bx by_))
    (hc : s.CacheOK asg) (hB : s.BoundsOK asg) (h : (greaterThan s x bx y by_).2.Holds R asg) :
    (greaterThan s x bx y by_).2.CacheOK asg ∧ (greaterThan s x bx y by_).2.BoundsOK asg ∧
    asg (greaterThan s x bx y by_).1 = bF (decide (ny < nx)) := by
  simp only [greaterThan] at h ⊢
  have h1 := (not_ext ..).holds asg h
  obtain ⟨c1, B1, r1⟩ := leq_sound hR p hinj s x bx y by_ asg nx ny hx hnx hy hny hm h0 h4 hopt hc hB h1
  obtain ⟨c2, r2⟩ := not_sound _ _ asg c1 h
  refine ⟨c2, boundsOK_hint h (not_bounds ..) B1, ?_⟩
  rw [r2, r1]
  by_cases hle : nx ≤ ny
  · have : ¬ ny < nx := by omega
    simp [bF, hle, this]; grind
  · have : ny < nx := by omega
    simp [bF, hle, this]; grind

/-! ### conversions -/

theorem convertToBit_ext (s : St F) (x : Cell) : s.Ext (convertToBit s x).2 :=
  (assignBit_ext s).trans (assertEqual_ext ..)

/-- **native → bit conversion** of the gadget: the returned cell holds the same value as `x`,
and that value is 0 or 1 — through the constraint `b·b = b` or through a recorded bound `≤ 2`. -/
theorem gConvertToBit_sound (s : St F) (x : Cell) (asg : Cell → F) (hc : s.CacheOK asg)
    (hB : s.BoundsOK asg) (h : (gConvertToBit s x).2.Holds R asg) :
    (gConvertToBit s x).2.CacheOK asg ∧ (gConvertToBit s x).2.BoundsOK asg ∧
    asg (gConvertToBit s x).1 = asg x ∧ IsNatLt asg x 2 := by
  unfold gConvertToBit at h ⊢
  cases hbl : s.boundLe x 2 with
  | true =>
    simp only [hbl, if_true] at h ⊢
    exact ⟨hc, hB, trivial, boundLe_sound s asg hB x 2 hbl⟩
  | false =>
    simp only [hbl, Bool.false_eq_true, if_false, convertToBit] at h ⊢
    have h1 := (assertEqual_ext ..).holds asg h
    have c0 := (updateBound_cache s x 2 asg).mpr hc
    obtain ⟨c1, rb⟩ := assignBit_sound _ asg c0 h1
    obtain ⟨c2, r2⟩ := assertEqual_sound _ _ _ asg c1 h
    have hx : IsNatLt asg x 2 := by
      obtain ⟨n, hn, hv⟩ := isNatLt_bit rb
      exact ⟨n, hn, by rw [r2]; exact hv⟩
    refine ⟨c2, ?_, r2.symm, hx⟩
    apply boundsOK_of_bounds_eq asg _ (updateBound_boundsOK s asg hB x 2 hx)
    rw [assertEqual_bounds, assignBit_bounds]

/-- **native → byte conversion**: the returned cell holds the value of `x`, a number below 256. -/
theorem gConvertToByte_sound (hR : RangeSound R) (s : St F) (x : Cell) (asg : Cell → F)
    (h0 : 0 < s.nrCols) (h4 : s.nrCols ≤ 4) (hopt : OptOK s 8) (hc : s.CacheOK asg)
    (hB : s.BoundsOK asg) (h : (gConvertToByte s x).2.Holds R asg) :
    (gConvertToByte s x).2.CacheOK asg ∧ (gConvertToByte s x).2.BoundsOK asg ∧
    asg (gConvertToByte s x).1 = asg x ∧ IsNatLt asg x 256 := by
  unfold gConvertToByte at h ⊢
  cases hbl : s.boundLe x 256 with
  | true =>
    simp only [hbl, if_true] at h ⊢
    exact ⟨hc, hB, trivial, boundLe_sound s asg hB x 256 hbl⟩
  | false =>
    simp only [hbl, Bool.false_eq_true, if_false] at h ⊢
    have h1 := (gAssertEqual_ext ..).holds asg h
    have c0 := (updateBound_cache s x 256 asg).mpr hc
    have e0 := updateBound_ext s x 256
    obtain ⟨c1, rb⟩ := assignLessThanPow2_sound hR _ 8 asg (by rw [e0.1]; exact h0) (by rw [e0.1]; exact h4)
      (OptOK_ext e0 _ hopt) c0 h1
    -- the bound recorded for `x` before the constraints: justified by the equality with the byte
    have hxy : asg x = asg (assignLessThanPow2 (s.updateBound x 256) 8).1 := by
      rw [gAssertEqual_eq] at h
      exact (assertEqual_sound _ x _ asg ((propBound_cache _ _ _ asg).mpr
        ((propBound_cache _ _ _ asg).mpr c1)) h).2
    have hx : IsNatLt asg x 256 := by
      obtain ⟨n, hn, hv⟩ := rb
      exact ⟨n, by omega, by rw [hxy]; exact hv⟩
    have B1 : (assignLessThanPow2 (s.updateBound x 256) 8).2.BoundsOK asg :=
      boundsOK_of_bounds_eq asg (assignLessThanPow2_bounds ..) (updateBound_boundsOK s asg hB x 256 hx)
    obtain ⟨c2, B2, r2⟩ := gAssertEqual_sound _ x _ asg c1 B1 h
    exact ⟨c2, B2, r2.symm, hx⟩

/-! ### recomposition -/

theorem termSum_pow (asg : Cell → F) (base : Nat) (cells : List Cell) (vs : List Nat) (j : Nat)
    (h : CellsHold asg cells vs) :
    termSum asg ((cells.zipIdx j).map (fun (b, i) => (((base ^ i : Nat) : F), b)))
      = ((base ^ j * fromLimbs base vs : Nat) : F) := by
  induction cells generalizing vs j with
  | nil =>
    cases vs with
    | nil => simp [termSum, fromLimbs]; exact natCast_zero'.symm
    | cons v vs => exact h.elim
  | cons c cs ih =>
    cases vs with
    | nil => exact h.elim
    | cons v vs =>
      simp only [List.zipIdx_cons, List.map_cons, termSum, fromLimbs]
      rw [ih vs (j + 1) h.2, h.1, ← natCast_mul', ← natCast_add']
      congr 1
      rw [Nat.mul_add, Nat.pow_succ, Nat.mul_assoc]

theorem foldl_updateBound_ext (cells : List Cell) (b : Nat) (s : St F) :
    s.Ext (cells.foldl (fun s c => s.updateBound c b) s) := by
  induction cells generalizing s with
  | nil => exact St.Ext.refl s
  | cons c cs ih => simp only [List.foldl_cons]; exact (updateBound_ext s c b).trans (ih _)

theorem foldl_updateBound_inv (cells : List Cell) (b : Nat) (s : St F) (asg : Cell → F)
    (hall : ∀ c ∈ cells, IsNatLt asg c b) :
    ((cells.foldl (fun s c => s.updateBound c b) s).Holds R asg ↔ s.Holds R asg) ∧
    ((cells.foldl (fun s c => s.updateBound c b) s).CacheOK asg ↔ s.CacheOK asg) ∧
    (s.BoundsOK asg → (cells.foldl (fun s c => s.updateBound c b) s).BoundsOK asg) := by
  induction cells generalizing s with
  | nil => exact ⟨Iff.rfl, Iff.rfl, id⟩
  | cons c cs ih =>
    simp only [List.foldl_cons]
    obtain ⟨a1, a2, a3⟩ := ih (s.updateBound c b) (fun c' hc' => hall c' (by simp [hc']))
    exact ⟨a1.trans (updateBound_holds ..), a2.trans (updateBound_cache ..),
      fun hB => a3 (updateBound_boundsOK s asg hB c b (hall c (by simp)))⟩

theorem CellsHold.isNatLt {asg : Cell → F} {cells : List Cell} {vs : List Nat} {b : Nat}
    (h : CellsHold asg cells vs) (hv : ∀ v ∈ vs, v < b) : ∀ c ∈ cells, IsNatLt asg c b := by
  induction cells generalizing vs with
  | nil => intro c hc; simp at hc
  | cons c cs ih =>
    cases vs with
    | nil => exact h.elim
    | cons v vs =>
      intro c' hc'
      simp only [List.mem_cons] at hc'
      rcases hc' with rfl | hc'
      · exact ⟨v, hv v (by simp), h.1⟩
      · exact ih h.2 (fun w hw => hv w (by simp [hw])) c' hc'

/-- **`assigned_from_le_bits`**: the output is `Σ 2^i·bitᵢ` for every number of bits. -/
theorem assignedFromLeBits_sound (s : St F) (bits : List Cell) (bs : List Nat) (asg : Cell → F)
    (hcells : CellsHold asg bits bs) (hbits : ∀ b ∈ bs, b < 2) (hc : s.CacheOK asg)
    (hB : s.BoundsOK asg) (h : (assignedFromLeBits s bits).2.Holds R asg) :
    (assignedFromLeBits s bits).2.CacheOK asg ∧ (assignedFromLeBits s bits).2.BoundsOK asg ∧
    asg (assignedFromLeBits s bits).1 = ((fromLimbs 2 bs : Nat) : F) := by
  simp only [assignedFromLeBits] at h ⊢
  obtain ⟨a1, a2, a3⟩ := foldl_updateBound_inv (R := R) bits 2 s asg (hcells.isNatLt hbits)
  obtain ⟨_, c1, r1⟩ := linearCombination_sound _ _ _ asg (a2.mpr hc) h
  refine ⟨c1, boundsOK_hint h (linearCombination_bounds ..) (a3 hB), ?_⟩
  rw [r1, termSum_pow asg 2 bits bs 0 hcells]
  simp; grind

/-- **`assigned_from_le_bytes`**: the output is `Σ 256^i·byteᵢ`. -/
theorem assignedFromLeBytes_sound (s : St F) (bytes : List Cell) (ys : List Nat) (asg : Cell → F)
    (hcells : CellsHold asg bytes ys) (hbytes : ∀ y ∈ ys, y < 256) (hc : s.CacheOK asg)
    (hB : s.BoundsOK asg) (h : (assignedFromLeBytes s bytes).2.Holds R asg) :
    (assignedFromLeBytes s bytes).2.CacheOK asg ∧ (assignedFromLeBytes s bytes).2.BoundsOK asg ∧
    asg (assignedFromLeBytes s bytes).1 = ((fromLimbs 256 ys : Nat) : F) := by
  simp only [assignedFromLeBytes] at h ⊢
  obtain ⟨a1, a2, a3⟩ := foldl_updateBound_inv (R := R) bytes 256 s asg (hcells.isNatLt hbytes)
  obtain ⟨_, c1, r1⟩ := linearCombination_sound _ _ _ asg (a2.mpr hc) h
  refine ⟨c1, boundsOK_hint h (linearCombination_bounds ..) (a3 hB), ?_⟩
  rw [r1, termSum_pow asg 256 bytes ys 0 hcells]
  simp; grind

end MidnightZK.C04
