import MidnightZK.Gen.C04Gates
/-! Arithmetic core of `div_rem` (circuits/src/instructions/division.rs): what the constraints
`r < d`, `q < B/d + 1`, `d·q + r ≡ x (mod p)` imply about `(q, r)`. -/
namespace MidnightZK.C04

/-- With a declared dividend bound `B` such that `B + d ≤ p` (the condition every caller in the
repository satisfies), the constraints of `div_rem` determine quotient and remainder. -/
theorem divrem_core_sound (p d B x q r : Nat) (hd : 0 < d) (hB : B + d ≤ p) (hx : x ≤ B)
    (hr : r < d) (hq : q < B / d + 1) (heq : (d * q + r) % p = x % p) :
    q = x / d ∧ r = x % d := by
  have hq' : q ≤ B / d := by omega
  have h1 : d * q ≤ d * (B / d) := Nat.mul_le_mul_left d hq'
  have h2 : d * (B / d) ≤ B := Nat.mul_div_le B d
  have hlt : d * q + r < p := by omega
  have hxp : x < p := by omega
  rw [Nat.mod_eq_of_lt hlt, Nat.mod_eq_of_lt hxp] at heq
  subst heq
  constructor
  · rw [Nat.mul_add_div hd, Nat.div_eq_of_lt hr]; omega
  · rw [Nat.mul_add_mod, Nat.mod_eq_of_lt hr]

/-- Without a dividend bound (`B = p − 1`) the same constraints do NOT determine the result:
for the BLS12-381 scalar modulus and `d = 3`, the dividend `0` admits `(q, r) = ((p−1)/3, 1)`. -/
theorem divrem_core_unbounded_witness :
    let p := Gen.nativeModulus
    let q := (p - 1) / 3
    (1 < 3) ∧ q < (p - 1) / 3 + 1 ∧ (3 * q + 1) % p = 0 % p ∧ ¬ (q = 0 / 3 ∧ 1 = 0 % 3) := by
  decide +kernel

end MidnightZK.C04
