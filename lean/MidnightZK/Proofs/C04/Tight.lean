import MidnightZK.Proofs.C04.Invariant
/-! Tightness of the bound recorded by the conversion byte → native: after assigning a byte, the
constraints allow the value 255, so the cache entry `(cell, 255)` (what a code recording
`u8::MAX` would store) is NOT implied by the constraints, while `(cell, 256)` is. -/
namespace MidnightZK.C04
open Lean.Grind
attribute [local instance] Semiring.natCast
set_option linter.unusedSectionVars false
set_option linter.unusedSimpArgs false
set_option linter.unusedVariables false

variable {F : Type} [Field F] [DecidableEq F]

/-- The true table predicate of the pow2range lookup. -/
def RTable (t : Nat) (v : F) : Prop := ∃ n : Nat, n < 2 ^ t ∧ v = (n : F)

theorem rtable_sound : RangeSound (RTable (F := F)) := fun _ _ h => h

theorem opt_4_8_8 : (optTable 4 8 8).getD 8 [] = [[8]] := by decide +kernel

def wit255 : Cell → F := fun c =>
  match c.region, c.off, c.col with
  | 0, 0, .adv 0 => ((255 : Nat) : F)
  | 0, 0, .adv 1 => ((255 : Nat) : F)
  | _, _, _ => ((0 : Nat) : F)

theorem byte_255_accepted :
    (assignLessThanPow2 (St.init 4 8 : St F) 8).2.Holds RTable wit255 ∧
    wit255 (assignLessThanPow2 (St.init 4 8 : St F) 8).1 = ((255 : Nat) : F) := by
  have hrows : decompRows (F := F) 4 [8, 0, 0, 0] 0 =
      [{ lcRow (((limbCoeffsAux 0 [8, 0, 0, 0]).map (fun (n : Nat) => (n : F)))) 0 0 with tag := some 8 }] := by
    rw [decompRows]; simp
  simp only [assignLessThanPow2, St.init, opt_4_8_8, decomposeCore]
  simp only [List.map, processLimbSizes, List.flatten]
  simp
  simp only [hrows]
  simp [St.Holds, regionsHold, rowsHold, copiesHold, Row.gatesHold, Row.lookupsHold, Row.fixedHold,
    lcRow, mkArith, advc, wit255, St.addRegion, St.queryTag, limbCoeffsAux, RTable]
  refine ⟨?_, ?_⟩
  · rw [natCast_zero', natCast_one']; grind
  · intro i h1 h4
    by_cases hi : i = 1
    · subst hi; exact ⟨255, by omega, rfl⟩
    · refine ⟨0, by omega, ?_⟩
      have : i = 2 ∨ i = 3 ∨ i = 4 := by omega
      rcases this with rfl | rfl | rfl <;> rfl

/-- The strict bound 255 for a byte cell is not implied by the constraints (in any field whose
characteristic exceeds 255). -/
theorem byte_bound_255_not_implied (p : Nat) (hp : 256 ≤ p)
    (hinj : ∀ a b : Nat, a < p → b < p → ((a : Nat) : F) = ((b : Nat) : F) → a = b) :
    ¬ ∀ asg : Cell → F, (assignLessThanPow2 (St.init 4 8 : St F) 8).2.Holds RTable asg →
        IsNatLt asg (assignLessThanPow2 (St.init 4 8 : St F) 8).1 255 := by
  intro h
  obtain ⟨hh, hv⟩ := byte_255_accepted (F := F)
  obtain ⟨n, hn, hv'⟩ := h wit255 hh
  rw [hv] at hv'
  have := hinj 255 n (by omega) (by omega) hv'
  omega

end MidnightZK.C04
