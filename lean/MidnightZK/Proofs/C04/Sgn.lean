import MidnightZK.Proofs.C04.Limbs
/-! `assign_less_than_pow2`, `assign_lower_than_fixed`, the gadget's `assert_equal`, `sgn0`. -/
namespace MidnightZK.C04
open Lean.Grind
attribute [local instance] Semiring.natCast
set_option linter.unusedSectionVars false
set_option linter.unusedSimpArgs false
set_option linter.unusedVariables false

variable {F : Type} [Field F] [DecidableEq F]
variable {R : Nat → F → Prop}

theorem natCast_two : (((2 : Nat) : Nat) : F) = 2 := by
  rw [show (2 : Nat) = 1 + 1 from rfl, natCast_add', Semiring.natCast_one]; grind

/-- Elaboration helper: the later state is fixed by a `Holds` hypothesis. -/
theorem boundsOK_hint {s S : St F} {asg : Cell → F} (_h : S.Holds R asg) (e : S.bounds = s.bounds)
    (hB : s.BoundsOK asg) : S.BoundsOK asg := boundsOK_of_bounds_eq asg e hB

theorem natCast_zero' : (((0 : Nat) : Nat) : F) = 0 := Semiring.natCast_zero
theorem natCast_one' : (((1 : Nat) : Nat) : F) = 1 := Semiring.natCast_one

/-- `assign_less_than_pow2`: the assigned cell is a natural number below `2^k`. -/
theorem assignLessThanPow2_sound (hR : RangeSound R) (s : St F) (k : Nat) (asg : Cell → F)
    (h0 : 0 < s.nrCols) (h4 : s.nrCols ≤ 4) (hopt : OptOK s k) (hc : s.CacheOK asg)
    (h : (assignLessThanPow2 s k).2.Holds R asg) :
    (assignLessThanPow2 s k).2.CacheOK asg ∧ IsNatLt asg (assignLessThanPow2 s k).1 (2 ^ k) := by
  simp only [assignLessThanPow2] at h ⊢
  obtain ⟨ok1, ok2⟩ := optSizes_ok s.nrCols s.maxBitLen k h0 hopt.1
  obtain ⟨c1, N, hN, hv⟩ := decomposeCore_sound hR s _ asg h0 h4 ok1 hc h
  refine ⟨c1, N, ?_, hv⟩
  have : (optSizes s.nrCols s.maxBitLen k).sum = k := by rw [ok2, hopt.2]
  rw [this] at hN; exact hN

theorem assignLowerThanFixed_ext (s : St F) (bound : Nat) : s.Ext (assignLowerThanFixed s bound).2 := by
  unfold assignLowerThanFixed
  split
  · exact assignFixed_ext s 0
  · simp only
    split
    · exact assignLessThanPow2_ext ..
    · exact (assign_ext s).trans (assertLowerThanFixed_ext ..)

/-- **`assign_lower_than_fixed`** for a positive bound: the assigned cell is a natural number
below the bound, whatever the prover assigns. -/
theorem assignLowerThanFixed_sound (hR : RangeSound R) (s : St F) (bound : Nat) (asg : Cell → F)
    (hb : 0 < bound) (h0 : 0 < s.nrCols) (h4 : s.nrCols ≤ 4) (hopt : OptOK s bound.log2)
    (hc : s.CacheOK asg) (hB : s.BoundsOK asg) (h : (assignLowerThanFixed s bound).2.Holds R asg) :
    (assignLowerThanFixed s bound).2.CacheOK asg ∧ (assignLowerThanFixed s bound).2.BoundsOK asg ∧
    IsNatLt asg (assignLowerThanFixed s bound).1 bound := by
  unfold assignLowerThanFixed at h ⊢
  have hb0 : ¬ bound = 0 := by omega
  simp only [hb0, if_false] at h ⊢
  by_cases hp : bound = 2 ^ bound.log2
  · simp only [← hp, if_true] at h ⊢
    obtain ⟨c1, r1⟩ := assignLessThanPow2_sound hR s bound.log2 asg h0 h4 hopt hc h
    refine ⟨c1, boundsOK_of_bounds_eq asg (assignLessThanPow2_bounds ..) hB, ?_⟩
    rw [← hp] at r1; exact r1
  · simp only [hp, if_false] at h ⊢
    have e := assign_ext s
    exact assertLowerThanFixed_sound hR (assign s).2 (assign s).1 bound asg hb (by rw [e.1]; exact h0)
      (by rw [e.1]; exact h4) (OptOK_ext e _ hopt) hc (boundsOK_of_bounds_eq asg (assign_bounds s) hB) h

/-- `assign_lower_than_fixed(_, 0)`: the code returns the constant 0 (there is no value below 0;
see findings/C04.json `assign_lower_than_fixed:zero-bound`). -/
theorem assignLowerThanFixed_zero (s : St F) (asg : Cell → F) (hc : s.CacheOK asg)
    (h : (assignLowerThanFixed s 0).2.Holds R asg) : asg (assignLowerThanFixed s 0).1 = 0 := by
  unfold assignLowerThanFixed at h ⊢
  simp only [if_true] at h ⊢
  exact (assignFixed_sound s 0 asg hc h).2.2

/-! ### the gadget's `assert_equal` (propagates recorded bounds) -/

/-- One direction of the bound propagation of the gadget's `assert_equal`. -/
def propBound (s : St F) (x y : Cell) : St F :=
  match s.getBound x with
  | some b => s.updateBound y b
  | none => s

theorem gAssertEqual_eq (s : St F) (x y : Cell) :
    gAssertEqual s x y = assertEqual (propBound (propBound s x y) y x) x y := rfl

theorem propBound_ext (s : St F) (x y : Cell) : s.Ext (propBound s x y) := by
  unfold propBound; split
  · exact updateBound_ext ..
  · exact St.Ext.refl s

theorem propBound_cache (s : St F) (x y : Cell) (asg : Cell → F) :
    (propBound s x y).CacheOK asg ↔ s.CacheOK asg := by
  unfold propBound; split
  · exact updateBound_cache ..
  · exact Iff.rfl

theorem propBound_boundsOK (s : St F) (x y : Cell) (asg : Cell → F) (hB : s.BoundsOK asg)
    (hxy : asg x = asg y) : (propBound s x y).BoundsOK asg := by
  unfold propBound; split
  · next b hb =>
    apply updateBound_boundsOK s asg hB
    obtain ⟨n, hn, hv⟩ := hB (x, b) (getBound_mem s x b hb)
    exact ⟨n, hn, by rw [← hxy]; exact hv⟩
  · exact hB

theorem gAssertEqual_ext (s : St F) (x y : Cell) : s.Ext (gAssertEqual s x y) := by
  rw [gAssertEqual_eq]
  exact (propBound_ext s x y).trans ((propBound_ext _ y x).trans (assertEqual_ext ..))

theorem gAssertEqual_sound (s : St F) (x y : Cell) (asg : Cell → F) (hc : s.CacheOK asg)
    (hB : s.BoundsOK asg) (h : (gAssertEqual s x y).Holds R asg) :
    (gAssertEqual s x y).CacheOK asg ∧ (gAssertEqual s x y).BoundsOK asg ∧ asg x = asg y := by
  rw [gAssertEqual_eq] at h ⊢
  obtain ⟨c1, r1⟩ := assertEqual_sound _ x y asg
    ((propBound_cache _ y x asg).mpr ((propBound_cache s x y asg).mpr hc)) h
  refine ⟨c1, ?_, r1⟩
  apply boundsOK_of_bounds_eq asg (assertEqual_bounds ..)
  exact propBound_boundsOK _ y x asg (propBound_boundsOK s x y asg hB r1) r1.symm

/-! ### `sgn0` -/

theorem isZero_ext (s : St F) (x : Cell) : s.Ext (isZero s x).2 := isEqualToFixed_ext s x 0

theorem and_ext (s : St F) (b : Cell) (rest : List Cell) : s.Ext (and s (b :: rest)).2 := by
  simp only [and]
  exact foldl_emitter_ext (fun (s : St F) a b => mul s a b none) (fun s a b => mul_ext s a b none) rest b s

theorem or_ext (s : St F) (b : Cell) (rest : List Cell) : s.Ext (or s (b :: rest)).2 := by
  simp only [or]
  exact foldl_emitter_ext (fun (s : St F) a b => addAndMul s 1 a 1 b 0 a 0 (-1))
    (fun s a b => addAndMul_ext ..) rest b s

theorem xor_ext (s : St F) (b : Cell) (rest : List Cell) : s.Ext (xor s (b :: rest)).2 := by
  simp only [xor]
  exact foldl_emitter_ext (fun (s : St F) a b => addAndMul s 1 a 1 b 0 a 0 (-2))
    (fun s a b => addAndMul_ext ..) rest b s

theorem sgn0_ext (s : St F) (x : Cell) (halfP : Nat) : s.Ext (sgn0 s x halfP).2 := by
  simp only [sgn0]
  exact (assignBit_ext s).trans ((assignLowerThanFixed_ext ..).trans ((linearCombination_ext ..).trans
    ((gAssertEqual_ext ..).trans ((isZero_ext ..).trans ((not_ext ..).trans (and_ext ..))))))

/-- What the constraints of `sgn0` force: `x = e + 2·w` with a bit `e` and `w < (p+1)/2`, and the
output is `[x ≠ 0]·e`. -/
theorem sgn0_core (hR : RangeSound R) (s : St F) (x : Cell) (halfP : Nat) (asg : Cell → F)
    (hhp : 0 < halfP) (h0 : 0 < s.nrCols) (h4 : s.nrCols ≤ 4) (hopt : OptOK s halfP.log2)
    (hc : s.CacheOK asg) (hB : s.BoundsOK asg) (h : (sgn0 s x halfP).2.Holds R asg) :
    (sgn0 s x halfP).2.CacheOK asg ∧ (sgn0 s x halfP).2.BoundsOK asg ∧
    ∃ E W : Nat, E < 2 ∧ W < halfP ∧ asg x = ((E + 2 * W : Nat) : F) ∧
      asg (sgn0 s x halfP).1 = (if asg x = 0 then 0 else ((E : Nat) : F)) := by
  simp only [sgn0] at h ⊢
  have h6 := (and_ext ..).holds asg h
  have h5 := (not_ext ..).holds asg h6
  have h4' := (isZero_ext ..).holds asg h5
  have h3 := (gAssertEqual_ext ..).holds asg h4'
  have h2 := (linearCombination_ext ..).holds asg h3
  have h1 := (assignLowerThanFixed_ext ..).holds asg h2
  obtain ⟨c1, rb⟩ := assignBit_sound s asg hc h1
  have e1 := assignBit_ext s
  have B1 : (assignBit s).2.BoundsOK asg := boundsOK_of_bounds_eq asg (assignBit_bounds s) hB
  obtain ⟨c2, B2, W, hW, rw_⟩ := assignLowerThanFixed_sound hR (assignBit s).2 halfP asg hhp
    (by rw [e1.1]; exact h0) (by rw [e1.1]; exact h4) (OptOK_ext e1 _ hopt) c1 B1 h2
  obtain ⟨_, c3, r3⟩ := linearCombination_sound _ _ _ asg c2 h3
  have B3 := boundsOK_hint h3 (linearCombination_bounds ..) B2
  obtain ⟨c4, B4, r4⟩ := gAssertEqual_sound _ x _ asg c3 B3 h4'
  obtain ⟨c5, r5⟩ := isZero_sound _ x asg c4 h5
  have B5 := boundsOK_hint h5 (isEqualToFixed_bounds ..) B4
  obtain ⟨c6, r6⟩ := not_sound _ _ asg c5 h6
  have B6 := boundsOK_hint h6 (not_bounds ..) B5
  obtain ⟨c7, r7⟩ := and_sound _ _ _ asg c6 h
  have B7 := boundsOK_hint h (and_bounds ..) B6
  refine ⟨c7, B7, ?_⟩
  simp only [List.map_cons, List.map_nil, List.foldl_cons, List.foldl_nil] at r7
  rw [r7, r6]
  simp only [termSum] at r3
  rw [r3, rw_] at r4
  rcases rb with rb | rb
  · refine ⟨0, W, by omega, hW, ?_, ?_⟩
    · rw [r4, rb, natCast_add', natCast_mul', natCast_two, natCast_zero']; grind
    · rw [rb, natCast_zero']; split <;> grind
  · refine ⟨1, W, by omega, hW, ?_, ?_⟩
    · rw [r4, rb, natCast_add', natCast_mul', natCast_two, natCast_one']; grind
    · rw [rb, natCast_one']
      rcases r5 with ⟨a, b⟩ | ⟨a, b⟩
      · rw [b]; simp [a]; grind
      · rw [b]; simp [a]; grind

/-- **`sgn0`**: for a field of odd characteristic `p` (casts of naturals below `p` are pairwise
different, `p` casts to 0), the output is the parity of the canonical representative of `x` —
no choice of the hints `e`, `w` or of the range-check limbs makes the circuit accept the other
bit. -/
theorem sgn0_sound (hR : RangeSound R) (p : Nat) (hodd : p % 2 = 1) (hp0 : ((p : Nat) : F) = 0)
    (hinj : ∀ a b : Nat, a < p → b < p → ((a : Nat) : F) = ((b : Nat) : F) → a = b)
    (s : St F) (x : Cell) (asg : Cell → F)
    (h0 : 0 < s.nrCols) (h4 : s.nrCols ≤ 4) (hopt : OptOK s ((p + 1) / 2).log2)
    (hc : s.CacheOK asg) (hB : s.BoundsOK asg) (h : (sgn0 s x ((p + 1) / 2)).2.Holds R asg) :
    (sgn0 s x ((p + 1) / 2)).2.CacheOK asg ∧ (sgn0 s x ((p + 1) / 2)).2.BoundsOK asg ∧
    ∃ X : Nat, X < p ∧ asg x = (X : F) ∧ asg (sgn0 s x ((p + 1) / 2)).1 = ((X % 2 : Nat) : F) := by
  obtain ⟨c, B, E, W, hE, hW, hx, ho⟩ := sgn0_core hR s x ((p + 1) / 2) asg (by omega) h0 h4 hopt hc hB h
  refine ⟨c, B, ?_⟩
  have hT : E + 2 * W ≤ p := by omega
  by_cases hTp : E + 2 * W = p
  · -- the non-canonical representation p of 0
    have hx0 : asg x = 0 := by rw [hx, hTp, hp0]
    refine ⟨0, by omega, by rw [hx0, natCast_zero'], ?_⟩
    rw [ho]; simp [hx0]; exact natCast_zero'.symm
  · have hlt : E + 2 * W < p := by omega
    refine ⟨E + 2 * W, hlt, hx, ?_⟩
    rw [ho]
    by_cases hz : E + 2 * W = 0
    · have hx0 : asg x = 0 := by rw [hx, hz, natCast_zero']
      simp [hx0, hz]; exact natCast_zero'.symm
    · have hxn : asg x ≠ 0 := by
        intro e
        rw [hx, ← natCast_zero' (F := F)] at e
        exact hz (hinj _ _ hlt (by omega) e)
      simp only [hxn, if_false]
      congr 1; omega

end MidnightZK.C04
