import MidnightZK.Proofs.C04.Sound
/-! Soundness of the hint-based tests, control flow, and boolean logic of `NativeChip`. -/
namespace MidnightZK.C04
open Lean.Grind
attribute [local instance] Semiring.natCast
set_option linter.unusedSectionVars false
set_option linter.unusedSimpArgs false
set_option linter.unusedVariables false

variable {F : Type} [Field F] [DecidableEq F]
variable {R : Nat → F → Prop}

macro "cs_unfold" " at " h:ident : tactic =>
  `(tactic| simp only [addRegion_fst_regions, addRegion_snd, holds_copy, holds_addRegion,
    cacheOK_copy, cacheOK_addRegion, rowsHold, Row.gatesHold, Row.lookupsHold, Row.fixedHold,
    mkArith, advc] at $h:ident ⊢)

theorem assertZero_ext (s : St F) (x : Cell) : s.Ext (assertZero s x) :=
  assertEqualToFixed_ext s x 0

/-! ### the two-equation hint pattern -/

/-- Algebraic core of `is_equal(_to_fixed)`: `(d)·aux = 1 − res` and `d·res = 0` force
`res = [d = 0]`, for every value of the hint `aux`. -/
theorem eq_pattern {d aux res : F} (h1 : res + aux * d - 1 = 0) (h2 : res * d = 0) :
    (d = 0 ∧ res = 1) ∨ (d ≠ 0 ∧ res = 0) := by
  by_cases hd : d = 0
  · left; subst hd; exact ⟨rfl, by grind⟩
  · right
    refine ⟨hd, ?_⟩
    have := Field.mul_inv_cancel hd
    grind

/-- Algebraic core of `is_not_equal(_to_fixed)`: `d·aux = res` and `d·(1 − res) = 0`. -/
theorem neq_pattern {d aux res : F} (h1 : aux * d - res = 0) (h2 : d - res * d = 0) :
    (d = 0 ∧ res = 0) ∨ (d ≠ 0 ∧ res = 1) := by
  by_cases hd : d = 0
  · left; subst hd; exact ⟨rfl, by grind⟩
  · right
    refine ⟨hd, ?_⟩
    have := Field.mul_inv_cancel hd
    grind

theorem isEqualToFixed_ext (s : St F) (x : Cell) (c : F) : s.Ext (isEqualToFixed s x c).2 :=
  (ext_addRegion s _).trans ((ext_copy _ _ _).trans ((addAndMul_ext ..).trans (assertZero_ext ..)))

theorem isEqualToFixed_sound (s : St F) (x : Cell) (c : F) (asg : Cell → F) (hc : s.CacheOK asg)
    (h : (isEqualToFixed s x c).2.Holds R asg) :
    (isEqualToFixed s x c).2.CacheOK asg ∧
    ((asg x = c ∧ asg (isEqualToFixed s x c).1 = 1) ∨ (asg x ≠ c ∧ asg (isEqualToFixed s x c).1 = 0)) := by
  simp only [isEqualToFixed, addRegion_fst_regions, addRegion_snd] at h ⊢
  have h2 := (assertZero_ext _ _).holds asg h
  have h1 := (addAndMul_ext ..).holds asg h2
  cs_unfold at h1
  obtain ⟨c2, r2⟩ := addAndMul_sound _ _ _ _ _ _ _ _ _ asg (by exact hc) h2
  obtain ⟨c3, r3⟩ := assertEqualToFixed_sound _ _ 0 asg c2 h
  refine ⟨c3, ?_⟩
  simp only [advc] at r2 r3
  rw [r3] at r2
  obtain ⟨hx, ⟨hg, _⟩, _⟩ := h1
  rw [← hx] at hg
  have := eq_pattern (d := asg x - c) (aux := asg ⟨s.regions.length, 0, Col.adv 0⟩)
    (res := asg ⟨s.regions.length, 0, Col.adv 4⟩) (by grind) (by grind)
  rcases this with ⟨a, b⟩ | ⟨a, b⟩
  · left; exact ⟨by grind, b⟩
  · right; exact ⟨fun e => a (by grind), b⟩

theorem isZero_sound (s : St F) (x : Cell) (asg : Cell → F) (hc : s.CacheOK asg)
    (h : (isZero s x).2.Holds R asg) :
    (isZero s x).2.CacheOK asg ∧
    ((asg x = 0 ∧ asg (isZero s x).1 = 1) ∨ (asg x ≠ 0 ∧ asg (isZero s x).1 = 0)) :=
  isEqualToFixed_sound s x 0 asg hc h

theorem isNotEqualToFixed_ext (s : St F) (x : Cell) (c : F) : s.Ext (isNotEqualToFixed s x c).2 :=
  (ext_addRegion s _).trans ((ext_copy _ _ _).trans ((addAndMul_ext ..).trans (assertZero_ext ..)))

theorem isNotEqualToFixed_sound (s : St F) (x : Cell) (c : F) (asg : Cell → F) (hc : s.CacheOK asg)
    (h : (isNotEqualToFixed s x c).2.Holds R asg) :
    (isNotEqualToFixed s x c).2.CacheOK asg ∧
    ((asg x = c ∧ asg (isNotEqualToFixed s x c).1 = 0) ∨
     (asg x ≠ c ∧ asg (isNotEqualToFixed s x c).1 = 1)) := by
  simp only [isNotEqualToFixed, addRegion_fst_regions, addRegion_snd] at h ⊢
  have h2 := (assertZero_ext _ _).holds asg h
  have h1 := (addAndMul_ext ..).holds asg h2
  cs_unfold at h1
  obtain ⟨c2, r2⟩ := addAndMul_sound _ _ _ _ _ _ _ _ _ asg (by exact hc) h2
  obtain ⟨c3, r3⟩ := assertEqualToFixed_sound _ _ 0 asg c2 h
  refine ⟨c3, ?_⟩
  simp only [advc] at r2 r3
  rw [r3] at r2
  obtain ⟨hx, ⟨hg, _⟩, _⟩ := h1
  rw [← hx] at hg
  have := neq_pattern (d := asg x - c) (aux := asg ⟨s.regions.length, 0, Col.adv 0⟩)
    (res := asg ⟨s.regions.length, 0, Col.adv 4⟩) (by grind) (by grind)
  rcases this with ⟨a, b⟩ | ⟨a, b⟩
  · left; exact ⟨by grind, b⟩
  · right; exact ⟨fun e => a (by grind), b⟩

theorem isEqual_ext (s : St F) (x y : Cell) : s.Ext (isEqual s x y).2 :=
  (ext_addRegion s _).trans ((ext_copy _ _ _).trans ((ext_copy _ _ _).trans
    ((addAndDoubleMul_ext ..).trans (assertZero_ext ..))))

theorem isEqual_sound (s : St F) (x y : Cell) (asg : Cell → F) (hc : s.CacheOK asg)
    (h : (isEqual s x y).2.Holds R asg) :
    (isEqual s x y).2.CacheOK asg ∧
    ((asg x = asg y ∧ asg (isEqual s x y).1 = 1) ∨ (asg x ≠ asg y ∧ asg (isEqual s x y).1 = 0)) := by
  simp only [isEqual, addRegion_fst_regions, addRegion_snd] at h ⊢
  have h2 := (assertZero_ext _ _).holds asg h
  have h1 := (addAndDoubleMul_ext ..).holds asg h2
  cs_unfold at h1
  obtain ⟨c2, r2⟩ := addAndDoubleMul_sound _ _ _ _ _ _ _ _ _ _ asg (by exact hc) h2
  obtain ⟨c3, r3⟩ := assertEqualToFixed_sound _ _ 0 asg c2 h
  refine ⟨c3, ?_⟩
  simp only [advc] at r2 r3
  rw [r3] at r2
  obtain ⟨hy, hx, ⟨hg, _⟩, _⟩ := h1
  rw [← hx, ← hy] at hg
  have := eq_pattern (d := asg x - asg y) (aux := asg ⟨s.regions.length, 0, Col.adv 0⟩)
    (res := asg ⟨s.regions.length, 0, Col.adv 4⟩) (by grind) (by grind)
  rcases this with ⟨a, b⟩ | ⟨a, b⟩
  · left; exact ⟨by grind, b⟩
  · right; exact ⟨fun e => a (by grind), b⟩

theorem isNotEqual_ext (s : St F) (x y : Cell) : s.Ext (isNotEqual s x y).2 :=
  (ext_addRegion s _).trans ((ext_copy _ _ _).trans ((ext_copy _ _ _).trans
    ((addAndDoubleMul_ext ..).trans (assertZero_ext ..))))

theorem isNotEqual_sound (s : St F) (x y : Cell) (asg : Cell → F) (hc : s.CacheOK asg)
    (h : (isNotEqual s x y).2.Holds R asg) :
    (isNotEqual s x y).2.CacheOK asg ∧
    ((asg x = asg y ∧ asg (isNotEqual s x y).1 = 0) ∨
     (asg x ≠ asg y ∧ asg (isNotEqual s x y).1 = 1)) := by
  simp only [isNotEqual, addRegion_fst_regions, addRegion_snd] at h ⊢
  have h2 := (assertZero_ext _ _).holds asg h
  have h1 := (addAndDoubleMul_ext ..).holds asg h2
  cs_unfold at h1
  obtain ⟨c2, r2⟩ := addAndDoubleMul_sound _ _ _ _ _ _ _ _ _ _ asg (by exact hc) h2
  obtain ⟨c3, r3⟩ := assertEqualToFixed_sound _ _ 0 asg c2 h
  refine ⟨c3, ?_⟩
  simp only [advc] at r2 r3
  rw [r3] at r2
  obtain ⟨hy, hx, ⟨hg, _⟩, _⟩ := h1
  rw [← hx, ← hy] at hg
  have := neq_pattern (d := asg x - asg y) (aux := asg ⟨s.regions.length, 0, Col.adv 0⟩)
    (res := asg ⟨s.regions.length, 0, Col.adv 4⟩) (by grind) (by grind)
  rcases this with ⟨a, b⟩ | ⟨a, b⟩
  · left; exact ⟨by grind, b⟩
  · right; exact ⟨fun e => a (by grind), b⟩

/-! ### control flow -/

theorem select_ext (s : St F) (c x y : Cell) : s.Ext (select s c x y).2 := addAndDoubleMul_ext ..

/-- `select`: `out = c·x + (1−c)·y`; with a boolean `c` this is `if c then x else y`. -/
theorem select_sound (s : St F) (c x y : Cell) (asg : Cell → F) (hc : s.CacheOK asg)
    (h : (select s c x y).2.Holds R asg) :
    (select s c x y).2.CacheOK asg ∧
    asg (select s c x y).1 = asg c * asg x + (1 - asg c) * asg y := by
  obtain ⟨c1, r1⟩ := addAndDoubleMul_sound s 0 c 0 x 1 y 0 1 (-1) asg hc h
  exact ⟨c1, by simp only [select]; rw [r1]; grind⟩

theorem condSwap_ext (s : St F) (c x y : Cell) : s.Ext (condSwap s c x y).2 :=
  (ext_addRegion s _).trans ((ext_copy _ _ _).trans ((ext_copy _ _ _).trans (ext_copy _ _ _)))

/-- `cond_swap`: `snd = c·x + (1−c)·y` and `fst = x + y − snd` (arith gate + 12−34 gate). -/
theorem condSwap_sound (s : St F) (c x y : Cell) (asg : Cell → F) (hc : s.CacheOK asg)
    (h : (condSwap s c x y).2.Holds R asg) :
    (condSwap s c x y).2.CacheOK asg ∧
    asg (condSwap s c x y).1.2 = asg c * asg x + (1 - asg c) * asg y ∧
    asg (condSwap s c x y).1.1 = asg c * asg y + (1 - asg c) * asg x := by
  simp only [condSwap] at h ⊢; cs_unfold at h
  refine ⟨hc, ?_, ?_⟩ <;> grind

theorem inv0_ext (s : St F) (x : Cell) : s.Ext (inv0 s x).2 := by
  simp only [inv0]
  exact (isEqualToFixed_ext s x 0).trans ((assignFixed_ext _ 0).trans ((assignFixed_ext _ 1).trans
    ((select_ext ..).trans ((inv_ext ..).trans (select_ext ..)))))

/-- `inv0`: the field inverse with `inv0 0 = 0`. -/
theorem inv0_sound (s : St F) (x : Cell) (asg : Cell → F) (hc : s.CacheOK asg)
    (h : (inv0 s x).2.Holds R asg) :
    (inv0 s x).2.CacheOK asg ∧ asg (inv0 s x).1 = (asg x)⁻¹ := by
  simp only [inv0, isZero] at h ⊢
  have h5 := (select_ext ..).holds asg h
  have h4 := (inv_ext ..).holds asg h5
  have h3 := (select_ext ..).holds asg h4
  have h2 := (assignFixed_ext _ 1).holds asg h3
  have h1 := (assignFixed_ext _ 0).holds asg h2
  obtain ⟨c1, r1⟩ := isEqualToFixed_sound s x 0 asg hc h1
  obtain ⟨_, c2, r2⟩ := assignFixed_sound _ 0 asg c1 h2
  obtain ⟨_, c3, r3⟩ := assignFixed_sound _ 1 asg c2 h3
  obtain ⟨c4, r4⟩ := select_sound _ _ _ _ asg c3 h4
  obtain ⟨c5, r5⟩ := inv_sound _ _ asg c4 h5
  obtain ⟨c6, r6⟩ := select_sound _ _ _ _ asg c5 h
  refine ⟨c6, ?_⟩
  rw [r6, r2]
  rw [r4, r3] at r5
  generalize asg (inv (F := F) _ _).1 = w at r5 ⊢
  generalize asg (isEqualToFixed s x 0).1 = z at r1 r5 ⊢
  rcases r1 with ⟨a, b⟩ | ⟨a, b⟩
  · rw [b, a, Field.inv_zero]; grind
  · rw [b] at r5 ⊢
    have hi := Field.mul_inv_cancel a
    have hw : asg x * w = 1 := by grind
    have : w = (asg x)⁻¹ := by
      calc w = (asg x)⁻¹ * (asg x * w) := by grind
        _ = (asg x)⁻¹ := by rw [hw]; grind
    rw [this]; grind
