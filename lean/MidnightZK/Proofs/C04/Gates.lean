import MidnightZK.Model.C04.CS
import MidnightZK.Gen.C04Gates
/-! Gate-level lemmas over the GENERATED gate polynomials (Gen/C04Gates.lean). -/
namespace MidnightZK.C04
open Lean.Grind
attribute [local instance] Semiring.natCast

variable {F : Type} [Field F]

theorem arith_gate_eval (env : Env F) :
    Gen.arith_gate_0.eval env = env.sel 0 * (env.fixed 3 0 + env.fixed 4 0 * env.adv 0 0
      + env.fixed 5 0 * env.adv 1 0 + env.fixed 6 0 * env.adv 2 0 + env.fixed 7 0 * env.adv 3 0
      + env.fixed 8 0 * env.adv 4 0 + env.fixed 0 0 * env.adv 0 1
      + env.fixed 1 0 * env.adv 0 0 * env.adv 1 0 + env.fixed 2 0 * env.adv 0 0 * env.adv 2 0) := by
  simp only [Gen.arith_gate_0, Expr.eval]

theorem g1234_gate_eval (env : Env F) :
    Gen.g_12_minus_34_0.eval env
      = env.sel 1 * (env.adv 1 0 + env.adv 2 0 - env.adv 3 0 - env.adv 4 0) := by
  simp only [Gen.g_12_minus_34_0, Expr.eval]; grind

theorem par_add_gate_eval (env : Env F) :
    Gen.parallel_add_gate_0.eval env = env.sel 2 * (env.adv 0 0 + env.fixed 4 0 - env.adv 0 1) ∧
    Gen.parallel_add_gate_1.eval env = env.sel 2 * (env.adv 1 0 + env.fixed 5 0 - env.adv 1 1) ∧
    Gen.parallel_add_gate_2.eval env = env.sel 2 * (env.adv 2 0 + env.fixed 6 0 - env.adv 2 1) := by
  simp only [Gen.parallel_add_gate_0, Gen.parallel_add_gate_1, Gen.parallel_add_gate_2, Expr.eval]
  grind

/-- On every row, the generated gate polynomials vanish under the row's environment exactly
when the closed-form row predicate of the model holds. -/
theorem gates_iff_gatesHold (asg : Cell → F) (k off : Nat) (row : Row F) :
    (∀ g ∈ (Gen.gates : List (Expr F)), g.eval (rowEnv asg k off row) = 0)
      ↔ row.gatesHold asg k off := by
  simp only [Gen.gates, List.mem_cons, List.not_mem_nil, or_false, forall_eq_or_imp, forall_eq]
  rw [arith_gate_eval, g1234_gate_eval]
  obtain ⟨h0, h1, h2⟩ := par_add_gate_eval (rowEnv asg k off row)
  rw [h0, h1, h2]
  rcases row with ⟨arith, q, par, tag, adv, fv⟩
  cases arith <;> cases par <;> cases q <;>
    simp [Row.gatesHold, rowEnv, Row.selAt, Row.fixedAt, fixedValuesCol, tagCol] <;> grind
