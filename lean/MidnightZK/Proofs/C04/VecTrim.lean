import MidnightZK.Proofs.C04.Vector
import MidnightZK.Proofs.C04.Bytes
/-! `trim_beginning` at circuit level. -/
namespace MidnightZK.C04
open Lean.Grind
attribute [local instance] Semiring.natCast
set_option linter.unusedSectionVars false
set_option linter.unusedSimpArgs false
set_option linter.unusedVariables false

variable {F : Type} [Field F] [DecidableEq F]
variable {R : Nat → F → Prop}

theorem assignManyFixed_ext (c : F) : ∀ (n : Nat) (s : St F), s.Ext (assignManyFixed s n c).2
  | 0, s => St.Ext.refl s
  | n + 1, s => by
    simp only [assignManyFixed]
    exact (assignFixed_ext s c).trans (assignManyFixed_ext c n _)

theorem assignManyFixed_length (c : F) : ∀ (n : Nat) (s : St F), (assignManyFixed s n c).1.length = n
  | 0, _ => rfl
  | n + 1, s => by simp only [assignManyFixed, List.length_cons, assignManyFixed_length c n]

theorem assignManyFixed_ok (c : F) (asg : Cell → F) : ∀ (n : Nat) (s : St F), s.OK asg →
    (assignManyFixed s n c).2.Holds R asg → (assignManyFixed s n c).2.OK asg
  | 0, s, ok, _ => ok
  | n + 1, s, ok, h => by
    simp only [assignManyFixed] at h ⊢
    have h1 := (assignManyFixed_ext c n _).holds asg h
    exact assignManyFixed_ok c asg n _ (ok_assignFixed (R := R) s c asg ok h1).1 h

theorem trimSelects_ext (c : Cell) (buffer : List Cell) (A : Nat) : ∀ (is : List Nat) (s : St F),
    s.Ext (trimSelects s c buffer A is).2
  | [], s => St.Ext.refl s
  | i :: rest, s => by
    simp only [trimSelects]
    exact (select_ext ..).trans (trimSelects_ext c buffer A rest _)

/-- The `M` selects of `trim_beginning` with a boolean condition. -/
theorem trimSelects_sound (asg : Cell → F) (c : Cell) (cb : Bool) (hc : asg c = b2f cb)
    (buffer : List Cell) (A : Nat) : ∀ (is : List Nat) (s : St F), s.OK asg →
    (trimSelects s c buffer A is).2.Holds R asg →
    (trimSelects s c buffer A is).2.OK asg ∧
    (trimSelects s c buffer A is).1.map asg
      = is.map (fun i => asg (buffer.getD (if cb then i else A + i) (advc 0 0 0)))
  | [], s, ok, _ => ⟨ok, rfl⟩
  | i :: rest, s, ok, h => by
    simp only [trimSelects] at h ⊢
    have h1 := (trimSelects_ext c buffer A rest _).holds asg h
    obtain ⟨ok1, r1⟩ := ok_select _ _ _ _ asg ok h1
    obtain ⟨ok2, r2⟩ := trimSelects_sound asg c cb hc buffer A rest _ ok1 h
    refine ⟨ok2, ?_⟩
    simp only [List.map_cons]
    rw [r2, r1, hc]
    congr 1
    cases cb <;> simp [b2f] <;> grind

theorem trimSelects_length (c : Cell) (buffer : List Cell) (A : Nat) : ∀ (is : List Nat) (s : St F),
    (trimSelects s c buffer A is).1.length = is.length
  | [], _ => rfl
  | i :: rest, s => by simp only [trimSelects, List.length_cons, trimSelects_length c buffer A rest]

theorem ok_linearCombination (s : St F) (terms : List (F × Cell)) (k : F) (asg : Cell → F)
    (ok : s.OK asg) (h : (linearCombination s terms k).2.Holds R asg) :
    (linearCombination s terms k).2.OK asg ∧
    asg (linearCombination s terms k).1 = k + termSum asg terms := by
  obtain ⟨_, c1, r1⟩ := linearCombination_sound s terms k asg ok.hc h
  exact ⟨ok.step (linearCombination_ext ..) c1
    (boundsOK_of_bounds_eq asg (linearCombination_bounds ..) ok.hB), r1⟩

/-- Position `j` of the buffer `A fillers ++ input.drop t ++ t fillers` is position `j − A + t` of
the input, when that is what `trimSrc` says. -/
theorem trimBuffer_getD (fillers buf : List Cell) (A t M j q : Nat) (hf : fillers.length = A + t)
    (hb : buf.length = M) (hj : A ≤ j) (hq : q = j - A + t) (hqM : q < M) (d : Cell) :
    (fillers.take A ++ buf.drop t ++ fillers.drop A).getD j d = buf.getD q d := by
  simp only [List.getD_eq_getElem?_getD]
  have h1 : (fillers.take A).length = A := by rw [List.length_take, hf]; omega
  rw [List.append_assoc, List.getElem?_append_right (by rw [h1]; exact hj), h1,
    List.getElem?_append_left (by rw [List.length_drop, hb]; omega), List.getElem?_drop]
  congr 2; omega

theorem map_getD_of_map_eq {L : List Cell} {asg : Cell → F} {g : Nat → F} {M : Nat}
    (h : L.map asg = (List.range M).map g) (i : Nat) (hi : i < M) (d : Cell) :
    asg (L.getD i d) = g i := by
  have hl : L.length = M := by simpa using congrArg List.length h
  have h1 : (L.map asg)[i]? = ((List.range M).map g)[i]? := by rw [h]
  rw [List.getElem?_map, List.getElem?_map, List.getElem?_range hi,
    List.getElem?_eq_getElem (by omega)] at h1
  simp only [Option.map_some, Option.some.injEq] at h1
  rw [List.getD_eq_getElem?_getD, List.getElem?_eq_getElem (by omega), Option.getD_some]
  exact h1

theorem vecTrimBeginning_ext (s : St F) (v : VecCells) (M A n p : Nat) :
    s.Ext (vecTrimBeginning s v M A n p).2 := by
  simp only [vecTrimBeginning]
  exact (linearCombination_ext ..).trans ((assertLowerThanFixed_ext ..).trans ((divRem_ext ..).trans
    ((leqFixed_ext ..).trans ((isEqualToFixed_ext ..).trans ((xor_ext ..).trans
    ((assignManyFixed_ext ..).trans ((trimSelects_ext ..).trans (addConstant_ext ..))))))))

/-- **`trim_beginning(input, n)`** (vector_gadget.rs), circuit level: for every `M`, `A ∣ M`, every
length `len ≤ M` held by the length cell and EVERY accepted assignment:
* `n ≤ len` (a vector shorter than `n` makes the circuit unsatisfiable);
* the new length cell holds `len − n`, the new buffer has `M` cells;
* position `k` of the new payload holds the value of position `n + k` of the old payload
  (`k < len − n`): whatever the prover assigns to the remainder, the comparison and zero-test hints,
  `needs_adjust` is forced to `len mod A ≠ 0 ∧ len mod A ≤ n mod A` and every select follows. -/
theorem vecTrimBeginning_sound (hR : RangeSound R) (p : Nat)
    (hinj : ∀ a b : Nat, a < p → b < p → ((a : Nat) : F) = ((b : Nat) : F) → a = b)
    (s : St F) (v : VecCells) (M A n len : Nat) (asg : Cell → F)
    (hA : 0 < A) (hAM : A ∣ M) (hAle : A ≤ M) (hMp : M + A ≤ p) (h2M : 2 * M < p) (hnM : n ≤ M)
    (hcmp : 2 * 2 ^ (A.log2 + 1) ≤ p)
    (hlenM : len ≤ M) (hbuf : v.buf.length = M) (hlen : asg v.len = (len : F)) (ok : s.OK asg)
    (h : (vecTrimBeginning s v M A n p).2.Holds R asg) :
    n ≤ len ∧
    asg (vecTrimBeginning s v M A n p).1.len = ((len - n : Nat) : F) ∧
    (vecTrimBeginning s v M A n p).1.buf.length = M ∧
    ∀ k, k < len - n →
      asg ((vecTrimBeginning s v M A n p).1.buf.getD ((getLims M A (len - n)).1 + k) (advc 0 0 0))
        = asg (v.buf.getD ((getLims M A len).1 + n + k) (advc 0 0 0)) := by
  simp only [vecTrimBeginning] at h ⊢
  have h8 := (addConstant_ext ..).holds asg h
  have h7 := (trimSelects_ext ..).holds asg h8
  have h6 := (assignManyFixed_ext ..).holds asg h7
  have h5 := (xor_ext ..).holds asg h6
  have h4 := (isEqualToFixed_ext ..).holds asg h5
  have h3 := (leqFixed_ext ..).holds asg h4
  have h2 := (divRem_ext ..).holds asg h3
  have h1 := (assertLowerThanFixed_ext ..).holds asg h2
  -- len_complement = M − len, asserted below M + 1 − n
  obtain ⟨ok1, r1⟩ := ok_linearCombination s _ _ asg ok h1
  have e1 := linearCombination_ext s [((-1 : F), v.len)] ((M : Nat) : F)
  obtain ⟨c2, B2, ⟨m', hm', hv'⟩⟩ := assertLowerThanFixed_sound hR _ _ (M + 1 - n) asg (by omega)
    ok1.h0 ok1.h4 (optOK_all _ _ ok1.h0 ok1.hm) ok1.hc ok1.hB h2
  have ok2 := ok1.step (assertLowerThanFixed_ext ..) c2 B2
  have hnlen : n ≤ len := by
    have e : ((M : Nat) : F) = ((len + m' : Nat) : F) := by
      rw [natCast_add', ← hv', r1]; simp only [termSum]; rw [hlen]; grind
    have := hinj M (len + m') (by omega) (by omega) e
    omega
  -- last_len = len mod A
  obtain ⟨ok3, r3⟩ := divRem_rem_sound hR p hinj _ v.len A M (p - 1) len asg hA hMp hlenM hlen ok2 h3
  have hr : len % A < A := Nat.mod_lt _ hA
  have ht : n % A < A := Nat.mod_lt _ hA
  have hlog : A < 2 ^ (A.log2 + 1) := Nat.lt_log2_self
  -- leq_shift, full_last, needs_adjust
  obtain ⟨c4, B4, r4⟩ := (fixed_comparisons_sound hR p hinj _ _ (A.log2 + 1) (n % A) asg (len % A) r3
    (by omega) (by omega) hcmp ok3.h0 ok3.h4 (optOK_all _ _ ok3.h0 ok3.hm) ok3.hc ok3.hB).1 h4
  have ok4 := ok3.step (leqFixed_ext ..) c4 B4
  obtain ⟨ok5, r5⟩ := ok_isEqualToFixed _ _ _ asg ok4 h5
  obtain ⟨ok6, r6⟩ := ok_xor2 _ _ _ asg ok5 h6
  rw [r3] at r5
  have hz : decide ((((len % A : Nat) : Nat) : F) = 0) = decide (len % A = 0) := by
    by_cases e : len % A = 0
    · rw [e]; simp [natCast_zero']
    · have : ¬ (((len % A : Nat) : Nat) : F) = 0 := fun e' =>
        e (hinj _ _ (by omega) (by omega) (by rw [e']; exact natCast_zero'.symm))
      simp [e, this]
  rw [hz] at r5
  have r4' := r4
  change _ = b2f (decide (len % A ≤ n % A)) at r4'
  have hb : (decide (len % A = 0) != decide (len % A ≤ n % A))
      = decide (len % A ≠ 0 ∧ len % A ≤ n % A) := by
    by_cases e0 : len % A = 0
    · have e1 : len % A ≤ n % A := by omega
      have e2 : ¬ (len % A ≠ 0 ∧ len % A ≤ n % A) := fun hh => hh.1 e0
      rw [dec_t e0, dec_t e1, dec_f e2]; rfl
    · by_cases e1 : len % A ≤ n % A
      · have e2 : (len % A ≠ 0 ∧ len % A ≤ n % A) := ⟨e0, e1⟩
        rw [dec_f e0, dec_t e1, dec_t e2]; rfl
      · have e2 : ¬ (len % A ≠ 0 ∧ len % A ≤ n % A) := fun hh => e1 hh.2
        rw [dec_f e0, dec_f e1, dec_f e2]; rfl
  have hadj := r6
  rw [r5, r4', b2f_xor, hb] at hadj
  have ok7 := assignManyFixed_ok (R := R) (0 : F) asg _ _ ok6 h7
  obtain ⟨ok8, r8⟩ := trimSelects_sound asg _ _ hadj _ A (List.range M) _ ok7 h8
  obtain ⟨ok9, r9⟩ := ok_addConstant _ _ _ asg ok8 h
  refine ⟨hnlen, ?_, ?_, ?_⟩
  · rw [r9, hlen]
    have : ((len : Nat) : F) = ((len - n : Nat) : F) + ((n : Nat) : F) := by
      rw [← natCast_add']; congr 1; omega
    rw [this]; grind
  · rw [trimSelects_length, List.length_range]
  · intro k hk
    obtain ⟨g1, g2, g3, _, _, _⟩ := getLims_facts M A (len - n) hA hAM (by omega)
    have hi : (getLims M A (len - n)).1 + k < M := by omega
    have hsrc := trim_index_correct M A len n k hA hAM hlenM hnlen hk
    -- the value of the new cell, from the list equation r8
    rw [map_getD_of_map_eq r8 _ hi]
    -- the source position
    obtain ⟨hjA, hq, hqM⟩ := trimSrc_some M A len n _ _ hsrc
    congr 1
    exact trimBuffer_getD _ v.buf A (n % A) M _ _ (assignManyFixed_length ..) hbuf hjA hq hqM _

end MidnightZK.C04
