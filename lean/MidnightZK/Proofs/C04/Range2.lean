import MidnightZK.Proofs.C04.Range
import MidnightZK.Proofs.C04.Sound2
/-! Range checks at the level of the emitters: `decompose_core`, `assign/assert_less_than_pow2`,
`assert_lower_than_fixed`, `lower_than`. -/
namespace MidnightZK.C04
open Lean.Grind
attribute [local instance] Semiring.natCast
set_option linter.unusedSectionVars false
set_option linter.unusedSimpArgs false
set_option linter.unusedVariables false

variable {F : Type} [Field F] [DecidableEq F]
variable {R : Nat → F → Prop}

theorem queryTag_holds (s : St F) (t : Nat) (asg : Cell → F) :
    (s.queryTag t).Holds R asg ↔ s.Holds R asg := by
  unfold St.queryTag; split <;> exact Iff.rfl

theorem queryTag_ext (s : St F) (t : Nat) : s.Ext (s.queryTag t) := by
  unfold St.queryTag; split
  · exact St.Ext.refl s
  · exact ⟨rfl, rfl, ⟨[], rfl⟩, ⟨[], rfl⟩⟩

theorem queryTag_cache (s : St F) (t : Nat) (asg : Cell → F) :
    (s.queryTag t).CacheOK asg ↔ s.CacheOK asg := by
  unfold St.queryTag; split <;> exact Iff.rfl

theorem foldl_queryTag (tags : List Nat) (s : St F) (asg : Cell → F) :
    ((tags.foldl (fun s t => s.queryTag t) s).Holds R asg ↔ s.Holds R asg) ∧
    ((tags.foldl (fun s t => s.queryTag t) s).CacheOK asg ↔ s.CacheOK asg) ∧
    s.Ext (tags.foldl (fun s t => s.queryTag t) s) ∧
    (tags.foldl (fun s t => s.queryTag t) s).nrCols = s.nrCols := by
  induction tags generalizing s with
  | nil => exact ⟨Iff.rfl, Iff.rfl, St.Ext.refl s, rfl⟩
  | cons t ts ih =>
    simp only [List.foldl_cons]
    obtain ⟨a, b, c, d⟩ := ih (s.queryTag t)
    refine ⟨a.trans (queryTag_holds s t asg), b.trans (queryTag_cache s t asg),
      (queryTag_ext s t).trans c, ?_⟩
    rw [d]; unfold St.queryTag; split <;> rfl

theorem decomposeCore_ext (s : St F) (sizes : List Nat) : s.Ext (decomposeCore s sizes).2 := by
  simp only [decomposeCore, addRegion_fst_regions, addRegion_snd]
  exact (ext_addRegion s _).trans (foldl_queryTag (R := fun _ _ => True) _ _ (fun _ => 0)).2.2.1

/-- `decompose_core`: the recomposed cell is a natural number below `2^(Σ limb sizes)`. -/
theorem decomposeCore_sound (hR : RangeSound R) (s : St F) (sizes : List Nat) (asg : Cell → F)
    (h0 : 0 < s.nrCols) (h4 : s.nrCols ≤ 4) (hok : sizesOK s.nrCols sizes) (hc : s.CacheOK asg)
    (h : (decomposeCore s sizes).2.Holds R asg) :
    (decomposeCore s sizes).2.CacheOK asg ∧
    ∃ N : Nat, N < 2 ^ sizes.sum ∧ asg (decomposeCore s sizes).1.1 = (N : F) := by
  simp only [decomposeCore, addRegion_fst_regions, addRegion_snd] at h ⊢
  obtain ⟨a, b, _, _⟩ := foldl_queryTag (R := R)
    ((decompRows s.nrCols sizes 0 : List (Row F)).filterMap (·.tag))
    ({ s with regions := decompRows s.nrCols sizes 0 :: s.regions } : St F) asg
  rw [a] at h
  rw [holds_addRegion] at h
  refine ⟨b.mpr hc, ?_⟩
  obtain ⟨N, hN, hv⟩ := decompRows_sound hR asg s.nrCols s.regions.length h0 h4 sizes 0 0 hok h.1
  exact ⟨N, hN, by rw [hv]; simp⟩

/-! ### the optimal limb sizes -/

/-- What `compute_optimal_limb_sizes` must return for the range check to be sound: every row is
a non-empty run of one bit length, at most `nr` long. (Checked for every bit length of every
configuration by the driver on each run, and by kernel evaluation for small cases.) -/
def optRowsOK (nr : Nat) (rows : List (List Nat)) : Prop :=
  ∀ r ∈ rows, r ≠ [] ∧ r.length ≤ nr ∧ ∀ x ∈ r, r.head? = some x

theorem processLimbSizes_ok (nr : Nat) (r : List Nat) (h0 : 0 < nr) (hne : r ≠ [])
    (hlen : r.length ≤ nr) (hall : ∀ x ∈ r, r.head? = some x) :
    (processLimbSizes nr r).length = nr ∧ chunkOK (processLimbSizes nr r) ∧
    (processLimbSizes nr r).sum = r.sum := by
  have hnr : nr ≠ 0 := by omega
  have hpad : (nr - r.length % nr) % nr = nr - r.length := by
    by_cases he : r.length = nr
    · rw [he, Nat.mod_self, Nat.sub_zero, Nat.mod_self, Nat.sub_self]
    · have : r.length < nr := by omega
      rw [Nat.mod_eq_of_lt this, Nat.mod_eq_of_lt (by
        have : 0 < r.length := List.length_pos_iff.mpr hne
        omega)]
  simp only [processLimbSizes, hnr, if_false, hpad]
  refine ⟨by simp; omega, ?_, by simp⟩
  intro x hx
  simp only [List.mem_append, List.mem_replicate] at hx
  rcases hx with hx | ⟨_, hx⟩
  · right
    have := hall x hx
    cases r with
    | nil => exact absurd rfl hne
    | cons a t => simpa using this
  · exact Or.inl hx

theorem sizesOK_flatten (nr : Nat) (h0 : 0 < nr) (rows : List (List Nat))
    (h : ∀ r ∈ rows, r.length = nr ∧ chunkOK r) : sizesOK nr rows.flatten := by
  induction rows with
  | nil => intro j; simp [chunkOK]
  | cons r rs ih =>
    have hr := h r (by simp)
    have ih' := ih (fun r' hr' => h r' (by simp [hr']))
    intro j
    simp only [List.flatten_cons]
    cases j with
    | zero =>
      simp only [Nat.zero_mul, List.drop_zero]
      rw [List.take_append_of_le_length (by omega), List.take_of_length_le (by omega)]
      exact hr.2
    | succ j =>
      rw [show (j + 1) * nr = r.length + j * nr by rw [Nat.add_mul, hr.1]; omega]
      rw [List.drop_append]
      have e1 : List.drop (r.length + j * nr) r = [] := List.drop_of_length_le (by omega)
      rw [e1, List.nil_append, show r.length + j * nr - r.length = j * nr by omega]
      exact ih' j

/-- `assign_less_than_pow2` / `assert_less_than_pow2`: the sizes it passes to `decompose_core`. -/
def optSizes (nr maxBitLen bitLength : Nat) : List Nat :=
  (((optTable nr maxBitLen bitLength).getD bitLength []).map (processLimbSizes nr)).flatten

theorem optSizes_ok (nr maxBitLen k : Nat) (h0 : 0 < nr)
    (hopt : optRowsOK nr ((optTable nr maxBitLen k).getD k [])) :
    sizesOK nr (optSizes nr maxBitLen k) ∧
    (optSizes nr maxBitLen k).sum = (((optTable nr maxBitLen k).getD k []).map List.sum).sum := by
  constructor
  · apply sizesOK_flatten nr h0
    intro r hr
    simp only [List.mem_map] at hr
    obtain ⟨r0, hr0, rfl⟩ := hr
    obtain ⟨a, b, c⟩ := hopt r0 hr0
    exact ⟨(processLimbSizes_ok nr r0 h0 a b c).1, (processLimbSizes_ok nr r0 h0 a b c).2.1⟩
  · unfold optSizes
    generalize (optTable nr maxBitLen k).getD k [] = rows at hopt
    induction rows with
    | nil => simp
    | cons r rs ih =>
      have hr := hopt r (by simp)
      simp only [List.map_cons, List.flatten_cons, List.sum_append, List.sum_cons]
      rw [(processLimbSizes_ok nr r h0 hr.1 hr.2.1 hr.2.2).2.2, ih (fun r' hr' => hopt r' (by simp [hr']))]

theorem assignLessThanPow2_ext (s : St F) (k : Nat) : s.Ext (assignLessThanPow2 s k).2 := by
  simp only [assignLessThanPow2]; exact decomposeCore_ext s _

theorem assertLessThanPow2_ext (s : St F) (x : Cell) (k : Nat) : s.Ext (assertLessThanPow2 s x k) := by
  simp only [assertLessThanPow2, addRegion_fst_regions]
  exact (assignLessThanPow2_ext s k).trans ((ext_addRegion _ _).trans (ext_copy _ _ _))

/-- `assert_less_than_pow2` (hence `assign_less_than_pow2`, byte assignment, `bounded_of_element`
…): every accepted assignment has `x = N` for a natural number `N < 2^k`; inputs `≥ 2^k` make
the circuit unsatisfiable. -/
theorem assertLessThanPow2_sound (hR : RangeSound R) (s : St F) (x : Cell) (k : Nat) (asg : Cell → F)
    (h0 : 0 < s.nrCols) (h4 : s.nrCols ≤ 4)
    (hopt : optRowsOK s.nrCols ((optTable s.nrCols s.maxBitLen k).getD k []))
    (hsum : (((optTable s.nrCols s.maxBitLen k).getD k []).map List.sum).sum = k)
    (hc : s.CacheOK asg) (h : (assertLessThanPow2 s x k).Holds R asg) :
    (assertLessThanPow2 s x k).CacheOK asg ∧ ∃ N : Nat, N < 2 ^ k ∧ asg x = (N : F) := by
  simp only [assertLessThanPow2, assignLessThanPow2, addRegion_fst_regions] at h ⊢
  rw [holds_copy, holds_addRegion] at h
  obtain ⟨hxy, _, hd⟩ := h
  obtain ⟨ok1, ok2⟩ := optSizes_ok s.nrCols s.maxBitLen k h0 hopt
  obtain ⟨c1, N, hN, hv⟩ := decomposeCore_sound hR s _ asg h0 h4 ok1 hc hd
  refine ⟨c1, N, ?_, by rw [hxy]; exact hv⟩
  have : (optSizes s.nrCols s.maxBitLen k).sum = k := by rw [ok2, hsum]
  rw [this] at hN; exact hN

/-- The DP output needed by a range check of `k` bits in the configuration of state `s`. -/
def OptOK (s : St F) (k : Nat) : Prop :=
  optRowsOK s.nrCols ((optTable s.nrCols s.maxBitLen k).getD k []) ∧
  (((optTable s.nrCols s.maxBitLen k).getD k []).map List.sum).sum = k

theorem OptOK_ext {s s' : St F} (e : s.Ext s') (k : Nat) (h : OptOK s k) : OptOK s' k := by
  unfold OptOK at *; rw [e.1, e.2.1]; exact h

theorem updateBound_ext (s : St F) (c : Cell) (b : Nat) : s.Ext (s.updateBound c b) := by
  unfold St.updateBound; split <;> exact ⟨rfl, rfl, ⟨[], rfl⟩, ⟨[], rfl⟩⟩

theorem updateBound_holds (s : St F) (c : Cell) (b : Nat) (asg : Cell → F) :
    (s.updateBound c b).Holds R asg ↔ s.Holds R asg := by
  unfold St.updateBound; split <;> exact Iff.rfl

theorem updateBound_cache (s : St F) (c : Cell) (b : Nat) (asg : Cell → F) :
    (s.updateBound c b).CacheOK asg ↔ s.CacheOK asg := by
  unfold St.updateBound; split <;> exact Iff.rfl

/-- `assert_lower_than_fixed`, on the path that emits constraints (no smaller bound already
recorded for the cell): every accepted assignment has `x = M` for a natural number
`M < bound`, for EVERY bound (power of two or not). What is not proved here: the early return
when `constrained_cells` already records a bound `≤ bound` relies on the invariant that every
recorded bound was enforced earlier. -/
theorem assertLowerThanFixed_sound_partial (hR : RangeSound R) (s : St F) (x : Cell) (bound : Nat)
    (asg : Cell → F) (hnb : s.boundLe x bound = false) (hb : 0 < bound)
    (h0 : 0 < s.nrCols) (h4 : s.nrCols ≤ 4) (hopt : OptOK s bound.log2)
    (hc : s.CacheOK asg) (h : (assertLowerThanFixed s x bound).Holds R asg) :
    ∃ M : Nat, M < bound ∧ asg x = (M : F) := by
  have hk : 2 ^ bound.log2 ≤ bound := Nat.log2_self_le (by omega)
  unfold assertLowerThanFixed at h
  simp only [hnb, Bool.false_eq_true, if_false] at h
  by_cases hp : 2 ^ bound.log2 = bound
  · simp only [hp, if_true] at h
    have e := updateBound_ext s x bound
    obtain ⟨_, N, hN, hv⟩ := assertLessThanPow2_sound hR _ x bound.log2 asg (by rw [e.1]; exact h0)
      (by rw [e.1]; exact h4) (OptOK_ext e _ hopt).1 (OptOK_ext e _ hopt).2
      ((updateBound_cache s x bound asg).mpr hc) h
    exact ⟨N, by omega, hv⟩
  · simp only [hp, if_false] at h
    -- states: s0 = updateBound; s1 = assignBit; s2 = addConstant; s3 = select; then range check
    have e0 := updateBound_ext s x bound
    have e1 := assignBit_ext (s.updateBound x bound)
    have e2 := addConstant_ext (assignBit (s.updateBound x bound)).2 x
      (-(((bound - 2 ^ bound.log2 : Nat) : Nat) : F))
    have e3 := select_ext (addConstant (assignBit (s.updateBound x bound)).2 x
      (-(((bound - 2 ^ bound.log2 : Nat) : Nat) : F))).2 (assignBit (s.updateBound x bound)).1 x
      (addConstant (assignBit (s.updateBound x bound)).2 x
        (-(((bound - 2 ^ bound.log2 : Nat) : Nat) : F))).1
    have h3 := (assertLessThanPow2_ext _ _ _).holds asg h
    have h2 := e3.holds asg h3
    have h1 := e2.holds asg h2
    have c0 := (updateBound_cache s x bound asg).mpr hc
    obtain ⟨c1, rb⟩ := assignBit_sound _ asg c0 h1
    obtain ⟨c2, r2⟩ := addConstant_sound _ x _ asg c1 h2
    obtain ⟨c3, r3⟩ := select_sound _ _ _ _ asg c2 h3
    have eall := e0.trans (e1.trans (e2.trans e3))
    obtain ⟨_, N, hN, hv⟩ := assertLessThanPow2_sound hR _ _ bound.log2 asg (by rw [eall.1]; exact h0)
      (by rw [eall.1]; exact h4) (OptOK_ext eall _ hopt).1 (OptOK_ext eall _ hopt).2 c3 h
    rw [r3, r2] at hv
    rcases rb with rb | rb
    · -- b = 0: y = x - diff
      rw [rb] at hv
      refine ⟨N + (bound - 2 ^ bound.log2), by omega, ?_⟩
      rw [natCast_add']
      grind
    · rw [rb] at hv
      exact ⟨N, by omega, by grind⟩

/-- Elaboration helper: fixes the later state from a `Holds` hypothesis. -/
theorem ext_hint {s S : St F} {asg : Cell → F} (_h : S.Holds R asg) (e : s.Ext S) : s.Ext S := e

theorem lowerThan_ext (s : St F) (x : Cell) (bx : Nat) (y : Cell) (by_ : Nat) :
    s.Ext (lowerThan s x bx y by_).2 := by
  simp only [lowerThan]
  exact (assignBit_ext s).trans ((updateBound_ext _ _ _).trans ((mul_ext ..).trans ((mul_ext ..).trans
    ((linearCombination_ext ..).trans (assertLessThanPow2_ext ..)))))

/-- `lower_than` on bounded values: for every accepted assignment the output bit is `[x < y]`
(as natural numbers). Hypotheses: the operands are natural numbers below `2^bx`, `2^by` (what
`bounded_of_element` enforces), and the field is large enough that `2^(max+1)` numbers do not
wrap (`MAX_BOUND_IN_BITS = NUM_BITS − 2` in the Rust code) — expressed as injectivity of the
cast below `p`. -/
theorem lowerThan_sound (hR : RangeSound R) (p : Nat)
    (hinj : ∀ a b : Nat, a < p → b < p → ((a : Nat) : F) = ((b : Nat) : F) → a = b)
    (s : St F) (x : Cell) (bx : Nat) (y : Cell) (by_ : Nat) (asg : Cell → F)
    (nx ny : Nat) (hx : asg x = (nx : F)) (hnx : nx < 2 ^ bx) (hy : asg y = (ny : F))
    (hny : ny < 2 ^ by_) (hm : 2 * 2 ^ (max bx by_) ≤ p)
    (h0 : 0 < s.nrCols) (h4 : s.nrCols ≤ 4) (hopt : OptOK s (max bx by_))
    (hc : s.CacheOK asg) (h : (lowerThan s x bx y by_).2.Holds R asg) :
    asg (lowerThan s x bx y by_).1 = if nx < ny then 1 else 0 := by
  simp only [lowerThan] at h ⊢
  have e1 := assignBit_ext s
  have e2 := updateBound_ext (assignBit s).2 (assignBit s).1 2
  have h5 := (assertLessThanPow2_ext _ _ _).holds asg h
  have h4' := (linearCombination_ext ..).holds asg h5
  have h3 := (mul_ext ..).holds asg h4'
  have h2 := (mul_ext ..).holds asg h3
  have h1 := (updateBound_holds _ _ _ asg).mp h2
  obtain ⟨c1, rb⟩ := assignBit_sound s asg hc h1
  have c2 := (updateBound_cache (assignBit s).2 (assignBit s).1 2 asg).mpr c1
  obtain ⟨c3, r3⟩ := mul_sound _ x _ none asg c2 h3
  obtain ⟨c4, r4⟩ := mul_sound _ y _ none asg c3 h4'
  obtain ⟨_, c5, r5⟩ := linearCombination_sound _ _ _ asg c4 h5
  have eall := ext_hint h5 (e1.trans (e2.trans ((mul_ext ..).trans ((mul_ext ..).trans (linearCombination_ext ..)))))
  obtain ⟨_, N, hN, hv⟩ := assertLessThanPow2_sound hR _ _ (max bx by_) asg (by rw [eall.1]; exact h0)
    (by rw [eall.1]; exact h4) (OptOK_ext eall _ hopt).1 (OptOK_ext eall _ hopt).2 c5 h
  rw [r5] at hv
  simp only [termSum, r4, r3, Option.getD_none] at hv
  have hbx : 2 ^ bx ≤ 2 ^ (max bx by_) := Nat.pow_le_pow_right (by omega) (Nat.le_max_left _ _)
  have hby : 2 ^ by_ ≤ 2 ^ (max bx by_) := Nat.pow_le_pow_right (by omega) (Nat.le_max_right _ _)
  rw [hx, hy] at hv
  rcases rb with rb | rb
  · -- b = 0: z = x - y, so nx = ny + N
    rw [rb] at hv ⊢
    have : ((nx : Nat) : F) = ((ny + N : Nat) : F) := by rw [natCast_add']; grind
    have := hinj nx (ny + N) (by omega) (by omega) this
    have hlt : ¬ nx < ny := by omega
    simp [hlt]
  · -- b = 1: z = y - x - 1, so ny = nx + 1 + N
    rw [rb] at hv ⊢
    have : ((ny : Nat) : F) = ((nx + 1 + N : Nat) : F) := by
      rw [natCast_add', natCast_add', Semiring.natCast_one]; grind
    have := hinj ny (nx + 1 + N) (by omega) (by omega) this
    have hlt : nx < ny := by omega
    simp [hlt]
