import Mathlib.LinearAlgebra.Lagrange
import Mathlib.RingTheory.RootsOfUnity.PrimitiveRoots
import Mathlib.Tactic.Ring
import Mathlib.Tactic.FieldSimp
import Mathlib.Tactic.LinearCombination
/-!
# The evaluation domain `{ω^i | i < n}`: vanishing polynomial, divisibility, Lagrange basis

Algebra behind the last step of the PLONK verifier (`proofs/src/poly/domain.rs`), over an arbitrary
field `F` with a primitive `n`-th root of unity `ω`:

* `X^n − 1 = ∏_{i<n} (X − ω^i)` (`nodal_domain`, `vanishing_eq_prod`);
* a polynomial vanishing at every `ω^i` is divisible by `X^n − 1` (`dvd_of_vanish_on_domain`), and so
  is every `y`-combination `fold(0, |h, p| h·y + p)` of such polynomials (`ycomb_dvd`);
* barycentric weights: `1 / ∏_{j≠i}(ω^i − ω^j) = ω^i / n` (`nodalWeight_domain`), hence for `x` off
  the domain the interpolating polynomial of the values `r` evaluates to
  `Σ_i r_i · ω^i (x^n − 1) / (n (x − ω^i))` (`eval_interpolate_domain`).
-/
namespace MidnightZK.C01.Dom
open Polynomial Finset

variable {F : Type} [Field F] {n : ℕ} {ω : F}

/-- The nodes of the domain are pairwise distinct. -/
theorem node_injOn (hω : IsPrimitiveRoot ω n) :
    Set.InjOn (fun i : ℕ => ω ^ i) ((range n : Finset ℕ) : Set ℕ) := by
  intro i hi j hj h
  exact hω.pow_inj (mem_range.1 (mem_coe.1 hi)) (mem_range.1 (mem_coe.1 hj)) h

theorem node_pow (hω : IsPrimitiveRoot ω n) (i : ℕ) : (ω ^ i) ^ n = 1 := by
  rw [← pow_mul, mul_comm, pow_mul, hω.pow_eq_one, one_pow]

/-- `∏_{i<n} (X − ω^i) = X^n − 1`. -/
theorem nodal_domain (hω : IsPrimitiveRoot ω n) (hn : 0 < n) :
    Lagrange.nodal (range n) (fun i : ℕ => ω ^ i) = X ^ n - 1 := by
  have h : degree (1 : F[X]) < degree ((X : F[X]) ^ n) := by
    rw [degree_one, degree_X_pow]; exact_mod_cast hn
  have hd : degree ((X : F[X]) ^ n - 1) = n := by
    rw [degree_sub_eq_left_of_degree_lt h, degree_X_pow]
  apply eq_of_degree_le_of_eval_index_eq (v := fun i : ℕ => ω ^ i) (range n) (node_injOn hω)
  · rw [Lagrange.degree_nodal, card_range]
  · rw [Lagrange.degree_nodal, card_range, hd]
  · rw [Lagrange.nodal_monic, leadingCoeff_sub_of_degree_lt h, monic_X_pow]
  · intro i hi
    rw [Lagrange.eval_nodal_at_node hi]
    simp [node_pow hω i]

/-- `X^n − 1 = ∏_{i<n} (X − ω^i)` for a primitive `n`-th root of unity `ω`. -/
theorem vanishing_eq_prod (hω : IsPrimitiveRoot ω n) (hn : 0 < n) :
    (X ^ n - 1 : F[X]) = ∏ i ∈ range n, (X - C (ω ^ i)) := by
  rw [← nodal_domain hω hn, Lagrange.nodal_eq]

theorem monic_vanishing (hn : 0 < n) : ((X : F[X]) ^ n - 1).Monic :=
  monic_X_pow_sub_C (1 : F) (Nat.pos_iff_ne_zero.1 hn)

theorem degree_vanishing (hn : 0 < n) : degree ((X : F[X]) ^ n - 1) = n := by
  have h : degree (1 : F[X]) < degree ((X : F[X]) ^ n) := by
    rw [degree_one, degree_X_pow]; exact_mod_cast hn
  rw [degree_sub_eq_left_of_degree_lt h, degree_X_pow]

/-- **A polynomial that vanishes on the whole domain is divisible by `X^n − 1`.** -/
theorem dvd_of_vanish_on_domain (hω : IsPrimitiveRoot ω n) (hn : 0 < n) (p : F[X])
    (hp : ∀ i, i < n → p.eval (ω ^ i) = 0) : (X ^ n - 1 : F[X]) ∣ p := by
  have hm := monic_vanishing (F := F) hn
  rw [← modByMonic_eq_zero_iff_dvd hm]
  apply eq_zero_of_degree_lt_of_eval_index_eq_zero (v := fun i : ℕ => ω ^ i) (range n) (node_injOn hω)
  · rw [card_range, ← degree_vanishing (F := F) hn]
    exact degree_modByMonic_lt p hm
  · intro i hi
    have hi' := mem_range.1 hi
    have h := congrArg (eval (ω ^ i)) (modByMonic_add_div p (X ^ n - 1 : F[X]))
    simp only [eval_add, eval_mul, eval_sub, eval_pow, eval_X, eval_one, node_pow hω i, sub_self,
      zero_mul, add_zero] at h
    simpa [hp i hi'] using h

/-- Conversely a multiple of `X^n − 1` vanishes on the domain. -/
theorem vanish_of_dvd (hω : IsPrimitiveRoot ω n) (p : F[X]) (h : (X ^ n - 1 : F[X]) ∣ p)
    (i : ℕ) : p.eval (ω ^ i) = 0 := by
  obtain ⟨q, rfl⟩ := h
  simp [node_pow hω i]

/-- The verifier's/prover's `y`-combination of a list of polynomials. -/
noncomputable def ycomb (y : F) (ps : List F[X]) : F[X] := ps.foldl (fun h p => h * C y + p) 0

theorem eval_ycomb_aux (y x : F) (ps : List F[X]) (acc : F[X]) :
    (ps.foldl (fun h p => h * C y + p) acc).eval x =
      (ps.map (eval x)).foldl (fun h v => h * y + v) (acc.eval x) := by
  induction ps generalizing acc with
  | nil => rfl
  | cons p t ih => simp only [List.foldl_cons, List.map_cons]; rw [ih]; simp

/-- Evaluating the combination = combining the evaluations (what the verifier does at `x`). -/
theorem eval_ycomb (y x : F) (ps : List F[X]) :
    (ycomb y ps).eval x = (ps.map (eval x)).foldl (fun h v => h * y + v) 0 := by
  unfold ycomb; rw [eval_ycomb_aux]; simp

/-- **The `y`-combination of polynomials vanishing on the domain is divisible by `X^n − 1`.** -/
theorem ycomb_dvd (hω : IsPrimitiveRoot ω n) (hn : 0 < n) (y : F) (ps : List F[X])
    (hp : ∀ p ∈ ps, ∀ i, i < n → p.eval (ω ^ i) = 0) : (X ^ n - 1 : F[X]) ∣ ycomb y ps := by
  apply dvd_of_vanish_on_domain hω hn
  intro i hi
  rw [eval_ycomb]
  have : ∀ (l : List F[X]), (∀ p ∈ l, p.eval (ω ^ i) = 0) →
      (l.map (eval (ω ^ i))).foldl (fun h v => h * y + v) 0 = 0 := by
    intro l
    induction l with
    | nil => intro _; rfl
    | cons p t ih =>
      intro h
      simp only [List.map_cons, List.foldl_cons, zero_mul, zero_add]
      rw [h p (by simp)]
      exact ih (fun q hq => h q (by simp [hq]))
  exact this ps (fun p hp' => hp p hp' i hi)

/-! ### barycentric weights of the domain -/

/-- `n ≠ 0` in a field that has a primitive `n`-th root of unity (`n > 0`). -/
theorem natCast_ne_zero (hω : IsPrimitiveRoot ω n) (hn : 0 < n) : (n : F) ≠ 0 := by
  have : NeZero n := ⟨Nat.pos_iff_ne_zero.1 hn⟩
  exact (hω.neZero' (R := F)).out

theorem omega_ne_zero (hω : IsPrimitiveRoot ω n) (hn : 0 < n) : ω ≠ 0 :=
  hω.ne_zero (Nat.pos_iff_ne_zero.1 hn)

/-- The barycentric weight of `ω^i` is `ω^i / n` (`domain.rs: l_i_range`, doc comment). -/
theorem nodalWeight_domain (hω : IsPrimitiveRoot ω n) (hn : 0 < n) (i : ℕ) (hi : i < n) :
    Lagrange.nodalWeight (range n) (fun i : ℕ => ω ^ i) i = ω ^ i * (n : F)⁻¹ := by
  rw [Lagrange.nodalWeight_eq_eval_derivative_nodal (mem_range.2 hi), nodal_domain hω hn]
  simp only [derivative_sub, derivative_X_pow, derivative_one, sub_zero, eval_mul, eval_pow, eval_X,
    map_natCast, eval_natCast]
  have hn0 := natCast_ne_zero hω hn
  have h1 : (ω ^ i) ^ (n - 1) * ω ^ i = 1 := by
    rw [← pow_succ, Nat.sub_add_cancel hn, node_pow hω i]
  apply inv_eq_of_mul_eq_one_right
  field_simp
  linear_combination h1

/-- The Lagrange evaluation as `domain.rs: l_i_range` computes it:
`(x − ω^i)⁻¹ · ((x^n − 1) · n⁻¹) · ω^i`. -/
def lagrangeAt (ω : F) (n : ℕ) (x : F) (i : ℕ) : F := (x - ω ^ i)⁻¹ * ((x ^ n - 1) * (n : F)⁻¹) * ω ^ i

/-- `x` off the domain ⇔ `x^n ≠ 1`. -/
theorem off_domain (hω : IsPrimitiveRoot ω n) {x : F} (hx : x ^ n ≠ 1) (i : ℕ) : x ≠ ω ^ i := by
  intro h; apply hx; rw [h, node_pow hω i]

/-- **Barycentric evaluation**: for `x` off the domain, the polynomial of degree `< n` that takes
the values `r i` at `ω^i` evaluates at `x` to `Σ_i r_i · l_i(x)` with `l_i(x)` as computed by
`l_i_range`. -/
theorem eval_interpolate_domain (hω : IsPrimitiveRoot ω n) (hn : 0 < n) (r : ℕ → F) {x : F}
    (hx : x ^ n ≠ 1) :
    eval x (Lagrange.interpolate (range n) (fun i : ℕ => ω ^ i) r) =
      ∑ i ∈ range n, r i * lagrangeAt ω n x i := by
  rw [Lagrange.eval_interpolate_not_at_node r (fun i _ => off_domain hω hx i), nodal_domain hω hn,
    mul_sum]
  apply sum_congr rfl
  intro i hi
  rw [nodalWeight_domain hω hn i (mem_range.1 hi)]
  simp only [eval_sub, eval_pow, eval_X, eval_one, lagrangeAt]
  ring

/-- The interpolating polynomial takes the prescribed values on the domain. -/
theorem eval_interpolate_node (hω : IsPrimitiveRoot ω n) (r : ℕ → F) (i : ℕ) (hi : i < n) :
    eval (ω ^ i) (Lagrange.interpolate (range n) (fun i : ℕ => ω ^ i) r) = r i :=
  Lagrange.eval_interpolate_at_node r (node_injOn hω) (mem_range.2 hi)

/-- Every polynomial of degree `< n` is the interpolating polynomial of its values on the domain;
hence `p(x) = Σ_i p(ω^i)·l_i(x)` off the domain. -/
theorem eval_eq_sum_lagrange (hω : IsPrimitiveRoot ω n) (hn : 0 < n) (p : F[X]) (hp : p.degree < n)
    {x : F} (hx : x ^ n ≠ 1) :
    p.eval x = ∑ i ∈ range n, p.eval (ω ^ i) * lagrangeAt ω n x i := by
  have h := Lagrange.eq_interpolate (s := range n) (v := fun i : ℕ => ω ^ i) (f := p) (node_injOn hω)
    (by rw [card_range]; exact hp)
  conv => lhs; rw [h]
  exact eval_interpolate_domain hω hn _ hx

end MidnightZK.C01.Dom
