import MidnightZK.Proofs.C01.Domain
import MidnightZK.Model.C01.Quotient
import MidnightZK.Model.C01.Vanishing
/-!
# From "every identity vanishes on every row" to the verifier's evaluation check

Links the polynomial algebra of `Domain.lean` with the executable models `Quotient.lean`
(`chunksExact` / `blind` / `recombine`: the prover's quotient pieces) and `Vanishing.lean`
(`expectedHEval`, `choppedEval`, `lIRange`, `lEvals`, `instanceEval`: what the verifier computes).
-/
namespace MidnightZK.C01.Asm
open Polynomial Finset MidnightZK.C01.Dom MidnightZK.C01.Van
open MidnightZK.C01.Args (powN)

variable {F : Type} [Field F]

/-! ### bridging the model's operations -/

theorem powN_eq (x : F) : ∀ k : ℕ, powN x k = x ^ k
  | 0 => by simp [powN]
  | k + 1 => by rw [powN, powN_eq x k, pow_succ]

theorem evalPoly_nil (x : F) : evalPoly ([] : List F) x = 0 := rfl
theorem evalPoly_cons (c : F) (l : List F) (x : F) : evalPoly (c :: l) x = c + x * evalPoly l x := rfl
theorem recombine_nil (x : F) (m : ℕ) : recombine x m ([] : List (List F)) = 0 := rfl
theorem recombine_cons (x : F) (m : ℕ) (L : List F) (t : List (List F)) :
    recombine x m (L :: t) = evalPoly L x + x ^ m * recombine x m t := rfl

/-- Horner evaluation of a coefficient vector is the usual sum. -/
theorem evalPoly_map_range (x : F) : ∀ (len : ℕ) (f : ℕ → F),
    evalPoly ((List.range len).map f) x = ∑ i ∈ range len, f i * x ^ i
  | 0, f => by simp [evalPoly_nil]
  | len + 1, f => by
    rw [List.range_succ_eq_map, List.map_cons, List.map_map, evalPoly_cons,
      evalPoly_map_range x len (f ∘ Nat.succ), Finset.sum_range_succ', mul_sum]
    simp only [Function.comp, pow_zero, mul_one, pow_succ, Nat.succ_eq_add_one]
    rw [add_comm]
    congr 1
    apply sum_congr rfl
    intro i _
    ring

/-- The first `len` coefficients of a polynomial, lowest first (`Polynomial<F, Coeff>` of the
prover after `truncate(len)`). -/
noncomputable def coeffList (h : F[X]) (len : ℕ) : List F := (List.range len).map h.coeff

theorem coeffList_length (h : F[X]) (len : ℕ) : (coeffList h len).length = len := by
  simp [coeffList]

/-- Truncating above the degree loses nothing: the coefficient vector evaluates like the
polynomial. -/
theorem evalPoly_coeffList (h : F[X]) (len : ℕ) (hd : h.natDegree < len) (x : F) :
    evalPoly (coeffList h len) x = h.eval x := by
  rw [coeffList, evalPoly_map_range, eval_eq_sum_range' hd]

/-! ### the quotient -/

/-- **The quotient exists**: if every identity vanishes on the domain, `h := (Σ y-combination) /
(X^n − 1)` satisfies `h · (X^n − 1) = ycomb y ids` as polynomials. -/
theorem quotient_mul (hω : IsPrimitiveRoot ω n) (hn : 0 < n) (y : F) (ids : List F[X])
    (hv : ∀ p ∈ ids, ∀ i, i < n → p.eval (ω ^ i) = 0) :
    (ycomb y ids /ₘ (X ^ n - 1)) * (X ^ n - 1) = ycomb y ids := by
  have hm := monic_vanishing (F := F) hn
  have hdvd := ycomb_dvd hω hn y ids hv
  have h0 := (modByMonic_eq_zero_iff_dvd hm).2 hdvd
  have h := modByMonic_add_div (ycomb y ids) (X ^ n - 1 : F[X])
  rw [h0, zero_add] at h
  rw [mul_comm]; exact h

/-- Degree of the `y`-combination is bounded by the degrees of the identities. -/
theorem natDegree_ycomb_lt (y : F) (d : ℕ) (hd : 0 < d) (ids : List F[X])
    (hdeg : ∀ p ∈ ids, p.natDegree < d) : (ycomb y ids).natDegree < d := by
  unfold ycomb
  have : ∀ (l : List F[X]) (acc : F[X]), acc.natDegree < d → (∀ p ∈ l, p.natDegree < d) →
      (l.foldl (fun h p => h * C y + p) acc).natDegree < d := by
    intro l
    induction l with
    | nil => intro acc h _; exact h
    | cons p t ih =>
      intro acc hacc hl
      apply ih
      · refine lt_of_le_of_lt (natDegree_add_le _ _) (max_lt ?_ (hl p (by simp)))
        exact lt_of_le_of_lt (natDegree_mul_C_le _ _) hacc
      · exact fun q hq => hl q (by simp [hq])
  exact this ids 0 (by simpa using hd) hdeg

/-- Degree of the quotient: `deg N < n + m` ⇒ `deg (N / (X^n − 1)) < m` (for `m ≥ 1`). -/
theorem natDegree_quotient_lt (hn : 0 < n) (N : F[X]) (m : ℕ) (hm : 0 < m) (hN : N.natDegree < n + m) :
    (N /ₘ (X ^ n - 1)).natDegree < m := by
  rw [natDegree_divByMonic N (monic_vanishing (F := F) hn)]
  have : ((X : F[X]) ^ n - 1).natDegree = n := natDegree_X_pow_sub_C
  omega

/-- **The verifier's equation holds at EVERY point**: `h(x)·(x^n − 1) = fold(0, |h, v| h·y + v)`
over the identities evaluated at `x`. -/
theorem quotient_eval (hω : IsPrimitiveRoot ω n) (hn : 0 < n) (y : F) (ids : List F[X])
    (hv : ∀ p ∈ ids, ∀ i, i < n → p.eval (ω ^ i) = 0) (x : F) :
    (ycomb y ids /ₘ (X ^ n - 1)).eval x * (x ^ n - 1) =
      (ids.map (eval x)).foldl (fun h v => h * y + v) 0 := by
  have h := congrArg (eval x) (quotient_mul hω hn y ids hv)
  rw [eval_mul, eval_ycomb] at h
  simpa using h

/-- … hence off the domain the value `expected_h_eval` the verifier computes is `h(x)`. -/
theorem expectedHEval_eq (hω : IsPrimitiveRoot ω n) (hn : 0 < n) (y : F) (ids : List F[X])
    (hv : ∀ p ∈ ids, ∀ i, i < n → p.eval (ω ^ i) = 0) (x : F) (hx : x ^ n ≠ 1) :
    expectedHEval (fun a => a⁻¹) (ids.map (eval x)) y (powN x n) =
      (ycomb y ids /ₘ (X ^ n - 1)).eval x := by
  unfold expectedHEval
  rw [powN_eq, ← quotient_eval hω hn y ids hv x, mul_assoc, mul_inv_cancel₀ (sub_ne_zero.2 hx), mul_one]

/-! ### the chopped commitment -/

theorem chopped_fold (x : F) (m : ℕ) : ∀ (limbs : List (List F)) (s a : F),
    ((choppedScalars (x ^ m) s limbs.length).zip (limbs.map (fun L => evalPoly L x))).foldl
        (fun acc p => acc + p.1 * p.2) a = a + s * recombine x m limbs
  | [], s, a => by simp [choppedScalars, recombine_nil]
  | L :: t, s, a => by
    simp only [List.length_cons, choppedScalars, List.map_cons, List.zip_cons_cons, List.foldl_cons]
    rw [chopped_fold x m t, recombine_cons]
    ring

/-- **What the chopped commitment opens to** (`as_terms`: scalars `1, x^(n−1), x^(2(n−1)), …`) is
the model's `recombine` of the pieces. -/
theorem choppedEval_eq_recombine (x : F) (n : ℕ) (limbs : List (List F)) :
    choppedEval x n (limbs.map (fun L => evalPoly L x)) = recombine x (n - 1) limbs := by
  unfold choppedEval innerProduct
  rw [List.length_map, powN_eq, chopped_fold]
  simp

theorem recombine_append_single (x : F) (m : ℕ) : ∀ (l : List (List F)) (L : List F),
    recombine x m (l ++ [L]) = l.foldr (fun K acc => evalPoly K x + x ^ m * acc) (evalPoly L x)
  | [], L => by simp [recombine_cons, recombine_nil]
  | K :: t, L => by
    simp only [List.cons_append, recombine_cons, List.foldr_cons]
    rw [recombine_append_single x m t L]

/-- The prover's own evaluation (`Constructed::evaluate`, Horner from the last piece) agrees with
the verifier's linear combination. -/
theorem proverHReduce_eq (x : F) (m : ℕ) (limbs : List (List F)) (hne : limbs ≠ []) :
    proverHReduce (x ^ m) (limbs.map (fun L => evalPoly L x)) = some (recombine x m limbs) := by
  obtain ⟨init, L, rfl⟩ : ∃ init L, limbs = init ++ [L] :=
    ⟨limbs.dropLast, limbs.getLast hne, (List.dropLast_append_getLast hne).symm⟩
  unfold proverHReduce
  rw [List.map_append, List.map_cons, List.map_nil, List.reverse_append, List.reverse_singleton,
    List.singleton_append]
  simp only []
  rw [List.foldl_reverse, recombine_append_single, List.foldr_map]
  congr 1
  clear hne
  induction init with
  | nil => rfl
  | cons K t ih => simp only [List.foldr_cons]; rw [ih]; ring

theorem chunksExact_length_mem (m : ℕ) : ∀ (fuel : ℕ) (l : List F) (L : List F),
    L ∈ chunksExact m fuel l → L.length = m
  | 0, l, L, h => by simp [chunksExact] at h
  | fuel + 1, l, L, h => by
    unfold chunksExact at h
    split at h
    · simp at h
    · rename_i hc
      simp only [List.mem_cons] at h
      rcases h with rfl | h
      · rw [List.length_take]; omega
      · exact chunksExact_length_mem m fuel _ L h

/-! ### the Lagrange evaluations of the verifier (`l_i_range`) -/

variable {n : ℕ} {ω : F}

/-- Row of the domain a rotation refers to: `r mod n`. -/
def rowOf (n : ℕ) (r : ℤ) : ℕ := (r % (n : ℤ)).toNat

theorem rotateOmega_zpow (v : F) (r : ℤ) : rotateOmega ω ω⁻¹ v r = v * ω ^ r := by
  unfold rotateOmega
  split
  · rename_i h
    rw [powN_eq]
    congr 1
    conv_rhs => rw [← Int.toNat_of_nonneg h]
    rw [zpow_natCast]
  · rename_i h
    rw [powN_eq, inv_pow, ← zpow_natCast, ← zpow_neg]
    congr 2
    omega

theorem zpow_eq_rowOf (hω : IsPrimitiveRoot ω n) (hn : 0 < n) (r : ℤ) : ω ^ r = ω ^ rowOf n r := by
  have hn' : (n : ℤ) ≠ 0 := by exact_mod_cast (Nat.pos_iff_ne_zero.1 hn)
  have hrow : ((rowOf n r : ℕ) : ℤ) = r % (n : ℤ) := Int.toNat_of_nonneg (Int.emod_nonneg r hn')
  have hdvd : (n : ℤ) ∣ r - (rowOf n r : ℕ) := by
    rw [hrow]; exact Dvd.intro (r / n) (by linear_combination (Int.emod_add_mul_ediv r n))
  have h1 := (hω.zpow_eq_one_iff_dvd _).2 hdvd
  have hw := omega_ne_zero hω hn
  calc ω ^ r = ω ^ (r - (rowOf n r : ℕ) + (rowOf n r : ℕ)) := by rw [sub_add_cancel]
    _ = ω ^ rowOf n r := by rw [zpow_add₀ hw, h1, one_mul, zpow_natCast]

theorem rowOf_lt (hn : 0 < n) (r : ℤ) : rowOf n r < n := by
  have hn' : (n : ℤ) ≠ 0 := by exact_mod_cast (Nat.pos_iff_ne_zero.1 hn)
  have h1 := Int.emod_nonneg r hn'
  have h2 := Int.emod_lt_of_pos r (by exact_mod_cast hn : (0 : ℤ) < n)
  unfold rowOf; omega

/-- **`l_i_range` computes the barycentric Lagrange evaluations**: entry `j` is `l_i(x)` for the row
`i = rotations[j] mod n` (negative rotations go through `omega_inv`). -/
theorem lIRange_spec (hω : IsPrimitiveRoot ω n) (hn : 0 < n) (x : F) (rots : List ℤ) :
    lIRange (fun a => a⁻¹) ω ω⁻¹ (n : F)⁻¹ x (x ^ n) rots =
      rots.map (fun r => lagrangeAt ω n x (rowOf n r)) := by
  unfold lIRange
  simp only []
  have hz : ∀ (l : List ℤ) (g : ℤ → F) (G : ℤ × F → F), ((l.zip (l.map g)).map G) = l.map (fun r => G (r, g r)) := by
    intro l g G
    induction l with
    | nil => rfl
    | cons a t ih => simp only [List.map_cons, List.zip_cons_cons, ih]
  rw [hz]
  apply List.map_congr_left
  intro r _
  simp only [rotateOmega_zpow, one_mul, zpow_eq_rowOf hω hn r, lagrangeAt]

theorem foldl_add_map_range (h : ℕ → F) : ∀ k : ℕ,
    ((List.range k).map h).foldl (fun acc e => acc + e) 0 = ∑ j ∈ range k, h j
  | 0 => by simp
  | k + 1 => by
    rw [List.range_succ, List.map_append, List.foldl_append, foldl_add_map_range h k, sum_range_succ]
    simp

/-- The polynomial of degree `< n` that is `1` on the rows satisfying `S` and `0` on the others
(`l_0`, `l_last`, `l_blind` of the protocol are of this form). -/
noncomputable def indPoly (ω : F) (n : ℕ) (S : ℕ → Prop) [DecidablePred S] : F[X] :=
  Lagrange.interpolate (range n) (fun i : ℕ => ω ^ i) (fun i => if S i then 1 else 0)

theorem indPoly_node (hω : IsPrimitiveRoot ω n) (S : ℕ → Prop) [DecidablePred S] (i : ℕ) (hi : i < n) :
    (indPoly ω n S).eval (ω ^ i) = if S i then 1 else 0 :=
  eval_interpolate_node hω _ i hi

theorem eval_indPoly (hω : IsPrimitiveRoot ω n) (hn : 0 < n) (S : ℕ → Prop) [DecidablePred S] {x : F}
    (hx : x ^ n ≠ 1) :
    (indPoly ω n S).eval x = ∑ i ∈ (range n).filter S, lagrangeAt ω n x i := by
  unfold indPoly
  rw [eval_interpolate_domain hω hn _ hx, sum_filter]
  apply sum_congr rfl
  intro i _
  split <;> simp

/-- **`l_0`, `l_last`, `l_blind` as `evaluate_identities` computes them are the evaluations at `x`
of the interpolating polynomials of the row indicators** `[i = 0]`, `[i = u]`, `[u < i]`
(`u = n − (blinding_factors + 1)`) — the convention of the row-level models of `Arguments.lean`. -/
theorem lEvals_spec (hω : IsPrimitiveRoot ω n) (bf : ℕ) (hbf : bf + 1 ≤ n) {x : F} (hx : x ^ n ≠ 1) :
    lEvals (fun a => a⁻¹) ω ω⁻¹ (n : F)⁻¹ x (x ^ n) bf =
      ((indPoly ω n (fun i => i = 0)).eval x,
       (indPoly ω n (fun i => i = n - (bf + 1))).eval x,
       (indPoly ω n (fun i => n - (bf + 1) < i)).eval x) := by
  have hn : 0 < n := by omega
  unfold lEvals
  simp only []
  rw [lIRange_spec hω hn, blindRots, List.map_map]
  have hrow : ∀ j : ℕ, j < bf + 1 → rowOf n ((j : ℤ) - ((bf : ℤ) + 1)) = n - (bf + 1) + j := by
    intro j hj
    unfold rowOf
    have h : ((j : ℤ) - ((bf : ℤ) + 1)) % (n : ℤ) = (n : ℤ) - ((bf : ℤ) + 1) + j := by
      rw [Int.emod_eq_iff (by omega)]
      refine ⟨by omega, by omega, ⟨1, by ring⟩⟩
    rw [h]; omega
  have hrow0 : rowOf n (((bf + 1 : ℕ) : ℤ) - ((bf : ℤ) + 1)) = 0 := by
    unfold rowOf; simp
  refine Prod.ext ?_ (Prod.ext ?_ ?_)
  · -- l_0
    simp only [List.getD_eq_getElem?_getD, List.getElem?_map, List.getElem?_range (by omega : 1 + bf < bf + 2),
      Option.map_some, Option.getD_some, Function.comp]
    rw [show 1 + bf = bf + 1 by omega, hrow0, eval_indPoly hω hn _ hx]
    rw [show (range n).filter (fun i => i = 0) = {0} by
      ext i; simp only [mem_filter, mem_range, mem_singleton]; omega]
    simp
  · -- l_last
    simp only [List.getD_eq_getElem?_getD, List.getElem?_map, List.getElem?_range (by omega : 0 < bf + 2),
      Option.map_some, Option.getD_some, Function.comp]
    rw [hrow 0 (by omega), Nat.add_zero, eval_indPoly hω hn _ hx]
    rw [show (range n).filter (fun i => i = n - (bf + 1)) = {n - (bf + 1)} by
      ext i; simp only [mem_filter, mem_range, mem_singleton]; omega]
    simp
  · -- l_blind
    have hdt : List.take bf (List.drop 1 ((List.range (bf + 2)).map ((fun r => lagrangeAt ω n x (rowOf n r)) ∘
          fun (j : ℕ) => (j : ℤ) - ((bf : ℤ) + 1)))) =
        (List.range bf).map (fun j => lagrangeAt ω n x (n - (bf + 1) + (j + 1))) := by
      rw [List.range_succ_eq_map, List.map_cons, List.drop_one, List.tail_cons, List.map_map,
        ← List.map_take, List.take_range, Nat.min_eq_left (by omega)]
      apply List.map_congr_left
      intro j hj
      have hj' : j < bf := List.mem_range.1 hj
      simp only [Function.comp]
      rw [show ((Nat.succ j : ℕ) : ℤ) = ((j + 1 : ℕ) : ℤ) by rfl, hrow (j + 1) (by omega)]
    simp only [] at hdt ⊢
    rw [hdt, foldl_add_map_range, eval_indPoly hω hn _ hx]
    have : (range n).filter (fun i => n - (bf + 1) < i) =
        (range bf).image (fun j => n - (bf + 1) + (j + 1)) := by
      ext i
      simp only [mem_filter, mem_range, mem_image]
      constructor
      · intro ⟨h1, h2⟩; exact ⟨i - (n - (bf + 1)) - 1, by omega, by omega⟩
      · rintro ⟨j, hj, rfl⟩; omega
    rw [this, sum_image (fun a _ b _ h => by omega)]

/-! ### instance evaluations computed by the verifier -/

theorem zpow_node_pow (hω : IsPrimitiveRoot ω n) (r : ℤ) : (ω ^ r) ^ n = 1 := by
  rw [← zpow_natCast, ← zpow_mul, mul_comm, zpow_mul, zpow_natCast, hω.pow_eq_one, one_zpow]

/-- `l_i(ω^r·x) = l_{i−r}(x)`: rotating the evaluation point shifts the Lagrange index. -/
theorem lagrangeAt_rot (hω : IsPrimitiveRoot ω n) (hn : 0 < n) (x : F) (r : ℤ) (i : ℕ) :
    lagrangeAt ω n (ω ^ r * x) i = lagrangeAt ω n x (rowOf n ((i : ℤ) - r)) := by
  have hw := omega_ne_zero hω hn
  have ha : ω ^ r ≠ 0 := zpow_ne_zero r hw
  unfold lagrangeAt
  rw [← zpow_eq_rowOf hω hn, zpow_sub₀ hw, zpow_natCast, mul_pow, zpow_node_pow hω, one_mul]
  have : ω ^ r * x - ω ^ i = ω ^ r * (x - ω ^ i / ω ^ r) := by field_simp
  rw [this, mul_inv]
  field_simp

theorem innerProduct_range' (g : ℕ → F) : ∀ (a : List F) (s : ℕ) (acc : F),
    ((a.zip ((List.range' s a.length).map g)).foldl (fun acc p => acc + p.1 * p.2) acc) =
      acc + ∑ k ∈ range a.length, a.getD k 0 * g (s + k)
  | [], s, acc => by simp
  | c :: t, s, acc => by
    simp only [List.length_cons, List.range'_succ, List.map_cons, List.zip_cons_cons, List.foldl_cons]
    rw [innerProduct_range' g t (s + 1), sum_range_succ', add_assoc]
    congr 1
    rw [add_comm]
    congr 1
    apply sum_congr rfl
    intro k _
    rw [List.getD_cons_succ, show s + 1 + k = s + (k + 1) by omega]

/-- **The instance evaluation the verifier computes itself** (`compute_inner_product` of a plain
instance column with a window of `l_i_range`) **is the evaluation at `ω^rot·x` of the interpolating
polynomial of the column** (values beyond the column's length are zero), for `x` off the domain. -/
theorem instanceEval_spec (hω : IsPrimitiveRoot ω n) (hn : 0 < n) {x : F} (hx : x ^ n ≠ 1)
    (maxRot minRotAbs maxLen : ℕ) (inst : List F) (hlen : inst.length ≤ maxLen) (hln : inst.length ≤ n)
    (rot : ℤ) (h1 : -(minRotAbs : ℤ) ≤ rot) (h2 : rot ≤ maxRot) :
    instanceEval (fun a => a⁻¹) ω ω⁻¹ (n : F)⁻¹ x (x ^ n) maxRot minRotAbs maxLen inst rot =
      eval (ω ^ rot * x)
        (Lagrange.interpolate (range n) (fun i : ℕ => ω ^ i) (fun i => inst.getD i 0)) := by
  have hx' : (ω ^ rot * x) ^ n ≠ 1 := by rw [mul_pow, zpow_node_pow hω, one_mul]; exact hx
  rw [eval_interpolate_domain hω hn _ hx']
  unfold instanceEval innerProduct
  simp only []
  rw [lIRange_spec hω hn, instRots, List.map_map]
  obtain ⟨off, hoff⟩ : ∃ off : ℕ, ((maxRot : ℤ) - rot) = off := ⟨((maxRot : ℤ) - rot).toNat, by omega⟩
  rw [hoff, Int.toNat_natCast]
  have hwin : List.take inst.length (List.drop off ((List.range (maxRot + maxLen + minRotAbs)).map
        ((fun r => lagrangeAt ω n x (rowOf n r)) ∘ fun (j : ℕ) => (j : ℤ) - (maxRot : ℤ)))) =
      (List.range' off inst.length).map (fun (j : ℕ) => lagrangeAt ω n x (rowOf n ((j : ℤ) - maxRot))) := by
    rw [← List.map_drop, ← List.map_take, List.range_eq_range', List.drop_range',
      List.take_range'_of_length_ge (by omega), Nat.zero_add, Nat.mul_one]
    rfl
  rw [hwin, innerProduct_range', zero_add]
  rw [← sum_subset (range_subset_range.2 hln)]
  · apply sum_congr rfl
    intro k _
    rw [lagrangeAt_rot hω hn]
    congr 3
    push_cast; omega
  · intro i _ hi
    rw [mem_range, not_lt] at hi
    rw [List.getD_eq_getElem?_getD, List.getElem?_eq_none hi, Option.getD_none, zero_mul]

end MidnightZK.C01.Asm
