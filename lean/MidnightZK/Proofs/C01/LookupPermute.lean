import MidnightZK.Model.C01.Arguments
import Mathlib.Data.List.Perm.Basic
import Mathlib.Data.List.Count
import Mathlib.Data.List.Nodup

/-!
# `permute_expression_pair` (lookup argument): functional correctness of the model

For a decidable linear order `le` (`LinOrd`), the model `permuteExpressionPair`

* succeeds whenever every usable input value occurs among the usable table values, returning
  the sorted input `A'` and a permutation `S'` of the table such that on every usable row
  `A'ᵢ = S'ᵢ` or `A'ᵢ = A'ᵢ₋₁` (`permute_ok`) — for every iteration order of the `HashMap`;
* returns `ConstraintSystemFailure` (never a panic) otherwise (`permute_fail`).
-/

set_option linter.unusedSectionVars false

namespace MidnightZK.C01
open Args

/-- `le` is a decidable linear order whose equal elements are identical (`Ord` of field elements). -/
structure LinOrd {α : Type} (le : α → α → Bool) : Prop where
  total : ∀ a b, le a b = true ∨ le b a = true
  trans : ∀ a b c, le a b = true → le b c = true → le a c = true
  antisymm : ∀ a b, le a b = true → le b a = true → a = b

namespace PermuteLemmas
variable {α : Type} [DecidableEq α]

/-! ### insertion sort -/

theorem insertSorted_perm (le : α → α → Bool) (x : α) (l : List α) :
    (insertSorted le x l).Perm (x :: l) := by
  induction l with
  | nil => simp [insertSorted]
  | cons y ys ih =>
    simp only [insertSorted]
    split
    · exact List.Perm.refl _
    · exact (List.Perm.cons y ih).trans (List.Perm.swap x y ys)

theorem insertSorted_sorted (le : α → α → Bool) (h : LinOrd le) (x : α) (l : List α)
    (hl : l.Pairwise (fun a b => le a b = true)) :
    (insertSorted le x l).Pairwise (fun a b => le a b = true) := by
  induction l with
  | nil => simp [insertSorted]
  | cons y ys ih =>
    simp only [insertSorted]
    rw [List.pairwise_cons] at hl
    split
    · rename_i hxy
      refine List.pairwise_cons.2 ⟨?_, List.pairwise_cons.2 hl⟩
      intro z hz
      rcases List.mem_cons.1 hz with rfl | hz
      · exact hxy
      · exact h.trans _ _ _ hxy (hl.1 z hz)
    · rename_i hxy
      have hyx : le y x = true := by
        rcases h.total x y with h1 | h1
        · exact absurd h1 hxy
        · exact h1
      refine List.pairwise_cons.2 ⟨?_, ih hl.2⟩
      intro z hz
      have hz' := (insertSorted_perm le x ys).subset hz
      rcases List.mem_cons.1 hz' with rfl | hz'
      · exact hyx
      · exact hl.1 z hz'

/-! ### association-list map -/

/-- The multiset represented by a count map. -/
def flat (m : List (α × Nat)) : List α := m.flatMap (fun kc => List.replicate kc.2 kc.1)

theorem flat_nil : flat ([] : List (α × Nat)) = [] := rfl

theorem flat_cons (k : α) (v : Nat) (t : List (α × Nat)) :
    flat ((k, v) :: t) = List.replicate v k ++ flat t := by
  simp [flat]

theorem flat_mapIncr (m : List (α × Nat)) (c : α) : (flat (mapIncr m c)).Perm (c :: flat m) := by
  induction m with
  | nil => simp [mapIncr, flat]
  | cons kv t ih =>
    obtain ⟨k, v⟩ := kv
    simp only [mapIncr]
    split
    · rename_i hk
      subst hk
      simp [flat_cons, List.replicate_succ]
    · rw [flat_cons, flat_cons]
      exact (List.Perm.append_left _ ih).trans List.perm_middle

theorem flat_foldl_mapIncr (l : List α) (m : List (α × Nat)) :
    (flat (l.foldl mapIncr m)).Perm (l ++ flat m) := by
  induction l generalizing m with
  | nil => simp
  | cons x xs ih =>
    simp only [List.foldl_cons]
    refine (ih (mapIncr m x)).trans ?_
    refine (List.Perm.append_left xs (flat_mapIncr m x)).trans ?_
    simp

theorem flat_mapDecr (m : List (α × Nat)) (x : α) (c : Nat) (h : mapGet m x = some (c + 1)) :
    (flat m).Perm (x :: flat (mapDecr m x)) := by
  induction m with
  | nil => simp [mapGet] at h
  | cons kv t ih =>
    obtain ⟨k, v⟩ := kv
    simp only [mapGet] at h
    simp only [mapDecr]
    split
    · rename_i hk
      subst hk
      simp only [if_true, Option.some.injEq] at h
      subst h
      simp [flat_cons, List.replicate_succ]
    · rename_i hk
      simp only [hk, if_false] at h
      rw [flat_cons, flat_cons]
      exact (List.Perm.append_left _ (ih h)).trans List.perm_middle

theorem mapGet_mapDecr_ne (m : List (α × Nat)) (x z : α) (h : z ≠ x) :
    mapGet (mapDecr m x) z = mapGet m z := by
  induction m with
  | nil => rfl
  | cons kv t ih =>
    obtain ⟨k, v⟩ := kv
    simp only [mapDecr]
    split
    · rename_i hk
      subst hk
      simp [mapGet, Ne.symm h]
    · simp [mapGet, ih]

theorem mapGet_mapDecr_none (m : List (α × Nat)) (x z : α) :
    mapGet (mapDecr m x) z = none ↔ mapGet m z = none := by
  induction m with
  | nil => simp [mapDecr]
  | cons kv t ih =>
    obtain ⟨k, v⟩ := kv
    simp only [mapDecr]
    split
    · simp only [mapGet]
      split <;> simp
    · simp only [mapGet]
      split
      · simp
      · exact ih

theorem mapGet_mapIncr_none (m : List (α × Nat)) (c z : α) :
    mapGet (mapIncr m c) z = none ↔ (z ≠ c ∧ mapGet m z = none) := by
  induction m with
  | nil =>
    simp only [mapIncr, mapGet]
    split
    · rename_i h; simp [h]
    · rename_i h; simp [Ne.symm h]
  | cons kv t ih =>
    obtain ⟨k, v⟩ := kv
    simp only [mapIncr]
    split
    · rename_i hk
      subst hk
      simp only [mapGet]
      split
      · rename_i h; simp
      · rename_i h; simp [Ne.symm h]
    · rename_i hk
      simp only [mapGet]
      split
      · rename_i h; subst h; simp
      · exact ih

theorem mapIncr_pos (m : List (α × Nat)) (c : α)
    (hm : ∀ kv ∈ m, kv.2 ≠ 0) : ∀ kv ∈ mapIncr m c, kv.2 ≠ 0 := by
  induction m with
  | nil => simp [mapIncr]
  | cons kv t ih =>
    obtain ⟨k, v⟩ := kv
    simp only [mapIncr]
    have ht : ∀ kv ∈ t, kv.2 ≠ 0 := fun kv h => hm kv (List.mem_cons_of_mem _ h)
    split
    · intro kv hkv
      rcases List.mem_cons.1 hkv with rfl | hkv
      · simp
      · exact ht kv hkv
    · intro kv hkv
      rcases List.mem_cons.1 hkv with rfl | hkv
      · exact hm _ (List.mem_cons_self ..)
      · exact ih ht kv hkv

theorem foldl_mapIncr_pos (l : List α) (m : List (α × Nat))
    (hm : ∀ kv ∈ m, kv.2 ≠ 0) : ∀ kv ∈ l.foldl mapIncr m, kv.2 ≠ 0 := by
  induction l generalizing m with
  | nil => simpa using hm
  | cons x xs ih => exact ih _ (mapIncr_pos m x hm)

theorem mapGet_mem (m : List (α × Nat)) (z : α) (v : Nat) (h : mapGet m z = some v) :
    ∃ k, (k, v) ∈ m := by
  induction m with
  | nil => simp [mapGet] at h
  | cons kv t ih =>
    obtain ⟨k, w⟩ := kv
    simp only [mapGet] at h
    split at h
    · simp only [Option.some.injEq] at h
      subst h
      exact ⟨k, List.mem_cons_self ..⟩
    · obtain ⟨k', hk'⟩ := ih h
      exact ⟨k', List.mem_cons_of_mem _ hk'⟩

theorem mapGet_foldl_ne_zero (l : List α) (z : α) :
    mapGet (l.foldl mapIncr []) z ≠ some 0 := by
  intro h
  obtain ⟨k, hk⟩ := mapGet_mem _ _ _ h
  exact foldl_mapIncr_pos l [] (by simp) _ hk rfl

theorem mapGet_foldl_none (l : List α) (m : List (α × Nat)) (z : α) :
    mapGet (l.foldl mapIncr m) z = none ↔ (z ∉ l ∧ mapGet m z = none) := by
  induction l generalizing m with
  | nil => simp
  | cons x xs ih =>
    simp only [List.foldl_cons, ih, mapGet_mapIncr_none, List.mem_cons, not_or]
    tauto

/-! ### the row walk `assignRows` -/

/-- Values handled as "first occurrence" by `assignRows`. -/
def firsts : Option α → List α → List α
  | _, [] => []
  | prev, x :: xs => if prev = some x then firsts (some x) xs else x :: firsts (some x) xs

theorem assignRows_cons_ok {zero : α} {prev : Option α} {row : Nat} {x : α} {xs : List α}
    {m : List (α × Nat)} {tab : List α} {rep : List Nat} {m' : List (α × Nat)}
    (h : assignRows zero prev row (x :: xs) m = .ok tab rep m') :
    (prev = some x ∧ ∃ tab1 rep1, assignRows zero (some x) (row + 1) xs m = .ok tab1 rep1 m' ∧
        tab = zero :: tab1 ∧ rep = row :: rep1) ∨
    (prev ≠ some x ∧ ∃ c tab1, mapGet m x = some (c + 1) ∧
        assignRows zero (some x) (row + 1) xs (mapDecr m x) = .ok tab1 rep m' ∧
        tab = x :: tab1) := by
  simp only [assignRows] at h
  split at h
  · rename_i hp
    left
    refine ⟨hp, ?_⟩
    split at h
    · rename_i tab1 rep1 m1 heq
      simp only [AssignResult.ok.injEq] at h
      obtain ⟨h1, h2, h3⟩ := h
      subst h3
      exact ⟨tab1, rep1, heq, h1.symm, h2.symm⟩
    · rename_i hne
      exact absurd h (hne _ _ _)
  · rename_i hp
    right
    refine ⟨hp, ?_⟩
    split at h
    · cases h
    · rename_i cnt hget
      split at h
      · cases h
      · rename_i hc
        split at h
        · rename_i tab1 rep1 m1 heq
          simp only [AssignResult.ok.injEq] at h
          obtain ⟨h1, h2, h3⟩ := h
          subst h2 h3
          obtain ⟨c, rfl⟩ := Nat.exists_eq_succ_of_ne_zero hc
          exact ⟨c, tab1, hget, heq, h1.symm⟩
        · rename_i hne
          exact absurd h (hne _ _ _)

theorem assignRows_length {zero : α} {xs : List α} : ∀ {prev : Option α} {row : Nat}
    {m : List (α × Nat)} {tab : List α} {rep : List Nat} {m' : List (α × Nat)},
    assignRows zero prev row xs m = .ok tab rep m' →
    tab.length = xs.length ∧ rep.length + (firsts prev xs).length = xs.length := by
  induction xs with
  | nil =>
    intro prev row m tab rep m' h
    simp only [assignRows, AssignResult.ok.injEq] at h
    obtain ⟨rfl, rfl, -⟩ := h
    simp [firsts]
  | cons x xs ih =>
    intro prev row m tab rep m' h
    rcases assignRows_cons_ok h with ⟨hp, tab1, rep1, h1, rfl, rfl⟩ | ⟨hp, c, tab1, -, h1, rfl⟩
    · have := ih h1
      simp only [firsts, hp, if_true, List.length_cons]
      omega
    · have := ih h1
      simp only [firsts, hp, if_false, List.length_cons]
      omega

theorem assignRows_tab_perm {zero : α} {xs : List α} : ∀ {prev : Option α} {row : Nat}
    {m : List (α × Nat)} {tab : List α} {rep : List Nat} {m' : List (α × Nat)},
    assignRows zero prev row xs m = .ok tab rep m' →
    tab.Perm (firsts prev xs ++ List.replicate rep.length zero) := by
  induction xs with
  | nil =>
    intro prev row m tab rep m' h
    simp only [assignRows, AssignResult.ok.injEq] at h
    obtain ⟨rfl, rfl, -⟩ := h
    simp [firsts]
  | cons x xs ih =>
    intro prev row m tab rep m' h
    rcases assignRows_cons_ok h with ⟨hp, tab1, rep1, h1, rfl, rfl⟩ | ⟨hp, c, tab1, -, h1, rfl⟩
    · have := ih h1
      simp only [firsts, hp, if_true, List.length_cons, List.replicate_succ]
      exact (List.Perm.cons zero this).trans List.perm_middle.symm
    · have := ih h1
      simp only [firsts, hp, if_false, List.cons_append]
      exact List.Perm.cons x this

theorem assignRows_flat {zero : α} {xs : List α} : ∀ {prev : Option α} {row : Nat}
    {m : List (α × Nat)} {tab : List α} {rep : List Nat} {m' : List (α × Nat)},
    assignRows zero prev row xs m = .ok tab rep m' →
    (flat m).Perm (firsts prev xs ++ flat m') := by
  induction xs with
  | nil =>
    intro prev row m tab rep m' h
    simp only [assignRows, AssignResult.ok.injEq] at h
    obtain ⟨-, -, rfl⟩ := h
    simp [firsts]
  | cons x xs ih =>
    intro prev row m tab rep m' h
    rcases assignRows_cons_ok h with ⟨hp, tab1, rep1, h1, rfl, rfl⟩ | ⟨hp, c, tab1, hg, h1, rfl⟩
    · have := ih h1
      simpa only [firsts, hp, if_true] using this
    · have := ih h1
      simp only [firsts, hp, if_false, List.cons_append]
      exact (flat_mapDecr m x c hg).trans (List.Perm.cons x this)

/-- Every recorded (repeated) row `row + j` holds `zero` in the table vector and its input value
equals the previous one. -/
theorem assignRows_rep {zero : α} {xs : List α} : ∀ {prev : Option α} {row : Nat}
    {m : List (α × Nat)} {tab : List α} {rep : List Nat} {m' : List (α × Nat)},
    assignRows zero prev row xs m = .ok tab rep m' →
    ∀ r ∈ rep, ∃ j, r = row + j ∧ j < xs.length ∧ tab[j]? = some zero ∧
      xs[j]? = (if j = 0 then prev else xs[j - 1]?) := by
  induction xs with
  | nil =>
    intro prev row m tab rep m' h
    simp only [assignRows, AssignResult.ok.injEq] at h
    obtain ⟨-, rfl, -⟩ := h
    simp
  | cons x xs ih =>
    intro prev row m tab rep m' h r hr
    have step : ∀ (hd : α) (tab1 : List α) (j : Nat), j < xs.length → tab1[j]? = some zero →
        xs[j]? = (if j = 0 then some x else xs[j - 1]?) →
        ∃ j', row + 1 + j = row + j' ∧ j' < (x :: xs).length ∧ (hd :: tab1)[j']? = some zero ∧
          (x :: xs)[j']? = (if j' = 0 then prev else (x :: xs)[j' - 1]?) := by
      intro hd tab1 j hj ht hx
      refine ⟨j + 1, by omega, by simp; omega, by simpa using ht, ?_⟩
      cases j with
      | zero => simpa using hx
      | succ k => simpa using hx
    rcases assignRows_cons_ok h with ⟨hp, tab1, rep1, h1, rfl, rfl⟩ | ⟨hp, c, tab1, -, h1, rfl⟩
    · rcases List.mem_cons.1 hr with rfl | hr
      · exact ⟨0, by simp, by simp, by simp, by simp [hp]⟩
      · obtain ⟨j, rfl, hj, ht, hx⟩ := ih h1 r hr
        exact step zero tab1 j hj ht hx
    · obtain ⟨j, rfl, hj, ht, hx⟩ := ih h1 r hr
      exact step x tab1 j hj ht hx

/-- Rows that are not recorded hold the input value. -/
theorem assignRows_nonrep {zero : α} {xs : List α} : ∀ {prev : Option α} {row : Nat}
    {m : List (α × Nat)} {tab : List α} {rep : List Nat} {m' : List (α × Nat)},
    assignRows zero prev row xs m = .ok tab rep m' →
    ∀ j, row + j ∉ rep → tab[j]? = xs[j]? := by
  induction xs with
  | nil =>
    intro prev row m tab rep m' h
    simp only [assignRows, AssignResult.ok.injEq] at h
    obtain ⟨rfl, -, -⟩ := h
    simp
  | cons x xs ih =>
    intro prev row m tab rep m' h j hj
    rcases assignRows_cons_ok h with ⟨hp, tab1, rep1, h1, rfl, rfl⟩ | ⟨hp, c, tab1, -, h1, rfl⟩
    · cases j with
      | zero => simp at hj
      | succ k =>
        simp only [List.getElem?_cons_succ]
        apply ih h1 k
        intro hk
        apply hj
        rw [show row + (k + 1) = row + 1 + k by omega]
        exact List.mem_cons_of_mem _ hk
    · cases j with
      | zero => simp
      | succ k =>
        simp only [List.getElem?_cons_succ]
        apply ih h1 k
        intro hk
        apply hj
        rw [show row + (k + 1) = row + 1 + k by omega]
        exact hk

theorem assignRows_rep_nodup {zero : α} {xs : List α} : ∀ {prev : Option α} {row : Nat}
    {m : List (α × Nat)} {tab : List α} {rep : List Nat} {m' : List (α × Nat)},
    assignRows zero prev row xs m = .ok tab rep m' → rep.Nodup := by
  induction xs with
  | nil =>
    intro prev row m tab rep m' h
    simp only [assignRows, AssignResult.ok.injEq] at h
    obtain ⟨-, rfl, -⟩ := h
    simp
  | cons x xs ih =>
    intro prev row m tab rep m' h
    rcases assignRows_cons_ok h with ⟨hp, tab1, rep1, h1, rfl, rfl⟩ | ⟨hp, c, tab1, -, h1, rfl⟩
    · refine List.nodup_cons.2 ⟨?_, ih h1⟩
      intro hr
      obtain ⟨j, hj, -⟩ := assignRows_rep h1 row hr
      omega
    · exact ih h1

/-! ### outcome of the walk -/

/-- A value missing from the map makes the walk fail (with an error or a panic). -/
theorem assignRows_missing {zero : α} {xs : List α} : ∀ {prev : Option α} {row : Nat}
    {m : List (α × Nat)}, (∃ z ∈ xs, prev ≠ some z ∧ mapGet m z = none) →
    ∀ tab rep m', assignRows zero prev row xs m ≠ .ok tab rep m' := by
  induction xs with
  | nil => intro prev row m h; simp at h
  | cons x xs ih =>
    intro prev row m hz tab rep m' h
    obtain ⟨z, hzmem, hzp, hzm⟩ := hz
    have key : ∀ m1, mapGet m1 z = none → (mapGet m x = none → False) →
        ∃ z ∈ xs, some x ≠ some z ∧ mapGet m1 z = none := by
      intro m1 hm1 hx
      rcases List.mem_cons.1 hzmem with rfl | hzmem
      · exact absurd hzm (fun h => hx h)
      · refine ⟨z, hzmem, ?_, hm1⟩
        intro hxz
        cases hxz
        exact hx hzm
    rcases assignRows_cons_ok h with ⟨hp, tab1, rep1, h1, rfl, rfl⟩ | ⟨hp, c, tab1, hg, h1, rfl⟩
    · by_cases hzx : z = x
      · subst hzx; exact hzp hp
      · rcases List.mem_cons.1 hzmem with rfl | hzmem
        · exact hzx rfl
        · exact ih ⟨z, hzmem, fun hh => hzx (Option.some.inj hh).symm, hzm⟩ _ _ _ h1
    · have hx : mapGet m x = none → False := by intro hh; rw [hh] at hg; cases hg
      exact ih (key (mapDecr m x) ((mapGet_mapDecr_none m x z).2 hzm) hx) _ _ _ h1

/-- If every input value is a key of the map, the walk does not return the error. -/
theorem assignRows_not_fail {zero : α} {xs : List α} : ∀ {prev : Option α} {row : Nat}
    {m : List (α × Nat)}, (∀ z ∈ xs, mapGet m z ≠ none) →
    assignRows zero prev row xs m ≠ .constraintSystemFailure := by
  induction xs with
  | nil => intro prev row m _; simp [assignRows]
  | cons x xs ih =>
    intro prev row m hz
    have hz' : ∀ z ∈ xs, mapGet m z ≠ none := fun z h => hz z (List.mem_cons_of_mem _ h)
    simp only [assignRows]
    split
    · have := ih (prev := some x) (row := row + 1) hz'
      split
      · simp
      · rename_i hne; exact this
    · have hx := hz x (List.mem_cons_self ..)
      split
      · rename_i hg; exact absurd hg hx
      · split
        · simp
        · have := ih (prev := some x) (row := row + 1) (m := mapDecr m x)
            (fun z h => fun hh => hz' z h ((mapGet_mapDecr_none m x z).1 hh))
          split
          · simp
          · exact this

/-- On a sorted input, starting from a map without zero counts at the values still to be
handled as first occurrences, `assert!(*count > 0)` never fires. -/
theorem assignRows_no_panic {le : α → α → Bool} (hle : LinOrd le) {zero : α} {xs : List α} :
    ∀ {prev : Option α} {row : Nat} {m : List (α × Nat)},
    (prev.toList ++ xs).Pairwise (fun a b => le a b = true) →
    (∀ z ∈ xs, prev ≠ some z → mapGet m z ≠ some 0) →
    assignRows zero prev row xs m ≠ .panic := by
  induction xs with
  | nil => intro prev row m _ _; simp [assignRows]
  | cons x xs ih =>
    intro prev row m hs hz
    have hs' : ((some x).toList ++ xs).Pairwise (fun a b => le a b = true) := by
      cases prev with
      | none => simpa using hs
      | some p =>
        simp only [Option.toList_some, List.singleton_append] at hs ⊢
        exact (List.pairwise_cons.1 hs).2
    simp only [assignRows]
    split
    · rename_i hp
      have := ih (row := row + 1) (m := m) hs'
        (fun z h hne => hz z (List.mem_cons_of_mem _ h) (by rw [hp]; exact hne))
      split
      · simp
      · exact this
    · rename_i hp
      split
      · simp
      · rename_i cnt hg
        split
        · rename_i hc
          subst hc
          exact absurd hg (hz x (List.mem_cons_self ..) hp)
        · have hinv : ∀ z ∈ xs, some x ≠ some z → mapGet (mapDecr m x) z ≠ some 0 := by
            intro z hzm hne
            have hzx : z ≠ x := fun hh => hne (by rw [hh])
            rw [mapGet_mapDecr_ne m x z hzx]
            apply hz z (List.mem_cons_of_mem _ hzm)
            intro hpz
            -- `prev = some z`, `z ≤ x ≤ z` hence `z = x`
            subst hpz
            simp only [Option.toList_some, List.singleton_append, List.pairwise_cons] at hs hs'
            have h1 : le z x = true := hs.1 x (List.mem_cons_self ..)
            have h2 : le x z = true := hs'.1 z hzm
            exact hzx (hle.antisymm _ _ h1 h2)
          have := ih (row := row + 1) (m := mapDecr m x) hs' hinv
          split
          · simp
          · exact this

/-! ### filling the repeated rows with the leftovers -/

theorem set_perm {z : α} (c : α) : ∀ (tab : List α) (r : Nat), tab[r]? = some z →
    (z :: tab.set r c).Perm (c :: tab) := by
  intro tab
  induction tab with
  | nil => intro r h; simp at h
  | cons a t ih =>
    intro r h
    cases r with
    | zero =>
      simp only [List.getElem?_cons_zero, Option.some.injEq] at h
      subst h
      simpa using List.Perm.swap c a t
    | succ k =>
      simp only [List.getElem?_cons_succ] at h
      simp only [List.set_cons_succ]
      exact (List.Perm.swap a z _).trans ((List.Perm.cons a (ih k h)).trans (List.Perm.swap c a t))

theorem fillLeftovers_spec (zero : α) : ∀ (st : List Nat) (tab lo : List α), st.Nodup →
    (∀ r ∈ st, tab[r]? = some zero) → lo.length = st.length →
    ∃ tab', fillLeftovers tab st lo = some (tab', []) ∧ tab'.length = tab.length ∧
      (tab' ++ List.replicate st.length zero).Perm (tab ++ lo) ∧
      (∀ j, j ∉ st → tab'[j]? = tab[j]?) := by
  intro st
  induction st with
  | nil =>
    intro tab lo _ _ hl
    have : lo = [] := List.length_eq_zero_iff.1 (by simpa using hl)
    subst this
    exact ⟨tab, by simp [fillLeftovers], rfl, by simp, fun _ _ => rfl⟩
  | cons r st ih =>
    intro tab lo hnd hz hl
    cases lo with
    | nil => simp at hl
    | cons c lo =>
      obtain ⟨hr, hnd'⟩ := List.nodup_cons.1 hnd
      have hz' : ∀ r' ∈ st, (tab.set r c)[r']? = some zero := by
        intro r' hr'
        have hne : r ≠ r' := fun hh => hr (hh ▸ hr')
        rw [List.getElem?_set_ne hne]
        exact hz r' (List.mem_cons_of_mem _ hr')
      obtain ⟨tab', hf, hlen, hperm, hout⟩ := ih (tab.set r c) lo hnd' hz' (by simpa using hl)
      refine ⟨tab', by simpa [fillLeftovers] using hf, by simpa using hlen, ?_, ?_⟩
      · have h1 : (zero :: tab.set r c).Perm (c :: tab) :=
          set_perm c tab r (hz r (List.mem_cons_self ..))
        simp only [List.length_cons, List.replicate_succ]
        refine List.perm_middle.trans ?_
        refine (List.Perm.cons zero hperm).trans ?_
        have h2 : (zero :: (tab.set r c ++ lo)).Perm (c :: (tab ++ lo)) := by
          simpa using List.Perm.append_right lo h1
        exact h2.trans List.perm_middle.symm
      · intro j hj
        have hjr : r ≠ j := fun hh => hj (hh ▸ List.mem_cons_self ..)
        rw [hout j (fun hh => hj (List.mem_cons_of_mem _ hh)), List.getElem?_set_ne hjr]

end PermuteLemmas

open PermuteLemmas

variable {α : Type} [DecidableEq α]

theorem sortList_perm (le : α → α → Bool) (l : List α) : (sortList le l).Perm l := by
  induction l with
  | nil => exact List.Perm.refl _
  | cons x xs ih =>
    exact (insertSorted_perm le x (sortList le xs)).trans (List.Perm.cons x ih)

theorem sortList_sorted (le : α → α → Bool) (h : LinOrd le) (l : List α) :
    (sortList le l).Pairwise (fun a b => le a b = true) := by
  induction l with
  | nil => exact List.Pairwise.nil
  | cons x xs ih => exact insertSorted_sorted le h x (sortList le xs) ih

/-- On a sorted input and a freshly counted table the walk never panics. -/
theorem perm_assign_no_panic (le : α → α → Bool) (hle : LinOrd le) (zero : α) (l T : List α) :
    assignRows zero none 0 (sortList le l) (T.foldl mapIncr []) ≠ .panic := by
  apply assignRows_no_panic hle
  · simpa using sortList_sorted le hle l
  · intro z _ _
    exact mapGet_foldl_ne_zero T z

/-- success case -/
theorem permute_ok (le : α → α → Bool) (hle : LinOrd le) (zero : α)
    (order : List (α × Nat) → List (α × Nat)) (horder : ∀ m, (order m).Perm m)
    (u : Nat) (A S blindA blindS : List α) (hA : u ≤ A.length) (hS : u ≤ S.length)
    (hsub : ∀ x ∈ A.take u, x ∈ S.take u) :
    ∃ S' : List α,
      permuteExpressionPair le zero order u A S blindA blindS
        = .ok (sortList le (A.take u) ++ blindA) (S' ++ blindS) ∧
      S'.Perm (S.take u) ∧
      (∀ i, i < u →
        (sortList le (A.take u))[i]? = S'[i]? ∨
        (0 < i ∧ (sortList le (A.take u))[i]? = (sortList le (A.take u))[i - 1]?)) := by
  have hlenA : (sortList le (A.take u)).length = u := by
    rw [(sortList_perm le (A.take u)).length_eq, List.length_take]; omega
  have hlenS : (S.take u).length = u := by rw [List.length_take]; omega
  -- the walk succeeds
  have hnp := perm_assign_no_panic le hle zero (A.take u) (S.take u)
  have hnf : assignRows zero none 0 (sortList le (A.take u)) ((S.take u).foldl mapIncr [])
      ≠ .constraintSystemFailure := by
    apply assignRows_not_fail
    intro z hz hnone
    have hzA : z ∈ A.take u := (sortList_perm le (A.take u)).subset hz
    exact ((mapGet_foldl_none (S.take u) [] z).1 hnone).1 (hsub z hzA)
  obtain ⟨tab, rep, m', hw⟩ : ∃ tab rep m',
      assignRows zero none 0 (sortList le (A.take u)) ((S.take u).foldl mapIncr [])
        = .ok tab rep m' := by
    cases hres : assignRows zero none 0 (sortList le (A.take u)) ((S.take u).foldl mapIncr []) with
    | ok tab rep m' => exact ⟨tab, rep, m', rfl⟩
    | constraintSystemFailure => exact absurd hres hnf
    | panic => exact absurd hres hnp
  -- facts about the walk
  obtain ⟨htablen, hreplen⟩ := assignRows_length hw
  have htabperm := assignRows_tab_perm hw
  have hflat := assignRows_flat hw
  have hrep := assignRows_rep hw
  have hnonrep := assignRows_nonrep hw
  have hnd := assignRows_rep_nodup hw
  have hflat0 : (flat ((S.take u).foldl mapIncr [])).Perm (S.take u) := by
    simpa [flat_nil] using flat_foldl_mapIncr (S.take u) []
  -- leftovers
  have hlo : ((order m').flatMap (fun kc => List.replicate kc.2 kc.1)).Perm (flat m') :=
    List.Perm.flatMap_right _ (horder m')
  generalize hlodef : (order m').flatMap (fun kc => List.replicate kc.2 kc.1) = lo at hlo
  have hlolen : lo.length = rep.reverse.length := by
    have h1 := hflat.length_eq
    have h2 := hflat0.length_eq
    have h3 := hlo.length_eq
    simp only [List.length_append, List.length_reverse] at *
    omega
  obtain ⟨tab', hfill, htab'len, hfillperm, hout⟩ :=
    fillLeftovers_spec zero rep.reverse tab lo (List.nodup_reverse.2 hnd)
      (by
        intro r hr
        obtain ⟨j, rfl, -, ht, -⟩ := hrep r (List.mem_reverse.1 hr)
        simpa using ht)
      hlolen
  refine ⟨tab', ?_, ?_, ?_⟩
  · simp only [permuteExpressionPair, hw, hlodef, hfill, List.isEmpty_nil, if_true]
  · rw [List.perm_iff_count]
    intro z
    have c1 := hfillperm.count_eq z
    have c2 := htabperm.count_eq z
    have c3 := hflat.count_eq z
    have c4 := hflat0.count_eq z
    have c5 := hlo.count_eq z
    simp only [List.count_append, List.length_reverse] at c1 c2 c3
    omega
  · intro i hi
    by_cases hir : i ∈ rep
    · right
      obtain ⟨j, hj, -, -, hx⟩ := hrep i hir
      have hji : j = i := by omega
      subst hji
      have hsome : (sortList le (A.take u))[j]? ≠ none := by
        rw [Ne, List.getElem?_eq_none_iff]; omega
      by_cases hj0 : j = 0
      · subst hj0
        simp only [if_true] at hx
        exact absurd hx hsome
      · simp only [hj0, if_false] at hx
        exact ⟨by omega, hx⟩
    · left
      rw [hout i (fun hh => hir (List.mem_reverse.1 hh))]
      exact (hnonrep i (by simpa using hir)).symm

/-- failure case: some usable input value does not occur among the usable table values -/
theorem permute_fail (le : α → α → Bool) (hle : LinOrd le) (zero : α)
    (order : List (α × Nat) → List (α × Nat))
    (u : Nat) (A S blindA blindS : List α)
    (hmiss : ∃ x ∈ A.take u, x ∉ S.take u) :
    permuteExpressionPair le zero order u A S blindA blindS = .constraintSystemFailure := by
  obtain ⟨x, hxA, hxS⟩ := hmiss
  have hnp := perm_assign_no_panic le hle zero (A.take u) (S.take u)
  have hnok := assignRows_missing (zero := zero) (prev := none) (row := 0)
    (xs := sortList le (A.take u)) (m := (S.take u).foldl mapIncr [])
    ⟨x, (sortList_perm le (A.take u)).symm.subset hxA, by simp,
      (mapGet_foldl_none (S.take u) [] x).2 ⟨hxS, rfl⟩⟩
  simp only [permuteExpressionPair]
  cases hres : assignRows zero none 0 (sortList le (A.take u)) ((S.take u).foldl mapIncr []) with
  | ok tab rep m' => exact absurd hres (hnok tab rep m')
  | constraintSystemFailure => rfl
  | panic => exact absurd hres hnp

/-! ### non-vacuity -/

theorem perm_natLinOrd : LinOrd (fun a b : Nat => decide (a ≤ b)) where
  total a b := by simp only [decide_eq_true_eq]; omega
  trans a b c := by simp only [decide_eq_true_eq]; omega
  antisymm a b := by simp only [decide_eq_true_eq]; omega

example : permuteExpressionPair (fun a b => decide (a ≤ b)) 0 List.reverse 4
    [3, 1, 3, 1, 9, 9] [1, 2, 3, 2, 7, 7] [100, 101] [200, 201]
    = .ok [1, 1, 3, 3, 100, 101] [1, 2, 3, 2, 200, 201] := by decide

example : ∃ S' : List Nat,
    permuteExpressionPair (fun a b => decide (a ≤ b)) 0 List.reverse 4
        [3, 1, 3, 1, 9, 9] [1, 2, 3, 2, 7, 7] [100, 101] [200, 201]
      = .ok (sortList (fun a b => decide (a ≤ b)) ([3, 1, 3, 1, 9, 9].take 4) ++ [100, 101])
          (S' ++ [200, 201]) ∧
    S'.Perm ([1, 2, 3, 2, 7, 7].take 4) ∧
    (∀ i, i < 4 →
      (sortList (fun a b => decide (a ≤ b)) ([3, 1, 3, 1, 9, 9].take 4))[i]? = S'[i]? ∨
      (0 < i ∧ (sortList (fun a b => decide (a ≤ b)) ([3, 1, 3, 1, 9, 9].take 4))[i]?
        = (sortList (fun a b => decide (a ≤ b)) ([3, 1, 3, 1, 9, 9].take 4))[i - 1]?)) :=
  permute_ok _ perm_natLinOrd 0 List.reverse (fun m => List.reverse_perm m) 4
    [3, 1, 3, 1, 9, 9] [1, 2, 3, 2, 7, 7] [100, 101] [200, 201] (by decide) (by decide) (by decide)

example : permuteExpressionPair (fun a b => decide (a ≤ b)) 0 List.reverse 4
    [3, 1, 5, 1, 9, 9] [1, 2, 3, 2, 5, 5] [100, 101] [200, 201] = .constraintSystemFailure :=
  permute_fail _ perm_natLinOrd 0 List.reverse 4 _ _ _ _ (by decide)

end MidnightZK.C01
