import MidnightZK.Model.C01.Arguments
import Mathlib.Algebra.Field.Basic
import Mathlib.Algebra.Field.Rat
import Mathlib.Algebra.BigOperators.Group.List.Basic
import Mathlib.Data.List.Perm.Basic
import Mathlib.Data.List.ProdSigma
import Mathlib.Data.List.Nodup
import Mathlib.Data.List.Range
import Mathlib.Logic.Equiv.Defs
import Mathlib.Tactic.Ring
import Mathlib.Tactic.LinearCombination
import Mathlib.Tactic.NormNum

/-!
# Permutation argument: completeness of the grand products, row by row

`permProducts` (`proofs/src/plonk/permutation/prover.rs: Argument::commit`) against
`permExpressionsRow` (`proofs/src/plonk/permutation.rs: expressions`), over any field, with
`inv x = x⁻¹` (`0⁻¹ = 0`, as `batch_invert`).

With `u = n − (bf+1)`, `zs = permProducts …` (arbitrary blinding values `rnd`), under
`1 ≤ chunkLen`, `bf + 1 ≤ n`, all columns and σ-columns of length `n`, and no vanishing
denominator `β·σ + γ + v` on the usable rows (`< u`):

* `permExpressionsRow_split`: the identities of a row are `permRuleFirst ++ permRuleLast ++
  permRuleChain ++ permRuleProd` (by `rfl`);
* `perm_rule_rows_pf`: first rule, chain rules and product rules vanish on every row, whatever the
  values and σ-labels are;
* `perm_last_value_pf`: `z_last[u] = permNum · permDen⁻¹`, the products of `v + β·label + γ` over all
  usable cells with the identity labels `δ^j·ω^i` resp. the σ-labels;
* `perm_last_complete_pf`: the last rule vanishes on every row when `permNum = permDen`;
* `perm_product_complete_pf`: all identities vanish on all rows when the (value, σ-label) pairs of
  the usable cells are a permutation of the (value, identity label) pairs;
* `sigma_invariant_pairs_perm_pf`: that hypothesis from a bijection `π` of the usable cells with
  `σ-label(c) = identity label(π c)` and `value(c) = value(π c)`.

Helper lemmas live in `MidnightZK.C01.PermLemmas`.
-/

namespace MidnightZK.C01
open Args

namespace PermLemmas

section Generic
variable {F : Type} [CommRing F]

theorem powN_eq_pow (x : F) : ∀ k : Nat, powN x k = x ^ k
  | 0 => by simp [powN]
  | k + 1 => by rw [powN, powN_eq_pow x k, pow_succ]

theorem getD_replicate_one (n i : Nat) (h : i < n) : (List.replicate n (1 : F)).getD i 0 = 1 := by
  simp [List.getD_eq_getElem?_getD, h]

theorem getD_map_lt (f : F → F) (l : List F) (i : Nat) (h : i < l.length) :
    (l.map f).getD i 0 = f (l.getD i 0) := by
  simp [List.getD_eq_getElem?_getD, List.getElem?_map, List.getElem?_eq_getElem h]

theorem getD_take_lt (l : List F) (m i : Nat) (h : i < m) : (l.take m).getD i 0 = l.getD i 0 := by
  simp [List.getD_eq_getElem?_getD, h]

theorem getD_append_lt (a b : List F) (i : Nat) (h : i < a.length) :
    (a ++ b).getD i 0 = a.getD i 0 := by
  simp [List.getD_eq_getElem?_getD, List.getElem?_append_left h]

theorem length_denCol (β γ : F) : ∀ (m v s : List F), (denCol β γ m v s).length = m.length
  | [], _, _ => by simp [denCol]
  | _ :: _, [], _ => by simp [denCol]
  | _ :: _, _ :: _, [] => by simp [denCol]
  | m :: ms, v :: vs, s :: ss => by simp [denCol, length_denCol β γ ms vs ss]

theorem getD_denCol (β γ : F) : ∀ (m v s : List F) (i : Nat), i < v.length → i < s.length →
    (denCol β γ m v s).getD i 0 = m.getD i 0 * (β * s.getD i 0 + γ + v.getD i 0)
  | [], _, _, _, _, _ => by simp [denCol]
  | _ :: _, [], _, _, h, _ => by simp at h
  | _ :: _, _ :: _, [], _, _, h => by simp at h
  | m :: ms, v :: vs, s :: ss, 0, _, _ => by simp [denCol]
  | m :: ms, v :: vs, s :: ss, i + 1, h1, h2 => by
    simp only [denCol, List.getD_cons_succ]
    exact getD_denCol β γ ms vs ss i (by simpa using h1) (by simpa using h2)

theorem length_numCol (β γ ω : F) : ∀ (dw : F) (m v : List F), (numCol β γ ω dw m v).length = m.length
  | _, [], _ => by simp [numCol]
  | _, _ :: _, [] => by simp [numCol]
  | dw, m :: ms, v :: vs => by simp [numCol, length_numCol β γ ω (dw * ω) ms vs]

theorem getD_numCol (β γ ω : F) : ∀ (dw : F) (m v : List F) (i : Nat), i < v.length →
    (numCol β γ ω dw m v).getD i 0 = m.getD i 0 * (dw * powN ω i * β + γ + v.getD i 0)
  | _, [], _, _, _ => by simp [numCol]
  | _, _ :: _, [], _, h => by simp at h
  | dw, m :: ms, v :: vs, 0, _ => by simp [numCol, powN]
  | dw, m :: ms, v :: vs, i + 1, h => by
    simp only [numCol, List.getD_cons_succ]
    rw [getD_numCol β γ ω (dw * ω) ms vs i (by simpa using h), powN_eq_pow, powN_eq_pow]
    ring

theorem length_scanMul : ∀ (z : F) (ms : List F), (scanMul z ms).length = ms.length + 1
  | _, [] => rfl
  | z, m :: ms => by simp [scanMul, length_scanMul (z * m) ms]

theorem getD_scanMul_zero (z : F) (ms : List F) : (scanMul z ms).getD 0 0 = z := by
  cases ms <;> simp [scanMul]

theorem getD_scanMul_succ : ∀ (ms : List F) (z : F) (k : Nat),
    (scanMul z ms).getD (k + 1) 0 = (scanMul z ms).getD k 0 * ms.getD k 0
  | [], _, _ => by simp [scanMul]
  | m :: ms, z, 0 => by
    simp only [scanMul, List.getD_cons_succ, List.getD_cons_zero, getD_scanMul_zero]
  | m :: ms, z, k + 1 => by
    simp only [scanMul, List.getD_cons_succ]
    exact getD_scanMul_succ ms (z * m) k

/-! ### one set of columns -/

/-- Product of the denominators `β·σ + γ + v` of the columns `cs` on row `i`. -/
def denRow (β γ : F) (i : Nat) (cs : List (List F × List F)) : F :=
  (cs.map fun c => β * c.2.getD i 0 + γ + c.1.getD i 0).prod

/-- Product of the numerators `dw_c·x·β + γ + v` of the columns `cs` on row `i` (`x = ω^i`),
`dw_c` starting at `dw` and multiplied by `δ` after every column. -/
def numRow (β γ δ x : F) (i : Nat) : F → List (List F × List F) → F
  | _, [] => 1
  | dw, c :: cs => (dw * x * β + γ + c.1.getD i 0) * numRow β γ δ x i (dw * δ) cs

theorem length_foldl_denCol (β γ : F) : ∀ (cs : List (List F × List F)) (mv : List F),
    (cs.foldl (fun mv c => denCol β γ mv c.1 c.2) mv).length = mv.length
  | [], _ => rfl
  | c :: cs, mv => by rw [List.foldl_cons, length_foldl_denCol β γ cs, length_denCol]

theorem getD_foldl_denCol (β γ : F) (i : Nat) : ∀ (cs : List (List F × List F)) (mv : List F),
    (∀ c ∈ cs, i < c.1.length ∧ i < c.2.length) →
    (cs.foldl (fun mv c => denCol β γ mv c.1 c.2) mv).getD i 0 = mv.getD i 0 * denRow β γ i cs
  | [], mv, _ => by simp [denRow]
  | c :: cs, mv, h => by
    rw [List.foldl_cons, getD_foldl_denCol β γ i cs _ (fun c hc => h c (List.mem_cons_of_mem _ hc)),
      getD_denCol β γ mv c.1 c.2 i (h c List.mem_cons_self).1 (h c List.mem_cons_self).2]
    simp only [denRow, List.map_cons, List.prod_cons]
    ring

theorem length_foldl_numCol (β γ δ ω : F) : ∀ (cs : List (List F × List F)) (mv : List F) (dw : F),
    (cs.foldl (fun (st : List F × F) c => (numCol β γ ω st.2 st.1 c.1, st.2 * δ)) (mv, dw)).1.length
      = mv.length
  | [], _, _ => rfl
  | c :: cs, mv, dw => by rw [List.foldl_cons, length_foldl_numCol β γ δ ω cs, length_numCol]

theorem snd_foldl_numCol (β γ δ ω : F) : ∀ (cs : List (List F × List F)) (mv : List F) (dw : F),
    (cs.foldl (fun (st : List F × F) c => (numCol β γ ω st.2 st.1 c.1, st.2 * δ)) (mv, dw)).2
      = dw * powN δ cs.length
  | [], _, _ => by simp [powN]
  | c :: cs, mv, dw => by
    rw [List.foldl_cons, snd_foldl_numCol β γ δ ω cs, List.length_cons, powN_eq_pow, powN_eq_pow]
    ring

theorem getD_foldl_numCol (β γ δ ω : F) (i : Nat) :
    ∀ (cs : List (List F × List F)) (mv : List F) (dw : F), (∀ c ∈ cs, i < c.1.length) →
    (cs.foldl (fun (st : List F × F) c => (numCol β γ ω st.2 st.1 c.1, st.2 * δ)) (mv, dw)).1.getD i 0
      = mv.getD i 0 * numRow β γ δ (powN ω i) i dw cs
  | [], mv, _, _ => by simp [numRow]
  | c :: cs, mv, dw, h => by
    rw [List.foldl_cons, getD_foldl_numCol β γ δ ω i cs _ _ (fun c hc => h c (List.mem_cons_of_mem _ hc)),
      getD_numCol β γ ω dw mv c.1 i (h c List.mem_cons_self)]
    simp only [numRow]
    ring

/-- `modified_values` after both column loops of `commit` (the multipliers of the running product). -/
def permSetMid (inv : F → F) (n : Nat) (β γ δ ω dw : F) (cs : List (List F × List F)) : List F :=
  (cs.foldl (fun (st : List F × F) c => (numCol β γ ω st.2 st.1 c.1, st.2 * δ))
    (((cs.foldl (fun mv c => denCol β γ mv c.1 c.2) (List.replicate n 1)).map inv), dw)).1

theorem permSet_fst (inv : F → F) (n bf : Nat) (β γ δ ω dw lastZ : F) (rnd : List F)
    (cs : List (List F × List F)) :
    (permSet inv n bf β γ δ ω dw lastZ rnd cs).1
      = (scanMul lastZ ((permSetMid inv n β γ δ ω dw cs).take (n - 1))).take (n - bf) ++ rnd := rfl

theorem permSet_snd (inv : F → F) (n bf : Nat) (β γ δ ω dw lastZ : F) (rnd : List F)
    (cs : List (List F × List F)) :
    (permSet inv n bf β γ δ ω dw lastZ rnd cs).2 = dw * powN δ cs.length := by
  simp only [permSet]
  exact snd_foldl_numCol β γ δ ω cs _ dw

theorem length_permSetMid (inv : F → F) (n : Nat) (β γ δ ω dw : F) (cs : List (List F × List F)) :
    (permSetMid inv n β γ δ ω dw cs).length = n := by
  rw [permSetMid, length_foldl_numCol, List.length_map, length_foldl_denCol, List.length_replicate]

theorem getD_permSetMid (inv : F → F) (n : Nat) (β γ δ ω dw : F) (cs : List (List F × List F))
    (hlen : ∀ c ∈ cs, c.1.length = n ∧ c.2.length = n) (i : Nat) (hi : i < n) :
    (permSetMid inv n β γ δ ω dw cs).getD i 0
      = inv (denRow β γ i cs) * numRow β γ δ (powN ω i) i dw cs := by
  rw [permSetMid, getD_foldl_numCol β γ δ ω i cs _ dw (fun c hc => by rw [(hlen c hc).1]; exact hi),
    getD_map_lt _ _ _ (by rw [length_foldl_denCol, List.length_replicate]; exact hi),
    getD_foldl_denCol β γ i cs _ (fun c hc => by rw [(hlen c hc).1, (hlen c hc).2]; exact ⟨hi, hi⟩),
    getD_replicate_one n i hi, one_mul]

/-- Rows below `n − bf` of `z` are those of the running product. -/
theorem permSet_getD_lt (inv : F → F) (n bf : Nat) (β γ δ ω dw lastZ : F) (rnd : List F)
    (cs : List (List F × List F)) (j : Nat) (hj : j < n - bf) :
    (permSet inv n bf β γ δ ω dw lastZ rnd cs).1.getD j 0
      = (scanMul lastZ ((permSetMid inv n β γ δ ω dw cs).take (n - 1))).getD j 0 := by
  rw [permSet_fst, getD_append_lt, getD_take_lt _ _ _ hj]
  rw [List.length_take, length_scanMul, List.length_take, length_permSetMid]
  omega

/-- (S3) `z[0] = last_z`. -/
theorem permSet_getD_zero (inv : F → F) (n bf : Nat) (β γ δ ω dw lastZ : F) (rnd : List F)
    (cs : List (List F × List F)) (hn : bf + 1 ≤ n) :
    (permSet inv n bf β γ δ ω dw lastZ rnd cs).1.getD 0 0 = lastZ := by
  rw [permSet_getD_lt _ _ _ _ _ _ _ _ _ _ _ _ (by omega), getD_scanMul_zero]

/-- (S4) `z[i+1] = z[i]·(inv(D_i)·N_i)` on the usable rows. -/
theorem permSet_getD_succ (inv : F → F) (n bf : Nat) (β γ δ ω dw lastZ : F) (rnd : List F)
    (cs : List (List F × List F)) (hlen : ∀ c ∈ cs, c.1.length = n ∧ c.2.length = n)
    (i : Nat) (hi : i < n - (bf + 1)) :
    (permSet inv n bf β γ δ ω dw lastZ rnd cs).1.getD (i + 1) 0
      = (permSet inv n bf β γ δ ω dw lastZ rnd cs).1.getD i 0
        * (inv (denRow β γ i cs) * numRow β γ δ (powN ω i) i dw cs) := by
  rw [permSet_getD_lt _ _ _ _ _ _ _ _ _ _ _ _ (by omega), permSet_getD_lt _ _ _ _ _ _ _ _ _ _ _ _ (by omega),
    getD_scanMul_succ, getD_take_lt _ _ _ (by omega), getD_permSetMid inv n β γ δ ω dw cs hlen i (by omega)]

/-- (S6) closed form of `z[k]`, `k ≤ u`. -/
theorem permSet_getD_prefix (inv : F → F) (n bf : Nat) (β γ δ ω dw lastZ : F) (rnd : List F)
    (cs : List (List F × List F)) (hn : bf + 1 ≤ n) (hlen : ∀ c ∈ cs, c.1.length = n ∧ c.2.length = n) :
    ∀ k, k ≤ n - (bf + 1) →
    (permSet inv n bf β γ δ ω dw lastZ rnd cs).1.getD k 0
      = lastZ * ((List.range k).map fun i =>
          inv (denRow β γ i cs) * numRow β γ δ (powN ω i) i dw cs).prod
  | 0, _ => by
    rw [permSet_getD_zero inv n bf β γ δ ω dw lastZ rnd cs hn, List.range_zero, List.map_nil,
      List.prod_nil, mul_one]
  | k + 1, hk => by
    rw [permSet_getD_succ inv n bf β γ δ ω dw lastZ rnd cs hlen k (by omega),
      permSet_getD_prefix inv n bf β γ δ ω dw lastZ rnd cs hn hlen k (by omega),
      List.range_succ, List.map_append, List.prod_append]
    simp only [List.map_cons, List.map_nil, List.prod_cons, List.prod_nil, mul_one]
    ring

/-! ### the verifier's `left`, `right` -/

theorem permLeft_eq (β γ : F) (i : Nat) : ∀ (cs : List (List F × List F)) (a : F),
    (cs.map fun c => (c.1.getD i 0, c.2.getD i 0)).foldl (fun acc c => acc * (c.1 + β * c.2 + γ)) a
      = a * denRow β γ i cs
  | [], a => by simp [denRow]
  | c :: cs, a => by
    rw [List.map_cons, List.foldl_cons, permLeft_eq β γ i cs]
    simp only [denRow, List.map_cons, List.prod_cons]
    ring

theorem permRight_eq (β γ δ x : F) (i : Nat) : ∀ (cs : List (List F × List F)) (a cd dw : F),
    cd = dw * x * β →
    ((cs.map fun c => (c.1.getD i 0, c.2.getD i 0)).foldl
      (fun (st : F × F) c => (st.1 * (c.1 + st.2 + γ), st.2 * δ)) (a, cd)).1
      = a * numRow β γ δ x i dw cs
  | [], a, _, _, _ => by simp [numRow]
  | c :: cs, a, cd, dw, h => by
    rw [List.map_cons, List.foldl_cons, permRight_eq β γ δ x i cs _ _ (dw * δ) (by rw [h]; ring)]
    simp only [numRow]
    rw [h]
    ring

/-- (S5) the product rule of one set on a usable row. -/
theorem permLeftRight_eq (β γ δ x : F) (i firstCol : Nat) (cs : List (List F × List F))
    (zNext zCur invD : F) (hD : invD * denRow β γ i cs = 1)
    (hz : zNext = zCur * (invD * numRow β γ δ x i (powN δ firstCol) cs)) :
    (permLeftRight β γ δ x firstCol zNext zCur (cs.map fun c => (c.1.getD i 0, c.2.getD i 0))).1
      = (permLeftRight β γ δ x firstCol zNext zCur (cs.map fun c => (c.1.getD i 0, c.2.getD i 0))).2 := by
  simp only [permLeftRight]
  rw [permLeft_eq, permRight_eq β γ δ x i cs zCur _ (powN δ firstCol) (by ring), hz]
  linear_combination (zCur * numRow β γ δ x i (powN δ firstCol) cs) * hD

end Generic
end PermLemmas

/-! ## Statement-level definitions -/

section Defs
variable {F : Type} [Field F]

/-- (value, σ-label) of every usable cell (rows `< u`) of the permutation columns. -/
def sigmaPairs (u : Nat) (cols : List (List F × List F)) : List (F × F) :=
  cols.flatMap fun c => (List.range u).map fun i => (c.1.getD i 0, c.2.getD i 0)

/-- (value, identity label `δ^j·ω^i`) of every usable cell; `j` = index of the column. -/
def idPairs (δ ω : F) (u : Nat) (cols : List (List F × List F)) : List (F × F) :=
  cols.zipIdx.flatMap fun cj => (List.range u).map fun i => (cj.1.1.getD i 0, powN δ cj.2 * powN ω i)

end Defs

namespace PermLemmas
section Loop
variable {F : Type} [Field F]

/-- `idPairs` with the column numbering starting at `k0`. -/
def idPairsFrom (δ ω : F) (u k0 : Nat) (cols : List (List F × List F)) : List (F × F) :=
  (cols.zipIdx k0).flatMap fun cj =>
    (List.range u).map fun i => (cj.1.1.getD i 0, powN δ cj.2 * powN ω i)

theorem idPairs_eq (δ ω : F) (u : Nat) (cols : List (List F × List F)) :
    idPairs δ ω u cols = idPairsFrom δ ω u 0 cols := rfl

def numProd (β γ δ ω : F) (u k0 : Nat) (cols : List (List F × List F)) : F :=
  ((idPairsFrom δ ω u k0 cols).map fun p => p.1 + β * p.2 + γ).prod

def denProd (β γ : F) (u : Nat) (cols : List (List F × List F)) : F :=
  ((sigmaPairs u cols).map fun p => p.1 + β * p.2 + γ).prod

theorem numProd_nil (β γ δ ω : F) (u k0 : Nat) : numProd β γ δ ω u k0 [] = 1 := by
  simp [numProd, idPairsFrom]

theorem denProd_nil (β γ : F) (u : Nat) : denProd β γ u [] = 1 := by
  simp [denProd, sigmaPairs]

theorem numProd_cons (β γ δ ω : F) (u k0 : Nat) (c : List F × List F) (cs : List (List F × List F)) :
    numProd β γ δ ω u k0 (c :: cs)
      = ((List.range u).map fun i => c.1.getD i 0 + β * (powN δ k0 * powN ω i) + γ).prod
        * numProd β γ δ ω u (k0 + 1) cs := by
  simp only [numProd, idPairsFrom, List.zipIdx_cons, List.flatMap_cons, List.map_append,
    List.prod_append, List.map_map]
  rfl

theorem denProd_cons (β γ : F) (u : Nat) (c : List F × List F) (cs : List (List F × List F)) :
    denProd β γ u (c :: cs)
      = ((List.range u).map fun i => c.1.getD i 0 + β * c.2.getD i 0 + γ).prod * denProd β γ u cs := by
  simp only [denProd, sigmaPairs, List.flatMap_cons, List.map_append, List.prod_append, List.map_map]
  rfl

theorem numProd_append (β γ δ ω : F) (u k0 : Nat) (a b : List (List F × List F)) :
    numProd β γ δ ω u k0 (a ++ b) = numProd β γ δ ω u k0 a * numProd β γ δ ω u (k0 + a.length) b := by
  simp only [numProd, idPairsFrom, List.zipIdx_append, List.flatMap_append, List.map_append,
    List.prod_append]

theorem denProd_append (β γ : F) (u : Nat) (a b : List (List F × List F)) :
    denProd β γ u (a ++ b) = denProd β γ u a * denProd β γ u b := by
  simp only [denProd, sigmaPairs, List.flatMap_append, List.map_append, List.prod_append]

/-- `∏_i ∏_c = ∏_c ∏_i` for the numerators. -/
theorem prod_numRow (β γ δ ω : F) (u : Nat) : ∀ (cs : List (List F × List F)) (k0 : Nat),
    ((List.range u).map fun i => numRow β γ δ (powN ω i) i (powN δ k0) cs).prod
      = numProd β γ δ ω u k0 cs
  | [], k0 => by simp only [numRow, numProd_nil, List.prod_map_one]
  | c :: cs, k0 => by
    simp only [numRow]
    rw [List.prod_map_mul, numProd_cons]
    congr 1
    · congr 2
      funext i
      ring
    · exact prod_numRow β γ δ ω u cs (k0 + 1)

/-- `∏_i ∏_c = ∏_c ∏_i` for the denominators. -/
theorem prod_denRow (β γ : F) (u : Nat) : ∀ (cs : List (List F × List F)),
    ((List.range u).map fun i => denRow β γ i cs).prod = denProd β γ u cs
  | [] => by simp only [denRow, List.map_nil, List.prod_nil, denProd_nil, List.prod_map_one]
  | c :: cs => by
    simp only [denRow, List.map_cons, List.prod_cons]
    rw [List.prod_map_mul, denProd_cons]
    congr 1
    · congr 2
      funext i
      ring
    · exact prod_denRow β γ u cs

theorem denRow_ne_zero (β γ : F) (i : Nat) : ∀ (cs : List (List F × List F)),
    (∀ c ∈ cs, β * c.2.getD i 0 + γ + c.1.getD i 0 ≠ 0) → denRow β γ i cs ≠ 0
  | [], _ => by simp [denRow]
  | c :: cs, h => by
    simp only [denRow, List.map_cons, List.prod_cons]
    exact mul_ne_zero (h c List.mem_cons_self)
      (denRow_ne_zero β γ i cs fun c hc => h c (List.mem_cons_of_mem _ hc))

/-- `z[u]` of one set over a field. -/
theorem permSet_getD_last (n bf : Nat) (β γ δ ω lastZ : F) (rnd : List F)
    (cs : List (List F × List F)) (k0 : Nat) (hn : bf + 1 ≤ n)
    (hlen : ∀ c ∈ cs, c.1.length = n ∧ c.2.length = n) :
    (permSet (fun x => x⁻¹) n bf β γ δ ω (powN δ k0) lastZ rnd cs).1.getD (n - (bf + 1)) 0
      = lastZ * (numProd β γ δ ω (n - (bf + 1)) k0 cs * (denProd β γ (n - (bf + 1)) cs)⁻¹) := by
  rw [permSet_getD_prefix _ n bf β γ δ ω _ lastZ rnd cs hn hlen _ (Nat.le_refl _), List.prod_map_mul,
    prod_numRow, ← prod_denRow, List.prod_inv, List.map_map, mul_comm (numProd _ _ _ _ _ _ _)]
  rfl

/-! ### the chunk loop -/

theorem permLoop_nil (inv : F → F) (chunkLen n bf : Nat) (β γ δ ω : F) (rnd : Nat → Nat → F)
    (fuel : Nat) (dw lastZ : F) (k : Nat) :
    permLoop inv chunkLen n bf β γ δ ω rnd fuel dw lastZ k [] = [] := by
  cases fuel <;> simp [permLoop]

theorem permLoop_succ (inv : F → F) (chunkLen n bf : Nat) (β γ δ ω : F) (rnd : Nat → Nat → F)
    (fuel : Nat) (dw lastZ : F) (k : Nat) (cols : List (List F × List F)) (h : cols ≠ []) :
    permLoop inv chunkLen n bf β γ δ ω rnd (fuel + 1) dw lastZ k cols
      = (permSet inv n bf β γ δ ω dw lastZ ((List.range bf).map (rnd k)) (cols.take chunkLen)).1 ::
        permLoop inv chunkLen n bf β γ δ ω rnd fuel
          (permSet inv n bf β γ δ ω dw lastZ ((List.range bf).map (rnd k)) (cols.take chunkLen)).2
          ((permSet inv n bf β γ δ ω dw lastZ ((List.range bf).map (rnd k)) (cols.take chunkLen)).1.getD
            (n - (bf + 1)) 0) (k + 1) (cols.drop chunkLen) := by
  simp [permLoop, h]

theorem chunks_nil {α : Type} (m fuel : Nat) : chunks m fuel ([] : List α) = [] := by
  cases fuel <;> simp [chunks]

theorem chunks_succ {α : Type} (m fuel : Nat) (l : List α) (h : l ≠ []) :
    chunks m (fuel + 1) l = l.take m :: chunks m fuel (l.drop m) := by
  simp [chunks, h]

/-- (a) the first vector of a run of the loop starts at the incoming `last_z`. -/
theorem loop_head (chunkLen n bf : Nat) (β γ δ ω : F) (rnd : Nat → Nat → F) (hn : bf + 1 ≤ n)
    (fuel : Nat) (dw lastZ : F) (k : Nat) (cols : List (List F × List F)) (z : List F)
    (h : (permLoop (fun x => x⁻¹) chunkLen n bf β γ δ ω rnd fuel dw lastZ k cols).head? = some z) :
    z.getD 0 0 = lastZ := by
  cases fuel with
  | zero => simp [permLoop] at h
  | succ fuel =>
    by_cases hc : cols = []
    · rw [hc, permLoop_nil] at h
      simp at h
    · rw [permLoop_succ _ _ _ _ _ _ _ _ _ _ _ _ _ _ hc, List.head?_cons, Option.some.injEq] at h
      rw [← h]
      exact permSet_getD_zero _ n bf β γ δ ω dw lastZ _ _ hn

theorem mem_zip_tail {α : Type} (z : α) (zs : List α) (p : α × α) (hp : p ∈ zs.zip (z :: zs)) :
    (zs.head? = some p.1 ∧ p.2 = z) ∨ p ∈ (zs.drop 1).zip zs := by
  cases zs with
  | nil => simp at hp
  | cons z' zs' =>
    rw [List.zip_cons_cons, List.mem_cons] at hp
    rcases hp with rfl | hp
    · left; simp
    · right; simpa using hp

/-- (b) consecutive vectors: `z_{s+1}[0] = z_s[u]`. -/
theorem loop_chain (chunkLen n bf : Nat) (β γ δ ω : F) (rnd : Nat → Nat → F) (hn : bf + 1 ≤ n) :
    ∀ (fuel : Nat) (dw lastZ : F) (k : Nat) (cols : List (List F × List F)),
    ∀ p ∈ ((permLoop (fun x => x⁻¹) chunkLen n bf β γ δ ω rnd fuel dw lastZ k cols).drop 1).zip
        (permLoop (fun x => x⁻¹) chunkLen n bf β γ δ ω rnd fuel dw lastZ k cols),
      p.1.getD 0 0 = p.2.getD (n - (bf + 1)) 0
  | 0, _, _, _, _ => by simp [permLoop]
  | fuel + 1, dw, lastZ, k, cols => by
    by_cases hc : cols = []
    · rw [hc, permLoop_nil]
      simp
    · rw [permLoop_succ _ _ _ _ _ _ _ _ _ _ _ _ _ _ hc]
      intro p hp
      rw [List.drop_one, List.tail_cons] at hp
      rcases mem_zip_tail _ _ p hp with ⟨h1, h2⟩ | h
      · rw [h2]
        exact loop_head chunkLen n bf β γ δ ω rnd hn _ _ _ _ _ _ h1
      · exact loop_chain chunkLen n bf β γ δ ω rnd hn fuel _ _ _ _ p h

/-- (c) the product rule of every set on every usable row. -/
theorem loop_prod (chunkLen n bf : Nat) (β γ δ ω : F) (rnd : Nat → Nat → F) :
    ∀ (fuel : Nat) (dw lastZ : F) (k : Nat) (cols : List (List F × List F)) (s0 : Nat),
    (∀ c ∈ cols, c.1.length = n ∧ c.2.length = n) →
    (∀ c ∈ cols, ∀ i, i < n - (bf + 1) → β * c.2.getD i 0 + γ + c.1.getD i 0 ≠ 0) →
    dw = powN δ (s0 * chunkLen) →
    ∀ p ∈ ((permLoop (fun x => x⁻¹) chunkLen n bf β γ δ ω rnd fuel dw lastZ k cols).zip
        (chunks chunkLen fuel cols)).zipIdx s0, ∀ i, i < n - (bf + 1) →
      (permLeftRight β γ δ (powN ω i) (p.2 * chunkLen) (p.1.1.getD ((i + 1) % n) 0) (p.1.1.getD i 0)
          (p.1.2.map fun c => (c.1.getD i 0, c.2.getD i 0))).1
        = (permLeftRight β γ δ (powN ω i) (p.2 * chunkLen) (p.1.1.getD ((i + 1) % n) 0) (p.1.1.getD i 0)
          (p.1.2.map fun c => (c.1.getD i 0, c.2.getD i 0))).2
  | 0, _, _, _, _, _, _, _, _ => by simp [permLoop]
  | fuel + 1, dw, lastZ, k, cols, s0, hlen, hden, hdw => by
    by_cases hc : cols = []
    · rw [hc, permLoop_nil]
      simp
    · rw [permLoop_succ _ _ _ _ _ _ _ _ _ _ _ _ _ _ hc, chunks_succ _ _ _ hc, List.zip_cons_cons,
        List.zipIdx_cons]
      intro p hp
      have hlenT : ∀ c ∈ cols.take chunkLen, c.1.length = n ∧ c.2.length = n :=
        fun c hc' => hlen c (List.mem_of_mem_take hc')
      rcases List.mem_cons.1 hp with rfl | hp
      · intro i hi
        have hmod : (i + 1) % n = i + 1 := Nat.mod_eq_of_lt (by omega)
        simp only [hmod]
        refine permLeftRight_eq β γ δ (powN ω i) i (s0 * chunkLen) (cols.take chunkLen) _ _
          ((denRow β γ i (cols.take chunkLen))⁻¹) (inv_mul_cancel₀ ?_) ?_
        · exact denRow_ne_zero β γ i _ fun c hc' => hden c (List.mem_of_mem_take hc') i hi
        · rw [← hdw]
          exact permSet_getD_succ _ n bf β γ δ ω dw lastZ _ _ hlenT i hi
      · by_cases hd : cols.drop chunkLen = []
        · rw [hd, chunks_nil, List.zip_nil_right] at hp
          simp at hp
        · have hlt : chunkLen < cols.length := by
            rcases Nat.lt_or_ge chunkLen cols.length with h | h
            · exact h
            · exact absurd (List.drop_eq_nil_iff.2 h) hd
          refine loop_prod chunkLen n bf β γ δ ω rnd fuel _ _ (k + 1) (cols.drop chunkLen) (s0 + 1)
            (fun c hc' => hlen c (List.mem_of_mem_drop hc'))
            (fun c hc' => hden c (List.mem_of_mem_drop hc')) ?_ p hp
          rw [permSet_snd, hdw, List.length_take, Nat.min_eq_left (Nat.le_of_lt hlt), powN_eq_pow,
            powN_eq_pow, powN_eq_pow, ← pow_add]
          congr 1
          ring

/-- (d) `z_last[u]` is the incoming `last_z` times the quotient of the products over all the
remaining columns. -/
theorem loop_last (chunkLen n bf : Nat) (β γ δ ω : F) (rnd : Nat → Nat → F) (hchunk : 1 ≤ chunkLen)
    (hn : bf + 1 ≤ n) :
    ∀ (fuel : Nat) (dw lastZ : F) (k : Nat) (cols : List (List F × List F)) (k0 : Nat),
    cols.length ≤ fuel → cols ≠ [] → (∀ c ∈ cols, c.1.length = n ∧ c.2.length = n) →
    dw = powN δ k0 →
    (permLoop (fun x => x⁻¹) chunkLen n bf β γ δ ω rnd fuel dw lastZ k cols).getLast?.map
        (fun z => z.getD (n - (bf + 1)) 0)
      = some (lastZ * (numProd β γ δ ω (n - (bf + 1)) k0 cols * (denProd β γ (n - (bf + 1)) cols)⁻¹))
  | 0, _, _, _, cols, _, hf, hc, _, _ => by
    exact absurd (List.eq_nil_of_length_eq_zero (Nat.le_zero.1 hf)) hc
  | fuel + 1, dw, lastZ, k, cols, k0, hf, hc, hlen, hdw => by
    have hlenT : ∀ c ∈ cols.take chunkLen, c.1.length = n ∧ c.2.length = n :=
      fun c hc' => hlen c (List.mem_of_mem_take hc')
    rw [permLoop_succ _ _ _ _ _ _ _ _ _ _ _ _ _ _ hc, List.getLast?_cons, hdw]
    have hset := permSet_getD_last n bf β γ δ ω lastZ ((List.range bf).map (rnd k))
      (cols.take chunkLen) k0 hn hlenT
    by_cases hd : cols.drop chunkLen = []
    · rw [hd, permLoop_nil]
      simp only [List.getLast?_nil, Option.getD_none, Option.map_some]
      rw [hset, List.take_of_length_le (List.drop_eq_nil_iff.1 hd)]
    · have ih := loop_last chunkLen n bf β γ δ ω rnd hchunk hn fuel
        (permSet (fun x => x⁻¹) n bf β γ δ ω (powN δ k0) lastZ ((List.range bf).map (rnd k))
          (cols.take chunkLen)).2
        ((permSet (fun x => x⁻¹) n bf β γ δ ω (powN δ k0) lastZ ((List.range bf).map (rnd k))
          (cols.take chunkLen)).1.getD (n - (bf + 1)) 0) (k + 1) (cols.drop chunkLen)
        (k0 + (cols.take chunkLen).length) (by rw [List.length_drop]; omega) hd
        (fun c hc' => hlen c (List.mem_of_mem_drop hc'))
        (by rw [permSet_snd, powN_eq_pow, powN_eq_pow, powN_eq_pow, pow_add])
      obtain ⟨w, hw, hw2⟩ := Option.map_eq_some_iff.1 ih
      rw [hw]
      simp only [Option.getD_some, Option.map_some]
      rw [hw2, hset]
      conv_rhs => rw [← List.take_append_drop chunkLen cols, numProd_append, denProd_append, mul_inv]
      congr 1
      ring

theorem prod_map_ne_zero {ι : Type} (f : ι → F) : ∀ (l : List ι), (∀ x ∈ l, f x ≠ 0) →
    (l.map f).prod ≠ 0
  | [], _ => by simp
  | a :: l, h => by
    rw [List.map_cons, List.prod_cons]
    exact mul_ne_zero (h a List.mem_cons_self)
      (prod_map_ne_zero f l fun x hx => h x (List.mem_cons_of_mem _ hx))

theorem denProd_ne_zero (β γ : F) (u : Nat) (cols : List (List F × List F))
    (hden : ∀ c ∈ cols, ∀ i, i < u → β * c.2.getD i 0 + γ + c.1.getD i 0 ≠ 0) :
    denProd β γ u cols ≠ 0 := by
  refine prod_map_ne_zero _ _ fun p hp => ?_
  simp only [sigmaPairs, List.mem_flatMap, List.mem_map, List.mem_range] at hp
  obtain ⟨c, hc, i, hi, rfl⟩ := hp
  intro h0
  apply hden c hc i hi
  simp only at h0
  linear_combination h0

end Loop
end PermLemmas

/-! ## The verifier's identities, group by group -/

section Main
variable {F : Type} [Field F]

/-- `∏ (value + β·(identity label) + γ)` over the usable cells. -/
def permNum (β γ δ ω : F) (u : Nat) (cols : List (List F × List F)) : F :=
  ((idPairs δ ω u cols).map fun p => p.1 + β * p.2 + γ).prod

/-- `∏ (value + β·(σ-label) + γ)` over the usable cells. -/
def permDen (β γ : F) (u : Nat) (cols : List (List F × List F)) : F :=
  ((sigmaPairs u cols).map fun p => p.1 + β * p.2 + γ).prod

set_option linter.unusedVariables false in
/-- `l_0·(1 − z_0)`. -/
def permRuleFirst (chunkLen n bf : Nat) (β γ δ ω : F) (cols : List (List F × List F))
    (zs : List (List F)) (i : Nat) : List F :=
  (zs.head?.map (fun z => (if i = 0 then 1 else 0) * (1 - z.getD i 0))).toList

set_option linter.unusedVariables false in
/-- `(z_last² − z_last)·l_last`. -/
def permRuleLast (chunkLen n bf : Nat) (β γ δ ω : F) (cols : List (List F × List F))
    (zs : List (List F)) (i : Nat) : List F :=
  (zs.getLast?.map (fun z =>
    (z.getD i 0 * z.getD i 0 - z.getD i 0) * (if i = n - (bf + 1) then 1 else 0))).toList

set_option linter.unusedVariables false in
/-- `(z_s − z_{s−1}(ω^{−(bf+1)}x))·l_0`, `s ≥ 1`. -/
def permRuleChain (chunkLen n bf : Nat) (β γ δ ω : F) (cols : List (List F × List F))
    (zs : List (List F)) (i : Nat) : List F :=
  ((zs.drop 1).zip zs).map (fun p =>
    (p.1.getD i 0 - p.2.getD ((i + (n - (bf + 1))) % n) 0) * (if i = 0 then 1 else 0))

/-- `(left_s − right_s)·(1 − (l_last + l_blind))` for every set. -/
def permRuleProd (chunkLen n bf : Nat) (β γ δ ω : F) (cols : List (List F × List F))
    (zs : List (List F)) (i : Nat) : List F :=
  ((zs.zip (chunks chunkLen cols.length cols)).zipIdx).map (fun p =>
    ((permLeftRight β γ δ (powN ω i) (p.2 * chunkLen) (p.1.1.getD ((i + 1) % n) 0) (p.1.1.getD i 0)
        (p.1.2.map (fun c => (c.1.getD i 0, c.2.getD i 0)))).1
      - (permLeftRight β γ δ (powN ω i) (p.2 * chunkLen) (p.1.1.getD ((i + 1) % n) 0) (p.1.1.getD i 0)
        (p.1.2.map (fun c => (c.1.getD i 0, c.2.getD i 0)))).2)
    * (1 - ((if i = n - (bf + 1) then 1 else 0) + (if n - (bf + 1) < i then 1 else 0))))

theorem permExpressionsRow_split (chunkLen n bf : Nat) (β γ δ ω : F) (cols : List (List F × List F))
    (zs : List (List F)) (i : Nat) :
    permExpressionsRow chunkLen n bf β γ δ ω cols zs i =
      permRuleFirst chunkLen n bf β γ δ ω cols zs i ++ permRuleLast chunkLen n bf β γ δ ω cols zs i ++
        permRuleChain chunkLen n bf β γ δ ω cols zs i ++ permRuleProd chunkLen n bf β γ δ ω cols zs i :=
  rfl

theorem permProducts_nil (chunkLen n bf : Nat) (β γ δ ω : F) (rnd : Nat → Nat → F) :
    permProducts (fun x : F => x⁻¹) chunkLen n bf β γ δ ω rnd [] = [] := rfl

theorem perm_first_rows (chunkLen n bf : Nat) (β γ δ ω : F) (rnd : Nat → Nat → F)
    (cols : List (List F × List F)) (hn : bf + 1 ≤ n) (i : Nat) :
    ∀ e ∈ permRuleFirst chunkLen n bf β γ δ ω cols
        (permProducts (fun x => x⁻¹) chunkLen n bf β γ δ ω rnd cols) i, e = 0 := by
  intro e he
  simp only [permRuleFirst, Option.mem_toList, Option.map_eq_some_iff] at he
  obtain ⟨z, hz, rfl⟩ := he
  have h0 := PermLemmas.loop_head chunkLen n bf β γ δ ω rnd hn _ _ _ _ _ z hz
  by_cases hi : i = 0
  · subst hi
    rw [h0]
    simp
  · simp [hi]

theorem perm_chain_rows (chunkLen n bf : Nat) (β γ δ ω : F) (rnd : Nat → Nat → F)
    (cols : List (List F × List F)) (hn : bf + 1 ≤ n) (i : Nat) :
    ∀ e ∈ permRuleChain chunkLen n bf β γ δ ω cols
        (permProducts (fun x => x⁻¹) chunkLen n bf β γ δ ω rnd cols) i, e = 0 := by
  intro e he
  simp only [permRuleChain, List.mem_map] at he
  obtain ⟨p, hp, rfl⟩ := he
  by_cases hi : i = 0
  · subst hi
    have h0 := PermLemmas.loop_chain chunkLen n bf β γ δ ω rnd hn _ _ _ _ _ p hp
    rw [Nat.zero_add, Nat.mod_eq_of_lt (by omega), h0]
    simp
  · simp [hi]

theorem perm_prod_rows (chunkLen n bf : Nat) (β γ δ ω : F) (rnd : Nat → Nat → F)
    (cols : List (List F × List F))
    (hlen : ∀ c ∈ cols, c.1.length = n ∧ c.2.length = n)
    (hden : ∀ c ∈ cols, ∀ i, i < n - (bf + 1) → β * c.2.getD i 0 + γ + c.1.getD i 0 ≠ 0) (i : Nat) :
    ∀ e ∈ permRuleProd chunkLen n bf β γ δ ω cols
        (permProducts (fun x => x⁻¹) chunkLen n bf β γ δ ω rnd cols) i, e = 0 := by
  intro e he
  simp only [permRuleProd, List.mem_map] at he
  obtain ⟨p, hp, rfl⟩ := he
  rcases Nat.lt_trichotomy i (n - (bf + 1)) with hi | hi | hi
  · have h0 := PermLemmas.loop_prod chunkLen n bf β γ δ ω rnd cols.length 1 1 0 cols 0 hlen hden
      (by rw [Nat.zero_mul]; rfl) p hp i hi
    rw [h0, sub_self, zero_mul]
  · rw [if_pos hi, if_neg (by omega)]
    simp
  · rw [if_neg (by omega), if_pos hi]
    simp

/-- 1. The first rule, the chain rules and the product rules hold on every row, whatever the
relation between the values and the σ-labels. -/
theorem perm_rule_rows_pf (chunkLen n bf : Nat) (β γ δ ω : F) (rnd : Nat → Nat → F)
    (cols : List (List F × List F)) (hchunk : 1 ≤ chunkLen) (hn : bf + 1 ≤ n)
    (hlen : ∀ c ∈ cols, c.1.length = n ∧ c.2.length = n)
    (hden : ∀ c ∈ cols, ∀ i, i < n - (bf + 1) → β * c.2.getD i 0 + γ + c.1.getD i 0 ≠ 0)
    (i : Nat) (hi : i < n) :
    ∀ e ∈ permRuleFirst chunkLen n bf β γ δ ω cols
          (permProducts (fun x => x⁻¹) chunkLen n bf β γ δ ω rnd cols) i ++
        permRuleChain chunkLen n bf β γ δ ω cols
          (permProducts (fun x => x⁻¹) chunkLen n bf β γ δ ω rnd cols) i ++
        permRuleProd chunkLen n bf β γ δ ω cols
          (permProducts (fun x => x⁻¹) chunkLen n bf β γ δ ω rnd cols) i, e = 0 := by
  intro e he
  have _ := hchunk
  have _ := hi
  rcases List.mem_append.1 he with he | he
  · rcases List.mem_append.1 he with he | he
    · exact perm_first_rows chunkLen n bf β γ δ ω rnd cols hn i e he
    · exact perm_chain_rows chunkLen n bf β γ δ ω rnd cols hn i e he
  · exact perm_prod_rows chunkLen n bf β γ δ ω rnd cols hlen hden i e he

/-- 2. `z_last[u] = ∏ numerators · (∏ denominators)⁻¹` over all usable cells of all columns
(for `cols = []` there is no product vector: `permProducts_nil`). -/
theorem perm_last_value_pf (chunkLen n bf : Nat) (β γ δ ω : F) (rnd : Nat → Nat → F)
    (cols : List (List F × List F)) (hchunk : 1 ≤ chunkLen) (hn : bf + 1 ≤ n)
    (hlen : ∀ c ∈ cols, c.1.length = n ∧ c.2.length = n) (hcols : cols ≠ []) :
    (permProducts (fun x => x⁻¹) chunkLen n bf β γ δ ω rnd cols).getLast?.map
        (fun z => z.getD (n - (bf + 1)) 0)
      = some (permNum β γ δ ω (n - (bf + 1)) cols * (permDen β γ (n - (bf + 1)) cols)⁻¹) := by
  have h := PermLemmas.loop_last chunkLen n bf β γ δ ω rnd hchunk hn cols.length 1 1 0 cols 0
    (Nat.le_refl _) hcols hlen rfl
  rw [one_mul] at h
  exact h

/-- 3. The last rule `(z_last² − z_last)·l_last` holds on every row when the two products agree. -/
theorem perm_last_complete_pf (chunkLen n bf : Nat) (β γ δ ω : F) (rnd : Nat → Nat → F)
    (cols : List (List F × List F)) (hchunk : 1 ≤ chunkLen) (hn : bf + 1 ≤ n)
    (hlen : ∀ c ∈ cols, c.1.length = n ∧ c.2.length = n)
    (hden : ∀ c ∈ cols, ∀ i, i < n - (bf + 1) → β * c.2.getD i 0 + γ + c.1.getD i 0 ≠ 0)
    (hprod : permNum β γ δ ω (n - (bf + 1)) cols = permDen β γ (n - (bf + 1)) cols)
    (i : Nat) (hi : i < n) :
    ∀ e ∈ permRuleLast chunkLen n bf β γ δ ω cols
        (permProducts (fun x => x⁻¹) chunkLen n bf β γ δ ω rnd cols) i, e = 0 := by
  intro e he
  have _ := hi
  simp only [permRuleLast, Option.mem_toList, Option.map_eq_some_iff] at he
  obtain ⟨z, hz, rfl⟩ := he
  by_cases hiu : i = n - (bf + 1)
  · have hcols : cols ≠ [] := by
      rintro rfl
      rw [permProducts_nil] at hz
      simp at hz
    have hv := perm_last_value_pf chunkLen n bf β γ δ ω rnd cols hchunk hn hlen hcols
    rw [hz, Option.map_some, Option.some.injEq, hprod,
      mul_inv_cancel₀ (show permDen β γ (n - (bf + 1)) cols ≠ 0 from
        PermLemmas.denProd_ne_zero β γ _ cols hden)] at hv
    rw [hiu, hv]
    simp
  · simp [hiu]

/-- 4. Completeness of the permutation argument: when the multiset of (value, σ-label) over the
usable cells equals the multiset of (value, identity label), all the identities hold on all rows. -/
theorem perm_product_complete_pf (chunkLen n bf : Nat) (β γ δ ω : F) (rnd : Nat → Nat → F)
    (cols : List (List F × List F)) (hchunk : 1 ≤ chunkLen) (hn : bf + 1 ≤ n)
    (hlen : ∀ c ∈ cols, c.1.length = n ∧ c.2.length = n)
    (hden : ∀ c ∈ cols, ∀ i, i < n - (bf + 1) → β * c.2.getD i 0 + γ + c.1.getD i 0 ≠ 0)
    (hperm : (sigmaPairs (n - (bf + 1)) cols).Perm (idPairs δ ω (n - (bf + 1)) cols))
    (i : Nat) (hi : i < n) :
    ∀ e ∈ permExpressionsRow chunkLen n bf β γ δ ω cols
        (permProducts (fun x => x⁻¹) chunkLen n bf β γ δ ω rnd cols) i, e = 0 := by
  intro e he
  have hprod : permNum β γ δ ω (n - (bf + 1)) cols = permDen β γ (n - (bf + 1)) cols :=
    ((hperm.map fun p : F × F => p.1 + β * p.2 + γ).prod_eq).symm
  rw [permExpressionsRow_split] at he
  rcases List.mem_append.1 he with he | he
  · rcases List.mem_append.1 he with he | he
    · rcases List.mem_append.1 he with he | he
      · exact perm_first_rows chunkLen n bf β γ δ ω rnd cols hn i e he
      · exact perm_last_complete_pf chunkLen n bf β γ δ ω rnd cols hchunk hn hlen hden hprod i hi e he
    · exact perm_chain_rows chunkLen n bf β γ δ ω rnd cols hn i e he
  · exact perm_prod_rows chunkLen n bf β γ δ ω rnd cols hlen hden i e he

end Main

/-! ## The hypothesis of `perm_product_complete_pf` from a bijection of the cells -/

namespace PermLemmas

theorem zipIdx_eq_finRange_map {α : Type} (l : List α) :
    l.zipIdx = (List.finRange l.length).map fun j => (l[j], j.val) := by
  apply List.ext_getElem
  · simp
  · intro i h1 h2
    simp [List.getElem_zipIdx]

theorem finRange_map_getElem' {α : Type} (l : List α) :
    ((List.finRange l.length).map fun j => l[j]) = l := by
  apply List.ext_getElem
  · simp
  · intro i h1 h2
    simp

theorem range_eq_finRange_map (u : Nat) : List.range u = (List.finRange u).map Fin.val := by
  apply List.ext_getElem
  · simp
  · intro i h1 h2
    simp

theorem flatMap_eq_finRange {α β : Type} (l : List α) (f : α → List β) :
    l.flatMap f = (List.finRange l.length).flatMap fun j => f l[j] := by
  have h := List.flatMap_map (fun j : Fin l.length => l[j]) f (List.finRange l.length)
  rw [finRange_map_getElem'] at h
  exact h

theorem map_perm_cells (m u : Nat) (π : Equiv.Perm (Fin m × Fin u)) :
    ((List.finRange m ×ˢ List.finRange u).map π).Perm (List.finRange m ×ˢ List.finRange u) := by
  refine (List.subperm_of_subset ?_ ?_).perm_of_length_le (by simp)
  · exact List.Nodup.map π.injective
      (List.Nodup.product (List.nodup_finRange m) (List.nodup_finRange u))
  · intro x _
    obtain ⟨a, b⟩ := x
    exact List.mem_product.2 ⟨List.mem_finRange a, List.mem_finRange b⟩

end PermLemmas

section Sigma
variable {F : Type} [Field F]

/-- 5. If `π` permutes the usable cells `(column j, row i)`, the σ-label of every cell is the
identity label `δ^j'·ω^i'` of its image `(j', i') = π (j, i)` and the value of every cell equals
the value of its image, then the (value, σ-label) pairs are a permutation of the
(value, identity label) pairs. -/
theorem sigma_invariant_pairs_perm_pf (δ ω : F) (u : Nat) (cols : List (List F × List F))
    (π : Equiv.Perm (Fin cols.length × Fin u))
    (hσ : ∀ (j : Fin cols.length) (i : Fin u),
      (cols[j]).2.getD i 0 = powN δ (π (j, i)).1 * powN ω (π (j, i)).2)
    (hv : ∀ (j : Fin cols.length) (i : Fin u),
      (cols[j]).1.getD i 0 = (cols[(π (j, i)).1]).1.getD (π (j, i)).2 0) :
    (sigmaPairs u cols).Perm (idPairs δ ω u cols) := by
  let g : Fin cols.length × Fin u → F × F :=
    fun p => ((cols[p.1]).1.getD p.2 0, powN δ p.1 * powN ω p.2)
  have h1 : idPairs δ ω u cols = (List.finRange cols.length ×ˢ List.finRange u).map g := by
    unfold idPairs
    rw [PermLemmas.zipIdx_eq_finRange_map cols, PermLemmas.range_eq_finRange_map u, List.flatMap_map]
    show _ = List.map g ((List.finRange cols.length).flatMap fun j => (List.finRange u).map fun i => (j, i))
    rw [List.map_flatMap]
    simp only [List.map_map]
    rfl
  have h2 : sigmaPairs u cols = ((List.finRange cols.length ×ˢ List.finRange u).map π).map g := by
    unfold sigmaPairs
    rw [PermLemmas.flatMap_eq_finRange cols, PermLemmas.range_eq_finRange_map u, List.map_map]
    show _ = List.map (g ∘ π) ((List.finRange cols.length).flatMap fun j => (List.finRange u).map fun i => (j, i))
    rw [List.map_flatMap]
    simp only [List.map_map]
    congr 1
    funext j
    congr 1
    funext i
    simp only [Function.comp_apply, g]
    rw [hσ j i, hv j i]
  rw [h1, h2]
  exact (PermLemmas.map_perm_cells _ _ π).map g

end Sigma

/-! ## Non-vacuity -/

section Example

/-- Columns of the non-vacuity instance: `n = 4`, `bf = 1` (`u = 2`), `δ = 2`, `ω = 3`: the usable
cells of the columns `[5,7,·,·]`, `[7,5,·,·]` are swapped crosswise by σ (σ-labels of column 0 =
identity labels `2·3^1, 2·3^0` of column 1, σ-labels of column 1 = identity labels `3^1, 3^0` of
column 0). -/
def exCols : List (List ℚ × List ℚ) := [([5, 7, 0, 0], [6, 2, 9, 27]), ([7, 5, 0, 0], [3, 1, 18, 54])]

theorem exCols_len : ∀ c ∈ exCols, c.1.length = 4 ∧ c.2.length = 4 := by
  intro c hc
  simp only [exCols, List.mem_cons, List.not_mem_nil, or_false] at hc
  rcases hc with rfl | rfl <;> exact ⟨rfl, rfl⟩

theorem exCols_den : ∀ c ∈ exCols, ∀ i, i < 4 - (1 + 1) → (1 : ℚ) * c.2.getD i 0 + 1 + c.1.getD i 0 ≠ 0 := by
  intro c hc j hj
  simp only [exCols, List.mem_cons, List.not_mem_nil, or_false] at hc
  have hj' : j = 0 ∨ j = 1 := by omega
  rcases hc with rfl | rfl <;> rcases hj' with rfl | rfl <;> norm_num

theorem exCols_perm : (sigmaPairs (4 - (1 + 1)) exCols).Perm (idPairs (2 : ℚ) 3 (4 - (1 + 1)) exCols) := by
  have h : sigmaPairs (4 - (1 + 1)) exCols = (idPairs (2 : ℚ) 3 (4 - (1 + 1)) exCols).reverse := by
    norm_num [exCols, sigmaPairs, idPairs, powN, List.range_succ, List.zipIdx_cons]
  rw [h]
  exact List.reverse_perm _

/-- All hypotheses of `perm_product_complete_pf` hold for `exCols` with `β = γ = 1`, one column per set. -/
example (rnd : Nat → Nat → ℚ) (i : Nat) (hi : i < 4) :
    ∀ e ∈ permExpressionsRow 1 4 1 (1 : ℚ) 1 2 3 exCols
        (permProducts (fun x => x⁻¹) 1 4 1 (1 : ℚ) 1 2 3 rnd exCols) i, e = 0 :=
  perm_product_complete_pf 1 4 1 (1 : ℚ) 1 2 3 rnd _ (Nat.le_refl 1) (by decide) exCols_len exCols_den exCols_perm i hi

end Example

end MidnightZK.C01
