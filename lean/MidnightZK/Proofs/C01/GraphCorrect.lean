import MidnightZK.Model.C01.GraphEval
/-!
Correctness of the expression-graph compiler (`addExpr`) with respect to `Expr.eval`.
Core only.
-/
namespace MidnightZK.C01.Graph
open Lean.Grind

set_option linter.unusedSectionVars false

variable {F : Type} [CommRing F] [DecidableEq F]

/-! ### denotation of a value source by fuel -/

def Calc.runWith (f : VS → F) : Calc → F
  | .add a b => f a + f b
  | .sub a b => f a - f b
  | .mul a b => f a * f b
  | .square a => f a * f a
  | .double a => f a + f a
  | .negate a => - f a
  | .store a => f a

theorem Calc.run_eq_runWith (g : G F) (env : Env F) (inter : List F) (c : Calc) :
    c.run g env inter = c.runWith (VS.get g env inter) := by
  cases c <;> rfl

/-- Value of a source, following intermediates through the calculations that define them. -/
def den (g : G F) (env : Env F) : Nat → VS → F
  | _, .const i => g.constants.getD i 0
  | _, .fixed c ri => env.fixed c (g.rotations.getD ri 0)
  | _, .advice c ri => env.advice c (g.rotations.getD ri 0)
  | _, .inst c ri => env.inst c (g.rotations.getD ri 0)
  | _, .chal i => env.challenge i
  | 0, .inter _ => 0
  | fuel + 1, .inter i =>
    match g.calcs[i]? with
    | none => 0
    | some c => c.runWith (den g env fuel)

/-! ### well-formedness -/

def WFvs (g : G F) (n : Nat) : VS → Prop
  | .const i => i < g.constants.length
  | .inter i => i < n
  | .fixed _ ri => ri < g.rotations.length
  | .advice _ ri => ri < g.rotations.length
  | .inst _ ri => ri < g.rotations.length
  | .chal _ => True

def WFcalc (g : G F) (n : Nat) : Calc → Prop
  | .add a b => WFvs g n a ∧ WFvs g n b
  | .sub a b => WFvs g n a ∧ WFvs g n b
  | .mul a b => WFvs g n a ∧ WFvs g n b
  | .square a => WFvs g n a
  | .double a => WFvs g n a
  | .negate a => WFvs g n a
  | .store a => WFvs g n a

structure WF (g : G F) : Prop where
  c0 : g.constants[0]? = some 0
  c1 : g.constants[1]? = some 1
  c2 : g.constants[2]? = some 2
  calcs : ∀ i c, g.calcs[i]? = some c → WFcalc g i c

theorem WFvs.mono {g : G F} {n m : Nat} {vs : VS} (h : WFvs g n vs) (hnm : n ≤ m) : WFvs g m vs := by
  cases vs <;> simp_all [WFvs] <;> omega

theorem WFcalc.mono {g : G F} {n m : Nat} {c : Calc} (h : WFcalc g n c) (hnm : n ≤ m) : WFcalc g m c := by
  cases c <;> simp_all [WFcalc] <;> (try constructor) <;> (first | exact WFvs.mono (by assumption) hnm | skip)
  all_goals first
    | exact WFvs.mono h.1 hnm
    | exact WFvs.mono h.2 hnm
    | exact WFvs.mono h hnm

/-- With enough fuel the denotation of a valid source does not depend on the fuel. -/
theorem den_fuel (g : G F) (env : Env F) (hg : WF g) :
    ∀ (n fuel₁ fuel₂ : Nat) (vs : VS), WFvs g n vs → n ≤ fuel₁ → n ≤ fuel₂ →
      den g env fuel₁ vs = den g env fuel₂ vs := by
  intro n
  induction n using Nat.strongRecOn with
  | _ n ih =>
    intro f1 f2 vs hvs h1 h2
    cases vs with
    | inter i =>
      simp only [WFvs] at hvs
      cases f1 with
      | zero => omega
      | succ f1 =>
        cases f2 with
        | zero => omega
        | succ f2 =>
          simp only [den]
          cases hc : g.calcs[i]? with
          | none => rfl
          | some c =>
            have hw := hg.calcs i c hc
            simp only []
            have key : ∀ v, WFvs g i v → den g env f1 v = den g env f2 v :=
              fun v hv => ih i hvs f1 f2 v hv (by omega) (by omega)
            cases c <;> simp only [Calc.runWith, WFcalc] at hw ⊢
            all_goals first
              | rw [key _ hw.1, key _ hw.2]
              | rw [key _ hw]
    | _ => cases f1 <;> cases f2 <;> rfl

/-! ### the evaluation loop computes the denotation -/

theorem runCalcs_spec (g : G F) (env : Env F) (hg : WF g) :
    ∀ (rest done : List Calc) (inter : List F), g.calcs = done ++ rest → inter.length = done.length →
      (∀ i, i < done.length → inter.getD i 0 = den g env (i + 1) (.inter i)) →
      let out := runCalcs g env rest inter
      out.length = g.calcs.length ∧ ∀ i, i < g.calcs.length → out.getD i 0 = den g env (i + 1) (.inter i) := by
  intro rest
  induction rest with
  | nil =>
    intro done inter hsplit hlen hval
    simp only [runCalcs]
    rw [hsplit, List.append_nil]
    exact ⟨hlen, hval⟩
  | cons c t ih =>
    intro done inter hsplit hlen hval
    simp only [runCalcs]
    apply ih (done ++ [c]) (inter ++ [c.run g env inter])
    · rw [hsplit]; simp
    · simp [hlen]
    · intro i hi
      simp only [List.length_append, List.length_singleton] at hi
      by_cases hlt : i < done.length
      · have hil : i < inter.length := by omega
        have : (inter ++ [c.run g env inter]).getD i 0 = inter.getD i 0 := by
          simp [List.getD_eq_getElem?_getD, List.getElem?_append_left hil]
        rw [this]
        exact hval i hlt
      · have hie : i = done.length := by omega
        subst hie
        have : (inter ++ [c.run g env inter]).getD done.length 0 = c.run g env inter := by
          simp [List.getD_eq_getElem?_getD, ← hlen]
        rw [this]
        have hci : g.calcs[done.length]? = some c := by rw [hsplit]; simp
        have hw := hg.calcs _ c hci
        simp only [den, hci, Calc.run_eq_runWith]
        have key : ∀ v, WFvs g done.length v → VS.get g env inter v = den g env done.length v := by
          intro v hv
          cases v with
          | inter j =>
            simp only [WFvs] at hv
            simp only [VS.get]
            rw [hval j hv]
            exact den_fuel g env hg (j + 1) (j + 1) done.length (.inter j) (by simp [WFvs]) (Nat.le_refl _) (by omega)
          | _ => cases hd : done.length <;> simp [VS.get, den]
        cases c <;> simp only [Calc.runWith, WFcalc] at hw ⊢
        all_goals first
          | rw [key _ hw.1, key _ hw.2]
          | rw [key _ hw]

/-- What `GraphEvaluator::evaluate` stores in intermediate `i` is the denotation of `i`. -/
theorem run_eq_den (g : G F) (env : Env F) (hg : WF g) (i : Nat) (hi : i < g.calcs.length) :
    (g.run env).getD i 0 = den g env (i + 1) (.inter i) := by
  have := runCalcs_spec g env hg g.calcs [] [] (by simp) rfl (by intro i hi; simp at hi)
  exact this.2 i hi

/-! ### extension of a graph -/

structure Ext (g g' : G F) : Prop where
  consts : g.constants <+: g'.constants
  rots : g.rotations <+: g'.rotations
  calcs : g.calcs <+: g'.calcs

theorem Ext.refl (g : G F) : Ext g g := ⟨List.prefix_refl _, List.prefix_refl _, List.prefix_refl _⟩

theorem Ext.trans {g₁ g₂ g₃ : G F} (h₁ : Ext g₁ g₂) (h₂ : Ext g₂ g₃) : Ext g₁ g₃ :=
  ⟨h₁.consts.trans h₂.consts, h₁.rots.trans h₂.rots, h₁.calcs.trans h₂.calcs⟩

theorem prefix_getElem? {α} {a b : List α} (h : a <+: b) {i : Nat} (hi : i < a.length) : b[i]? = a[i]? := by
  obtain ⟨t, rfl⟩ := h
  exact List.getElem?_append_left hi

theorem prefix_getD {α} {a b : List α} (h : a <+: b) {i : Nat} (hi : i < a.length) (d : α) :
    b.getD i d = a.getD i d := by
  simp [List.getD_eq_getElem?_getD, prefix_getElem? h hi]

theorem WFvs.ext {g g' : G F} (h : Ext g g') {n : Nat} {vs : VS} (hv : WFvs g n vs) : WFvs g' n vs := by
  have hc := h.consts.length_le
  have hr := h.rots.length_le
  cases vs <;> simp_all [WFvs] <;> omega

theorem WFcalc.ext {g g' : G F} (h : Ext g g') {n : Nat} {c : Calc} (hc : WFcalc g n c) : WFcalc g' n c := by
  cases c <;> simp only [WFcalc] at hc ⊢
  all_goals first
    | exact ⟨WFvs.ext h hc.1, WFvs.ext h hc.2⟩
    | exact WFvs.ext h hc

/-- Sources valid in `g` keep their denotation in every extension of `g`. -/
theorem den_ext {g g' : G F} (env : Env F) (h : Ext g g') (hg : WF g) :
    ∀ (fuel n : Nat) (vs : VS), WFvs g n vs → n ≤ g.calcs.length → den g' env fuel vs = den g env fuel vs := by
  intro fuel
  induction fuel with
  | zero =>
    intro n vs hv hn
    cases vs <;> simp only [den, WFvs] at hv ⊢
    all_goals first
      | rfl
      | rw [prefix_getD h.consts hv]
      | rw [prefix_getD h.rots hv]
  | succ f ih =>
    intro n vs hv hn
    cases vs with
    | inter i =>
      simp only [WFvs] at hv
      have hi : i < g.calcs.length := by omega
      simp only [den, prefix_getElem? h.calcs hi]
      cases hc : g.calcs[i]? with
      | none => rfl
      | some c =>
        have hw := hg.calcs i c hc
        have key : ∀ v, WFvs g i v → den g' env f v = den g env f v :=
          fun v hv' => ih i v hv' (by omega)
        cases c <;> simp only [Calc.runWith, WFcalc] at hw ⊢
        all_goals first
          | rw [key _ hw.1, key _ hw.2]
          | rw [key _ hw]
    | _ =>
      simp only [den, WFvs] at hv ⊢
      all_goals first
        | rfl
        | rw [prefix_getD h.consts hv]
        | rw [prefix_getD h.rots hv]

/-- Value of a source in a graph (enough fuel for every valid source). -/
def V (g : G F) (env : Env F) (vs : VS) : F := den g env g.calcs.length vs

def Valid (g : G F) (vs : VS) : Prop := WFvs g g.calcs.length vs

theorem V_ext {g g' : G F} (env : Env F) (h : Ext g g') (hg : WF g) {vs : VS}
    (hv : Valid g vs) : V g' env vs = V g env vs := by
  unfold V
  rw [den_ext env h hg _ _ vs hv (Nat.le_refl _)]
  exact den_fuel g env hg g.calcs.length _ _ vs hv h.calcs.length_le (Nat.le_refl _)

theorem Valid.ext {g g' : G F} (h : Ext g g') {vs : VS} (hv : Valid g vs) : Valid g' vs :=
  WFvs.mono (WFvs.ext h hv) h.calcs.length_le

theorem indexOf?_some {α} [DecidableEq α] (a : α) : ∀ (l : List α) (i : Nat), indexOf? a l = some i → l[i]? = some a
  | [], i, h => by simp [indexOf?] at h
  | b :: t, i, h => by
    simp only [indexOf?] at h
    split at h
    · next hb => cases h; simp [hb]
    · cases hi : indexOf? a t with
      | none => simp [hi] at h
      | some j =>
        simp only [hi, Option.map_some, Option.some.injEq] at h
        subst h
        simpa using indexOf?_some a t j hi

/-! ### the three `add_*` primitives -/

theorem WF.ext_consts {g : G F} (hg : WF g) (c : F) : WF { g with constants := g.constants ++ [c] } := by
  have hext : Ext g { g with constants := g.constants ++ [c] } :=
    ⟨List.prefix_append _ _, List.prefix_refl _, List.prefix_refl _⟩
  have h0 : 0 < g.constants.length := by
    have := hg.c0; cases hcs : g.constants <;> simp_all
  have h1 : 1 < g.constants.length := by
    have := hg.c1
    rcases hcs : g.constants with _ | ⟨a, _ | ⟨b, t⟩⟩ <;> simp_all
  have h2 : 2 < g.constants.length := by
    have := hg.c2
    rcases hcs : g.constants with _ | ⟨a, _ | ⟨b, _ | ⟨c', t⟩⟩⟩ <;> simp_all
  refine ⟨?_, ?_, ?_, ?_⟩
  · show (g.constants ++ [c])[0]? = some 0
    rw [List.getElem?_append_left h0]; exact hg.c0
  · show (g.constants ++ [c])[1]? = some 1
    rw [List.getElem?_append_left h1]; exact hg.c1
  · show (g.constants ++ [c])[2]? = some 2
    rw [List.getElem?_append_left h2]; exact hg.c2
  · intro i c' hc'
    exact WFcalc.ext hext (hg.calcs i c' hc')

theorem WF.ext_rots {g : G F} (hg : WF g) (r : Int) : WF { g with rotations := g.rotations ++ [r] } := by
  have hext : Ext g { g with rotations := g.rotations ++ [r] } :=
    ⟨List.prefix_refl _, List.prefix_append _ _, List.prefix_refl _⟩
  exact ⟨hg.c0, hg.c1, hg.c2, fun i c' hc' => WFcalc.ext hext (hg.calcs i c' hc')⟩

structure ConstRes (env : Env F) (g : G F) (c : F) (r : G F × VS) : Prop where
  ext : Ext g r.1
  wf : WF r.1
  valid : Valid r.1 r.2
  val : V r.1 env r.2 = c

theorem addConstant_spec (env : Env F) (g : G F) (hg : WF g) (c : F) : ConstRes env g c (addConstant g c) := by
  unfold addConstant
  cases hi : indexOf? c g.constants with
  | some i =>
    have hget := indexOf?_some c g.constants i hi
    have hlt : i < g.constants.length := by
      rcases Nat.lt_or_ge i g.constants.length with h | h
      · exact h
      · rw [List.getElem?_eq_none h] at hget; cases hget
    refine ⟨Ext.refl g, hg, ?_, ?_⟩
    · simpa [Valid, WFvs] using hlt
    · cases hl : g.calcs.length <;> simp [V, den, hl, List.getD_eq_getElem?_getD, hget]
  | none =>
    refine ⟨⟨List.prefix_append _ _, List.prefix_refl _, List.prefix_refl _⟩, hg.ext_consts c, ?_, ?_⟩
    · simp [Valid, WFvs]
    · simp only [V]
      cases hl : g.calcs.length <;> simp [den, List.getD_eq_getElem?_getD]

theorem addRotation_spec (g : G F) (hg : WF g) (r : Int) :
    Ext g (addRotation g r).1 ∧ WF (addRotation g r).1 ∧
    (addRotation g r).2 < (addRotation g r).1.rotations.length ∧
    (addRotation g r).1.rotations.getD (addRotation g r).2 0 = r ∧
    (addRotation g r).1.calcs = g.calcs := by
  unfold addRotation
  cases hi : indexOf? r g.rotations with
  | some i =>
    have hget := indexOf?_some r g.rotations i hi
    have hlt : i < g.rotations.length := by
      rcases Nat.lt_or_ge i g.rotations.length with h | h
      · exact h
      · rw [List.getElem?_eq_none h] at hget; cases hget
    exact ⟨Ext.refl g, hg, hlt, by simp [List.getD_eq_getElem?_getD, hget], rfl⟩
  | none =>
    refine ⟨⟨List.prefix_refl _, List.prefix_append _ _, List.prefix_refl _⟩, hg.ext_rots r, ?_, ?_, rfl⟩
    · simp
    · simp [List.getD_eq_getElem?_getD]

structure CalcRes (env : Env F) (g : G F) (c : Calc) (r : G F × VS) : Prop where
  ext : Ext g r.1
  wf : WF r.1
  valid : Valid r.1 r.2
  val : V r.1 env r.2 = c.runWith (V r.1 env)

theorem runWith_congr (c : Calc) (f f' : VS → F) (n : Nat) (g : G F) (hw : WFcalc g n c)
    (h : ∀ v, WFvs g n v → f v = f' v) : c.runWith f = c.runWith f' := by
  cases c <;> simp only [Calc.runWith, WFcalc] at hw ⊢
  all_goals first
    | rw [h _ hw.1, h _ hw.2]
    | rw [h _ hw]

theorem addCalc_spec (env : Env F) (g : G F) (hg : WF g) (c : Calc) (hc : WFcalc g g.calcs.length c) :
    CalcRes env g c (addCalc g c) := by
  unfold addCalc
  cases hi : indexOf? c g.calcs with
  | some i =>
    have hget := indexOf?_some c g.calcs i hi
    have hlt : i < g.calcs.length := by
      rcases Nat.lt_or_ge i g.calcs.length with h | h
      · exact h
      · rw [List.getElem?_eq_none h] at hget; cases hget
    refine ⟨Ext.refl g, hg, ?_, ?_⟩
    · simpa [Valid, WFvs] using hlt
    · simp only [V]
      obtain ⟨k, hk⟩ : ∃ k, g.calcs.length = k + 1 := ⟨g.calcs.length - 1, by omega⟩
      rw [hk]
      simp only [den, hget]
      have hw := hg.calcs i c hget
      apply runWith_congr c _ _ i g hw
      intro v hv
      exact den_fuel g env hg i _ _ v hv (by omega) (by omega)
  | none =>
    have hext : Ext g { g with calcs := g.calcs ++ [c] } :=
      ⟨List.prefix_refl _, List.prefix_refl _, List.prefix_append _ _⟩
    have hwf : WF { g with calcs := g.calcs ++ [c] } := by
      refine ⟨hg.c0, hg.c1, hg.c2, ?_⟩
      intro i c' hc'
      by_cases hlt : i < g.calcs.length
      · have : (g.calcs ++ [c])[i]? = g.calcs[i]? := List.getElem?_append_left hlt
        exact WFcalc.ext hext (hg.calcs i c' (by rw [← this]; exact hc'))
      · have hge : g.calcs.length ≤ i := by omega
        have hc'' : (g.calcs ++ [c])[i]? = some c' := hc'
        rw [List.getElem?_append_right hge] at hc''
        have hi0 : i - g.calcs.length = 0 := by
          rcases Nat.eq_zero_or_pos (i - g.calcs.length) with h | h
          · exact h
          · rw [List.getElem?_eq_none (by simp; omega)] at hc''; cases hc''
        have hie : i = g.calcs.length := by omega
        rw [hi0] at hc''
        simp only [List.getElem?_cons_zero, Option.some.injEq] at hc''
        subst hc''; subst hie
        exact WFcalc.ext hext hc
    refine ⟨hext, hwf, ?_, ?_⟩
    · simp [Valid, WFvs]
    · simp only [V, List.length_append, List.length_singleton]
      have hget : (g.calcs ++ [c])[g.calcs.length]? = some c := by simp
      simp only [den, hget]
      have hw : WFcalc { g with calcs := g.calcs ++ [c] } g.calcs.length c := WFcalc.ext hext hc
      apply runWith_congr c _ _ g.calcs.length _ hw
      intro v hv
      exact den_fuel _ env hwf g.calcs.length _ _ v hv (Nat.le_refl _) (by simp)

/-! ### the compiler -/

structure Res (env : Env F) (g : G F) (x : F) (r : G F × VS) : Prop where
  ext : Ext g r.1
  wf : WF r.1
  valid : Valid r.1 r.2
  val : V r.1 env r.2 = x

theorem V_const (g : G F) (env : Env F) (i : Nat) (c : F) (h : g.constants[i]? = some c) :
    V g env (.const i) = c := by
  cases hl : g.calcs.length <;> simp [V, den, hl, List.getD_eq_getElem?_getD, h]

theorem Valid_const (g : G F) (i : Nat) (c : F) (h : g.constants[i]? = some c) : Valid g (.const i) := by
  simp only [Valid, WFvs]
  rcases Nat.lt_or_ge i g.constants.length with h' | h'
  · exact h'
  · rw [List.getElem?_eq_none h'] at h; cases h

theorem Res.ofCalc {env : Env F} {g g₂ : G F} {c : Calc} {x : F} (hext : Ext g g₂)
    (hr : CalcRes env g₂ c (addCalc g₂ c)) (hx : c.runWith (V (addCalc g₂ c).1 env) = x) :
    Res env g x (addCalc g₂ c) :=
  ⟨hext.trans hr.ext, hr.wf, hr.valid, hr.val.trans hx⟩

def negGeneric (g : G F) (ra : VS) : G F × VS :=
  if ra = .const 0 then (g, ra) else addCalc g (.negate ra)

theorem negGeneric_spec (env : Env F) (g₀ g : G F) (ra : VS) (x : F) (hext : Ext g₀ g) (hg : WF g)
    (hva : Valid g ra) (hxa : V g env ra = x) : Res env g₀ (-x) (negGeneric g ra) := by
  unfold negGeneric
  split
  · next h =>
    subst h
    have : x = 0 := by rw [← hxa]; exact V_const g env 0 0 hg.c0
    subst this
    exact ⟨hext, hg, hva, by rw [hxa]; grind⟩
  · have hr := addCalc_spec env g hg (.negate ra) hva
    apply Res.ofCalc hext hr
    simp only [Calc.runWith]
    rw [V_ext env hr.ext hg hva, hxa]

def subGeneric (g : G F) (ra rb : VS) : G F × VS :=
  if ra = .const 0 then addCalc g (.negate rb)
  else if rb = .const 0 then (g, ra)
  else addCalc g (.sub ra rb)

theorem subGeneric_spec (env : Env F) (g₀ g : G F) (ra rb : VS) (x y : F) (hext : Ext g₀ g) (hg : WF g)
    (hva : Valid g ra) (hvb : Valid g rb) (hxa : V g env ra = x) (hxb : V g env rb = y) :
    Res env g₀ (x + -y) (subGeneric g ra rb) := by
  unfold subGeneric
  split
  · next h =>
    subst h
    have : x = 0 := by rw [← hxa]; exact V_const g env 0 0 hg.c0
    subst this
    have hr := addCalc_spec env g hg (.negate rb) hvb
    apply Res.ofCalc hext hr
    simp only [Calc.runWith]
    rw [V_ext env hr.ext hg hvb, hxb]; grind
  · split
    · next h =>
      subst h
      have : y = 0 := by rw [← hxb]; exact V_const g env 0 0 hg.c0
      subst this
      exact ⟨hext, hg, hva, by rw [hxa]; grind⟩
    · have hr := addCalc_spec env g hg (.sub ra rb) ⟨hva, hvb⟩
      apply Res.ofCalc hext hr
      simp only [Calc.runWith]
      rw [V_ext env hr.ext hg hva, V_ext env hr.ext hg hvb, hxa, hxb]; grind

def sumGeneric (le : VS → VS → Bool) (g : G F) (ra rb : VS) : G F × VS :=
  if ra = .const 0 then (g, rb)
  else if rb = .const 0 then (g, ra)
  else if le ra rb then addCalc g (.add ra rb) else addCalc g (.add rb ra)

theorem sumGeneric_spec (le : VS → VS → Bool) (env : Env F) (g₀ g : G F) (ra rb : VS) (x y : F)
    (hext : Ext g₀ g) (hg : WF g)
    (hva : Valid g ra) (hvb : Valid g rb) (hxa : V g env ra = x) (hxb : V g env rb = y) :
    Res env g₀ (x + y) (sumGeneric le g ra rb) := by
  unfold sumGeneric
  split
  · next h =>
    subst h
    have : x = 0 := by rw [← hxa]; exact V_const g env 0 0 hg.c0
    subst this
    exact ⟨hext, hg, hvb, by rw [hxb]; grind⟩
  · split
    · next h =>
      subst h
      have : y = 0 := by rw [← hxb]; exact V_const g env 0 0 hg.c0
      subst this
      exact ⟨hext, hg, hva, by rw [hxa]; grind⟩
    · split
      · have hr := addCalc_spec env g hg (.add ra rb) ⟨hva, hvb⟩
        apply Res.ofCalc hext hr
        simp only [Calc.runWith]
        rw [V_ext env hr.ext hg hva, V_ext env hr.ext hg hvb, hxa, hxb]
      · have hr := addCalc_spec env g hg (.add rb ra) ⟨hvb, hva⟩
        apply Res.ofCalc hext hr
        simp only [Calc.runWith]
        rw [V_ext env hr.ext hg hva, V_ext env hr.ext hg hvb, hxa, hxb]; grind

def prodGeneric (le : VS → VS → Bool) (g : G F) (ra rb : VS) : G F × VS :=
  if ra = .const 0 ∨ rb = .const 0 then (g, .const 0)
  else if ra = .const 1 then (g, rb)
  else if rb = .const 1 then (g, ra)
  else if ra = .const 2 then addCalc g (.double rb)
  else if rb = .const 2 then addCalc g (.double ra)
  else if ra = rb then addCalc g (.square ra)
  else if le ra rb then addCalc g (.mul ra rb) else addCalc g (.mul rb ra)

theorem prodGeneric_spec (le : VS → VS → Bool) (env : Env F) (g₀ g : G F) (ra rb : VS) (x y : F)
    (hext : Ext g₀ g) (hg : WF g)
    (hva : Valid g ra) (hvb : Valid g rb) (hxa : V g env ra = x) (hxb : V g env rb = y) :
    Res env g₀ (x * y) (prodGeneric le g ra rb) := by
  unfold prodGeneric
  have v0 := V_const g env 0 0 hg.c0
  have v1 := V_const g env 1 1 hg.c1
  have v2 := V_const g env 2 2 hg.c2
  split
  · next h =>
    refine ⟨hext, hg, Valid_const g 0 0 hg.c0, ?_⟩
    rw [v0]
    rcases h with h | h
    · subst h; rw [v0] at hxa; subst hxa; grind
    · subst h; rw [v0] at hxb; subst hxb; grind
  · split
    · next h => subst h; rw [v1] at hxa; subst hxa; exact ⟨hext, hg, hvb, by rw [hxb]; grind⟩
    · split
      · next h => subst h; rw [v1] at hxb; subst hxb; exact ⟨hext, hg, hva, by rw [hxa]; grind⟩
      · split
        · next h =>
          subst h; rw [v2] at hxa; subst hxa
          have hr := addCalc_spec env g hg (.double rb) hvb
          apply Res.ofCalc hext hr
          simp only [Calc.runWith]
          rw [V_ext env hr.ext hg hvb, hxb]; grind
        · split
          · next h =>
            subst h; rw [v2] at hxb; subst hxb
            have hr := addCalc_spec env g hg (.double ra) hva
            apply Res.ofCalc hext hr
            simp only [Calc.runWith]
            rw [V_ext env hr.ext hg hva, hxa]; grind
          · split
            · next h =>
              subst h
              have hr := addCalc_spec env g hg (.square ra) hva
              apply Res.ofCalc hext hr
              simp only [Calc.runWith]
              rw [V_ext env hr.ext hg hva, hxa, ← hxb, hxa]
            · split
              · have hr := addCalc_spec env g hg (.mul ra rb) ⟨hva, hvb⟩
                apply Res.ofCalc hext hr
                simp only [Calc.runWith]
                rw [V_ext env hr.ext hg hva, V_ext env hr.ext hg hvb, hxa, hxb]
              · have hr := addCalc_spec env g hg (.mul rb ra) ⟨hvb, hva⟩
                apply Res.ofCalc hext hr
                simp only [Calc.runWith]
                rw [V_ext env hr.ext hg hva, V_ext env hr.ext hg hvb, hxa, hxb]; grind

theorem storeRes (env : Env F) (g : G F) (hg : WF g) (r : Int) (mk : Nat → Nat → VS) (col : Nat)
    (rd : Nat → Int → F)
    (hmk : ∀ (g' : G F) ri n, WFvs g' n (mk col ri) ↔ ri < g'.rotations.length)
    (hden : ∀ (g' : G F) ri fuel, den g' env fuel (mk col ri) = rd col (g'.rotations.getD ri 0)) :
    Res env g (rd col r) (addCalc (addRotation g r).1 (.store (mk col (addRotation g r).2))) := by
  obtain ⟨hext, hwf, hlt, hget, _⟩ := addRotation_spec g hg r
  have hv : WFcalc (addRotation g r).1 (addRotation g r).1.calcs.length (.store (mk col (addRotation g r).2)) :=
    (hmk _ _ _).mpr hlt
  have hr := addCalc_spec env _ hwf _ hv
  apply Res.ofCalc hext hr
  simp only [Calc.runWith, V]
  rw [hden, prefix_getD hr.ext.rots hlt, hget]

/-- **Compiler correctness (denotational form).** -/
theorem addExpr_res (le : VS → VS → Bool) (env : Env F) :
    ∀ (e : Expr F) (g : G F), WF g → Res env g (e.eval env) (addExpr le e g)
  | .const c, g, hg => by
    have h := addConstant_spec env g hg c
    exact ⟨h.ext, h.wf, h.valid, h.val⟩
  | .fixed col rot, g, hg =>
    storeRes env g hg rot VS.fixed col env.fixed (fun _ _ _ => Iff.rfl) (fun _ _ fuel => by cases fuel <;> rfl)
  | .advice col rot, g, hg =>
    storeRes env g hg rot VS.advice col env.advice (fun _ _ _ => Iff.rfl) (fun _ _ fuel => by cases fuel <;> rfl)
  | .inst col rot, g, hg =>
    storeRes env g hg rot VS.inst col env.inst (fun _ _ _ => Iff.rfl) (fun _ _ fuel => by cases fuel <;> rfl)
  | .challenge i, g, hg => by
    have hr := addCalc_spec env g hg (.store (.chal i)) (by simp [WFcalc, WFvs])
    apply Res.ofCalc (Ext.refl g) hr
    simp only [Calc.runWith, V]
    cases (addCalc g (Calc.store (VS.chal i))).1.calcs.length <;> rfl
  | .neg (.const c), g, hg => by
    have h := addConstant_spec env g hg (-c)
    exact ⟨h.ext, h.wf, h.valid, h.val⟩
  | .neg a, g, hg => by
    have r := addExpr_res le env a g hg
    have generic : Res env g (-(a.eval env)) (negGeneric (addExpr le a g).1 (addExpr le a g).2) :=
      negGeneric_spec env g _ _ _ r.ext r.wf r.valid r.val
    cases a with
    | const c =>
      have h := addConstant_spec env g hg (-c)
      exact ⟨h.ext, h.wf, h.valid, h.val⟩
    | _ => exact generic
  | .sum a (.neg bi), g, hg => by
    have ra := addExpr_res le env a g hg
    have rb := addExpr_res le env bi _ ra.wf
    have hva := Valid.ext rb.ext ra.valid
    have hxa : V (addExpr le bi (addExpr le a g).1).1 env (addExpr le a g).2 = a.eval env := by
      rw [V_ext env rb.ext ra.wf ra.valid]; exact ra.val
    exact subGeneric_spec env g _ _ _ _ _ (ra.ext.trans rb.ext) rb.wf hva rb.valid hxa rb.val
  | .sum a b, g, hg => by
    have ra := addExpr_res le env a g hg
    have rb := addExpr_res le env b _ ra.wf
    have hva := Valid.ext rb.ext ra.valid
    have hxa : V (addExpr le b (addExpr le a g).1).1 env (addExpr le a g).2 = a.eval env := by
      rw [V_ext env rb.ext ra.wf ra.valid]; exact ra.val
    have generic := sumGeneric_spec le env g _ _ _ _ _ (ra.ext.trans rb.ext) rb.wf hva rb.valid hxa rb.val
    cases b with
    | neg bi =>
      have rbi := addExpr_res le env bi _ ra.wf
      have hva' := Valid.ext rbi.ext ra.valid
      have hxa' : V (addExpr le bi (addExpr le a g).1).1 env (addExpr le a g).2 = a.eval env := by
        rw [V_ext env rbi.ext ra.wf ra.valid]; exact ra.val
      exact subGeneric_spec env g _ _ _ _ _ (ra.ext.trans rbi.ext) rbi.wf hva' rbi.valid hxa' rbi.val
    | _ => exact generic
  | .prod a b, g, hg => by
    have ra := addExpr_res le env a g hg
    have rb := addExpr_res le env b _ ra.wf
    have hva := Valid.ext rb.ext ra.valid
    have hxa : V (addExpr le b (addExpr le a g).1).1 env (addExpr le a g).2 = a.eval env := by
      rw [V_ext env rb.ext ra.wf ra.valid]; exact ra.val
    exact prodGeneric_spec le env g _ _ _ _ _ (ra.ext.trans rb.ext) rb.wf hva rb.valid hxa rb.val
  | .scaled a f, g, hg => by
    simp only [addExpr, Expr.eval]
    by_cases h0 : f = 0
    · subst h0
      simp only [if_true]
      exact ⟨Ext.refl g, hg, Valid_const g 0 0 hg.c0, by rw [V_const g env 0 0 hg.c0]; grind⟩
    · by_cases h1 : f = 1
      · subst h1
        simp only [h0, if_false, if_true]
        have r := addExpr_res le env a g hg
        exact ⟨r.ext, r.wf, r.valid, by rw [r.val]; grind⟩
      · simp only [h0, h1, if_false]
        have rc := addConstant_spec env g hg f
        have ra := addExpr_res le env a _ rc.wf
        have hvc := Valid.ext ra.ext rc.valid
        have hr := addCalc_spec env _ ra.wf (.mul (addExpr le a (addConstant g f).1).2 (addConstant g f).2) ⟨ra.valid, hvc⟩
        apply Res.ofCalc (rc.ext.trans ra.ext) hr
        simp only [Calc.runWith]
        rw [V_ext env hr.ext ra.wf ra.valid, V_ext env hr.ext ra.wf hvc, ra.val,
          V_ext env ra.ext rc.wf rc.valid, rc.val]

/-- **Compiler correctness.** For every expression, every (well-formed) graph it is added to and
every operand ordering `le`: running the evaluation loop of the extended graph and reading the
returned value source gives exactly the value of the expression — including the constant
folding shortcuts (`0`, `1`, `2`), `a + (-b) ↦ Sub`, squaring, operand reordering, `Scaled`,
and the reuse of identical constants, rotations and calculations. -/
theorem compile_correct_aux (le : VS → VS → Bool) (env : Env F) (e : Expr F) (g : G F) (hg : WF g) :
    VS.get (addExpr le e g).1 env ((addExpr le e g).1.run env) (addExpr le e g).2 = e.eval env := by
  have r := addExpr_res le env e g hg
  rw [← r.val]
  generalize addExpr le e g = p at r
  obtain ⟨g', vs⟩ := p
  simp only at r ⊢
  cases vs with
  | inter i =>
    have hi : i < g'.calcs.length := r.valid
    simp only [VS.get]
    rw [run_eq_den g' env r.wf i hi]
    exact den_fuel g' env r.wf (i + 1) _ _ (.inter i) (by simp [WFvs]) (Nat.le_refl _) (by omega)
  | _ => simp only [VS.get, V]; cases g'.calcs.length <;> rfl

theorem WF_init : WF (G.init : G F) := ⟨rfl, rfl, rfl, by intro i c h; simp [G.init] at h⟩

end MidnightZK.C01.Graph
