import MidnightZK.Model.C01.Arguments
import Mathlib.Algebra.Field.Basic
import Mathlib.Algebra.BigOperators.Group.List.Basic
import Mathlib.Data.List.Perm.Basic
import Mathlib.Tactic.Ring
import Mathlib.Tactic.FieldSimp
import Mathlib.Tactic.LinearCombination
import Mathlib.Algebra.Field.Rat
import Mathlib.Tactic.NormNum.Basic
import Mathlib.Tactic.NormNum.Inv

/-!
# Lookup argument: completeness of the grand product, row by row

`lookupProduct` (`proofs/src/plonk/lookup/prover.rs: Permuted::commit_product`) against
`lookupExpressionsRow` (`proofs/src/plonk/lookup.rs: Evaluated::expressions`), over any field,
with `inv x = x⁻¹`.

With `u = n − (bf+1)` and `z = lookupProduct …`:

* `lookup_z_zero`: `z[0] = 1`;
* `lookup_z_step`: `z[i+1] = z[i]·(((β+A'ᵢ)(γ+S'ᵢ))⁻¹·(Aᵢ+β)·(Sᵢ+γ))` for `i < u`;
* `lookup_z_prefix` / `lookup_z_last`: `z[u] = ∏_{i<u}(Aᵢ+β)(Sᵢ+γ) · (∏_{i<u}(β+A'ᵢ)(γ+S'ᵢ))⁻¹`
  (products written `((List.range u).map …).prod`);
* `lookup_z_last_eq_one`: `z[u] = 1` when the usable parts of `A'`, `S'` are permutations of the
  usable parts of `A`, `S` and no denominator vanishes;
* `lookup_product_rows`: all five verifier identities vanish on every row of the domain when
  `(A', S')` has the properties `permute_expression_pair` guarantees (`permute_ok`).
-/

namespace MidnightZK.C01
open Args

namespace LookupLemmas

section Scan
variable {F : Type} [Field F]

theorem length_scanFrom : ∀ (st : F) (cs : List F), (scanFrom st cs).length = cs.length
  | _, [] => rfl
  | st, c :: cs => by simp only [scanFrom, List.length_cons, length_scanFrom (st * c) cs]

theorem getD_scanFrom_zero (st c : F) (cs : List F) :
    (scanFrom st (c :: cs)).getD 0 0 = st * c := by
  simp only [scanFrom, List.getD_cons_zero]

/-- `scan(st, |state, cur| { *state *= cur; Some(*state) })`: every output is the previous one
times the current input. -/
theorem getD_scanFrom_succ : ∀ (cs : List F) (st : F) (i : Nat), i + 1 < cs.length →
    (scanFrom st cs).getD (i + 1) 0 = (scanFrom st cs).getD i 0 * cs.getD (i + 1) 0
  | [], _, _, h => by simp at h
  | [_], _, _, h => by simp at h
  | c :: c' :: cs, st, 0, _ => by
    simp only [scanFrom, List.getD_cons_succ, List.getD_cons_zero]
  | c :: c' :: cs, st, i + 1, h => by
    have h' : i + 1 < (c' :: cs).length := by simpa using h
    have ih := getD_scanFrom_succ (c' :: cs) (st * c) i h'
    rw [scanFrom, List.getD_cons_succ, List.getD_cons_succ, List.getD_cons_succ]
    exact ih

/-- Reading `l.take m ++ r` below `m` reads `l`. -/
theorem getD_take_append (l r : List F) (m k : Nat) (hk : k < m) (hm : m ≤ l.length) :
    (l.take m ++ r).getD k 0 = l.getD k 0 := by
  have h1 : k < (l.take m).length := by rw [List.length_take]; omega
  simp only [List.getD_eq_getElem?_getD, List.getElem?_append_left h1, List.getElem?_take_of_lt hk]

theorem getD_append_left (l r : List F) (k : Nat) (hk : k < l.length) :
    (l ++ r).getD k 0 = l.getD k 0 := by
  simp only [List.getD_eq_getElem?_getD, List.getElem?_append_left hk]

theorem getD_map_range (f : Nat → F) (n i : Nat) (hi : i < n) :
    ((List.range n).map f).getD i 0 = f i := by
  simp only [List.getD_eq_getElem?_getD, List.getElem?_map, List.getElem?_range hi, Option.map_some,
    Option.getD_some]

theorem prod_range_succ (f : Nat → F) (k : Nat) :
    ((List.range (k + 1)).map f).prod = ((List.range k).map f).prod * f k := by
  simp only [List.range_succ, List.map_append, List.prod_append, List.map_cons, List.map_nil,
    List.prod_cons, List.prod_nil, mul_one]

theorem map_getD_range (l : List F) (u : Nat) (hu : u ≤ l.length) :
    (List.range u).map (fun i => l.getD i 0) = l.take u := by
  apply List.ext_getElem
  · simp only [List.length_map, List.length_range, List.length_take]; omega
  · intro i h1 h2
    have hi : i < u := by simpa using h1
    have hl : i < l.length := by omega
    simp only [List.getElem_map, List.getElem_range, List.getElem_take,
      List.getD_eq_getElem?_getD, List.getElem?_eq_getElem hl, Option.getD_some]

/-- `∏_{i<u} g(lᵢ)` is the product over the list `l.take u`. -/
theorem prod_range_getD (g : F → F) (l : List F) (u : Nat) (hu : u ≤ l.length) :
    ((List.range u).map (fun i => g (l.getD i 0))).prod = ((l.take u).map g).prod := by
  rw [← map_getD_range l u hu, List.map_map]
  rfl

theorem prod_range_ne_zero (f : Nat → F) (u : Nat) (h : ∀ i, i < u → f i ≠ 0) :
    ((List.range u).map f).prod ≠ 0 := by
  induction u with
  | zero => simp
  | succ k ih =>
    rw [prod_range_succ]
    exact mul_ne_zero (ih (fun i hi => h i (by omega))) (h k (by omega))

end Scan

end LookupLemmas

open LookupLemmas

section
variable {F : Type} [Field F]

/-- Row `i` of `lookup_product` (before the scan). -/
def lookupFactor (β γ : F) (A S A' S' : List F) (i : Nat) : F :=
  ((β + A'.getD i 0) * (γ + S'.getD i 0))⁻¹ * (A.getD i 0 + β) * (S.getD i 0 + γ)

/-- Below the cut `n − bf` the vector `z` is the scan. -/
theorem lookup_z_eq_scan (n bf : Nat) (β γ : F) (A S A' S' rnd : List F) (k : Nat)
    (hk : k < n - bf) :
    (lookupProduct (fun x => x⁻¹) n bf β γ A S A' S' rnd).getD k 0 =
      (scanFrom 1 (1 :: (List.range n).map (lookupFactor β γ A S A' S'))).getD k 0 := by
  unfold lookupProduct
  exact getD_take_append _ _ _ _ hk (by
    rw [length_scanFrom, List.length_cons, List.length_map, List.length_range]; omega)

/-- `z[0] = 1`. -/
theorem lookup_z_zero (n bf : Nat) (β γ : F) (A S A' S' rnd : List F) (h : 1 ≤ n - bf) :
    (lookupProduct (fun x => x⁻¹) n bf β γ A S A' S' rnd).getD 0 0 = 1 := by
  rw [lookup_z_eq_scan n bf β γ A S A' S' rnd 0 (by omega), getD_scanFrom_zero, mul_one]

/-- `z[i+1] = z[i] · inv((β+A'ᵢ)(γ+S'ᵢ)) · (Aᵢ+β) · (Sᵢ+γ)` on the usable rows. -/
theorem lookup_z_step (n bf : Nat) (β γ : F) (A S A' S' rnd : List F) (i : Nat)
    (hi : i < n - (bf + 1)) :
    (lookupProduct (fun x => x⁻¹) n bf β γ A S A' S' rnd).getD (i + 1) 0 =
      (lookupProduct (fun x => x⁻¹) n bf β γ A S A' S' rnd).getD i 0 *
        (((β + A'.getD i 0) * (γ + S'.getD i 0))⁻¹ * (A.getD i 0 + β) * (S.getD i 0 + γ)) := by
  rw [lookup_z_eq_scan n bf β γ A S A' S' rnd (i + 1) (by omega),
    lookup_z_eq_scan n bf β γ A S A' S' rnd i (by omega),
    getD_scanFrom_succ _ _ _ (by
      rw [List.length_cons, List.length_map, List.length_range]; omega),
    List.getD_cons_succ, getD_map_range _ _ _ (by omega)]
  rfl

/-- `z[k] = ∏_{i<k}(Aᵢ+β)(Sᵢ+γ) · (∏_{i<k}(β+A'ᵢ)(γ+S'ᵢ))⁻¹` for every `k ≤ u`. -/
theorem lookup_z_prefix (n bf : Nat) (β γ : F) (A S A' S' rnd : List F) :
    ∀ k, k ≤ n - (bf + 1) → bf + 1 ≤ n →
      (lookupProduct (fun x => x⁻¹) n bf β γ A S A' S' rnd).getD k 0 =
        ((List.range k).map (fun i => (A.getD i 0 + β) * (S.getD i 0 + γ))).prod *
          (((List.range k).map (fun i => (β + A'.getD i 0) * (γ + S'.getD i 0))).prod)⁻¹
  | 0, _, hn => by
    rw [lookup_z_zero n bf β γ A S A' S' rnd (by omega)]
    simp only [List.range_zero, List.map_nil, List.prod_nil, inv_one, mul_one]
  | k + 1, hk, hn => by
    rw [lookup_z_step n bf β γ A S A' S' rnd k (by omega),
      lookup_z_prefix n bf β γ A S A' S' rnd k (by omega) hn, prod_range_succ, prod_range_succ]
    generalize ((List.range k).map (fun i => (A.getD i 0 + β) * (S.getD i 0 + γ))).prod = P
    generalize ((List.range k).map (fun i => (β + A'.getD i 0) * (γ + S'.getD i 0))).prod = Q
    generalize (β + A'.getD k 0) * (γ + S'.getD k 0) = d
    rw [mul_inv]
    ring

/-- `z[u]` is the quotient of the two grand products over the usable rows. -/
theorem lookup_z_last (n bf : Nat) (β γ : F) (A S A' S' rnd : List F) (hn : bf + 1 ≤ n) :
    (lookupProduct (fun x => x⁻¹) n bf β γ A S A' S' rnd).getD (n - (bf + 1)) 0 =
      ((List.range (n - (bf + 1))).map (fun i => (A.getD i 0 + β) * (S.getD i 0 + γ))).prod *
        (((List.range (n - (bf + 1))).map
          (fun i => (β + A'.getD i 0) * (γ + S'.getD i 0))).prod)⁻¹ :=
  lookup_z_prefix n bf β γ A S A' S' rnd _ (le_refl _) hn

/-- The two grand products over the usable rows agree when the usable parts of `A'`, `S'` are
permutations of the usable parts of `A`, `S`. -/
theorem lookup_products_eq (u : Nat) (β γ : F) (A S A' S' : List F)
    (hA : u ≤ A.length) (hS : u ≤ S.length) (hA' : u ≤ A'.length) (hS' : u ≤ S'.length)
    (ha : (A'.take u).Perm (A.take u)) (hs : (S'.take u).Perm (S.take u)) :
    ((List.range u).map (fun i => (β + A'.getD i 0) * (γ + S'.getD i 0))).prod =
      ((List.range u).map (fun i => (A.getD i 0 + β) * (S.getD i 0 + γ))).prod := by
  rw [List.prod_map_mul, List.prod_map_mul,
    prod_range_getD (fun x => β + x) A' u hA', prod_range_getD (fun x => γ + x) S' u hS',
    prod_range_getD (fun x => x + β) A u hA, prod_range_getD (fun x => x + γ) S u hS,
    (ha.map _).prod_eq, (hs.map _).prod_eq]
  simp only [add_comm]

/-- `z[u] = 1`: the product telescopes to the quotient of two equal non-zero products. -/
theorem lookup_z_last_eq_one (n bf : Nat) (β γ : F) (A S A' S' rnd : List F) (hn : bf + 1 ≤ n)
    (hA : n - (bf + 1) ≤ A.length) (hS : n - (bf + 1) ≤ S.length)
    (hA' : n - (bf + 1) ≤ A'.length) (hS' : n - (bf + 1) ≤ S'.length)
    (ha : (A'.take (n - (bf + 1))).Perm (A.take (n - (bf + 1))))
    (hs : (S'.take (n - (bf + 1))).Perm (S.take (n - (bf + 1))))
    (hden : ∀ i, i < n - (bf + 1) → (β + A'.getD i 0) * (γ + S'.getD i 0) ≠ 0) :
    (lookupProduct (fun x => x⁻¹) n bf β γ A S A' S' rnd).getD (n - (bf + 1)) 0 = 1 := by
  rw [lookup_z_last n bf β γ A S A' S' rnd hn,
    ← lookup_products_eq _ β γ A S A' S' hA hS hA' hS' ha hs]
  exact mul_inv_cancel₀ (prod_range_ne_zero _ _ hden)

/-! ## The five verifier identities, row by row -/

/-- The index `(i + 1) % n` of `z(ωx)` on a row below the last usable one. -/
theorem LookupLemmas.succ_mod (n i : Nat) (h : i + 1 < n) : (i + 1) % n = i + 1 :=
  Nat.mod_eq_of_lt h

/-- The index `(i + (n − 1)) % n` of `a'(ω⁻¹x)` on a row `0 < i < n`. -/
theorem LookupLemmas.pred_mod (n i : Nat) (h0 : 0 < i) (h : i < n) : (i + (n - 1)) % n = i - 1 := by
  have e : i + (n - 1) = (i - 1) + n := by omega
  rw [e, Nat.add_mod_right, Nat.mod_eq_of_lt (by omega)]

/-- Rule 3 on a usable row: `z[i+1]·(a'+β)(s'+γ) − z[i]·(a+β)(s+γ) = 0` from the recurrence. -/
theorem LookupLemmas.rule3_usable (zi zn x y a' s' β γ : F)
    (hstep : zn = zi * (((β + a') * (γ + s'))⁻¹ * x * y)) (hd : (β + a') * (γ + s') ≠ 0) :
    (zn * (a' + β) * (s' + γ) - zi * x * y) * (1 - (0 + 0)) = 0 := by
  have hv : ((β + a') * (γ + s'))⁻¹ * ((β + a') * (γ + s')) = 1 := inv_mul_cancel₀ hd
  rw [hstep]
  generalize ((β + a') * (γ + s'))⁻¹ = v at hv
  linear_combination (zi * x * y) * hv

/-- The indicator values on a row: exactly one of `i < u`, `i = u`, `u < i`. -/
theorem LookupLemmas.active_zero (u i : Nat) (h : u ≤ i) :
    (1 : F) - ((if i = u then 1 else 0) + (if u < i then 1 else 0)) = 0 := by
  rcases Nat.lt_or_eq_of_le h with h' | h'
  · rw [if_neg (by omega), if_pos h']; ring
  · rw [if_pos h'.symm, if_neg (by omega)]; ring

/-- Completeness of the lookup product on every row, given a permuted pair with the properties
`permute_expression_pair` guarantees. `a`, `s` are the usable parts (length `u`) of `A'`, `S'`. -/
theorem lookup_product_rows (n bf : Nat) (β γ : F) (A S a s blindA blindS rnd : List F)
    (hn : bf + 2 ≤ n) (hA : A.length = n) (hS : S.length = n)
    (ha : a.Perm (A.take (n - (bf + 1)))) (hs : s.Perm (S.take (n - (bf + 1))))
    (hadj : ∀ i, i < n - (bf + 1) →
       a[i]? = s[i]? ∨ (0 < i ∧ a[i]? = a[i - 1]?))
    (hden : ∀ i, i < n - (bf + 1) → (β + a.getD i 0) * (γ + s.getD i 0) ≠ 0) :
    ∀ i, i < n → ∀ e ∈ lookupExpressionsRow n bf β γ A S (a ++ blindA) (s ++ blindS)
        (lookupProduct (fun x => x⁻¹) n bf β γ A S (a ++ blindA) (s ++ blindS) rnd) i, e = 0 := by
  intro i hi e he
  have hal : a.length = n - (bf + 1) := by rw [ha.length_eq, List.length_take, hA]; omega
  have hsl : s.length = n - (bf + 1) := by rw [hs.length_eq, List.length_take, hS]; omega
  have hAi : ∀ j, j < n - (bf + 1) → (a ++ blindA).getD j 0 = a.getD j 0 :=
    fun j hj => getD_append_left a blindA j (by omega)
  have hSi : ∀ j, j < n - (bf + 1) → (s ++ blindS).getD j 0 = s.getD j 0 :=
    fun j hj => getD_append_left s blindS j (by omega)
  have hden' : ∀ j, j < n - (bf + 1) →
      (β + (a ++ blindA).getD j 0) * (γ + (s ++ blindS).getD j 0) ≠ 0 := by
    intro j hj; rw [hAi j hj, hSi j hj]; exact hden j hj
  have hz0 := lookup_z_zero n bf β γ A S (a ++ blindA) (s ++ blindS) rnd (by omega)
  have hzu := lookup_z_last_eq_one n bf β γ A S (a ++ blindA) (s ++ blindS) rnd (by omega)
    (by omega) (by omega) (by rw [List.length_append]; omega) (by rw [List.length_append]; omega)
    (by rw [List.take_left' hal]; exact ha) (by rw [List.take_left' hsl]; exact hs) hden'
  have hstep := lookup_z_step n bf β γ A S (a ++ blindA) (s ++ blindS) rnd
  -- `a'₀ = s'₀`
  have h00 : (a ++ blindA).getD 0 0 = (s ++ blindS).getD 0 0 := by
    rw [hAi 0 (by omega), hSi 0 (by omega), List.getD_eq_getElem?_getD, List.getD_eq_getElem?_getD]
    rcases hadj 0 (by omega) with h | ⟨h, _⟩
    · rw [h]
    · omega
  generalize lookupProduct (fun x => x⁻¹) n bf β γ A S (a ++ blindA) (s ++ blindS) rnd = z at *
  simp only [lookupExpressionsRow, List.mem_cons, List.not_mem_nil, or_false] at he
  rcases he with rfl | rfl | rfl | rfl | rfl
  · -- `l_0 · (1 − z)`
    by_cases h0 : i = 0
    · subst h0; rw [hz0, sub_self, mul_zero]
    · rw [if_neg h0, zero_mul]
  · -- `l_last · (z² − z)`
    by_cases hu : i = n - (bf + 1)
    · subst hu; rw [hzu, mul_one, sub_self, mul_zero]
    · rw [if_neg hu, zero_mul]
  · -- `(z(ωx)(a'+β)(s'+γ) − z(x)(a+β)(s+γ)) · active`
    by_cases hu : i < n - (bf + 1)
    · rw [succ_mod n i (by omega), if_neg (by omega), if_neg (by omega)]
      exact rule3_usable _ _ _ _ _ _ β γ (hstep i hu) (hden' i hu)
    · rw [active_zero _ _ (by omega), mul_zero]
  · -- `l_0 · (a' − s')`
    by_cases h0 : i = 0
    · subst h0; rw [h00, sub_self, mul_zero]
    · rw [if_neg h0, zero_mul]
  · -- `(a' − s')(a' − a'(ω⁻¹x)) · active`
    by_cases hu : i < n - (bf + 1)
    · by_cases h0 : i = 0
      · subst h0; rw [h00, sub_self, zero_mul, zero_mul]
      · rw [pred_mod n i (by omega) hi, hAi i hu, hSi i hu, hAi (i - 1) (by omega)]
        simp only [List.getD_eq_getElem?_getD]
        rcases hadj i hu with h | ⟨_, h⟩
        · rw [h, sub_self, zero_mul, zero_mul]
        · rw [h, sub_self, mul_zero, zero_mul]
    · rw [active_zero _ _ (by omega), mul_zero]

end

/-- Non-vacuity: the hypotheses of `lookup_product_rows` are satisfiable. -/
example : ∀ i, i < 5 → ∀ e ∈ lookupExpressionsRow 5 1 (1 : ℚ) 1 [2, 1, 2, 0, 0] [1, 2, 3, 9, 9]
      ([1, 2, 2] ++ [0, 0]) ([1, 2, 3] ++ [9, 9])
      (lookupProduct (fun x => x⁻¹) 5 1 1 1 [2, 1, 2, 0, 0] [1, 2, 3, 9, 9]
        ([1, 2, 2] ++ [0, 0]) ([1, 2, 3] ++ [9, 9]) [7]) i, e = 0 :=
  lookup_product_rows 5 1 1 1 [2, 1, 2, 0, 0] [1, 2, 3, 9, 9] [1, 2, 2] [1, 2, 3] [0, 0] [9, 9] [7]
    (by decide) rfl rfl (List.Perm.swap 2 1 [2]) (List.Perm.refl _)
    (fun i hi => match i, hi with
      | 0, _ => Or.inl rfl
      | 1, _ => Or.inl rfl
      | 2, _ => Or.inr ⟨by decide, rfl⟩)
    (fun i hi => match i, hi with
      | 0, _ => by norm_num
      | 1, _ => by norm_num
      | 2, _ => by norm_num)

end MidnightZK.C01
