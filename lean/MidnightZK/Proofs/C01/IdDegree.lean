import MidnightZK.Proofs.C01.GateLift
import MidnightZK.Proofs.C02.Domain
import MidnightZK.Proofs.C02.Degree
/-!
# Degrees of the identity POLYNOMIALS, and the lookup / trash lift with expression polynomials

* `natDegree` bounds, in units of `m = n − 1` (the degree bound of a column polynomial), for the
  permutation, lookup and trash identity polynomials — the hypothesis `hdeg` of
  `honest_verifies_algebraic`, class by class (`C02.gate_poly_degree_covered` / `natDegree_gatePoly_le`
  for gates).
* `lookupIdPolysE`, `trashIdPolyE`: the lookup / trash identity polynomials with the compressed
  input / table / constraint expressions as ARBITRARY polynomials (in the prover and the verifier they
  are the θ- / challenge-compressed gate-expression polynomials, of degree up to
  `deg·(n − 1)`, not interpolants of degree `< n`), their value vectors on the domain being what
  `commit_permuted` / `trash: commit` compute row by row.
-/
namespace MidnightZK.C01.Lift
open Polynomial Finset MidnightZK.C01.Dom MidnightZK.C01.Asm MidnightZK.C01.Args

variable {F : Type} [Field F] {n : ℕ} {ω : F}

/-! ### a small degree calculus: `B m k p` = "`p` has degree at most `k` column degrees" -/

/-- `p.natDegree ≤ k · m`. -/
def B (m k : ℕ) (p : F[X]) : Prop := p.natDegree ≤ k * m

theorem B.mono {m a b : ℕ} {p : F[X]} (h : B m a p) (hab : a ≤ b) : B m b p :=
  le_trans h (Nat.mul_le_mul_right _ hab)
theorem B.mul {m a b : ℕ} {p q : F[X]} (hp : B m a p) (hq : B m b q) : B m (a + b) (p * q) := by
  unfold B; rw [Nat.add_mul]; exact natDegree_mul_le_of_le hp hq
theorem B.add {m a : ℕ} {p q : F[X]} (hp : B m a p) (hq : B m a q) : B m a (p + q) :=
  natDegree_add_le_of_degree_le hp hq
theorem B.sub {m a : ℕ} {p q : F[X]} (hp : B m a p) (hq : B m a q) : B m a (p - q) :=
  le_trans (natDegree_sub_le _ _) (max_le hp hq)
theorem B.one (m : ℕ) : B m 0 (1 : F[X]) := by unfold B; simp
theorem B.zero (m : ℕ) : B m 0 (0 : F[X]) := by unfold B; simp
theorem B.C (m : ℕ) (c : F) : B m 0 (C c) := by unfold B; simp
theorem B.X {m : ℕ} (hm : 1 ≤ m) : B m 1 (X : F[X]) := by unfold B; simpa using hm

theorem B.col (hω : IsPrimitiveRoot ω n) (vals : List F) : B (n - 1) 1 (colPoly ω n vals) := by
  unfold B; simpa using natDegree_colPoly_le hω vals
theorem B.rotcol (hω : IsPrimitiveRoot ω n) (vals : List F) (r : ℤ) :
    B (n - 1) 1 (rotPoly ω (colPoly ω n vals) r) := by
  unfold B; simpa using natDegree_rot_col_le hω vals r
theorem B.ind (hω : IsPrimitiveRoot ω n) (S : ℕ → Prop) [DecidablePred S] : B (n - 1) 1 (indPoly ω n S) := by
  unfold B indPoly
  rw [Nat.one_mul]
  by_cases h0 : Lagrange.interpolate (range n) (fun i : ℕ => ω ^ i) (fun i => if S i then (1 : F) else 0) = 0
  · rw [h0]; simp
  · have := Lagrange.degree_interpolate_lt (s := range n) (v := fun i : ℕ => ω ^ i)
      (r := fun i => if S i then (1 : F) else 0) (node_injOn hω)
    rw [card_range, degree_eq_natDegree h0] at this
    have : (Lagrange.interpolate (range n) (fun i : ℕ => ω ^ i) (fun i => if S i then (1 : F) else 0)).natDegree < n := by
      exact_mod_cast this
    omega

/-! ### value vectors of a polynomial on the domain -/

/-- The value vector of a polynomial on the rows `ω^0 … ω^(n−1)` (what the prover holds in Lagrange
form when it evaluates an expression row by row). -/
def nodeVals (ω : F) (n : ℕ) (p : F[X]) : List F := (List.range n).map fun i => p.eval (ω ^ i)

theorem nodeVals_length (p : F[X]) : (nodeVals ω n p).length = n := by simp [nodeVals]

theorem nodeVals_getD (p : F[X]) (i : ℕ) (hi : i < n) : (nodeVals ω n p).getD i 0 = p.eval (ω ^ i) := by
  unfold nodeVals
  rw [List.getD_eq_getElem?_getD, List.getElem?_map, List.getElem?_range hi]
  rfl

/-! ### lookup -/

/-- Degree of the five lookup identities as a function of the evaluations' degrees. -/
theorem B_lookupExprsAt {m da ds : ℕ} (l0 lLast lBlind a s a' aInv s' zc zn : F[X]) (β γ : F)
    (h0 : B m 1 l0) (hL : B m 1 lLast) (hB : B m 1 lBlind) (ha : B m da a) (hs : B m ds s)
    (ha' : B m 1 a') (hai : B m 1 aInv) (hs' : B m 1 s') (hzc : B m 1 zc) (hzn : B m 1 zn) :
    ∀ p ∈ lookupExprsAt l0 lLast lBlind (C β) (C γ) a s a' aInv s' zc zn, B m (max 4 (2 + da + ds)) p := by
  have hact : B m 1 (1 - (lLast + lBlind)) := ((B.one m).mono (Nat.zero_le 1)).sub (hL.add hB)
  intro p hp
  simp only [lookupExprsAt, List.mem_cons, List.mem_nil_iff, or_false] at hp
  rcases hp with rfl | rfl | rfl | rfl | rfl
  · exact (h0.mul (((B.one m).mono (Nat.zero_le 1)).sub hzc)).mono (by omega)
  · exact (hL.mul (((hzc.mul hzc)).sub (hzc.mono (by omega)))).mono (by omega)
  · refine (B.mul (a := max 3 (1 + da + ds)) (B.sub ?_ ?_) hact).mono (by omega)
    · exact ((hzn.mul (ha'.add ((B.C m β).mono (Nat.zero_le 1)))).mul
        (hs'.add ((B.C m γ).mono (Nat.zero_le 1)))).mono (by omega)
    · have h1 : B m (max da 1) (a + C β) := (ha.mono (le_max_left _ _)).add ((B.C m β).mono (Nat.zero_le _))
      have h2 : B m (max ds 1) (s + C γ) := (hs.mono (le_max_left _ _)).add ((B.C m γ).mono (Nat.zero_le _))
      have h3 : B m (1 + max da 1 + max ds 1) (zc * (a + C β) * (s + C γ)) := (hzc.mul h1).mul h2
      by_cases hda : da = 0 <;> by_cases hds : ds = 0
      · -- both compressed expressions constant: degree 1 + 0 + 0
        subst hda; subst hds
        have h1' : B m 0 (a + C β) := ha.add (B.C m β)
        have h2' : B m 0 (s + C γ) := hs.add (B.C m γ)
        exact ((hzc.mul h1').mul h2').mono (by omega)
      · subst hda
        have h1' : B m 0 (a + C β) := ha.add (B.C m β)
        exact ((hzc.mul h1').mul h2).mono (by omega)
      · subst hds
        have h2' : B m 0 (s + C γ) := hs.add (B.C m γ)
        exact ((hzc.mul h1).mul h2').mono (by omega)
      · exact h3.mono (by omega)
  · exact (h0.mul (ha'.sub hs')).mono (by omega)
  · exact (((ha'.sub hs').mul (ha'.sub hai)).mul hact).mono (by omega)

/-- The lookup identity polynomials of one lookup argument with the compressed input / table
expression POLYNOMIALS `a`, `s` (`compress_expressions` over the gate-expression polynomials) and the
Lagrange-form vectors the prover commits to (`A'`, `S'` permuted; `z` product). -/
noncomputable def lookupIdPolysE (ω : F) (n bf : ℕ) (β γ : F) (a s : F[X]) (A' S' z : List F) : List F[X] :=
  lookupExprsAt (indPoly ω n (fun i => i = 0)) (indPoly ω n (fun i => i = n - (bf + 1)))
    (indPoly ω n (fun i => n - (bf + 1) < i)) (C β) (C γ) a s
    (colPoly ω n A') (rotPoly ω (colPoly ω n A') (-1)) (colPoly ω n S') (colPoly ω n z)
    (rotPoly ω (colPoly ω n z) 1)

/-- With interpolants for `a`, `s` this is `Asm.lookupIdPolys`. -/
theorem lookupIdPolysE_col (bf : ℕ) (β γ : F) (A S A' S' z : List F) :
    lookupIdPolysE ω n bf β γ (colPoly ω n A) (colPoly ω n S) A' S' z = lookupIdPolys ω n bf β γ A S A' S' z := rfl

theorem lookupIdPolysE_node (hω : IsPrimitiveRoot ω n) (hn : 0 < n) (bf : ℕ) (β γ : F)
    (a s : F[X]) (A' S' z : List F) (i : ℕ) (hi : i < n) :
    (lookupIdPolysE ω n bf β γ a s A' S' z).map (eval (ω ^ i)) =
      lookupExpressionsRow n bf β γ (nodeVals ω n a) (nodeVals ω n s) A' S' z i := by
  unfold lookupIdPolysE
  rw [map_eval_lookupExprsAt, lookupExpressionsRow_eq_at]
  simp only [indPoly_node hω _ i hi, eval_C, eval_colPoly hω _ i hi, eval_colPoly_rot hω hn,
    rowOf_next, rowOf_prev n i hn, nodeVals_getD _ i hi]

theorem lookupIdPolysE_vanish (hω : IsPrimitiveRoot ω n) (hn : 0 < n) (bf : ℕ) (β γ : F)
    (a s : F[X]) (A' S' z : List F)
    (hrow : ∀ i, i < n → ∀ e ∈ lookupExpressionsRow n bf β γ (nodeVals ω n a) (nodeVals ω n s) A' S' z i, e = 0) :
    ∀ p ∈ lookupIdPolysE ω n bf β γ a s A' S' z, ∀ i, i < n → p.eval (ω ^ i) = 0 := by
  intro p hp i hi
  apply hrow i hi
  rw [← lookupIdPolysE_node hω hn bf β γ a s A' S' z i hi]
  exact List.mem_map_of_mem hp

/-- **Degree of the lookup identity polynomials**: at most `max 4 (2 + deg a + deg s)` column degrees
(`lookup.rs: required_degree` is `max(4, 2 + input_degree + table_degree)`). -/
theorem natDegree_lookupIdPolysE_le (hω : IsPrimitiveRoot ω n) (bf da ds : ℕ) (β γ : F) (a s : F[X])
    (ha : a.natDegree ≤ da * (n - 1)) (hs : s.natDegree ≤ ds * (n - 1)) (A' S' z : List F) :
    ∀ p ∈ lookupIdPolysE ω n bf β γ a s A' S' z, p.natDegree ≤ max 4 (2 + da + ds) * (n - 1) :=
  B_lookupExprsAt _ _ _ _ _ _ _ _ _ _ β γ (B.ind hω _) (B.ind hω _) (B.ind hω _) ha hs (B.col hω _)
    (B.rotcol hω _ _) (B.col hω _) (B.col hω _) (B.rotcol hω _ _)

/-! ### trash -/

theorem B_foldl_horner {m k : ℕ} (c : F) (ps : List F[X]) (hps : ∀ p ∈ ps, B m k p) (acc : F[X]) (hacc : B m k acc) :
    B m k (ps.foldl (fun h p => h * C c + p) acc) := by
  induction ps generalizing acc with
  | nil => exact hacc
  | cons p t ih =>
    simp only [List.foldl_cons]
    apply ih (fun q hq => hps q (List.mem_cons_of_mem _ hq))
    exact B.add (by simpa using hacc.mul (B.C m c)) (hps p (by simp))

/-- The trash identity polynomial with the selector and the constraint expressions as polynomials. -/
noncomputable def trashIdPolyE (ω : F) (n : ℕ) (c : F) (q : F[X]) (exprs : List F[X]) (trash : List F) : F[X] :=
  trashExprAt (C c) q exprs (colPoly ω n trash)

theorem trashIdPolyE_node (hω : IsPrimitiveRoot ω n) (c : F) (q : F[X]) (exprs : List F[X])
    (trash : List F) (i : ℕ) (hi : i < n) :
    (trashIdPolyE ω n c q exprs trash).eval (ω ^ i) =
      trashExpressionRow c (nodeVals ω n q) (exprs.map (nodeVals ω n)) trash i := by
  unfold trashIdPolyE
  rw [trashExpressionRow_eq_at]
  unfold trashExprAt
  rw [eval_sub, eval_mul, eval_sub, eval_one, eval_foldl_horner, eval_zero, eval_C, List.map_map,
    eval_colPoly hω _ i hi, nodeVals_getD _ i hi]
  congr 3
  funext e
  exact (nodeVals_getD e i hi).symm

/-- **Degree of the trash identity polynomial**: `max (max_i deg e_i) (deg q + 1)` column degrees
(`trash.rs: required_degree`). -/
theorem natDegree_trashIdPolyE_le (hω : IsPrimitiveRoot ω n) (c : F) (q : F[X]) (exprs : List F[X])
    (trash : List F) (dq de : ℕ) (hq : q.natDegree ≤ dq * (n - 1)) (he : ∀ e ∈ exprs, e.natDegree ≤ de * (n - 1)) :
    (trashIdPolyE ω n c q exprs trash).natDegree ≤ max de (dq + 1) * (n - 1) := by
  unfold trashIdPolyE trashExprAt
  refine B.sub ?_ ?_
  · exact (B_foldl_horner c exprs he 0 ((B.zero _).mono (Nat.zero_le _))).mono (le_max_left _ _)
  · refine (B.mul (a := dq) (b := 1) ?_ (B.col hω trash)).mono (le_max_right _ _)
    exact B.sub ((B.one _).mono (Nat.zero_le _)) hq

/-! ### permutation -/

theorem B_foldl_left {m k : ℕ} (β γ : F) (l : List (F[X] × F[X])) (hl : ∀ cp ∈ l, B m 1 cp.1 ∧ B m 1 cp.2)
    (acc : F[X]) (hacc : B m k acc) :
    B m (k + l.length) (l.foldl (fun left cp => left * (cp.1 + C β * cp.2 + C γ)) acc) := by
  induction l generalizing acc k with
  | nil => simpa using hacc
  | cons x t ih =>
    simp only [List.foldl_cons, List.length_cons]
    have hx := hl x (by simp)
    have hf : B m 1 (x.1 + C β * x.2 + C γ) :=
      (hx.1.add (by simpa using (B.C m β).mul hx.2)).add ((B.C m γ).mono (Nat.zero_le _))
    have := ih (fun cp hcp => hl cp (List.mem_cons_of_mem _ hcp)) (acc * (x.1 + C β * x.2 + C γ)) (hacc.mul hf)
    exact this.mono (by omega)

theorem B_foldl_right {m k : ℕ} (γ δ : F) (l : List F[X]) (hl : ∀ c ∈ l, B m 1 c)
    (st : F[X] × F[X]) (h1 : B m k st.1) (h2 : B m 1 st.2) :
    B m (k + l.length) (l.foldl (fun (st : F[X] × F[X]) c => (st.1 * (c + st.2 + C γ), st.2 * C δ)) st).1 := by
  induction l generalizing st k with
  | nil => simpa using h1
  | cons x t ih =>
    simp only [List.foldl_cons, List.length_cons]
    have hf : B m 1 (x + st.2 + C γ) := ((hl x (by simp)).add h2).add ((B.C m γ).mono (Nat.zero_le _))
    have := ih (fun c hc => hl c (List.mem_cons_of_mem _ hc)) (st.1 * (x + st.2 + C γ), st.2 * C δ)
      (h1.mul hf) (by simpa using h2.mul (B.C m δ))
    exact this.mono (by omega)

theorem chunks_mem_le {α : Type} (L : ℕ) (l : List α) : ∀ c ∈ C02.Ids.chunks L l, c.length ≤ L :=
  C02.Ids.chunksFuel_length_le L _ l

theorem chunksFuel_sub {α : Type} (L fuel : ℕ) (l : List α) :
    ∀ c ∈ C02.Ids.chunksFuel L fuel l, ∀ x ∈ c, x ∈ l := by
  induction fuel generalizing l with
  | zero => intro c hc; simp [C02.Ids.chunksFuel] at hc
  | succ k ih =>
    intro c hc x hx
    simp only [C02.Ids.chunksFuel] at hc
    split at hc
    · cases hc
    · cases hc with
      | head => exact List.mem_of_mem_take hx
      | tail _ h' => exact List.mem_of_mem_drop (ih _ c h' x hx)

/-- Degree of every member of the generic permutation rule list over polynomials. -/
theorem B_permGeneric {m : ℕ} (hm : 1 ≤ m) (L : ℕ) (hL : 1 ≤ L) (l0 lLast lBlind : F[X]) (β γ δ : F)
    (T : List (F[X] × F[X])) (Tl V P : List F[X])
    (h0 : B m 1 l0) (hLa : B m 1 lLast) (hB : B m 1 lBlind)
    (hT : ∀ t ∈ T, B m 1 t.1 ∧ B m 1 t.2) (hTl : ∀ p ∈ Tl, B m 1 p) (hV : ∀ p ∈ V, B m 1 p)
    (hP : ∀ p ∈ P, B m 1 p) :
    ∀ p ∈ C02.Ids.permGeneric L l0 lLast lBlind (C β) (C γ) (C δ) X T Tl V P, B m (L + 2) p := by
  have hact : B m 1 (1 - (lLast + lBlind)) := ((B.one m).mono (Nat.zero_le 1)).sub (hLa.add hB)
  intro p hp
  unfold C02.Ids.permGeneric at hp
  simp only [List.mem_append, List.mem_map, Option.mem_toList, Option.map_eq_some_iff] at hp
  rcases hp with ((⟨t, ht, rfl⟩ | ⟨t, ht, rfl⟩) | ⟨pq, hpq, rfl⟩) | ⟨tvp, htvp, rfl⟩
  · have := hT t (List.mem_of_mem_head? ht)
    exact (h0.mul (((B.one m).mono (Nat.zero_le 1)).sub this.1)).mono (by omega)
  · have := hT t (List.mem_of_mem_getLast? ht)
    exact ((((this.1.mul this.1)).sub (this.1.mono (by omega))).mul hLa).mono (by omega)
  · have h1 := hT pq.1 (List.mem_of_mem_drop (List.of_mem_zip hpq).1)
    have h2 := hTl pq.2 (List.of_mem_zip hpq).2
    exact ((h1.1.sub h2).mul h0).mono (by omega)
  · obtain ⟨⟨⟨t, vv⟩, pp⟩, ci⟩ := tvp
    have hmem0 := (List.mem_zipIdx' htvp)
    have hmem : ((t, vv), pp) ∈ (T.zip (C02.Ids.chunks L V)).zip (C02.Ids.chunks L P) := by
      rw [hmem0.2]; exact List.getElem_mem _
    have hz := List.of_mem_zip hmem
    have hz2 := List.of_mem_zip hz.1
    have ht := hT t hz2.1
    have hvvlen : vv.length ≤ L := chunks_mem_le L V vv hz2.2
    have hvv : ∀ c ∈ vv, B m 1 c := fun c hc => hV c (chunksFuel_sub L _ V vv hz2.2 c hc)
    have hpp : ∀ c ∈ pp, B m 1 c := fun c hc => hP c (chunksFuel_sub L _ P pp hz.2 c hc)
    have hleft := B_foldl_left β γ (vv.zip pp)
      (fun cp hcp => ⟨hvv _ (List.of_mem_zip hcp).1, hpp _ (List.of_mem_zip hcp).2⟩) t.2 ht.2
    have hzl : (vv.zip pp).length ≤ L := by rw [List.length_zip]; omega
    have hd : B m 1 (C β * X * C δ ^ (ci * L)) := by
      have h1 : B m 1 (C β * X) := by simpa using (B.C m β).mul (B.X hm)
      rw [← C_pow]
      simpa using h1.mul (B.C m (δ ^ (ci * L)))
    have hright := B_foldl_right γ δ vv hvv (t.1, C β * X * C δ ^ (ci * L)) ht.1 hd
    exact (B.mul (a := 1 + L) (B.sub (hleft.mono (by omega)) (hright.mono (by omega))) hact).mono (by omega)

/-- **Degree of the permutation identity polynomials**: at most `chunk_len + 2 = degree()` column
degrees (`permutation.rs: required_degree` is 3 and `chunk_len = degree − 2`), for every layout. -/
theorem natDegree_permIdPolys_le (hω : IsPrimitiveRoot ω n) (hn : 2 ≤ n) (L bf : ℕ) (hL : 1 ≤ L) (β γ δ : F)
    (cols : List (List F × List F)) (zs : List (List F)) :
    ∀ p ∈ C02.Dom.permIdPolys ω L n bf β γ δ cols zs, p.natDegree ≤ (L + 2) * (n - 1) := by
  unfold C02.Dom.permIdPolys
  apply B_permGeneric (by omega) L hL _ _ _ β γ δ _ _ _ _ (B.ind hω _) (B.ind hω _) (B.ind hω _)
  · intro t ht
    obtain ⟨z, _, rfl⟩ := List.mem_map.1 ht
    exact ⟨B.col hω z, B.rotcol hω z 1⟩
  · intro p hp
    obtain ⟨z, _, rfl⟩ := List.mem_map.1 hp
    exact B.rotcol hω z _
  · intro p hp
    obtain ⟨c, _, rfl⟩ := List.mem_map.1 hp
    exact B.col hω c.1
  · intro p hp
    obtain ⟨c, _, rfl⟩ := List.mem_map.1 hp
    exact B.col hω c.2

/-! ### the compressed expression polynomials and the data of the honest arguments -/

/-- `compress_expressions` on polynomials: `fold(0, |acc, e| acc·θ + e)` over the gate-expression
polynomials of a lookup's inputs (or table, or a trash argument's constraints). -/
noncomputable def compressPoly (θ : F) (ps : List F[X]) : F[X] := ps.foldl (fun h p => h * C θ + p) 0

/-- On row `i` it is the row-wise compression the prover computes (`compressRow` on the value
vectors). -/
theorem compressPoly_node (θ : F) (ps : List F[X]) (i : ℕ) (hi : i < n) :
    (compressPoly θ ps).eval (ω ^ i) = compressRow θ (ps.map (nodeVals ω n)) i := by
  unfold compressPoly compressRow
  rw [eval_foldl_horner, eval_zero, eval_C, List.foldl_map, List.foldl_map]
  congr 1
  funext acc e
  rw [nodeVals_getD e i hi]

theorem natDegree_compressPoly_le (θ : F) (ps : List F[X]) (d m : ℕ) (h : ∀ p ∈ ps, p.natDegree ≤ d * m) :
    (compressPoly θ ps).natDegree ≤ d * m :=
  B_foldl_horner θ ps h 0 ((B.zero _).mono (Nat.zero_le _))

/-- One lookup argument as the honest prover runs it: the compressed input / table expression
polynomials with their degree bounds (`da`, `ds` = `max_i deg input_i`, `max_i deg table_i`), the
blinding values of `commit_permuted` / `commit_product` and the permuted vectors it obtained. -/
structure LookupArg (F : Type) [Field F] where
  a : F[X]
  s : F[X]
  da : ℕ
  ds : ℕ
  blindA : List F
  blindS : List F
  rnd : List F
  A' : List F
  S' : List F

/-- One trash argument: selector polynomial, constraint-expression polynomials, degree bounds. -/
structure TrashArg (F : Type) [Field F] where
  q : F[X]
  exprs : List F[X]
  dq : ℕ
  de : ℕ

/-- `natDegree ≤ D·(n − 1)` is the bound `honest_verifies_algebraic` asks for with `D − 1` pieces. -/
theorem deg_lt_pieces {d D n : ℕ} (hn : 1 ≤ n) (hD : 1 ≤ D) (h : d ≤ D * (n - 1)) :
    d < n + (n - 1) * (D - 1) := by
  obtain ⟨m, rfl⟩ : ∃ m, n = m + 1 := ⟨n - 1, by omega⟩
  obtain ⟨E, rfl⟩ : ∃ E, D = E + 1 := ⟨D - 1, by omega⟩
  simp only [Nat.add_sub_cancel] at h ⊢
  rw [Nat.add_mul, Nat.one_mul] at h
  rw [Nat.mul_comm m E]
  omega

end MidnightZK.C01.Lift
