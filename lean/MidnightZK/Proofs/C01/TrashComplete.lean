import Mathlib.Tactic.Ring
import Mathlib.Algebra.Ring.Basic
import Mathlib.Algebra.GroupWithZero.Basic
import MidnightZK.Model.C01.Arguments
/-!
Completeness algebra of the trash argument (`proofs/src/plonk/trash/prover.rs: commit` vs
`proofs/src/plonk/trash.rs: Evaluated::expressions`), row by row, over any commutative ring.
-/
namespace MidnightZK.C01
open Args

section
variable {F : Type} [CommRing F]

theorem length_addInto : ∀ (as es : List F), (addInto as es).length = as.length
  | [], _ => by simp [addInto]
  | _ :: _, [] => by simp [addInto]
  | a :: as, e :: es => by simp [addInto, length_addInto as es]

theorem getD_addInto : ∀ (as es : List F) (i : Nat), i < as.length → i < es.length →
    (addInto as es).getD i 0 = as.getD i 0 + es.getD i 0
  | [], _, _, h, _ => by simp at h
  | _ :: _, [], _, _, h => by simp at h
  | a :: as, e :: es, 0, _, _ => by simp [addInto]
  | a :: as, e :: es, i + 1, h1, h2 => by
    simp only [addInto, List.getD_cons_succ]
    exact getD_addInto as es i (by simpa using h1) (by simpa using h2)

private theorem getD_map_mul (acc : List F) (c : F) (i : Nat) :
    (acc.map (· * c)).getD i 0 = acc.getD i 0 * c := by
  simp only [List.getD_eq_getElem?_getD, List.getElem?_map]
  cases acc[i]? <;> simp

/-- Invariant of the `fold` of `trash/prover.rs: commit`. -/
theorem trash_fold_getD (n : Nat) (c : F) (i : Nat) (hi : i < n) :
    ∀ (exprs : List (List F)) (acc : List F), acc.length = n → (∀ e ∈ exprs, e.length = n) →
      (exprs.foldl (fun acc e => addInto (acc.map (· * c)) e) acc).getD i 0 =
        exprs.foldl (fun a e => a * c + e.getD i 0) (acc.getD i 0)
  | [], _, _, _ => rfl
  | e :: es, acc, hacc, hl => by
    simp only [List.foldl_cons]
    have he : e.length = n := hl e (by simp)
    rw [trash_fold_getD n c i hi es _ (by rw [length_addInto, List.length_map, hacc])
      (fun e' h' => hl e' (by simp [h']))]
    rw [getD_addInto _ _ _ (by rw [List.length_map, hacc]; exact hi) (by rw [he]; exact hi), getD_map_mul]

/-- **The trash column the prover commits to is the verifier's compressed expression on every
row of the domain** (usable and blinding rows alike). -/
theorem trash_value_eq (n : Nat) (c : F) (exprs : List (List F)) (hl : ∀ e ∈ exprs, e.length = n)
    (i : Nat) (hi : i < n) : (trashValues n c exprs).getD i 0 = compressRow c exprs i := by
  unfold trashValues compressRow
  rw [trash_fold_getD n c i hi exprs _ (by simp) hl]
  simp [List.getD_eq_getElem?_getD, hi]

private theorem mul_fold (c q : F) (i : Nat) : ∀ (exprs : List (List F)) (a : F),
    q * exprs.foldl (fun a e => a * c + e.getD i 0) a =
      exprs.foldl (fun a e => a * c + q * e.getD i 0) (q * a)
  | [], _ => rfl
  | e :: es, a => by
    simp only [List.foldl_cons]
    rw [mul_fold c q i es, show q * (a * c + e.getD i 0) = q * a * c + q * e.getD i 0 by ring]

private theorem fold_zero (c : F) (i : Nat) (q : F) : ∀ (exprs : List (List F)),
    (∀ e ∈ exprs, q * e.getD i 0 = 0) → exprs.foldl (fun a e => a * c + q * e.getD i 0) 0 = 0
  | [], _ => rfl
  | e :: es, h => by
    simp only [List.foldl_cons]
    rw [h e (by simp), zero_mul, zero_add]
    exact fold_zero c i q es (fun e' h' => h e' (by simp [h']))

/-- With the honest trash column the verifier's identity `compressed − (1 − q)·trash` equals
`q · compressed` on every row. -/
theorem trash_expression_eq (n : Nat) (c : F) (q : List F) (exprs : List (List F))
    (hl : ∀ e ∈ exprs, e.length = n) (i : Nat) (hi : i < n) :
    trashExpressionRow c q exprs (trashValues n c exprs) i = q.getD i 0 * compressRow c exprs i := by
  unfold trashExpressionRow
  rw [trash_value_eq n c exprs hl i hi]
  ring

/-- Row-level completeness: if every constraint of the argument satisfies `q · constraint = 0`
on row `i` (the condition `MockProver` checks), the verifier's identity vanishes on row `i`. -/
theorem trash_row_complete (n : Nat) (c : F) (q : List F) (exprs : List (List F))
    (hl : ∀ e ∈ exprs, e.length = n) (i : Nat) (hi : i < n)
    (hsat : ∀ e ∈ exprs, q.getD i 0 * e.getD i 0 = 0) :
    trashExpressionRow c q exprs (trashValues n c exprs) i = 0 := by
  rw [trash_expression_eq n c q exprs hl i hi]
  unfold compressRow
  rw [mul_fold, mul_zero]
  exact fold_zero c i _ exprs hsat

end

end MidnightZK.C01
