import MidnightZK.Proofs.C01.Assembly
import MidnightZK.Model.C01.Arguments
/-!
# From value vectors (rows) to polynomials

A column held in Lagrange form (`Polynomial<F, LagrangeCoeff>`, value vector of length `n`) is the
polynomial `colPoly` of degree `< n` interpolating it on the domain; a rotated query `p(ω^r·X)` is
`rotPoly`. Evaluating an identity polynomial built from such columns at the node `ω^i` yields the
row-level expression of `Arguments.lean` on row `i` — which the completeness theorems
(`lookup_product_complete`, `trash_complete`, …) show to vanish. This file proves that passage for
the lookup and trash identities and for selector-gated custom gates (blinding rows included).
-/
namespace MidnightZK.C01.Asm
open Polynomial Finset MidnightZK.C01.Dom MidnightZK.C01.Args

variable {F : Type} [Field F] {n : ℕ} {ω : F}

/-- The polynomial of degree `< n` with value vector `vals` on the domain (`lagrange_to_coeff`). -/
noncomputable def colPoly (ω : F) (n : ℕ) (vals : List F) : F[X] :=
  Lagrange.interpolate (range n) (fun i : ℕ => ω ^ i) (fun i => vals.getD i 0)

/-- `p(ω^r · X)`: the polynomial a query at rotation `r` evaluates. -/
noncomputable def rotPoly (ω : F) (p : F[X]) (r : ℤ) : F[X] := p.comp (C (ω ^ r) * X)

theorem eval_rotPoly (p : F[X]) (r : ℤ) (x : F) : (rotPoly ω p r).eval x = p.eval (ω ^ r * x) := by
  simp [rotPoly, eval_comp]

theorem degree_colPoly_lt (hω : IsPrimitiveRoot ω n) (vals : List F) : (colPoly ω n vals).degree < n := by
  have := Lagrange.degree_interpolate_lt (s := range n) (v := fun i : ℕ => ω ^ i)
    (r := fun i => vals.getD i 0) (node_injOn hω)
  rwa [card_range] at this

/-- A rotated column polynomial at the node `ω^i` is the value on row `(i + r) mod n`. -/
theorem eval_colPoly_rot (hω : IsPrimitiveRoot ω n) (hn : 0 < n) (vals : List F) (r : ℤ) (i : ℕ) :
    (rotPoly ω (colPoly ω n vals) r).eval (ω ^ i) = vals.getD (rowOf n ((i : ℤ) + r)) 0 := by
  have hw := omega_ne_zero hω hn
  rw [eval_rotPoly, ← zpow_natCast ω i, ← zpow_add₀ hw, add_comm, zpow_eq_rowOf hω hn]
  exact eval_interpolate_node hω _ _ (rowOf_lt hn _)

theorem eval_colPoly (hω : IsPrimitiveRoot ω n) (vals : List F) (i : ℕ) (hi : i < n) :
    (colPoly ω n vals).eval (ω ^ i) = vals.getD i 0 :=
  eval_interpolate_node hω _ i hi

theorem rowOf_next (n i : ℕ) : rowOf n ((i : ℤ) + 1) = (i + 1) % n := by
  unfold rowOf
  rw [show ((i : ℤ) + 1) = ((i + 1 : ℕ) : ℤ) by push_cast; ring, ← Int.natCast_mod, Int.toNat_natCast]

theorem rowOf_prev (n i : ℕ) (hn : 0 < n) : rowOf n ((i : ℤ) + (-1)) = (i + (n - 1)) % n := by
  unfold rowOf
  have : ((i : ℤ) + (-1)) % (n : ℤ) = ((i + (n - 1) : ℕ) : ℤ) % (n : ℤ) := by
    rw [show ((i + (n - 1) : ℕ) : ℤ) = (i : ℤ) + (-1) + 1 * (n : ℤ) by push_cast [Nat.cast_sub hn]; ring,
      Int.add_mul_emod_self_right]
  rw [this, ← Int.natCast_mod, Int.toNat_natCast]

/-! ### lookup identities -/

/-- Evaluating the five lookup identity polynomials = the verifier's expressions on the evaluations. -/
theorem map_eval_lookupExprsAt (x : F) (l0 lLast lBlind beta gamma a s a' aInv s' zc zn : F[X]) :
    (lookupExprsAt l0 lLast lBlind beta gamma a s a' aInv s' zc zn).map (eval x) =
      lookupExprsAt (l0.eval x) (lLast.eval x) (lBlind.eval x) (beta.eval x) (gamma.eval x) (a.eval x)
        (s.eval x) (a'.eval x) (aInv.eval x) (s'.eval x) (zc.eval x) (zn.eval x) := by
  simp [lookupExprsAt]

/-- The lookup identity polynomials of one lookup argument, built from the Lagrange-form vectors the
prover commits to (`A`, `S`: compressed input/table; `A'`, `S'`: permuted; `z`: product). -/
noncomputable def lookupIdPolys (ω : F) (n bf : ℕ) (β γ : F) (A S A' S' z : List F) : List F[X] :=
  lookupExprsAt (indPoly ω n (fun i => i = 0)) (indPoly ω n (fun i => i = n - (bf + 1)))
    (indPoly ω n (fun i => n - (bf + 1) < i)) (C β) (C γ) (colPoly ω n A) (colPoly ω n S)
    (colPoly ω n A') (rotPoly ω (colPoly ω n A') (-1)) (colPoly ω n S') (colPoly ω n z)
    (rotPoly ω (colPoly ω n z) 1)

/-- On the node `ω^i` the lookup identity polynomials take the values of `lookupExpressionsRow` on
row `i`. -/
theorem lookupIdPolys_node (hω : IsPrimitiveRoot ω n) (hn : 0 < n) (bf : ℕ) (β γ : F)
    (A S A' S' z : List F) (i : ℕ) (hi : i < n) :
    (lookupIdPolys ω n bf β γ A S A' S' z).map (eval (ω ^ i)) =
      lookupExpressionsRow n bf β γ A S A' S' z i := by
  unfold lookupIdPolys
  rw [map_eval_lookupExprsAt, lookupExpressionsRow_eq_at]
  simp only [indPoly_node hω _ i hi, eval_C, eval_colPoly hω _ i hi, eval_colPoly_rot hω hn,
    rowOf_next, rowOf_prev n i hn]

/-- **Lookup identities vanish on the domain as polynomials** whenever they vanish row by row (the
conclusion of `lookup_product_complete`). -/
theorem lookupIdPolys_vanish (hω : IsPrimitiveRoot ω n) (hn : 0 < n) (bf : ℕ) (β γ : F)
    (A S A' S' z : List F)
    (hrow : ∀ i, i < n → ∀ e ∈ lookupExpressionsRow n bf β γ A S A' S' z i, e = 0) :
    ∀ p ∈ lookupIdPolys ω n bf β γ A S A' S' z, ∀ i, i < n → p.eval (ω ^ i) = 0 := by
  intro p hp i hi
  apply hrow i hi
  rw [← lookupIdPolys_node hω hn bf β γ A S A' S' z i hi]
  exact List.mem_map_of_mem hp

/-! ### trash identity -/

theorem eval_foldl_horner (c : F[X]) (x : F) (ps : List F[X]) (acc : F[X]) :
    (ps.foldl (fun h p => h * c + p) acc).eval x =
      (ps.map (eval x)).foldl (fun h v => h * c.eval x + v) (acc.eval x) := by
  induction ps generalizing acc with
  | nil => rfl
  | cons p t ih => simp only [List.foldl_cons, List.map_cons]; rw [ih]; simp

/-- The trash identity polynomial `compressed − (1 − q)·trash` of one trash argument. -/
noncomputable def trashIdPoly (ω : F) (n : ℕ) (c : F) (q : List F) (exprs : List (List F)) (trash : List F) : F[X] :=
  trashExprAt (C c) (colPoly ω n q) (exprs.map (colPoly ω n)) (colPoly ω n trash)

theorem trashIdPoly_node (hω : IsPrimitiveRoot ω n) (c : F) (q : List F) (exprs : List (List F))
    (trash : List F) (i : ℕ) (hi : i < n) :
    (trashIdPoly ω n c q exprs trash).eval (ω ^ i) = trashExpressionRow c q exprs trash i := by
  unfold trashIdPoly
  rw [trashExpressionRow_eq_at]
  unfold trashExprAt
  rw [eval_sub, eval_mul, eval_sub, eval_one, eval_foldl_horner, eval_zero, eval_C, List.map_map,
    eval_colPoly hω _ i hi, eval_colPoly hω _ i hi]
  congr 3
  funext e
  exact eval_colPoly hω e i hi

/-- **The trash identity vanishes on the domain as a polynomial** whenever it vanishes row by row
(the conclusion of `trash_complete`). -/
theorem trashIdPoly_vanish (hω : IsPrimitiveRoot ω n) (c : F) (q : List F) (exprs : List (List F))
    (trash : List F) (hrow : ∀ i, i < n → trashExpressionRow c q exprs trash i = 0) :
    ∀ i, i < n → (trashIdPoly ω n c q exprs trash).eval (ω ^ i) = 0 := by
  intro i hi
  rw [trashIdPoly_node hω c q exprs trash i hi]
  exact hrow i hi

/-! ### custom gates with a selector factor, blinding rows -/

/-- **A gate polynomial of the form `selector · G` vanishes on every row on which the selector is
zero, whatever `G` is there** — in particular on the last `blinding_factors + 1` rows, where the
advice columns carry the prover's random blinding values (so `G` is an arbitrary polynomial) and the
selector (a fixed column, never assignable on those rows) is zero; and on every row where `G`
vanishes (the usable rows of a satisfying witness). -/
theorem selector_gate_vanishes (hω : IsPrimitiveRoot ω n) (q : List F) (G : F[X])
    (hsat : ∀ i, i < n → q.getD i 0 = 0 ∨ G.eval (ω ^ i) = 0) :
    ∀ i, i < n → (colPoly ω n q * G).eval (ω ^ i) = 0 := by
  intro i hi
  rw [eval_mul, eval_colPoly hω q i hi]
  rcases hsat i hi with h | h <;> rw [h] <;> simp

/-- Blinding form: rows `≥ u` are unusable (`u = n − (blinding_factors + 1)`), the selector column is
zero there (`hq`), and the gate body `G` — built from advice polynomials that the prover blinded
arbitrarily on those rows — vanishes on every USABLE row where the selector is on (`hsat`): the gate
polynomial vanishes on the whole domain. No assumption on `G` at the blinding rows. -/
theorem selector_gate_blinding (hω : IsPrimitiveRoot ω n) (u : ℕ) (q : List F) (G : F[X])
    (hq : ∀ i, u ≤ i → i < n → q.getD i 0 = 0)
    (hsat : ∀ i, i < u → q.getD i 0 ≠ 0 → G.eval (ω ^ i) = 0) :
    ∀ i, i < n → (colPoly ω n q * G).eval (ω ^ i) = 0 := by
  apply selector_gate_vanishes hω
  intro i hi
  by_cases hu : i < u
  · by_cases h0 : q.getD i 0 = 0
    · exact Or.inl h0
    · exact Or.inr (hsat i hu h0)
  · exact Or.inl (hq i (by omega) hi)

/-- **A gate WITHOUT a factor that vanishes on the blinding rows is not protected**: for the gate
polynomial `colPoly a` itself (gate `a = 0` without selector) a non-zero blinding value on some row
makes the identity fail on that row — the quotient does not exist and the honest proof is rejected.
(Observed on the real prover: harness counters `noselector-gate:*`; the mock checker reports
`ConstraintPoisoned` for such gates.) -/
theorem unselected_gate_fails (hω : IsPrimitiveRoot ω n) (a : List F) (i : ℕ) (hi : i < n)
    (hb : a.getD i 0 ≠ 0) : (colPoly ω n a).eval (ω ^ i) ≠ 0 := by
  rw [eval_colPoly hω a i hi]; exact hb

end MidnightZK.C01.Asm
