import MidnightZK.Model.C01.Identities
/-!
The prover (`evaluate_numerator`) and the verifier (`evaluate_identities` + `verify`) combine the
same identities in the same order with `y`. Core only.
-/
namespace MidnightZK.C01.Ids

set_option linter.unusedSectionVars false

theorem filter_ne_zero_range (n : Nat) :
    (List.range n).filter (fun s => s != 0) = (List.range n).drop 1 := by
  cases n with
  | zero => rfl
  | succ n =>
    rw [List.range_succ_eq_map]
    simp only [List.filter_cons, List.drop_succ_cons, List.drop_zero]
    have h : (0 != 0) = false := by decide
    rw [h]
    simp only [Bool.false_eq_true, if_false]
    rw [List.filter_eq_self]
    intro a ha
    simp only [List.mem_map] at ha
    obtain ⟨b, _, rfl⟩ := ha
    simp

theorem proverPermIds_eq (p n : Nat) : proverPermIds p n = verifierPermIds p n := by
  unfold proverPermIds verifierPermIds
  cases n with
  | zero => simp
  | succ n =>
    rw [filter_ne_zero_range]
    have h1 : (List.range (n + 1)).head? = some 0 := by
      rw [List.range_succ_eq_map]; rfl
    have h2 : (List.range (n + 1)).getLast? = some n := by
      rw [List.range_succ]; simp
    rw [h1, h2]
    simp

theorem proverProofIds_eq (sh : IdShape) (p : Nat) : proverProofIds sh p = verifierProofIds sh p := by
  unfold proverProofIds verifierProofIds
  rw [proverPermIds_eq]

/-- The prover consumes the identities in the verifier's order. -/
theorem proverIds_eq (sh : IdShape) : proverIds sh = verifierIds sh := by
  unfold proverIds verifierIds
  congr 1
  funext p
  exact proverProofIds_eq sh p

section Fold
variable {F : Type} [Zero F] [Add F] [Mul F]

theorem accum_append (val : IdTerm → F) (y v : F) (a b : List IdTerm) :
    accum val y v (a ++ b) = accum val y (accum val y v a) b := by
  unfold accum; rw [List.foldl_append]

theorem accum_flatMap {α : Type} (val : IdTerm → F) (y : F) (f : α → List IdTerm) :
    ∀ (l : List α) (v : F), accum val y v (l.flatMap f) = l.foldl (fun v a => accum val y v (f a)) v
  | [], _ => rfl
  | a :: t, v => by
    rw [List.flatMap_cons, accum_append, accum_flatMap val y f t]
    rfl

theorem accum_map_single {α : Type} (val : IdTerm → F) (y : F) (f : α → IdTerm) (l : List α) (v : F) :
    accum val y v (l.map f) = l.foldl (fun v a => v * y + val (f a)) v := by
  unfold accum; rw [List.foldl_map]

/-- Horner sections: the loop nest of `evaluate_numerator` for one proof (custom-gates Horner from
the previous value, permutation block, lookup blocks, trash block) is one Horner pass over the
concatenation. -/
theorem proverProofStep_eq (sh : IdShape) (val : IdTerm → F) (y v : F) (p : Nat) :
    proverProofStep sh val y v p = accum val y v (proverProofIds sh p) := by
  unfold proverProofStep proverProofIds
  simp only []
  rw [accum_append, accum_append, accum_append, accum_flatMap, accum_map_single val y (IdTerm.trash p)]

theorem proverFold_eq_accum (sh : IdShape) (val : IdTerm → F) (y : F) :
    proverFold sh val y = accum val y 0 (proverIds sh) := by
  unfold proverFold proverIds
  rw [accum_flatMap]
  congr 1
  funext v p
  exact proverProofStep_eq sh val y v p

end Fold

end MidnightZK.C01.Ids
