import Mathlib.Algebra.Ring.GrindInstances
import MidnightZK.Proofs.C01.Bridge
import MidnightZK.Model.C01.GraphEval
import MidnightZK.Model.C01.GateRows
import MidnightZK.Proofs.C02.Degree
/-!
# Custom gates over an ABSTRACT field: the gate POLYNOMIAL on the domain ⇔ the gate on every row

`gatePoly` substitutes, in a gate expression (`Graph.Expr F`, the type `compile_correct` speaks
about), every column query by the rotated column polynomial `rotPoly (colPoly column) rotation` —
the polynomial whose value at `x` `evaluate_identities` computes from `fixed_evals` /
`advice_evals` / `instance_evals`. At the node `ω^i` it takes the value `Expr.eval` computes in the
row environment `rowEnv i` (cell `(i + rot) mod n` of the queried column): the value
`GraphEvaluator::evaluate` produces on row `i` (`compile_correct`). `C02.GatePoly` has the same
statement over `ZMod p` on a dumped table of naturals; this file needs no concrete field.
Also: `natDegree (gatePoly e) ≤ exprDeg e · (n − 1)` (`circuit.rs: Expression::degree`).
-/
namespace MidnightZK.C01.Lift
open Polynomial Finset MidnightZK.C01.Dom MidnightZK.C01.Asm MidnightZK.C01.Graph

variable {F : Type} [Field F] {n : ℕ} {ω : F}

/-- The assignment table (`Model/C01/GateRows.lean`). -/
abbrev Tbl := Rows.Tbl

/-- The environment `GraphEvaluator::evaluate` reads on row `i`: a query `(col, rot)` reads the
cell `(i + rot) mod n` (`get_rotation_idx` on the un-extended domain) — the executable
`Rows.rowEnv`, which the driver runs on the real tables (`gaterows` lines). -/
abbrev rowEnv (n : ℕ) (t : Tbl F) (i : ℕ) : Env F := Rows.rowEnv n t i

theorem rowAt_eq_rowOf (n i : ℕ) (r : ℤ) : Rows.rowAt n i r = rowOf n ((i : ℤ) + r) := rfl

/-- The polynomial of a gate expression over the rotated column polynomials. -/
noncomputable def gatePoly (ω : F) (n : ℕ) (t : Tbl F) : Expr F → F[X]
  | .const c => C c
  | .fixed col rot => rotPoly ω (colPoly ω n (t.fixed.getD col [])) rot
  | .advice col rot => rotPoly ω (colPoly ω n (t.advice.getD col [])) rot
  | .inst col rot => rotPoly ω (colPoly ω n (t.inst.getD col [])) rot
  | .challenge k => C (t.challenges.getD k 0)
  | .neg e => -gatePoly ω n t e
  | .sum a b => gatePoly ω n t a + gatePoly ω n t b
  | .prod a b => gatePoly ω n t a * gatePoly ω n t b
  | .scaled e c => gatePoly ω n t e * C c

/-- `circuit.rs: Expression::degree` (after selector replacement: queries have degree 1). -/
def exprDeg : Expr F → ℕ
  | .const _ => 0
  | .fixed _ _ => 1
  | .advice _ _ => 1
  | .inst _ _ => 1
  | .challenge _ => 0
  | .neg e => exprDeg e
  | .sum a b => max (exprDeg a) (exprDeg b)
  | .prod a b => exprDeg a + exprDeg b
  | .scaled e _ => exprDeg e

/-- **At the node `ω^i` the gate polynomial takes the value the expression has on row `i`.** -/
theorem gatePoly_node (hω : IsPrimitiveRoot ω n) (hn : 0 < n) (t : Tbl F) (i : ℕ) (e : Expr F) :
    (gatePoly ω n t e).eval (ω ^ i) = e.eval (rowEnv n t i) := by
  induction e with
  | const c => simp [gatePoly, Expr.eval]
  | challenge k => simp [gatePoly, Expr.eval, rowEnv, Rows.rowEnv]
  | fixed c r => simp only [gatePoly, Expr.eval, rowEnv, Rows.rowEnv, rowAt_eq_rowOf]; exact eval_colPoly_rot hω hn _ r i
  | advice c r => simp only [gatePoly, Expr.eval, rowEnv, Rows.rowEnv, rowAt_eq_rowOf]; exact eval_colPoly_rot hω hn _ r i
  | inst c r => simp only [gatePoly, Expr.eval, rowEnv, Rows.rowEnv, rowAt_eq_rowOf]; exact eval_colPoly_rot hω hn _ r i
  | neg a ih => simp only [gatePoly, Expr.eval, eval_neg, ih]
  | sum a b iha ihb => simp only [gatePoly, Expr.eval, eval_add, iha, ihb]
  | prod a b iha ihb => simp only [gatePoly, Expr.eval, eval_mul, iha, ihb]
  | scaled a c ih => simp only [gatePoly, Expr.eval, eval_mul, eval_C, ih]

/-- **Gate class over any field: the gate polynomials vanish on the whole domain iff every gate
expression evaluates to zero on every row.** -/
theorem gatePolys_vanish_iff_rows (hω : IsPrimitiveRoot ω n) (hn : 0 < n) (t : Tbl F) (gates : List (Expr F)) :
    (∀ p ∈ gates.map (gatePoly ω n t), ∀ i, i < n → p.eval (ω ^ i) = 0) ↔
      ∀ g ∈ gates, ∀ i, i < n → g.eval (rowEnv n t i) = 0 := by
  constructor
  · intro h g hg i hi
    rw [← gatePoly_node hω hn t i g]
    exact h _ (List.mem_map_of_mem hg) i hi
  · intro h p hp i hi
    obtain ⟨g, hg, rfl⟩ := List.mem_map.1 hp
    rw [gatePoly_node hω hn t i g]
    exact h g hg i hi

/-! ### degrees -/

theorem natDegree_colPoly_le (hω : IsPrimitiveRoot ω n) (vals : List F) :
    (colPoly ω n vals).natDegree ≤ n - 1 := by
  by_cases h0 : colPoly ω n vals = 0
  · rw [h0]; simp
  · have := degree_colPoly_lt hω vals
    rw [degree_eq_natDegree h0] at this
    have : (colPoly ω n vals).natDegree < n := by exact_mod_cast this
    omega

theorem natDegree_rotPoly_le (p : F[X]) (r : ℤ) : (rotPoly ω p r).natDegree ≤ p.natDegree := by
  unfold rotPoly
  refine le_trans natDegree_comp_le ?_
  have h1 : (C (ω ^ r) * X : F[X]).natDegree ≤ 1 := by
    refine le_trans natDegree_mul_le ?_
    simp
  calc p.natDegree * (C (ω ^ r) * X : F[X]).natDegree ≤ p.natDegree * 1 := Nat.mul_le_mul_left _ h1
    _ = p.natDegree := Nat.mul_one _

theorem natDegree_rot_col_le (hω : IsPrimitiveRoot ω n) (vals : List F) (r : ℤ) :
    (rotPoly ω (colPoly ω n vals) r).natDegree ≤ n - 1 :=
  le_trans (natDegree_rotPoly_le _ r) (natDegree_colPoly_le hω vals)

/-- **The degree of a gate polynomial is at most `Expression::degree() · (n − 1)`.** -/
theorem natDegree_gatePoly_le (hω : IsPrimitiveRoot ω n) (t : Tbl F) (e : Expr F) :
    (gatePoly ω n t e).natDegree ≤ exprDeg e * (n - 1) := by
  induction e with
  | const c => simp [gatePoly, exprDeg]
  | challenge k => simp [gatePoly, exprDeg]
  | fixed c r => simpa [gatePoly, exprDeg] using natDegree_rot_col_le hω _ r
  | advice c r => simpa [gatePoly, exprDeg] using natDegree_rot_col_le hω _ r
  | inst c r => simpa [gatePoly, exprDeg] using natDegree_rot_col_le hω _ r
  | neg a ih => simpa [gatePoly, exprDeg] using ih
  | sum a b iha ihb =>
    simp only [gatePoly, exprDeg]
    refine le_trans (natDegree_add_le _ _) (max_le ?_ ?_)
    · exact le_trans iha (Nat.mul_le_mul_right _ (le_max_left _ _))
    · exact le_trans ihb (Nat.mul_le_mul_right _ (le_max_right _ _))
  | prod a b iha ihb =>
    simp only [gatePoly, exprDeg]
    refine le_trans natDegree_mul_le ?_
    rw [Nat.add_mul]
    exact Nat.add_le_add iha ihb
  | scaled a c ih =>
    simp only [gatePoly, exprDeg]
    refine le_trans natDegree_mul_le ?_
    simpa using ih

/-! ### selector-gated gates: satisfied on the usable rows ⇒ zero on every row -/

theorem rowOf_cur (i : ℕ) (hi : i < n) : rowOf n ((i : ℤ) + 0) = i := by
  unfold rowOf
  rw [add_zero, ← Int.natCast_mod, Int.toNat_natCast, Nat.mod_eq_of_lt hi]

/-- **A gate `q · G` with a fixed-column selector `q` queried at the current row is zero on EVERY row
as soon as it is zero on the usable rows `i < u` and the selector column is zero on the unusable rows
`u ≤ i < n`** (fixed columns cannot be assigned there: `keygen.rs: Assembly::assign_fixed` returns
`NotEnoughRowsAvailable`) — whatever the advice columns hold on the blinding rows. This is how the
hypothesis "zero on every row" of `honest_verifies_rows` is met by real circuits. -/
theorem selector_gate_all_rows (t : Tbl F) (c : ℕ) (G : Expr F) (u : ℕ)
    (hq : ∀ i, u ≤ i → i < n → (t.fixed.getD c []).getD i 0 = 0)
    (hsat : ∀ i, i < u → i < n → (Expr.prod (.fixed c 0) G).eval (rowEnv n t i) = 0) :
    ∀ i, i < n → (Expr.prod (.fixed c 0) G).eval (rowEnv n t i) = 0 := by
  intro i hi
  by_cases hu : i < u
  · exact hsat i hu hi
  · have h0 : (rowEnv n t i).fixed c 0 = 0 := by
      show (t.fixed.getD c []).getD (rowOf n ((i : ℤ) + 0)) 0 = 0
      rw [rowOf_cur i hi]
      exact hq i (by omega) hi
    show (rowEnv n t i).fixed c 0 * G.eval (rowEnv n t i) = 0
    rw [h0, zero_mul]

/-! ### expressions of a dumped constraint system (`C02.Expr`, constants as naturals) over any field -/

/-- A dumped expression (`csdump` format, constants as canonical naturals) over the field `F`. -/
def ofC02F : C02.Expr → Expr F
  | .const c => .const (c : F)
  | .fixed c r => .fixed c r
  | .advice c r => .advice c r
  | .inst c r => .inst c r
  | .challenge i => .challenge i
  | .neg e => .neg (ofC02F e)
  | .sum a b => .sum (ofC02F a) (ofC02F b)
  | .prod a b => .prod (ofC02F a) (ofC02F b)
  | .scaled e c => .scaled (ofC02F e) (c : F)

/-- `exprDeg` is `C02.Ids.exprDegree` (the mirror of `Expression::degree` that `C02`'s
`csDegree` — compared with `cs.degree()` of the running code on every family member — is built from). -/
theorem exprDeg_ofC02F (e : C02.Expr) : exprDeg (ofC02F (F := F) e) = C02.Ids.exprDegree e := by
  induction e with
  | const c => rfl
  | fixed c r => rfl
  | advice c r => rfl
  | inst c r => rfl
  | challenge i => rfl
  | neg a ih => simpa [ofC02F, exprDeg, C02.Ids.exprDegree] using ih
  | sum a b iha ihb => simp [ofC02F, exprDeg, C02.Ids.exprDegree, iha, ihb]
  | prod a b iha ihb => simp [ofC02F, exprDeg, C02.Ids.exprDegree, iha, ihb]
  | scaled a c ih => simpa [ofC02F, exprDeg, C02.Ids.exprDegree] using ih

theorem mem_le_foldl_maxf {α : Type} (f : α → ℕ) (l : List α) (a : ℕ) (x : α) (hx : x ∈ l) :
    f x ≤ l.foldl (fun d e => max d (f e)) a := by
  induction l generalizing a with
  | nil => cases hx
  | cons y t ih =>
    simp only [List.foldl_cons]
    rcases List.mem_cons.1 hx with rfl | h
    · exact le_trans (le_max_right a (f x)) (C02.Ids.le_foldl_maxf f t _)
    · exact ih _ h

/-- The executable check the driver runs on the real tables (`gaterows` lines) is the hypothesis
`hgsat` of `honest_verifies_rows`: no (gate, row) pair is reported iff every gate expression is zero
on every row — over any commutative ring with decidable equality (the driver uses `Fin r`). -/
theorem gateViolations_nil_iff {R : Type} [Lean.Grind.CommRing R] [DecidableEq R] (n : ℕ) (t : Rows.Tbl R)
    (gates : List (Expr R)) :
    Rows.gateViolations n t gates = [] ↔ ∀ g ∈ gates, ∀ i, i < n → g.eval (Rows.rowEnv n t i) = 0 := by
  unfold Rows.gateViolations
  rw [List.flatMap_eq_nil_iff]
  constructor
  · intro h g hg i hi
    obtain ⟨k, hk, hgk⟩ := List.getElem_of_mem hg
    have hmem : (g, k) ∈ gates.zipIdx := by
      rw [List.mem_zipIdx_iff_getElem?]
      simp [← hgk]
    have := h (g, k) hmem
    rw [List.filterMap_eq_nil_iff] at this
    have h2 := this i (List.mem_range.2 hi)
    by_contra hne
    simp [hne] at h2
  · intro h ⟨g, k⟩ hmem
    have hg : g ∈ gates := by
      rw [List.mem_zipIdx_iff_getElem?] at hmem
      exact List.mem_of_getElem? hmem
    rw [List.filterMap_eq_nil_iff]
    intro i hi
    simp [h g hg i (List.mem_range.1 hi)]

end MidnightZK.C01.Lift
