import Mathlib.Algebra.Field.ZMod
import Mathlib.Data.Fintype.Prod
import MidnightZK.Proofs.C01.LookupPermute
import MidnightZK.Proofs.C01.PermComplete
/-!
A small concrete field (`ZMod 7` with the order of the representatives) used by the non-vacuity
example of `lookup_product_complete` in `Props/C01.lean`, and the explicit copy permutation of the
instance `exCols` (`PermComplete.lean`) used by the examples of the permutation theorems.
-/
namespace MidnightZK.C01.Toy
open Args

instance : Fact (Nat.Prime 7) := ⟨by decide⟩

/-- Order of the canonical representatives (what `Ord for Fq` is). -/
def le7 (a b : ZMod 7) : Bool := decide (a.val ≤ b.val)

theorem le7_lin : LinOrd le7 := ⟨by decide, by decide, by decide⟩

/-- `n = 5`, `bf = 1` (three usable rows): inputs `[2,1,2]` (a repeated value), table `[1,2,3]` (a
leftover value), blinding values `[4,6]`, `[6,4]`, `HashMap` iterated in reverse order. -/
theorem permuted_ok : permuteExpressionPair le7 0 List.reverse (5 - (1 + 1)) [2, 1, 2, 0, 0] [1, 2, 3, 5, 5] [4, 6] [6, 4]
    = .ok [1, 2, 2, 4, 6] [1, 2, 3, 6, 4] := by decide +kernel

theorem den_ne : ∀ i, i < 5 - (1 + 1) →
    ((1 : ZMod 7) + ([1, 2, 2, 4, 6] : List (ZMod 7)).getD i 0) * (1 + ([1, 2, 3, 6, 4] : List (ZMod 7)).getD i 0) ≠ 0 := by
  decide +kernel

end MidnightZK.C01.Toy

namespace MidnightZK.C01
open Args

/-- The copy permutation of `exCols`: cell `(j, i)` ↦ `(1 − j, 1 − i)` on the 2 × 2 usable cells. -/
def exPiFun : Fin 2 × Fin 2 → Fin 2 × Fin 2 := fun p => (1 - p.1, 1 - p.2)

theorem exPiFun_inv : ∀ x : Fin 2 × Fin 2, exPiFun (exPiFun x) = x := by decide

def exPi : Equiv.Perm (Fin exCols.length × Fin (4 - (1 + 1))) :=
  ⟨exPiFun, exPiFun, exPiFun_inv, exPiFun_inv⟩

/-- The σ-label of every usable cell of `exCols` is the identity label `2^j'·3^i'` of its image. -/
theorem exPi_sigma : ∀ (j : Fin exCols.length) (i : Fin (4 - (1 + 1))),
    (exCols[j]).2.getD i 0 = powN (2 : ℚ) (exPi (j, i)).1 * powN 3 (exPi (j, i)).2 := by
  decide +kernel

/-- Every usable cell of `exCols` carries the value of its image. -/
theorem exPi_val : ∀ (j : Fin exCols.length) (i : Fin (4 - (1 + 1))),
    (exCols[j]).1.getD i 0 = (exCols[(exPi (j, i)).1]).1.getD (exPi (j, i)).2 0 := by
  decide +kernel

end MidnightZK.C01
