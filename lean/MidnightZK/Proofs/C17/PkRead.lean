import MidnightZK.Model.C17.PkRead
import MidnightZK.Proofs.C17.Perm
import MidnightZK.Gen.C17Sites
/-! Helper lemmas for the recomputed part of a proving key (core Lean only). -/
namespace MidnightZK.C17

section
set_option linter.unusedSectionVars false
variable {F : Type} [Zero F] [One F] [Add F] [Sub F] [Mul F]

theorem zetaWorker_eq (ζ ζ2 : F) : ∀ (ch : List F) (start : Nat),
    zetaWorker ζ ζ2 ch start = ch.mapIdx (fun x a => zetaMul ζ ζ2 (start + x) a)
  | [], _ => by simp [zetaWorker]
  | a :: ch, start => by
    have ih := zetaWorker_eq ζ ζ2 ch (start + 1)
    simp only [zetaWorker, List.mapIdx_cons, Nat.add_zero, ih]
    congr 2
    funext x b
    rw [show start + 1 + x = start + (x + 1) by omega]

/-- `distribute_powers_zeta` is index-wise: entry `j` is multiplied by `[1, ζ, ζ²][j % 3]`,
for every positive thread count. -/
theorem distributePowersZeta_eq (t : Nat) (ht : 0 < t) (d : EDom F) (a : List F) :
    distributePowersZeta t d a = a.mapIdx (zetaMul d.zeta d.zetaSq) := by
  unfold distributePowersZeta
  exact parallelize_indexwise t ht a _ (zetaMul d.zeta d.zetaSq) (zetaWorker_eq d.zeta d.zetaSq)

/-- `coeff_to_extended` without reference to threads. -/
def coeffToExtendedSpec (d : EDom F) (a : List F) : List F :=
  (powersOf d.extOmega (2 ^ d.extK)).map (evalAt (a.mapIdx (zetaMul d.zeta d.zetaSq)))

theorem coeffToExtended_eq (t : Nat) (ht : 0 < t) (d : EDom F) (a : List F) :
    coeffToExtended t d a = coeffToExtendedSpec d a := by
  simp only [coeffToExtended, coeffToExtendedSpec, distributePowersZeta_eq t ht]

/-- The four locals of `compute_lagrange_polys` without reference to threads. -/
def lagrLocalsSpec (d : EDom F) (bf : Nat) : LagrLocals F :=
  let n := 2 ^ d.k
  let ext := fun v => coeffToExtendedSpec d (lagrangeToCoeff d v)
  let lBlind := ext ((List.range n).map (fun i => if n - bf ≤ i then (1 : F) else 0))
  let lLast := ext (unitRow n (n - bf - 1))
  ⟨ext (unitRow n 0), lBlind, lLast,
    (List.range (2 ^ d.extK)).map (fun i => 1 - (lLast.getD i 0 + lBlind.getD i 0))⟩

theorem activeRow_eq (t : Nat) (ht : 0 < t) (lLast lBlind : List F) (n : Nat) :
    parallelizeM t (List.replicate n (0 : F)) (activeWorker lLast lBlind)
      = (List.range n).map (fun i => 1 - (lLast.getD i 0 + lBlind.getD i 0)) := by
  rw [parallelize_indexwise t ht _ (activeWorker lLast lBlind)
    (fun i _ => 1 - (lLast.getD i 0 + lBlind.getD i 0)) (fun ch start => rfl)]
  exact mapIdx_replicate _ 0 _

theorem lagrLocals_eq (t : Nat) (ht : 0 < t) (d : EDom F) (bf : Nat) :
    lagrLocals t d bf = lagrLocalsSpec d bf := by
  simp only [lagrLocals, lagrLocalsSpec, coeffToExtended_eq t ht, activeRow_eq t ht]

/-- `compute_polys_and_cosets` without reference to threads. -/
def polysAndCosetsSpec (d : EDom F) (ncols : Nat) (perms : List (List F)) :
    Option (List (List F) × List (List F)) :=
  if perms.length < ncols then none else
  let polys := (List.range ncols).map (fun i => lagrangeToCoeff d (perms.getD i []))
  some (polys, (List.range ncols).map (fun i => coeffToExtendedSpec d (polys.getD i [])))

theorem computePolysAndCosets_eq (t : Nat) (ht : 0 < t) (d : EDom F) (ncols : Nat) (perms : List (List F)) :
    computePolysAndCosets t d ncols perms = polysAndCosetsSpec d ncols perms := by
  unfold computePolysAndCosets polysAndCosetsSpec
  split
  · rfl
  · have h1 : parallelizeM t (List.replicate ncols ([] : List F))
        (fun ch start => ch.mapIdx (fun x _ => lagrangeToCoeff d (perms.getD (start + x) [])))
        = (List.range ncols).map (fun i => lagrangeToCoeff d (perms.getD i [])) := by
      rw [parallelize_indexwise t ht _ _ (fun i _ => lagrangeToCoeff d (perms.getD i [])) (fun ch start => rfl)]
      exact mapIdx_replicate _ _ _
    simp only [h1, coeffToExtended_eq t ht]
    rw [parallelize_indexwise t ht _ _ (fun i _ => coeffToExtendedSpec d
      (((List.range ncols).map (fun i => lagrangeToCoeff d (perms.getD i []))).getD i [])) (fun ch start => rfl)]
    rw [mapIdx_replicate]

variable {P : Type}

/-- The derived part of a key does not depend on the thread count, at any call site. -/
theorem derivePKFull_thread_independent (t₁ t₂ : Nat) (h₁ : 0 < t₁) (h₂ : 0 < t₂) (ret pat : List String)
    (init : List (String × String)) (d : EDom F) (bf ncols : Nat) (s : PKStored P F) :
    derivePKFull t₁ ret pat init d bf ncols s = derivePKFull t₂ ret pat init d bf ncols s := by
  have hc : coeffToExtended t₁ d = coeffToExtended t₂ d :=
    funext (fun a => by rw [coeffToExtended_eq t₁ h₁, coeffToExtended_eq t₂ h₂])
  unfold derivePKFull
  simp only [lagrLocals_eq t₁ h₁, lagrLocals_eq t₂ h₂, computePolysAndCosets_eq t₁ h₁,
    computePolysAndCosets_eq t₂ h₂, hc]

end

/-! ## The call sites as the sources have them today -/

/-- At `ProvingKey::read` each of the three fields receives the local of the same name. -/
theorem siteField_read {F : Type} (locals : String → List F) :
    siteField Gen.lagrReturn Gen.lagrDestructRead Gen.pkInitRead locals "l0" = locals "l0" ∧
    siteField Gen.lagrReturn Gen.lagrDestructRead Gen.pkInitRead locals "l_last" = locals "l_last" ∧
    siteField Gen.lagrReturn Gen.lagrDestructRead Gen.pkInitRead locals "l_active_row" = locals "l_active_row" := by
  refine ⟨?_, ?_, ?_⟩ <;> rfl

/-- At `keygen_pk` each of the three fields receives the local of the same name. -/
theorem siteField_keygen {F : Type} (locals : String → List F) :
    siteField Gen.lagrReturn Gen.lagrDestructKeygen Gen.pkInitKeygen locals "l0" = locals "l0" ∧
    siteField Gen.lagrReturn Gen.lagrDestructKeygen Gen.pkInitKeygen locals "l_last" = locals "l_last" ∧
    siteField Gen.lagrReturn Gen.lagrDestructKeygen Gen.pkInitKeygen locals "l_active_row" = locals "l_active_row" := by
  refine ⟨?_, ?_, ?_⟩ <;> rfl

end MidnightZK.C17
