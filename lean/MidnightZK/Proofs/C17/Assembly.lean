import MidnightZK.Model.C17.Perm
/-! `permutation/keygen.rs: Assembly::copy` keeps `mapping` a permutation of the cells: every
successful call either changes nothing or exchanges the images of the two cells (core Lean only). -/
namespace MidnightZK.C17
open Array

theorem get2_set2 {α : Type} [Inhabited α] (a : Array (Array α)) (c c' : Cell) (v : α)
    (h1 : c.1 < a.size) (h2 : c.2 < (a[c.1]!).size) :
    get2 (set2 a c v) c' = if c' = c then v else get2 a c' := by
  obtain ⟨i, j⟩ := c
  obtain ⟨i', j'⟩ := c'
  simp only [get2, set2] at *
  by_cases hi : i = i'
  · subst hi
    by_cases hj : j = j'
    · subst hj
      simp [h1, Array.getElem!_eq_getD, Array.getD_eq_getD_getElem?, Array.getElem_modify] at *
      intro h; omega
    · have : ¬ (j' = j) := fun h => hj h.symm
      simp [h1, Array.getElem!_eq_getD, Array.getD_eq_getD_getElem?, Array.getElem_modify, hj, this] at *
  · have : ¬ (i' = i) := fun h => hi h.symm
    by_cases hb : i' < a.size
    · simp [hb, Array.getElem!_eq_getD, Array.getD_eq_getD_getElem?, Array.getElem_modify, hi, this] at *
    · simp [hb, Array.getElem!_eq_getD, Array.getD_eq_getD_getElem?, hi, this] at *

theorem set2_size {α : Type} (a : Array (Array α)) (c : Cell) (v : α) : (set2 a c v).size = a.size := by
  simp [set2]

theorem set2_row_size {α : Type} (a : Array (Array α)) (c : Cell) (v : α) (i : Nat) :
    ((set2 a c v)[i]!).size = (a[i]!).size := by
  simp only [set2]
  by_cases hb : i < a.size
  · by_cases hi : c.1 = i
    · simp [hb, Array.getElem_modify, hi]
    · simp [hb, Array.getElem_modify, hi]
  · simp [hb]

/-- `copy` either changes nothing (the cells already share a representative) or exchanges the
images of the two cells under `mapping` and leaves every other image alone. -/
theorem copy_mapping_swap (a a' : Assembly) (lc lr rc rr : Nat) (h : a.copy lc lr rc rr = some a') :
    (get2 a.aux (lc, lr) = get2 a.aux (rc, rr) ∧ a' = a) ∨
    (get2 a.aux (lc, lr) ≠ get2 a.aux (rc, rr) ∧ ∀ c, get2 a'.mapping c =
      if c = (rc, rr) then get2 a.mapping (lc, lr) else if c = (lc, lr) then get2 a.mapping (rc, rr)
      else get2 a.mapping c) := by
  unfold Assembly.copy at h
  split at h
  · cases h
  · next hb1 =>
    split at h
    · cases h
    · next hb2 =>
      dsimp only at h
      split at h
      · next heq => left; exact ⟨heq, by cases h; rfl⟩
      · next hne =>
        right
        refine ⟨hne, ?_⟩
        have b1 : lc < a.mapping.size ∧ rc < a.mapping.size := by omega
        have b2 : lr < (a.mapping[lc]!).size ∧ rr < (a.mapping[rc]!).size := by omega
        split at h
        all_goals
          simp only [Option.some.injEq] at h
          subst h
          intro c
          simp only []
          rw [get2_set2 _ (rc, rr) c _ (by rw [set2_size]; exact b1.2) (by rw [set2_row_size]; exact b2.2)]
          rw [get2_set2 _ (lc, lr) c _ b1.1 b2.1]

/-- `copy` never changes the shape of `mapping`. -/
theorem copy_shape (a a' : Assembly) (lc lr rc rr : Nat) (h : a.copy lc lr rc rr = some a') :
    a'.mapping.size = a.mapping.size ∧ ∀ i : Nat, (a'.mapping[i]!).size = (a.mapping[i]!).size := by
  unfold Assembly.copy at h
  split at h
  · cases h
  · split at h
    · cases h
    · dsimp only at h
      split at h
      · cases h; exact ⟨rfl, fun _ => rfl⟩
      · split at h
        all_goals
          simp only [Option.some.injEq] at h
          subst h
          simp only [set2_size, set2_row_size, true_and]
          intro i; trivial

/-- `copy` succeeds only on cells inside the table. -/
theorem copy_inbounds (a a' : Assembly) (lc lr rc rr : Nat) (h : a.copy lc lr rc rr = some a') :
    (lc < a.mapping.size ∧ lr < (a.mapping[lc]!).size) ∧ (rc < a.mapping.size ∧ rr < (a.mapping[rc]!).size) := by
  unfold Assembly.copy at h
  split at h
  · cases h
  · next hb1 =>
    split at h
    · cases h
    · next hb2 => omega

/-- The cell is inside the table. -/
def InB (a : Assembly) (c : Cell) : Prop := c.1 < a.mapping.size ∧ c.2 < (a.mapping[c.1]!).size

/-- `mapping` is a permutation of the cells of the table: it maps cells to cells, injectively
(on a finite table: bijectively). -/
def PermOn (a : Assembly) : Prop :=
  (∀ c, InB a c → InB a (get2 a.mapping c)) ∧
  (∀ c d, InB a c → InB a d → get2 a.mapping c = get2 a.mapping d → c = d)

theorem copy_preserves_perm (a a' : Assembly) (lc lr rc rr : Nat) (h : a.copy lc lr rc rr = some a')
    (hp : PermOn a) : PermOn a' := by
  have hs := copy_shape a a' lc lr rc rr h
  have hb := copy_inbounds a a' lc lr rc rr h
  have hin : ∀ c, InB a' c ↔ InB a c := by
    intro c; unfold InB; rw [hs.1, hs.2]
  have hL : InB a (lc, lr) := hb.1
  have hR : InB a (rc, rr) := hb.2
  rcases copy_mapping_swap a a' lc lr rc rr h with ⟨_, rfl⟩ | ⟨hne, hm⟩
  · exact hp
  · have hLR : (lc, lr) ≠ (rc, rr) := fun e => hne (by rw [e])
    refine ⟨?_, ?_⟩
    · intro c hc
      rw [hin] at hc ⊢
      rw [hm c]
      split
      · exact hp.1 _ hL
      · split
        · exact hp.1 _ hR
        · exact hp.1 _ hc
    · intro c d hc hd hcd
      rw [hin] at hc hd
      rw [hm c, hm d] at hcd
      by_cases c1 : c = (rc, rr) <;> by_cases d1 : d = (rc, rr) <;>
        by_cases c2 : c = (lc, lr) <;> by_cases d2 : d = (lc, lr) <;>
        simp only [c1, d1, c2, d2, hLR, hLR.symm, if_true, if_false] at hcd <;>
        first
          | (exact absurd (c2.symm.trans c1) hLR)
          | (exact absurd (d2.symm.trans d1) hLR)
          | (subst_vars; rfl)
          | (exact c1.trans d1.symm)
          | (exact c2.trans d2.symm)
          | (have := hp.2 _ _ hL hR hcd; rw [c1, d2]; exact this.symm)
          | (have := hp.2 _ _ hR hL hcd; rw [c2, d1]; exact this.symm)
          | (have := hp.2 _ _ hL hd hcd; exact absurd this.symm d2)
          | (have := hp.2 _ _ hR hd hcd; exact absurd this.symm d1)
          | (have := hp.2 _ _ hc hL hcd; exact absurd this c2)
          | (have := hp.2 _ _ hc hR hcd; exact absurd this c1)
          | (exact hp.2 _ _ hc hd hcd)

theorem copies_preserve_perm : ∀ (l : List (Nat × Nat × Nat × Nat)) (a a' : Assembly),
    a.copies l = some a' → PermOn a → PermOn a'
  | [], a, a', h, hp => by simp only [Assembly.copies, Option.some.injEq] at h; exact h ▸ hp
  | (lc, lr, rc, rr) :: t, a, a', h, hp => by
    simp only [Assembly.copies] at h
    cases hc : a.copy lc lr rc rr with
    | none => rw [hc] at h; cases h
    | some a₁ =>
      rw [hc] at h
      exact copies_preserve_perm t a₁ a' h (copy_preserves_perm a a₁ lc lr rc rr hc hp)


theorem new_get2 (n ncols : Nat) (c : Cell) (h : InB (Assembly.new n ncols) c) :
    get2 (Assembly.new n ncols).mapping c = c := by
  obtain ⟨i, j⟩ := c
  simp only [InB, Assembly.new] at h
  simp only [get2, Assembly.new]
  have hi : i < ncols := by simpa using h.1
  have hj : j < n := by
    have := h.2
    simp [hi] at this
    exact this
  simp [hi, hj]

theorem new_perm (n ncols : Nat) : PermOn (Assembly.new n ncols) := by
  refine ⟨?_, ?_⟩
  · intro c hc; rw [new_get2 n ncols c hc]; exact hc
  · intro c d hc hd h; rw [new_get2 n ncols c hc, new_get2 n ncols d hd] at h; exact h

end MidnightZK.C17
