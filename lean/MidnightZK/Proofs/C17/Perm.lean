import MidnightZK.Model.C17.Perm
/-! Helper lemmas for the permutation-construction theorems of C17 (core Lean only). -/
namespace MidnightZK.C17
open MidnightZK.C12 (chunks visited)

private theorem flatMap_range'' (s c : Nat) : ∀ n,
    (List.range n).flatMap (fun i => List.range' (s + i * c) c) = List.range' s (n * c)
  | 0 => by simp
  | n + 1 => by
    rw [List.range_succ, List.flatMap_append, flatMap_range'' s c n]
    simp only [List.flatMap_cons, List.flatMap_nil, List.append_nil]
    rw [Nat.succ_mul, ← List.range'_append_1]

/-- The chunk layout of `parallelize` visits `0, 1, …, len − 1` in order (same statement and
proof as `MidnightZK.C12.parallelize_partition`, restated here to keep this module free of
the C12 proof files). -/
theorem visited_eq_range (len t : Nat) (ht : 0 < t) : visited len t = List.range len := by
  unfold visited chunks
  simp only [List.flatMap_append]
  have hdm : t * (len / t) + len % t = len := Nat.div_add_mod len t
  have hlt : len % t < t := Nat.mod_lt _ ht
  generalize hb : len / t = base at *
  generalize hc : len % t = cutoff at *
  have h1 : (if cutoff ≠ 0 then (List.range cutoff).map (fun id => (id * (base + 1), base + 1)) else []).flatMap
      (fun c => List.range' c.1 c.2) = List.range' 0 (cutoff * (base + 1)) := by
    split
    · rw [List.flatMap_map]
      have := flatMap_range'' 0 (base + 1) cutoff
      simpa using this
    · next h => simp at h; simp [h]
  have hsum : len = cutoff * (base + 1) + (t - cutoff) * base := by
    rw [Nat.sub_mul, Nat.mul_add, Nat.mul_one]
    have : cutoff * base ≤ t * base := Nat.mul_le_mul_right _ (Nat.le_of_lt hlt)
    omega
  have hsplit : len - cutoff * (base + 1) = (t - cutoff) * base := by omega
  have h2 : (if base ≠ 0 then (List.range ((len - cutoff * (base + 1)) / base)).map
        (fun id => (cutoff * (base + 1) + id * base, base)) else []).flatMap
      (fun c => List.range' c.1 c.2) = List.range' (cutoff * (base + 1)) ((t - cutoff) * base) := by
    split
    · next h =>
      rw [List.flatMap_map, hsplit, Nat.mul_div_cancel _ (Nat.pos_of_ne_zero h)]
      exact flatMap_range'' _ base _
    · next h => simp at h; simp [h]
  rw [h1, h2, List.range_eq_range']
  conv => rhs; rw [hsum]
  rw [← List.range'_append_1]; simp

variable {α β : Type}

theorem filterMap_range'_oob (v : List α) (g : Nat → α → β) : ∀ (l o : Nat), v.length ≤ o →
    (List.range' o l).filterMap (fun i => v[i]?.map (g i)) = []
  | 0, _, _ => by simp
  | l + 1, o, h => by
    rw [List.range'_succ, List.filterMap_cons]
    have : v[o]? = none := List.getElem?_eq_none h
    simp [this, filterMap_range'_oob v g l (o + 1) (by omega)]

/-- A slice processed index-wise with its offset, as a selection from the index range. -/
theorem slice_mapIdx (g : Nat → α → β) : ∀ (l o : Nat) (v : List α),
    ((v.drop o).take l).mapIdx (fun x a => g (o + x) a) =
      (List.range' o l).filterMap (fun i => v[i]?.map (g i))
  | 0, o, v => by simp
  | l + 1, o, v => by
    by_cases h : o < v.length
    · have hd : v.drop o = v[o] :: v.drop (o + 1) := List.drop_eq_getElem_cons h
      rw [hd, List.take_succ_cons, List.mapIdx_cons, List.range'_succ, List.filterMap_cons]
      have hs : v[o]? = some v[o] := List.getElem?_eq_getElem h
      simp only [hs, Option.map_some, Nat.add_zero]
      congr 1
      have ih := slice_mapIdx g l (o + 1) v
      rw [← ih]
      congr 1
      funext x a
      congr 1
      omega
    · have hle : v.length ≤ o := by omega
      rw [List.drop_eq_nil_of_le hle]
      simp [filterMap_range'_oob v g (l + 1) o hle]

theorem mapIdx_eq_filterMap_range (g : Nat → α → β) (v : List α) :
    v.mapIdx g = (List.range v.length).filterMap (fun i => v[i]?.map (g i)) := by
  have := slice_mapIdx g v.length 0 v
  simpa [List.range_eq_range'] using this

/-- `parallelize` with an index-wise worker computes the index-wise map, for every positive
thread count. -/
theorem parallelize_indexwise (t : Nat) (ht : 0 < t) (v : List α) (f : List α → Nat → List α)
    (g : Nat → α → α) (hf : ∀ ch start, f ch start = ch.mapIdx (fun x a => g (start + x) a)) :
    parallelizeM t v f = v.mapIdx g := by
  unfold parallelizeM
  simp only [hf, slice_mapIdx]
  rw [mapIdx_eq_filterMap_range, ← visited_eq_range v.length t ht]
  unfold visited
  rw [List.filterMap_flatMap]

section
set_option linter.unusedSectionVars false
variable {F : Type} [Mul F] [One F] [Zero F]

theorem fillPowers_eq (ω : F) : ∀ (ch : List F) (start : Nat),
    fillPowers ω (powN ω start) ch = ch.mapIdx (fun x _ => powN ω (start + x))
  | [], _ => by simp [fillPowers]
  | a :: ch, start => by
    have ih := fillPowers_eq ω ch (start + 1)
    simp only [powN] at ih
    simp only [fillPowers, List.mapIdx_cons, Nat.add_zero, ih]
    congr 2
    funext x _
    rw [show start + 1 + x = start + (x + 1) by omega]

theorem scaleRows_eq (δ : F) : ∀ (ch : List (List F)) (start : Nat),
    scaleRows δ (powN δ start) ch = ch.mapIdx (fun x row => row.map (· * powN δ (start + x)))
  | [], _ => by simp [scaleRows]
  | a :: ch, start => by
    have ih := scaleRows_eq δ ch (start + 1)
    simp only [powN] at ih
    simp only [scaleRows, List.mapIdx_cons, Nat.add_zero, ih]
    congr 2
    funext x row
    rw [show start + 1 + x = start + (x + 1) by omega]

theorem mapIdx_replicate (n : Nat) (a : α) (g : Nat → α → β) :
    (List.replicate n a).mapIdx g = (List.range n).map (fun i => g i a) := by
  apply List.ext_getElem
  · simp
  · intro i h1 h2
    simp

theorem omegaPowers_eq (t : Nat) (ht : 0 < t) (ω : F) (n : Nat) :
    omegaPowers t ω n = (List.range n).map (powN ω) := by
  unfold omegaPowers
  rw [parallelize_indexwise t ht _ _ (fun i _ => powN ω i) (fun ch start => fillPowers_eq ω ch start)]
  exact mapIdx_replicate n 0 _

theorem deltaOmega_eq (t : Nat) (ht : 0 < t) (δ : F) (op : List F) (ncols : Nat) :
    deltaOmega t δ op ncols = (List.range ncols).map (fun i => op.map (· * powN δ i)) := by
  unfold deltaOmega
  rw [parallelize_indexwise t ht _ _ (fun i row => row.map (· * powN δ i)) (fun ch start => scaleRows_eq δ ch start)]
  exact mapIdx_replicate ncols op _

theorem lookup2_table (ω δ : F) (n ncols : Nat) (c : Cell) :
    lookup2 ((List.range ncols).map (fun i => ((List.range n).map (powN ω)).map (· * powN δ i))) c =
      if c.1 < ncols ∧ c.2 < n then powN ω c.2 * powN δ c.1 else 0 := by
  unfold lookup2
  by_cases h1 : c.1 < ncols
  · by_cases h2 : c.2 < n
    · simp [List.getD, h1, h2]
    · simp [List.getD, h1, h2]
  · simp [List.getD, h1]

theorem buildPermutations_eq (t : Nat) (ht : 0 < t) (ω δ : F) (n ncols : Nat) (mapping : Nat → Nat → Cell) :
    buildPermutations t ω δ n ncols mapping = permSpec ω δ n ncols mapping := by
  unfold buildPermutations permSpec
  show parallelizeM t _ (fillPerm mapping (deltaOmega t δ (omegaPowers t ω n) ncols)) = _
  rw [omegaPowers_eq t ht, deltaOmega_eq t ht]
  rw [parallelize_indexwise t ht _ (fillPerm mapping _)
    (fun i poly => poly.mapIdx (fun j _ => lookup2 ((List.range ncols).map
      (fun i => ((List.range n).map (powN ω)).map (· * powN δ i))) (mapping i j)))
    (fun ch start => rfl)]
  rw [mapIdx_replicate]
  apply List.map_congr_left
  intro i _
  rw [mapIdx_replicate]
  apply List.map_congr_left
  intro j _
  exact lookup2_table ω δ n ncols (mapping i j)

end

end MidnightZK.C17
