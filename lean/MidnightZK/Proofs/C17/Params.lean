import Mathlib.Tactic.Ring
import Mathlib.Tactic.FieldSimp
import Mathlib.Tactic.Linarith
import Mathlib.Algebra.Field.Basic
import MidnightZK.Model.C17.Params
/-! Helper lemmas for the `downsize` theorems of C17 (field `F`). -/
namespace MidnightZK.C17

section
variable {F : Type} [Field F]

theorem powN_eq_pow (x : F) (n : Nat) : powN x n = x ^ n := by
  induction n with
  | zero => simp [powN]
  | succ n ih => simp [powN, ih, pow_succ]

theorem sumTo_congr (f g : Nat → F) : ∀ n, (∀ j < n, f j = g j) → sumTo f n = sumTo g n
  | 0, _ => rfl
  | n + 1, h => by
    simp only [sumTo]
    rw [sumTo_congr f g n (fun j hj => h j (by omega)), h n (by omega)]

/-- Geometric sum: `(x − 1) · Σ_{j<n} x^j = x^n − 1`. -/
theorem geom_sumTo (x : F) : ∀ n, (x - 1) * sumTo (fun j => x ^ j) n = x ^ n - 1
  | 0 => by simp [sumTo]
  | n + 1 => by
    simp only [sumTo]
    rw [mul_add, geom_sumTo x n]
    ring

/-- The inverse DFT of the monomial basis `[s^j]` at index `i` is the closed formula
`(s^n − 1)·ω^i/(s − ω^i)` (both sides still to be multiplied by `n⁻¹`). -/
theorem idft_monomials (s ω ωinv : F) (n i : Nat) (hω : ω ^ n = 1) (hinv : ω * ωinv = 1)
    (hs : s - ω ^ i ≠ 0) :
    sumTo (fun j => s ^ j * (ωinv ^ i) ^ j) n = (s ^ n - 1) * ω ^ i * (s - ω ^ i)⁻¹ := by
  have hωi : ω ^ i * ωinv ^ i = 1 := by rw [← mul_pow, hinv, one_pow]
  have hωinvn : ωinv ^ n = 1 := by
    have : ω ^ n * ωinv ^ n = 1 := by rw [← mul_pow, hinv, one_pow]
    rw [hω, one_mul] at this; exact this
  have hx : ∀ j, s ^ j * (ωinv ^ i) ^ j = (s * ωinv ^ i) ^ j := fun j => (mul_pow _ _ _).symm
  simp only [hx]
  have hx1 : s * ωinv ^ i - 1 = (s - ω ^ i) * ωinv ^ i := by
    rw [sub_mul, hωi]
  have hne : s * ωinv ^ i - 1 ≠ 0 := by
    rw [hx1]
    refine mul_ne_zero hs ?_
    intro h0
    rw [h0, mul_zero] at hωi
    exact zero_ne_one hωi
  have hxn : (s * ωinv ^ i) ^ n = s ^ n := by
    rw [mul_pow, ← pow_mul, mul_comm i n, pow_mul, hωinvn, one_pow, mul_one]
  have hg := geom_sumTo (s * ωinv ^ i) n
  rw [hxn] at hg
  have : sumTo (fun j => (s * ωinv ^ i) ^ j) n = (s ^ n - 1) * (s * ωinv ^ i - 1)⁻¹ := by
    field_simp
    rw [mul_comm]; exact hg
  rw [this, hx1, mul_inv]
  have : (ωinv ^ i)⁻¹ = ω ^ i := inv_eq_of_mul_eq_one_left hωi
  rw [this]
  ring

end

end MidnightZK.C17
