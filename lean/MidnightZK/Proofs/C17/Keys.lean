import MidnightZK.Model.C17.Keys
import MidnightZK.Model.C17.Transcript
import MidnightZK.Model.C17.Params
/-! Helper lemmas for the serialisation theorems of C17 (core Lean only). -/
namespace MidnightZK.C17

theorem readExact_append (a r : Bytes) : readExact a.length (a ++ r) = .ok (a, r) := by
  simp [readExact]

theorem readExact_append' (n : Nat) (a r : Bytes) (h : a.length = n) :
    readExact n (a ++ r) = .ok (a, r) := by
  subst h; exact readExact_append a r

theorem readExact_short (n : Nat) (bs : Bytes) (h : bs.length < n) : readExact n bs = .error .eof := by
  simp [readExact]; omega

theorem byteOf_toNat (n : Nat) : (byteOf n).toNat = n % 256 := by simp [byteOf]

theorem le32_length (n : Nat) : (le32 n).length = 4 := by simp [le32]
theorem be32_length (n : Nat) : (be32 n).length = 4 := by simp [be32, le32]

theorem ofLe32_le32 (n : Nat) (h : n < 2 ^ 32) : ofLe32 (le32 n) = n := by
  simp [ofLe32, le32, byteOf]; omega

theorem ofBe32_be32 (n : Nat) (h : n < 2 ^ 32) : ofBe32 (be32 n) = n := by
  simp [ofBe32, be32, ofLe32_le32 n h]

variable {P F : Type}

theorem Codec.enc_length (c : Codec P) (hc : c.Lawful) (fmt : Format) (p : P) :
    (c.enc fmt p).length = c.byteLen fmt := by
  cases fmt <;> simp [Codec.enc, Codec.byteLen, hc.lenC, hc.lenR]

/-- The bytes written under `RawBytes` and `RawBytesUnchecked` are the same. -/
theorem Codec.enc_raw_eq (c : Codec P) (p : P) : c.enc .rawBytes p = c.enc .rawBytesUnchecked p := rfl

theorem Codec.read_enc (c : Codec P) (hc : c.Lawful) (fa fb : Format) (h : fa.compat fb = true)
    (p : P) (r : Bytes) : c.read fb (c.enc fa p ++ r) = .ok (p, r) := by
  cases fa <;> cases fb <;> simp [Format.compat] at h <;>
    simp [Codec.read, Codec.enc, readExact_append' _ _ _ (hc.lenC p), readExact_append' _ _ _ (hc.lenR p),
      hc.rtC, hc.rtR, hc.rtU]

theorem Codec.readMany_writeMany (c : Codec P) (hc : c.Lawful) (fa fb : Format)
    (h : fa.compat fb = true) : ∀ (ps : List P) (r : Bytes),
    c.readMany fb ps.length (c.writeMany fa ps ++ r) = .ok (ps, r)
  | [], r => by simp [Codec.readMany, Codec.writeMany]
  | p :: ps, r => by
    have ih := Codec.readMany_writeMany c hc fa fb h ps r
    simp only [Codec.writeMany] at ih
    simp [Codec.readMany, Codec.writeMany, List.append_assoc, Codec.read_enc c hc fa fb h, ih]

theorem Codec.writeMany_length (c : Codec P) (hc : c.Lawful) (fmt : Format) :
    ∀ ps : List P, (c.writeMany fmt ps).length = ps.length * c.byteLen fmt
  | [] => by simp [Codec.writeMany]
  | p :: ps => by
    have ih := Codec.writeMany_length c hc fmt ps
    simp only [Codec.writeMany] at ih
    simp [Codec.writeMany, Codec.enc_length c hc, ih, Nat.add_mul]; omega

theorem FCodec.read_enc (c : FCodec F) (hc : c.Lawful) (fmt : Format) (x : F) (r : Bytes) :
    c.read fmt (c.enc x ++ r) = .ok (x, r) := by
  cases fmt <;> simp [FCodec.read, readExact_append' _ _ _ (hc.len x), hc.rt, hc.rtU]

theorem FCodec.readMany_enc (c : FCodec F) (hc : c.Lawful) (fmt : Format) :
    ∀ (xs : List F) (r : Bytes), c.readMany fmt xs.length (xs.flatMap c.enc ++ r) = .ok (xs, r)
  | [], r => by simp [FCodec.readMany]
  | x :: xs, r => by
    simp [FCodec.readMany, List.append_assoc, FCodec.read_enc c hc, FCodec.readMany_enc c hc fmt xs r]

theorem readPoly_writePoly (c : FCodec F) (hc : c.Lawful) (fmt : Format) (p : List F)
    (hp : p.length < 2 ^ 32) (r : Bytes) : readPoly c fmt (writePoly c p ++ r) = .ok (p, r) := by
  simp [readPoly, writePoly, List.append_assoc, readExact_append' 4 _ _ (be32_length _),
    ofBe32_be32 _ hp, FCodec.readMany_enc c hc]

theorem readPolys_write (c : FCodec F) (hc : c.Lawful) (fmt : Format) :
    ∀ (ps : List (List F)) (_ : ∀ p ∈ ps, p.length < 2 ^ 32) (r : Bytes),
    readPolys c fmt ps.length (ps.flatMap (writePoly c) ++ r) = .ok (ps, r)
  | [], _, r => by simp [readPolys]
  | p :: ps, h, r => by
    have hp : p.length < 2 ^ 32 := h p (by simp)
    have ih := readPolys_write c hc fmt ps (fun q hq => h q (by simp [hq])) r
    simp [readPolys, List.append_assoc, readPoly_writePoly c hc fmt p hp, ih]

theorem readPolyVec_write (c : FCodec F) (hc : c.Lawful) (fmt : Format) (ps : List (List F))
    (hn : ps.length < 2 ^ 32) (h : ∀ p ∈ ps, p.length < 2 ^ 32) (r : Bytes) :
    readPolyVec c fmt (writePolyVec c ps ++ r) = .ok (ps, r) := by
  simp [readPolyVec, writePolyVec, List.append_assoc, readExact_append' 4 _ _ (be32_length _),
    ofBe32_be32 _ hn, readPolys_write c hc fmt ps h]

/-! ### Consumption: a successful read uses exactly the expected number of bytes -/

theorem readExact_ok {n : Nat} {bs a r : Bytes} (h : readExact n bs = .ok (a, r)) :
    bs = a ++ r ∧ a.length = n := by
  unfold readExact at h
  split at h
  · next hn =>
    simp only [Except.ok.injEq, Prod.mk.injEq] at h
    obtain ⟨rfl, rfl⟩ := h
    exact ⟨(List.take_append_drop n bs).symm, by simp [List.length_take]; omega⟩
  · simp at h

theorem Codec.read_consumes (c : Codec P) (fmt : Format) {bs r : Bytes} {p : P}
    (h : c.read fmt bs = .ok (p, r)) : bs.length = c.byteLen fmt + r.length := by
  cases fmt <;> simp only [Codec.read] at h
  · split at h
    · simp at h
    · next ch r' he =>
      obtain ⟨rfl, hl⟩ := readExact_ok he
      split at h <;> simp at h
      obtain ⟨_, rfl⟩ := h
      simp [Codec.byteLen, hl]
  · split at h
    · simp at h
    · next ch r' he =>
      obtain ⟨rfl, hl⟩ := readExact_ok he
      split at h <;> simp at h
      obtain ⟨_, rfl⟩ := h
      simp [Codec.byteLen, hl]
  · split at h
    · simp at h
    · next ch r' he =>
      obtain ⟨rfl, hl⟩ := readExact_ok he
      simp at h
      obtain ⟨_, rfl⟩ := h
      simp [Codec.byteLen, hl]

theorem Codec.readMany_consumes (c : Codec P) (fmt : Format) : ∀ (n : Nat) {bs r : Bytes} {ps : List P},
    c.readMany fmt n bs = .ok (ps, r) → bs.length = n * c.byteLen fmt + r.length ∧ ps.length = n
  | 0, bs, r, ps, h => by
    simp [Codec.readMany] at h
    obtain ⟨rfl, rfl⟩ := h
    simp
  | n + 1, bs, r, ps, h => by
    simp only [Codec.readMany] at h
    split at h
    · simp at h
    · next p r1 h1 =>
      split at h
      · simp at h
      · next ps' r2 h2 =>
        simp at h
        obtain ⟨rfl, rfl⟩ := h
        have a := Codec.read_consumes c fmt h1
        have ⟨b, hl⟩ := Codec.readMany_consumes c fmt n h2
        refine ⟨?_, by simp [hl]⟩
        rw [a, b, Nat.add_mul]; omega

theorem readVK_consumes (c : Codec P) (v : UInt8) (fmt : Format) (sh : Shape) {bs r : Bytes} {vk : VK P}
    (h : readVK c v fmt sh bs = .ok (vk, r)) :
    bs.length = vkLen c fmt sh.nFixed sh.nPerm + r.length ∧
      vk.fixed.length = sh.nFixed ∧ vk.perm.length = sh.nPerm := by
  unfold readVK at h
  split at h
  · simp at h
  · next v1 r1 h1 =>
    split at h
    · simp at h
    · split at h
      · simp at h
      · next kb r2 h2 =>
        simp only at h
        split at h
        · simp at h
        · split at h
          · simp at h
          · split at h
            · simp at h
            · next nb r3 h3 =>
              split at h
              · simp at h
              · next hcount =>
                split at h
                · simp at h
                · next fixed r4 h4 =>
                  split at h
                  · simp at h
                  · next perm r5 h5 =>
                    simp at h
                    obtain ⟨rfl, rfl⟩ := h
                    obtain ⟨rfl, l1⟩ := readExact_ok h1
                    obtain ⟨rfl, l2⟩ := readExact_ok h2
                    obtain ⟨rfl, l3⟩ := readExact_ok h3
                    have ⟨a4, f4⟩ := Codec.readMany_consumes c fmt _ h4
                    have ⟨a5, f5⟩ := Codec.readMany_consumes c fmt _ h5
                    have hc : ofLe32 nb = sh.nFixed := by simpa using hcount
                    refine ⟨?_, by simp [f4, hc], by simp [f5]⟩
                    simp only [List.length_append, l1, l2, l3, a4, a5, vkLen, hc, Nat.add_mul]
                    omega

/-! ### The transcript preimage determines the key -/

/-- A parser inverting `transcriptPreimage` (used only to prove injectivity). -/
def unparsePre (c : Codec P) (bs : Bytes) : Option (VK P × Bytes) :=
  match bs with
  | _ :: kb :: t =>
    match readExact 4 t with
    | .error _ => none
    | .ok (nb, r1) =>
      match c.readMany .rawBytesUnchecked (ofLe32 nb) r1 with
      | .error _ => none
      | .ok (fixed, r2) =>
        match readExact 4 r2 with
        | .error _ => none
        | .ok (mb, r3) =>
          match c.readMany .rawBytesUnchecked (ofLe32 mb) r3 with
          | .error _ => none
          | .ok (perm, r4) => some (⟨kb.toNat, fixed, perm⟩, r4)
  | _ => none

theorem unparsePre_preimage (c : Codec P) (hc : c.Lawful) (v : UInt8) (vk : VK P) (desc : Bytes)
    (hk : vk.k < 256) (hf : vk.fixed.length < 2 ^ 32) (hp : vk.perm.length < 2 ^ 32) :
    unparsePre c (transcriptPreimage c v vk desc) = some (vk, desc) := by
  have hkb : (byteOf vk.k).toNat = vk.k := by rw [byteOf_toNat]; omega
  have e3 := readExact_append' 4 (le32 vk.fixed.length)
    (c.writeMany .rawBytesUnchecked vk.fixed ++ (le32 vk.perm.length ++ (c.writeMany .rawBytesUnchecked vk.perm ++ desc)))
    (le32_length _)
  have e4 := readExact_append' 4 (le32 vk.perm.length) (c.writeMany .rawBytesUnchecked vk.perm ++ desc) (le32_length _)
  have r1 := Codec.readMany_writeMany c hc .rawBytesUnchecked .rawBytesUnchecked rfl vk.fixed
    (le32 vk.perm.length ++ (c.writeMany .rawBytesUnchecked vk.perm ++ desc))
  have r2 := Codec.readMany_writeMany c hc .rawBytesUnchecked .rawBytesUnchecked rfl vk.perm desc
  unfold unparsePre transcriptPreimage
  simp only [List.cons_append, List.nil_append, List.append_assoc, e3, e4, ofLe32_le32 _ hf,
    ofLe32_le32 _ hp, r1, r2, hkb]

/-! ### Parameters -/

section
variable {G1 G2 : Type}

theorem readChunks_writeMany (c : Codec G1) (hc : c.Lawful) : ∀ (ps : List G1) (r : Bytes),
    readChunks c.plen ps.length (c.writeMany .processed ps ++ r) = .ok (ps.map c.encC, r)
  | [], r => by simp [readChunks, Codec.writeMany]
  | p :: ps, r => by
    have ih := readChunks_writeMany c hc ps r
    simp only [Codec.writeMany, Codec.enc] at ih
    simp [readChunks, Codec.writeMany, Codec.enc, List.append_assoc,
      readExact_append' _ _ _ (hc.lenC p), ih]

theorem decodeAll_enc (c : Codec G1) (hc : c.Lawful) : ∀ ps : List G1, decodeAll c (ps.map c.encC) = .ok ps
  | [] => rfl
  | p :: ps => by simp [decodeAll, hc.rtC, decodeAll_enc c hc ps]

theorem readG1Vec_writeMany (c : Codec G1) (hc : c.Lawful) (fa fb : Format) (h : fa.compat fb = true)
    (ps : List G1) (r : Bytes) : readG1Vec c fb ps.length (c.writeMany fa ps ++ r) = .ok (ps, r) := by
  cases fb
  · cases fa <;> simp [Format.compat] at h
    simp [readG1Vec, readChunks_writeMany c hc, decodeAll_enc c hc]
  · simp only [readG1Vec]; exact Codec.readMany_writeMany c hc fa _ h ps r
  · simp only [readG1Vec]; exact Codec.readMany_writeMany c hc fa _ h ps r

end

end MidnightZK.C17
