import Mathlib.Tactic.Ring
import Mathlib.Algebra.Field.Basic
import MidnightZK.Proofs.C17.Params
import MidnightZK.Proofs.C17.PkRead
/-! `coeff_to_extended` evaluates on the coset `ζ·⟨ω_e⟩` (ring reasoning; Mathlib). -/
namespace MidnightZK.C17

variable {K : Type} [Field K]

/-- With `ζ³ = 1` the factor chosen by `index % 3` is `ζ^index`. -/
theorem zetaMul_eq_pow (ζ : K) (hζ : ζ ^ 3 = 1) (j : Nat) (a : K) : zetaMul ζ (ζ ^ 2) j a = a * ζ ^ j := by
  have hj : ζ ^ j = ζ ^ (j % 3) := by
    conv => lhs; rw [← Nat.mod_add_div j 3]
    rw [pow_add, pow_mul, hζ, one_pow, mul_one]
  unfold zetaMul
  rw [hj]
  have h3 : j % 3 < 3 := Nat.mod_lt _ (by decide)
  rcases Nat.lt_or_ge (j % 3) 1 with h | h
  · have : j % 3 = 0 := by omega
    simp [this]
  · rcases Nat.lt_or_ge (j % 3) 2 with h' | h'
    · have : j % 3 = 1 := by omega
      simp [this]
    · have : j % 3 = 2 := by omega
      simp [this]

/-- Scaling coefficient `j` by `ζ^(m+j)` is substituting `ζ·x` (times `ζ^m`). -/
theorem evalAt_scaled (ζ x : K) : ∀ (a : List K) (m : Nat),
    evalAt (a.mapIdx (fun j y => y * ζ ^ (m + j))) x = ζ ^ m * evalAt a (ζ * x)
  | [], m => by simp [evalAt]
  | c :: t, m => by
    have ih := evalAt_scaled ζ x t (m + 1)
    have e : (fun (j : Nat) (y : K) => y * ζ ^ (m + (j + 1))) = fun j y => y * ζ ^ (m + 1 + j) := by
      funext j y; rw [show m + (j + 1) = m + 1 + j by omega]
    simp only [List.mapIdx_cons, evalAt, List.foldr_cons, Nat.add_zero] at ih ⊢
    rw [e, ih]
    ring

/-- `coeff_to_extended` (thread-free form) evaluates the polynomial on the coset `ζ·ω_e^i`. -/
theorem coeffToExtendedSpec_eval (d : EDom K) (hζ : d.zeta ^ 3 = 1) (hsq : d.zetaSq = d.zeta ^ 2) (a : List K) :
    coeffToExtendedSpec d a = (powersOf d.extOmega (2 ^ d.extK)).map (fun x => evalAt a (d.zeta * x)) := by
  unfold coeffToExtendedSpec
  apply List.map_congr_left
  intro x _
  have e : a.mapIdx (zetaMul d.zeta d.zetaSq) = a.mapIdx (fun j y => y * d.zeta ^ (0 + j)) := by
    congr 1
    funext j y
    rw [hsq, zetaMul_eq_pow d.zeta hζ, Nat.zero_add]
  rw [e, evalAt_scaled, pow_zero, one_mul]

end MidnightZK.C17
