import MidnightZK.Proofs.C12.Msm
/-! The batch-affine schedule of `msm_best` preserves the bucket sums (abstract group). -/
namespace MidnightZK.C12
open MidnightZK

section
variable {G : Type} [AddCommGroup G]

theorem sum_set (l : List G) (i : Nat) (v : G) (hi : i < l.length) :
    (l.set i v).sum = l.sum + (v - l[i]) := by
  induction l generalizing i with
  | nil => simp at hi
  | cons b t ih =>
    cases i with
    | zero => simp; abel
    | succ i =>
      have : i < t.length := by simpa using hi
      simp [ih i this]; abel

theorem wsum_set (l : List G) (i : Nat) (v : G) (hi : i < l.length) :
    wsum (l.set i v) = wsum l + (i + 1) • (v - l[i]) := by
  induction l generalizing i with
  | nil => simp at hi
  | cons b t ih =>
    cases i with
    | zero => simp [wsum]; abel
    | succ i =>
      have hi' : i < t.length := by simpa using hi
      simp only [List.set_cons_succ, wsum, List.getElem_cons_succ]
      rw [ih i hi', sum_set t i v hi', add_smul (i + 1) 1, one_smul]
      abel

/-- Weighted sum of optional buckets (`None` = identity). -/
def optSum (l : List (Option G)) : G := wsum (l.map (·.getD 0))

theorem optSum_set (l : List (Option G)) (i : Nat) (v x : Option G) (hx : l[i]? = some x) :
    optSum (l.set i v) = optSum l + (i + 1) • (v.getD 0 - x.getD 0) := by
  unfold optSum
  have hi : i < l.length := by
    by_contra h
    rw [List.getElem?_eq_none (by omega)] at hx
    cases hx
  have hi' : i < (l.map (·.getD 0)).length := by simpa using hi
  rw [List.map_set, wsum_set _ _ _ hi']
  congr 2
  have : l[i] = x := by
    rw [List.getElem?_eq_getElem hi] at hx
    exact Option.some.inj hx
  simp [this]

theorem optSum_replicate_none (n : Nat) : optSum (List.replicate n (none : Option G)) = 0 := by
  unfold optSum
  simp [wsum_replicate_zero]

theorem wsum_zipWith_opt : ∀ (jb : List G) (ab : List (Option G)), jb.length = ab.length →
    wsum (List.zipWith mergeBucket jb ab)
      = wsum jb + optSum ab ∧
    (List.zipWith mergeBucket jb ab).sum
      = jb.sum + (ab.map (·.getD 0)).sum
  | [], [], _ => by simp [wsum, optSum]
  | j :: jt, a :: at', h => by
    have hl : jt.length = at'.length := by simpa using h
    obtain ⟨h1, h2⟩ := wsum_zipWith_opt jt at' hl
    unfold optSum at h1 ⊢
    cases a with
    | none =>
      simp only [List.zipWith_cons_cons, wsum, List.map_cons, Option.getD_none, List.sum_cons, mergeBucket]
      rw [h1, h2]; constructor <;> abel
    | some p =>
      simp only [List.zipWith_cons_cons, wsum, List.map_cons, Option.getD_some, List.sum_cons, mergeBucket]
      rw [h1, h2]; constructor <;> abel

/-- Weighted sum of the pending batch. -/
def pendSum (p : List (Nat × G × Bool)) : G :=
  (p.map (fun e => (e.1 + 1) • signed e.2.1 e.2.2)).sum

variable [DecidableEq G]

def Sched.total (s : Sched G) : G := optSum s.buckets + pendSum s.pending

/-- Every pending entry targets a distinct, non-empty affine bucket. -/
def Sched.Inv (s : Sched G) : Prop :=
  (s.pending.map (·.1)).Nodup ∧ ∀ e ∈ s.pending, ∃ a, s.buckets[e.1]? = some (some a)

/-- One entry of `batch_add`. -/
def execStep (bk : List (Option G)) (e : Nat × G × Bool) : List (Option G) :=
  bk.modify e.1 (fun b => match b with
    | none => none
    | some a => let r := a + signed e.2.1 e.2.2; if r = 0 then none else some r)

theorem execute_eq (s : Sched G) :
    s.execute = { buckets := s.pending.foldl execStep s.buckets, pending := [] } := rfl

theorem exec_fold : ∀ (p : List (Nat × G × Bool)) (bk : List (Option G)),
    (p.map (·.1)).Nodup → (∀ e ∈ p, ∃ a, bk[e.1]? = some (some a)) →
    optSum (p.foldl execStep bk) = optSum bk + pendSum p ∧
    (p.foldl execStep bk).length = bk.length
  | [], bk, _, _ => by simp [pendSum]
  | e :: p, bk, hnd, hsome => by
    obtain ⟨a, ha⟩ := hsome e (by simp)
    rw [List.foldl_cons]
    unfold execStep
    have hnd' : (p.map (·.1)).Nodup := (List.nodup_cons.mp (by simpa using hnd)).2
    have hnotin : e.1 ∉ p.map (·.1) := (List.nodup_cons.mp (by simpa using hnd)).1
    set f : Option G → Option G := fun b => match b with
        | none => none
        | some a => let r := a + signed e.2.1 e.2.2; if r = 0 then none else some r with hf
    have hmod : bk.modify e.1 f = bk.set e.1 (f (some a)) := by
      rw [List.modify_eq_set_getElem?, ha]; rfl
    have hrest : ∀ e' ∈ p, ∃ a', (bk.modify e.1 f)[e'.1]? = some (some a') := by
      intro e' he'
      obtain ⟨a', ha'⟩ := hsome e' (by simp [he'])
      have hne : e.1 ≠ e'.1 := by
        intro h
        exact hnotin (List.mem_map.mpr ⟨e', he', h.symm⟩)
      refine ⟨a', ?_⟩
      rw [hmod, List.getElem?_set_ne hne]
      exact ha'
    obtain ⟨ih1, ih2⟩ := exec_fold p (bk.modify e.1 f) hnd' hrest
    refine ⟨?_, ?_⟩
    · show optSum (List.foldl execStep (bk.modify e.1 f) p) = _
      rw [ih1, hmod, optSum_set bk e.1 _ (some a) ha]
      have hv : (f (some a)).getD 0 = a + signed e.2.1 e.2.2 := by
        simp only [hf]
        split
        · next h => simp [h]
        · simp
      rw [hv]
      simp only [pendSum, List.map_cons, List.sum_cons, Option.getD_some]
      have : a + signed e.2.1 e.2.2 - a = signed e.2.1 e.2.2 := by abel
      rw [this]; abel
    · show (List.foldl execStep (bk.modify e.1 f) p).length = _
      rw [ih2, List.length_modify]

theorem Sched.execute_spec (s : Sched G) (h : s.Inv) :
    s.execute.total = s.total ∧ s.execute.Inv ∧ s.execute.buckets.length = s.buckets.length ∧
      s.execute.pending = [] := by
  obtain ⟨h1, h2⟩ := exec_fold s.pending s.buckets h.1 h.2
  rw [execute_eq]
  refine ⟨?_, ?_, ?_, rfl⟩
  · unfold Sched.total
    simp only []
    rw [h1]; simp [pendSum]
  · unfold Sched.Inv; simp
  · exact h2

omit [AddCommGroup G] [DecidableEq G] in
theorem Sched.not_mem_of_contains (s : Sched G) (b : Nat) (h : s.contains b = false) :
    b ∉ s.pending.map (·.1) := by
  unfold Sched.contains at h
  simp only [Bool.or_eq_false_iff, List.any_eq_false, beq_iff_eq] at h
  intro hm
  obtain ⟨e, he, hb⟩ := List.mem_map.mp hm
  exact h.1 e he hb

omit [DecidableEq G] in
theorem signed_weight (P : G) (d : Int) (hd : d ≠ 0) :
    (d.natAbs - 1 + 1) • signed P (decide (0 < d)) = d • P := by
  have hpos : 0 < d.natAbs := Int.natAbs_pos.mpr hd
  have : d.natAbs - 1 + 1 = d.natAbs := by omega
  rw [this]
  unfold signed
  by_cases h : 0 < d
  · simp only [h, decide_true, if_true]
    rw [← natCast_zsmul, Int.natAbs_of_nonneg (le_of_lt h)]
  · simp only [h, decide_false, Bool.false_eq_true, if_false]
    have hneg : d < 0 := by omega
    rw [← natCast_zsmul, smul_neg, ← neg_smul]
    congr 1
    omega

/-- `Schedule::add` before the flush. -/
def Sched.add1 (s : Sched G) (P : G) (b : Nat) (sign : Bool) : Sched G :=
  match s.buckets[b]? with
  | some none => { s with buckets := s.buckets.set b (some (signed P sign)) }
  | _ => { s with pending := s.pending ++ [(b, P, sign)] }

theorem Sched.add_eq (s : Sched G) (P : G) (b : Nat) (sign : Bool) :
    s.add P b sign = if (s.add1 P b sign).pending.length = 64 then (s.add1 P b sign).execute
      else s.add1 P b sign := rfl

theorem Sched.add_spec (s : Sched G) (P : G) (b : Nat) (sign : Bool) (h : s.Inv)
    (hc : s.contains b = false) (hb : b < s.buckets.length) :
    (s.add P b sign).total = s.total + (b + 1) • signed P sign ∧ (s.add P b sign).Inv ∧
      (s.add P b sign).buckets.length = s.buckets.length := by
  have hnot := s.not_mem_of_contains b hc
  rw [Sched.add_eq]
  have key : ∀ s1 : Sched G, s1 = s.add1 P b sign →
      s1.total = s.total + (b + 1) • signed P sign ∧ s1.Inv ∧ s1.buckets.length = s.buckets.length := by
    intro s1 hs1
    unfold Sched.add1 at hs1
    have hget : s.buckets[b]? = some s.buckets[b] := List.getElem?_eq_getElem hb
    cases hv : s.buckets[b] with
    | none =>
      rw [hget, hv] at hs1
      subst hs1
      refine ⟨?_, ?_, by simp⟩
      · unfold Sched.total
        simp only []
        rw [optSum_set s.buckets b _ none (by rw [hget, hv])]
        simp; abel
      · refine ⟨h.1, ?_⟩
        intro e he
        obtain ⟨a, ha⟩ := h.2 e he
        have hne : b ≠ e.1 := by
          intro hbe
          exact hnot (List.mem_map.mpr ⟨e, he, hbe.symm⟩)
        exact ⟨a, by simp only []; rw [List.getElem?_set_ne hne]; exact ha⟩
    | some a =>
      rw [hget, hv] at hs1
      subst hs1
      refine ⟨?_, ?_, rfl⟩
      · unfold Sched.total pendSum
        simp only [List.map_append, List.sum_append, List.map_cons, List.map_nil, List.sum_cons,
          List.sum_nil, add_zero]
        abel
      · refine ⟨?_, ?_⟩
        · simp only [List.map_append, List.map_cons, List.map_nil]
          rw [List.nodup_append]
          refine ⟨h.1, by simp, ?_⟩
          intro x hx y hy
          simp only [List.mem_singleton] at hy
          subst hy
          intro hxy; subst hxy
          exact hnot hx
        · intro e he
          rcases List.mem_append.mp he with he | he
          · exact h.2 e he
          · simp only [List.mem_singleton] at he
            subst he
            exact ⟨a, by simp only []; rw [hget, hv]⟩
  obtain ⟨k1, k2, k3⟩ := key _ rfl
  split
  · obtain ⟨e1, e2, e3, _⟩ := Sched.execute_spec _ k2
    exact ⟨by rw [e1, k1], e2, by rw [e3, k3]⟩
  · exact ⟨k1, k2, k3⟩

/-- One window of `msm_best` has the weighted digit sum of the bases, shifted to its position. -/
theorem windowBest_spec (w c : Nat) (coeffs : List (List Nat)) (bases : List G)
    (hd : ∀ co ∈ coeffs, (boothIndex w c co).natAbs ≤ 2 ^ (c - 1)) :
    windowBest w c coeffs bases
      = (2 ^ (c * w) : Nat) • ((coeffs.zip bases).map (fun cb => boothIndex w c cb.1 • cb.2)).sum := by
  unfold windowBest
  simp only []
  set L := 2 ^ (c - 1) with hL
  -- the fold invariant
  have hinv : ∀ (Z : List (List Nat × G)) (st : List G × Sched G),
      (∀ cb ∈ Z, (boothIndex w c cb.1).natAbs ≤ L) →
      st.1.length = L → st.2.buckets.length = L → st.2.Inv →
      let st' := Z.foldl (fun (st : List G × Sched G) cb =>
        let d := boothIndex w c cb.1
        if d = 0 ∨ cb.2 = 0 then st else
        let sign := decide (0 < d)
        let b := d.natAbs - 1
        if st.2.contains b then (st.1.modify b (· + signed cb.2 sign), st.2)
        else (st.1, st.2.add cb.2 b sign)) st
      st'.1.length = L ∧ st'.2.buckets.length = L ∧ st'.2.Inv ∧
      wsum st'.1 + st'.2.total
        = wsum st.1 + st.2.total + (Z.map (fun cb => boothIndex w c cb.1 • cb.2)).sum := by
    intro Z
    induction Z with
    | nil => intro st _ h1 h2 h3; simp [h1, h2, h3]
    | cons cb Z ih =>
      intro st hb h1 h2 h3
      simp only [List.foldl_cons, List.map_cons, List.sum_cons]
      have hbZ : ∀ x ∈ Z, (boothIndex w c x.1).natAbs ≤ L := fun x hx => hb x (by simp [hx])
      have hbcb := hb cb (by simp)
      by_cases hz : boothIndex w c cb.1 = 0 ∨ cb.2 = 0
      · simp only [hz, if_true]
        have := ih st hbZ h1 h2 h3
        simp only [] at this
        obtain ⟨a1, a2, a3, a4⟩ := this
        refine ⟨a1, a2, a3, ?_⟩
        rw [a4]
        have : boothIndex w c cb.1 • cb.2 = 0 := by
          rcases hz with h | h
          · rw [h, zero_smul]
          · rw [h, smul_zero]
        rw [this]; abel
      · simp only [hz, if_false]
        have hd0 : boothIndex w c cb.1 ≠ 0 := fun h => hz (Or.inl h)
        have hblt : (boothIndex w c cb.1).natAbs - 1 < L := by
          have : 0 < (boothIndex w c cb.1).natAbs := Int.natAbs_pos.mpr hd0
          omega
        have hwt := signed_weight cb.2 (boothIndex w c cb.1) hd0
        by_cases hcont : st.2.contains ((boothIndex w c cb.1).natAbs - 1) = true
        · simp only [hcont, if_true]
          have := ih (st.1.modify ((boothIndex w c cb.1).natAbs - 1)
            (· + signed cb.2 (decide (0 < boothIndex w c cb.1))), st.2) hbZ (by simp [h1]) h2 h3
          simp only [] at this
          obtain ⟨a1, a2, a3, a4⟩ := this
          refine ⟨a1, a2, a3, ?_⟩
          rw [a4, wsum_modify _ _ _ (by rw [h1]; exact hblt), hwt]
          abel
        · have hcf : st.2.contains ((boothIndex w c cb.1).natAbs - 1) = false := by
            simpa using hcont
          simp only [hcf, Bool.false_eq_true, if_false]
          obtain ⟨b1, b2, b3⟩ := Sched.add_spec st.2 cb.2 _ (decide (0 < boothIndex w c cb.1)) h3 hcf
            (by rw [h2]; exact hblt)
          have := ih (st.1, st.2.add cb.2 ((boothIndex w c cb.1).natAbs - 1)
            (decide (0 < boothIndex w c cb.1))) hbZ h1 (by rw [b3, h2]) b2
          simp only [] at this
          obtain ⟨a1, a2, a3, a4⟩ := this
          refine ⟨a1, a2, a3, ?_⟩
          rw [a4, b1, hwt]
          abel
  have h0 := hinv (coeffs.zip bases)
    (List.replicate L 0, { buckets := List.replicate L none, pending := [] })
    (fun cb h => hd cb.1 (List.of_mem_zip h).1) (by simp) (by simp)
    (by unfold Sched.Inv; simp)
  simp only [] at h0
  obtain ⟨a1, a2, a3, a4⟩ := h0
  set st := (coeffs.zip bases).foldl _ _ with hst
  obtain ⟨e1, _, e3, e4⟩ := Sched.execute_spec st.2 a3
  rw [dblN_eq, sumByParts_eq, zero_add]
  congr 1
  rw [(wsum_zipWith_opt st.1 st.2.execute.buckets (by rw [a1, e3, a2])).1]
  have : optSum st.2.execute.buckets = st.2.execute.total := by
    unfold Sched.total; rw [e4]; simp [pendSum]
  rw [this, e1, a4]
  unfold Sched.total
  simp [wsum_replicate_zero, optSum_replicate_none, pendSum]

end

end MidnightZK.C12
