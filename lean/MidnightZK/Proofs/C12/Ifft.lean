import Mathlib.Algebra.Field.GeomSum
import Mathlib.GroupTheory.OrderOfElement
import Mathlib.Algebra.BigOperators.Ring.Finset
import MidnightZK.Proofs.C12.Poly
/-! The inverse DFT inverts the DFT (field `F`, primitive `2^k`-th root of unity). -/
namespace MidnightZK.C12

section
variable {F : Type} [Field F]

theorem geom_zero (q : F) (n : Nat) (hq : q ≠ 1) (hqn : q ^ n = 1) :
    ∑ i ∈ Finset.range n, q ^ i = 0 := by
  rw [geom_sum_eq hq, hqn, sub_self, zero_div]

theorem orderOf_root (ω : F) (k : Nat) (hk : 1 ≤ k) (hω : ω ^ (2 ^ (k - 1)) = -1)
    (h2 : (1 : F) ≠ -1) : orderOf ω = 2 ^ k := by
  have h := orderOf_eq_prime_pow (p := 2) (n := k - 1) (x := ω)
    (by rw [hω]; exact fun h => h2 h.symm)
    (by rw [pow_succ, pow_mul, hω]; norm_num)
  rw [Nat.sub_add_cancel hk] at h
  exact h

theorem pow_inj_root_lt (ω : F) (k : Nat) (hk : 1 ≤ k) (hω : ω ^ (2 ^ (k - 1)) = -1)
    (h2 : (1 : F) ≠ -1) (hne : ω ≠ 0) (l j : Nat) (hlj : l < j) (hj : j < 2 ^ k)
    (h : ω ^ l = ω ^ j) : False := by
  have hsplit : ω ^ j = ω ^ l * ω ^ (j - l) := by rw [← pow_add]; congr 1; omega
  have h1 : ω ^ (j - l) = 1 := by
    have hl0 : ω ^ l ≠ 0 := pow_ne_zero _ hne
    have : ω ^ l * ω ^ (j - l) = ω ^ l * 1 := by rw [← hsplit, ← h, mul_one]
    exact mul_left_cancel₀ hl0 this
  have hdvd := orderOf_dvd_of_pow_eq_one h1
  rw [orderOf_root ω k hk hω h2] at hdvd
  have := Nat.le_of_dvd (by omega) hdvd
  omega

theorem pow_inj_root (ω : F) (k : Nat) (hk : 1 ≤ k) (hω : ω ^ (2 ^ (k - 1)) = -1)
    (h2 : (1 : F) ≠ -1) (hne : ω ≠ 0) (l j : Nat) (hl : l < 2 ^ k) (hj : j < 2 ^ k)
    (h : ω ^ l = ω ^ j) : l = j := by
  rcases Nat.lt_trichotomy l j with hlt | heq | hgt
  · exact (pow_inj_root_lt ω k hk hω h2 hne l j hlt hj h).elim
  · exact heq
  · exact (pow_inj_root_lt ω k hk hω h2 hne j l hgt hl h.symm).elim

theorem root_pow_n (ω : F) (k : Nat) (hk : 1 ≤ k) (hω : ω ^ (2 ^ (k - 1)) = -1) : ω ^ (2 ^ k) = 1 := by
  have : 2 ^ k = 2 ^ (k - 1) * 2 := by rw [← pow_succ, Nat.sub_add_cancel hk]
  rw [this, pow_mul, hω]; norm_num

/-- Evaluating the DFT vector at `ω⁻ʲ` gives `n·aⱼ`. -/
theorem idft_dft_entry (ω : F) (a : List F) (k : Nat) (hlen : a.length = 2 ^ k)
    (hω : 1 ≤ k → ω ^ (2 ^ (k - 1)) = -1) (h2 : (1 : F) ≠ -1) (j : Nat) (hj : j < 2 ^ k) :
    horner ((List.range a.length).map (fun i => horner a (ω ^ i))) ((ω⁻¹) ^ j)
      = (2 ^ k : Nat) * a.getD j 0 := by
  rw [horner_eq_sum, List.length_map, List.length_range, hlen]
  have hget : ∀ i ∈ Finset.range (2 ^ k),
      ((List.range (2 ^ k)).map (fun i => horner a (ω ^ i))).getD i 0 * (ω⁻¹ ^ j) ^ i
        = ∑ l ∈ Finset.range (2 ^ k), a.getD l 0 * (ω ^ l * ω⁻¹ ^ j) ^ i := by
    intro i hi
    have hi' : i < 2 ^ k := Finset.mem_range.mp hi
    have : ((List.range (2 ^ k)).map (fun i => horner a (ω ^ i))).getD i 0 = horner a (ω ^ i) := by
      simp [List.getD, hi']
    rw [this, horner_eq_sum, hlen, Finset.sum_mul]
    apply Finset.sum_congr rfl
    intro l _
    rw [mul_pow, ← pow_mul, ← pow_mul, ← pow_mul, Nat.mul_comm i l, mul_assoc]
  rw [Finset.sum_congr rfl hget, Finset.sum_comm]
  have hinner : ∀ l ∈ Finset.range (2 ^ k),
      ∑ i ∈ Finset.range (2 ^ k), a.getD l 0 * (ω ^ l * ω⁻¹ ^ j) ^ i
        = if l = j then (2 ^ k : Nat) * a.getD j 0 else 0 := by
    intro l hl
    have hl' : l < 2 ^ k := Finset.mem_range.mp hl
    rw [← Finset.mul_sum]
    by_cases hk : 1 ≤ k
    · have hω' := hω hk
      have hone := root_pow_n ω k hk hω'
      have hne : ω ≠ 0 := by
        intro h0
        rw [h0, zero_pow (by positivity)] at hone
        exact zero_ne_one hone
      by_cases hlj : l = j
      · subst hlj
        have : ω ^ l * ω⁻¹ ^ l = 1 := by rw [← mul_pow, mul_inv_cancel₀ hne, one_pow]
        rw [this]
        simp only [one_pow, Finset.sum_const, Finset.card_range, if_true, nsmul_eq_mul, mul_one]
        ring
      · simp only [hlj, if_false]
        have hq1 : ω ^ l * ω⁻¹ ^ j ≠ 1 := by
          intro h
          apply hlj
          apply pow_inj_root ω k hk hω' h2 hne l j hl' hj
          have : ω ^ l = ω ^ l * ω⁻¹ ^ j * ω ^ j := by
            rw [mul_assoc, ← mul_pow, inv_mul_cancel₀ hne, one_pow, mul_one]
          rw [this, h, one_mul]
        have hqn : (ω ^ l * ω⁻¹ ^ j) ^ 2 ^ k = 1 := by
          rw [mul_pow, ← pow_mul, ← pow_mul, Nat.mul_comm l, Nat.mul_comm j, pow_mul, pow_mul,
            inv_pow, hone]; simp
        rw [geom_zero _ _ hq1 hqn, mul_zero]
    · have hk0 : k = 0 := by omega
      subst hk0
      have hl0 : l = 0 := by simpa using hl'
      have hj0 : j = 0 := by simpa using hj
      subst hl0; subst hj0
      simp
  rw [Finset.sum_congr rfl hinner, Finset.sum_ite_eq' (Finset.range (2 ^ k)) j]
  simp [hj]

end

end MidnightZK.C12
