import MidnightZK.Proofs.C12.BatchAdd
import MidnightZK.Proofs.C12.MsmBest
/-!
Refinement between the two models of the batch-affine path of `msm_best`: the coordinate-level
`batchAdd` (two loops, one shared inversion — `Model/C12/BatchAdd.lean`) implements the
abstract-group `Sched.execute` (`Model/C12/Msm.lean`), given the affine group law of the curve
(C11's subject) as ONE hypothesis `AffineLaw`.
-/
namespace MidnightZK.C12

section
variable {F : Type} [Field F] [DecidableEq F] {G : Type} [AddCommGroup G] [DecidableEq G]

/-- `y² = x³ + b`. -/
def OnCurve (b : F) (P : Aff F) : Prop := P.y ^ 2 = P.x ^ 3 + b

/-- The affine group law of `y² = x³ + b` as the single hypothesis of the refinement: `φ` reads an
affine point as an element of the abstract group of the MSM model; finite points are non-zero,
`(x, −y)` is the opposite, and the chord / tangent point of two points that are not opposite is
their sum. (C11 proves the formulas of the Rust curve types against this affine law; that the law
is a group law — associativity — is classical and not re-proved in this project.) -/
structure AffineLaw (b : F) (φ : Aff F → G) : Prop where
  ne_zero : ∀ P, OnCurve b P → φ P ≠ 0
  neg : ∀ P, OnCurve b P → φ ⟨P.x, -P.y⟩ = -φ P
  add : ∀ B P R sign, OnCurve b B → OnCurve b P → (B.x = P.x → B.y + B.y ≠ 0) →
    affAddSigned B P sign = some R → φ R = φ B + signed (φ P) sign

omit [DecidableEq G] in
/-- The cancellation branch (`set_inf`) is taken only for opposite points. -/
theorem AffineLaw.add_none {b : F} {φ : Aff F → G} (law : AffineLaw b φ) (B P : Aff F) (sign : Bool)
    (hB : OnCurve b B) (hP : OnCurve b P) (h : affAddSigned B P sign = none) :
    φ B + signed (φ P) sign = 0 := by
  unfold affAddSigned at h
  by_cases hx : B.x = P.x
  · rw [if_pos hx] at h
    by_cases hd : ((decide (B.y = P.y)) != (!sign)) = true
    · rw [if_pos hd] at h; cases h
    · have hd' : ((decide (B.y = P.y)) != (!sign)) = false := by simpa using hd
      have hy := (batch_add_decision b B P sign hB hP hx).2 hd'
      cases sign with
      | true =>
        simp only [if_true] at hy
        have hBe : B = ⟨P.x, -P.y⟩ := by cases B; simp_all
        rw [hBe, law.neg P hP]; simp [signed]
      | false =>
        simp only [Bool.false_eq_true, if_false, neg_neg] at hy
        have hBe : B = P := by cases B; cases P; simp_all
        rw [hBe]; simp [signed]
  · rw [if_neg hx] at h; cases h

/-- The pending entry of the abstract model that a coordinate-level entry stands for. -/
def absEntry (φ : Aff F → G) (bases : List (Aff F)) (e : SchedPt) : Nat × G × Bool :=
  (e.buckIdx, ((bases[e.baseIdx]?).map φ).getD 0, e.sign)

theorem specFold_refines (b : F) (φ : Aff F → G) (law : AffineLaw b φ) (bases : List (Aff F))
    (hbs : ∀ P ∈ bases, OnCurve b P) :
    ∀ (es : List SchedPt) (bk : List (Option (Aff F))), BatchOk bases bk es →
      (∀ B, some B ∈ bk → OnCurve b B) →
      (specFold bases es bk).map (Option.map φ)
        = (es.map (absEntry φ bases)).foldl execStep (bk.map (Option.map φ))
  | [], bk, _, _ => rfl
  | e :: es, bk, hok, hbk => by
    obtain ⟨B, P, hB, hP, hy⟩ := hok.2 e (by simp)
    have hBon : OnCurve b B := hbk B (List.mem_of_getElem? hB)
    have hPon : OnCurve b P := hbs P (List.mem_of_getElem? hP)
    have hstep : specStep bases bk e = bk.set e.buckIdx (affAddSigned B P e.sign) := by
      unfold specStep; rw [hB]; simp only []; rw [hP]
    obtain ⟨_, _, hok'⟩ := hok.tail (affAddSigned B P e.sign)
    have hbk' : ∀ B', some B' ∈ bk.set e.buckIdx (affAddSigned B P e.sign) → OnCurve b B' := by
      intro B' hB'
      rcases List.mem_or_eq_of_mem_set hB' with h | h
      · exact hbk B' h
      · exact affAddSigned_on_curve b B P B' e.sign hBon hPon hy h.symm
    show (specFold bases es (specStep bases bk e)).map (Option.map φ) = _
    rw [hstep, specFold_refines b φ law bases hbs es _ hok' hbk', List.map_cons, List.foldl_cons]
    congr 1
    -- one step: `set` with the mapped chord/tangent result = `execStep` of the abstract model
    unfold execStep absEntry
    simp only [hP]
    have hget : (bk.map (Option.map φ))[e.buckIdx]? = some (some (φ B)) := by
      rw [List.getElem?_map, hB]; rfl
    rw [List.modify_eq_set_getElem?, hget, List.map_set]
    congr 1
    simp only [Option.map_some]
    cases hr : affAddSigned B P e.sign with
    | none =>
      have := law.add_none B P e.sign hBon hPon hr
      simp [this]
    | some R =>
      have hadd := law.add B P R e.sign hBon hPon hy hr
      have hRon := affAddSigned_on_curve b B P R e.sign hBon hPon hy hr
      have hne := law.ne_zero R hRon
      rw [hadd] at hne
      simp [hadd, hne]

/-- **Refinement**: under the schedule invariant, for on-curve buckets and bases, the
coordinate-level `batch_add` succeeds and its buckets, read through `φ`, are exactly the buckets
`Schedule::execute` of the abstract-group model produces from the same pending entries. -/
theorem batchAdd_refines_execute (b : F) (φ : Aff F → G) (law : AffineLaw b φ)
    (bases : List (Aff F)) (bk : List (Option (Aff F))) (points : List SchedPt)
    (hok : BatchOk bases bk points) (hbk : ∀ B, some B ∈ bk → OnCurve b B)
    (hbs : ∀ P ∈ bases, OnCurve b P) :
    ∃ out, batchAdd (fun a => if a = 0 then none else some a⁻¹) bases bk points = some out ∧
      out.map (Option.map φ)
        = (Sched.execute { buckets := bk.map (Option.map φ),
                           pending := points.map (absEntry φ bases) }).buckets := by
  refine ⟨specFold bases points bk, batchAdd_eq_specFold bases bk points hok, ?_⟩
  rw [execute_eq]
  exact specFold_refines b φ law bases hbs points bk hok hbk

omit [DecidableEq F] [DecidableEq G] in
/-- The coordinate-level invariant `BatchOk` is the abstract `Sched.Inv` plus valid base indices
and "no vertical tangent": the abstract state a `BatchOk` batch stands for satisfies `Sched.Inv`. -/
theorem BatchOk.toInv (φ : Aff F → G) (bases : List (Aff F)) (bk : List (Option (Aff F)))
    (points : List SchedPt) (hok : BatchOk bases bk points) :
    (Sched.Inv { buckets := bk.map (Option.map φ), pending := points.map (absEntry φ bases) } : Prop) := by
  unfold Sched.Inv
  refine ⟨?_, ?_⟩
  · have : (points.map (absEntry φ bases)).map (·.1) = points.map (·.buckIdx) := by
      rw [List.map_map]; rfl
    simp only [this]
    exact hok.1
  · intro e he
    obtain ⟨p, hp, rfl⟩ := List.mem_map.mp he
    obtain ⟨B, _, hB, _, _⟩ := hok.2 p hp
    exact ⟨φ B, by simp [absEntry, List.getElem?_map, hB]⟩

end

end MidnightZK.C12
