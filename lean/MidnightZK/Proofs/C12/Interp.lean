import Mathlib.Tactic.Ring
import Mathlib.Tactic.Linarith
import Mathlib.Algebra.Field.Basic
import Mathlib.Algebra.BigOperators.Group.List.Basic
import Mathlib.Algebra.BigOperators.Ring.List
import MidnightZK.Proofs.C12.Poly
/-! `lagrange_interpolate` interpolates (field `F`). -/
namespace MidnightZK.C12

section
variable {F : Type} [Field F]

/-- Horner evaluation is linear in the coefficient vector. -/
theorem horner_zipWith_lin (c1 c2 : F) : ∀ (l1 l2 : List F), l1.length = l2.length → ∀ x,
    horner (List.zipWith (fun a b => a * c1 + b * c2) l1 l2) x = horner l1 x * c1 + horner l2 x * c2
  | [], [], _, x => by simp [horner_nil]
  | a :: t1, b :: t2, h, x => by
    have ht : t1.length = t2.length := by simpa using h
    simp only [List.zipWith_cons_cons, horner_cons, horner_zipWith_lin c1 c2 t1 t2 ht x]
    ring

theorem horner_append_zeros' (m : Nat) (x : F) : horner (List.replicate m (0 : F)) x = 0 := by
  induction m with
  | zero => simp [horner_nil]
  | succ m ih => rw [List.replicate_succ, horner_cons, ih]; simp

/-- One step of the inner loop multiplies the polynomial by `d·(X − x_k)`. -/
theorem step_mul (tmp : List F) (d xk x : F) :
    horner (List.zipWith (fun a b => a * (-d * xk) + b * d) (tmp ++ [0]) (0 :: tmp)) x
      = horner tmp x * (d * (x - xk)) ∧
    (List.zipWith (fun a b => a * (-d * xk) + b * d) (tmp ++ [0]) (0 :: tmp)).length = tmp.length + 1 := by
  constructor
  · rw [horner_zipWith_lin _ _ _ _ (by simp), horner_append, horner_cons, horner_cons, horner_nil]
    ring
  · simp

/-- The inner loop: the basis polynomial of `x_j` as a product over the other points. -/
theorem inner_fold (xj : F) : ∀ (others : List F) (tmp : List F) (x : F),
    horner (others.foldl (fun (tmp : List F) xk =>
        List.zipWith (fun a b => a * (-(xj - xk)⁻¹ * xk) + b * (xj - xk)⁻¹) (tmp ++ [0]) (0 :: tmp)) tmp) x
      = horner tmp x * (others.map (fun xk => (xj - xk)⁻¹ * (x - xk))).prod ∧
    (others.foldl (fun (tmp : List F) xk =>
        List.zipWith (fun a b => a * (-(xj - xk)⁻¹ * xk) + b * (xj - xk)⁻¹) (tmp ++ [0]) (0 :: tmp)) tmp).length
      = tmp.length + others.length
  | [], tmp, x => by simp
  | xk :: t, tmp, x => by
    obtain ⟨h1, h2⟩ := step_mul tmp (xj - xk)⁻¹ xk x
    obtain ⟨i1, i2⟩ := inner_fold xj t _ x
    rw [List.foldl_cons]
    refine ⟨?_, ?_⟩
    · rw [i1, h1, List.map_cons, List.prod_cons]; ring
    · rw [i2, h2, List.length_cons]; omega

/-- The outer loop accumulates `Σ_j ev_j · basis_j`. -/
theorem outer_fold {ι : Type} (basis : ι → List F) (ev : ι → F) (n : Nat) :
    ∀ (J : List ι) (final : List F), (∀ j ∈ J, (basis j).length = n) → final.length = n → ∀ x,
    horner (J.foldl (fun final j => List.zipWith (fun f c => f + c * ev j) final (basis j)) final) x
      = horner final x + (J.map (fun j => ev j * horner (basis j) x)).sum ∧
    (J.foldl (fun final j => List.zipWith (fun f c => f + c * ev j) final (basis j)) final).length = n
  | [], final, _, h, x => by simp [h]
  | j :: t, final, hb, h, x => by
    have hbj := hb j (by simp)
    have hl : (List.zipWith (fun f c => f + c * ev j) final (basis j)).length = n := by
      simp [h, hbj]
    obtain ⟨i1, i2⟩ := outer_fold basis ev n t _ (fun k hk => hb k (by simp [hk])) hl x
    rw [List.foldl_cons]
    refine ⟨?_, i2⟩
    rw [i1]
    have : (fun (f c : F) => f + c * ev j) = (fun f c => f * 1 + c * ev j) := by
      funext f c; ring
    rw [this, horner_zipWith_lin 1 (ev j) final (basis j) (by rw [h, hbj]) x, List.map_cons,
      List.sum_cons]
    ring

end

end MidnightZK.C12

namespace MidnightZK.C12

section
variable {α : Type}

theorem mem_zip_range' : ∀ (l : List α) (s k : Nat) (x : α),
    (k, x) ∈ (List.range' s l.length).zip l ↔ s ≤ k ∧ l[k - s]? = some x
  | [], s, k, x => by simp
  | v :: t, s, k, x => by
    simp only [List.length_cons, List.range'_succ, List.zip_cons_cons, List.mem_cons, Prod.mk.injEq]
    rw [mem_zip_range' t (s + 1) k x]
    constructor
    · rintro (⟨rfl, rfl⟩ | ⟨h1, h2⟩)
      · simp
      · refine ⟨by omega, ?_⟩
        have : k - s = (k - (s + 1)) + 1 := by omega
        rw [this, List.getElem?_cons_succ]; exact h2
    · rintro ⟨h1, h2⟩
      by_cases hk : k = s
      · left
        subst hk
        simp at h2
        exact ⟨rfl, h2.symm⟩
      · right
        refine ⟨by omega, ?_⟩
        have : k - s = (k - (s + 1)) + 1 := by omega
        rw [this, List.getElem?_cons_succ] at h2; exact h2

theorem mem_zip_range (l : List α) (k : Nat) (x : α) :
    (k, x) ∈ (List.range l.length).zip l ↔ l[k]? = some x := by
  rw [List.range_eq_range', mem_zip_range' l 0 k x]; simp

variable {F : Type} [Field F]

theorem sum_indicator_zero (g : α → F) : ∀ (vals : List α) (s i : Nat), i < s →
    (((List.range' s vals.length).zip vals).map
      (fun jv => g jv.2 * (if jv.1 = i then 1 else 0))).sum = 0
  | [], s, i, _ => by simp
  | v :: t, s, i, h => by
    simp only [List.length_cons, List.range'_succ, List.zip_cons_cons, List.map_cons, List.sum_cons]
    rw [sum_indicator_zero g t (s + 1) i (by omega)]
    have : s ≠ i := by omega
    simp [this]

theorem sum_indicator (g : α → F) : ∀ (vals : List α) (s i : Nat) (_h1 : s ≤ i)
    (h2 : i - s < vals.length),
    (((List.range' s vals.length).zip vals).map
      (fun jv => g jv.2 * (if jv.1 = i then 1 else 0))).sum = g (vals[i - s])
  | [], s, i, _, h2 => by simp at h2
  | v :: t, s, i, _, h2 => by
    simp only [List.length_cons, List.range'_succ, List.zip_cons_cons, List.map_cons, List.sum_cons]
    by_cases hi : s = i
    · subst hi
      rw [sum_indicator_zero g t (s + 1) s (by omega)]
      simp
    · have h2' : i - (s + 1) < t.length := by simp at h2; omega
      rw [sum_indicator g t (s + 1) i (by omega) h2']
      have : i - s = (i - (s + 1)) + 1 := by omega
      simp [hi, this]


theorem length_filter_ne : ∀ (l : List α) (s j : Nat), s ≤ j → j - s < l.length →
    (((List.range' s l.length).zip l).filter (fun kx => decide (kx.1 ≠ j))).length = l.length - 1
  | [], s, j, _, h => by simp at h
  | v :: t, s, j, h1, h2 => by
    simp only [List.length_cons, List.range'_succ, List.zip_cons_cons, Nat.add_sub_cancel]
    by_cases hj : s = j
    · subst hj
      rw [List.filter_cons_of_neg (by simp)]
      -- nothing else is removed
      have : ∀ (l : List α) (s' : Nat), s < s' →
          (((List.range' s' l.length).zip l).filter (fun kx => decide (kx.1 ≠ s))).length = l.length := by
        intro l
        induction l with
        | nil => intro s' _; simp
        | cons w u ih =>
          intro s' hs
          simp only [List.length_cons, List.range'_succ, List.zip_cons_cons]
          rw [List.filter_cons_of_pos (by simp; omega), List.length_cons, ih (s' + 1) (by omega)]
      exact this t (s + 1) (by omega)
    · rw [List.filter_cons_of_pos (by simp; exact hj), List.length_cons,
        length_filter_ne t (s + 1) j (by omega) (by simp at h2; omega)]
      have : 0 < t.length := by simp at h2; omega
      omega

variable [DecidableEq F]

/-- `lagrange_interpolate` returns the coefficients of a polynomial of `n` coefficients through
the `n` given points. -/
theorem lagrangeInterpolate_spec (points evals : List F) (hlen : points.length = evals.length)
    (hnd : points.Nodup) :
    ∃ p, lagrangeInterpolate (fun a => a⁻¹) points evals = some p ∧ p.length = points.length ∧
      ∀ (i : Nat) (hi : i < points.length), horner p points[i] = evals[i]'(hlen ▸ hi) := by
  unfold lagrangeInterpolate
  simp only [hlen, ne_eq, not_true_eq_false, if_false, hnd]
  by_cases h1 : evals.length = 1
  · simp only [h1, if_true]
    refine ⟨_, rfl, by simp, ?_⟩
    intro i hi
    have hi0 : i = 0 := by omega
    subst hi0
    match evals, h1 with
    | [e], _ => simp [horner_cons, horner_nil]
  · simp only [h1, if_false]
    set n := evals.length with hn
    have hpn : points.length = n := hlen
    -- name the pieces
    let others : Nat → List F := fun j =>
      ((List.range n).zip points).filter (fun kx => decide (kx.1 ≠ j)) |>.map (·.2)
    let basis : Nat × F × F → List F := fun jxe =>
      (others jxe.1).foldl (fun (tmp : List F) xk =>
        List.zipWith (fun a b => a * (-(jxe.2.1 - xk)⁻¹ * xk) + b * (jxe.2.1 - xk)⁻¹)
          (tmp ++ [0]) (0 :: tmp)) [1]
    let ev : Nat × F × F → F := fun jxe => jxe.2.2
    set L := (List.range n).zip (points.zip evals) with hL
    have hmemL : ∀ jxe ∈ L, points[jxe.1]? = some jxe.2.1 ∧ evals[jxe.1]? = some jxe.2.2 := by
      intro jxe hj
      have hzl : (points.zip evals).length = n := by rw [List.length_zip, hpn, ← hn, Nat.min_self]
      have : (jxe.1, jxe.2) ∈ (List.range (points.zip evals).length).zip (points.zip evals) := by
        rw [hzl]; exact hj
      rw [mem_zip_range] at this
      rw [List.getElem?_zip_eq_some] at this
      exact this
    have hothers_len : ∀ j < n, (others j).length = n - 1 := by
      intro j hj
      have := length_filter_ne points 0 j (by omega) (by simpa [hpn] using hj)
      simp only [others, List.length_map]
      rw [List.range_eq_range', ← hpn]
      rw [hpn] at this ⊢
      simpa [hpn] using this
    have hbasis_len : ∀ jxe ∈ L, (basis jxe).length = n := by
      intro jxe hj
      have hjn : jxe.1 < n := by
        have := (hmemL jxe hj).1
        by_contra hc
        rw [List.getElem?_eq_none (by omega)] at this
        cases this
      have := (inner_fold jxe.2.1 (others jxe.1) [1] 0).2
      simp only [basis]
      rw [this, hothers_len _ hjn]
      simp; omega
    refine ⟨_, rfl, ?_, ?_⟩
    · exact (outer_fold basis ev n L (List.replicate n 0) hbasis_len (by simp) 0).2
    · intro i hi
      have hin : i < n := by omega
      have hfold := (outer_fold basis ev n L (List.replicate n 0) hbasis_len (by simp) points[i]).1
      have hz : horner (List.replicate n (0 : F)) points[i] = 0 := by
        have := horner_append_zeros' (F := F) n points[i]
        exact this
      rw [show (List.foldl (fun final jxe =>
          List.zipWith (fun f c => f + c * jxe.2.2) final
            (List.foldl (fun tmp xk =>
              List.zipWith (fun a b => a * (-(fun a => a⁻¹) (jxe.2.1 - xk) * xk) + b * (fun a => a⁻¹) (jxe.2.1 - xk))
                (tmp ++ [0]) (0 :: tmp)) [1]
              (List.map (fun x => x.2) (List.filter (fun kx => decide (kx.1 ≠ jxe.1)) ((List.range n).zip points)))))
          (List.replicate n 0) L)
        = L.foldl (fun final j => List.zipWith (fun f c => f + c * ev j) final (basis j)) (List.replicate n 0)
        from rfl]
      rw [hfold, hz, zero_add]
      -- each term is ev_j · δ_ij
      have hterm : ∀ jxe ∈ L, ev jxe * horner (basis jxe) points[i]
          = (fun v : F × F => v.2) jxe.2 * (if jxe.1 = i then 1 else 0) := by
        intro jxe hj
        obtain ⟨hp, _⟩ := hmemL jxe hj
        have hjn : jxe.1 < n := by
          by_contra hc
          rw [List.getElem?_eq_none (by omega)] at hp
          cases hp
        have hxj : points[jxe.1]'(by omega) = jxe.2.1 := by
          rw [List.getElem?_eq_getElem (by omega)] at hp
          exact Option.some.inj hp
        have hprod := (inner_fold jxe.2.1 (others jxe.1) [1] points[i]).1
        simp only [basis, ev]
        rw [hprod]
        simp only [horner_cons, horner_nil, zero_mul, zero_add, one_mul]
        congr 1
        by_cases hji : jxe.1 = i
        · simp only [hji, if_true]
          apply List.prod_eq_one
          intro y hy
          obtain ⟨xk, hxk, rfl⟩ := List.mem_map.mp hy
          simp only [others, List.mem_map, List.mem_filter] at hxk
          obtain ⟨kx, ⟨hkmem, hkne⟩, rfl⟩ := hxk
          have hk : points[kx.1]? = some kx.2 := by
            have : (kx.1, kx.2) ∈ (List.range points.length).zip points := by rw [hpn]; exact hkmem
            exact (mem_zip_range points kx.1 kx.2).mp this
          have hkn : kx.1 < points.length := by
            by_contra hc
            rw [List.getElem?_eq_none (by omega)] at hk
            cases hk
          have hkx : points[kx.1] = kx.2 := by
            rw [List.getElem?_eq_getElem hkn] at hk
            exact Option.some.inj hk
          have hne : kx.1 ≠ i := by
            have := of_decide_eq_true hkne
            exact this
          have hdiff : points[i] ≠ kx.2 := by
            rw [← hkx]
            intro heq
            exact hne ((List.Nodup.getElem_inj_iff hnd).mp heq).symm
          have hxji : jxe.2.1 = points[i] := by
            rw [← hxj]; congr 1
          rw [hxji]
          exact inv_mul_cancel₀ (sub_ne_zero.mpr hdiff)
        · simp only [hji, if_false]
          apply List.prod_eq_zero
          apply List.mem_map.mpr
          refine ⟨points[i], ?_, by simp⟩
          simp only [others, List.mem_map, List.mem_filter]
          refine ⟨(i, points[i]), ⟨?_, by simpa using fun h => hji h.symm⟩, rfl⟩
          have hip : i < points.length := by omega
          have : (i, points[i]) ∈ (List.range points.length).zip points :=
            (mem_zip_range points i points[i]).mpr (List.getElem?_eq_getElem hip)
          have h2 : (List.range points.length).zip points = (List.range n).zip points := by rw [hpn]
          rw [h2] at this; exact this
      rw [List.map_congr_left hterm]
      have hzl : (points.zip evals).length = n := by rw [List.length_zip, hpn, ← hn, Nat.min_self]
      have hsum := sum_indicator (fun v : F × F => v.2) (points.zip evals) 0 i (by omega)
        (by rw [hzl]; omega)
      rw [← List.range_eq_range'] at hsum
      have h2 : (List.range (points.zip evals).length).zip (points.zip evals) = L := by rw [hzl]
      rw [h2] at hsum
      rw [hsum]
      simp

end

end MidnightZK.C12
