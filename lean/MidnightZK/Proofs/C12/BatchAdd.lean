import Mathlib.Tactic.Ring
import Mathlib.Tactic.FieldSimp
import Mathlib.Tactic.LinearCombination
import Mathlib.Algebra.Field.Basic
import MidnightZK.Model.C12.BatchAdd
/-!
`batch_add` (`curves/src/msm.rs`): the two loops with one shared inversion compute, for every
scheduled entry, the affine chord / tangent formulas with the entry's *own* quotient — provided
the batch satisfies the schedule invariant (distinct, non-empty buckets) and no tangent is
vertical.
-/
namespace MidnightZK.C12

section
variable {F : Type} [Field F] [DecidableEq F]

/-- What one scheduled entry must do to its bucket `B` when `±P` is added (`sign = true`: `+P`):
the code's case split, each case with the textbook slope computed by its own division. -/
def affAddSigned (B P : Aff F) (sign : Bool) : Option (Aff F) :=
  if B.x = P.x then
    if (decide (B.y = P.y)) != (!sign) then
      let l := (3 * P.x ^ 2) / (2 * B.y)
      let x := l ^ 2 - (B.x + P.x)
      some ⟨x, if sign then l * (P.x - x) - P.y else l * (P.x - x) + P.y⟩
    else none
  else
    let l := (if sign then B.y - P.y else B.y + P.y) / (B.x - P.x)
    let x := l ^ 2 - (B.x + P.x)
    some ⟨x, if sign then l * (P.x - x) - P.y else l * (P.x - x) + P.y⟩

/-- Entry-by-entry specification of a batch. -/
def specStep (bases : List (Aff F)) (bk : List (Option (Aff F))) (e : SchedPt) :
    List (Option (Aff F)) :=
  match bk[e.buckIdx]? with
  | some (some B) =>
    match bases[e.baseIdx]? with
    | some P => bk.set e.buckIdx (affAddSigned B P e.sign)
    | none => bk
  | _ => bk

def specFold (bases : List (Aff F)) (es : List SchedPt) (bk : List (Option (Aff F))) :
    List (Option (Aff F)) := es.foldl (specStep bases) bk

/-- The schedule invariant as `batch_add` needs it: pending entries target pairwise distinct
buckets, every such bucket holds a point, every base index is valid, and a tangent is never
vertical (`2y ≠ 0`: no point of order two). -/
def BatchOk (bases : List (Aff F)) (bk : List (Option (Aff F))) (es : List SchedPt) : Prop :=
  (es.map (·.buckIdx)).Nodup ∧
  ∀ e ∈ es, ∃ B P, bk[e.buckIdx]? = some (some B) ∧ bases[e.baseIdx]? = some P ∧
    (B.x = P.x → B.y + B.y ≠ 0)

theorem specStep_getElem_ne (bases : List (Aff F)) (bk : List (Option (Aff F))) (e : SchedPt)
    (j : Nat) (h : j ≠ e.buckIdx) : (specStep bases bk e)[j]? = bk[j]? := by
  unfold specStep
  split
  · split
    · rw [List.getElem?_set_ne (Ne.symm h)]
    · rfl
  · rfl

theorem specFold_getElem_of_not_mem (bases : List (Aff F)) :
    ∀ (es : List SchedPt) (bk : List (Option (Aff F))) (j : Nat), j ∉ es.map (·.buckIdx) →
      (specFold bases es bk)[j]? = bk[j]?
  | [], bk, j, _ => rfl
  | e :: es, bk, j, h => by
    have h1 : j ≠ e.buckIdx := fun hh => h (by simp [hh])
    have h2 : j ∉ es.map (·.buckIdx) := fun hh => h (by simp [List.mem_map] at hh ⊢; exact Or.inr hh)
    show (specFold bases es (specStep bases bk e))[j]? = _
    rw [specFold_getElem_of_not_mem bases es _ j h2, specStep_getElem_ne bases bk e j h1]

theorem specStep_set_comm (bases : List (Aff F)) (bk : List (Option (Aff F))) (e : SchedPt)
    (j : Nat) (v : Option (Aff F)) (h : j ≠ e.buckIdx) :
    specStep bases (bk.set j v) e = (specStep bases bk e).set j v := by
  unfold specStep
  rw [List.getElem?_set_ne h]
  split
  · split
    · rw [List.set_comm _ _ h]
    · rfl
  · rfl

theorem specFold_set_comm (bases : List (Aff F)) :
    ∀ (es : List SchedPt) (bk : List (Option (Aff F))) (j : Nat) (v : Option (Aff F)),
      j ∉ es.map (·.buckIdx) → specFold bases es (bk.set j v) = (specFold bases es bk).set j v
  | [], bk, j, v, _ => rfl
  | e :: es, bk, j, v, h => by
    have h1 : j ≠ e.buckIdx := fun hh => h (by simp [hh])
    have h2 : j ∉ es.map (·.buckIdx) := fun hh => h (by simp [List.mem_map] at hh ⊢; exact Or.inr hh)
    show specFold bases es (specStep bases (bk.set j v) e) = _
    rw [specStep_set_comm bases bk e j v h1, specFold_set_comm bases es _ j v h2]
    rfl

omit [DecidableEq F] in
theorem BatchOk.tail {bases : List (Aff F)} {bk : List (Option (Aff F))} {e : SchedPt}
    {es : List SchedPt} (h : BatchOk bases bk (e :: es)) (v : Option (Aff F)) :
    e.buckIdx ∉ es.map (·.buckIdx) ∧ BatchOk bases bk es ∧ BatchOk bases (bk.set e.buckIdx v) es := by
  obtain ⟨hnd, hall⟩ := h
  have hnd' : e.buckIdx ∉ es.map (·.buckIdx) ∧ (es.map (·.buckIdx)).Nodup := by
    rw [List.map_cons] at hnd
    exact List.nodup_cons.mp hnd
  refine ⟨hnd'.1, ⟨hnd'.2, fun e' he' => hall e' (by simp [he'])⟩, hnd'.2, ?_⟩
  intro e' he'
  obtain ⟨B, P, h1, h2, h3⟩ := hall e' (by simp [he'])
  have hne : e.buckIdx ≠ e'.buckIdx := by
    intro hh
    exact hnd'.1 (List.mem_map.mpr ⟨e', he', hh.symm⟩)
  exact ⟨B, P, by rw [List.getElem?_set_ne hne]; exact h1, h2, h3⟩

/-- Both loops of `batch_add`, started from any non-zero running product `acc`: the forward loop
succeeds with a non-zero product and the backward loop, started from its inverse, performs every
entry's own chord / tangent step and hands back `acc⁻¹`. -/
theorem ba_main (bases : List (Aff F)) :
    ∀ (es : List SchedPt) (bk : List (Option (Aff F))) (acc : F), acc ≠ 0 → BatchOk bases bk es →
      ∃ tzs bk1 accF, baFwd bases es bk acc = some (tzs, bk1, accF) ∧ accF ≠ 0 ∧
        baBwd bases (es.zip tzs) bk1 accF⁻¹ = some (specFold bases es bk, acc⁻¹)
  | [], bk, acc, hacc, _ => ⟨[], bk, acc, rfl, hacc, rfl⟩
  | e :: es, bk, acc, hacc, hok => by
    obtain ⟨B, P, hB, hP, hy⟩ := hok.2 e (by simp)
    have hlt : e.buckIdx < bk.length := by
      by_contra hh
      rw [List.getElem?_eq_none (by omega)] at hB
      cases hB
    by_cases hx : B.x = P.x
    · by_cases hd : ((decide (B.y = P.y)) != (!e.sign)) = true
      · -- doubling
        have hz : B.y + B.y ≠ 0 := hy hx
        obtain ⟨hnot, hok1, _⟩ := hok.tail none
        obtain ⟨tzs, bk1, accF, h1, h2, h3⟩ := ba_main bases es bk (acc * (B.y + B.y))
          (mul_ne_zero hacc hz) hok1
        refine ⟨(acc * (P.x * P.x + P.x * P.x + P.x * P.x), B.y + B.y) :: tzs, bk1, accF, ?_, h2, ?_⟩
        · simp only [baFwd, baFwdStep, hB, hP, hx, hd, if_true, h1]
        · simp only [List.zip_cons_cons, baBwd, h3, baBwdStep]
          rw [specFold_getElem_of_not_mem bases es bk _ hnot, hB]
          simp only [hP]
          have hs : specFold bases (e :: es) bk
              = (specFold bases es bk).set e.buckIdx (affAddSigned B P e.sign) := by
            show specFold bases es (specStep bases bk e) = _
            unfold specStep
            simp only [hB, hP]
            exact specFold_set_comm bases es bk _ _ hnot
          rw [hs]
          have hl : (acc * (B.y + B.y))⁻¹ * (acc * (P.x * P.x + P.x * P.x + P.x * P.x))
              = (3 * P.x ^ 2) / (2 * B.y) := by
            have h2y : (2 : F) * B.y ≠ 0 := by rw [two_mul]; exact hz
            have hyy : B.y + B.y = 2 * B.y := (two_mul _).symm
            rw [hyy]
            field_simp
            ring
          have ha : (acc * (B.y + B.y))⁻¹ * (B.y + B.y) = acc⁻¹ := by
            rw [mul_inv, mul_assoc, inv_mul_cancel₀ hz, mul_one]
          rw [hl, ha]
          unfold affAddSigned
          simp only [hx, hd, if_true]
          congr 3
          all_goals ring_nf
      · -- P + (−P): the bucket is emptied
        obtain ⟨hnot, _, hok2⟩ := hok.tail none
        obtain ⟨tzs, bk1, accF, h1, h2, h3⟩ := ba_main bases es (bk.set e.buckIdx none) acc hacc hok2
        refine ⟨(0, 0) :: tzs, bk1, accF, ?_, h2, ?_⟩
        · simp only [baFwd, baFwdStep, hB, hP, hx, hd, if_true, Bool.false_eq_true, if_false, h1]
        · simp only [List.zip_cons_cons, baBwd, h3, baBwdStep]
          rw [specFold_getElem_of_not_mem bases es _ _ hnot, List.getElem?_set_self hlt]
          have hs : specFold bases (e :: es) bk = specFold bases es (bk.set e.buckIdx none) := by
            show specFold bases es (specStep bases bk e) = _
            unfold specStep affAddSigned
            simp only [hB, hP, hx, hd, if_true]
            simp
          rw [hs]
    · -- chord
      have hz : B.x - P.x ≠ 0 := sub_ne_zero.mpr hx
      obtain ⟨hnot, hok1, _⟩ := hok.tail none
      obtain ⟨tzs, bk1, accF, h1, h2, h3⟩ := ba_main bases es bk (acc * (B.x - P.x))
        (mul_ne_zero hacc hz) hok1
      refine ⟨((if e.sign then acc * (B.y - P.y) else acc * (B.y + P.y)), B.x - P.x) :: tzs, bk1, accF,
        ?_, h2, ?_⟩
      · simp only [baFwd, baFwdStep, hB, hP, hx, if_false, h1]
      · simp only [List.zip_cons_cons, baBwd, h3, baBwdStep]
        rw [specFold_getElem_of_not_mem bases es bk _ hnot, hB]
        simp only [hP]
        have hs : specFold bases (e :: es) bk
            = (specFold bases es bk).set e.buckIdx (affAddSigned B P e.sign) := by
          show specFold bases es (specStep bases bk e) = _
          unfold specStep
          simp only [hB, hP]
          exact specFold_set_comm bases es bk _ _ hnot
        rw [hs]
        have hl : (acc * (B.x - P.x))⁻¹ * (if e.sign then acc * (B.y - P.y) else acc * (B.y + P.y))
            = (if e.sign then B.y - P.y else B.y + P.y) / (B.x - P.x) := by
          split <;> field_simp
        have ha : (acc * (B.x - P.x))⁻¹ * (B.x - P.x) = acc⁻¹ := by
          rw [mul_inv, mul_assoc, inv_mul_cancel₀ hz, mul_one]
        rw [hl, ha]
        unfold affAddSigned
        simp only [hx, if_false]
        congr 3
        all_goals ring_nf

/-- `batch_add` under the schedule invariant: no panic, and every entry is its own chord /
tangent / cancellation step. -/
theorem batchAdd_eq_specFold (bases : List (Aff F)) (bk : List (Option (Aff F)))
    (es : List SchedPt) (hok : BatchOk bases bk es) :
    batchAdd (fun a => if a = 0 then none else some a⁻¹) bases bk es
      = some (specFold bases es bk) := by
  obtain ⟨tzs, bk1, accF, h1, h2, h3⟩ := ba_main bases es bk 1 one_ne_zero hok
  unfold batchAdd
  simp only [h1, h2, if_false, h3, Option.map_some]

omit [DecidableEq F] in
/-- On the curve `y² = x³ + b`, two points with the same `x` have equal or opposite `y`. -/
theorem same_x_on_curve (b : F) (B P : Aff F) (hB : B.y ^ 2 = B.x ^ 3 + b)
    (hP : P.y ^ 2 = P.x ^ 3 + b) (hx : B.x = P.x) : B.y = P.y ∨ B.y = -P.y := by
  have h : (B.y - P.y) * (B.y + P.y) = 0 := by
    have : B.y ^ 2 = P.y ^ 2 := by rw [hB, hP, hx]
    linear_combination this
  rcases mul_eq_zero.mp h with h | h
  · exact Or.inl (sub_eq_zero.mp h)
  · exact Or.inr (eq_neg_of_add_eq_zero_left h)

omit [DecidableEq F] in
/-- The chord through two points of `y² = x³ + b` with distinct `x` meets the curve in the
reflected third point `(λ² − x₁ − x₂, λ(x₂ − x₃) − y₂)`. -/
theorem chord_closure (b x1 y1 x2 y2 l : F) (h1 : y1 ^ 2 = x1 ^ 3 + b) (h2 : y2 ^ 2 = x2 ^ 3 + b)
    (hx : x1 ≠ x2) (hl : l * (x1 - x2) = y1 - y2) :
    (l * (x2 - (l ^ 2 - (x1 + x2))) - y2) ^ 2 = (l ^ 2 - (x1 + x2)) ^ 3 + b := by
  have hd : x1 - x2 ≠ 0 := sub_ne_zero.mpr hx
  have E : (x1 - x2) * (2 * y2 * l + l ^ 2 * (x1 - x2))
      = (x1 - x2) * (3 * x2 ^ 2 + 3 * x2 * (x1 - x2) + (x1 - x2) ^ 2) := by
    linear_combination h1 - h2 + (y1 + y2 + l * (x1 - x2)) * hl
  have E' := mul_left_cancel₀ hd E
  linear_combination h2 - (x2 - (l ^ 2 - (x1 + x2))) * E'

omit [DecidableEq F] in
/-- The tangent at a point of `y² = x³ + b` (`λ·2y = 3x²`) meets the curve in the reflected point
`(λ² − 2x, λ(x − x₃) − y)`. -/
theorem tangent_closure (b x y l : F) (h : y ^ 2 = x ^ 3 + b) (hl : l * (2 * y) = 3 * x ^ 2) :
    (l * (x - (l ^ 2 - (x + x))) - y) ^ 2 = (l ^ 2 - (x + x)) ^ 3 + b := by
  linear_combination h - (x - (l ^ 2 - (x + x))) * hl

/-- Closure: whenever an entry's step yields a point, that point is on the curve again (for
on-curve operands, no vertical tangent). -/
theorem affAddSigned_on_curve (b : F) (B P R : Aff F) (sign : Bool)
    (hB : B.y ^ 2 = B.x ^ 3 + b) (hP : P.y ^ 2 = P.x ^ 3 + b) (hy : B.x = P.x → B.y + B.y ≠ 0)
    (hR : affAddSigned B P sign = some R) : R.y ^ 2 = R.x ^ 3 + b := by
  unfold affAddSigned at hR
  by_cases hx : B.x = P.x
  · rw [if_pos hx] at hR
    by_cases hd : ((decide (B.y = P.y)) != (!sign)) = true
    · rw [if_pos hd] at hR
      have h2y : (2 : F) * B.y ≠ 0 := by rw [two_mul]; exact hy hx
      have hl : (3 * P.x ^ 2) / (2 * B.y) * (2 * B.y) = 3 * P.x ^ 2 := div_mul_cancel₀ _ h2y
      have hR' := Option.some.inj hR
      subst hR'
      cases sign with
      | true =>
        have hyy : B.y = P.y := by simpa using hd
        simp only [if_true]
        have := tangent_closure b P.x P.y ((3 * P.x ^ 2) / (2 * B.y)) hP (by rw [← hyy]; exact hl)
        rw [hx]
        linear_combination this
      | false =>
        have hne : B.y ≠ P.y := by simpa using hd
        have hyy : B.y = -P.y := by
          rcases same_x_on_curve b B P hB hP hx with h | h
          · exact absurd h hne
          · exact h
        simp only [Bool.false_eq_true, if_false]
        have hPn : (-P.y) ^ 2 = P.x ^ 3 + b := by rw [neg_sq]; exact hP
        have := tangent_closure b P.x (-P.y) ((3 * P.x ^ 2) / (2 * B.y)) hPn (by rw [← hyy]; exact hl)
        rw [hx]
        linear_combination this
    · rw [if_neg hd] at hR
      cases hR
  · rw [if_neg hx] at hR
    have hd : B.x - P.x ≠ 0 := sub_ne_zero.mpr hx
    have hR' := Option.some.inj hR
    subst hR'
    cases sign with
    | true =>
      simp only [if_true]
      have hl : (B.y - P.y) / (B.x - P.x) * (B.x - P.x) = B.y - P.y := div_mul_cancel₀ _ hd
      have := chord_closure b B.x B.y P.x P.y _ hB hP hx hl
      linear_combination this
    | false =>
      simp only [Bool.false_eq_true, if_false]
      have hPn : (-P.y) ^ 2 = P.x ^ 3 + b := by rw [neg_sq]; exact hP
      have hl : (B.y + P.y) / (B.x - P.x) * (B.x - P.x) = B.y - (-P.y) := by
        rw [div_mul_cancel₀ _ hd]; ring
      have := chord_closure b B.x B.y P.x (-P.y) _ hB hPn hx hl
      linear_combination this

/-- The decision of `batch_add` in the equal-`x` case is the right one on the curve: the
"doubling" branch is taken exactly when the bucket equals the signed point `±P`, the `set_inf`
branch exactly when it is its opposite. -/
theorem batch_add_decision (b : F) (B P : Aff F) (sign : Bool) (hB : B.y ^ 2 = B.x ^ 3 + b)
    (hP : P.y ^ 2 = P.x ^ 3 + b) (hx : B.x = P.x) :
    (((decide (B.y = P.y)) != (!sign)) = true → B.y = (if sign then P.y else -P.y)) ∧
    (((decide (B.y = P.y)) != (!sign)) = false → B.y = -(if sign then P.y else -P.y)) := by
  have hdich := same_x_on_curve b B P hB hP hx
  cases sign with
  | true =>
    simp only [if_true]
    constructor
    · intro h; simpa using h
    · intro h
      have hne : B.y ≠ P.y := by simpa using h
      rcases hdich with h' | h'
      · exact absurd h' hne
      · exact h'
  | false =>
    simp only [Bool.false_eq_true, if_false, neg_neg]
    constructor
    · intro h
      have hne : B.y ≠ P.y := by simpa using h
      rcases hdich with h' | h'
      · exact absurd h' hne
      · exact h'
    · intro h; simpa using h

end

end MidnightZK.C12
