import MidnightZK.Proofs.C12.Fft
/-! The iterative butterflies of `best_fft` compute the same as the recursive ones. -/
namespace MidnightZK.C12

section chunks
variable {α : Type}

theorem chunksOfFuel_nil (fuel c : Nat) : chunksOfFuel fuel c ([] : List α) = [] := by
  cases fuel <;> simp [chunksOfFuel]

theorem chunksOfFuel_indep (c : Nat) : ∀ (f1 f2 : Nat) (l : List α), l.length ≤ f1 → l.length ≤ f2 →
    chunksOfFuel f1 c l = chunksOfFuel f2 c l
  | 0, f2, l, h1, _ => by
    have : l = [] := List.length_eq_zero_iff.mp (by omega)
    subst this; simp [chunksOfFuel_nil]
  | f1 + 1, 0, l, _, h2 => by
    have : l = [] := List.length_eq_zero_iff.mp (by omega)
    subst this; simp [chunksOfFuel_nil]
  | f1 + 1, f2 + 1, l, h1, h2 => by
    by_cases hl : l = []
    · subst hl; simp [chunksOfFuel_nil]
    · by_cases hc : c = 0
      · simp [chunksOfFuel, hc]
      · have hpos : 0 < l.length := List.length_pos_iff.mpr hl
        simp only [chunksOfFuel, List.isEmpty_iff, hl, hc, or_self, if_false]
        rw [chunksOfFuel_indep c f1 f2 (l.drop c) (by simp; omega) (by simp; omega)]

/-- `chunks(c)` of a block of exactly `c` elements followed by more. -/
theorem chunksOf_append (c : Nat) (hc : 0 < c) (blk rest : List α) (hb : blk.length = c) :
    chunksOf c (blk ++ rest) = blk :: chunksOf c rest := by
  unfold chunksOf
  have hne : blk ++ rest ≠ [] := by
    intro h
    have := congrArg List.length h
    rw [List.length_append, List.length_nil] at this; omega
  have hlen : (blk ++ rest).length = (rest.length + c - 1) + 1 := by simp; omega
  rw [hlen]
  simp only [chunksOfFuel, List.isEmpty_iff, hne, Nat.ne_of_gt hc, or_self, if_false]
  rw [List.take_left' hb, List.drop_left' hb]
  congr 1
  exact chunksOfFuel_indep c _ _ rest (by omega) (le_refl _)

theorem chunksOf_nil (c : Nat) : chunksOf c ([] : List α) = [] := by
  simp [chunksOf, chunksOfFuel]

theorem chunksOf_single (c : Nat) (hc : 0 < c) (blk : List α) (hb : blk.length = c) :
    chunksOf c blk = [blk] := by
  have := chunksOf_append c hc blk [] hb
  simpa [chunksOf_nil] using this

end chunks

section
variable {F : Type} [Add F] [Sub F] [Mul F] [One F]

theorem length_butterflies (tc : Nat) (tw : Array F) (l r : List F) (h : l.length = r.length) :
    (butterflies tc tw l r).1.length = l.length ∧ (butterflies tc tw l r).2.length = l.length := by
  simp [butterflies, h]

theorem length_fftRec (tw : Array F) : ∀ (s tc : Nat) (a : List F), a.length = 2 ^ s →
    (fftRec tw s tc a).length = 2 ^ s
  | 0, _, a, h => by simpa [fftRec] using h
  | s + 1, tc, a, h => by
    have hh : a.length / 2 = 2 ^ s := by rw [h, pow_succ]; omega
    have hl := length_fftRec tw s (2 * tc) (a.take (a.length / 2)) (by rw [List.length_take, hh, h, pow_succ]; omega)
    have hr := length_fftRec tw s (2 * tc) (a.drop (a.length / 2)) (by rw [List.length_drop, hh, h, pow_succ]; omega)
    simp only [fftRec, List.length_append]
    have := length_butterflies tc tw _ _ (hl.trans hr.symm)
    rw [this.1, this.2, hl, pow_succ]; omega

/-- All blocks of size `2^s` transformed by the recursive butterflies. -/
def blockMap (tw : Array F) (s tc : Nat) (a : List F) : List F :=
  (chunksOf (2 ^ s) a).flatMap (fftRec tw s tc)

theorem blockMap_nil (tw : Array F) (s tc : Nat) : blockMap tw s tc ([] : List F) = [] := by
  simp [blockMap, chunksOf_nil]

theorem blockMap_append (tw : Array F) (s tc : Nat) (blk rest : List F) (hb : blk.length = 2 ^ s) :
    blockMap tw s tc (blk ++ rest) = fftRec tw s tc blk ++ blockMap tw s tc rest := by
  unfold blockMap
  rw [chunksOf_append _ (by positivity) blk rest hb]
  simp

/-- One iterative stage turns transformed blocks of size `2^j` into transformed blocks of size
`2^(j+1)`. -/
theorem stage_blockMap (tw : Array F) (j tc : Nat) : ∀ (m : Nat) (a : List F),
    a.length = 2 ^ (j + 1) * m →
    fftIterStage tw (2 ^ (j + 1)) tc (blockMap tw j (2 * tc) a) = blockMap tw (j + 1) tc a
  | 0, a, h => by
    have : a = [] := List.length_eq_zero_iff.mp (by simpa using h)
    subst this
    simp [blockMap_nil, fftIterStage, chunksOf_nil]
  | m + 1, a, h => by
    have hp : 2 ^ (j + 1) = 2 ^ j + 2 ^ j := by rw [pow_succ]; ring
    have hlen : 2 ^ (j + 1) ≤ a.length := by rw [h]; exact Nat.le_mul_of_pos_right _ (by omega)
    set blk := a.take (2 ^ (j + 1)) with hblk
    set rest := a.drop (2 ^ (j + 1)) with hrest
    have ha : a = blk ++ rest := (List.take_append_drop _ a).symm
    have hbl : blk.length = 2 ^ (j + 1) := by rw [hblk, List.length_take]; omega
    have hrl : rest.length = 2 ^ (j + 1) * m := by
      rw [hrest, List.length_drop, h]; rw [Nat.mul_succ]; omega
    set c1 := blk.take (2 ^ j) with hc1
    set c2 := blk.drop (2 ^ j) with hc2
    have hb12 : blk = c1 ++ c2 := (List.take_append_drop _ blk).symm
    have hc1l : c1.length = 2 ^ j := by rw [hc1, List.length_take, hbl, hp]; omega
    have hc2l : c2.length = 2 ^ j := by rw [hc2, List.length_drop, hbl, hp]; omega
    have ih := stage_blockMap tw j tc m rest hrl
    have hR1 := length_fftRec tw j (2 * tc) c1 hc1l
    have hR2 := length_fftRec tw j (2 * tc) c2 hc2l
    rw [ha, blockMap_append tw (j + 1) tc blk rest hbl]
    conv => lhs; rw [hb12, List.append_assoc, blockMap_append tw j (2 * tc) c1 _ hc1l,
      blockMap_append tw j (2 * tc) c2 _ hc2l, ← List.append_assoc]
    unfold fftIterStage
    rw [chunksOf_append _ (by positivity) _ _ (by rw [List.length_append, hR1, hR2, hp])]
    simp only [List.flatMap_cons]
    have hhalf : 2 ^ (j + 1) / 2 = 2 ^ j := by rw [pow_succ]; omega
    rw [hhalf, List.take_left' hR1, List.drop_left' hR1]
    have ih' : (chunksOf (2 ^ (j + 1)) (blockMap tw j (2 * tc) rest)).flatMap
        (fun blk => (butterflies tc tw (blk.take (2 ^ (j + 1) / 2)) (blk.drop (2 ^ (j + 1) / 2))).1
          ++ (butterflies tc tw (blk.take (2 ^ (j + 1) / 2)) (blk.drop (2 ^ (j + 1) / 2))).2)
        = blockMap tw (j + 1) tc rest := ih
    rw [hhalf] at ih'
    rw [ih']
    congr 1
    -- the recursive step on `blk`
    simp only [fftRec]
    rw [hbl, hhalf, ← hc1, ← hc2]

/-- The stage loop of the iterative path. -/
theorem iterLoop_blockMap (tw : Array F) : ∀ (s j : Nat) (a : List F) (tc : Nat),
    (1 ≤ s → tc = 2 ^ (s - 1)) → a.length = 2 ^ (j + s) →
    fftIterLoop tw s (2 ^ (j + 1)) tc (blockMap tw j (2 ^ s) a) = blockMap tw (j + s) 1 a
  | 0, j, a, tc, _, _ => by simp [fftIterLoop]
  | s + 1, j, a, tc, htc, hlen => by
    have htc' : tc = 2 ^ s := by simpa using htc (by omega)
    subst htc'
    simp only [fftIterLoop]
    have h2 : 2 ^ (s + 1) = 2 * 2 ^ s := by rw [pow_succ]; ring
    rw [h2, stage_blockMap tw j (2 ^ s) (2 ^ s) a (by rw [hlen, ← pow_add]; congr 1; omega)]
    have hch : 2 ^ (j + 1) * 2 = 2 ^ (j + 1 + 1) := (pow_succ 2 (j + 1)).symm
    rw [hch]
    have := iterLoop_blockMap tw s (j + 1) a (2 ^ s / 2)
      (by intro hs
          have : 2 ^ s = 2 * 2 ^ (s - 1) := by rw [← pow_succ', Nat.sub_add_cancel hs]
          omega)
      (by rw [hlen]; congr 1; omega)
    rw [this]
    congr 1; omega

end

end MidnightZK.C12
