import Mathlib.Tactic.Ring
import MidnightZK.Proofs.C12.Fft
/-!
The in-place swap loop of `best_fft` (`curves/src/fft.rs`) realises the bit-reversal permutation,
for every `log_n`: `bitreverse` (the shift-and-or loop) is an involution of `[0, 2^k)` that sends
`b_{k-1}…b_0` to `b_0…b_{k-1}`, the loop `if k < rk { swap }` therefore leaves `a[rev i]` at
position `i`, and that is exactly the even/odd recursive characterisation `bitrevList`.
-/
namespace MidnightZK.C12

/-! ### `bitreverse` -/

theorem bitreverseLoop_eq : ∀ (l n r : Nat), bitreverseLoop l n r = r * 2 ^ l + bitreverse n l
  | 0, n, r => by simp [bitreverseLoop, bitreverse]
  | l + 1, n, r => by
    unfold bitreverse
    simp only [bitreverseLoop]
    rw [bitreverseLoop_eq l (n / 2) (2 * r + n % 2), bitreverseLoop_eq l (n / 2) (2 * 0 + n % 2)]
    ring

/-- The low bit of `n` becomes the high bit of the result. -/
theorem bitreverse_succ (n l : Nat) :
    bitreverse n (l + 1) = (n % 2) * 2 ^ l + bitreverse (n / 2) l := by
  have h := bitreverseLoop_eq l (n / 2) (2 * 0 + n % 2)
  unfold bitreverse at h ⊢
  simp only [bitreverseLoop]
  rw [h]; ring

theorem bitreverse_zero (n : Nat) : bitreverse n 0 = 0 := rfl

theorem bitreverse_lt : ∀ (l n : Nat), bitreverse n l < 2 ^ l
  | 0, n => by simp [bitreverse_zero]
  | l + 1, n => by
    rw [bitreverse_succ]
    have ih := bitreverse_lt l (n / 2)
    have h2 : n % 2 < 2 := Nat.mod_lt _ (by omega)
    have hp : 2 ^ (l + 1) = 2 * 2 ^ l := by rw [pow_succ]; ring
    have hm : n % 2 * 2 ^ l ≤ 1 * 2 ^ l := Nat.mul_le_mul_right _ (by omega)
    omega

/-- The high bit (bit `k`) of the argument becomes the low bit of the result. -/
theorem bitreverse_high : ∀ (k i : Nat), i < 2 ^ k →
    bitreverse i (k + 1) = 2 * bitreverse i k ∧
    bitreverse (2 ^ k + i) (k + 1) = 2 * bitreverse i k + 1
  | 0, i, hi => by
    have : i = 0 := by simpa using hi
    subst this
    decide
  | k + 1, i, hi => by
    have hp : 2 ^ (k + 1) = 2 * 2 ^ k := by rw [pow_succ]; ring
    have hi2 : i / 2 < 2 ^ k := by omega
    obtain ⟨ih1, ih2⟩ := bitreverse_high k (i / 2) hi2
    constructor
    · rw [bitreverse_succ i (k + 1), ih1, bitreverse_succ i k, hp]; ring
    · have hm : (2 ^ (k + 1) + i) % 2 = i % 2 := by omega
      have hd : (2 ^ (k + 1) + i) / 2 = 2 ^ k + i / 2 := by omega
      rw [bitreverse_succ (2 ^ (k + 1) + i) (k + 1), hm, hd, ih2, bitreverse_succ i k, hp]; ring

/-- `bitreverse(·, k)` is an involution of `[0, 2^k)`. -/
theorem bitreverse_invol : ∀ (k i : Nat), i < 2 ^ k → bitreverse (bitreverse i k) k = i
  | 0, i, hi => by
    have : i = 0 := by simpa using hi
    subst this; rfl
  | k + 1, i, hi => by
    have hp : 2 ^ (k + 1) = 2 * 2 ^ k := by rw [pow_succ]; ring
    have hi2 : i / 2 < 2 ^ k := by omega
    have ih := bitreverse_invol k (i / 2) hi2
    have hlt := bitreverse_lt k (i / 2)
    obtain ⟨h1, h2⟩ := bitreverse_high k (bitreverse (i / 2) k) hlt
    rw [bitreverse_succ i k]
    rcases Nat.mod_two_eq_zero_or_one i with h0 | h0
    · rw [h0, Nat.zero_mul, Nat.zero_add, h1, ih]; omega
    · rw [h0, Nat.one_mul, h2, ih]; omega

/-! ### the recursive (even/odd) characterisation, index-wise -/

section
variable {F : Type}

theorem getElem?_evens : ∀ (a : List F) (i : Nat), (evens a)[i]? = a[2 * i]?
  | [], i => by simp [evens]
  | [x], i => by
    cases i with
    | zero => simp [evens]
    | succ i => simp [evens]
  | x :: y :: t, i => by
    cases i with
    | zero => simp [evens]
    | succ i =>
      have ih := getElem?_evens t i
      have : 2 * (i + 1) = (2 * i + 1) + 1 := by ring
      simp only [evens, List.getElem?_cons_succ, this]
      exact ih

theorem getElem?_odds : ∀ (a : List F) (i : Nat), (odds a)[i]? = a[2 * i + 1]?
  | [], i => by simp [odds]
  | [x], i => by simp [odds]
  | x :: y :: t, i => by
    cases i with
    | zero => simp [odds]
    | succ i =>
      have ih := getElem?_odds t i
      have : 2 * (i + 1) + 1 = (2 * i + 1 + 1) + 1 := by ring
      simp only [odds, List.getElem?_cons_succ, this]
      exact ih

/-- Position `i` of the recursively permuted list holds the entry of index `bitreverse i k`. -/
theorem getElem?_bitrevList : ∀ (k : Nat) (a : List F), a.length = 2 ^ k → ∀ i, i < 2 ^ k →
    (bitrevList k a)[i]? = a[bitreverse i k]?
  | 0, a, _, i, hi => by
    have : i = 0 := by simpa using hi
    subst this; simp [bitrevList, bitreverse_zero]
  | k + 1, a, hlen, i, hi => by
    have hp : 2 ^ (k + 1) = 2 * 2 ^ k := by rw [pow_succ]; ring
    have h2 : a.length = 2 * 2 ^ k := by rw [hlen, hp]
    obtain ⟨hle, hlo⟩ := length_evens_odds (2 ^ k) a h2
    have hbe := length_bitrevList k (evens a) hle
    simp only [bitrevList]
    by_cases hlt : i < 2 ^ k
    · rw [List.getElem?_append_left (by rw [hbe]; exact hlt),
        getElem?_bitrevList k (evens a) hle i hlt, getElem?_evens, (bitreverse_high k i hlt).1]
    · have hi' : i - 2 ^ k < 2 ^ k := by omega
      rw [List.getElem?_append_right (by rw [hbe]; omega), hbe,
        getElem?_bitrevList k (odds a) hlo (i - 2 ^ k) hi', getElem?_odds,
        ← (bitreverse_high k (i - 2 ^ k) hi').2]
      congr 2
      omega

/-! ### the swap loop -/

theorem getElem?_swapIfInBounds' (xs : Array F) (i j k : Nat) (hi : i < xs.size) (hj : j < xs.size) :
    (xs.swapIfInBounds i j)[k]? = if k = i then xs[j]? else if k = j then xs[i]? else xs[k]? := by
  by_cases hk : k < xs.size
  · have hk' : k < (xs.swapIfInBounds i j).size := by simpa using hk
    rw [Array.getElem?_eq_getElem hk', Array.getElem_swapIfInBounds hk']
    by_cases h1 : k = i
    · simp [h1, hj]
    · by_cases h2 : k = j
      · subst h2; simp [h1, hi]
      · simp [h1, h2, hk]
  · have h1 : k ≠ i := by omega
    have h2 : k ≠ j := by omega
    rw [if_neg h1, if_neg h2, Array.getElem?_eq_none (by simpa using hk),
      Array.getElem?_eq_none (by omega)]

/-- `for k in 0..m { let rk = rev(k); if k < rk { a.swap(rk, k) } }` for an involution `rev` of
`[0, n)`: position `i` is final (`= a[rev i]`) as soon as `min(i, rev i) < m`, untouched before. -/
theorem swapLoop_spec (rev : Nat → Nat) (a : Array F)
    (hlt : ∀ i, i < a.size → rev i < a.size) (hinv : ∀ i, i < a.size → rev (rev i) = i) :
    ∀ m, m ≤ a.size →
      ((List.range m).foldl (fun b k => if k < rev k then b.swapIfInBounds k (rev k) else b) a).size
        = a.size ∧
      ∀ i, i < a.size →
        ((List.range m).foldl (fun b k => if k < rev k then b.swapIfInBounds k (rev k) else b) a)[i]?
          = if i < m ∨ rev i < m then a[rev i]? else a[i]?
  | 0, _ => by simp
  | m + 1, hm => by
    obtain ⟨ihs, ih⟩ := swapLoop_spec rev a hlt hinv m (by omega)
    rw [List.range_succ, List.foldl_append]
    simp only [List.foldl_cons, List.foldl_nil]
    set P := (List.range m).foldl (fun b k => if k < rev k then b.swapIfInBounds k (rev k) else b) a
      with hP
    have hmn : m < a.size := by omega
    have hrm := hlt m hmn
    have hrrm := hinv m hmn
    constructor
    · split <;> simp [ihs]
    · intro i hi
      have hri := hlt i hi
      have hrri := hinv i hi
      have hne : rev i = m → i = rev m := by
        intro h2; rw [h2] at hrri; exact hrri.symm
      by_cases hsw : m < rev m
      · rw [if_pos hsw, getElem?_swapIfInBounds' P m (rev m) i (by rw [ihs]; omega) (by rw [ihs]; omega)]
        by_cases h1 : i = m
        · subst h1
          rw [if_pos rfl, ih (rev i) hrm, hrrm, if_neg (by omega), if_pos (by omega)]
        · rw [if_neg h1]
          by_cases h2 : i = rev m
          · subst h2
            rw [if_pos rfl, ih m hmn, if_neg (by omega), hrrm, if_pos (by omega)]
          · have h3 : rev i ≠ m := fun h => h2 (hne h)
            rw [if_neg h2, ih i hi]
            by_cases hc : i < m ∨ rev i < m
            · rw [if_pos hc, if_pos (by omega)]
            · rw [if_neg hc, if_neg (by omega)]
      · rw [if_neg hsw, ih i hi]
        by_cases h1 : i = m
        · subst h1
          by_cases h4 : rev i = i
          · rw [if_neg (by omega), if_pos (by omega), h4]
          · rw [if_pos (by omega), if_pos (by omega)]
        · by_cases hc : i < m ∨ rev i < m
          · rw [if_pos hc, if_pos (by omega)]
          · have h3 : rev i ≠ m := by
              intro h; have := hne h; omega
            rw [if_neg hc, if_neg (by omega)]

/-- The swap loop of `best_fft` is the recursive bit-reversal permutation, for every `log_n` and
every vector of length `2^log_n`. -/
theorem bitrevPermute_eq_bitrevList [Add F] [Sub F] [Mul F] [One F] (k : Nat) (a : List F)
    (hlen : a.length = 2 ^ k) :
    (bitrevPermute k a.toArray).toList = bitrevList k a := by
  have hsz : a.toArray.size = 2 ^ k := by simpa using hlen
  obtain ⟨hs, hg⟩ := swapLoop_spec (fun i => bitreverse i k) a.toArray
    (fun i _ => by rw [hsz]; exact bitreverse_lt k i)
    (fun i hi => bitreverse_invol k i (by rw [← hsz]; exact hi)) a.toArray.size (le_refl _)
  apply List.ext_getElem?
  intro i
  by_cases hi : i < 2 ^ k
  · have h := hg i (by rw [hsz]; exact hi)
    rw [if_pos (Or.inl (by rw [hsz]; exact hi))] at h
    rw [getElem?_bitrevList k a hlen i hi]
    unfold bitrevPermute
    simp only [Array.getElem?_toList]
    rw [h]; simp
  · have hl1 : (bitrevPermute k a.toArray).toList.length = 2 ^ k := by
      unfold bitrevPermute
      simp only [Array.length_toList]
      rw [hs, hsz]
    rw [List.getElem?_eq_none (by rw [hl1]; omega),
      List.getElem?_eq_none (by rw [length_bitrevList k a hlen]; omega)]

end

end MidnightZK.C12
