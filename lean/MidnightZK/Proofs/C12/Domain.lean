import Mathlib.Tactic.Ring
import Mathlib.Tactic.FieldSimp
import Mathlib.Tactic.Linarith
import Mathlib.Algebra.Field.Basic
import Mathlib.Algebra.GroupWithZero.Basic
import Mathlib.Algebra.Group.Basic
import MidnightZK.Proofs.C12.Poly
/-! Helper lemmas for the evaluation-domain theorems of C12 (field `F`). -/
namespace MidnightZK.C12

section
variable {F : Type} [Field F]

/-- `rotate_omega(v, Rotation(r))` is `v·ω^r` (integer power) when `omega_inv = ω⁻¹`. -/
theorem rotateOmega_eq (d : Domain F) (hinv : d.omegaInv = d.omega⁻¹) (v : F) (r : Int) :
    d.rotateOmega (fun a e => a ^ e) v r = v * d.omega ^ r := by
  unfold Domain.rotateOmega
  split
  · next h =>
    congr 1
    have : r = (r.toNat : Int) := (Int.toNat_of_nonneg h).symm
    conv => rhs; rw [this, zpow_natCast]
  · next h =>
    congr 1
    have hneg : r = -(r.natAbs : Int) := by omega
    conv => rhs; rw [hneg, zpow_neg, zpow_natCast]
    rw [hinv]
    show (d.omega⁻¹) ^ r.natAbs = _
    rw [inv_pow]

/-- What `l_i_range` computes, entry by entry. -/
theorem lIRange_eq (d : Domain F) (hinv : d.omegaInv = d.omega⁻¹) (x xn : F) (rots : List Int) :
    d.lIRange (fun a => a⁻¹) (fun a e => a ^ e) x xn rots
      = rots.map (fun r => (x - d.omega ^ r)⁻¹ * ((xn - 1) * d.barycentricWeight) * d.omega ^ r) := by
  unfold Domain.lIRange
  simp only []
  induction rots with
  | nil => simp
  | cons r t ih =>
    simp only [List.map_cons, List.zipWith_cons_cons, ih]
    congr 1
    rw [rotateOmega_eq d hinv, rotateOmega_eq d hinv, one_mul]

end

end MidnightZK.C12

namespace MidnightZK.C12

section
variable {F : Type} [CommRing F]

theorem horner_append_zeros (a : List F) (m : Nat) (x : F) :
    horner (a ++ List.replicate m 0) x = horner a x := by
  rw [horner_append]
  have : horner (List.replicate m (0 : F)) x = 0 := by
    induction m with
    | zero => simp [horner_nil]
    | succ m ih => rw [List.replicate_succ, horner_cons, ih]; simp
  rw [this]; simp

/-- Scaling the `i`-th coefficient by `cⁱ` substitutes `c·X` for `X`. -/
theorem horner_zipWith_pow (c : F) : ∀ (a : List F) (off : Nat) (x : F),
    horner (List.zipWith (fun v i => v * c ^ i) a (List.range' off a.length)) x
      = c ^ off * horner a (c * x)
  | [], off, x => by simp [horner_nil]
  | v :: t, off, x => by
    simp only [List.length_cons, List.range'_succ, List.zipWith_cons_cons, horner_cons]
    rw [horner_zipWith_pow c t (off + 1) x, pow_succ]
    ring

/-- `distribute_powers_zeta(a, into_coset = true)` substitutes `ζ·X` when `ζ³ = 1`. -/
theorem horner_distribute (d : Domain F) (hz : d.gCoset ^ 3 = 1) (hzi : d.gCosetInv = d.gCoset * d.gCoset)
    (a : List F) (x : F) :
    horner (distributePowersZeta d a true) x = horner a (d.gCoset * x) := by
  have h := horner_zipWith_pow d.gCoset a 0 x
  simp only [pow_zero, one_mul] at h
  rw [← h]
  unfold distributePowersZeta
  simp only [if_true]
  rw [List.range_eq_range']
  congr 1
  apply List.ext_getElem
  · simp
  · intro i h1 h2
    simp only [List.getElem_zipWith, List.getElem_range', Nat.zero_add, Nat.one_mul]
    have hpow : d.gCoset ^ i = d.gCoset ^ (i % 3) := by
      conv => lhs; rw [← Nat.div_add_mod i 3, pow_add, pow_mul, hz, one_pow, one_mul]
    rw [hpow]
    have h3 : i % 3 < 3 := Nat.mod_lt _ (by norm_num)
    have hc : i % 3 = 0 ∨ i % 3 = 1 ∨ i % 3 = 2 := by omega
    rcases hc with h0 | h0 | h0 <;> rw [h0]
    · simp
    · simp
    · simp [hzi, pow_two]

end

end MidnightZK.C12

namespace MidnightZK.C12

section
variable {F : Type} [Field F] [DecidableEq F]

/-- The `loop { push; cur *= step; if cur == orig { break } }` of `EvaluationDomain::new`. -/
theorem tEvalLoop_spec (orig step : F) : ∀ (fuel : Nat) (cur : F) (acc : List F),
    ∃ n, tEvalLoop orig step fuel cur acc = acc.reverse ++ (List.range n).map (fun i => cur * step ^ i) ∧
      n ≤ fuel ∧ (fuel ≠ 0 → 1 ≤ n) ∧ (n < fuel → cur * step ^ n = orig)
  | 0, cur, acc => ⟨0, by simp [tEvalLoop]⟩
  | fuel + 1, cur, acc => by
    by_cases hbreak : cur * step = orig
    · refine ⟨1, ?_, by omega, by omega, ?_⟩
      · simp [tEvalLoop, hbreak]
      · intro _; simpa using hbreak
    · obtain ⟨n, h1, h2, _, h4⟩ := tEvalLoop_spec orig step fuel (cur * step) (cur :: acc)
      refine ⟨n + 1, ?_, by omega, by omega, ?_⟩
      · simp only [tEvalLoop, hbreak, if_false, h1, List.reverse_cons, List.append_assoc]
        congr 1
        rw [List.range_succ_eq_map]
        simp only [List.map_cons, pow_zero, mul_one, List.map_map, List.singleton_append]
        congr 1
        apply List.map_congr_left
        intro i _
        simp only [Function.comp, pow_succ]
        ring
      · intro hn
        have := h4 (by omega)
        rw [← this, pow_succ]; ring

end

end MidnightZK.C12
