import Mathlib.Tactic.Ring
import Mathlib.Algebra.Ring.Defs
import MidnightZK.Model.C12.Poly
/-!
`distribute_powers_zeta` out of the coset undoes `distribute_powers_zeta` into it (`ζ³ = 1`), and
commutes with zero padding.
-/
namespace MidnightZK.C12

section
variable {F : Type} [CommRing F]

theorem dpz_length (d : Domain F) (a : List F) (into : Bool) :
    (distributePowersZeta d a into).length = a.length := by
  simp [distributePowersZeta]

theorem dpz_getElem (d : Domain F) (a : List F) (into : Bool) (i : Nat) (hi : i < a.length) :
    (distributePowersZeta d a into)[i]'(by rw [dpz_length]; exact hi)
      = if i % 3 = 0 then a[i] else
        if i % 3 = 1 then a[i] * (if into then d.gCoset else d.gCosetInv)
        else a[i] * (if into then d.gCosetInv else d.gCoset) := by
  simp [distributePowersZeta]

theorem dpz_inverse (d : Domain F) (a : List F) (hz : d.gCoset ^ 3 = 1)
    (hzi : d.gCosetInv = d.gCoset * d.gCoset) :
    distributePowersZeta d (distributePowersZeta d a true) false = a := by
  apply List.ext_getElem
  · rw [dpz_length, dpz_length]
  · intro i h1 h2
    rw [dpz_getElem d _ false i (by rw [dpz_length]; exact h2), dpz_getElem d a true i h2]
    have h3 : d.gCoset * (d.gCoset * d.gCoset) = 1 := by rw [← hz]; ring
    by_cases c0 : i % 3 = 0
    · simp [c0]
    · by_cases c1 : i % 3 = 1
      · simp only [c1, if_true, Bool.false_eq_true, if_false, hzi, show ¬ (1 = 0) by decide,
          mul_assoc, h3, mul_one]
      · simp only [c0, c1, if_true, if_false, Bool.false_eq_true, hzi, mul_assoc, h3, mul_one]

theorem dpz_append_zeros (d : Domain F) (a : List F) (m : Nat) (into : Bool) :
    distributePowersZeta d (a ++ List.replicate m 0) into
      = distributePowersZeta d a into ++ List.replicate m 0 := by
  apply List.ext_getElem
  · simp [dpz_length]
  · intro i h1 h2
    have hi : i < (a ++ List.replicate m 0).length := by rw [dpz_length] at h1; exact h1
    rw [dpz_getElem d _ into i hi]
    by_cases hia : i < a.length
    · have hl : i < (distributePowersZeta d a into).length := by rw [dpz_length]; exact hia
      rw [List.getElem_append_left hl, dpz_getElem d a into i hia, List.getElem_append_left hia]
    · have hl : (distributePowersZeta d a into).length ≤ i := by rw [dpz_length]; omega
      rw [List.getElem_append_right hl, List.getElem_replicate]
      simp only [List.getElem_append_right (Nat.le_of_not_lt hia), List.getElem_replicate, zero_mul]
      split
      · rfl
      · split <;> rfl

end

end MidnightZK.C12
