import Mathlib.Tactic.Ring
import Mathlib.Tactic.Linarith
import Mathlib.Algebra.BigOperators.Group.Finset.Basic
import Mathlib.Algebra.BigOperators.Intervals
import MidnightZK.Model.C12.Booth
/-! Helper lemmas for the Booth-encoding theorems of C12. -/
namespace MidnightZK.C12
open MidnightZK

theorem leBytesToNat_take (n : Nat) : ∀ (l : List Nat), (∀ b ∈ l, b < 256) →
    leBytesToNat (l.take n) = leBytesToNat l % 256 ^ n := by
  induction n with
  | zero => intro l _; simp [leBytesToNat, Nat.mod_one]
  | succ n ih =>
    intro l hl
    cases l with
    | nil => simp [leBytesToNat]
    | cons b t =>
      have hb : b < 256 := hl b (by simp)
      have ht : ∀ x ∈ t, x < 256 := fun x hx => hl x (by simp [hx])
      simp only [List.take_succ_cons, leBytesToNat]
      rw [ih t ht, pow_succ, mul_comm (256 ^ n) 256, Nat.mod_mul]
      have h1 : (b + 256 * leBytesToNat t) % 256 = b := by omega
      have h2 : (b + 256 * leBytesToNat t) / 256 = leBytesToNat t := by omega
      rw [h1, h2]

theorem leBytesToNat_drop (k : Nat) : ∀ (l : List Nat), (∀ b ∈ l, b < 256) →
    leBytesToNat (l.drop k) = leBytesToNat l / 256 ^ k := by
  induction k with
  | zero => intro l _; simp
  | succ k ih =>
    intro l hl
    cases l with
    | nil => simp [leBytesToNat]
    | cons b t =>
      have hb : b < 256 := hl b (by simp)
      have ht : ∀ x ∈ t, x < 256 := fun x hx => hl x (by simp [hx])
      simp only [List.drop_succ_cons, leBytesToNat]
      rw [ih t ht, pow_succ, mul_comm (256 ^ k) 256, ← Nat.div_div_eq_div_mul]
      have h2 : (b + 256 * leBytesToNat t) / 256 = leBytesToNat t := by omega
      rw [h2]

/-- The four bytes loaded into the `u32`. -/
theorem leBytesToNat_window (el : List Nat) (hel : ∀ b ∈ el, b < 256) (k : Nat) :
    leBytesToNat ((el.drop k).take 4) = (leBytesToNat el / 2 ^ (8 * k)) % 2 ^ 32 := by
  have hd : ∀ b ∈ el.drop k, b < 256 := fun b hb => hel b (List.mem_of_mem_drop hb)
  rw [leBytesToNat_take 4 _ hd, leBytesToNat_drop k _ hel]
  have : (256 : Nat) ^ k = 2 ^ (8 * k) := by rw [pow_mul]; norm_num
  rw [this]; norm_num

/-- A `m`-bit field at bit offset `r` of a 32-bit load equals the same field of the full value
as long as it fits in the load. -/
theorem slice_of_u32 (x r m : Nat) (h : r + m ≤ 32) :
    ((x % 2 ^ 32) / 2 ^ r) % 2 ^ m = (x / 2 ^ r) % 2 ^ m := by
  have h32 : (2 : Nat) ^ 32 = 2 ^ r * 2 ^ (32 - r) := by rw [← pow_add]; congr 1; omega
  rw [h32, Nat.mod_mul]
  have hpos : 0 < 2 ^ r := Nat.pos_of_ne_zero (by positivity)
  rw [Nat.add_mul_div_left _ _ hpos, Nat.div_eq_of_lt (Nat.mod_lt _ hpos), Nat.zero_add]
  apply Nat.mod_mod_of_dvd
  exact pow_dvd_pow 2 (by omega)

/-- The `u32` slicing of `get_booth_index` computes the clean signed digit, for `1 ≤ w ≤ 24`. -/
theorem boothIndex_eq_digit (i w : Nat) (el : List Nat) (hel : ∀ b ∈ el, b < 256)
    (hw1 : 1 ≤ w) (hw : w ≤ 24) :
    boothIndex i w el = boothDigit i w (leBytesToNat el) := by
  set v := leBytesToNat el with hv
  -- the (w+1)-bit slice
  have hslice : ((if i = 0 then (leBytesToNat ((el.drop ((i * w - 1) / 8)).take 4) * 2) % 2 ^ 32
        else leBytesToNat ((el.drop ((i * w - 1) / 8)).take 4)) /
        2 ^ (i * w - 1 - (i * w - 1) / 8 * 8)) % 2 ^ (w + 1)
      = (2 * v / 2 ^ (w * i)) % 2 ^ (w + 1) := by
    rw [leBytesToNat_window el hel]
    by_cases hi : i = 0
    · subst hi
      simp only [Nat.zero_mul, Nat.zero_sub, Nat.zero_div, Nat.mul_zero, pow_zero, Nat.div_one,
        if_true]
      rw [Nat.mod_mod_of_dvd _ (pow_dvd_pow 2 (by omega : w + 1 ≤ 32)), Nat.mul_mod,
        Nat.mod_mod_of_dvd _ (pow_dvd_pow 2 (by omega : w + 1 ≤ 32)), ← Nat.mul_mod, Nat.mul_comm]
    · simp only [hi, if_false]
      have hpos : 1 ≤ i * w := Nat.mul_pos (Nat.pos_of_ne_zero hi) hw1
      set sb := i * w - 1 with hsb
      have hrem : sb - sb / 8 * 8 = sb % 8 := by omega
      rw [hrem, slice_of_u32 _ _ _ (by omega : sb % 8 + (w + 1) ≤ 32), Nat.div_div_eq_div_mul,
        ← pow_add]
      have h1 : 8 * (sb / 8) + sb % 8 = sb := by omega
      have h2 : w * i = sb + 1 := by rw [Nat.mul_comm]; omega
      have h3 : 2 * v / 2 ^ (sb + 1) = v / 2 ^ sb := by
        rw [pow_succ, Nat.mul_comm (2 ^ sb) 2, Nat.mul_div_mul_left _ _ (by norm_num : 0 < 2)]
      rw [h1, h2, h3]
  unfold boothIndex boothDigit
  simp only []
  rw [hslice]
  set s := (2 * v / 2 ^ (w * i)) % 2 ^ (w + 1) with hs
  have hslt : s < 2 ^ (w + 1) := Nat.mod_lt _ (by positivity)
  have hP : 2 ≤ 2 ^ w := by
    calc 2 = 2 ^ 1 := by norm_num
      _ ≤ 2 ^ w := Nat.pow_le_pow_right (by norm_num) hw1
  rw [pow_succ] at hslt
  set P := 2 ^ w with hPdef
  by_cases hlt : s < P
  · have : s / P % 2 = 0 := by rw [Nat.div_eq_of_lt hlt]
    simp [this, hlt]
  · have hge : P ≤ s := Nat.le_of_not_lt hlt
    have hdiv : s / P = 1 := by
      apply Nat.div_eq_of_lt_le <;> omega
    have hne : ¬ (s / P % 2 = 0) := by rw [hdiv]; norm_num
    simp only [hne, hlt, if_false]
    have ht1 : (s + 1) / 2 - 1 < P := by omega
    rw [Nat.mod_eq_of_lt ht1]
    have : 1 ≤ (s + 1) / 2 := by omega
    have : (s + 1) / 2 ≤ P := by omega
    omega

/-- Digits are bounded by half the window: they index `2^(w-1)` buckets. -/
theorem boothDigit_bound (i w v : Nat) (hw1 : 1 ≤ w) :
    (boothDigit i w v).natAbs ≤ 2 ^ (w - 1) := by
  unfold boothDigit
  simp only []
  set s := (2 * v / 2 ^ (w * i)) % 2 ^ (w + 1) with hs
  have hslt : s < 2 ^ (w + 1) := Nat.mod_lt _ (by positivity)
  have hw : w = (w - 1) + 1 := by omega
  have hP : 2 ^ w = 2 * 2 ^ (w - 1) := by rw [← pow_succ', Nat.sub_add_cancel hw1]
  rw [pow_succ, hP] at hslt
  rw [hP]
  set H := 2 ^ (w - 1)
  split <;> omega

/-- One step of the recomposition: the digit in terms of the bits of `v`. -/
theorem boothDigit_step (n w v : Nat) (hw1 : 1 ≤ w) :
    boothDigit n w v * (2 ^ w : Int) ^ n
      = ((v % (2 ^ w) ^ (n + 1) : Nat) : Int) - ((v % (2 ^ w) ^ n : Nat) : Int)
        - ((2 * v / (2 ^ w) ^ (n + 1) % 2 : Nat) : Int) * (2 ^ w : Int) ^ (n + 1)
        + ((2 * v / (2 ^ w) ^ n % 2 : Nat) : Int) * (2 ^ w : Int) ^ n := by
  have hw : w = (w - 1) + 1 := by omega
  have hB : 2 ^ w = 2 * 2 ^ (w - 1) := by rw [← pow_succ', Nat.sub_add_cancel hw1]
  set H := 2 ^ (w - 1) with hH
  have hHpos : 0 < H := by positivity
  set x := 2 * v / (2 ^ w) ^ n with hx
  -- facts in terms of x
  have hBn : 0 < (2 ^ w) ^ n := by positivity
  have f2 : v / (2 ^ w) ^ n = x / 2 := by
    rw [hx, Nat.div_div_eq_div_mul, Nat.mul_comm ((2 ^ w) ^ n) 2,
      Nat.mul_div_mul_left _ _ (by norm_num : 0 < 2)]
  have f1 : v % (2 ^ w) ^ (n + 1) = v % (2 ^ w) ^ n + (2 ^ w) ^ n * ((x / 2) % 2 ^ w) := by
    rw [pow_succ, Nat.mod_mul, f2]
  have f3 : 2 * v / (2 ^ w) ^ (n + 1) = x / 2 ^ w := by
    rw [pow_succ, ← Nat.div_div_eq_div_mul]
  have hs : (2 * v / 2 ^ (w * n)) % 2 ^ (w + 1) = x % (4 * H) := by
    rw [pow_mul, ← hx, pow_succ, hB]; ring_nf
  -- the digit
  have hdig : boothDigit n w v
      = (((x / 2) % (2 ^ w) : Nat) : Int) - ((x / (2 ^ w) % 2 : Nat) : Int) * (2 ^ w : Nat)
        + ((x % 2 : Nat) : Int) := by
    unfold boothDigit
    simp only []
    rw [hs, hB]
    -- decompose x = 4H q + s
    have hq : x = 4 * H * (x / (4 * H)) + x % (4 * H) := (Nat.div_add_mod x (4 * H)).symm
    set q := x / (4 * H)
    set s := x % (4 * H) with hsdef
    have hslt : s < 4 * H := Nat.mod_lt _ (by omega)
    have e1 : x / 2 = 2 * H * q + s / 2 := by
      rw [hq]
      have : 4 * H * q = 2 * (2 * H * q) := by ring
      rw [this, Nat.mul_add_div (by norm_num : 0 < 2)]
    have e2 : (x / 2) % (2 * H) = s / 2 := by
      rw [e1, Nat.mul_add_mod]
      exact Nat.mod_eq_of_lt (by omega)
    have e3 : x / (2 * H) = 2 * q + s / (2 * H) := by
      rw [hq]
      have : 4 * H * q = 2 * H * (2 * q) := by ring
      rw [this, Nat.mul_add_div (by omega : 0 < 2 * H)]
    have e4 : x % 2 = s % 2 := by
      rw [hq]
      have : 4 * H * q = 2 * (2 * H * q) := by ring
      rw [this, Nat.mul_add_mod]
    rw [e2, e3, e4]
    by_cases hlt : s < 2 * H
    · have : s / (2 * H) = 0 := Nat.div_eq_of_lt hlt
      rw [this]
      simp only [hlt, if_true]
      have : (2 * q + 0) % 2 = 0 := by omega
      rw [this]
      push_cast
      omega
    · have : s / (2 * H) = 1 := by
        apply Nat.div_eq_of_lt_le <;> omega
      rw [this]
      simp only [hlt, if_false]
      have : (2 * q + 1) % 2 = 1 := by omega
      rw [this]
      push_cast
      omega
  rw [hdig, f1, f3]
  push_cast
  ring

end MidnightZK.C12

namespace MidnightZK.C12
open MidnightZK

/-- Partial recomposition: the first `n` digits give `v mod 2^(wn)` minus the pending carry. -/
theorem boothDigit_sum (n w v : Nat) (hw1 : 1 ≤ w) :
    ∑ i ∈ Finset.range n, boothDigit i w v * (2 ^ w : Int) ^ i
      = ((v % (2 ^ w) ^ n : Nat) : Int)
        - ((2 * v / (2 ^ w) ^ n % 2 : Nat) : Int) * (2 ^ w : Int) ^ n := by
  induction n with
  | zero =>
    simp only [Finset.range_zero, Finset.sum_empty, pow_zero, Nat.mod_one, Nat.div_one]
    have : 2 * v % 2 = 0 := by omega
    rw [this]; simp
  | succ n ih =>
    rw [Finset.sum_range_succ, ih, boothDigit_step n w v hw1]
    ring

/-- Full recomposition once the windows cover one bit more than the value. -/
theorem boothDigit_recompose (n w v : Nat) (hw1 : 1 ≤ w) (hv : 2 * v < 2 ^ (w * n)) :
    ∑ i ∈ Finset.range n, boothDigit i w v * (2 : Int) ^ (w * i) = v := by
  have h := boothDigit_sum n w v hw1
  have hp : (2 ^ w) ^ n = 2 ^ (w * n) := by rw [pow_mul]
  have h1 : 2 * v / (2 ^ w) ^ n = 0 := by rw [hp]; exact Nat.div_eq_of_lt hv
  have h2 : v % (2 ^ w) ^ n = v := by rw [hp]; exact Nat.mod_eq_of_lt (by omega)
  rw [h1, h2] at h
  simp only [Nat.zero_mod, Nat.cast_zero, zero_mul, sub_zero] at h
  rw [← h]
  apply Finset.sum_congr rfl
  intro i _
  rw [pow_mul]

end MidnightZK.C12
