import Mathlib.Tactic.Ring
import Mathlib.Tactic.Abel
import Mathlib.Tactic.Linarith
import Mathlib.Algebra.BigOperators.Group.Finset.Basic
import Mathlib.Algebra.Ring.Basic
import Mathlib.Algebra.BigOperators.Ring.Finset
import MidnightZK.Model.C12.Poly
/-! Helper lemmas for the polynomial theorems of C12 (commutative ring `F`). -/
namespace MidnightZK.C12

section
variable {F : Type} [CommRing F]

theorem powN_eq (x : F) (n : Nat) : powN x n = x ^ n := by
  induction n with
  | zero => simp [powN]
  | succ n ih => rw [powN, ih, pow_succ]

theorem horner_nil (x : F) : horner ([] : List F) x = 0 := by simp [horner]

theorem horner_cons (c : F) (t : List F) (x : F) : horner (c :: t) x = horner t x * x + c := by
  unfold horner
  rw [List.reverse_cons, List.foldl_append]
  simp

theorem horner_append (a b : List F) (x : F) :
    horner (a ++ b) x = horner a x + x ^ a.length * horner b x := by
  induction a with
  | nil => simp [horner_nil]
  | cons c t ih =>
    rw [List.cons_append, horner_cons, ih, horner_cons, List.length_cons, pow_succ]
    ring

/-- Horner evaluation is the sum of `cᵢ·xⁱ`. -/
theorem horner_eq_sum (a : List F) (x : F) :
    horner a x = ∑ i ∈ Finset.range a.length, a.getD i 0 * x ^ i := by
  induction a with
  | nil => simp [horner_nil]
  | cons c t ih =>
    rw [horner_cons, ih, List.length_cons, Finset.sum_range_succ', Finset.sum_mul]
    simp only [List.getD_cons_succ, List.getD_cons_zero, pow_zero, mul_one]
    congr 1
    apply Finset.sum_congr rfl
    intro i _
    rw [pow_succ]; ring

theorem foldl_add_eq_sum (L : List F) (init : F) : L.foldl (· + ·) init = init + L.sum := by
  induction L generalizing init with
  | nil => simp
  | cons x t ih => rw [List.foldl_cons, ih, List.sum_cons, add_assoc]

/-- The chunk sums of `eval_polynomial`. -/
theorem chunk_sum (cs : Nat) (hcs : 0 < cs) (x : F) : ∀ (fuel : Nat) (l : List F) (i0 : Nat),
    l.length ≤ fuel →
    (((chunksOfFuel fuel cs l).zipIdx i0).map
      (fun ci => horner ci.1 x * powN x (ci.2 * cs))).sum = x ^ (i0 * cs) * horner l x := by
  intro fuel
  induction fuel with
  | zero =>
    intro l i0 hl
    have : l = [] := List.length_eq_zero_iff.mp (by omega)
    subst this
    simp [chunksOfFuel, horner_nil]
  | succ fuel ih =>
    intro l i0 hl
    by_cases hle : l = []
    · subst hle; simp [chunksOfFuel, horner_nil]
    · have hcs0 : cs ≠ 0 := by omega
      have hpos : 0 < l.length := List.length_pos_iff.mpr hle
      simp only [chunksOfFuel, List.isEmpty_iff, hle, hcs0, or_self, if_false, List.zipIdx_cons,
        List.map_cons, List.sum_cons]
      rw [ih (l.drop cs) (i0 + 1) (by simp; omega), powN_eq]
      conv => rhs; rw [← List.take_append_drop cs l, horner_append]
      by_cases hlen : cs ≤ l.length
      · rw [List.length_take, Nat.min_eq_left hlen]
        ring
      · have hd : l.drop cs = [] := List.drop_eq_nil_of_le (by omega)
        rw [hd, horner_nil]
        ring

/-! ### synthetic division -/

/-- Quotient and remainder of the division by `X - b`, lowest coefficient first. -/
def synth (b : F) : List F → List F × F
  | [] => ([], 0)
  | [c] => ([], c)
  | c :: d :: t => let qr := synth b (d :: t); (qr.2 :: qr.1, c + b * qr.2)

theorem synth_spec (b : F) : ∀ (a : List F) (x : F),
    horner a x = horner (synth b a).1 x * (x - b) + (synth b a).2
  | [], x => by simp [synth, horner_nil]
  | [c], x => by simp [synth, horner_cons, horner_nil]
  | c :: d :: t, x => by
    have ih := synth_spec b (d :: t) x
    simp only [synth]
    rw [horner_cons, ih, horner_cons]
    ring

theorem synth_rem (b : F) (a : List F) : (synth b a).2 = horner a b := by
  have := synth_spec b a b
  simp at this
  exact this.symm

theorem synth_length (b : F) : ∀ (a : List F), (synth b a).1.length = a.length - 1
  | [] => by simp [synth]
  | [c] => by simp [synth]
  | c :: d :: t => by
    have ih := synth_length b (d :: t)
    simp only [synth, List.length_cons] at ih ⊢
    omega

theorem kate_fold (b : F) : ∀ (t : List F), t ≠ [] →
    t.foldr (fun r (st : List F × F) => ((r - st.2) :: st.1, (r - st.2) * -b)) ([], 0)
      = ((synth b t).2 :: (synth b t).1, (synth b t).2 * -b)
  | [], h => absurd rfl h
  | [c], _ => by simp [synth]
  | c :: d :: t, _ => by
    rw [List.foldr_cons, kate_fold b (d :: t) (by simp)]
    simp only [synth]
    refine Prod.ext ?_ ?_
    · simp only [List.cons.injEq, and_true]
      ring
    · simp only; ring

end

end MidnightZK.C12
