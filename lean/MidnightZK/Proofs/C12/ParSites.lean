import Mathlib.Tactic.Ring
import Mathlib.Algebra.BigOperators.Group.List.Basic
import Mathlib.Algebra.Ring.Defs
import MidnightZK.Model.C12.ParSites
/-!
Thread-independence of every `parallelize` site: the chunks of `parallelize` reassemble any list
(`chunks_reassemble`), hence a worker closure whose effect on a slice is the slice of a global
result (`parallelizeWith_of_slice`) computes that global result for every positive thread count.
-/
namespace MidnightZK.C12

theorem flatMap_range'_mul (s c : Nat) : ∀ n,
    (List.range n).flatMap (fun i => List.range' (s + i * c) c) = List.range' s (n * c)
  | 0 => by simp
  | n + 1 => by
    rw [List.range_succ, List.flatMap_append, flatMap_range'_mul s c n]
    simp only [List.flatMap_cons, List.flatMap_nil, List.append_nil]
    rw [Nat.succ_mul, ← List.range'_append_1]

/-- The chunks of `parallelize` visit `0, 1, …, len − 1` in order, each index once. -/
theorem visited_eq_range (len t : Nat) (ht : 0 < t) : visited len t = List.range len := by
  unfold visited chunks
  simp only [List.flatMap_append]
  have hdm : t * (len / t) + len % t = len := Nat.div_add_mod len t
  have hlt : len % t < t := Nat.mod_lt _ ht
  generalize hb : len / t = base at *
  generalize hc : len % t = cutoff at *
  have h1 : (if cutoff ≠ 0 then (List.range cutoff).map (fun id => (id * (base + 1), base + 1)) else []).flatMap
      (fun c => List.range' c.1 c.2) = List.range' 0 (cutoff * (base + 1)) := by
    split
    · rw [List.flatMap_map]
      have := flatMap_range'_mul 0 (base + 1) cutoff
      simpa using this
    · next h => simp at h; simp [h]
  have hsum : len = cutoff * (base + 1) + (t - cutoff) * base := by
    rw [Nat.sub_mul, Nat.mul_add, Nat.mul_one]
    have : cutoff * base ≤ t * base := Nat.mul_le_mul_right _ (Nat.le_of_lt hlt)
    omega
  have hsplit : len - cutoff * (base + 1) = (t - cutoff) * base := by omega
  have h2 : (if base ≠ 0 then (List.range ((len - cutoff * (base + 1)) / base)).map
        (fun id => (cutoff * (base + 1) + id * base, base)) else []).flatMap
      (fun c => List.range' c.1 c.2) = List.range' (cutoff * (base + 1)) ((t - cutoff) * base) := by
    split
    · next h =>
      rw [List.flatMap_map, hsplit, Nat.mul_div_cancel _ (Nat.pos_of_ne_zero h)]
      exact flatMap_range'_mul _ base _
    · next h => simp at h; simp [h]
  rw [h1, h2, List.range_eq_range']
  conv => rhs; rw [hsum]
  rw [← List.range'_append_1]; simp

section
variable {α : Type}

theorem filterMap_range'_getElem? (L : List α) : ∀ (l o : Nat),
    (List.range' o l).filterMap (fun i => L[i]?) = (L.drop o).take l
  | 0, o => by simp
  | l + 1, o => by
    rw [List.range'_succ, List.filterMap_cons, filterMap_range'_getElem? L l (o + 1)]
    cases h : L[o]? with
    | none =>
      have ho : L.length ≤ o := List.getElem?_eq_none_iff.mp h
      rw [List.drop_eq_nil_of_le (by omega), List.drop_eq_nil_of_le ho]
      simp
    | some x =>
      obtain ⟨ho, hx⟩ := List.getElem?_eq_some_iff.mp h
      rw [List.drop_eq_getElem_cons ho, List.take_succ_cons, hx]

theorem filterMap_flatMap' {β γ : Type} (g : β → Option γ) (f : α → List β) : ∀ l : List α,
    (l.flatMap f).filterMap g = l.flatMap (fun x => (f x).filterMap g)
  | [] => rfl
  | x :: t => by
    rw [List.flatMap_cons, List.filterMap_append, filterMap_flatMap' g f t, List.flatMap_cons]

/-- The chunks handed out by `parallelize` put any list of that length together again. -/
theorem chunks_reassemble (L : List α) (t : Nat) (ht : 0 < t) :
    (chunks L.length t).flatMap (fun c => (L.drop c.1).take c.2) = L := by
  have h : (fun c : Nat × Nat => (L.drop c.1).take c.2)
      = (fun c => (List.range' c.1 c.2).filterMap (fun i => L[i]?)) := by
    funext c; rw [filterMap_range'_getElem?]
  rw [h, ← filterMap_flatMap' (fun i => L[i]?) (fun c : Nat × Nat => List.range' c.1 c.2)]
  have hv := visited_eq_range L.length t ht
  unfold visited at hv
  rw [hv, List.range_eq_range', filterMap_range'_getElem?]
  simp

/-- A worker whose result on the slice `[o, o+l)` is the same slice of a global result `R`
computes `R`, whatever the (positive) number of threads. -/
theorem parallelizeWith_of_slice (t : Nat) (ht : 0 < t) (w : Nat → List α → List α) (v R : List α)
    (hR : R.length = v.length)
    (h : ∀ o l, w o ((v.drop o).take l) = (R.drop o).take l) :
    parallelizeWith t w v = R := by
  unfold parallelizeWith
  have : (fun c : Nat × Nat => w c.1 ((v.drop c.1).take c.2))
      = (fun c => (R.drop c.1).take c.2) := by
    funext c; exact h c.1 c.2
  rw [this, ← hR]
  exact chunks_reassemble R t ht

theorem wRunning_length (f : Nat → α → α) : ∀ (l : List α) (s : Nat), (wRunning f s l).length = l.length
  | [], _ => rfl
  | _ :: r, s => by simp [wRunning, wRunning_length f r (s + 1)]

theorem wRunning_slice (f : Nat → α → α) : ∀ (v : List α) (s o l : Nat),
    wRunning f (s + o) ((v.drop o).take l) = ((wRunning f s v).drop o).take l
  | [], s, o, l => by simp [wRunning]
  | x :: r, s, 0, 0 => by simp [wRunning]
  | x :: r, s, 0, l + 1 => by
    have ih := wRunning_slice f r (s + 1) 0 l
    simp only [List.drop_zero, Nat.add_zero] at ih
    simp [wRunning, ih]
  | x :: r, s, o + 1, l => by
    have ih := wRunning_slice f r (s + 1) o l
    simp only [List.drop_succ_cons, wRunning]
    rw [show s + (o + 1) = s + 1 + o by omega]
    exact ih

theorem wEnum_eq_wRunning (f : Nat → α → α) : ∀ (l : List α) (s : Nat), wEnum f s l = wRunning f s l
  | [], _ => rfl
  | x :: r, s => by
    have ih := wEnum_eq_wRunning f r (s + 1)
    unfold wEnum at ih ⊢
    simp [wRunning, List.zipIdx_cons, ih]

/-- `index += 1` workers: every positive thread count gives the plain index-wise map. -/
theorem parallelizeWith_wRunning (t : Nat) (ht : 0 < t) (f : Nat → α → α) (v : List α) :
    parallelizeWith t (wRunning f) v = wRunning f 0 v :=
  parallelizeWith_of_slice t ht _ v _ (wRunning_length f v 0) (fun o l => by
    have := wRunning_slice f v 0 o l
    simpa using this)

/-- `start + i` workers likewise. -/
theorem parallelizeWith_wEnum (t : Nat) (ht : 0 < t) (f : Nat → α → α) (v : List α) :
    parallelizeWith t (wEnum f) v = wEnum f 0 v := by
  have : wEnum f = wRunning f := by funext s l; exact wEnum_eq_wRunning f l s
  rw [this, parallelizeWith_wRunning t ht]

/-- Index-free workers. -/
theorem parallelizeWith_wMap (t : Nat) (ht : 0 < t) (g : α → α) (v : List α) :
    parallelizeWith t (wMap g) v = v.map g :=
  parallelizeWith_of_slice t ht _ v _ (by simp) (fun o l => by
    simp [wMap, List.map_take, List.map_drop])

theorem wRunning_eq_zipWith (f : Nat → α → α) : ∀ (v : List α) (s : Nat),
    wRunning f s v = List.zipWith (fun x i => f i x) v (List.range' s v.length)
  | [], _ => rfl
  | x :: r, s => by
    simp [wRunning, List.range'_succ, wRunning_eq_zipWith f r (s + 1)]

end

/-! ### Workers that may panic (`parallelizeWithOpt`) -/

/-- Every chunk of `parallelize` lies inside the slice. -/
theorem chunk_bound (len t : Nat) (c : Nat × Nat) (hc : c ∈ chunks len t) : c.1 + c.2 ≤ len := by
  unfold chunks at hc
  simp only [List.mem_append] at hc
  have hdm : t * (len / t) + len % t = len := Nat.div_add_mod len t
  rcases hc with hc | hc
  · split at hc
    · obtain ⟨id, hid, rfl⟩ := List.mem_map.mp hc
      have hid' : id < len % t := List.mem_range.mp hid
      have h1 : (id + 1) * (len / t + 1) ≤ len % t * (len / t + 1) := Nat.mul_le_mul_right _ hid'
      have h2 : len % t * (len / t + 1) ≤ len := by
        rcases Nat.eq_zero_or_pos t with h0 | hpos
        · subst h0; simp at hid'; omega
        · have hlt : len % t < t := Nat.mod_lt _ hpos
          have : len % t * (len / t) ≤ t * (len / t) := Nat.mul_le_mul_right _ (Nat.le_of_lt hlt)
          rw [Nat.mul_add, Nat.mul_one]; omega
      simp only
      rw [Nat.add_mul, Nat.one_mul] at h1
      omega
    · simp at hc
  · split at hc
    · next hb =>
      obtain ⟨id, hid, rfl⟩ := List.mem_map.mp hc
      have hid' := List.mem_range.mp hid
      have h1 : (id + 1) * (len / t) ≤ (len - len % t * (len / t + 1)) / (len / t) * (len / t) :=
        Nat.mul_le_mul_right _ hid'
      have h2 := Nat.div_mul_le_self (len - len % t * (len / t + 1)) (len / t)
      simp only
      rw [Nat.add_mul, Nat.one_mul] at h1
      have h3 : len % t * (len / t + 1) ≤ len := by
        rcases Nat.eq_zero_or_pos t with h0 | hpos
        · subst h0; simp at hb
        · have hlt : len % t < t := Nat.mod_lt _ hpos
          have : len % t * (len / t) ≤ t * (len / t) := Nat.mul_le_mul_right _ (Nat.le_of_lt hlt)
          rw [Nat.mul_add, Nat.mul_one]; omega
      omega
    · simp at hc

section
variable {α : Type}

theorem mapM_option_eq_some {β γ : Type} (f : β → Option γ) (g : β → γ) : ∀ (l : List β),
    (∀ x ∈ l, f x = some (g x)) → l.mapM f = some (l.map g)
  | [], _ => rfl
  | x :: r, h => by
    rw [List.mapM_cons, h x (by simp), mapM_option_eq_some f g r (fun y hy => h y (by simp [hy]))]
    rfl

/-- Option version of `parallelizeWith_of_slice`: if no worker panics on its own chunk and each
returns the matching slice of `R`, the result is `R` for every positive thread count. -/
theorem parallelizeWithOpt_of_slice (t : Nat) (ht : 0 < t) (w : Nat → List α → Option (List α))
    (v R : List α) (hR : R.length = v.length)
    (h : ∀ o l, o + l ≤ v.length → w o ((v.drop o).take l) = some ((R.drop o).take l)) :
    parallelizeWithOpt t w v = some R := by
  unfold parallelizeWithOpt
  rw [mapM_option_eq_some _ (fun c : Nat × Nat => (R.drop c.1).take c.2) _
    (fun c hc => h c.1 c.2 (chunk_bound _ _ c hc))]
  simp only [Option.map_some, List.flatten_eq_flatMap]
  congr 1
  rw [List.flatMap_map]
  simp only [id]
  rw [← hR]
  exact chunks_reassemble R t ht

theorem zipWith_take_right {β γ : Type} (f : α → β → γ) : ∀ (a : List α) (b : List β),
    List.zipWith f a b = List.zipWith f a (b.take a.length)
  | [], _ => by simp
  | _ :: _, [] => by simp
  | x :: a, y :: b => by simp [← zipWith_take_right f a b]

/-- `Polynomial::{add_assign, add, sub}`: when `rhs` is at least as long as `lhs` no worker panics
and the result is the entry-wise operation, for every positive thread count. -/
theorem polyZipPar_eq (t : Nat) (ht : 0 < t) (op : α → α → α) (lhs rhs : List α)
    (hlen : lhs.length ≤ rhs.length) :
    polyZipPar t op lhs rhs = some (List.zipWith op lhs rhs) := by
  unfold polyZipPar
  apply parallelizeWithOpt_of_slice t ht
  · simp [Nat.min_eq_left hlen]
  · intro o l hol
    unfold wZipFrom
    have h1 : ¬ o > rhs.length := by omega
    rw [if_neg h1]
    congr 1
    have hsl : ((lhs.drop o).take l).length ≤ rhs.length - o := by simp; omega
    rw [List.drop_eq_nil_of_le hsl, List.append_nil, List.drop_zipWith, List.take_zipWith]
    rw [zipWith_take_right op ((lhs.drop o).take l) (rhs.drop o)]
    congr 1
    simp only [List.length_take, List.length_drop]
    congr 1
    omega

end

/-! ### `unsafe_setup` -/

section
variable {F : Type} [CommRing F]

theorem wSetupG_fold (s : F) : ∀ (chunk : List F) (acc : List F) (cur : F),
    (chunk.foldl (fun (st : List F × F) _ => (st.2 :: st.1, st.2 * s)) (acc, cur)).1.reverse
      = acc.reverse ++ (List.range chunk.length).map (fun i => cur * s ^ i)
  | [], acc, cur => by simp
  | _ :: r, acc, cur => by
    rw [List.foldl_cons, wSetupG_fold s r]
    simp only [List.reverse_cons, List.length_cons, List.append_assoc, List.singleton_append]
    congr 1
    rw [List.range_succ_eq_map, List.map_cons, List.map_map]
    simp only [pow_zero, mul_one, List.cons.injEq, true_and]
    apply List.map_congr_left
    intro i _
    simp only [Function.comp, pow_succ]
    ring

theorem wSetupG_eq (g1 s : F) (start : Nat) (chunk : List F) :
    wSetupG (fun a e => a ^ e) g1 s start chunk
      = (List.range' start chunk.length).map (fun i => g1 * s ^ i) := by
  unfold wSetupG
  rw [wSetupG_fold]
  simp only [List.reverse_nil, List.nil_append]
  rw [List.range'_eq_map_range, List.map_map]
  apply List.map_congr_left
  intro i _
  simp only [Function.comp, pow_add]
  ring

/-- `unsafe_setup`: `g = [g1·s⁰, g1·s¹, …]` for every positive thread count, although each worker
restarts from `s^start` and multiplies on. -/
theorem setupG_eq (t : Nat) (ht : 0 < t) (g1 s : F) (n : Nat) :
    setupG t (fun a e => a ^ e) g1 s n = (List.range n).map (fun i => g1 * s ^ i) := by
  unfold setupG
  apply parallelizeWith_of_slice t ht
  · simp
  · intro o l
    rw [wSetupG_eq]
    simp only [List.drop_replicate, List.take_replicate, List.length_replicate]
    rw [← List.map_drop, ← List.map_take, List.range_eq_range', List.drop_range', List.range'_eq_map_range,
      List.range'_eq_map_range (n := n - o), ← List.map_take, List.take_range]
    simp

end

section
variable {α β : Type}

/-- `read_custom`: the parallel decode is the plain `map` of the decoder, for every thread count. -/
theorem readPointsPar_eq (t : Nat) (ht : 0 < t) (dec : α → Option β) (comp : List α) :
    readPointsPar t dec comp = comp.map dec := by
  unfold readPointsPar
  rw [parallelizeWith_wEnum t ht, wEnum_eq_wRunning, wRunning_eq_zipWith]
  apply List.ext_getElem
  · simp
  · intro i h1 h2
    have hi : i < comp.length := by simpa using h2
    simp [List.getElem_zipWith, hi]

end

section
variable {F : Type} [Field F] [DecidableEq F]

/-- `unsafe_setup`, second loop: off the domain (`s ≠ rootⁱ`, otherwise `.invert().unwrap()` panics)
every positive thread count yields `g1 · (sⁿ − 1)/n · rootⁱ / (s − rootⁱ)` at index `i`. -/
theorem setupGLagrange_eq (t : Nat) (ht : 0 < t) (g1 s root nInv : F) (n : Nat)
    (hs : ∀ i < n, s ≠ root ^ i) :
    setupGLagrange t (fun a e => a ^ e) (fun a => if a = 0 then none else some a⁻¹) g1 s root nInv n
      = some ((List.range n).map (fun i => g1 * ((s ^ n - 1) * nInv * root ^ i * (s - root ^ i)⁻¹))) := by
  unfold setupGLagrange
  apply parallelizeWithOpt_of_slice t ht
  · simp
  · intro o l hol
    simp only [List.length_replicate] at hol
    rw [mapM_option_eq_some _
      (fun p : F × Nat => g1 * ((s ^ n - 1) * nInv * root ^ p.2 * (s - root ^ p.2)⁻¹))]
    · congr 1
      apply List.ext_getElem
      · simp
      · intro i h1 h2
        simp at h1 h2 ⊢
    · intro p hp
      have hp2 : p.2 < n := by
        obtain ⟨i, hi, hpe⟩ := List.mem_iff_getElem.mp hp
        simp at hi
        have : p.2 = o + i := by rw [← hpe]; simp
        omega
      have hne : s - root ^ p.2 ≠ 0 := sub_ne_zero.mpr (hs p.2 hp2)
      simp [hne]

end

section
variable {F : Type} [CommRing F]

theorem evals_fold (m : Nat) : ∀ (L : List (List F × F)) (res : List F), res.length = m →
    (∀ es ∈ L, es.1.length = m) →
    L.foldlM (fun (res : List F) es =>
      if es.1.length < res.length then none
      else some (List.zipWith (fun r e => r + e * es.2) res es.1)) res
    = some ((List.range m).map (fun i => res.getD i 0 + (L.map (fun es => es.1.getD i 0 * es.2)).sum))
  | [], res, hres, _ => by
    simp only [List.foldlM_nil, List.map_nil, List.sum_nil, add_zero]
    congr 1
    apply List.ext_getElem
    · simp [hres]
    · intro i h1 h2; simp [List.getD, h1]
  | es :: L, res, hres, hall => by
    have hes : es.1.length = m := hall es (by simp)
    rw [List.foldlM_cons]
    have hnot : ¬ es.1.length < res.length := by omega
    simp only [hnot, if_false]
    have hl : (List.zipWith (fun r e => r + e * es.2) res es.1).length = m := by simp [hres, hes]
    show (L.foldlM _ _) = _
    rw [evals_fold m L _ hl (fun e he => hall e (by simp [he]))]
    congr 1
    apply List.map_congr_left
    intro i hi
    have hi' : i < m := List.mem_range.mp hi
    simp only [List.map_cons, List.sum_cons]
    have : (List.zipWith (fun r e => r + e * es.2) res es.1).getD i 0 = res.getD i 0 + es.1.getD i 0 * es.2 := by
      simp [List.getD, hres, hes, hi']
    rw [this]; ring

end

end MidnightZK.C12
