import Mathlib.Tactic.Ring
import Mathlib.Tactic.Linarith
import MidnightZK.Proofs.C12.Poly
/-! Helper lemmas for the FFT theorems of C12 (commutative ring `F`). -/
namespace MidnightZK.C12

section
variable {F : Type}

/-- Coefficients of even index. -/
def evens : List F → List F
  | [] => []
  | [x] => [x]
  | x :: _ :: t => x :: evens t

/-- Coefficients of odd index. -/
def odds : List F → List F
  | [] => []
  | [_] => []
  | _ :: y :: t => y :: odds t

/-- The bit-reversal permutation of a list of length `2^k`, by its recursive characterisation:
even-indexed entries first (recursively permuted), then odd-indexed ones. -/
def bitrevList : Nat → List F → List F
  | 0, a => a
  | k + 1, a => bitrevList k (evens a) ++ bitrevList k (odds a)

theorem length_evens_odds : ∀ (m : Nat) (a : List F), a.length = 2 * m →
    (evens a).length = m ∧ (odds a).length = m
  | 0, a, h => by
    have : a = [] := List.length_eq_zero_iff.mp (by omega)
    subst this; simp [evens, odds]
  | m + 1, a, h => by
    match a, h with
    | x :: y :: t, h =>
      have ht : t.length = 2 * m := by simp at h; omega
      have := length_evens_odds m t ht
      simp [evens, odds, this]

theorem length_bitrevList : ∀ (k : Nat) (a : List F), a.length = 2 ^ k →
    (bitrevList k a).length = 2 ^ k
  | 0, a, h => by simpa [bitrevList] using h
  | k + 1, a, h => by
    have h2 : a.length = 2 * 2 ^ k := by rw [h, pow_succ]; ring
    have := length_evens_odds (2 ^ k) a h2
    simp only [bitrevList, List.length_append]
    rw [length_bitrevList k _ this.1, length_bitrevList k _ this.2, pow_succ]; ring

variable [CommRing F]

theorem horner_even_odd : ∀ (a : List F) (x : F),
    horner a x = horner (evens a) (x * x) + x * horner (odds a) (x * x)
  | [], x => by simp [evens, odds, horner_nil]
  | [c], x => by simp [evens, odds, horner_cons, horner_nil]
  | c :: d :: t, x => by
    have ih := horner_even_odd t x
    simp only [evens, odds, horner_cons]
    rw [ih]; ring

theorem zipWith_map_range {β γ δ : Type} (f : β → γ → δ) (g : Nat → β) (h : Nat → γ) (n : Nat) :
    List.zipWith f ((List.range n).map g) ((List.range n).map h)
      = (List.range n).map (fun i => f (g i) (h i)) := by
  apply List.ext_getElem
  · simp
  · intro i h1 h2
    simp

theorem zipWith_range_right {β δ : Type} (f : β → Nat → δ) (g : Nat → β) (n : Nat) :
    List.zipWith f ((List.range n).map g) (List.range n)
      = (List.range n).map (fun i => f (g i) i) := by
  apply List.ext_getElem
  · simp
  · intro i h1 h2
    simp

/-- `recursive_butterfly_arithmetic` on the bit-reversed input evaluates the polynomial at the
powers of `ζ = ω^tc`. -/
theorem fftRec_spec (tw : Array F) (ω : F) (N : Nat) (htw : ∀ m < N, tw.getD m 1 = ω ^ m) :
    ∀ (k tc : Nat) (a : List F), 0 < tc → a.length = 2 ^ k → 2 ^ k * tc ≤ 2 * N →
      (1 ≤ k → (ω ^ tc) ^ (2 ^ (k - 1)) = -1) →
      fftRec tw k tc (bitrevList k a) = (List.range (2 ^ k)).map (fun i => horner a ((ω ^ tc) ^ i))
  | 0, tc, a, _, hlen, _, _ => by
    match a, hlen with
    | [c], _ => simp [fftRec, bitrevList, horner_cons, horner_nil]
  | k + 1, tc, a, htc, hlen, hN, hroot => by
    have h2 : a.length = 2 * 2 ^ k := by rw [hlen, pow_succ]; ring
    obtain ⟨hle, hlo⟩ := length_evens_odds (2 ^ k) a h2
    have hbe := length_bitrevList k (evens a) hle
    have hbo := length_bitrevList k (odds a) hlo
    have hroot' : (ω ^ tc) ^ (2 ^ k) = -1 := by simpa using hroot (by omega)
    have hN' : 2 ^ k * (2 * tc) ≤ 2 * N := by
      have : 2 ^ (k + 1) * tc = 2 ^ k * (2 * tc) := by rw [pow_succ]; ring
      omega
    have hr' : 1 ≤ k → (ω ^ (2 * tc)) ^ (2 ^ (k - 1)) = -1 := by
      intro hk
      have : 2 ^ k = 2 * 2 ^ (k - 1) := by rw [← pow_succ', Nat.sub_add_cancel hk]
      rw [← hroot', this, ← pow_mul, ← pow_mul]; congr 1; ring
    have ihe := fftRec_spec tw ω N htw k (2 * tc) (evens a) (by omega) hle hN' hr'
    have iho := fftRec_spec tw ω N htw k (2 * tc) (odds a) (by omega) hlo hN' hr'
    simp only [fftRec, bitrevList, List.length_append, hbe, hbo]
    have hh : (2 ^ k + 2 ^ k) / 2 = 2 ^ k := by omega
    rw [hh, List.take_left' hbe, List.drop_left' hbe, ihe, iho]
    simp only [butterflies, List.length_map, List.length_range]
    rw [zipWith_range_right, zipWith_map_range, zipWith_map_range]
    have hpow : 2 ^ (k + 1) = 2 ^ k + 2 ^ k := by rw [pow_succ]; ring
    rw [hpow, List.range_add, List.map_append, List.map_map]
    set ζ := ω ^ tc with hζ
    have hz2 : ∀ i : Nat, (ω ^ (2 * tc)) ^ i = (ζ ^ i) * (ζ ^ i) := by
      intro i; rw [hζ, ← pow_mul, ← pow_mul, ← pow_add]; congr 1; ring
    have hts : ∀ i, i < 2 ^ k →
        (if i = 0 then horner (odds a) ((ω ^ (2 * tc)) ^ i)
          else horner (odds a) ((ω ^ (2 * tc)) ^ i) * tw.getD (i * tc) 1)
        = ζ ^ i * horner (odds a) ((ω ^ (2 * tc)) ^ i) := by
      intro i hi
      split
      · next h0 => subst h0; simp
      · have hlt : i * tc < N := by
          have h1 : i * tc < 2 ^ k * tc := Nat.mul_lt_mul_of_pos_right hi htc
          have h2 : 2 ^ (k + 1) * tc = 2 * (2 ^ k * tc) := by rw [pow_succ]; ring
          omega
        rw [htw _ hlt, hζ, ← pow_mul, ← pow_mul]
        have : ω ^ (tc * i) = ω ^ (i * tc) := by rw [Nat.mul_comm]
        rw [this]; ring
    congr 1
    · apply List.map_congr_left
      intro i hi
      have hi' : i < 2 ^ k := List.mem_range.mp hi
      rw [hts i hi', horner_even_odd a (ζ ^ i), hz2]
    · apply List.map_congr_left
      intro i hi
      have hi' : i < 2 ^ k := List.mem_range.mp hi
      simp only [Function.comp]
      rw [hts i hi', horner_even_odd a (ζ ^ (2 ^ k + i)), hz2]
      have hneg : ζ ^ (2 ^ k + i) = -(ζ ^ i) := by rw [pow_add, hroot']; ring
      rw [hneg]
      ring_nf

omit [CommRing F] in
theorem toArray_getD' (l : List F) (j : Nat) (d : F) : l.toArray.getD j d = l.getD j d := by
  simp only [Array.getD, List.getD, List.size_toArray]
  split
  · next h => simp [h]
  · next h => simp [List.getElem?_eq_none (by omega : l.length ≤ j)]

theorem twiddles_getD (ω : F) : ∀ (m : Nat) (w : F) (j : Nat), j < m →
    (twiddles ω m w).toArray.getD j 1 = w * ω ^ j
  | 0, _, _, h => by omega
  | m + 1, w, 0, _ => by simp [twiddles]
  | m + 1, w, j + 1, h => by
    have := twiddles_getD ω m (w * ω) j (by omega)
    rw [toArray_getD'] at this ⊢
    simp only [twiddles, List.getD_cons_succ]
    rw [this, pow_succ]; ring

end

end MidnightZK.C12
