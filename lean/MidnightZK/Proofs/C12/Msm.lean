import Mathlib.Tactic.Ring
import Mathlib.Tactic.Abel
import Mathlib.Tactic.Linarith
import Mathlib.Algebra.BigOperators.Group.Finset.Basic
import Mathlib.Algebra.BigOperators.Intervals
import Mathlib.Algebra.Module.Basic
import Mathlib.Algebra.Module.BigOperators
import Mathlib.Data.List.TakeWhile
import MidnightZK.Model.C12.Msm
import MidnightZK.Proofs.C12.Booth
/-! Helper lemmas for the MSM theorems of C12 (abstract additive commutative group). -/
namespace MidnightZK.C12
open MidnightZK

section
variable {G : Type} [AddCommGroup G]

/-- `Σ_k (k+1)·b_k`, recursively. -/
def wsum : List G → G
  | [] => 0
  | b :: t => b + (t.sum + wsum t)

theorem wsum_eq_finset (l : List G) :
    wsum l = ∑ k ∈ Finset.range l.length, (k + 1) • l.getD k 0 := by
  induction l with
  | nil => simp [wsum]
  | cons b t ih =>
    have hs : t.sum = ∑ k ∈ Finset.range t.length, t.getD k 0 := by
      clear ih
      induction t with
      | nil => simp
      | cons c u ihu =>
        rw [List.length_cons, Finset.sum_range_succ', List.sum_cons, ihu]
        simp [add_comm]
    rw [List.length_cons, Finset.sum_range_succ', wsum, ih, hs]
    simp only [List.getD_cons_succ, List.getD_cons_zero, zero_add, one_smul]
    rw [← Finset.sum_add_distrib]
    rw [add_comm]
    congr 1
    apply Finset.sum_congr rfl
    intro k _
    rw [add_smul (k + 1) 1, one_smul, add_comm]

theorem dblN_eq (n : Nat) (x : G) : dblN n x = (2 ^ n : Nat) • x := by
  induction n generalizing x with
  | zero => simp [dblN]
  | succ n ih => rw [dblN, ih, pow_succ, mul_smul]; simp [two_smul]

theorem sumByParts_eq (buckets : List G) (acc : G) :
    sumByParts buckets acc = acc + wsum buckets := by
  unfold sumByParts
  rw [List.foldl_reverse]
  have : ∀ l : List G, List.foldr (fun b (st : G × G) => (st.1 + b, st.2 + (st.1 + b))) (0, acc) l
      = (l.sum, acc + wsum l) := by
    intro l
    induction l with
    | nil => simp [wsum]
    | cons b t ih =>
      rw [List.foldr_cons, ih]
      simp only [List.sum_cons, wsum]
      ext
      · simp [add_comm]
      · simp; abel
  have h := this buckets
  simp only [] at h ⊢
  rw [h]

theorem sum_modify (l : List G) (j : Nat) (Q : G) (hj : j < l.length) :
    (l.modify j (· + Q)).sum = l.sum + Q := by
  induction l generalizing j with
  | nil => simp at hj
  | cons b t ih =>
    cases j with
    | zero => simp [List.modify_cons]; abel
    | succ j =>
      have : j < t.length := by simpa using hj
      simp [ih j this]; abel

theorem wsum_modify (l : List G) (j : Nat) (Q : G) (hj : j < l.length) :
    wsum (l.modify j (· + Q)) = wsum l + (j + 1) • Q := by
  induction l generalizing j with
  | nil => simp at hj
  | cons b t ih =>
    cases j with
    | zero => simp [List.modify_cons, wsum]; abel
    | succ j =>
      have hj' : j < t.length := by simpa using hj
      simp only [List.modify_cons, Nat.succ_ne_zero, if_false, wsum, Nat.add_sub_cancel]
      rw [ih j hj', sum_modify t j Q hj', add_smul (j + 1) 1 Q, one_smul]
      abel

theorem length_bucketAdd (bk : List G) (d : Int) (P : G) :
    (bucketAdd bk d P).length = bk.length := by
  unfold bucketAdd; split
  · simp
  · split <;> simp

theorem wsum_bucketAdd (bk : List G) (d : Int) (P : G) (hd : d.natAbs ≤ bk.length) :
    wsum (bucketAdd bk d P) = wsum bk + d • P := by
  unfold bucketAdd
  split
  · next h =>
    have h1 : d.toNat - 1 < bk.length := by omega
    rw [wsum_modify _ _ _ h1]
    have : d.toNat - 1 + 1 = d.toNat := by omega
    rw [this]
    congr 1
    have : (d.toNat : Int) = d := Int.toNat_of_nonneg (le_of_lt h)
    rw [← natCast_zsmul, this]
  · split
    · next h1 h =>
      have h2 : (-d).toNat - 1 < bk.length := by omega
      rw [wsum_modify _ _ _ h2]
      have : (-d).toNat - 1 + 1 = (-d).toNat := by omega
      rw [this]
      congr 1
      have : ((-d).toNat : Int) = -d := Int.toNat_of_nonneg (by omega)
      rw [← natCast_zsmul, this, neg_smul, smul_neg, neg_neg]
    · next h1 h2 =>
      have : d = 0 := by omega
      simp [this]

theorem wsum_replicate_zero (n : Nat) : wsum (List.replicate n (0 : G)) = 0 := by
  induction n with
  | zero => simp [wsum]
  | succ n ih => simp [List.replicate_succ, wsum, ih]

/-- The buckets of a window hold, weighted by their index, the digit-weighted sum of the bases. -/
theorem wsum_windowBuckets (w c : Nat) (coeffs : List (List Nat)) (bases : List G)
    (hd : ∀ co ∈ coeffs, (boothIndex w c co).natAbs ≤ 2 ^ (c - 1)) :
    wsum (windowBuckets w c coeffs bases)
      = ((coeffs.zip bases).map (fun cb => boothIndex w c cb.1 • cb.2)).sum := by
  unfold windowBuckets
  have : ∀ (L : List (List Nat × G)) (bk : List G), bk.length = 2 ^ (c - 1) →
      (∀ cb ∈ L, (boothIndex w c cb.1).natAbs ≤ 2 ^ (c - 1)) →
      wsum (L.foldl (fun bk cb => bucketAdd bk (boothIndex w c cb.1) cb.2) bk)
        = wsum bk + (L.map (fun cb => boothIndex w c cb.1 • cb.2)).sum := by
    intro L
    induction L with
    | nil => intro bk _ _; simp
    | cons x t ih =>
      intro bk hl hb
      rw [List.foldl_cons, ih _ (by rw [length_bucketAdd, hl]) (fun cb h => hb cb (by simp [h]))]
      rw [wsum_bucketAdd _ _ _ (by rw [hl]; exact hb x (by simp))]
      simp only [List.map_cons, List.sum_cons]
      abel
  rw [this _ _ (by simp) (fun cb h => hd cb.1 (List.of_mem_zip h).1), wsum_replicate_zero, zero_add]

/-- Window loop of `msm_serial`, highest window first. -/
theorem serial_fold (c : Nat) (W : Nat → G) (nw : Nat) (acc : G) :
    (List.range nw).reverse.foldl (fun acc w => (2 ^ c : Nat) • acc + W w) acc
      = (2 ^ (c * nw) : Nat) • acc + ∑ w ∈ Finset.range nw, (2 ^ (c * w) : Nat) • W w := by
  induction nw generalizing acc with
  | zero => simp
  | succ n ih =>
    rw [List.range_succ, List.reverse_append, List.reverse_singleton, List.singleton_append,
      List.foldl_cons, ih, Finset.sum_range_succ, smul_add, ← mul_smul, ← pow_add]
    have : c * n + c = c * (n + 1) := by ring
    rw [this]; abel

/-- Exchange of the window sum and the base sum. -/
theorem sum_windows_exchange (L : List (List Nat × G)) (nw : Nat) (d : Nat → List Nat → Int) (c : Nat) :
    ∑ w ∈ Finset.range nw, (2 ^ (c * w) : Nat) • (L.map (fun cb => d w cb.1 • cb.2)).sum
      = (L.map (fun cb => (∑ w ∈ Finset.range nw, d w cb.1 * (2 : Int) ^ (c * w)) • cb.2)).sum := by
  induction L with
  | nil => simp
  | cons x t ih =>
    simp only [List.map_cons, List.sum_cons, smul_add]
    rw [Finset.sum_add_distrib, ih, Finset.sum_smul]
    congr 1
    apply Finset.sum_congr rfl
    intro w _
    rw [← natCast_zsmul, ← mul_smul]
    congr 1
    push_cast
    ring

end

/-! ### byte strings -/

theorem leBytesToNat_append_zeros (a : List Nat) (n : Nat) :
    leBytesToNat (a ++ List.replicate n 0) = leBytesToNat a := by
  induction a with
  | nil =>
    induction n with
    | zero => simp [leBytesToNat]
    | succ n ih => simp [List.replicate_succ, leBytesToNat] at ih ⊢; exact ih
  | cons b t ih => simp [leBytesToNat, ih]

theorem leBytesToNat_lt (a : List Nat) (h : ∀ b ∈ a, b < 256) : leBytesToNat a < 256 ^ a.length := by
  induction a with
  | nil => simp [leBytesToNat]
  | cons b t ih =>
    have hb : b < 256 := h b (by simp)
    have := ih (fun x hx => h x (by simp [hx]))
    simp only [leBytesToNat, List.length_cons, pow_succ]
    omega

/-- A byte string is below `256^(number of bytes up to the last non-zero one)`. -/
theorem leBytesToNat_lt_trim (l : List Nat) (h : ∀ b ∈ l, b < 256) :
    leBytesToNat l < 256 ^ (l.length - (l.reverse.takeWhile (· = 0)).length) := by
  have hsplit := List.takeWhile_append_dropWhile (p := fun x => decide (x = 0)) (l := l.reverse)
  have hl : l = (l.reverse.dropWhile (· = 0)).reverse ++ (l.reverse.takeWhile (· = 0)).reverse := by
    have := congrArg List.reverse hsplit
    rw [List.reverse_append, List.reverse_reverse] at this
    exact this.symm
  have hz : (l.reverse.takeWhile (· = 0)).reverse
      = List.replicate (l.reverse.takeWhile (· = 0)).length 0 := by
    rw [List.eq_replicate_iff]
    refine ⟨by simp, ?_⟩
    intro b hb
    rw [List.mem_reverse] at hb
    have := List.mem_takeWhile_imp hb
    simpa using this
  set tz := (l.reverse.takeWhile (· = 0)).length with htz
  set a := (l.reverse.dropWhile (· = 0)).reverse with ha
  have hlen : l.length = a.length + tz := by
    conv => lhs; rw [hl]
    rw [List.length_append, hz, List.length_replicate]
  have ha256 : ∀ b ∈ a, b < 256 := by
    intro b hb
    apply h b
    rw [hl]; exact List.mem_append_left _ hb
  have hv : leBytesToNat l = leBytesToNat a := by
    conv => lhs; rw [hl, hz]
    exact leBytesToNat_append_zeros a tz
  rw [hv, hlen, Nat.add_sub_cancel]
  exact leBytesToNat_lt a ha256

theorem le_maxByteSize (coeffs : List (List Nat)) (co : List Nat) (h : co ∈ coeffs) :
    co.length - (co.reverse.takeWhile (· = 0)).length ≤ maxByteSize coeffs := by
  unfold maxByteSize
  have : ∀ (L : List (List Nat)) (m : Nat),
      m ≤ L.foldl (fun m co => max m (co.length - (co.reverse.takeWhile (· = 0)).length)) m ∧
      ∀ co ∈ L, co.length - (co.reverse.takeWhile (· = 0)).length
        ≤ L.foldl (fun m co => max m (co.length - (co.reverse.takeWhile (· = 0)).length)) m := by
    intro L
    induction L with
    | nil => intro m; simp
    | cons x t ih =>
      intro m
      rw [List.foldl_cons]
      have := ih (max m (x.length - (x.reverse.takeWhile (· = 0)).length))
      refine ⟨le_trans (le_max_left _ _) this.1, ?_⟩
      intro co hco
      rcases List.mem_cons.mp hco with rfl | hco
      · exact le_trans (le_max_right _ _) this.1
      · exact this.2 co hco
  exact (this coeffs 0).2 co h

/-! ### window size -/

theorem ceilLn_le (n : Nat) : ceilLn n ≤ 23 := by
  unfold ceilLn
  exact le_trans (List.length_filter_le _ _) (by decide)

theorem ceilLn_ge_four (n : Nat) (h : 32 ≤ n) : 4 ≤ ceilLn n := by
  unfold ceilLn
  have : expFloors = [1, 2, 7, 20] ++ expFloors.drop 4 := by decide
  rw [this, List.filter_append, List.length_append]
  have h1 : decide (1 < n) = true := by simp; omega
  have h2 : decide (2 < n) = true := by simp; omega
  have h3 : decide (7 < n) = true := by simp; omega
  have h4 : decide (20 < n) = true := by simp; omega
  simp [List.filter, h1, h2, h3, h4]

theorem chooseWindow_le (len : Nat) : chooseWindow len ≤ 23 := by
  unfold chooseWindow
  split
  · omega
  · split
    · omega
    · exact ceilLn_le _

theorem chooseWindow_pos (len : Nat) (h : len < 2 ^ 32) : 1 ≤ chooseWindow len := by
  unfold chooseWindow
  split
  · omega
  · split
    · omega
    · rw [Nat.mod_eq_of_lt h]
      have := ceilLn_ge_four len (by omega)
      omega

end MidnightZK.C12
