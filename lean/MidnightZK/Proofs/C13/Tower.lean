import Mathlib.Tactic.Ring
import Mathlib.Tactic.LinearCombination
import Mathlib.Algebra.Ring.Defs
import Mathlib.Algebra.Field.Defs
import MidnightZK.Model.C13.Tower
/-!
Helper lemmas for the tower theorems of C13: with coefficients in an arbitrary commutative ring
whose "multiply by the non-residue" is multiplication by a fixed element `ξ`, the Rust formulas
(Karatsuba products, Chung–Hasan squarings, sparse products, norm-based inverses) are the operations
of the quotient rings `α[X]/(X² − ξ)` and `α[X]/(X³ − ξ)`, and these are commutative rings again —
so the same lemmas apply at the next level of the tower.
-/
set_option linter.unusedSectionVars false
namespace MidnightZK.C13

/-- `mul_by_nonresidue` is multiplication by a fixed element `xi`. -/
class LawfulNonRes (α : Type) [CommRing α] [NonRes α] where
  xi : α
  mulNR_eq : ∀ x : α, NonRes.mulNR x = xi * x

export LawfulNonRes (xi)

section Quad
variable {α : Type}

theorem Quad.ext' {a b : Quad α} (h0 : a.c0 = b.c0) (h1 : a.c1 = b.c1) : a = b := by
  cases a; cases b; simp_all

variable [CommRing α] [NonRes α] [LawfulNonRes α]

@[simp] theorem Quad.add_c0 (a b : Quad α) : (a + b).c0 = a.c0 + b.c0 := rfl
@[simp] theorem Quad.add_c1 (a b : Quad α) : (a + b).c1 = a.c1 + b.c1 := rfl
@[simp] theorem Quad.sub_c0 (a b : Quad α) : (a - b).c0 = a.c0 - b.c0 := rfl
@[simp] theorem Quad.sub_c1 (a b : Quad α) : (a - b).c1 = a.c1 - b.c1 := rfl
@[simp] theorem Quad.neg_c0 (a : Quad α) : (-a).c0 = -a.c0 := rfl
@[simp] theorem Quad.neg_c1 (a : Quad α) : (-a).c1 = -a.c1 := rfl
@[simp] theorem Quad.zero_c0 : (0 : Quad α).c0 = 0 := rfl
@[simp] theorem Quad.zero_c1 : (0 : Quad α).c1 = 0 := rfl
@[simp] theorem Quad.one_c0 : (1 : Quad α).c0 = 1 := rfl
@[simp] theorem Quad.one_c1 : (1 : Quad α).c1 = 0 := rfl

/-- Karatsuba = schoolbook, first coefficient: `a₀b₀ + ξ·a₁b₁`. -/
@[simp] theorem Quad.mul_c0 (a b : Quad α) : (a * b).c0 = a.c0 * b.c0 + xi * (a.c1 * b.c1) := by
  show (Quad.mulK a b).c0 = _
  simp [Quad.mulK, LawfulNonRes.mulNR_eq]

/-- Karatsuba = schoolbook, second coefficient: `a₀b₁ + a₁b₀`. -/
@[simp] theorem Quad.mul_c1 (a b : Quad α) : (a * b).c1 = a.c0 * b.c1 + a.c1 * b.c0 := by
  show (Quad.mulK a b).c1 = _
  simp only [Quad.mulK]; ring

/-- `α[X]/(X² − ξ)` with the operations of `QuadExtField` is a commutative ring. -/
instance Quad.instCommRing : CommRing (Quad α) where
  add := (· + ·)
  zero := 0
  neg := Neg.neg
  sub := (· - ·)
  mul := (· * ·)
  one := 1
  nsmul := nsmulRec
  zsmul := zsmulRec
  add_assoc a b c := Quad.ext' (by simp [add_assoc]) (by simp [add_assoc])
  zero_add a := Quad.ext' (by simp) (by simp)
  add_zero a := Quad.ext' (by simp) (by simp)
  add_comm a b := Quad.ext' (by simp [add_comm]) (by simp [add_comm])
  neg_add_cancel a := Quad.ext' (by simp) (by simp)
  sub_eq_add_neg a b := Quad.ext' (by simp [sub_eq_add_neg]) (by simp [sub_eq_add_neg])
  mul_assoc a b c := Quad.ext' (by simp; ring) (by simp; ring)
  one_mul a := Quad.ext' (by simp) (by simp)
  mul_one a := Quad.ext' (by simp) (by simp)
  zero_mul a := Quad.ext' (by simp) (by simp)
  mul_zero a := Quad.ext' (by simp) (by simp)
  left_distrib a b c := Quad.ext' (by simp; ring) (by simp; ring)
  right_distrib a b c := Quad.ext' (by simp; ring) (by simp; ring)
  mul_comm a b := Quad.ext' (by simp; ring) (by simp; ring)

/-- `square_assign` (default method, complex-squaring trick) is the ring square. -/
theorem Quad.sqrK_eq (a : Quad α) : Quad.sqrK a = a * a := by
  apply Quad.ext'
  · simp [Quad.sqrK, LawfulNonRes.mulNR_eq]; ring
  · simp [Quad.sqrK]; ring

/-- `Fq2::square_assign` (override) is the ring square when the non-residue is `−1`. -/
theorem Quad.sqrComplex_eq (h : (xi : α) = -1) (a : Quad α) : Quad.sqrComplex a = a * a := by
  apply Quad.ext'
  · simp [Quad.sqrComplex, h]; ring
  · simp [Quad.sqrComplex]; ring

/-- `norm`: `c0² − ξ·c1²`. -/
theorem Quad.norm_eq (a : Quad α) : Quad.norm a = a.c0 * a.c0 - xi * (a.c1 * a.c1) := by
  simp [Quad.norm, LawfulNonRes.mulNR_eq]

/-- An element times its conjugate is its norm (embedded): the reason `Gt::neg` may conjugate
instead of inverting — on unitary elements (`norm = 1`, which holds after the easy part of the final
exponentiation) the conjugate is the inverse. -/
theorem Quad.mul_conj (a : Quad α) : a * Quad.conj a = ⟨Quad.norm a, 0⟩ := by
  apply Quad.ext'
  · simp [Quad.conj, Quad.norm_eq]; ring
  · simp [Quad.conj]; ring

theorem Quad.conj_mul (a b : Quad α) : Quad.conj (a * b) = Quad.conj a * Quad.conj b := by
  apply Quad.ext'
  · simp [Quad.conj]
  · simp [Quad.conj]; ring

/-- The norm is multiplicative and invariant under conjugation. -/
theorem Quad.norm_mul (a b : Quad α) : Quad.norm (a * b) = Quad.norm a * Quad.norm b := by
  simp only [Quad.norm_eq, Quad.mul_c0, Quad.mul_c1]; ring

theorem Quad.norm_conj (a : Quad α) : Quad.norm (Quad.conj a) = Quad.norm a := by
  simp only [Quad.norm_eq, Quad.conj]; ring

theorem Quad.norm_one : Quad.norm (1 : Quad α) = 1 := by
  simp [Quad.norm_eq]

theorem Quad.double_eq (a : Quad α) : Quad.double a = a + a := rfl

/-- `bn256/fq2.rs: mul_by_nonresidue` is multiplication by `9 + u`. -/
theorem Quad.mulNR9_eq (h : (xi : α) = -1) (a : Quad α) :
    Quad.mulNR9 a = (⟨9, 1⟩ : Quad α) * a := by
  apply Quad.ext'
  · simp [Quad.mulNR9, Quad.double, h]; ring
  · simp [Quad.mulNR9, Quad.double]; ring

/-- `bls12_381/fp2.rs: mul_by_nonresidue` is multiplication by `1 + u`. -/
theorem Quad.mulNR1_eq (h : (xi : α) = -1) (a : Quad α) :
    Quad.mulNR1 a = (⟨1, 1⟩ : Quad α) * a := by
  apply Quad.ext'
  · simp [Quad.mulNR1, h]; ring
  · simp [Quad.mulNR1]

/-- `invert`: with `t` an inverse of the norm, `(c0·t, c1·(−t))` is the inverse. -/
theorem Quad.mul_inv_of_norm (a : Quad α) (t : α) (ht : Quad.norm a * t = 1) :
    a * (⟨a.c0 * t, a.c1 * -t⟩ : Quad α) = 1 := by
  rw [Quad.norm_eq] at ht
  apply Quad.ext'
  · simp; linear_combination ht
  · simp; ring

end Quad

/-! ## Cubic extension -/
section Cubic
variable {α : Type}

theorem Cubic.ext' {a b : Cubic α} (h0 : a.c0 = b.c0) (h1 : a.c1 = b.c1) (h2 : a.c2 = b.c2) : a = b := by
  cases a; cases b; simp_all

variable [CommRing α] [NonRes α] [LawfulNonRes α]

@[simp] theorem Cubic.add_c0 (a b : Cubic α) : (a + b).c0 = a.c0 + b.c0 := rfl
@[simp] theorem Cubic.add_c1 (a b : Cubic α) : (a + b).c1 = a.c1 + b.c1 := rfl
@[simp] theorem Cubic.add_c2 (a b : Cubic α) : (a + b).c2 = a.c2 + b.c2 := rfl
@[simp] theorem Cubic.sub_c0 (a b : Cubic α) : (a - b).c0 = a.c0 - b.c0 := rfl
@[simp] theorem Cubic.sub_c1 (a b : Cubic α) : (a - b).c1 = a.c1 - b.c1 := rfl
@[simp] theorem Cubic.sub_c2 (a b : Cubic α) : (a - b).c2 = a.c2 - b.c2 := rfl
@[simp] theorem Cubic.neg_c0 (a : Cubic α) : (-a).c0 = -a.c0 := rfl
@[simp] theorem Cubic.neg_c1 (a : Cubic α) : (-a).c1 = -a.c1 := rfl
@[simp] theorem Cubic.neg_c2 (a : Cubic α) : (-a).c2 = -a.c2 := rfl
@[simp] theorem Cubic.zero_c0 : (0 : Cubic α).c0 = 0 := rfl
@[simp] theorem Cubic.zero_c1 : (0 : Cubic α).c1 = 0 := rfl
@[simp] theorem Cubic.zero_c2 : (0 : Cubic α).c2 = 0 := rfl
@[simp] theorem Cubic.one_c0 : (1 : Cubic α).c0 = 1 := rfl
@[simp] theorem Cubic.one_c1 : (1 : Cubic α).c1 = 0 := rfl
@[simp] theorem Cubic.one_c2 : (1 : Cubic α).c2 = 0 := rfl

/-- Karatsuba-style product = schoolbook product modulo `X³ − ξ`. -/
@[simp] theorem Cubic.mul_c0 (a b : Cubic α) :
    (a * b).c0 = a.c0 * b.c0 + xi * (a.c1 * b.c2 + a.c2 * b.c1) := by
  show (Cubic.mulK a b).c0 = _
  simp only [Cubic.mulK, LawfulNonRes.mulNR_eq]; ring
@[simp] theorem Cubic.mul_c1 (a b : Cubic α) :
    (a * b).c1 = a.c0 * b.c1 + a.c1 * b.c0 + xi * (a.c2 * b.c2) := by
  show (Cubic.mulK a b).c1 = _
  simp only [Cubic.mulK, LawfulNonRes.mulNR_eq]; ring
@[simp] theorem Cubic.mul_c2 (a b : Cubic α) :
    (a * b).c2 = a.c0 * b.c2 + a.c1 * b.c1 + a.c2 * b.c0 := by
  show (Cubic.mulK a b).c2 = _
  simp only [Cubic.mulK]; ring

/-- `α[X]/(X³ − ξ)` with the operations of `CubicExtField` is a commutative ring. -/
instance Cubic.instCommRing : CommRing (Cubic α) where
  add := (· + ·)
  zero := 0
  neg := Neg.neg
  sub := (· - ·)
  mul := (· * ·)
  one := 1
  nsmul := nsmulRec
  zsmul := zsmulRec
  add_assoc a b c := Cubic.ext' (by simp [add_assoc]) (by simp [add_assoc]) (by simp [add_assoc])
  zero_add a := Cubic.ext' (by simp) (by simp) (by simp)
  add_zero a := Cubic.ext' (by simp) (by simp) (by simp)
  add_comm a b := Cubic.ext' (by simp [add_comm]) (by simp [add_comm]) (by simp [add_comm])
  neg_add_cancel a := Cubic.ext' (by simp) (by simp) (by simp)
  sub_eq_add_neg a b := Cubic.ext' (by simp [sub_eq_add_neg]) (by simp [sub_eq_add_neg]) (by simp [sub_eq_add_neg])
  mul_assoc a b c := Cubic.ext' (by simp; ring) (by simp; ring) (by simp; ring)
  one_mul a := Cubic.ext' (by simp) (by simp) (by simp)
  mul_one a := Cubic.ext' (by simp) (by simp) (by simp)
  zero_mul a := Cubic.ext' (by simp) (by simp) (by simp)
  mul_zero a := Cubic.ext' (by simp) (by simp) (by simp)
  left_distrib a b c := Cubic.ext' (by simp; ring) (by simp; ring) (by simp; ring)
  right_distrib a b c := Cubic.ext' (by simp; ring) (by simp; ring) (by simp; ring)
  mul_comm a b := Cubic.ext' (by simp; ring) (by simp; ring) (by simp; ring)

/-- `Fq6 / Fp6 :: mul_by_nonresidue` (coefficient shift) is multiplication by `v = (0, 1, 0)`: the
cubic level is again a lawful level of the tower. -/
instance Cubic.instLawfulNonRes : LawfulNonRes (Cubic α) where
  xi := ⟨0, 1, 0⟩
  mulNR_eq a := by
    apply Cubic.ext' <;> simp [NonRes.mulNR, LawfulNonRes.mulNR_eq]

/-- The hand-written product of `bls12_381/fp6.rs` is the same ring product. -/
theorem Cubic.mulBls_eq (a b : Cubic α) : Cubic.mulBls a b = a * b := by
  apply Cubic.ext'
  · simp [Cubic.mulBls, LawfulNonRes.mulNR_eq]; ring
  · simp [Cubic.mulBls, LawfulNonRes.mulNR_eq]; ring
  · simp [Cubic.mulBls]; ring

/-- `square_assign` (Chung–Hasan SQR2) is the ring square. -/
theorem Cubic.sqrK_eq (a : Cubic α) : Cubic.sqrK a = a * a := by
  apply Cubic.ext'
  · simp [Cubic.sqrK, LawfulNonRes.mulNR_eq]; ring
  · simp [Cubic.sqrK, LawfulNonRes.mulNR_eq]; ring
  · simp [Cubic.sqrK]; ring

/-- `invert`: the three cofactors satisfy `a · (c0' + c1' v + c2' v²) = t` (an element of the base
ring), so scaling them by `t⁻¹` gives the inverse. -/
theorem Cubic.mul_invParts (a : Cubic α) :
    a * (⟨(Cubic.invParts a).1, (Cubic.invParts a).2.1, (Cubic.invParts a).2.2.1⟩ : Cubic α)
      = ⟨(Cubic.invParts a).2.2.2, 0, 0⟩ := by
  apply Cubic.ext'
  · simp [Cubic.invParts, LawfulNonRes.mulNR_eq]; ring
  · simp [Cubic.invParts, LawfulNonRes.mulNR_eq]; ring
  · simp [Cubic.invParts, LawfulNonRes.mulNR_eq]; ring

/-- `mul_by_1`: product with the sparse element `c1·v`. -/
theorem Cubic.mulBy1_eq (a : Cubic α) (c1 : α) : Cubic.mulBy1 a c1 = a * ⟨0, c1, 0⟩ := by
  apply Cubic.ext'
  · simp [Cubic.mulBy1, LawfulNonRes.mulNR_eq]; ring
  · simp [Cubic.mulBy1]; ring
  · simp [Cubic.mulBy1]

/-- `mul_by_01`: product with the sparse element `c0 + c1·v`. -/
theorem Cubic.mulBy01_eq (a : Cubic α) (c0 c1 : α) : Cubic.mulBy01 a c0 c1 = a * ⟨c0, c1, 0⟩ := by
  apply Cubic.ext'
  · simp [Cubic.mulBy01, LawfulNonRes.mulNR_eq]; ring
  · simp [Cubic.mulBy01]; ring
  · simp [Cubic.mulBy01]; ring

end Cubic

/-! ## Degree-12 level -/
section Tower12
variable {β : Type} [CommRing β] [NonRes β] [LawfulNonRes β]

/-- `mul_by_014`: product with the sparse element `(c0 + c1 v) + (c4 v) w`. -/
theorem mulBy014_eq (f : Tower12 β) (c0 c1 c4 : β) :
    mulBy014 f c0 c1 c4 = f * (⟨⟨c0, c1, 0⟩, ⟨0, c4, 0⟩⟩ : Tower12 β) := by
  apply Quad.ext'
  · simp only [mulBy014, Quad.mul_c0, Cubic.mulBy01_eq, Cubic.mulBy1_eq, LawfulNonRes.mulNR_eq]; ring
  · simp only [mulBy014, Quad.mul_c1, Cubic.mulBy01_eq, Cubic.mulBy1_eq]
    apply Cubic.ext' <;> simp <;> ring

/-- `mul_by_034`: product with the sparse element `c0 + (c3 + c4 v) w` — the shape of a line
function value of the Miller loop. -/
theorem mulBy034_eq (f : Tower12 β) (c0 c3 c4 : β) :
    mulBy034 f c0 c3 c4 = f * (⟨⟨c0, 0, 0⟩, ⟨c3, c4, 0⟩⟩ : Tower12 β) := by
  apply Quad.ext'
  · simp only [mulBy034, Quad.mul_c0, Cubic.mulBy01_eq, LawfulNonRes.mulNR_eq]
    apply Cubic.ext' <;> simp
  · simp only [mulBy034, Quad.mul_c1, Cubic.mulBy01_eq]
    apply Cubic.ext' <;> simp <;> ring

end Tower12

end MidnightZK.C13
