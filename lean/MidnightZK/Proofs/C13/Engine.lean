import Mathlib.Tactic.Ring
import Mathlib.Tactic.Abel
import Mathlib.Tactic.Linarith
import Mathlib.Tactic.IntervalCases
import Mathlib.Algebra.BigOperators.Group.List.Basic
import Mathlib.Algebra.Group.Hom.Defs
import Mathlib.Algebra.Module.Basic
import Mathlib.Data.ZMod.Basic
import MidnightZK.Model.C13.Engine
import MidnightZK.Model.C13.Tower
/-!
The abstract pairing (bilinearity and non-degeneracy are *fields*, i.e. hypotheses about blst's and
the BN254 code's Miller loop + final exponentiation) and the lemmas about the list-level code around
it: `multi_miller_loop`, `DualMSM::check`, the double-and-add of `Gt`.
-/
set_option linter.unusedSectionVars false
namespace MidnightZK.C13

/-- A bilinear, non-degenerate map `G1 × G2 → GT` (source groups additive, target multiplicative —
the Rust `Gt` type writes the target additively over the multiplication of `Fp12`). -/
structure Pairing (G1 G2 GT : Type) [AddCommGroup G1] [AddCommGroup G2] [CommGroup GT] where
  e : G1 → G2 → GT
  map_add_left : ∀ P P' Q, e (P + P') Q = e P Q * e P' Q
  map_add_right : ∀ P Q Q', e P (Q + Q') = e P Q * e P Q'
  nondegenerate : ∀ P Q, e P Q = 1 ↔ P = 0 ∨ Q = 0

/-- A pairing computed as Miller loop followed by final exponentiation: the Miller values live in a
commutative monoid `M` (the multiplicative monoid of `Fp12`), `finalExp` is a monoid homomorphism
(`f ↦ f^((p¹²−1)/r)`), and on non-identity points the composition is the pairing. -/
structure MillerEngine (G1 G2 M GT : Type) [AddCommGroup G1] [AddCommGroup G2] [CommMonoid M]
    [CommGroup GT] extends Pairing G1 G2 GT where
  miller : G1 → G2 → M
  finalExp : M →* GT
  finalExp_miller : ∀ P Q, P ≠ 0 → Q ≠ 0 → finalExp (miller P Q) = e P Q

section Pairing
variable {G1 G2 GT : Type} [AddCommGroup G1] [AddCommGroup G2] [CommGroup GT] (E : Pairing G1 G2 GT)

theorem Pairing.zero_left (Q : G2) : E.e 0 Q = 1 := (E.nondegenerate 0 Q).2 (Or.inl rfl)
theorem Pairing.zero_right (P : G1) : E.e P 0 = 1 := (E.nondegenerate P 0).2 (Or.inr rfl)

theorem Pairing.neg_left (P : G1) (Q : G2) : E.e (-P) Q = (E.e P Q)⁻¹ := by
  have h := E.map_add_left (-P) P Q
  rw [neg_add_cancel, E.zero_left] at h
  exact eq_inv_of_mul_eq_one_left h.symm

theorem Pairing.neg_right (P : G1) (Q : G2) : E.e P (-Q) = (E.e P Q)⁻¹ := by
  have h := E.map_add_right P (-Q) Q
  rw [neg_add_cancel, E.zero_right] at h
  exact eq_inv_of_mul_eq_one_left h.symm

theorem Pairing.nsmul_left (n : ℕ) (P : G1) (Q : G2) : E.e (n • P) Q = E.e P Q ^ n := by
  induction n with
  | zero => simp [E.zero_left]
  | succ k ih => rw [succ_nsmul, E.map_add_left, ih, pow_succ]

theorem Pairing.nsmul_right (n : ℕ) (P : G1) (Q : G2) : E.e P (n • Q) = E.e P Q ^ n := by
  induction n with
  | zero => simp [E.zero_right]
  | succ k ih => rw [succ_nsmul, E.map_add_right, ih, pow_succ]

theorem Pairing.zsmul_left (n : ℤ) (P : G1) (Q : G2) : E.e (n • P) Q = E.e P Q ^ n := by
  cases n with
  | ofNat k => simp [E.nsmul_left]
  | negSucc k => simp [negSucc_zsmul, E.neg_left, E.nsmul_left]

theorem Pairing.zsmul_right (n : ℤ) (P : G1) (Q : G2) : E.e P (n • Q) = E.e P Q ^ n := by
  cases n with
  | ofNat k => simp [E.nsmul_right]
  | negSucc k => simp [negSucc_zsmul, E.neg_right, E.nsmul_right]

end Pairing

/-! ## `multi_miller_loop` -/
section MML
variable {P Q M : Type} [CommMonoid M]

/-- The value a pair contributes to the BLS loop. -/
def mmlTerm (isIdP : P → Bool) (isIdQ : Q → Bool) (miller : P → Q → M) (t : P × Q) : M :=
  if isIdP t.1 || isIdQ t.2 then 1 else miller t.1 t.2

theorem mmlGo_pos (isIdP : P → Bool) (isIdQ : Q → Bool) (miller : P → Q → M) :
    ∀ (ts : List (P × Q)) (i : Nat) (res : M), 0 < i →
      multiMillerLoopBlsGo isIdP isIdQ miller ts i res
        = res * (ts.map (mmlTerm isIdP isIdQ miller)).prod := by
  intro ts
  induction ts with
  | nil => intro i res _; simp [multiMillerLoopBlsGo]
  | cons t ts ih =>
    intro i res hi
    obtain ⟨p, q⟩ := t
    have hne : i ≠ 0 := Nat.pos_iff_ne_zero.mp hi
    simp only [multiMillerLoopBlsGo, hne, if_false, List.map_cons, List.prod_cons]
    rw [ih (i + 1) _ (Nat.succ_pos i)]
    simp only [mmlTerm, mul_assoc]

/-- The loop of `bls12_381/mod.rs: multi_miller_loop` computes the product of the per-pair values
(one for pairs with an identity), for every list — including the empty one, where the result is
the initial `blst_fp12::default()` = one. -/
theorem multiMillerLoopBls_eq_prod (isIdP : P → Bool) (isIdQ : Q → Bool) (miller : P → Q → M)
    (ts : List (P × Q)) :
    multiMillerLoopBls isIdP isIdQ miller ts = (ts.map (mmlTerm isIdP isIdQ miller)).prod := by
  unfold multiMillerLoopBls
  cases ts with
  | nil => simp [multiMillerLoopBlsGo]
  | cons t ts =>
    obtain ⟨p, q⟩ := t
    simp only [multiMillerLoopBlsGo, if_true, List.map_cons, List.prod_cons]
    rw [mmlGo_pos _ _ _ ts 1 _ Nat.one_pos]
    simp only [mmlTerm]

end MML

/-! ## `Gt` scalar multiplication -/
section GtMul
variable {γ : Type} [Monoid γ]

/-- Value of a bit string, most significant bit first. -/
def bitsVal (l : List Bool) : Nat := l.foldl (fun acc b => 2 * acc + (if b then 1 else 0)) 0

theorem foldl_dblAdd (x : γ) : ∀ (l : List Bool) (acc : γ) (n : Nat), acc = x ^ n →
    l.foldl (fun acc b => let acc := acc * acc; if b then acc * x else acc) acc
      = x ^ (l.foldl (fun acc b => 2 * acc + (if b then 1 else 0)) n) := by
  intro l
  induction l with
  | nil => intro acc n h; simpa using h
  | cons b bs ih =>
    intro acc n h
    simp only [List.foldl_cons]
    apply ih
    subst h
    cases b
    · simp [← pow_add, two_mul]
    · simp [← pow_add, two_mul, pow_succ]

/-- Double-and-add over a bit string (MSB first) is exponentiation by its value. -/
theorem gtMulBits_eq_pow (x : γ) (bytes : List Nat) :
    gtMulBits (· * ·) (fun a => a * a) 1 x bytes = x ^ bitsVal ((bitsOfBytesBE bytes).drop 1) := by
  unfold gtMulBits bitsVal
  exact foldl_dblAdd x _ 1 0 (by simp)

/-- Value of a big-endian byte string. -/
def beValue (bytes : List Nat) : Nat := bytes.foldl (fun acc b => 256 * acc + b) 0

theorem foldl_bits_lin : ∀ (l : List Bool) (n : Nat),
    l.foldl (fun acc b => 2 * acc + (if b then 1 else 0)) n
      = 2 ^ l.length * n + l.foldl (fun acc b => 2 * acc + (if b then 1 else 0)) 0 := by
  intro l
  induction l with
  | nil => intro n; simp
  | cons b bs ih =>
    intro n
    simp only [List.foldl_cons, List.length_cons]
    rw [ih (2 * n + _), ih (2 * 0 + _)]
    ring

theorem bits8_zero : ∀ byte < 256,
    ((List.range 8).reverse.map (fun i => decide ((byte >>> i) % 2 = 1))).foldl
        (fun acc b => 2 * acc + (if b then 1 else 0)) 0 = byte := by
  decide +kernel

theorem bits8_foldl (byte n : Nat) (h : byte < 256) :
    ((List.range 8).reverse.map (fun i => decide ((byte >>> i) % 2 = 1))).foldl
        (fun acc b => 2 * acc + (if b then 1 else 0)) n = 256 * n + byte := by
  rw [foldl_bits_lin, bits8_zero byte h]
  simp

theorem bitsVal_bytes_aux : ∀ (bytes : List Nat) (n : Nat), (∀ b ∈ bytes, b < 256) →
    (bitsOfBytesBE bytes).foldl (fun acc b => 2 * acc + (if b then 1 else 0)) n
      = bytes.foldl (fun acc b => 256 * acc + b) n := by
  intro bytes
  induction bytes with
  | nil => intro n _; simp [bitsOfBytesBE]
  | cons b bs ih =>
    intro n h
    have hb : b < 256 := h b (by simp)
    have hbs : ∀ c ∈ bs, c < 256 := fun c hc => h c (by simp [hc])
    have : bitsOfBytesBE (b :: bs)
        = (List.range 8).reverse.map (fun i => decide ((b >>> i) % 2 = 1)) ++ bitsOfBytesBE bs := by
      simp [bitsOfBytesBE]
    rw [this, List.foldl_append, bits8_foldl b n hb, List.foldl_cons]
    exact ih _ hbs

/-- The bits of a byte string (each byte `< 256`) have the value of the byte string. -/
theorem bitsVal_bitsOfBytesBE (bytes : List Nat) (h : ∀ b ∈ bytes, b < 256) :
    bitsVal (bitsOfBytesBE bytes) = beValue bytes :=
  bitsVal_bytes_aux bytes 0 h

/-- Skipping the leading bit loses nothing when the first byte is below `0x80`. -/
theorem bitsVal_drop_one (bytes : List Nat) (h0 : ∀ b rest, bytes = b :: rest → b < 128) :
    bitsVal ((bitsOfBytesBE bytes).drop 1) = bitsVal (bitsOfBytesBE bytes) := by
  cases bytes with
  | nil => simp [bitsOfBytesBE]
  | cons b bs =>
    have hb : b < 128 := h0 b bs rfl
    have hr : (List.range 8).reverse = [7, 6, 5, 4, 3, 2, 1, 0] := by decide
    have h7 : decide ((b >>> 7) % 2 = 1) = false := by
      rw [Nat.shiftRight_eq_div_pow]
      simp only [decide_eq_false_iff_not, Nat.reducePow]; omega
    have hsplit : bitsOfBytesBE (b :: bs) = decide ((b >>> 7) % 2 = 1) ::
        (([6, 5, 4, 3, 2, 1, 0].map (fun i => decide ((b >>> i) % 2 = 1))) ++ bitsOfBytesBE bs) := by
      simp only [bitsOfBytesBE, List.flatMap_cons, hr, List.map_cons, List.cons_append]
    rw [hsplit, h7]
    simp only [bitsVal, List.drop_succ_cons, List.drop_zero, List.foldl_cons]
    rfl

end GtMul

/-! ## `powBits` is exponentiation -/
section PowBits
variable {γ : Type} [Monoid γ]

theorem bitsVal_testBits : ∀ (n e : Nat), e < 2 ^ n →
    bitsVal ((List.range n).reverse.map (fun i => e.testBit i)) = e := by
  intro n
  induction n with
  | zero => intro e he; simp at he; subst he; rfl
  | succ n ih =>
    intro e he
    rw [List.range_succ, List.reverse_append, List.reverse_singleton, List.singleton_append,
      List.map_cons]
    unfold bitsVal
    rw [List.foldl_cons, foldl_bits_lin]
    have hmap : (List.range n).reverse.map (fun i => e.testBit i)
        = (List.range n).reverse.map (fun i => (e % 2 ^ n).testBit i) := by
      apply List.map_congr_left
      intro i hi
      have hi' : i < n := by simpa using hi
      simp [Nat.testBit_mod_two_pow, hi']
    have ih' := ih (e % 2 ^ n) (Nat.mod_lt _ (Nat.two_pow_pos n))
    unfold bitsVal at ih'
    rw [hmap, ih']
    simp only [List.length_map, List.length_reverse, List.length_range, Nat.testBit_eq_decide_div_mod_eq]
    have hq : e / 2 ^ n < 2 := by
      rw [Nat.div_lt_iff_lt_mul (Nat.two_pow_pos n)]
      calc e < 2 ^ (n + 1) := he
        _ = 2 * 2 ^ n := by rw [Nat.pow_succ]; ring
    have hdm := Nat.div_add_mod e (2 ^ n)
    rcases Nat.lt_succ_iff.mp hq with h
    interval_cases hq' : e / 2 ^ n
    · simp; omega
    · simp; omega

/-- Left-to-right square-and-multiply over the bits of `e` is `x ^ e`, in every monoid: the
exponentiations appearing in the constant theorems and in the driver (`f^r`, `ξ^((pⁱ−1)/6)`,
`f^((p¹²−1)/r)`) are powers in the mathematical sense. -/
theorem powBits_eq_pow (x : γ) (e : Nat) : powBits (· * ·) 1 x e = x ^ e := by
  unfold powBits
  rw [foldl_dblAdd x (bitsMsb e) 1 0 (by simp)]
  congr 1
  unfold bitsMsb
  split
  · next h => subst h; rfl
  · exact bitsVal_testBits _ e Nat.lt_log2_self

end PowBits

/-! ## MSM evaluation and `DualMSM::check` -/
section Dual
variable {S G : Type} [CommRing S] [DecidableEq S] [AddCommGroup G] [Module S G]

/-- The naive definition `Σ sᵢ • Bᵢ`. -/
def msmSum (scalars : List S) (bases : List G) : G :=
  ((scalars.zip bases).map (fun t => t.1 • t.2)).sum

theorem foldl_add_eq_sum (f : S × G → G) : ∀ (l : List (S × G)) (a : G),
    l.foldl (fun acc t => acc + f t) a = a + (l.map f).sum := by
  intro l
  induction l with
  | nil => intro a; simp
  | cons t ts ih => intro a; simp [ih, add_assoc]

theorem sum_filter_ne_zero : ∀ (l : List (S × G)),
    ((l.filter (fun t => decide (t.1 ≠ 0))).map (fun t => t.1 • t.2)).sum
      = (l.map (fun t => t.1 • t.2)).sum := by
  intro l
  induction l with
  | nil => simp
  | cons t ts ih =>
    obtain ⟨s, b⟩ := t
    by_cases h : s = 0
    · subst h; simpa [List.filter_cons] using ih
    · simpa [List.filter_cons, h] using ih

/-- `msm_specific` (zero filter, empty short-cut, then the plain sum) is `Σ sᵢ • Bᵢ`. -/
theorem msmSpecific_eq (scalars : List S) (bases : List G) :
    msmSpecific (fun s b => s • b) scalars bases = msmSum scalars bases := by
  unfold msmSpecific msmSum
  simp only
  split
  · next h =>
    rw [← sum_filter_ne_zero]
    rw [List.isEmpty_iff] at h
    rw [h]; simp
  · rw [foldl_add_eq_sum, zero_add, sum_filter_ne_zero]

/-- `MSMKZG::eval` with its `[1]` short-cut is `Σ sᵢ • Bᵢ` whenever there are as many bases as
scalars (which `append_term` / `add_msm` / `from_base` guarantee). -/
theorem msmEval_eq (scalars : List S) (bases : List G) (hlen : scalars.length = bases.length) :
    msmEval (fun s b => s • b) scalars bases = some (msmSum scalars bases) := by
  unfold msmEval
  split
  · next h =>
    subst h
    match bases, hlen with
    | [b], _ => simp [msmSum]
  · rw [msmSpecific_eq]

theorem dualLeft_eq (scalars : List S) (bases : List G) (hlen : scalars.length = bases.length) :
    dualLeft (fun s b => s • b) scalars bases = some (msmSum scalars bases) := by
  rw [← msmEval_eq scalars bases hlen]
  unfold dualLeft
  split
  · next s =>
    by_cases h1 : s = 1
    · subst h1; simp [msmEval]
    · simp [h1]
  · rfl

end Dual

end MidnightZK.C13
