import Mathlib.Tactic.Ring
import MidnightZK.Model.C13.BnPairing
/-!
The doubling and addition steps of the BN254 Miller loop (`curves/src/derive/pairing.rs: double,
add`) over an arbitrary commutative ring: the accumulator update is the standard Jacobian doubling /
mixed addition for `a = 0`, and the three coefficients handed to `ell` are the tangent / chord line
through the accumulator, scaled by an element of the twist's coefficient field.
-/
namespace MidnightZK.C13.Bn
variable {β : Type} [CommRing β]

/-- `double`: new accumulator = Jacobian doubling (`dbl-2009-l`, `a = 0`):
`X' = 9X⁴ − 8XY²`, `Z' = 2YZ`, `Y' = 3X²(4XY² − X') − 8Y⁴`. -/
theorem doubleCoeffs_point (X Y Z : β) :
    (doubleCoeffs (fun x => x * x) X Y Z).1
      = (9 * X ^ 4 - 8 * X * Y ^ 2, 3 * X ^ 2 * (4 * X * Y ^ 2 - (9 * X ^ 4 - 8 * X * Y ^ 2)) - 8 * Y ^ 4,
         2 * Y * Z) := by
  simp only [doubleCoeffs, Prod.mk.injEq]
  refine ⟨by ring, by ring, by ring⟩

/-- `double`: the line coefficients `(c0, c1, c2)` satisfy, for the accumulator
`(X, Y, Z) = (x_T Z², y_T Z³, Z)` and any `(x_P, y_P)`:
`c0·y_P + c1·x_P + c2 = 2Z⁶ · (2y_T (y_P − y_T) − 3x_T² (x_P − x_T))`, i.e. `4 y_T Z⁶` times the tangent
line at `T` evaluated at `P`. -/
theorem doubleCoeffs_line (xT yT Z xP yP : β) :
    let c := (doubleCoeffs (fun x => x * x) (xT * Z ^ 2) (yT * Z ^ 3) Z).2
    c.1 * yP + c.2.1 * xP + c.2.2
      = 2 * Z ^ 6 * (2 * yT * (yP - yT) - 3 * xT ^ 2 * (xP - xT)) := by
  simp only [doubleCoeffs]
  ring

/-- `add`: new accumulator = mixed Jacobian addition (`madd-2007-bl`): with `H = q_x Z² − X`,
`rr = 2(q_y Z³ − Y)`, `V = 4XH²`, `J = 4H³`: `X' = rr² − J − 2V`, `Y' = rr(V − X') − 2YJ`, `Z' = 2ZH`. -/
theorem addCoeffs_point (X Y Z qx qy : β) :
    (addCoeffs (fun x => x * x) X Y Z qx qy).1
      = (let H := qx * Z ^ 2 - X
         let rr := 2 * (qy * Z ^ 3 - Y)
         let V := 4 * X * H ^ 2
         let J := 4 * H ^ 3
         (rr ^ 2 - J - 2 * V, rr * (V - (rr ^ 2 - J - 2 * V)) - 2 * Y * J, 2 * Z * H)) := by
  simp only [addCoeffs, Prod.mk.injEq]
  refine ⟨by ring, by ring, by ring⟩

/-- `add`: the line coefficients are the chord through `Q = (q_x, q_y)` with slope `rr / Z'`
(`= (q_y − y_T)/(q_x − x_T)`), scaled by `2Z'`:
`c0·y_P + c1·x_P + c2 = 2·(Z'·(y_P − q_y) − rr·(x_P − q_x))`. -/
theorem addCoeffs_line (X Y Z qx qy xP yP : β) :
    let c := (addCoeffs (fun x => x * x) X Y Z qx qy).2
    c.1 * yP + c.2.1 * xP + c.2.2
      = 2 * ((2 * Z * (qx * Z ^ 2 - X)) * (yP - qy) - (2 * (qy * Z ^ 3 - Y)) * (xP - qx)) := by
  simp only [addCoeffs]
  ring

end MidnightZK.C13.Bn
