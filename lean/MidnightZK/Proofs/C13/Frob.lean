import MidnightZK.Proofs.C13.Tower
/-!
The Frobenius maps of the towers (`fp2.rs / fp6.rs / fp12.rs / fq2.rs / fq6.rs / fq12.rs:
frobenius_map`) are *ring endomorphisms* level by level: the code applies the map of the level
below to every coefficient and multiplies the coefficient of `Xⁱ` by a table entry `γᵢ`. Over an
arbitrary commutative ring this is a ring endomorphism as soon as the map below is one and the
table entries satisfy

* quadratic level `X² = ξ`:   `γ²·ξ = φ(ξ)`;
* cubic level `X³ = ξ`:       `γ₁³·ξ = φ(ξ)` and `γ₂ = γ₁²`.

(For `φ = (·)^(p^k)` and `γ = ξ^((p^k−1)/d)` these are `ξ^(p^k) = ξ·ξ^(p^k−1)`.) The relations are
re-checked on the constants parsed from the sources in `Proofs/C13/Consts.lean`.
-/
set_option linter.unusedSectionVars false
namespace MidnightZK.C13

/-- A map that preserves `0, 1, +, *` (a ring endomorphism, unbundled). -/
structure RingEndo {α : Type} [CommRing α] (φ : α → α) : Prop where
  map_zero : φ 0 = 0
  map_one : φ 1 = 1
  map_add : ∀ x y, φ (x + y) = φ x + φ y
  map_mul : ∀ x y, φ (x * y) = φ x * φ y

theorem RingEndo.id {α : Type} [CommRing α] : RingEndo (fun x : α => x) :=
  ⟨rfl, rfl, fun _ _ => rfl, fun _ _ => rfl⟩

theorem RingEndo.comp {α : Type} [CommRing α] {φ ψ : α → α} (hφ : RingEndo φ) (hψ : RingEndo ψ) :
    RingEndo (fun x => φ (ψ x)) :=
  ⟨by simp [hψ.map_zero, hφ.map_zero], by simp [hψ.map_one, hφ.map_one],
   fun x y => by simp [hψ.map_add, hφ.map_add], fun x y => by simp [hψ.map_mul, hφ.map_mul]⟩

/-- Shape of `frobenius_map` at a quadratic level: `(c0, c1) ↦ (φ c0, φ c1 · γ)`. -/
def Quad.frobWith {α : Type} [Mul α] (φ : α → α) (γ : α) (a : Quad α) : Quad α := ⟨φ a.c0, φ a.c1 * γ⟩

/-- Shape of `frobenius_map` at a cubic level: `(c0, c1, c2) ↦ (φ c0, φ c1 · γ₁, φ c2 · γ₂)`. -/
def Cubic.frobWith {α : Type} [Mul α] (φ : α → α) (γ₁ γ₂ : α) (a : Cubic α) : Cubic α :=
  ⟨φ a.c0, φ a.c1 * γ₁, φ a.c2 * γ₂⟩

section
variable {α : Type} [CommRing α] [NonRes α] [LawfulNonRes α]

/-- Quadratic level: a twisted coefficientwise map is a ring endomorphism when `γ²·ξ = φ(ξ)`. -/
theorem Quad.frobWith_ringEndo {φ : α → α} (hφ : RingEndo φ) (γ : α) (hγ : γ * γ * xi = φ xi) :
    RingEndo (Quad.frobWith φ γ) where
  map_zero := by apply Quad.ext' <;> simp [Quad.frobWith, hφ.map_zero]
  map_one := by apply Quad.ext' <;> simp [Quad.frobWith, hφ.map_zero, hφ.map_one]
  map_add x y := by
    apply Quad.ext'
    · simp [Quad.frobWith, hφ.map_add]
    · simp [Quad.frobWith, hφ.map_add]; ring
  map_mul x y := by
    apply Quad.ext'
    · simp only [Quad.frobWith, Quad.mul_c0, hφ.map_add, hφ.map_mul]
      linear_combination (-(φ x.c1 * φ y.c1)) * hγ
    · simp only [Quad.frobWith, Quad.mul_c1, hφ.map_add, hφ.map_mul]; ring

/-- Cubic level: a twisted coefficientwise map is a ring endomorphism when `γ₁³·ξ = φ(ξ)` and
`γ₂ = γ₁²`. -/
theorem Cubic.frobWith_ringEndo {φ : α → α} (hφ : RingEndo φ) (γ₁ γ₂ : α)
    (h1 : γ₁ * γ₁ * γ₁ * xi = φ xi) (h2 : γ₂ = γ₁ * γ₁) :
    RingEndo (Cubic.frobWith φ γ₁ γ₂) where
  map_zero := by apply Cubic.ext' <;> simp [Cubic.frobWith, hφ.map_zero]
  map_one := by apply Cubic.ext' <;> simp [Cubic.frobWith, hφ.map_zero, hφ.map_one]
  map_add x y := by
    apply Cubic.ext'
    · simp [Cubic.frobWith, hφ.map_add]
    · simp [Cubic.frobWith, hφ.map_add]; ring
    · simp [Cubic.frobWith, hφ.map_add]; ring
  map_mul x y := by
    subst h2
    apply Cubic.ext'
    · simp only [Cubic.frobWith, Cubic.mul_c0, hφ.map_add, hφ.map_mul]
      linear_combination (-(φ x.c1 * φ y.c2 + φ x.c2 * φ y.c1)) * h1
    · simp only [Cubic.frobWith, Cubic.mul_c1, hφ.map_add, hφ.map_mul]
      linear_combination (-(φ x.c2 * φ y.c2 * γ₁)) * h1
    · simp only [Cubic.frobWith, Cubic.mul_c2, hφ.map_add, hφ.map_mul]; ring

/-- `fq2.rs: frobenius_map` for odd powers: conjugation is a ring endomorphism of every quadratic
level (whatever `ξ`). -/
theorem Quad.conj_ringEndo : RingEndo (Quad.conj : Quad α → Quad α) where
  map_zero := by apply Quad.ext' <;> simp [Quad.conj]
  map_one := by apply Quad.ext' <;> simp [Quad.conj]
  map_add x y := by
    apply Quad.ext'
    · simp [Quad.conj]
    · simp [Quad.conj]; ring
  map_mul x y := Quad.conj_mul x y

/-- `Cubic.scale` (the three `blst_fp2_mul` / `Fq2` multiplications of `fp12.rs / fq12.rs:
frobenius_map`) is multiplication by the embedded coefficient. -/
theorem Cubic.scale_eq (a : Cubic α) (k : α) : Cubic.scale a k = a * (⟨k, 0, 0⟩ : Cubic α) := by
  apply Cubic.ext' <;> simp [Cubic.scale]

end

/-! ## The model's `Frob` instances -/
section
variable {β : Type} [CommRing β] [NonRes β] [LawfulNonRes β] [Frob β] [FrobCoeffs β]

theorem Cubic.frob_eq_frobWith (k : Nat) (a : Cubic β) :
    Frob.frob k a = Cubic.frobWith (Frob.frob k) (FrobCoeffs.c6c1 (k % 6)) (FrobCoeffs.c6c2 (k % 6)) a := rfl

theorem Tower12.frob_eq_frobWith (k : Nat) (a : Tower12 β) :
    Frob.frob k a = Quad.frobWith (Frob.frob k) (⟨FrobCoeffs.c12c1 (k % 12), 0, 0⟩ : Cubic β) a := by
  show (⟨Frob.frob k a.c0, Cubic.scale (Frob.frob k a.c1) (FrobCoeffs.c12c1 (k % 12))⟩ : Tower12 β) = _
  rw [Cubic.scale_eq]; rfl

/-- `fp6.rs / fq6.rs: frobenius_map(k)` is a ring endomorphism of the cubic level when the `Fp2`
map below is one and `C1[k%6]³·ξ = frob_k(ξ)`, `C2[k%6] = C1[k%6]²`. -/
theorem Cubic.frob_ringEndo (k : Nat) (hφ : RingEndo (Frob.frob k : β → β))
    (h1 : FrobCoeffs.c6c1 (k % 6) * FrobCoeffs.c6c1 (k % 6) * FrobCoeffs.c6c1 (k % 6) * (xi : β)
            = Frob.frob k (xi : β))
    (h2 : (FrobCoeffs.c6c2 (k % 6) : β) = FrobCoeffs.c6c1 (k % 6) * FrobCoeffs.c6c1 (k % 6)) :
    RingEndo (Frob.frob k : Cubic β → Cubic β) := by
  have h := Cubic.frobWith_ringEndo hφ _ _ h1 h2
  exact ⟨h.map_zero, h.map_one, h.map_add, h.map_mul⟩

/-- `fp12.rs / fq12.rs: frobenius_map(k)` is a ring endomorphism of the degree-12 level when
moreover `C12[k%12]² = C1[k%6]` (so that `(γ·w)² = frob_k(v)`). -/
theorem Tower12.frob_ringEndo (k : Nat) (hφ : RingEndo (Frob.frob k : β → β))
    (h1 : FrobCoeffs.c6c1 (k % 6) * FrobCoeffs.c6c1 (k % 6) * FrobCoeffs.c6c1 (k % 6) * (xi : β)
            = Frob.frob k (xi : β))
    (h2 : (FrobCoeffs.c6c2 (k % 6) : β) = FrobCoeffs.c6c1 (k % 6) * FrobCoeffs.c6c1 (k % 6))
    (h3 : (FrobCoeffs.c12c1 (k % 12) : β) * FrobCoeffs.c12c1 (k % 12) = FrobCoeffs.c6c1 (k % 6)) :
    RingEndo (Frob.frob k : Tower12 β → Tower12 β) := by
  have hc := Cubic.frob_ringEndo k hφ h1 h2
  have hγ : (⟨FrobCoeffs.c12c1 (k % 12), 0, 0⟩ : Cubic β) * ⟨FrobCoeffs.c12c1 (k % 12), 0, 0⟩ * (xi : Cubic β)
      = Frob.frob k (xi : Cubic β) := by
    show _ * _ * (⟨0, 1, 0⟩ : Cubic β) = Frob.frob k (⟨0, 1, 0⟩ : Cubic β)
    rw [Cubic.frob_eq_frobWith]
    apply Cubic.ext' <;> simp [Cubic.frobWith, hφ.map_zero, hφ.map_one, h3]
  have h := Quad.frobWith_ringEndo hc _ hγ
  have e : (Frob.frob k : Tower12 β → Tower12 β)
      = Quad.frobWith (Frob.frob k) (⟨FrobCoeffs.c12c1 (k % 12), 0, 0⟩ : Cubic β) := by
    funext a; exact Tower12.frob_eq_frobWith k a
  rw [e]; exact h

end

end MidnightZK.C13
