import MidnightZK.Model.C13.Curves
import MidnightZK.Model.C13.Ate
import MidnightZK.Model.C13.BnPairing
/-!
Kernel-evaluated checks of the generated constants of C13 (`Gen/C13Consts.lean`, re-parsed from the
Rust sources on every run): every Frobenius coefficient satisfies its defining equation
`ξ^((pⁱ − 1)/k)`, Montgomery forms convert as claimed, the curve families' polynomial identities
hold, the target-group generator has order dividing `r`. Split into small theorems so that each
evaluation stays short.
-/
set_option maxRecDepth 100000
namespace MidnightZK.C13.Consts
open MidnightZK MidnightZK.C13 MidnightZK.C13.Gen

/-- The sextic-twist non-residue of BN254, `ξ = 9 + u` (`Fq2::NON_RESIDUE`). -/
def bnXi : BnFq2 := ⟨⟨9⟩, ⟨1⟩⟩
/-- The non-residue of BLS12-381, `ξ = 1 + u`. -/
def blsXi : BlsFp2 := ⟨⟨1⟩, ⟨1⟩⟩

def fq2Pow {m : Nat} [NonRes (Zn m)] (a : Quad (Zn m)) (e : Nat) : Quad (Zn m) := powBits (· * ·) 1 a e

/-- `value · 2^bits mod p = Montgomery limbs` for a list of `Fp2` constants. -/
def montOk (p bits : Nat) (vals monts : List (Nat × Nat)) : Bool :=
  vals.length == monts.length &&
  (vals.zip monts).all (fun vm => vm.1.1 * 2 ^ bits % p == vm.2.1 && vm.1.2 * 2 ^ bits % p == vm.2.2
    && vm.1.1 < p && vm.1.2 < p)

/-! ### BN254 -/
theorem bn_mont_ok : montOk bnP 256 bnFrob6C1 bnFrob6C1Mont && montOk bnP 256 bnFrob6C2 bnFrob6C2Mont
    && montOk bnP 256 bnFrob12C1 bnFrob12C1Mont && montOk bnP 256 bnXiToQm1Over2 bnXiToQm1Over2Mont = true := by
  decide +kernel

theorem bn_frob6c1 : (List.range 6).all (fun i => (FrobCoeffs.c6c1 i : BnFq2) = fq2Pow bnXi ((bnP ^ i - 1) / 3)) = true := by
  decide +kernel
theorem bn_frob6c2 : (List.range 6).all (fun i => (FrobCoeffs.c6c2 i : BnFq2) = fq2Pow bnXi ((2 * bnP ^ i - 2) / 3)) = true := by
  decide +kernel
theorem bn_frob12c1_a : (List.range 5).all (fun i => (FrobCoeffs.c12c1 i : BnFq2) = fq2Pow bnXi ((bnP ^ i - 1) / 6)) = true := by
  decide +kernel
theorem bn_frob12c1_b : [5, 6, 7, 8].all (fun i => (FrobCoeffs.c12c1 i : BnFq2) = fq2Pow bnXi ((bnP ^ i - 1) / 6)) = true := by
  decide +kernel
theorem bn_frob12c1_c : [9, 10, 11].all (fun i => (FrobCoeffs.c12c1 i : BnFq2) = fq2Pow bnXi ((bnP ^ i - 1) / 6)) = true := by
  decide +kernel
theorem bn_lengths : bnFrob6C1.length = 6 ∧ bnFrob6C2.length = 6 ∧ bnFrob12C1.length = 12 ∧ bnNaf.length = 65 := by
  decide
theorem bn_xi_to_q_minus_1_over_2 : Bn.xiToQm1Over2 = fq2Pow bnXi ((bnP - 1) / 2) := by
  decide +kernel

/-- The exponents above are exact: `3 ∣ pⁱ − 1`, `6 ∣ pⁱ − 1`, `2 ∣ p − 1` (as `ξ` has order dividing
`p² − 1` only the residues matter, but the source comments state them as integers). -/
theorem bn_exponents_exact : (List.range 12).all (fun i => (bnP ^ i - 1) % 6 == 0) = true := by
  decide +kernel

/-- BN family: `p = 36x⁴ + 36x³ + 24x² + 6x + 1`, `r = 36x⁴ + 36x³ + 18x² + 6x + 1` for `x = BN_X`,
and the Miller-loop digits are a signed-binary expansion of `6x + 2`. -/
theorem bn_family : bnP = 36 * bnX ^ 4 + 36 * bnX ^ 3 + 24 * bnX ^ 2 + 6 * bnX + 1
    ∧ bnR = 36 * bnX ^ 4 + 36 * bnX ^ 3 + 18 * bnX ^ 2 + 6 * bnX + 1 := by
  decide +kernel

def nafValue : List Int → Int
  | [] => 0
  | d :: ds => d + 2 * nafValue ds

theorem bn_naf_value : nafValue bnNaf = 6 * (bnX : Int) + 2 := by decide +kernel
theorem bn_naf_digits : bnNaf.all (fun d => d == 0 || d == 1 || d == -1) = true ∧ bnNaf.getLast? = some 1 := by
  decide

/-- `r ∣ p¹² − 1` and even `r ∣ p⁴ − p² + 1` (the exponent of the final exponentiation is an
integer; embedding degree 12). -/
theorem bn_embedding : (bnP ^ 4 - bnP ^ 2 + 1) % bnR = 0 ∧ (bnP ^ 12 - 1) % bnR = 0
    ∧ (bnP ^ 12 - 1) / bnR = (bnP ^ 6 - 1) * (bnP ^ 2 + 1) * ((bnP ^ 4 - bnP ^ 2 + 1) / bnR) := by
  decide +kernel

/-- The addition chain of `final_exponentiation` (hard part): with `y0 = f^(p+p²+p³)`, `y1 = f⁻¹`,
`y2 = f^(x²p²)`, `y3 = f^(−xp)`, `y4 = f^(−x−x²p)`, `y5 = f^(−x²)`, `y6 = f^(−x³−x³p)` the code returns
`y0·y1²·y2⁶·y3¹²·y4¹⁸·y5³⁰·y6³⁶`; the exponents add up to `(p⁴ − p² + 1)/r`. -/
theorem bn_hard_part_exponent :
    ((bnP : Int) + bnP ^ 2 + bnP ^ 3) + 2 * (-1) + 6 * (bnX ^ 2 * bnP ^ 2) + 12 * (-(bnX * bnP))
      + 18 * (-(bnX : Int) - bnX ^ 2 * bnP) + 30 * (-(bnX : Int) ^ 2) + 36 * (-(bnX : Int) ^ 3 - bnX ^ 3 * bnP)
      = (((bnP ^ 4 - bnP ^ 2 + 1) / bnR : Nat) : Int) := by
  decide +kernel

/-! ### BLS12-381 -/
theorem bls_mont_ok : montOk blsP 384 blsFrob6C1 blsFrob6C1Mont && montOk blsP 384 blsFrob6C2 blsFrob6C2Mont
    && montOk blsP 384 blsFrob12C1 blsFrob12C1Mont
    && (blsFrob2C1.zip blsFrob2C1Mont).all (fun vm => vm.1 * 2 ^ 384 % blsP == vm.2 && vm.1 < blsP)
    && (blsGtGen.zip blsGtGenMont).all (fun vm => vm.1 * 2 ^ 384 % blsP == vm.2 && vm.1 < blsP) = true := by
  decide +kernel

theorem bls_lengths : blsFrob2C1.length = 2 ∧ blsFrob6C1.length = 6 ∧ blsFrob6C2.length = 6
    ∧ blsFrob12C1.length = 12 ∧ blsGtGen.length = 12 := by
  decide

/-- `FROBENIUS_COEFF_FP2_C1[i] = (−1)^((pⁱ − 1)/2)`. -/
theorem bls_frob2c1 : blsFrob2C1 = [1, powMod (blsP - 1) ((blsP - 1) / 2) blsP] := by
  decide +kernel
theorem bls_frob6c1_a : (List.range 3).all (fun i => (FrobCoeffs.c6c1 i : BlsFp2) = fq2Pow blsXi ((blsP ^ i - 1) / 3)) = true := by
  decide +kernel
theorem bls_frob6c1_b : [3, 4, 5].all (fun i => (FrobCoeffs.c6c1 i : BlsFp2) = fq2Pow blsXi ((blsP ^ i - 1) / 3)) = true := by
  decide +kernel
theorem bls_frob6c2_a : (List.range 3).all (fun i => (FrobCoeffs.c6c2 i : BlsFp2) = fq2Pow blsXi ((2 * blsP ^ i - 2) / 3)) = true := by
  decide +kernel
theorem bls_frob6c2_b : [3, 4, 5].all (fun i => (FrobCoeffs.c6c2 i : BlsFp2) = fq2Pow blsXi ((2 * blsP ^ i - 2) / 3)) = true := by
  decide +kernel
theorem bls_frob12c1_a : (List.range 5).all (fun i => (FrobCoeffs.c12c1 i : BlsFp2) = fq2Pow blsXi ((blsP ^ i - 1) / 6)) = true := by
  decide +kernel
theorem bls_frob12c1_b : [5, 6, 7].all (fun i => (FrobCoeffs.c12c1 i : BlsFp2) = fq2Pow blsXi ((blsP ^ i - 1) / 6)) = true := by
  decide +kernel
theorem bls_frob12c1_c : [8, 9].all (fun i => (FrobCoeffs.c12c1 i : BlsFp2) = fq2Pow blsXi ((blsP ^ i - 1) / 6)) = true := by
  decide +kernel
theorem bls_frob12c1_d : [10, 11].all (fun i => (FrobCoeffs.c12c1 i : BlsFp2) = fq2Pow blsXi ((blsP ^ i - 1) / 6)) = true := by
  decide +kernel
theorem bls_exponents_exact : (List.range 12).all (fun i => (blsP ^ i - 1) % 6 == 0) = true := by
  decide +kernel

/-- BLS12 family with `x = −|x|`, `|x| = 0xd201000000010000`: `r = x⁴ − x² + 1`,
`p = (x − 1)²·r/3 + x`. -/
theorem bls_family : blsR = Bls.absX ^ 4 - Bls.absX ^ 2 + 1
    ∧ 3 * (blsP + Bls.absX) = (Bls.absX + 1) ^ 2 * blsR := by
  decide +kernel

theorem bls_embedding : (blsP ^ 4 - blsP ^ 2 + 1) % blsR = 0 ∧ (blsP ^ 12 - 1) % blsR = 0 ∧ blsR % 3 ≠ 0 := by
  decide +kernel

/-- `Gt::generator()` (as written in `gt.rs`) lies in the order-`r` subgroup of `Fp12*` and is not
the identity. -/
theorem bls_gt_generator_order :
    powBits (· * ·) 1 Bls.gtGenerator blsR = (1 : BlsFp12) ∧ Bls.gtGenerator ≠ 1 := by
  decide +kernel

/-! ### Relations that make `frobenius_map` a ring endomorphism (hypotheses of
`Tower12.frob_ringEndo`, `Proofs/C13/Frob.lean`), on the parsed tables, for every power `k < 12`:
`C1[k%6]³·ξ = frob_k(ξ)`, `C2[k%6] = C1[k%6]²`, `C12[k%12]² = C1[k%6]`. -/
theorem bn_frob_relations :
    (List.range 12).all (fun k =>
      let g1 : BnFq2 := FrobCoeffs.c6c1 (k % 6)
      let g2 : BnFq2 := FrobCoeffs.c6c2 (k % 6)
      let g12 : BnFq2 := FrobCoeffs.c12c1 (k % 12)
      decide (g1 * g1 * g1 * bnXi = Frob.frob k bnXi) && decide (g2 = g1 * g1) && decide (g12 * g12 = g1)) = true := by
  decide +kernel

theorem bls_frob_relations :
    (List.range 12).all (fun k =>
      let g1 : BlsFp2 := FrobCoeffs.c6c1 (k % 6)
      let g2 : BlsFp2 := FrobCoeffs.c6c2 (k % 6)
      let g12 : BlsFp2 := FrobCoeffs.c12c1 (k % 12)
      decide (g1 * g1 * g1 * blsXi = Frob.frob k blsXi) && decide (g2 = g1 * g1) && decide (g12 * g12 = g1)) = true := by
  decide +kernel

/-- The `TABLE[power % N]` sites use the table lengths as moduli. -/
theorem frob_index_moduli : bnFrobIdx = (6, 6, 12) ∧ blsFrobIdx = (2, 6, 6, 12) := by decide

/-- `FROBENIUS_COEFF_FP2_C1[i]² = 1` (so `γ²·(−1) = −1`: the `Fp2` map is a ring endomorphism over
the identity of `Fp`). -/
theorem bls_frob2_relation : blsFrob2C1.all (fun c => c * c % blsP == 1) = true := by decide +kernel

/-- The non-residues are non-residues (Euler's criterion, evaluated): `p ≡ 3 (mod 4)` (so `−1` is not a
square in `Fp`), and `ξ^((p²−1)/2) ≠ 1`, `ξ^((p²−1)/3) ≠ 1` in `Fp2` (so `ξ` is neither a square nor a
cube: `X³ − ξ` and then `X² − v` are irreducible, the towers are fields and `invert` is `None` only
at zero). -/
theorem nonresidue_checks :
    (bnP % 4 = 3 ∧ fq2Pow bnXi ((bnP ^ 2 - 1) / 2) ≠ 1 ∧ fq2Pow bnXi ((bnP ^ 2 - 1) / 3) ≠ 1
      ∧ (bnP ^ 2 - 1) % 6 = 0)
    ∧ (blsP % 4 = 3 ∧ fq2Pow blsXi ((blsP ^ 2 - 1) / 2) ≠ 1 ∧ fq2Pow blsXi ((blsP ^ 2 - 1) / 3) ≠ 1
      ∧ (blsP ^ 2 - 1) % 6 = 0) := by
  decide +kernel

/-- The table entries used by the `p²`- and `p⁴`-power Frobenius are powers of one primitive sixth root
of unity `ω = C12[2]` (`ω² − ω + 1 = 0`): `C1[2] = ω²`, `C2[2] = ω⁴`, `C12[4] = ω²`, `C1[4] = ω⁴`,
`C2[4] = ω⁸` — the hypotheses of `Tower12.frob_eq_twistScale` / `cyclotomicSquare_eq`
(`Proofs/C13/Cyclotomic.lean`) for `k = 2` (with `ω`) and `k = 4` (with `ω²`). -/
theorem cyclotomic_constants :
    (let w : BnFq2 := FrobCoeffs.c12c1 2
     decide (w * w - w + 1 = 0) && decide (FrobCoeffs.c6c1 2 = w * w) && decide (FrobCoeffs.c6c2 2 = w * w * (w * w))
      && decide (FrobCoeffs.c12c1 4 = w * w) && decide (FrobCoeffs.c6c1 4 = w * w * (w * w))
      && decide (FrobCoeffs.c6c2 4 = w * w * (w * w) * (w * w * (w * w)))) = true
    ∧ (let w : BlsFp2 := FrobCoeffs.c12c1 2
     decide (w * w - w + 1 = 0) && decide (FrobCoeffs.c6c1 2 = w * w) && decide (FrobCoeffs.c6c2 2 = w * w * (w * w))
      && decide (FrobCoeffs.c12c1 4 = w * w) && decide (FrobCoeffs.c6c1 4 = w * w * (w * w))
      && decide (FrobCoeffs.c6c2 4 = w * w * (w * w) * (w * w * (w * w)))) = true := by
  decide +kernel

end MidnightZK.C13.Consts
