import MidnightZK.Proofs.C13.Frob
/-!
`cyclotomic_square` (`derive/field/tower.rs: impl_cyclotomic_square!`, Granger–Scott) equals the
plain square on the cyclotomic subgroup, over an arbitrary commutative ring.

`Fp12 = Fp2[w]/(w⁶ − ξ)` (`w² = v`). The `p²`-power Frobenius fixes `Fp2` and maps `w ↦ ω·w` with
`ω = ξ^((p²−1)/6)` a primitive sixth root of unity (`ω² − ω + 1 = 0`): it multiplies the coefficient of
`wʲ` by `ωʲ` (`twistScale ω`). An element lies in the cyclotomic subgroup `G_{Φ₁₂(p)}` when
`f^(p⁴)·f = f^(p²)`, i.e. `f · twistScale (ω²) f = twistScale ω f`. Under this hypothesis the
compressed squaring returns `f·f`.
-/
set_option linter.unusedSectionVars false
set_option linter.unusedSimpArgs false
namespace MidnightZK.C13
variable {β : Type} [CommRing β] [NonRes β] [LawfulNonRes β]
/-- `w ↦ ω·w`: the coefficient of `wʲ` (`w² = v`) is multiplied by `ωʲ`. -/
def twistScale (ω : β) (f : Tower12 β) : Tower12 β :=
  ⟨⟨f.c0.c0, ω ^ 2 * f.c0.c1, ω ^ 4 * f.c0.c2⟩, ⟨ω * f.c1.c0, ω ^ 3 * f.c1.c1, ω ^ 5 * f.c1.c2⟩⟩

theorem Cubic.xi_eq : (xi : Cubic β) = ⟨0, 1, 0⟩ := rfl

theorem cyclotomicSquare_eq_aux (ω : β) (hω : ω * ω - ω + 1 = 0) (a0 a1 a2 b0 b1 b2 : β)
    (hf : (⟨⟨a0, a1, a2⟩, ⟨b0, b1, b2⟩⟩ : Tower12 β) * twistScale (ω * ω) ⟨⟨a0, a1, a2⟩, ⟨b0, b1, b2⟩⟩
        = twistScale ω ⟨⟨a0, a1, a2⟩, ⟨b0, b1, b2⟩⟩) :
    cyclotomicSquare (⟨⟨a0, a1, a2⟩, ⟨b0, b1, b2⟩⟩ : Tower12 β) = ⟨⟨a0, a1, a2⟩, ⟨b0, b1, b2⟩⟩ * ⟨⟨a0, a1, a2⟩, ⟨b0, b1, b2⟩⟩ := by
  have H00 := congrArg (fun x : Tower12 β => x.c0.c0) hf
  have H01 := congrArg (fun x : Tower12 β => x.c0.c1) hf
  have H02 := congrArg (fun x : Tower12 β => x.c0.c2) hf
  have H10 := congrArg (fun x : Tower12 β => x.c1.c0) hf
  have H11 := congrArg (fun x : Tower12 β => x.c1.c1) hf
  have H12 := congrArg (fun x : Tower12 β => x.c1.c2) hf
  simp only [twistScale, Quad.mul_c0, Quad.mul_c1, Cubic.mul_c0, Cubic.mul_c1, Cubic.mul_c2, Cubic.xi_eq,
    Cubic.add_c0, Cubic.add_c1, Cubic.add_c2] at H00 H01 H02 H10 H11 H12
  have e3 : ω ^ 3 = -1 := by linear_combination (ω + 1) * hω
  have e2 : ω ^ 2 = ω - 1 := by linear_combination hω
  have e4 : ω ^ 4 = -ω := by linear_combination (ω * (ω + 1)) * hω
  have e5 : ω ^ 5 = 1 - ω := by linear_combination (ω ^ 2 * (ω + 1) - 1) * hω
  have m1 : ω * ω = ω - 1 := by linear_combination hω
  have m2 : (ω * ω) ^ 2 = -ω := by linear_combination (ω * (ω + 1)) * hω
  have m3 : (ω * ω) ^ 3 = 1 := by linear_combination ((ω ^ 3 - 1) * (ω + 1)) * hω
  have m4 : (ω * ω) ^ 4 = ω - 1 := by linear_combination (ω ^ 2 * (ω ^ 3 - 1) * (ω + 1) + 1) * hω
  have m5 : (ω * ω) ^ 5 = -ω := by linear_combination (ω ^ 4 * (ω ^ 3 - 1) * (ω + 1) + ω * (ω + 1)) * hω
  simp only [m2, m3, m4, m5, e2, e3, e4, e5] at H00 H01 H02 H10 H11 H12
  simp only [m1] at H00 H01 H02 H10 H11 H12
  clear hf e2 e3 e4 e5 m1 m2 m3 m4 m5
  apply Quad.ext'
  · apply Cubic.ext'
    · simp only [cyclotomicSquare, fp4Square, Quad.mul_c0, Quad.mul_c1, Cubic.mul_c0, Cubic.mul_c1, Cubic.mul_c2, Cubic.xi_eq, Cubic.add_c0, Cubic.add_c1, Cubic.add_c2, LawfulNonRes.mulNR_eq]
      linear_combination (2) * H00
    · simp only [cyclotomicSquare, fp4Square, Quad.mul_c0, Quad.mul_c1, Cubic.mul_c0, Cubic.mul_c1, Cubic.mul_c2, Cubic.xi_eq, Cubic.add_c0, Cubic.add_c1, Cubic.add_c2, LawfulNonRes.mulNR_eq]
      linear_combination (-2 * ω) * H01 + (2 * xi * a2 ^ 2 - 2 * xi * b1 * b2 + 2 * b0 ^ 2 - 2 * a1 - 2 * a0 * a1) * hω
    · simp only [cyclotomicSquare, fp4Square, Quad.mul_c0, Quad.mul_c1, Cubic.mul_c0, Cubic.mul_c1, Cubic.mul_c2, Cubic.xi_eq, Cubic.add_c0, Cubic.add_c1, Cubic.add_c2, LawfulNonRes.mulNR_eq]
      linear_combination (-2 * (1 - ω)) * H02 + (2 * xi * b2 ^ 2 + 2 * a1 ^ 2 - 2 * a2 - 2 * a2 * a0 - 2 * b0 * b1) * hω
  · apply Cubic.ext'
    · simp only [cyclotomicSquare, fp4Square, Quad.mul_c0, Quad.mul_c1, Cubic.mul_c0, Cubic.mul_c1, Cubic.mul_c2, Cubic.xi_eq, Cubic.add_c0, Cubic.add_c1, Cubic.add_c2, LawfulNonRes.mulNR_eq]
      linear_combination (-2 * (1 - ω)) * H10 + (4 * xi * a1 * b2 - 2 * xi * a2 * b1 + 2 * b0 - 2 * b0 * a0) * hω
    · simp only [cyclotomicSquare, fp4Square, Quad.mul_c0, Quad.mul_c1, Cubic.mul_c0, Cubic.mul_c1, Cubic.mul_c2, Cubic.xi_eq, Cubic.add_c0, Cubic.add_c1, Cubic.add_c2, LawfulNonRes.mulNR_eq]
      linear_combination (2) * H11
    · simp only [cyclotomicSquare, fp4Square, Quad.mul_c0, Quad.mul_c1, Cubic.mul_c0, Cubic.mul_c1, Cubic.mul_c2, Cubic.xi_eq, Cubic.add_c0, Cubic.add_c1, Cubic.add_c2, LawfulNonRes.mulNR_eq]
      linear_combination (-2 * ω) * H12 + (4 * b0 * a2 + 2 * b2 - 2 * b2 * a0 - 2 * a1 * b1) * hω

/-- **Granger–Scott squaring is squaring on the cyclotomic subgroup.** -/
theorem cyclotomicSquare_eq (ω : β) (hω : ω * ω - ω + 1 = 0) (f : Tower12 β)
    (hf : f * twistScale (ω * ω) f = twistScale ω f) : cyclotomicSquare f = f * f := by
  obtain ⟨⟨a0, a1, a2⟩, ⟨b0, b1, b2⟩⟩ := f
  exact cyclotomicSquare_eq_aux ω hω a0 a1 a2 b0 b1 b2 hf

/-- The model's `frobenius_map(k)` at the degree-12 level is `twistScale ω` when the `Fp2` map is
the identity (even `k`) and the three tables hold `ω²`, `ω⁴`, `ω` at index `k`. -/
theorem Tower12.frob_eq_twistScale [Frob β] [FrobCoeffs β] (k : Nat) (ω : β)
    (hid : ∀ x : β, Frob.frob k x = x) (h12 : FrobCoeffs.c12c1 (k % 12) = ω)
    (h1 : FrobCoeffs.c6c1 (k % 6) = ω ^ 2) (h2 : FrobCoeffs.c6c2 (k % 6) = ω ^ 4) (f : Tower12 β) :
    Frob.frob k f = twistScale ω f := by
  rw [Tower12.frob_eq_frobWith]
  apply Quad.ext'
  · show Frob.frob k f.c0 = _
    rw [Cubic.frob_eq_frobWith]
    apply Cubic.ext' <;> simp [Cubic.frobWith, twistScale, hid, h1, h2, mul_comm]
  · show Frob.frob k f.c1 * _ = _
    rw [Cubic.frob_eq_frobWith]
    apply Cubic.ext' <;> simp [Cubic.frobWith, twistScale, hid, h12, h1, h2] <;> ring

end MidnightZK.C13
