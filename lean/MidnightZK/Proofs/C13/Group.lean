import MidnightZK.Proofs.C13.Engine
import MidnightZK.Proofs.C13.Tower
import Mathlib.Algebra.Field.Basic
import Mathlib.Tactic.FieldSimp
/-!
Target-group facts of C13 that do not depend on the pairing being bilinear: prepared points and the
unprepared entry points reduce to the list-level loop; the order-`r` subgroup of a commutative monoid
is closed under the `Gt` operators; the final exponentiation lands in it; inverses of the quadratic
extension exist exactly away from zero when the non-residue is not a square.
-/
set_option linter.unusedSectionVars false
namespace MidnightZK.C13

/-! ## Prepared points -/
section Prepared
variable {P Q L M : Type} [CommMonoid M]

theorem g2Prepare_isIdentity (isIdQ : Q → Bool) (precompute : Q → List L) (q : Q) :
    (g2Prepare isIdQ precompute q).isIdentity = isIdQ q := by
  unfold g2Prepare G2Prepared.isIdentity
  cases h : isIdQ q <;> simp

theorem g2Prepare_lines (isIdQ : Q → Bool) (precompute : Q → List L) (q : Q) :
    (g2Prepare isIdQ precompute q).lines = if isIdQ q then [] else precompute q := by
  unfold g2Prepare
  cases h : isIdQ q <;> simp

/-- The loop over prepared terms equals the loop over the unprepared points, for every list, as soon
as `blst_miller_loop_lines` on the precomputed lines of a non-identity `Q` is the Miller function of
`(P, Q)`. -/
theorem multiMillerLoopPrepared_eq (isIdP : P → Bool) (isIdQ : Q → Bool) (precompute : Q → List L)
    (millerLines : P → List L → M) (miller : P → Q → M)
    (hlines : ∀ p q, isIdP p = false → isIdQ q = false → millerLines p (precompute q) = miller p q)
    (terms : List (P × Q)) :
    multiMillerLoopPrepared isIdP millerLines (terms.map (fun t => (t.1, g2Prepare isIdQ precompute t.2)))
      = multiMillerLoopBls isIdP isIdQ miller terms := by
  unfold multiMillerLoopPrepared
  rw [multiMillerLoopBls_eq_prod, multiMillerLoopBls_eq_prod, List.map_map]
  congr 1
  apply List.map_congr_left
  intro t _
  simp only [Function.comp, mmlTerm, g2Prepare_isIdentity, g2Prepare_lines]
  cases hp : isIdP t.1
  · cases hq : isIdQ t.2
    · simp [hlines _ _ hp hq]
    · simp
  · simp

/-- `Sum for Gt` is the product of the list. -/
theorem gtSum_eq_prod (l : List M) : gtSum l = l.prod := by
  unfold gtSum
  have : ∀ (l : List M) (a : M), l.foldl (fun acc x => acc * x) a = a * l.prod := by
    intro l
    induction l with
    | nil => intro a; simp
    | cons x xs ih => intro a; simp [ih, mul_assoc]
  rw [this, one_mul]

end Prepared

/-! ## The order-`r` subgroup -/
section Subgroup
variable {γ : Type} [CommMonoid γ]

/-- `{x | x^r = 1}` contains the identity and is closed under product (`Gt` `+`) and powers
(`Gt * scalar`). -/
theorem pow_order_closed (r : ℕ) (x y : γ) (hx : x ^ r = 1) (hy : y ^ r = 1) (k : ℕ) :
    (1 : γ) ^ r = 1 ∧ (x * y) ^ r = 1 ∧ (x ^ k) ^ r = 1 := by
  refine ⟨one_pow r, ?_, ?_⟩
  · rw [mul_pow, hx, hy, one_mul]
  · rw [← pow_mul, mul_comm, pow_mul, hx, one_pow]

/-- On the subgroup the scalar only matters modulo `r`. -/
theorem pow_mod_order (r : ℕ) (x : γ) (hx : x ^ r = 1) (k : ℕ) : x ^ k = x ^ (k % r) := by
  conv_lhs => rw [← Nat.mod_add_div k r]
  rw [pow_add, pow_mul, hx, one_pow, mul_one]

/-- The final exponentiation `f ↦ f^(N/r)` maps every `f` with `f^N = 1` (every unit of `Fp12`, `N =
p¹² − 1`) into the order-`r` subgroup when `r ∣ N`. -/
theorem final_exp_in_subgroup' (N r : ℕ) (hr : r ∣ N) (f : γ) (hf : f ^ N = 1) : (f ^ (N / r)) ^ r = 1 := by
  rw [← pow_mul, Nat.div_mul_cancel hr, hf]

end Subgroup

section Conj
variable {α : Type} [CommRing α] [NonRes α] [LawfulNonRes α]

theorem Quad.conj_one : Quad.conj (1 : Quad α) = 1 := by
  apply Quad.ext' <;> simp [Quad.conj]

theorem Quad.conj_pow (a : Quad α) (n : ℕ) : Quad.conj (a ^ n) = Quad.conj a ^ n := by
  induction n with
  | zero => simp [Quad.conj_one]
  | succ k ih => rw [pow_succ, pow_succ, Quad.conj_mul, ih]

/-- `Gt::neg` (conjugation) stays in the order-`r` subgroup. -/
theorem Quad.conj_order (a : Quad α) (r : ℕ) (h : a ^ r = 1) : Quad.conj a ^ r = 1 := by
  rw [← Quad.conj_pow, h, Quad.conj_one]

end Conj

/-! ## `invert` is total away from zero -/
section Field
variable {α : Type} [Field α] [NonRes α] [LawfulNonRes α]

/-- In a field where the non-residue `ξ` is not a square, the norm `c0² − ξ·c1²` of `c0 + c1·X`
vanishes only at zero. -/
theorem Quad.norm_eq_zero_iff (hns : ∀ x : α, x * x ≠ xi) (a : Quad α) : Quad.norm a = 0 ↔ a = 0 := by
  constructor
  · intro h
    rw [Quad.norm_eq] at h
    by_cases h1 : a.c1 = 0
    · have h0 : a.c0 * a.c0 = 0 := by rw [h1] at h; simpa using h
      have h0' : a.c0 = 0 := by simpa using h0
      exact Quad.ext' h0' h1
    · exfalso
      apply hns (a.c0 / a.c1)
      field_simp
      linear_combination h
  · intro h; subst h; simp [Quad.norm_eq]

end Field

end MidnightZK.C13
