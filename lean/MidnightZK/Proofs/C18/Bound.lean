import MidnightZK.Proofs.C18.Fail
import MidnightZK.Proofs.C18.ShapeBound
import MidnightZK.Proofs.C18.BinRoundTrip
/-!
# C18 — every value of the in-circuit memory is within its recorded shape

Invariant of the in-circuit interpreter alone (known witness): a BigUint held in memory has a
well-formed limb-bound list that bounds its honest value, and byte arrays hold bytes. With the
simulation relation this makes `format_instance` total on the values a run publishes
(`encodePI_total`, `runEnc`).
-/
namespace MidnightZK.C18

/-- The in-circuit value is within its compile-time shape. -/
def CValOK : CVal → Prop
  | .big s x => WellShaped s ∧ x ≤ shapeMax s
  | .bytes bs => BytesWF bs
  | _ => True

/-- Byte arrays coming from outside the interpreters hold bytes (automatically true of the
Rust values: `Vec<u8>`, digests). -/
structure BytesOK (H : Hashes) (w : Witness) : Prop where
  sha256 : ∀ bs, BytesWF (H.sha256 bs)
  sha512 : ∀ bs, BytesWF (H.sha512 bs)
  wit : ∀ n bs, lookup n w = some (.bytes bs) → BytesWF bs

def GOK (g : GOut) : Prop := ∀ c ∈ g.outs, CValOK c

theorem GOK.single {c : CVal} {b : Bool} (h : CValOK c) : GOK { outs := [c], sat := b } := by
  intro c' hc'
  simp at hc'
  subst hc'
  exact h

theorem natToLeBytes_wf : ∀ (n v : Nat), BytesWF (natToLeBytes n v)
  | 0, _ => by intro b hb; simp [natToLeBytes] at hb
  | n + 1, v => by
    intro b hb
    simp only [natToLeBytes, List.mem_cons] at hb
    rcases hb with rfl | hb
    · exact Nat.mod_lt _ (by decide)
    · exact natToLeBytes_wf n _ b hb

theorem pow256 (n : Nat) : 256 ^ n = 2 ^ (8 * n) := by
  rw [show (256 : Nat) = 2 ^ 8 from rfl, ← Nat.pow_mul]

/-! ## Per-operation preservation -/

theorem addIn_ok {x y : CVal} {g : GOut} (hx : CValOK x) (hy : CValOK y) (h : addIn x y = .ok g) :
    GOK g := by
  cases x <;> cases y <;> simp only [addIn, gok, reduceCtorEq] at h
  · cases h; exact GOK.single trivial
  · next s a t b =>
    cases hsh : addShape s t with
    | error e => rw [hsh] at h; simp [Except.bind] at h
    | ok r =>
      rw [hsh] at h; simp [Except.bind] at h; subst h
      refine GOK.single ⟨addShape_wellShaped _ _ _ hx.1 hy.1 hsh, ?_⟩
      have := addShape_max _ _ _ hsh
      have := hx.2; have := hy.2
      omega
  · cases h; exact GOK.single trivial

theorem mulIn_ok {x y : CVal} {g : GOut} (hx : CValOK x) (hy : CValOK y) (h : mulIn x y = .ok g) :
    GOK g := by
  cases x <;> cases y <;> simp only [mulIn, gok, reduceCtorEq] at h
  · cases h; exact GOK.single trivial
  · next s a t b =>
    cases hsh : mulShape s t with
    | error e => rw [hsh] at h; simp [Except.bind] at h
    | ok r =>
      rw [hsh] at h; simp [Except.bind] at h; subst h
      refine GOK.single ⟨mulShape_wellShaped _ _ _ hx.1 hy.1 hsh, ?_⟩
      have h1 := mulShape_max _ _ _ (wellShaped_length s hx.1).2.1 (wellShaped_length t hy.1).2.1 hsh
      exact Nat.le_trans (Nat.mul_le_mul hx.2 hy.2) h1
  · cases h; exact GOK.single trivial

theorem subIn_ok {x y : CVal} {g : GOut} (hx : CValOK x) (_hy : CValOK y) (h : subIn x y = .ok g) :
    GOK g := by
  cases x <;> cases y <;> simp only [subIn, gok, reduceCtorEq] at h
  · cases h; exact GOK.single trivial
  · next s a t b =>
    cases hsh : subShape s t with
    | error e => rw [hsh] at h; simp [Except.bind] at h
    | ok r =>
      rw [hsh] at h; simp [Except.bind] at h; subst h
      obtain ⟨hr, hn⟩ := subShape_eq _ _ _ hsh
      refine GOK.single ⟨subShape_ok _ _ _ hsh, ?_⟩
      have h1 := shapeMax_boundedShape _ hn
      have h2 : shapeMax s < 2 ^ nbBits s := bitLen_lt_pow _
      have := hx.2
      rw [hr]
      split <;> omega
  · cases h; exact GOK.single trivial

theorem negIn_ok {x : CVal} {g : GOut} (h : negIn x = .ok g) : GOK g := by
  cases x <;> simp only [negIn, gok, reduceCtorEq] at h
  · cases h; exact GOK.single trivial
  · cases h; exact GOK.single trivial

theorem modExpIn_ok {x m : CVal} {n : Nat} {g : GOut} (hx : CValOK x) (hm : CValOK m)
    (hn : n < 2 ^ 64) (h : modExpIn x n m = .ok g) : GOK g := by
  cases x <;> cases m <;> simp only [modExpIn, reduceCtorEq] at h
  next s a t b =>
  cases hsh : modExpShape s n t with
  | error e => rw [hsh] at h; simp [Except.bind] at h
  | ok r =>
    rw [hsh] at h; simp [Except.bind] at h; subst h
    obtain ⟨hr, hnb⟩ := modExpShape_eq _ _ _ _ hn hsh
    refine GOK.single ⟨modExpShape_ok _ _ _ _ hx.1 hsh, ?_⟩
    have h1 := shapeMax_boundedShape _ hnb
    have h2 : shapeMax t < 2 ^ nbBits t := bitLen_lt_pow _
    have := hm.2
    rw [hr]
    split
    · omega
    · next hb =>
      have hb' : 0 < b := Nat.pos_of_ne_zero hb
      have : powMod a n b < b := by rw [powMod_spec a n b hb']; exact Nat.mod_lt _ hb'
      omega

theorem andThen_ok {g g' : GOut} {f : CVal → Except Err GOut}
    (hf : ∀ v g'', f v = .ok g'' → CValOK v → GOK g'') (hg : GOK g)
    (h : g.andThen f = .ok g') : GOK g' := by
  unfold GOut.andThen at h
  split at h
  · next v hv =>
    split at h
    · cases h
    · next g'' hg'' =>
      cases h
      exact hf v g'' hg'' (hg v (by simp [hv]))
  · cases h

theorem ipFoldIn_ok : ∀ (vs ws : List CVal) (acc g : GOut), GOK acc → (∀ c ∈ vs, CValOK c) →
    (∀ c ∈ ws, CValOK c) → ipFoldIn acc vs ws = .ok g → GOK g
  | [], _, acc, g, ha, _, _, h => by simp [ipFoldIn] at h; subst h; exact ha
  | _ :: _, [], acc, g, ha, _, _, h => by simp [ipFoldIn] at h; subst h; exact ha
  | v :: vs, w :: ws, acc, g, ha, hv, hw, h => by
    simp only [ipFoldIn] at h
    split at h
    · cases h
    · next p hp =>
      have hpok := mulIn_ok (hv v (List.mem_cons_self ..)) (hw w (List.mem_cons_self ..)) hp
      split at h
      · cases h
      · next acc' hacc' =>
        have : GOK acc' :=
          andThen_ok (fun a g1 h1 ha1 =>
            andThen_ok (fun pv g2 h2 hpv => addIn_ok ha1 hpv h2) hpok h1) ha hacc'
        exact ipFoldIn_ok vs ws acc' g this (fun c hc => hv c (List.mem_cons_of_mem _ hc))
          (fun c hc => hw c (List.mem_cons_of_mem _ hc)) h

theorem innerProductIn_ok {vs ws : List CVal} {g : GOut} (hv : ∀ c ∈ vs, CValOK c)
    (hw : ∀ c ∈ ws, CValOK c) (h : innerProductIn vs ws = .ok g) : GOK g := by
  unfold innerProductIn at h
  split at h
  · cases h
  · split at h
    · next v0 vs' w0 ws' _ =>
      have hv0 := hv v0 (List.mem_cons_self ..)
      have hw0 := hw w0 (List.mem_cons_self ..)
      have hvs : ∀ c ∈ vs', CValOK c := fun c hc => hv c (List.mem_cons_of_mem _ hc)
      have hws : ∀ c ∈ ws', CValOK c := fun c hc => hw c (List.mem_cons_of_mem _ hc)
      simp only at h
      split at h
      · split at h
        · cases h
        · next acc hacc => exact ipFoldIn_ok _ _ acc g (mulIn_ok hv0 hw0 hacc) hvs hws h
      · split at h
        · cases h
        · next acc hacc => exact ipFoldIn_ok _ _ acc g (mulIn_ok hv0 hw0 hacc) hvs hws h
      · split at h
        · cases h
        · split at h
          · cases h
          · split at h
            · simp only [gok] at h; cases h; exact GOK.single trivial
            · cases h
      · cases h
    · cases h

theorem affineIn_ok {x : CVal} {g : GOut} (h : affineIn x = .ok g) : GOK g := by
  cases x <;> simp only [affineIn, reduceCtorEq] at h
  cases h
  intro c hc
  simp at hc
  rcases hc with rfl | rfl <;> trivial

theorem intoBytesIn_ok {k : Bool} {x : CVal} {n : Nat} {g : GOut} (h : intoBytesIn k x n = .ok g) :
    GOK g := by
  cases x <;> simp only [intoBytesIn, gok, reduceCtorEq] at h
  · split at h
    · cases h
    · split at h
      · cases h
      · cases h; exact GOK.single (natToLeBytes_wf _ _)
  · split at h
    · cases h
    · cases h; exact GOK.single (natToLeBytes_wf _ _)
  · split at h
    · cases h; exact GOK.single (natToLeBytes_wf _ _)
    · cases h

theorem fromBytesIn_ok {k : Bool} {t : IrType} {x : CVal} {g : GOut} (hx : CValOK x)
    (h : fromBytesIn k t x = .ok g) : GOK g := by
  cases x <;> simp only [fromBytesIn, reduceCtorEq] at h
  next bs =>
  cases t <;> simp only [gok, reduceCtorEq] at h
  · cases h; exact GOK.single trivial
  · next n =>
    split at h
    · next hc =>
      cases h
      refine GOK.single ⟨fromBytesShape_wellShaped _ hc.2, ?_⟩
      have h1 := shapeMax_fromBytesShape _ hc.2
      have h2 := leBytesToNat_lt bs hx
      rw [pow256] at h2
      omega
    · cases h
  · split at h
    · split at h
      · split at h
        · cases h; exact GOK.single trivial
        · cases h
      · cases h; exact GOK.single trivial
    · cases h
  · cases h; exact GOK.single trivial

theorem loadCVal_ok {H : Hashes} {w : Witness} (hb : BytesOK H w) {t : IrType} {n : String}
    {v : IrValue} {c : CVal} (hg : getT w t n = .ok v) (h : loadCVal t v = .ok c) : CValOK c := by
  obtain ⟨hl, hc⟩ := getT_ok hg
  cases t <;> cases v <;> simp only [loadCVal, reduceCtorEq] at h
  · cases h; trivial
  · cases h; exact hb.wit n _ hl
  · cases h; trivial
  · next k x =>
    cases ha : assignBoundedShape k with
    | error e => rw [ha] at h; simp [Except.map] at h
    | ok s =>
      rw [ha] at h; simp [Except.map] at h; subst h
      have hk := assignBoundedShape_ne _ _ ha
      rw [assignBoundedShape_ok _ _ ha]
      refine ⟨boundedShape_wellShaped _, ?_⟩
      have h1 := shapeMax_boundedShape _ hk
      have h2 : x < 2 ^ k := by
        rw [← bitLen_le_iff]
        unfold IrValue.checkType at hc
        split at hc
        · next heq => simp [IrValue.type] at heq; omega
        · simp at hc; exact hc
      omega
  · cases h; trivial
  · cases h; trivial

theorem loadAll_ok {H : Hashes} {w : Witness} (hb : BytesOK H w) {t : IrType} :
    ∀ (names : List String) (vs : List IrValue) (cs : List CVal),
      mapE (getT w t) names = .ok vs → mapE (loadCVal t) vs = .ok cs → ∀ c ∈ cs, CValOK c
  | [], vs, cs, h1, h2 => by
    simp [mapE] at h1; subst h1; simp [mapE] at h2; subst h2; simp
  | n :: rest, vs, cs, h1, h2 => by
    unfold mapE at h1
    split at h1
    · cases h1
    · next v hv =>
      split at h1
      · cases h1
      · next vs' hvs =>
        cases h1
        unfold mapE at h2
        split at h2
        · cases h2
        · next c hc =>
          split at h2
          · cases h2
          · next cs' hcs =>
            cases h2
            intro c' hc'
            simp only [List.mem_cons] at hc'
            rcases hc' with rfl | hc'
            · exact loadCVal_ok hb hv hc
            · exact loadAll_ok hb rest vs' cs' hvs hcs c' hc'

theorem asBytesIn_ok {x : CVal} {b : List Nat} (h : asBytesIn x = .ok b) : x = .bytes b := by
  cases x <;> simp [asBytesIn] at h
  subst h; rfl

/-- Outputs of one in-circuit dispatch are within their shapes. -/
theorem opIn_ok (H : Hashes) (w : Witness) (hb : BytesOK H w) (known : Bool) (i : Instr)
    (hr : i.op.InRange) (cinps : List CVal) (hin : ∀ c ∈ cinps, CValOK c)
    (g : GOut) (fs : List Nat) (ts : List IrType)
    (h : opIn H (some w) known i cinps = .ok (g, fs, ts)) : GOK g := by
  obtain ⟨op, ins, onames⟩ := i
  have pureOK : ∀ (x : Except Err GOut), x.map (fun g => (g, ([] : List Nat), ([] : List IrType))) = .ok (g, fs, ts) →
      x = .ok g := by
    intro x hx
    cases x <;> simp [Except.map] at hx
    rw [hx.1]
  have two : ∀ (P : CVal → CVal → Prop), (∀ a b rest, cinps = a :: b :: rest → CValOK a → CValOK b → P a b) →
      ∀ a b rest, cinps = a :: b :: rest → P a b := by
    intro P hP a b rest hc
    exact hP a b rest hc (hin a (by simp [hc])) (hin b (by simp [hc]))
  cases op <;> simp only [opIn] at h
  case load t =>
    split at h
    · cases h
    · next vs hvs =>
      split at h
      · cases h
      · split at h
        · cases h
        · next cs hcs =>
          cases h
          exact loadAll_ok hb onames vs cs hvs hcs
  case publish =>
    split at h
    · cases h
    · cases h; intro c hc; simp at hc
  case assertEq =>
    split at h
    · have := pureOK _ h
      cases hc : comparableIn .assertEq _ _ with
      | error e => rw [hc] at this; simp [Except.map] at this
      | ok eq => rw [hc] at this; simp [Except.map] at this; subst this; intro c hc; simp at hc
    · cases h
  case assertNe =>
    split at h
    · have := pureOK _ h
      cases hc : comparableIn .assertNe _ _ with
      | error e => rw [hc] at this; simp [Except.map] at this
      | ok eq => rw [hc] at this; simp [Except.map] at this; subst this; intro c hc; simp at hc
    · cases h
  case isEq =>
    split at h
    · have := pureOK _ h
      cases hc : comparableIn .isEq _ _ with
      | error e => rw [hc] at this; simp [Except.map] at this
      | ok eq => rw [hc] at this; simp [Except.map] at this; subst this; exact GOK.single trivial
    · cases h
  case add =>
    split at h
    · next a b rest =>
      exact addIn_ok (hin a (by simp)) (hin b (by simp)) (pureOK _ h)
    · cases h
  case sub =>
    split at h
    · next a b rest =>
      exact subIn_ok (hin a (by simp)) (hin b (by simp)) (pureOK _ h)
    · cases h
  case mul =>
    split at h
    · next a b rest =>
      exact mulIn_ok (hin a (by simp)) (hin b (by simp)) (pureOK _ h)
    · cases h
  case neg =>
    split at h
    · exact negIn_ok (pureOK _ h)
    · cases h
  case modExp n =>
    split at h
    · next a b rest =>
      exact modExpIn_ok (hin a (by simp)) (hin b (by simp)) hr (pureOK _ h)
    · cases h
  case innerProduct =>
    exact innerProductIn_ok (fun c hc => hin c (List.mem_of_mem_take hc))
      (fun c hc => hin c (List.mem_of_mem_drop hc)) (pureOK _ h)
  case affine =>
    split at h
    · exact affineIn_ok (pureOK _ h)
    · cases h
  case intoBytes n =>
    split at h
    · exact intoBytesIn_ok (pureOK _ h)
    · cases h
  case fromBytes t =>
    split at h
    · next a rest => exact fromBytesIn_ok (hin a (by simp)) (pureOK _ h)
    · cases h
  case poseidon =>
    split at h
    · cases h
    · cases h; exact GOK.single trivial
  case sha256 =>
    split at h
    · have := pureOK _ h
      cases hc : asBytesIn _ with
      | error e => rw [hc] at this; simp [Except.map] at this
      | ok b => rw [hc] at this; simp [Except.map] at this; subst this; exact GOK.single (hb.sha256 _)
    · cases h
  case sha512 =>
    split at h
    · have := pureOK _ h
      cases hc : asBytesIn _ with
      | error e => rw [hc] at this; simp [Except.map] at this
      | ok b => rw [hc] at this; simp [Except.map] at this; subst this; exact GOK.single (hb.sha512 _)
    · cases h

/-! ## Constants, memory, one step -/

theorem hexVal_lt (c : Char) (x : Nat) (h : hexVal? c = some x) : x < 16 := by
  unfold hexVal? at h
  split at h
  · next hc =>
    cases h
    have h2 : c.toNat ≤ '9'.toNat := hc.2
    have : '9'.toNat = 57 := rfl
    have : '0'.toNat = 48 := rfl
    omega
  · split at h
    · next hc =>
      cases h
      have h2 : c.toNat ≤ 'f'.toNat := hc.2
      have : 'f'.toNat = 102 := rfl
      have : 'a'.toNat = 97 := rfl
      omega
    · split at h
      · next hc =>
        cases h
        have h2 : c.toNat ≤ 'F'.toNat := hc.2
        have : 'F'.toNat = 70 := rfl
        have : 'A'.toNat = 65 := rfl
        omega
      · cases h

theorem hexPairs_wf : ∀ (cs : List Char) (bs : List Nat), hexPairs cs = some bs → BytesWF bs
  | [], bs, h => by simp [hexPairs] at h; subst h; intro b hb; simp at hb
  | [_], bs, h => by simp [hexPairs] at h
  | a :: b :: rest, bs, h => by
    simp only [hexPairs] at h
    split at h
    · next x y bs' hx hy hbs =>
      cases h
      intro v hv
      simp only [List.mem_cons] at hv
      rcases hv with rfl | hv
      · have := hexVal_lt _ _ hx; have := hexVal_lt _ _ hy; omega
      · exact hexPairs_wf rest bs' hbs v hv
    · cases h

theorem hexDecode_wf (cs : List Char) (bs : List Nat) (h : hexDecode cs = some bs) : BytesWF bs := by
  unfold hexDecode at h
  split at h <;> exact hexPairs_wf _ _ h

theorem parseConst_bytes_wf (name : String) (bs : List Nat) (h : parseConst name = some (.bytes bs)) :
    BytesWF bs := by
  unfold parseConst at h
  split at h
  · split at h
    · split at h
      · cases h
      · split at h <;> cases h
    · cases hd : hexDecode _ with
      | none => rw [hd] at h; simp at h
      | some b => rw [hd] at h; simp at h; subst h; exact hexDecode_wf _ _ hd
  · split at h
    · cases hd : parseNative _ with
      | none => rw [hd] at h; simp at h
      | some b => rw [hd] at h; simp at h
    · split at h
      · cases hd : parseBigUint _ with
        | none => rw [hd] at h; simp at h
        | some b => rw [hd] at h; simp at h
      · split at h
        · cases hd : parseJubjubPoint _ with
          | none => rw [hd] at h; simp at h
          | some b => rw [hd] at h; simp at h
        · split at h
          · cases hd : parseJubjubScalar _ with
            | none => rw [hd] at h; simp at h
            | some b => rw [hd] at h; simp at h
          · cases h
  · cases h

theorem constCVal_ok (name : String) (v : IrValue) (h : parseConst name = some v) :
    CValOK (constCVal v) := by
  cases v with
  | bool b => trivial
  | bytes bs => exact parseConst_bytes_wf name bs h
  | native x => trivial
  | point u v => trivial
  | scalar s => trivial
  | big x =>
    refine ⟨fixedShape_wellShaped x, ?_⟩
    have h1 := shapeMax_boundedShape (max (bitLen x) 1) (by omega)
    have h2 : x < 2 ^ bitLen x := bitLen_lt_pow x
    have h3 : 2 ^ bitLen x ≤ 2 ^ max (bitLen x) 1 := Nat.pow_le_pow_right (by decide) (Nat.le_max_left _ _)
    unfold fixedShape
    omega

/-- Every value held in the in-circuit memory is within its shape. -/
def MemOK (m : List (String × (CVal × Bool))) : Prop :=
  ∀ n cv k, lookup n m = some (cv, k) → CValOK cv

theorem resolveIn_ok {m : List (String × (CVal × Bool))} (hm : MemOK m) {n : String} {cv : CVal} {k : Bool}
    (h : resolveIn m n = .ok (cv, k)) : CValOK cv := by
  unfold resolveIn at h
  split at h
  · next v hl => cases h; exact hm n _ _ hl
  · split at h
    · next v hp => cases h; exact constCVal_ok n v hp
    · cases h

theorem resolveAll_ok {m : List (String × (CVal × Bool))} (hm : MemOK m) :
    ∀ (names : List String) (cvs : List (CVal × Bool)), mapE (resolveIn m) names = .ok cvs →
      ∀ c ∈ cvs, CValOK c.1
  | [], cvs, h => by simp [mapE] at h; subst h; simp
  | n :: rest, cvs, h => by
    unfold mapE at h
    split at h
    · cases h
    · next v hv =>
      split at h
      · cases h
      · next vs' hvs =>
        cases h
        intro c hc
        simp only [List.mem_cons] at hc
        rcases hc with rfl | hc
        · exact resolveIn_ok hm (cv := c.1) (k := c.2) hv
        · exact resolveAll_ok hm rest vs' hvs c hc

theorem insertMany_ok : ∀ (names : List String) (vals : List (CVal × Bool))
    (m m' : List (String × (CVal × Bool))), MemOK m → (∀ c ∈ vals, CValOK c.1) →
    insertMany m names vals = .ok m' → MemOK m'
  | [], [], m, m', hm, _, h => by simp [insertMany] at h; subst h; exact hm
  | n :: ns, v :: vs, m, m', hm, hv, h => by
    simp only [insertMany] at h
    split at h
    · cases h
    · refine insertMany_ok ns vs ((n, v) :: m) m' ?_ (fun c hc => hv c (List.mem_cons_of_mem _ hc)) h
      intro n' cv k hl
      simp only [lookup] at hl
      split at hl
      · cases hl; exact hv _ (List.mem_cons_self ..)
      · exact hm n' cv k hl
  | [], _ :: _, _, _, _, _, h => by simp [insertMany] at h
  | _ :: _, [], _, _, _, _, h => by simp [insertMany] at h

theorem stepIn_ok (H : Hashes) (w : Witness) (hb : BytesOK H w) (si si' : InState) (i : Instr)
    (hr : i.op.InRange) (hm : MemOK si.mem) (h : stepIn H (some w) si i = .ok si') : MemOK si'.mem := by
  unfold stepIn at h
  split at h
  · cases h
  · next inps hin =>
    simp only at h
    split at h
    · cases h
    · next g fs ts hop =>
      split at h
      · cases h
      · next mem hmem =>
        cases h
        have hinps := resolveAll_ok hm _ _ hin
        have hg := opIn_ok H w hb _ i hr (inps.map (·.1))
          (fun c hc => by
            simp only [List.mem_map] at hc
            obtain ⟨c', hc', rfl⟩ := hc
            exact hinps c' hc') g fs ts hop
        refine insertMany_ok _ _ _ _ hm ?_ hmem
        intro c hc
        simp only [List.mem_map] at hc
        obtain ⟨c', hc', rfl⟩ := hc
        exact hg c' hc'

/-! ## `format_instance` is total on what the circuit publishes -/

theorem encodeOne_total {v : IrValue} {cv : CVal} (hr : Rel v cv) (hok : CValOK cv) :
    ∃ f, encodeOne v cv.type = .ok f := by
  cases hr with
  | bool b => exact ⟨_, by simp [encodeOne, IrValue.checkType, IrValue.type, CVal.type]; rfl⟩
  | bytes bs => exact ⟨_, by simp [encodeOne, IrValue.checkType, IrValue.type, CVal.type]; rfl⟩
  | native x => exact ⟨_, by simp [encodeOne, IrValue.checkType, IrValue.type, CVal.type]; rfl⟩
  | point u v => exact ⟨_, by simp [encodeOne, IrValue.checkType, IrValue.type, CVal.type]; rfl⟩
  | scalar n s h1 h2 hs => exact ⟨_, by simp [encodeOne, IrValue.checkType, IrValue.type, CVal.type]; rfl⟩
  | big s x hs =>
    have hle := bitLen_le_nbBits s x hok.2
    have hc : (IrValue.big x).checkType (.big (nbBits s)) = .ok () := by
      unfold IrValue.checkType
      split
      · rfl
      · simp [hle]
    exact ⟨_, by simp [encodeOne, CVal.type, hc]; rfl⟩

theorem encodePI_total : ∀ {vs cvs}, ListRel vs cvs → (∀ c ∈ cvs, CValOK c) →
    ∃ pi, encodePI vs (cvs.map CVal.type) = .ok pi
  | _, _, .nil, _ => ⟨[], rfl⟩
  | _, _, .cons (v := v) (cv := cv) (vs := vs) (cvs := cvs) hr hrs, hok => by
    obtain ⟨f, hf⟩ := encodeOne_total hr (hok cv (List.mem_cons_self ..))
    obtain ⟨pi, hpi⟩ := encodePI_total hrs (fun c hc => hok c (List.mem_cons_of_mem _ hc))
    exact ⟨f ++ pi, by simp [encodePI, hf, hpi, Except.map]⟩

theorem encodePI_append_ok : ∀ (P : List IrValue) (T : List IrType) (P' : List IrValue) (T' : List IrType)
    (a b : List Nat), P.length = T.length → encodePI P T = .ok a → encodePI P' T' = .ok b →
    encodePI (P ++ P') (T ++ T') = .ok (a ++ b)
  | [], [], P', T', a, b, _, h1, h2 => by simp [encodePI] at h1; subst h1; simpa using h2
  | v :: P, t :: T, P', T', a, b, hl, h1, h2 => by
    simp only [List.cons_append, encodePI] at h1 ⊢
    split at h1
    · cases h1
    · next f hf =>
      cases hrest : encodePI P T with
      | error e => rw [hrest] at h1; simp [Except.map] at h1
      | ok rest =>
        rw [hrest] at h1; simp [Except.map] at h1
        have := encodePI_append_ok P T P' T' rest b (by simpa using hl) hrest h2
        simp [this, Except.map, ← h1]
  | [], _ :: _, _, _, _, _, hl, _, _ => by simp at hl
  | _ :: _, [], _, _, _, _, hl, _, _ => by simp at hl

theorem publishAll_types : ∀ (cvs : List CVal) (fs : List Nat) (ts : List IrType),
    publishAll cvs = .ok (fs, ts) → ts = cvs.map CVal.type
  | [], fs, ts, h => by simp [publishAll] at h; simp [h.2]
  | v :: rest, fs, ts, h => by
    simp only [publishAll] at h
    split at h
    · cases h
    · split at h
      · cases h
      · next fs' ts' hrest =>
        cases h
        simp [publishAll_types rest fs' ts' hrest]

/-- The types recorded by an operation other than `Publish` are none. -/
theorem opIn_ts_nil (H : Hashes) (w : Option Witness) (known : Bool) (i : Instr) (hne : i.op ≠ .publish)
    (cinps : List CVal) (g : GOut) (fs : List Nat) (ts : List IrType)
    (h : opIn H w known i cinps = .ok (g, fs, ts)) : ts = [] := by
  obtain ⟨op, ins, onames⟩ := i
  have pureOK : ∀ (x : Except Err GOut), x.map (fun g => (g, ([] : List Nat), ([] : List IrType))) = .ok (g, fs, ts) →
      ts = [] := by
    intro x hx
    cases x <;> simp [Except.map] at hx
    exact hx.2.2
  cases op <;> simp only [opIn] at h
  case publish => exact absurd rfl hne
  case load t =>
    split at h
    · cases h
    · split at h
      · cases h
      · split at h
        · cases h
        · cases h; rfl
  case poseidon =>
    split at h
    · cases h
    · cases h; rfl
  case innerProduct => exact pureOK _ h
  all_goals
    split at h
    · exact pureOK _ h
    · cases h

/-! ## The lockstep run keeps `format_instance` defined -/

/-- `format_instance` is defined on the values published so far against the types recorded so
far. -/
def EncOK (so : OffState) (si : InState) : Prop := ∃ pi, encodePI so.pis si.piTypes = .ok pi

theorem encodePI_nil_types (P : List IrValue) : encodePI P [] = .ok [] := by
  cases P <;> rfl

theorem stepEnc (H : Hashes) (w : Witness) (so : OffState) (si : InState) (i : Instr)
    (so' : OffState) (si' : InState) (hinv : Inv so si) (hm : MemOK si.mem) (he : EncOK so si)
    (h1 : stepOff H w so i = .ok so') (h2 : stepIn H (some w) si i = .ok si') : EncOK so' si' := by
  unfold stepOff at h1
  split at h1
  · cases h1
  · next inps hin =>
    split at h1
    · cases h1
    · next outs pub hop =>
      split at h1
      · cases h1
      · next mem' hmem =>
        cases h1
        obtain ⟨cvs, hcvs, hrel⟩ := resolveAll_sim hinv.mem i.ins inps hin
        have hcok : ∀ c ∈ cvs, CValOK c := by
          intro c hc
          exact resolveAll_ok hm _ _ hcvs (c, true) (by simp only [List.mem_map]; exact ⟨c, hc, rfl⟩)
        unfold stepIn at h2
        simp only [hcvs, all_known, map_fst_known, Option.isSome_some, Bool.true_or] at h2
        split at h2
        · cases h2
        · next g fs ts hopin =>
          split at h2
          · cases h2
          · next mem2 hmem2 =>
            cases h2
            obtain ⟨a, ha⟩ := he
            have hb' : ∃ b, encodePI pub ts = .ok b := by
              by_cases hp : i.op = .publish
              · obtain ⟨op, ins, onames⟩ := i
                simp only at hp
                subst hp
                simp only [opOff] at hop
                cases hop
                simp only [opIn] at hopin
                split at hopin
                · cases hopin
                · next fs' ts' hpa =>
                  cases hopin
                  rw [publishAll_types _ _ _ hpa]
                  exact encodePI_total hrel hcok
              · rw [opIn_ts_nil H _ _ i hp _ _ _ _ hopin]
                exact ⟨[], encodePI_nil_types _⟩
            obtain ⟨b, hb'⟩ := hb'
            exact ⟨a ++ b, encodePI_append_ok _ _ _ _ a b hinv.len.symm ha hb'⟩

/-- Along a run on which both interpreters succeed, `format_instance` stays defined and the
lockstep invariant holds at the end. -/
theorem runEnc (H : Hashes) (w : Witness) (hw : WitnessCanonical w) (hb : BytesOK H w) :
    ∀ (p : Program) (so : OffState) (si : InState) (so' : OffState) (si' : InState), Inv so si →
      MemOK si.mem → EncOK so si → (∀ i ∈ p, i.op.InRange) → RunRegular H w so p →
      runOff H w so p = .ok so' → runIn H (some w) si p = .ok si' → EncOK so' si' ∧ Inv so' si'
  | [], so, si, so', si', hinv, _, he, _, _, h1, h2 => by
    simp [runOff] at h1; simp [runIn] at h2; subst h1 h2
    exact ⟨he, hinv⟩
  | i :: rest, so, si, so', si', hinv, hm, he, hr, hreg, h1, h2 => by
    unfold runOff at h1
    split at h1
    · cases h1
    · next so1 hstep =>
      unfold runIn at h2
      split at h2
      · cases h2
      · next si1 hstep2 =>
        have hinv1 : Inv so1 si1 := by
          rcases stepSim H w so si i so1 hw hinv hreg.1 hstep with ⟨e, he', _⟩ | ⟨si1', hsi1', hinv1⟩
          · rw [hstep2] at he'; cases he'
          · rw [hstep2] at hsi1'; cases hsi1'; exact hinv1
        have hm1 := stepIn_ok H w hb si si1 i (hr i (List.mem_cons_self ..)) hm hstep2
        have he1 := stepEnc H w so si i so1 si1 hinv hm he hstep hstep2
        exact runEnc H w hw hb rest so1 si1 so' si' hinv1 hm1 he1
          (fun j hj => hr j (List.mem_cons_of_mem _ hj)) (hreg.2 so1 hstep) h1 h2

end MidnightZK.C18
