import MidnightZK.Proofs.C18.Sim
/-! # C18 — per-operation simulation lemmas -/
namespace MidnightZK.C18

/-- Errors with which the in-circuit pass may reject a program although the off-circuit
interpreter runs it: the three comparison operations are typed more strictly in-circuit, and
the BigUint gadget gives up (panics) when its limb bookkeeping overflows. -/
def Err.isStaticReject : Err → Bool
  | .unsupported .assertEq _ | .unsupported .assertNe _ | .unsupported .isEq _ => true
  | .panic _ => true
  | _ => false

theorem Err.static_of_panic (e : Err) (h : e.isPanic = true) : e.isStaticReject = true := by
  cases e <;> simp [Err.isPanic] at h <;> rfl

/-- Result of simulating one gadget call with a single output. -/
def GSim (r : IrValue) (x : Except Err GOut) : Prop :=
  (∃ e, x = .error e ∧ e.isStaticReject = true) ∨
  (∃ cr, x = .ok { outs := [cr], sat := true } ∧ Rel r cr)

theorem addSim {a b r ca cb} (ha : Rel a ca) (hb : Rel b cb) (h : addOff a b = .ok r) :
    GSim r (addIn ca cb) := by
  cases ha <;> cases hb <;> simp [addOff] at h
  · subst h; exact .inr ⟨_, rfl, .native _⟩
  · next s x hs t y ht =>
    subst h
    simp only [addIn]
    cases hsh : addShape s t with
    | error e => exact .inl ⟨e, by simp [Except.bind], Err.static_of_panic _ (addShape_err _ _ _ hsh)⟩
    | ok sh => exact .inr ⟨_, by simp [Except.bind, gok], .big _ _ (addShape_wellShaped _ _ _ hs ht hsh)⟩
  · subst h; exact .inr ⟨_, rfl, .point _ _⟩

theorem subSim {a b r ca cb} (ha : Rel a ca) (hb : Rel b cb) (h : subOff a b = .ok r) :
    GSim r (subIn ca cb) := by
  cases ha <;> cases hb <;> (try (simp [subOff] at h; done))
  · simp [subOff] at h; subst h; exact .inr ⟨_, rfl, .native _⟩
  · next s x hs t y ht =>
    simp only [subOff] at h
    split at h
    · next hge =>
      cases h
      simp only [subIn]
      cases hsh : subShape s t with
      | error e => exact .inl ⟨e, by simp [Except.bind], Err.static_of_panic _ (subShape_err _ _ _ hsh)⟩
      | ok sh =>
        exact .inr ⟨.big sh (x - y), by simp [Except.bind, hge], .big _ _ (subShape_ok _ _ _ hsh)⟩
    · cases h
  · simp [subOff] at h; subst h; exact .inr ⟨_, rfl, .point _ _⟩

theorem mulSim {a b r ca cb} (ha : Rel a ca) (hb : Rel b cb) (h : mulOff a b = .ok r) :
    GSim r (mulIn ca cb) := by
  cases ha <;> cases hb <;> simp [mulOff] at h
  · subst h; exact .inr ⟨_, rfl, .native _⟩
  · next s x hs t y ht =>
    subst h
    simp only [mulIn]
    cases hsh : mulShape s t with
    | error e => exact .inl ⟨e, by simp [Except.bind], Err.static_of_panic _ (mulShape_err _ _ _ hsh)⟩
    | ok sh => exact .inr ⟨_, by simp [Except.bind, gok], .big _ _ (mulShape_wellShaped _ _ _ hs ht hsh)⟩
  · subst h; exact .inr ⟨_, rfl, .point _ _⟩

theorem negSim {a r ca} (ha : Rel a ca) (h : negOff a = .ok r) : GSim r (negIn ca) := by
  cases ha <;> simp [negOff] at h
  · subst h; exact .inr ⟨_, rfl, .native _⟩
  · subst h; exact .inr ⟨_, rfl, .point _ _⟩

theorem modExpSim {a b r ca cb} (n : Nat) (ha : Rel a ca) (hb : Rel b cb)
    (h : modExpOff a n b = .ok r) : GSim r (modExpIn ca n cb) := by
  cases ha <;> cases hb <;> (try (simp [modExpOff] at h; done))
  next s x hs t y ht =>
  simp only [modExpOff] at h
  split at h
  · cases h
  · next hne =>
    cases h
    simp only [modExpIn]
    cases hsh : modExpShape s n t with
    | error e => exact .inl ⟨e, by simp [Except.bind], Err.static_of_panic _ (modExpShape_err _ _ _ _ hs hsh)⟩
    | ok sh =>
      exact .inr ⟨.big sh (powMod x n y), by simp [Except.bind, hne], .big _ _ (modExpShape_ok _ _ _ _ hs hsh)⟩

theorem affineSim {a r1 r2 ca} (ha : Rel a ca) (h : affineOff a = .ok (r1, r2)) :
    ∃ c1 c2, affineIn ca = .ok { outs := [c1, c2], sat := true } ∧ Rel r1 c1 ∧ Rel r2 c2 := by
  cases ha <;> simp [affineOff] at h
  obtain ⟨rfl, rfl⟩ := h
  exact ⟨_, _, rfl, .native _, .native _⟩

theorem pow248_lt_RJ : 2 ^ 248 < RJ := by decide

theorem intoBytesSim {a r ca} (n : Nat) (ha : Rel a ca) (h : intoBytesOff a n = .ok r) :
    GSim r (intoBytesIn true ca n) := by
  cases ha <;> (try (simp [intoBytesOff] at h; done))
  · next x =>
    simp only [intoBytesOff] at h
    split at h
    · cases h
    · next hc =>
      cases h
      have h1 : ¬ n > divCeil FBits 8 := by omega
      have h2 : x < 2 ^ (8 * n) := by omega
      exact .inr ⟨_, by simp [intoBytesIn, h1, h2], .bytes _⟩
  · next s x hs =>
    simp only [intoBytesOff] at h
    split at h
    · cases h
    · next hc =>
      cases h
      have hn := (wellShaped_length s hs).2.1
      have h2 : x < 2 ^ (8 * n) := (byteLen_le_iff x n).1 (by omega)
      exact .inr ⟨_, by simp [intoBytesIn, requireNormalized, hn, h2], .bytes _⟩
  · next u v =>
    simp only [intoBytesOff] at h
    split at h
    · next hn => cases h; exact .inr ⟨_, by simp [intoBytesIn, hn, gok], .bytes _⟩
    · cases h

/-- The byte strings that become Jubjub scalars in the same way on both sides: 1 to 31 bytes
(each below 256, so that the value is below `2^(8 len)`). -/
def RegularScalarBytes (bs : List Nat) : Prop :=
  bs.length ≠ 0 ∧ bs.length ≤ 31 ∧ leBytesToNat bs < 2 ^ (8 * bs.length)

theorem fromBytesSim {r} (t : IrType) (bs : List Nat) (hreg : t = .scalar → RegularScalarBytes bs)
    (h : fromBytesOff t bs = .ok r) : GSim r (fromBytesIn true t (.bytes bs)) := by
  cases t <;> (try (simp [fromBytesOff] at h; done))
  · simp [fromBytesOff] at h; subst h
    exact .inr ⟨_, by simp [fromBytesIn, gok], .native _⟩
  · next n =>
    simp only [fromBytesOff] at h
    split at h
    · next hc =>
      cases h
      exact .inr ⟨_, by simp [fromBytesIn, gok, hc],
        .big _ _ (fromBytesShape_wellShaped _ hc.2)⟩
    · cases h
  · simp only [fromBytesOff] at h
    split at h
    · next hl =>
      split at h
      · next p hp => cases h; exact .inr ⟨_, by simp [fromBytesIn, gok, hl, hp], .point _ _⟩
      · cases h
    · cases h
  · simp [fromBytesOff] at h; subst h
    obtain ⟨h0, h31, hlt⟩ := hreg rfl
    have hk : leBytesToNat bs < RJ := by
      have : 2 ^ (8 * bs.length) ≤ 2 ^ 248 := Nat.pow_le_pow_right (by decide) (by omega)
      have := pow248_lt_RJ
      omega
    rw [Nat.mod_eq_of_lt hk]
    exact .inr ⟨_, by simp [fromBytesIn, gok], .scalar _ _ (by omega) (by simp [FBits]; omega) hlt⟩

def Op.isComparison : Op → Bool
  | .assertEq | .assertNe | .isEq => true
  | _ => false

theorem unsupported_static (op : Op) (ts : List IrType) (h : op.isComparison = true) :
    (Err.unsupported op ts).isStaticReject = true := by
  cases op <;> simp [Op.isComparison] at h <;> rfl

theorem beq_decide' {α : Type} [DecidableEq α] (a b : α) : (a == b) = decide (a = b) := by
  by_cases h : a = b <;> simp [h]

theorem comparableSim {a b ca cb} (op : Op) (hop : op.isComparison = true)
    (ha : Rel a ca) (hb : Rel b cb) :
    (∃ e, comparableIn op ca cb = .error e ∧ e.isStaticReject = true) ∨
    comparableIn op ca cb = .ok (decide (a = b)) := by
  cases ha <;> cases hb <;>
    (try (exact .inl ⟨_, rfl, unsupported_static op _ hop⟩))
  · next x y => right; simp [comparableIn, beq_decide']
  · next v w =>
    simp only [comparableIn]
    split
    · right; by_cases hvw : v = w <;> simp [hvw]
    · exact .inl ⟨_, rfl, unsupported_static op _ hop⟩
  · right; simp [comparableIn, beq_decide']
  · next s x hs t y ht =>
    right
    simp [comparableIn, requireNormalized, (wellShaped_length s hs).2.1, (wellShaped_length t ht).2.1, Except.map, beq_decide']
  · right; simp [comparableIn, beq_decide']

theorem asNative_sim : ∀ {vs cvs xs}, ListRel vs cvs → mapE asNative vs = .ok xs →
    mapE asNativeIn cvs = .ok xs
  | _, _, xs, .nil, h => by simpa [mapE] using h
  | _, _, xs, .cons hr hrs, h => by
    unfold mapE at h ⊢
    split at h
    · cases h
    · next x hx =>
      split at h
      · cases h
      · next xs' hxs =>
        cases h
        cases hr <;> simp [asNative] at hx
        subst hx
        simp [asNativeIn, asNative_sim hrs hxs]

theorem asBytes_sim {v cv b} (hr : Rel v cv) (h : asBytes v = .ok b) : asBytesIn cv = .ok b := by
  cases hr <;> simp [asBytes] at h
  subst h; rfl

/-- Witness scalars are canonical (below the group order), as `JubjubFr` values are. -/
def WitnessCanonical (w : Witness) : Prop := ∀ n s, lookup n w = some (.scalar s) → s < RJ

theorem getT_ok {w t n v} (h : getT w t n = .ok v) : lookup n w = some v ∧ v.checkType t = .ok () := by
  unfold getT at h
  split at h
  · next v' hl =>
    split at h
    · next hc => cases h; exact ⟨hl, hc⟩
    · cases h
  · cases h

theorem loadOne_sim {w t n v} (hw : WitnessCanonical w) (ht : t ≠ .big 0) (h : getT w t n = .ok v) :
    ∃ cv, loadCVal t v = .ok cv ∧ Rel v cv := by
  obtain ⟨hl, hc⟩ := getT_ok h
  unfold IrValue.checkType at hc
  cases v with
  | bool b =>
    split at hc
    · next heq => simp [IrValue.type] at heq; subst heq; exact ⟨_, rfl, .bool b⟩
    · simp at hc
  | bytes bs =>
    split at hc
    · next heq => simp [IrValue.type] at heq; subst heq; exact ⟨_, rfl, .bytes bs⟩
    · simp at hc
  | native x =>
    split at hc
    · next heq => simp [IrValue.type] at heq; subst heq; exact ⟨_, rfl, .native x⟩
    · simp at hc
  | point u v =>
    split at hc
    · next heq => simp [IrValue.type] at heq; subst heq; exact ⟨_, rfl, .point u v⟩
    · simp at hc
  | scalar s =>
    split at hc
    · next heq =>
      simp [IrValue.type] at heq; subst heq
      have := hw n s hl
      have h252 := RJ_lt
      exact ⟨_, rfl, .scalar _ _ (by decide) (by decide) (by simp [RJBits]; omega)⟩
    · simp at hc
  | big x =>
    have key : ∀ k, t = .big k → ∃ cv, loadCVal t (.big x) = .ok cv ∧ Rel (.big x) cv := by
      intro k hk
      subst hk
      have hk0 : k ≠ 0 := fun h0 => ht (by rw [h0])
      exact ⟨.big (boundedShape k) x, by simp [loadCVal, assignBoundedShape, hk0, Except.map],
        .big _ _ (boundedShape_wellShaped k)⟩
    split at hc
    · next heq => simp [IrValue.type] at heq; exact key _ heq.symm
    · cases t <;> simp at hc
      exact key _ rfl

theorem loadAll_sim {w t} (hw : WitnessCanonical w) (ht : t ≠ .big 0) :
    ∀ (names : List String) (vs : List IrValue), mapE (getT w t) names = .ok vs →
      ∃ cs, mapE (loadCVal t) vs = .ok cs ∧ ListRel vs cs
  | [], vs, h => by simp [mapE] at h; subst h; exact ⟨[], by simp [mapE], .nil⟩
  | n :: rest, vs, h => by
    unfold mapE at h
    split at h
    · cases h
    · next v hv =>
      split at h
      · cases h
      · next vs' hvs =>
        cases h
        obtain ⟨cv, hcv, hr⟩ := loadOne_sim hw ht hv
        obtain ⟨cs, hcs, hrs⟩ := loadAll_sim hw ht rest vs' hvs
        exact ⟨cv :: cs, by simp [mapE, hcv, hcs], .cons hr hrs⟩

theorem scalarChunks_single (n k : Nat) (h1 : 1 ≤ n) (h2 : n ≤ FBits - 1) (hk : k < 2 ^ n) :
    scalarChunks (n + 1) n k = [k] := by
  have hn0 : n ≠ 0 := by omega
  have hsub : n - (FBits - 1) = 0 := by omega
  have hpow : 2 ^ n ≤ 2 ^ (FBits - 1) := Nat.pow_le_pow_right (by decide) h2
  have hmod : k % 2 ^ (FBits - 1) = k := Nat.mod_eq_of_lt (by omega)
  unfold scalarChunks
  simp only [hn0, if_false, hsub, hmod]
  cases n with
  | zero => omega
  | succ m => simp [scalarChunks]

theorem publishOne_sim {v cv} (hr : Rel v cv) :
    ∃ f, publishIn cv = .ok f ∧ ∀ f', encodeOne v cv.type = .ok f' → f' = f := by
  cases hr with
  | bool b => exact ⟨_, rfl, fun f' h => by simp [encodeOne, IrValue.checkType, IrValue.type, CVal.type] at h; exact h.symm⟩
  | bytes bs => exact ⟨_, rfl, fun f' h => by simp [encodeOne, IrValue.checkType, IrValue.type, CVal.type] at h; exact h.symm⟩
  | native x => exact ⟨_, rfl, fun f' h => by simp [encodeOne, IrValue.checkType, IrValue.type, CVal.type] at h; exact h.symm⟩
  | point u v => exact ⟨_, rfl, fun f' h => by simp [encodeOne, IrValue.checkType, IrValue.type, CVal.type] at h; exact h.symm⟩
  | scalar n s h1 h2 hs =>
    refine ⟨[s], by simp [publishIn, scalarChunks_single n s h1 h2 hs], fun f' h => ?_⟩
    simp [encodeOne, IrValue.checkType, IrValue.type, CVal.type] at h; exact h.symm
  | big s x hs =>
    obtain ⟨hlen, hnorm, _⟩ := wellShaped_length s hs
    refine ⟨toLimbs s.length x, by simp [publishIn, normalizeShape, hnorm, Except.map], fun f' h => ?_⟩
    simp only [encodeOne, CVal.type] at h
    split at h
    · cases h
    · simp at h; rw [← h, hlen]

theorem publishAll_sim : ∀ {vs cvs}, ListRel vs cvs →
    ∃ fs, publishAll cvs = .ok (fs, cvs.map CVal.type) ∧
      ∀ pi, encodePI vs (cvs.map CVal.type) = .ok pi → pi = fs
  | _, _, .nil => ⟨[], rfl, fun pi h => by simp [encodePI] at h; exact h⟩
  | _, _, .cons (v := v) (cv := cv) (vs := vs) (cvs := cvs) hr hrs => by
    obtain ⟨f, hf, hf'⟩ := publishOne_sim hr
    obtain ⟨fs, hfs, hfs'⟩ := publishAll_sim hrs
    refine ⟨f ++ fs, by simp [publishAll, hf, hfs], fun pi h => ?_⟩
    simp only [List.map_cons, encodePI] at h
    split at h
    · cases h
    · next f1 hf1 =>
      cases hrest : encodePI vs (cvs.map CVal.type) with
      | error e => rw [hrest] at h; simp [Except.map] at h
      | ok rest =>
        rw [hrest] at h; simp [Except.map] at h
        rw [← h, hf' f1 hf1, hfs' rest hrest]

theorem ListRel.length_eq : ∀ {vs cvs}, ListRel vs cvs → vs.length = cvs.length
  | _, _, .nil => rfl
  | _, _, .cons _ h => by simp [h.length_eq]

/-- Simulation of the running fold of `inner_product` (Native / BigUint branch). -/
theorem ipFold_sim : ∀ {vs cvs ws cws} (r0 : IrValue) (c0 : CVal) (r : IrValue),
    ListRel vs cvs → ListRel ws cws → Rel r0 c0 → ipFoldOff r0 vs ws = .ok r →
    GSim r (ipFoldIn { outs := [c0], sat := true } cvs cws)
  | _, _, _, _, r0, c0, r, .nil, _, h0, h => by
    simp [ipFoldOff] at h; subst h
    exact .inr ⟨c0, by simp [ipFoldIn], h0⟩
  | _, _, _, _, r0, c0, r, .cons _ _, .nil, h0, h => by
    simp [ipFoldOff] at h; subst h
    exact .inr ⟨c0, by simp [ipFoldIn], h0⟩
  | _, _, _, _, r0, c0, r, .cons hv hvs, .cons hw hws, h0, h => by
    simp only [ipFoldOff] at h
    split at h
    · cases h
    · next p hp =>
      split at h
      · cases h
      · next acc' hacc =>
        simp only [ipFoldIn]
        rcases mulSim hv hw hp with ⟨e, he, hs⟩ | ⟨cp, hcp, hrp⟩
        · exact .inl ⟨e, by simp [he], hs⟩
        · rcases addSim h0 hrp hacc with ⟨e, he, hs⟩ | ⟨ca, hca, hra⟩
          · exact .inl ⟨e, by simp [hcp, GOut.andThen, he], hs⟩
          · have := ipFold_sim acc' ca r hvs hws hra h
            simpa [hcp, GOut.andThen, hca] using this





theorem msmFold_cons (acc : Nat × Nat) (k : Nat × Nat) (ks : List (Nat × Nat)) (p : Nat × Nat)
    (ps : List (Nat × Nat)) :
    msmFold acc (k :: ks) (p :: ps) = msmFold (padd acc (smul k.2 p)) ks ps := by
  conv => lhs; unfold msmFold

set_option maxRecDepth 4000 in
theorem msm_sim : ∀ {vs cvs ws cws} (au av : Nat) (r : IrValue),
    ListRel vs cvs → ListRel ws cws → ipFoldOff (.point au av) vs ws = .ok r →
    vs.length = ws.length →
    ∃ ks ps, mapE asScalarIn cvs = .ok ks ∧ mapE asPointIn cws = .ok ps ∧
      r = .point (msmFold (au, av) ks ps).1 (msmFold (au, av) ks ps).2
  | _, _, _, _, au, av, r, .nil, .nil, h, _ => by
    simp [ipFoldOff] at h; subst h
    exact ⟨[], [], by simp [mapE], by simp [mapE], rfl⟩
  | _, _, _, _, au, av, r, .nil, .cons _ _, h, hl => by simp at hl
  | _, _, _, _, au, av, r, .cons _ _, .nil, h, hl => by simp at hl
  | _, _, _, _, au, av, r, .cons hv hvs, .cons hw hws, h, hl => by
    simp only [ipFoldOff] at h
    split at h
    · cases h
    · next p hp =>
      split at h
      · cases h
      · next acc' hacc =>
        -- the product must be a point, hence the factors a scalar and a point
        cases p <;> simp [addOff] at hacc
        next pu pv =>
        subst hacc
        cases hv <;> cases hw <;> simp [mulOff] at hp
        next n s h1 h2 hs u v =>
        obtain ⟨rfl, rfl⟩ := hp
        obtain ⟨ks, ps, hks, hps, hr⟩ := msm_sim _ _ r hvs hws h (by simpa using hl)
        exact ⟨(n, s) :: ks, (u, v) :: ps, by simp [mapE, asScalarIn, hks], by simp [mapE, asPointIn, hps],
          by rw [msmFold_cons]; exact hr⟩

set_option maxRecDepth 4000 in
theorem innerProductSim {vs cvs ws cws r} (hv : ListRel vs cvs) (hw : ListRel ws cws)
    (h : innerProductOff vs ws = .ok r) : GSim r (innerProductIn cvs cws) := by
  unfold innerProductOff at h
  split at h
  · cases h
  · next hlen =>
    have hlen' : vs.length = ws.length := by simpa using hlen
    have hclen : ¬ cvs.length ≠ cws.length := by
      rw [← hv.length_eq, ← hw.length_eq]; simpa using hlen'
    cases hv with
    | nil => simp at h
    | cons hv0 hvs =>
      cases hw with
      | nil => simp at h
      | cons hw0 hws =>
        simp only at h
        split at h
        · cases h
        · next acc hacc =>
          unfold innerProductIn
          simp only [hclen, if_false]
          cases hv0 <;> cases hw0 <;> (try (simp [mulOff] at hacc; done))
          · -- native x native
            rcases mulSim (.native _) (.native _) hacc with ⟨e, he, hs⟩ | ⟨cp, hcp, hrp⟩
            · exact .inl ⟨e, by simp [CVal.type, he], hs⟩
            · have := ipFold_sim acc cp r hvs hws hrp h
              simpa [CVal.type, hcp] using this
          · -- big x big
            next s x hs t y ht =>
            rcases mulSim (.big s x hs) (.big t y ht) hacc with ⟨e, he, hst⟩ | ⟨cp, hcp, hrp⟩
            · exact .inl ⟨e, by simp [CVal.type, he], hst⟩
            · have := ipFold_sim acc cp r hvs hws hrp h
              simpa [CVal.type, hcp] using this
          · -- scalar x point
            next n s h1 h2 hs u v =>
            simp [mulOff] at hacc
            subst hacc
            obtain ⟨ks, ps, hks, hps, hr⟩ := msm_sim _ _ r hvs hws h (by simpa using hlen')
            subst hr
            exact .inr ⟨_, by simp [CVal.type, mapE, asScalarIn, asPointIn, hks, hps, gok], .point _ _⟩

theorem ListRel.take : ∀ {vs cvs} (n : Nat), ListRel vs cvs → ListRel (vs.take n) (cvs.take n)
  | _, _, 0, _ => by simp; exact .nil
  | _, _, _ + 1, .nil => by simp; exact .nil
  | _, _, n + 1, .cons hr hrs => by simp; exact .cons hr (hrs.take n)

theorem ListRel.drop : ∀ {vs cvs} (n : Nat), ListRel vs cvs → ListRel (vs.drop n) (cvs.drop n)
  | _, _, 0, h => by simpa using h
  | _, _, _ + 1, .nil => by simp; exact .nil
  | _, _, n + 1, .cons hr hrs => by simp; exact hrs.drop n

/-- What one instruction of the in-circuit dispatch must deliver, given that the off-circuit
dispatch returned `outs` and published `pub`. -/
def OpSim (outs pub : List IrValue) (x : Except Err (GOut × List Nat × List IrType)) : Prop :=
  (∃ e, x = .error e ∧ e.isStaticReject = true) ∨
  (∃ couts fs ts, x = .ok ({ outs := couts, sat := true }, fs, ts) ∧ ListRel outs couts ∧
    ts.length = pub.length ∧ ∀ pi, encodePI pub ts = .ok pi → pi = fs)

theorem OpSim.of_gsim {r : IrValue} {x : Except Err GOut} (h : GSim r x) :
    OpSim [r] [] (x.map (fun g => (g, [], []))) := by
  rcases h with ⟨e, he, hs⟩ | ⟨cr, hcr, hr⟩
  · exact .inl ⟨e, by simp [he, Except.map], hs⟩
  · exact .inr ⟨[cr], [], [], by simp [hcr, Except.map], .cons hr .nil, rfl,
      fun pi h => by simp [encodePI] at h; exact h⟩

/-- Side condition of the agreement theorem on one instruction: byte strings turned into
Jubjub scalars are regular. -/
def StepRegular (i : Instr) (inps : List IrValue) : Prop :=
  i.op = .fromBytes .scalar → ∀ bs rest, inps = .bytes bs :: rest → RegularScalarBytes bs

theorem opSim (H : Hashes) (w : Witness) (i : Instr) (inps : List IrValue) (cinps : List CVal)
    (outs pub : List IrValue) (hw : WitnessCanonical w) (hrel : ListRel inps cinps)
    (hreg : StepRegular i inps) (h : opOff H w i inps = .ok (outs, pub)) :
    OpSim outs pub (opIn H (some w) true i cinps) := by
  obtain ⟨op, ins, onames⟩ := i
  cases op
  case load t =>
    simp only [opOff] at h
    split at h
    · cases h
    · next vs hvs =>
      split at h
      · cases h
      · next vs' hl =>
        have hout : vs' = outs ∧ [] = pub := by simpa using h
        obtain ⟨rfl, rfl⟩ := hout
        unfold loadOff at hl
        split at hl
        · cases hl
        · next ht =>
          split at hl
          · cases hl
          · have hvv : vs = vs' := by simpa using hl
            subst hvv
            obtain ⟨cs, hcs, hrs⟩ := loadAll_sim hw ht onames vs hvs
            refine .inr ⟨cs, [], [], ?_, hrs, rfl, fun pi h => by simp [encodePI] at h; exact h⟩
            simp only [opIn]
            have : mapE (loadValue (some w) t) onames = .ok vs := hvs
            simp [this, ht, hcs]
  case publish =>
    simp only [opOff] at h
    cases h
    obtain ⟨fs, hfs, hpi⟩ := publishAll_sim hrel
    exact .inr ⟨[], fs, _, by simp [opIn, hfs], .nil, by simp [hrel.length_eq], hpi⟩
  case assertEq =>
    simp only [opOff] at h
    cases hrel with
    | nil => simp at h
    | cons ha hrest =>
      cases hrest with
      | nil => simp at h
      | cons hb _ =>
        simp only [] at h
        split at h
        · cases h
        · next hc =>
          have hout : [] = outs ∧ [] = pub := by simpa using h
          obtain ⟨rfl, rfl⟩ := hout
          simp only [opIn]
          rcases comparableSim .assertEq rfl ha hb with ⟨e, he, hs⟩ | hok
          · exact .inl ⟨e, by simp [he, Except.map], hs⟩
          · refine .inr ⟨[], [], [], ?_, .nil, rfl, fun pi h => by simp [encodePI] at h; exact h⟩
            simp [hok, Except.map]
            simpa using hc
  case assertNe =>
    simp only [opOff] at h
    cases hrel with
    | nil => simp at h
    | cons ha hrest =>
      cases hrest with
      | nil => simp at h
      | cons hb _ =>
        simp only [] at h
        split at h
        · cases h
        · next hc =>
          have hout : [] = outs ∧ [] = pub := by simpa using h
          obtain ⟨rfl, rfl⟩ := hout
          simp only [opIn]
          rcases comparableSim .assertNe rfl ha hb with ⟨e, he, hs⟩ | hok
          · exact .inl ⟨e, by simp [he, Except.map], hs⟩
          · refine .inr ⟨[], [], [], ?_, .nil, rfl, fun pi h => by simp [encodePI] at h; exact h⟩
            simp [hok, Except.map]
            simpa using hc
  case isEq =>
    simp only [opOff] at h
    cases hrel with
    | nil => simp at h
    | @cons a ca _ _ ha hrest =>
      cases hrest with
      | nil => simp at h
      | @cons b cb _ _ hb _ =>
        simp only [] at h
        have hout : [IrValue.bool (decide (a = b))] = outs ∧ [] = pub := by simpa using h
        obtain ⟨rfl, rfl⟩ := hout
        simp only [opIn]
        rcases comparableSim .isEq rfl ha hb with ⟨e, he, hs⟩ | hok
        · exact .inl ⟨e, by simp [he, Except.map], hs⟩
        · exact .inr ⟨[.bool _], [], [], by simp [hok, Except.map], .cons (.bool _) .nil, rfl,
            fun pi h => by simp [encodePI] at h; exact h⟩
  case add =>
    simp only [opOff] at h
    cases hrel with
    | nil => simp at h
    | cons ha hrest =>
      cases hrest with
      | nil => simp at h
      | cons hb _ =>
        simp only [] at h
        obtain ⟨r, hr, hro⟩ := (Except.map_ok_iff _ _ _).1 h
        have hout : [r] = outs ∧ [] = pub := by simpa using hro
        obtain ⟨rfl, rfl⟩ := hout
        simp only [opIn]
        exact OpSim.of_gsim (addSim ha hb hr)
  case sub =>
    simp only [opOff] at h
    cases hrel with
    | nil => simp at h
    | cons ha hrest =>
      cases hrest with
      | nil => simp at h
      | cons hb _ =>
        simp only [] at h
        obtain ⟨r, hr, hro⟩ := (Except.map_ok_iff _ _ _).1 h
        have hout : [r] = outs ∧ [] = pub := by simpa using hro
        obtain ⟨rfl, rfl⟩ := hout
        simp only [opIn]
        exact OpSim.of_gsim (subSim ha hb hr)
  case mul =>
    simp only [opOff] at h
    cases hrel with
    | nil => simp at h
    | cons ha hrest =>
      cases hrest with
      | nil => simp at h
      | cons hb _ =>
        simp only [] at h
        obtain ⟨r, hr, hro⟩ := (Except.map_ok_iff _ _ _).1 h
        have hout : [r] = outs ∧ [] = pub := by simpa using hro
        obtain ⟨rfl, rfl⟩ := hout
        simp only [opIn]
        exact OpSim.of_gsim (mulSim ha hb hr)
  case neg =>
    simp only [opOff] at h
    cases hrel with
    | nil => simp at h
    | cons ha _ =>
      simp only [] at h
      obtain ⟨r, hr, hro⟩ := (Except.map_ok_iff _ _ _).1 h
      have hout : [r] = outs ∧ [] = pub := by simpa using hro
      obtain ⟨rfl, rfl⟩ := hout
      simp only [opIn]
      exact OpSim.of_gsim (negSim ha hr)
  case modExp n =>
    simp only [opOff] at h
    cases hrel with
    | nil => simp at h
    | cons ha hrest =>
      cases hrest with
      | nil => simp at h
      | cons hb _ =>
        simp only [] at h
        obtain ⟨r, hr, hro⟩ := (Except.map_ok_iff _ _ _).1 h
        have hout : [r] = outs ∧ [] = pub := by simpa using hro
        obtain ⟨rfl, rfl⟩ := hout
        simp only [opIn]
        exact OpSim.of_gsim (modExpSim n ha hb hr)
  case innerProduct =>
    simp only [opOff] at h
    obtain ⟨r, hr, hro⟩ := (Except.map_ok_iff _ _ _).1 h
    have hout : [r] = outs ∧ [] = pub := by simpa using hro
    obtain ⟨rfl, rfl⟩ := hout
    simp only [opIn]
    rw [← hrel.length_eq]
    exact OpSim.of_gsim (innerProductSim (hrel.take _) (hrel.drop _) hr)
  case affine =>
    simp only [opOff] at h
    cases hrel with
    | nil => simp at h
    | cons ha _ =>
      simp only [] at h
      obtain ⟨r, hr, hro⟩ := (Except.map_ok_iff _ _ _).1 h
      have hout : [r.1, r.2] = outs ∧ [] = pub := by simpa using hro
      obtain ⟨rfl, rfl⟩ := hout
      obtain ⟨c1, c2, hc, h1, h2⟩ := affineSim ha (r1 := r.1) (r2 := r.2) (by simpa using hr)
      exact .inr ⟨[c1, c2], [], [], by simp [opIn, hc, Except.map], .cons h1 (.cons h2 .nil), rfl,
        fun pi h => by simp [encodePI] at h; exact h⟩
  case intoBytes n =>
    simp only [opOff] at h
    cases hrel with
    | nil => simp at h
    | cons ha _ =>
      simp only [] at h
      obtain ⟨r, hr, hro⟩ := (Except.map_ok_iff _ _ _).1 h
      have hout : [r] = outs ∧ [] = pub := by simpa using hro
      obtain ⟨rfl, rfl⟩ := hout
      simp only [opIn]
      exact OpSim.of_gsim (intoBytesSim n ha hr)
  case fromBytes t =>
    simp only [opOff] at h
    cases hrel with
    | nil => simp at h
    | cons ha _ =>
      cases ha <;> (try (simp at h; done))
      next bs =>
      simp only [] at h
      obtain ⟨r, hr, hro⟩ := (Except.map_ok_iff _ _ _).1 h
      have hout : [r] = outs ∧ [] = pub := by simpa using hro
      obtain ⟨rfl, rfl⟩ := hout
      simp only [opIn]
      exact OpSim.of_gsim (fromBytesSim t bs (fun ht => hreg (by simp [ht]) bs _ rfl) hr)
  case poseidon =>
    simp only [opOff] at h
    split at h
    · cases h
    · next xs hxs =>
      have hout : [IrValue.native (H.poseidon xs)] = outs ∧ [] = pub := by simpa using h
      obtain ⟨rfl, rfl⟩ := hout
      exact .inr ⟨[.native _], [], [], by simp [opIn, asNative_sim hrel hxs], .cons (.native _) .nil, rfl,
        fun pi h => by simp [encodePI] at h; exact h⟩
  case sha256 =>
    simp only [opOff] at h
    cases hrel with
    | nil => simp at h
    | cons ha _ =>
      simp only [] at h
      obtain ⟨b, hb, hro⟩ := (Except.map_ok_iff _ _ _).1 h
      have hout : [IrValue.bytes (H.sha256 b)] = outs ∧ [] = pub := by simpa using hro
      obtain ⟨rfl, rfl⟩ := hout
      exact .inr ⟨[.bytes _], [], [], by simp [opIn, asBytes_sim ha hb, Except.map], .cons (.bytes _) .nil, rfl,
        fun pi h => by simp [encodePI] at h; exact h⟩
  case sha512 =>
    simp only [opOff] at h
    cases hrel with
    | nil => simp at h
    | cons ha _ =>
      simp only [] at h
      obtain ⟨b, hb, hro⟩ := (Except.map_ok_iff _ _ _).1 h
      have hout : [IrValue.bytes (H.sha512 b)] = outs ∧ [] = pub := by simpa using hro
      obtain ⟨rfl, rfl⟩ := hout
      exact .inr ⟨[.bytes _], [], [], by simp [opIn, asBytes_sim ha hb, Except.map], .cons (.bytes _) .nil, rfl,
        fun pi h => by simp [encodePI] at h; exact h⟩

end MidnightZK.C18
