import MidnightZK.Proofs.C18.Basic
/-!
# C18 — arity-checked instructions never reach an index panic
-/
namespace MidnightZK.C18

theorem len2 {α : Type} {l : List α} (h : l.length = 2) : ∃ a b, l = [a, b] := by
  match l, h with
  | [a, b], _ => exact ⟨a, b, rfl⟩

theorem len1 {α : Type} {l : List α} (h : l.length = 1) : ∃ a, l = [a] := by
  match l, h with
  | [a], _ => exact ⟨a, rfl⟩

theorem Except.map_ne_panic {α β : Type} (f : α → β) (x : Except Err α) (s : String)
    (h : x ≠ .error (.panic s)) : x.map f ≠ .error (.panic s) := by
  cases x with
  | error e => simpa [Except.map] using h
  | ok a => simp [Except.map]

theorem addOff_no_panic (x y : IrValue) (s : String) : addOff x y ≠ .error (.panic s) := by
  cases x <;> cases y <;> simp [addOff]

theorem subOff_no_panic (x y : IrValue) (s : String) : subOff x y ≠ .error (.panic s) := by
  cases x <;> cases y <;> simp [subOff] <;> split <;> simp

theorem mulOff_no_panic (x y : IrValue) (s : String) : mulOff x y ≠ .error (.panic s) := by
  cases x <;> cases y <;> simp [mulOff]

theorem negOff_no_panic (x : IrValue) (s : String) : negOff x ≠ .error (.panic s) := by
  cases x <;> simp [negOff]

theorem modExpOff_no_panic (x m : IrValue) (n : Nat) (s : String) :
    modExpOff x n m ≠ .error (.panic s) := by
  cases x <;> cases m <;> simp [modExpOff] <;> split <;> simp

theorem ipFoldOff_no_panic (s : String) : ∀ (v w : List IrValue) (acc : IrValue),
    ipFoldOff acc v w ≠ .error (.panic s)
  | [], _, _ => by simp [ipFoldOff]
  | _ :: _, [], _ => by simp [ipFoldOff]
  | a :: v, b :: w, acc => by
    unfold ipFoldOff
    split
    · next e h => intro h'; cases h'; exact mulOff_no_panic a b s h
    · split
      · next e h => intro h'; cases h'; exact addOff_no_panic _ _ s h
      · exact ipFoldOff_no_panic s v w _

theorem innerProductOff_no_panic (v w : List IrValue) (s : String) :
    innerProductOff v w ≠ .error (.panic s) := by
  unfold innerProductOff
  split
  · simp
  · split
    · split
      · next e h => intro h'; cases h'; exact mulOff_no_panic _ _ s h
      · exact ipFoldOff_no_panic s _ _ _
    · simp

theorem affineOff_no_panic (x : IrValue) (s : String) : affineOff x ≠ .error (.panic s) := by
  cases x <;> simp [affineOff]

theorem intoBytesOff_no_panic (x : IrValue) (n : Nat) (s : String) :
    intoBytesOff x n ≠ .error (.panic s) := by
  cases x <;> simp [intoBytesOff] <;> split <;> simp

theorem fromBytesOff_no_panic (t : IrType) (bs : List Nat) (s : String) :
    fromBytesOff t bs ≠ .error (.panic s) := by
  cases t <;> simp [fromBytesOff] <;> (try split) <;> (try split) <;> simp

theorem checkType_no_panic (v : IrValue) (t : IrType) (s : String) :
    v.checkType t ≠ .error (.panic s) := by
  unfold IrValue.checkType
  split
  · simp
  · split <;> (try split) <;> simp

theorem getT_no_panic (w : Witness) (t : IrType) (n : String) (s : String) :
    getT w t n ≠ .error (.panic s) := by
  unfold getT
  split
  · split
    · simp
    · next v e h => intro h'; cases h'; exact checkType_no_panic _ _ s h
  · simp

theorem mapE_no_panic {α β : Type} (f : α → Except Err β) (s : String)
    (hf : ∀ a, f a ≠ .error (.panic s)) : ∀ l, mapE f l ≠ .error (.panic s)
  | [] => by simp [mapE]
  | a :: rest => by
    unfold mapE
    split
    · next e h => intro h'; cases h'; exact hf a h
    · split
      · next e h => intro h'; cases h'; exact mapE_no_panic f s hf rest h
      · simp

theorem loadOff_no_panic (t : IrType) (vs : List IrValue) (s : String) :
    loadOff t vs ≠ .error (.panic s) := by
  unfold loadOff
  split
  · simp
  · split
    · next e h => intro h'; cases h'; exact mapE_no_panic _ s (fun v => checkType_no_panic v t s) vs h
    · simp

theorem asNative_no_panic (x : IrValue) (s : String) : asNative x ≠ .error (.panic s) := by
  cases x <;> simp [asNative]

theorem asBytes_no_panic (x : IrValue) (s : String) : asBytes x ≠ .error (.panic s) := by
  cases x <;> simp [asBytes]

theorem Except.map_ok_iff {α β : Type} (f : α → β) (x : Except Err α) (b : β) :
    x.map f = .ok b ↔ ∃ a, x = .ok a ∧ f a = b := by
  cases x <;> simp [Except.map]

theorem opOff_spec (H : Hashes) (w : Witness) (i : Instr) (inps : List IrValue)
    (ha : i.arityOk = true) (hl : inps.length = i.ins.length) :
    (∀ s, opOff H w i inps ≠ .error (.panic s)) ∧
    (∀ outs pub, opOff H w i inps = .ok (outs, pub) → outs.length = i.outs.length) := by
  obtain ⟨op, ins, outs⟩ := i
  simp only [Instr.arityOk, Bool.and_eq_true] at ha
  obtain ⟨hin, hout⟩ := ha
  cases op <;> simp only [Op.inputArity, Op.outputArity, Arity.admits, beq_iff_eq, bne_iff_ne,
    Bool.and_eq_true, ne_eq] at hin hout
  case load t =>
    simp only [opOff]
    constructor
    · intro s
      split
      · next e h => intro h'; cases h'; exact mapE_no_panic _ s (fun n => getT_no_panic w t n s) _ h
      · split
        · next e h => intro h'; cases h'; exact loadOff_no_panic _ _ s h
        · simp
    · intro o p
      split
      · simp
      · next vs hvs =>
        split
        · simp
        · next vs' hl' =>
          intro h; cases h
          have := mapE_length _ _ _ hvs
          unfold loadOff at hl'
          split at hl'
          · cases hl'
          · split at hl'
            · cases hl'
            · cases hl'; exact this
  case publish =>
    simp [opOff]; omega
  case assertEq | assertNe =>
    obtain ⟨a, b, rfl⟩ := len2 (hl.trans hin.symm)
    simp only [opOff]
    constructor
    · intro s; split <;> simp
    · intro o p; split <;> intro h <;> cases h
      simpa using hout
  case isEq =>
    obtain ⟨a, b, rfl⟩ := len2 (hl.trans hin.symm)
    simp [opOff]; omega
  case add =>
    obtain ⟨a, b, rfl⟩ := len2 (hl.trans hin.symm)
    simp only [opOff]
    exact ⟨fun s => Except.map_ne_panic _ _ s (addOff_no_panic a b s),
      fun o p h => by obtain ⟨r, _, hr⟩ := (Except.map_ok_iff _ _ _).1 h; cases hr; simp; omega⟩
  case sub =>
    obtain ⟨a, b, rfl⟩ := len2 (hl.trans hin.symm)
    simp only [opOff]
    exact ⟨fun s => Except.map_ne_panic _ _ s (subOff_no_panic a b s),
      fun o p h => by obtain ⟨r, _, hr⟩ := (Except.map_ok_iff _ _ _).1 h; cases hr; simp; omega⟩
  case mul =>
    obtain ⟨a, b, rfl⟩ := len2 (hl.trans hin.symm)
    simp only [opOff]
    exact ⟨fun s => Except.map_ne_panic _ _ s (mulOff_no_panic a b s),
      fun o p h => by obtain ⟨r, _, hr⟩ := (Except.map_ok_iff _ _ _).1 h; cases hr; simp; omega⟩
  case neg =>
    obtain ⟨a, rfl⟩ := len1 (hl.trans hin.symm)
    simp only [opOff]
    exact ⟨fun s => Except.map_ne_panic _ _ s (negOff_no_panic a s),
      fun o p h => by obtain ⟨r, _, hr⟩ := (Except.map_ok_iff _ _ _).1 h; cases hr; simp; omega⟩
  case modExp n =>
    obtain ⟨a, b, rfl⟩ := len2 (hl.trans hin.symm)
    simp only [opOff]
    exact ⟨fun s => Except.map_ne_panic _ _ s (modExpOff_no_panic a b n s),
      fun o p h => by obtain ⟨r, _, hr⟩ := (Except.map_ok_iff _ _ _).1 h; cases hr; simp; omega⟩
  case innerProduct =>
    simp only [opOff]
    exact ⟨fun s => Except.map_ne_panic _ _ s (innerProductOff_no_panic _ _ s),
      fun o p h => by obtain ⟨r, _, hr⟩ := (Except.map_ok_iff _ _ _).1 h; cases hr; simp; omega⟩
  case affine =>
    obtain ⟨a, rfl⟩ := len1 (hl.trans hin.symm)
    simp only [opOff]
    exact ⟨fun s => Except.map_ne_panic _ _ s (affineOff_no_panic a s),
      fun o p h => by obtain ⟨r, _, hr⟩ := (Except.map_ok_iff _ _ _).1 h; cases hr; simp; omega⟩
  case intoBytes n =>
    obtain ⟨a, rfl⟩ := len1 (hl.trans hin.symm)
    simp only [opOff]
    exact ⟨fun s => Except.map_ne_panic _ _ s (intoBytesOff_no_panic a n s),
      fun o p h => by obtain ⟨r, _, hr⟩ := (Except.map_ok_iff _ _ _).1 h; cases hr; simp; omega⟩
  case fromBytes t =>
    obtain ⟨a, rfl⟩ := len1 (hl.trans hin.symm)
    cases a <;> simp only [opOff]
    case bytes bs =>
      exact ⟨fun s => Except.map_ne_panic _ _ s (fromBytesOff_no_panic t bs s),
        fun o p h => by obtain ⟨r, _, hr⟩ := (Except.map_ok_iff _ _ _).1 h; cases hr; simp; omega⟩
    all_goals simp
  case poseidon =>
    simp only [opOff]
    constructor
    · intro s; split
      · next e h => intro h'; cases h'; exact mapE_no_panic _ s (fun a => asNative_no_panic a s) _ h
      · simp
    · intro o p; split <;> intro h <;> cases h
      simpa using hout
  case sha256 =>
    obtain ⟨a, rfl⟩ := len1 (hl.trans hin.symm)
    simp only [opOff]
    exact ⟨fun s => Except.map_ne_panic _ _ s (asBytes_no_panic a s),
      fun o p h => by obtain ⟨r, _, hr⟩ := (Except.map_ok_iff _ _ _).1 h; cases hr; simp; omega⟩
  case sha512 =>
    obtain ⟨a, rfl⟩ := len1 (hl.trans hin.symm)
    simp only [opOff]
    exact ⟨fun s => Except.map_ne_panic _ _ s (asBytes_no_panic a s),
      fun o p h => by obtain ⟨r, _, hr⟩ := (Except.map_ok_iff _ _ _).1 h; cases hr; simp; omega⟩


theorem resolveOff_no_panic (mem : List (String × IrValue)) (n : String) (s : String) :
    resolveOff mem n ≠ .error (.panic s) := by
  unfold resolveOff
  split
  · simp
  · split <;> simp

/-- An arity-checked instruction never reaches an index / length panic off-circuit. -/
theorem stepOff_no_panic (H : Hashes) (w : Witness) (st : OffState) (i : Instr)
    (ha : i.arityOk = true) (s : String) : stepOff H w st i ≠ .error (.panic s) := by
  unfold stepOff
  split
  · next e h => intro h'; cases h'; exact mapE_no_panic _ s (fun n => resolveOff_no_panic _ n s) _ h
  · next inps hin =>
    have hl := mapE_length _ _ _ hin
    have hs := opOff_spec H w i inps ha hl
    split
    · next e h => intro h'; cases h'; exact hs.1 s h
    · next outs pub h =>
      have := hs.2 outs pub h
      split
      · next e h2 => intro h'; cases h'; exact insertMany_no_panic _ _ _ s this.symm h2
      · simp

theorem runOff_no_panic (H : Hashes) (w : Witness) (s : String) :
    ∀ (p : Program) (st : OffState), (∀ i ∈ p, i.arityOk = true) → runOff H w st p ≠ .error (.panic s)
  | [], st, _ => by simp [runOff]
  | i :: rest, st, h => by
    unfold runOff
    split
    · next e he => intro h'; cases h'; exact stepOff_no_panic H w st i (h i (by simp)) s he
    · exact runOff_no_panic H w s rest _ (fun j hj => h j (by simp [hj]))

end MidnightZK.C18
