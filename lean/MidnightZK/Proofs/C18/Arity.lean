import MidnightZK.Proofs.C18.Basic
/-!
# C18 — arity-checked instructions never reach an index panic
-/
namespace MidnightZK.C18

theorem len2 {α : Type} {l : List α} (h : l.length = 2) : ∃ a b, l = [a, b] := by
  match l, h with
  | [a, b], _ => exact ⟨a, b, rfl⟩

theorem len1 {α : Type} {l : List α} (h : l.length = 1) : ∃ a, l = [a] := by
  match l, h with
  | [a], _ => exact ⟨a, rfl⟩

theorem Except.map_ne_panic {α β : Type} (f : α → β) (x : Except Err α) (s : String)
    (h : x ≠ .error (.panic s)) : x.map f ≠ .error (.panic s) := by
  cases x with
  | error e => simpa [Except.map] using h
  | ok a => simp [Except.map]

theorem addOff_no_panic (x y : IrValue) (s : String) : addOff x y ≠ .error (.panic s) := by
  cases x <;> cases y <;> simp [addOff]

theorem subOff_no_panic (x y : IrValue) (s : String) : subOff x y ≠ .error (.panic s) := by
  cases x <;> cases y <;> simp [subOff] <;> split <;> simp

theorem mulOff_no_panic (x y : IrValue) (s : String) : mulOff x y ≠ .error (.panic s) := by
  cases x <;> cases y <;> simp [mulOff]

theorem negOff_no_panic (x : IrValue) (s : String) : negOff x ≠ .error (.panic s) := by
  cases x <;> simp [negOff]

theorem modExpOff_no_panic (x m : IrValue) (n : Nat) (s : String) :
    modExpOff x n m ≠ .error (.panic s) := by
  cases x <;> cases m <;> simp [modExpOff] <;> split <;> simp

theorem ipFoldOff_no_panic (s : String) : ∀ (v w : List IrValue) (acc : IrValue),
    ipFoldOff acc v w ≠ .error (.panic s)
  | [], _, _ => by simp [ipFoldOff]
  | _ :: _, [], _ => by simp [ipFoldOff]
  | a :: v, b :: w, acc => by
    unfold ipFoldOff
    split
    · next e h => intro h'; cases h'; exact mulOff_no_panic a b s h
    · split
      · next e h => intro h'; cases h'; exact addOff_no_panic _ _ s h
      · exact ipFoldOff_no_panic s v w _

theorem innerProductOff_no_panic (v w : List IrValue) (s : String) :
    innerProductOff v w ≠ .error (.panic s) := by
  unfold innerProductOff
  split
  · simp
  · split
    · split
      · next e h => intro h'; cases h'; exact mulOff_no_panic _ _ s h
      · exact ipFoldOff_no_panic s _ _ _
    · simp

theorem affineOff_no_panic (x : IrValue) (s : String) : affineOff x ≠ .error (.panic s) := by
  cases x <;> simp [affineOff]

theorem intoBytesOff_no_panic (x : IrValue) (n : Nat) (s : String) :
    intoBytesOff x n ≠ .error (.panic s) := by
  cases x <;> simp [intoBytesOff] <;> split <;> simp

theorem fromBytesOff_no_panic (t : IrType) (bs : List Nat) (s : String) :
    fromBytesOff t bs ≠ .error (.panic s) := by
  cases t <;> simp [fromBytesOff] <;> (try split) <;> (try split) <;> simp

theorem checkType_no_panic (v : IrValue) (t : IrType) (s : String) :
    v.checkType t ≠ .error (.panic s) := by
  unfold IrValue.checkType
  split
  · simp
  · split <;> (try split) <;> simp

theorem getT_no_panic (w : Witness) (t : IrType) (n : String) (s : String) :
    getT w t n ≠ .error (.panic s) := by
  unfold getT
  split
  · split
    · simp
    · next v e h => intro h'; cases h'; exact checkType_no_panic _ _ s h
  · simp

theorem mapE_no_panic {α β : Type} (f : α → Except Err β) (s : String)
    (hf : ∀ a, f a ≠ .error (.panic s)) : ∀ l, mapE f l ≠ .error (.panic s)
  | [] => by simp [mapE]
  | a :: rest => by
    unfold mapE
    split
    · next e h => intro h'; cases h'; exact hf a h
    · split
      · next e h => intro h'; cases h'; exact mapE_no_panic f s hf rest h
      · simp

theorem loadOff_no_panic (t : IrType) (vs : List IrValue) (s : String) :
    loadOff t vs ≠ .error (.panic s) := by
  unfold loadOff
  split
  · simp
  · split
    · next e h => intro h'; cases h'; exact mapE_no_panic _ s (fun v => checkType_no_panic v t s) vs h
    · simp

theorem asNative_no_panic (x : IrValue) (s : String) : asNative x ≠ .error (.panic s) := by
  cases x <;> simp [asNative]

theorem asBytes_no_panic (x : IrValue) (s : String) : asBytes x ≠ .error (.panic s) := by
  cases x <;> simp [asBytes]

end MidnightZK.C18
