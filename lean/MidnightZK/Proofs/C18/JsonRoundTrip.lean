import MidnightZK.Model.C18.Json
import MidnightZK.Proofs.C18.BinRoundTrip
/-! JSON round trip of a ZKIR program at the level of the serde data model (C18). -/
namespace MidnightZK.C18

theorem numFromJson_num (max n : Nat) (h : n ≤ max) : numFromJson max (.num (n : Int)) = .ok n := by
  simp [numFromJson, h]

theorem typeFromJson_toJson (t : IrType) (hr : t.InRange) : typeFromJson (typeToJson t) = .ok t := by
  cases t <;> simp only [IrType.InRange] at hr <;>
    simp [typeToJson, typeFromJson, enumFromJson, typeVariant, IrType.serdeName]
  · rw [numFromJson_num _ _ (by simp [U64MAX]; omega)]
  · rw [numFromJson_num _ _ (by simp [U32MAX]; omega)]

theorem opFromJson_toJson (o : Op) (hr : o.InRange) : opFromJson (opToJson o) = .ok o := by
  cases o <;> simp only [Op.InRange] at hr <;>
    simp [opToJson, opFromJson, enumFromJson, opVariant, Op.serdeName]
  · rw [typeFromJson_toJson _ hr]
  · rw [numFromJson_num _ _ (by simp [U64MAX]; omega)]
  · rw [numFromJson_num _ _ (by simp [U64MAX]; omega)]
  · rw [typeFromJson_toJson _ hr]

theorem namesFromJson_toJson : ∀ l : List String, namesFromJson (namesToJson l) = .ok l := by
  intro l
  simp only [namesFromJson, namesToJson]
  induction l with
  | nil => rfl
  | cons a t ih => simp [mapJ, strFromJson, ih]

theorem instrFromJson_toJson (i : Instr) (hr : i.op.InRange) : instrFromJson (instrToJson i) = .ok i := by
  obtain ⟨op, ins, outs⟩ := i
  simp [instrFromJson, instrToJson, instrFields, opFromJson_toJson op hr, namesFromJson_toJson]

theorem instrsFromJson_toJson : ∀ p : Program, (∀ i ∈ p, i.op.InRange) →
    mapJ instrFromJson (p.map instrToJson) = .ok p
  | [], _ => rfl
  | i :: t, h => by
    simp [mapJ, instrFromJson_toJson i (h i (List.mem_cons_self ..)),
      instrsFromJson_toJson t (fun j hj => h j (List.mem_cons_of_mem _ hj))]

/-- The most compact object the reader accepts for an instruction: the fields with a serde
default (`inputs`, `outputs`) are left out when they are empty. -/
def instrToJsonMin (i : Instr) : Json :=
  .obj ([("op", opToJson i.op)] ++ (if i.ins = [] then [] else [("inputs", namesToJson i.ins)])
    ++ (if i.outs = [] then [] else [("outputs", namesToJson i.outs)]))

/-- The positional form (`visit_seq` of the derived `Deserialize`): trailing fields with a
default may be missing. -/
def instrToJsonSeq (i : Instr) : Json :=
  .arr ([opToJson i.op] ++ (if i.outs = [] then (if i.ins = [] then [] else [namesToJson i.ins])
    else [namesToJson i.ins, namesToJson i.outs]))

theorem instrFromJson_min (i : Instr) (hr : i.op.InRange) : instrFromJson (instrToJsonMin i) = .ok i := by
  obtain ⟨op, ins, outs⟩ := i
  by_cases h1 : ins = [] <;> by_cases h2 : outs = [] <;>
    simp [instrFromJson, instrToJsonMin, instrFields, opFromJson_toJson op hr, namesFromJson_toJson, h1, h2]

theorem instrFromJson_seq (i : Instr) (hr : i.op.InRange) : instrFromJson (instrToJsonSeq i) = .ok i := by
  obtain ⟨op, ins, outs⟩ := i
  by_cases h1 : ins = [] <;> by_cases h2 : outs = [] <;>
    simp [instrFromJson, instrToJsonSeq, opFromJson_toJson op hr, namesFromJson_toJson, h1, h2]

theorem instrsFromJson_min : ∀ p : Program, (∀ i ∈ p, i.op.InRange) →
    mapJ instrFromJson (p.map instrToJsonMin) = .ok p
  | [], _ => rfl
  | i :: t, h => by
    simp [mapJ, instrFromJson_min i (h i (List.mem_cons_self ..)),
      instrsFromJson_min t (fun j hj => h j (List.mem_cons_of_mem _ hj))]

theorem instrsFromJson_seq : ∀ p : Program, (∀ i ∈ p, i.op.InRange) →
    mapJ instrFromJson (p.map instrToJsonSeq) = .ok p
  | [], _ => rfl
  | i :: t, h => by
    simp [mapJ, instrFromJson_seq i (h i (List.mem_cons_self ..)),
      instrsFromJson_seq t (fun j hj => h j (List.mem_cons_of_mem _ hj))]

end MidnightZK.C18
