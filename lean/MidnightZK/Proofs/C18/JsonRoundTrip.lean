import MidnightZK.Model.C18.Json
import MidnightZK.Proofs.C18.BinRoundTrip
/-! JSON round trip of a ZKIR program at the level of the serde data model (C18). -/
namespace MidnightZK.C18

theorem numFromJson_num (max n : Nat) (h : n ≤ max) : numFromJson max (.num (n : Int)) = .ok n := by
  simp [numFromJson, h]

theorem typeFromJson_toJson (t : IrType) (hr : t.InRange) : typeFromJson (typeToJson t) = .ok t := by
  cases t <;> simp only [IrType.InRange] at hr <;>
    simp [typeToJson, typeFromJson, enumFromJson, typeVariant, IrType.serdeName]
  · rw [numFromJson_num _ _ (by simp [U64MAX]; omega)]
  · rw [numFromJson_num _ _ (by simp [U32MAX]; omega)]

theorem opFromJson_toJson (o : Op) (hr : o.InRange) : opFromJson (opToJson o) = .ok o := by
  cases o <;> simp only [Op.InRange] at hr <;>
    simp [opToJson, opFromJson, enumFromJson, opVariant, Op.serdeName]
  · rw [typeFromJson_toJson _ hr]
  · rw [numFromJson_num _ _ (by simp [U64MAX]; omega)]
  · rw [numFromJson_num _ _ (by simp [U64MAX]; omega)]
  · rw [typeFromJson_toJson _ hr]

theorem namesFromJson_toJson : ∀ l : List String, namesFromJson (namesToJson l) = .ok l := by
  intro l
  simp only [namesFromJson, namesToJson]
  induction l with
  | nil => rfl
  | cons a t ih => simp [mapJ, strFromJson, ih]

theorem instrFromJson_toJson (i : Instr) (hr : i.op.InRange) : instrFromJson (instrToJson i) = .ok i := by
  obtain ⟨op, ins, outs⟩ := i
  simp [instrFromJson, instrToJson, instrFields, opFromJson_toJson op hr, namesFromJson_toJson]

theorem instrsFromJson_toJson : ∀ p : Program, (∀ i ∈ p, i.op.InRange) →
    mapJ instrFromJson (p.map instrToJson) = .ok p
  | [], _ => rfl
  | i :: t, h => by
    simp [mapJ, instrFromJson_toJson i (h i (List.mem_cons_self ..)),
      instrsFromJson_toJson t (fun j hj => h j (List.mem_cons_of_mem _ hj))]

end MidnightZK.C18
