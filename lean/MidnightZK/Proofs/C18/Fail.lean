import MidnightZK.Proofs.C18.SimRun
/-! # C18 — when the off-circuit interpreter rejects, the circuit is not satisfied -/
namespace MidnightZK.C18

/-- The in-circuit gadget call is not satisfied, given that the off-circuit operation failed with
`e`: it returns an error value, or — only when `e` is a condition on the witness (assertion,
underflow, range, zero modulus) — it runs and a constraint is violated. -/
def GFail (e : Err) (x : Except Err GOut) : Prop :=
  (∃ e', x = .error e') ∨ (e.isWitnessCondition = true ∧ ∃ g, x = .ok g ∧ g.sat = false)

theorem addFail {a b ca cb e} (ha : Rel a ca) (hb : Rel b cb) (h : addOff a b = .error e) :
    ∃ e', addIn ca cb = .error e' := by
  cases ha <;> cases hb <;> first | (simp [addOff] at h; done) | exact ⟨_, rfl⟩

theorem subFail {a b ca cb e} (ha : Rel a ca) (hb : Rel b cb) (h : subOff a b = .error e) :
    GFail e (subIn ca cb) := by
  cases ha <;> cases hb <;> first | (simp [subOff] at h; done) | exact .inl ⟨_, rfl⟩ | skip
  next s x hs t y ht =>
  simp only [subOff] at h
  split at h
  · cases h
  · next hlt =>
    cases h
    simp only [subIn]
    cases hsh : subShape s t with
    | error e' => exact .inl ⟨e', by simp [Except.bind]⟩
    | ok sh => exact .inr ⟨rfl, _, by simp [Except.bind]; rfl, by simp [hlt]⟩

theorem mulFail {a b ca cb e} (ha : Rel a ca) (hb : Rel b cb) (h : mulOff a b = .error e) :
    ∃ e', mulIn ca cb = .error e' := by
  cases ha <;> cases hb <;> first | (simp [mulOff] at h; done) | exact ⟨_, rfl⟩

theorem negFail {a ca e} (ha : Rel a ca) (h : negOff a = .error e) :
    ∃ e', negIn ca = .error e' := by
  cases ha <;> first | (simp [negOff] at h; done) | exact ⟨_, rfl⟩

theorem modExpFail {a b ca cb e} (n : Nat) (ha : Rel a ca) (hb : Rel b cb)
    (h : modExpOff a n b = .error e) : GFail e (modExpIn ca n cb) := by
  cases ha <;> cases hb <;> first | (simp [modExpOff] at h; done) | exact .inl ⟨_, rfl⟩ | skip
  next s x hs t y ht =>
  simp only [modExpOff] at h
  split at h
  · next h0 =>
    cases h
    simp only [modExpIn]
    cases hsh : modExpShape s n t with
    | error e' => exact .inl ⟨e', by simp [Except.bind]⟩
    | ok sh => exact .inr ⟨rfl, _, by simp [Except.bind]; rfl, by simp [h0]⟩
  · cases h

theorem affineFail {a ca e} (ha : Rel a ca) (h : affineOff a = .error e) :
    ∃ e', affineIn ca = .error e' := by
  cases ha <;> first | (simp [affineOff] at h; done) | exact ⟨_, rfl⟩

theorem intoBytesFail {a ca e} (n : Nat) (ha : Rel a ca) (h : intoBytesOff a n = .error e) :
    GFail e (intoBytesIn true ca n) := by
  cases ha <;> first | (simp [intoBytesOff] at h; done) | exact .inl ⟨_, rfl⟩ | skip
  · next x =>
    simp only [intoBytesOff] at h
    split at h
    · next hc =>
      simp only [intoBytesIn]
      split
      · exact .inl ⟨_, rfl⟩
      · next hn =>
        have : ¬ x < 2 ^ (8 * n) := by omega
        simp [this]; exact .inl ⟨_, rfl⟩
    · cases h
  · next s x hs =>
    simp only [intoBytesOff] at h
    split at h
    · next hc =>
      cases h
      have hn := (wellShaped_length s hs).2.1
      have : ¬ x < 2 ^ (8 * n) := by
        intro hlt; have := (byteLen_le_iff x n).2 hlt; omega
      exact .inr ⟨rfl, _, by simp [intoBytesIn, requireNormalized, hn]; rfl, by simp [this]⟩
    · cases h
  · next u v =>
    simp only [intoBytesOff] at h
    split at h
    · cases h
    · next hn => exact .inl ⟨.unsupported (.intoBytes n) [.point], by simp [intoBytesIn, hn, CVal.type]⟩

theorem fromBytesFail {e} (t : IrType) (bs : List Nat) (h : fromBytesOff t bs = .error e) :
    ∃ e', fromBytesIn true t (.bytes bs) = .error e' := by
  cases t <;> first | (simp [fromBytesOff] at h; done) | exact ⟨_, rfl⟩ | skip
  · next n =>
    simp only [fromBytesOff] at h
    split at h
    · cases h
    · next hc =>
      simp only [fromBytesIn]
      split
      · next hc' => exact absurd hc' hc
      · exact ⟨_, rfl⟩
  · simp only [fromBytesOff] at h
    split at h
    · next hl =>
      split at h
      · cases h
      · next hp => exact ⟨.cannotConvert, by simp [fromBytesIn, hl, hp]⟩
    · next hl => exact ⟨.unsupported (.fromBytes .point) [.bytes bs.length], by simp [fromBytesIn, hl, CVal.type]⟩


theorem asNative_fail : ∀ {vs cvs e}, ListRel vs cvs → mapE asNative vs = .error e →
    ∃ e', mapE asNativeIn cvs = .error e'
  | _, _, e, .nil, h => by simp [mapE] at h
  | _, _, e, .cons hr hrs, h => by
    unfold mapE at h ⊢
    split at h
    · next e1 he1 =>
      cases hr <;> first | (simp [asNative] at he1; done) | exact ⟨.typeConvert, by simp [asNativeIn]⟩
    · next x hx =>
      have hx' := hx
      cases hr <;> simp [asNative] at hx'
      subst hx'
      split at h
      · next e2 he2 =>
        obtain ⟨e', he'⟩ := asNative_fail hrs he2
        exact ⟨e', by simp [asNativeIn, he']⟩
      · cases h

theorem asBytes_fail {v cv e} (hr : Rel v cv) (h : asBytes v = .error e) :
    ∃ e', asBytesIn cv = .error e' := by
  cases hr <;> first | (simp [asBytes] at h; done) | exact ⟨_, rfl⟩

/-- The fold of `inner_product` fails in-circuit when it fails off-circuit. -/
theorem ipFold_fail : ∀ {vs cvs ws cws} (r0 : IrValue) (c0 : CVal) (b : Bool) (e : Err),
    ListRel vs cvs → ListRel ws cws → Rel r0 c0 → ipFoldOff r0 vs ws = .error e →
    ∃ e', ipFoldIn { outs := [c0], sat := b } cvs cws = .error e'
  | _, _, _, _, r0, c0, b, e, .nil, _, h0, h => by simp [ipFoldOff] at h
  | _, _, _, _, r0, c0, b, e, .cons _ _, .nil, h0, h => by simp [ipFoldOff] at h
  | _, _, _, _, r0, c0, b, e, .cons hv hvs, .cons hw hws, h0, h => by
    simp only [ipFoldOff] at h
    simp only [ipFoldIn]
    split at h
    · next e1 he1 =>
      obtain ⟨e', he'⟩ := mulFail hv hw he1
      exact ⟨e', by simp [he']⟩
    · next p hp =>
      rcases mulSim hv hw hp with ⟨e1, he1, _⟩ | ⟨cp, hcp, hrp⟩
      · exact ⟨e1, by simp [he1]⟩
      · split at h
        · next e2 he2 =>
          obtain ⟨e', he'⟩ := addFail h0 hrp he2
          exact ⟨e', by simp [hcp, GOut.andThen, he']⟩
        · next acc' hacc =>
          rcases addSim h0 hrp hacc with ⟨e3, he3, _⟩ | ⟨ca, hca, hra⟩
          · exact ⟨e3, by simp [hcp, GOut.andThen, he3]⟩
          · obtain ⟨e', he'⟩ := ipFold_fail acc' ca (b && true && true) e hvs hws hra h
            exact ⟨e', by simpa [hcp, GOut.andThen, hca] using he'⟩

theorem msm_fail : ∀ {vs cvs ws cws} (au av : Nat) (e : Err),
    ListRel vs cvs → ListRel ws cws → ipFoldOff (.point au av) vs ws = .error e →
    (∃ e', mapE asScalarIn cvs = .error e') ∨ (∃ e', mapE asPointIn cws = .error e')
  | _, _, _, _, au, av, e, .nil, _, h => by simp [ipFoldOff] at h
  | _, _, _, _, au, av, e, .cons _ _, .nil, h => by simp [ipFoldOff] at h
  | _, _, _, _, au, av, e, .cons hv hvs, .cons hw hws, h => by
    have notScalar : ∀ cv : CVal, (∀ n s, cv ≠ .scalar n s) → ∀ cvs : List CVal,
        mapE asScalarIn (cv :: cvs) = .error .typeConvert := by
      intro cv hcv cvs
      cases cv <;> first | rfl | exact absurd rfl (hcv _ _)
    have notPoint : ∀ cw : CVal, (∀ u v, cw ≠ .point u v) → ∀ cws : List CVal,
        mapE asPointIn (cw :: cws) = .error .typeConvert := by
      intro cw hcw cws
      cases cw <;> first | rfl | exact absurd rfl (hcw _ _)
    cases hv with
    | bool b => exact .inl ⟨_, notScalar _ (by intro n s hh; cases hh) _⟩
    | bytes bs => exact .inl ⟨_, notScalar _ (by intro n s hh; cases hh) _⟩
    | native x => exact .inl ⟨_, notScalar _ (by intro n s hh; cases hh) _⟩
    | big s x hs => exact .inl ⟨_, notScalar _ (by intro n s hh; cases hh) _⟩
    | point u v => exact .inl ⟨_, notScalar _ (by intro n s hh; cases hh) _⟩
    | scalar n s h1 h2 hs =>
      cases hw with
      | bool b => exact .inr ⟨_, notPoint _ (by intro n s hh; cases hh) _⟩
      | bytes bs => exact .inr ⟨_, notPoint _ (by intro n s hh; cases hh) _⟩
      | native x => exact .inr ⟨_, notPoint _ (by intro n s hh; cases hh) _⟩
      | big s x hs => exact .inr ⟨_, notPoint _ (by intro n s hh; cases hh) _⟩
      | scalar n s h1 h2 hs => exact .inr ⟨_, notPoint _ (by intro n s hh; cases hh) _⟩
      | point u v =>
        simp [ipFoldOff, mulOff, addOff] at h
        rcases msm_fail _ _ e hvs hws h with ⟨e', he'⟩ | ⟨e', he'⟩
        · exact .inl ⟨e', by simp [mapE, asScalarIn, he']⟩
        · exact .inr ⟨e', by simp [mapE, asPointIn, he']⟩

set_option maxRecDepth 4000 in
theorem innerProductFail {vs cvs ws cws e} (hv : ListRel vs cvs) (hw : ListRel ws cws)
    (h : innerProductOff vs ws = .error e) : ∃ e', innerProductIn cvs cws = .error e' := by
  unfold innerProductOff at h
  unfold innerProductIn
  split at h
  · next hlen =>
    have : cvs.length ≠ cws.length := by rw [← hv.length_eq, ← hw.length_eq]; exact hlen
    exact ⟨.invalidLength, by simp [this]⟩
  · next hlen =>
    have hlen' : vs.length = ws.length := by simpa using hlen
    have hclen : ¬ cvs.length ≠ cws.length := by
      rw [← hv.length_eq, ← hw.length_eq]; simpa using hlen'
    simp only [hclen, if_false]
    cases hv with
    | nil =>
      cases hw with
      | nil => exact ⟨_, rfl⟩
      | cons _ _ => simp at hlen'
    | cons hv0 hvs =>
      cases hw with
      | nil => simp at hlen'
      | cons hw0 hws =>
        simp only at h ⊢
        split at h
        · next e1 he1 =>
          -- the first product is unsupported: the type dispatch rejects or the product fails
          cases hv0 <;> cases hw0 <;> first | (simp [mulOff] at he1; done) | exact ⟨_, rfl⟩
        · next acc hacc =>
          cases hv0 <;> cases hw0 <;> (try (simp [mulOff] at hacc; done))
          · rcases mulSim (.native _) (.native _) hacc with ⟨e1, he1, _⟩ | ⟨cp, hcp, hrp⟩
            · exact ⟨e1, by simp [CVal.type, he1]⟩
            · obtain ⟨e', he'⟩ := ipFold_fail acc cp true e hvs hws hrp h
              exact ⟨e', by simpa [CVal.type, hcp] using he'⟩
          · next s x hs t y ht =>
            rcases mulSim (.big s x hs) (.big t y ht) hacc with ⟨e1, he1, _⟩ | ⟨cp, hcp, hrp⟩
            · exact ⟨e1, by simp [CVal.type, he1]⟩
            · obtain ⟨e', he'⟩ := ipFold_fail acc cp true e hvs hws hrp h
              exact ⟨e', by simpa [CVal.type, hcp] using he'⟩
          · next n s h1 h2 hs u v =>
            simp [mulOff] at hacc
            subst hacc
            rcases msm_fail _ _ e hvs hws h with ⟨e', he'⟩ | ⟨e', he'⟩
            · exact ⟨e', by simp [CVal.type, mapE, asScalarIn, he']⟩
            · cases hks : mapE asScalarIn _ with
              | error e'' => exact ⟨e'', by simp [CVal.type]⟩
              | ok ks => exact ⟨e', by simp [CVal.type, mapE, asPointIn, he']⟩

/-- One in-circuit dispatch that is not satisfied (an error value; a violated constraint only
for a witness condition `e`). -/
def OpFail (e : Err) (x : Except Err (GOut × List Nat × List IrType)) : Prop :=
  (∃ e', x = .error e') ∨
  (e.isWitnessCondition = true ∧ ∃ g fs ts, x = .ok (g, fs, ts) ∧ g.sat = false)

theorem OpFail.of_gfail {e : Err} {x : Except Err GOut} (h : GFail e x) :
    OpFail e (x.map (fun g => (g, [], []))) := by
  rcases h with ⟨e', he⟩ | ⟨hw, g, hg, hs⟩
  · exact .inl ⟨e', by simp [he, Except.map]⟩
  · exact .inr ⟨hw, g, [], [], by simp [hg, Except.map], hs⟩

theorem OpFail.of_err {e : Err} {x : Except Err GOut} (h : ∃ e', x = .error e') :
    OpFail e (x.map (fun g => (g, [], []))) := OpFail.of_gfail (.inl h)

theorem Except.map_err_iff {α β : Type} (f : α → β) (x : Except Err α) (e : Err) :
    x.map f = .error e ↔ x = .error e := by
  cases x <;> simp [Except.map]

theorem getT_checkAll {w t} : ∀ (names : List String) (vs : List IrValue),
    mapE (getT w t) names = .ok vs → ∃ us, mapE (fun v => v.checkType t) vs = .ok us
  | [], vs, h => by simp [mapE] at h; subst h; exact ⟨[], by simp [mapE]⟩
  | n :: rest, vs, h => by
    unfold mapE at h
    split at h
    · cases h
    · next v hv =>
      split at h
      · cases h
      · next vs' hvs =>
        cases h
        obtain ⟨us, hus⟩ := getT_checkAll rest vs' hvs
        have := (getT_ok hv).2
        exact ⟨() :: us, by simp [mapE, this, hus]⟩

theorem opFail (H : Hashes) (w : Witness) (i : Instr) (inps : List IrValue) (cinps : List CVal)
    (e : Err) (hrel : ListRel inps cinps) (h : opOff H w i inps = .error e) :
    OpFail e (opIn H (some w) true i cinps) := by
  obtain ⟨op, ins, onames⟩ := i
  cases op
  case load t =>
    simp only [opOff] at h
    simp only [opIn]
    have hlv : mapE (loadValue (some w) t) onames = mapE (getT w t) onames := rfl
    rw [hlv]
    split at h
    · next e1 he1 => exact .inl ⟨e1, by simp [he1]⟩
    · next vs hvs =>
      split at h
      · next e2 he2 =>
        unfold loadOff at he2
        split at he2
        · next ht => exact .inl ⟨.unsupported (.load t) [], by rw [hvs]; simp [ht]⟩
        · obtain ⟨us, hus⟩ := getT_checkAll onames vs hvs
          simp [hus] at he2
      · cases h
  case publish => simp [opOff] at h
  case assertEq =>
    simp only [opOff] at h
    simp only [opIn]
    cases hrel with
    | nil => exact .inl ⟨_, rfl⟩
    | cons ha hrest =>
      cases hrest with
      | nil => exact .inl ⟨_, rfl⟩
      | cons hb _ =>
        simp only [] at h ⊢
        split at h
        · next hne =>
          cases h
          rcases comparableSim .assertEq rfl ha hb with ⟨e', he', _⟩ | hok
          · exact .inl ⟨e', by simp [he', Except.map]⟩
          · exact .inr ⟨rfl, _, [], [], by simp [hok, Except.map]; rfl, by simpa using hne⟩
        · cases h
  case assertNe =>
    simp only [opOff] at h
    simp only [opIn]
    cases hrel with
    | nil => exact .inl ⟨_, rfl⟩
    | cons ha hrest =>
      cases hrest with
      | nil => exact .inl ⟨_, rfl⟩
      | cons hb _ =>
        simp only [] at h ⊢
        split at h
        · next heq =>
          cases h
          rcases comparableSim .assertNe rfl ha hb with ⟨e', he', _⟩ | hok
          · exact .inl ⟨e', by simp [he', Except.map]⟩
          · exact .inr ⟨rfl, _, [], [], by simp [hok, Except.map]; rfl, by simpa using heq⟩
        · cases h
  case isEq =>
    simp only [opOff] at h
    simp only [opIn]
    cases hrel with
    | nil => exact .inl ⟨_, rfl⟩
    | cons ha hrest =>
      cases hrest with
      | nil => exact .inl ⟨_, rfl⟩
      | cons hb _ => simp at h
  case add =>
    simp only [opOff] at h
    simp only [opIn]
    cases hrel with
    | nil => exact .inl ⟨_, rfl⟩
    | cons ha hrest =>
      cases hrest with
      | nil => exact .inl ⟨_, rfl⟩
      | cons hb _ =>
        simp only [] at h ⊢
        exact OpFail.of_err (addFail ha hb ((Except.map_err_iff _ _ _).1 h))
  case sub =>
    simp only [opOff] at h
    simp only [opIn]
    cases hrel with
    | nil => exact .inl ⟨_, rfl⟩
    | cons ha hrest =>
      cases hrest with
      | nil => exact .inl ⟨_, rfl⟩
      | cons hb _ =>
        simp only [] at h ⊢
        exact OpFail.of_gfail (subFail ha hb ((Except.map_err_iff _ _ _).1 h))
  case mul =>
    simp only [opOff] at h
    simp only [opIn]
    cases hrel with
    | nil => exact .inl ⟨_, rfl⟩
    | cons ha hrest =>
      cases hrest with
      | nil => exact .inl ⟨_, rfl⟩
      | cons hb _ =>
        simp only [] at h ⊢
        exact OpFail.of_err (mulFail ha hb ((Except.map_err_iff _ _ _).1 h))
  case neg =>
    simp only [opOff] at h
    simp only [opIn]
    cases hrel with
    | nil => exact .inl ⟨_, rfl⟩
    | cons ha _ =>
      simp only [] at h ⊢
      exact OpFail.of_err (negFail ha ((Except.map_err_iff _ _ _).1 h))
  case modExp n =>
    simp only [opOff] at h
    simp only [opIn]
    cases hrel with
    | nil => exact .inl ⟨_, rfl⟩
    | cons ha hrest =>
      cases hrest with
      | nil => exact .inl ⟨_, rfl⟩
      | cons hb _ =>
        simp only [] at h ⊢
        exact OpFail.of_gfail (modExpFail n ha hb ((Except.map_err_iff _ _ _).1 h))
  case innerProduct =>
    simp only [opOff] at h
    simp only [opIn]
    rw [← hrel.length_eq]
    exact OpFail.of_err (innerProductFail (hrel.take _) (hrel.drop _) ((Except.map_err_iff _ _ _).1 h))
  case affine =>
    simp only [opOff] at h
    simp only [opIn]
    cases hrel with
    | nil => exact .inl ⟨_, rfl⟩
    | cons ha _ =>
      simp only [] at h ⊢
      exact OpFail.of_err (affineFail ha ((Except.map_err_iff _ _ _).1 h))
  case intoBytes n =>
    simp only [opOff] at h
    simp only [opIn]
    cases hrel with
    | nil => exact .inl ⟨_, rfl⟩
    | cons ha _ =>
      simp only [] at h ⊢
      exact OpFail.of_gfail (intoBytesFail n ha ((Except.map_err_iff _ _ _).1 h))
  case fromBytes t =>
    simp only [opOff] at h
    simp only [opIn]
    cases hrel with
    | nil => exact .inl ⟨_, rfl⟩
    | cons ha _ =>
      cases ha with
      | bytes bs =>
        simp only [] at h ⊢
        exact OpFail.of_err (fromBytesFail t bs ((Except.map_err_iff _ _ _).1 h))
      | bool b => exact .inl ⟨_, rfl⟩
      | native x => exact .inl ⟨_, rfl⟩
      | big s x hs => exact .inl ⟨_, rfl⟩
      | point u v => exact .inl ⟨_, rfl⟩
      | scalar n s h1 h2 hs => exact .inl ⟨_, rfl⟩
  case poseidon =>
    simp only [opOff] at h
    simp only [opIn]
    split at h
    · next e1 he1 =>
      obtain ⟨e', he'⟩ := asNative_fail hrel he1
      exact .inl ⟨e', by simp [he']⟩
    · cases h
  case sha256 =>
    simp only [opOff] at h
    simp only [opIn]
    cases hrel with
    | nil => exact .inl ⟨_, rfl⟩
    | cons ha _ =>
      simp only [] at h ⊢
      obtain ⟨e', he'⟩ := asBytes_fail ha ((Except.map_err_iff _ _ _).1 h)
      exact .inl ⟨e', by simp [he', Except.map]⟩
  case sha512 =>
    simp only [opOff] at h
    simp only [opIn]
    cases hrel with
    | nil => exact .inl ⟨_, rfl⟩
    | cons ha _ =>
      simp only [] at h ⊢
      obtain ⟨e', he'⟩ := asBytes_fail ha ((Except.map_err_iff _ _ _).1 h)
      exact .inl ⟨e', by simp [he', Except.map]⟩

theorem resolve_fail {m m'} (h : MemRel m m') (n : String) (e : Err)
    (he : resolveOff m n = .error e) : ∃ e', resolveIn m' n = .error e' := by
  unfold resolveOff at he
  unfold resolveIn
  split at he
  · cases he
  · next hl =>
    rw [(h.lookup_none n).1 hl]
    split at he
    · cases he
    · next hp => exact ⟨.notFound n, by simp [hp]⟩

theorem resolveAll_fail {m m'} (h : MemRel m m') : ∀ (names : List String) (e : Err),
    mapE (resolveOff m) names = .error e → ∃ e', mapE (resolveIn m') names = .error e'
  | [], e, he => by simp [mapE] at he
  | n :: rest, e, he => by
    unfold mapE at he ⊢
    split at he
    · next e1 he1 =>
      obtain ⟨e', he'⟩ := resolve_fail h n e1 he1
      exact ⟨e', by simp [he']⟩
    · next v hv =>
      obtain ⟨cv, hcv, _⟩ := resolve_sim h n v hv
      split at he
      · next e2 he2 =>
        obtain ⟨e', he'⟩ := resolveAll_fail h rest e2 he2
        exact ⟨e', by simp [hcv, he']⟩
      · cases he

theorem insertMany_fail : ∀ (names : List String) (outs : List IrValue) (couts : List CVal)
    {m : List (String × IrValue)} {m' : List (String × (CVal × Bool))} (e : Err),
    MemRel m m' → ListRel outs couts → insertMany m names outs = .error e →
    ∃ e', insertMany m' names (couts.map (fun c => (c, true))) = .error e'
  | [], [], _, m, m', e, hm, hl, h => by simp [insertMany] at h
  | n :: ns, v :: vs, _, m, m', e, hm, hl, h => by
    cases hl with
    | cons hr hrs =>
      simp only [insertMany, List.map_cons] at h ⊢
      split at h
      · next x hsome =>
        cases hx : lookup n m' with
        | none => rw [(hm.lookup_none n).2 hx] at hsome; cases hsome
        | some y => exact ⟨.dup n, by simp⟩
      · next hnone =>
        rw [(hm.lookup_none n).1 hnone]
        exact insertMany_fail ns vs _ e (.cons hr hm) hrs h
  | [], _ :: _, _, _, _, e, _, hl, h => by
    cases hl with
    | cons _ _ => exact ⟨.panic "insert_many: names.len() != values.len()", by simp [insertMany]⟩
  | _ :: _, [], _, _, _, e, _, hl, h => by
    cases hl with
    | nil => exact ⟨.panic "insert_many: names.len() != values.len()", by simp [insertMany]⟩

theorem stepFail (H : Hashes) (w : Witness) (so : OffState) (si : InState) (i : Instr) (e : Err)
    (hw : WitnessCanonical w) (hinv : Inv so si)
    (hreg : ∀ inps, mapE (resolveOff so.mem) i.ins = .ok inps → StepRegular i inps)
    (h : stepOff H w so i = .error e) :
    (∃ e', stepIn H (some w) si i = .error e') ∨
    (e.isWitnessCondition = true ∧ ∃ si', stepIn H (some w) si i = .ok si' ∧ si'.sat = false) := by
  unfold stepOff at h
  unfold stepIn
  split at h
  · next e1 he1 =>
    obtain ⟨e', he'⟩ := resolveAll_fail hinv.mem i.ins e1 he1
    exact .inl ⟨e', by simp [he']⟩
  · next inps hin =>
    obtain ⟨cvs, hcvs, hrel⟩ := resolveAll_sim hinv.mem i.ins inps hin
    simp only [hcvs, all_known, map_fst_known, Option.isSome_some, Bool.true_or]
    split at h
    · next e2 he2 =>
      cases h
      rcases opFail H w i inps cvs e hrel he2 with ⟨e', he'⟩ | ⟨hwc, g, fs, ts, hg, hs⟩
      · exact .inl ⟨e', by simp [he']⟩
      · simp only [hg]
        cases hins : insertMany si.mem i.outs (g.outs.map (fun v => (v, true))) with
        | error e' => exact .inl ⟨e', rfl⟩
        | ok m2 => exact .inr ⟨hwc, _, rfl, by simp [hs]⟩
    · next outs pub hop =>
      split at h
      · next e3 he3 =>
        rcases opSim H w i inps cvs outs pub hw hrel (hreg inps hin) hop with
          ⟨e', he', _⟩ | ⟨couts, fs, ts, hok, hro, _, _⟩
        · exact .inl ⟨e', by simp [he']⟩
        · obtain ⟨e', he'⟩ := insertMany_fail i.outs outs couts e3 hinv.mem hro he3
          exact .inl ⟨e', by simp [hok, he']⟩
      · cases h

theorem runIn_sat_false (H : Hashes) (w : Option Witness) : ∀ (p : Program) (si si' : InState),
    si.sat = false → runIn H w si p = .ok si' → si'.sat = false
  | [], si, si', hs, h => by simp [runIn] at h; subst h; exact hs
  | i :: rest, si, si', hs, h => by
    unfold runIn at h
    split at h
    · cases h
    · next si1 hstep =>
      refine runIn_sat_false H w rest si1 si' ?_ h
      unfold stepIn at hstep
      split at hstep
      · cases hstep
      · simp only at hstep
        split at hstep
        · cases hstep
        · split at hstep
          · cases hstep
          · cases hstep; simp [hs]

/-- If the off-circuit run fails with `e`, the in-circuit run on the same witness returns an error
value or — only when `e` is a condition on the witness — ends with a violated constraint. -/
theorem runFail (H : Hashes) (w : Witness) (hw : WitnessCanonical w) :
    ∀ (p : Program) (so : OffState) (si : InState) (e : Err), Inv so si →
      RunRegular H w so p → runOff H w so p = .error e →
      (∃ e', runIn H (some w) si p = .error e') ∨
      (e.isWitnessCondition = true ∧ ∃ si', runIn H (some w) si p = .ok si' ∧ si'.sat = false)
  | [], so, si, e, _, _, h => by simp [runOff] at h
  | i :: rest, so, si, e, hinv, hreg, h => by
    unfold runOff at h
    unfold runIn
    split at h
    · next e1 he1 =>
      cases h
      rcases stepFail H w so si i e hw hinv hreg.1 he1 with ⟨e', he'⟩ | ⟨hwc, si1, hsi1, hs⟩
      · exact .inl ⟨e', by simp [he']⟩
      · simp only [hsi1]
        cases hr : runIn H (some w) si1 rest with
        | error e' => exact .inl ⟨e', rfl⟩
        | ok si' => exact .inr ⟨hwc, si', rfl, runIn_sat_false H _ rest si1 si' hs hr⟩
    · next so1 hstep =>
      rcases stepSim H w so si i so1 hw hinv hreg.1 hstep with ⟨e', he', _⟩ | ⟨si1, hsi1, hinv1⟩
      · exact .inl ⟨e', by simp [he']⟩
      · simp only [hsi1]
        exact runFail H w hw rest so1 si1 e hinv1 (hreg.2 so1 hstep) h

end MidnightZK.C18
