import MidnightZK.Proofs.C18.Shape
/-!
# C18 — the limb bounds of the in-circuit BigUint bound its value

`shapeMax s` is the largest integer the limb bounds `s` allow; `nb_bits()` — the width recorded
as the in-circuit type `BigUint(n)` of a published value — is its bit length. This file shows
that every shape operation of `Model/C18/BigShape.lean` over-approximates the corresponding
arithmetic operation: sums, products, differences, remainders, byte conversions. It is what
makes `format_instance` (`check_type` of the off-circuit value against the recorded width)
succeed on every value the compiled circuit publishes.
-/
namespace MidnightZK.C18

theorem bitLen_lt_pow (s : Nat) : s < 2 ^ bitLen s := (bitLen_le_iff s (bitLen s)).1 (Nat.le_refl _)

/-- Largest value of a limb of bound `b`. -/
def m2 (b : Nat) : Nat := 2 ^ b - 1

theorem shapeMax_cons (b : Nat) (rest : Shape) :
    shapeMax (b :: rest) = shapeMax rest * 2 ^ LOG2_BASE + m2 b := rfl

theorem m2_succ (b : Nat) : m2 b + 1 = 2 ^ b := by
  have : 0 < 2 ^ b := Nat.two_pow_pos b
  unfold m2; omega

theorem m2_zero : m2 0 = 0 := rfl

theorem m2_boa (a b : Nat) : m2 a + m2 b ≤ m2 (boundOfAddition a b) := by
  unfold boundOfAddition
  split
  · next h => subst h; simp [m2_zero]
  · split
    · next h => subst h; simp [m2_zero]
    · have ha := m2_succ a
      have hb := m2_succ b
      have hm := m2_succ (1 + max a b)
      have h1 : 2 ^ a ≤ 2 ^ max a b := Nat.pow_le_pow_right (by decide) (Nat.le_max_left _ _)
      have h2 : 2 ^ b ≤ 2 ^ max a b := Nat.pow_le_pow_right (by decide) (Nat.le_max_right _ _)
      have h3 : 2 ^ (1 + max a b) = 2 * 2 ^ max a b := by rw [Nat.add_comm, Nat.pow_succ]; omega
      omega

theorem m2_mul (x y : Nat) : m2 x * m2 y ≤ m2 (x + y) := by
  have hx := m2_succ x
  have hy := m2_succ y
  have hxy := m2_succ (x + y)
  have hp : 2 ^ (x + y) = (m2 x + 1) * (m2 y + 1) := by rw [hx, hy, Nat.pow_add]
  have he : (m2 x + 1) * (m2 y + 1) = m2 x * m2 y + m2 x + m2 y + 1 := by
    rw [Nat.add_mul, Nat.mul_add, Nat.mul_one, Nat.one_mul]; omega
  omega

theorem shapeMax_addBounds : ∀ (s t : Shape), shapeMax s + shapeMax t ≤ shapeMax (addBounds s t)
  | [], t => by simp [addBounds, shapeMax]
  | x :: xs, [] => by simp [addBounds, shapeMax]
  | x :: xs, y :: ys => by
    simp only [addBounds, shapeMax_cons]
    have ih := shapeMax_addBounds xs ys
    have hb := m2_boa x y
    have := Nat.mul_le_mul_right (2 ^ LOG2_BASE) ih
    rw [Nat.add_mul] at this
    omega

theorem shapeMax_replicate (n : Nat) : shapeMax (List.replicate n LOG2_BASE) + 1 = 2 ^ (LOG2_BASE * n) := by
  induction n with
  | zero => simp [shapeMax]
  | succ n ih =>
    simp only [List.replicate_succ, shapeMax_cons]
    have h1 := m2_succ LOG2_BASE
    have h2 : 2 ^ (LOG2_BASE * (n + 1)) = 2 ^ (LOG2_BASE * n) * 2 ^ LOG2_BASE := by
      rw [← Nat.pow_add]; congr 1
    rw [h2, ← ih, Nat.add_mul]
    omega

theorem shapeMax_replicate_zero (n : Nat) : shapeMax (List.replicate n 0) = 0 := by
  induction n with
  | zero => rfl
  | succ n ih => simp [List.replicate_succ, shapeMax_cons, ih, m2_zero]

theorem le_mul_divCeil (a : Nat) : a ≤ LOG2_BASE * divCeil a LOG2_BASE := by
  simp only [divCeil, LOG2_BASE]; omega

/-- `normalize` never lowers the largest representable value. -/
theorem normalizeShape_max (raw r : Shape) (h : normalizeShape raw = .ok r) :
    shapeMax raw ≤ shapeMax r := by
  unfold normalizeShape at h
  split at h
  · cases h; exact Nat.le_refl _
  · simp only at h
    split at h
    · cases h
    · split at h
      · cases h
        have h1 := shapeMax_replicate (divCeil (nbBits raw) LOG2_BASE)
        have h2 : shapeMax raw < 2 ^ nbBits raw := bitLen_lt_pow _
        have h3 : 2 ^ nbBits raw ≤ 2 ^ (LOG2_BASE * divCeil (nbBits raw) LOG2_BASE) :=
          Nat.pow_le_pow_right (by decide) (le_mul_divCeil _)
        omega
      · cases h

theorem addShape_max (s t r : Shape) (h : addShape s t = .ok r) :
    shapeMax s + shapeMax t ≤ shapeMax r :=
  Nat.le_trans (shapeMax_addBounds s t) (normalizeShape_max _ _ h)

theorem mulRow_length (xi : Nat) : ∀ (acc ys : Shape), (mulRow xi acc ys).length = acc.length
  | [], [] => rfl
  | [], _ :: _ => rfl
  | _ :: _, [] => rfl
  | a :: acc, y :: ys => by simp [mulRow, mulRow_length xi acc ys]

theorem shapeMax_mulRow (xi : Nat) : ∀ (acc ys : Shape), ys.length ≤ acc.length →
    shapeMax acc + m2 xi * shapeMax ys ≤ shapeMax (mulRow xi acc ys)
  | [], [], _ => by simp [mulRow, shapeMax]
  | [], _ :: _, h => by simp at h
  | _ :: _, [], _ => by simp [mulRow, shapeMax]
  | a :: acc, y :: ys, h => by
    simp only [mulRow, shapeMax_cons]
    have ih := shapeMax_mulRow xi acc ys (by simpa using h)
    have h1 := m2_boa a (xi + y)
    have h2 := m2_mul xi y
    have h3 := Nat.mul_le_mul_right (2 ^ LOG2_BASE) ih
    rw [Nat.add_mul] at h3
    have h4 : m2 xi * (shapeMax ys * 2 ^ LOG2_BASE + m2 y)
        = m2 xi * shapeMax ys * 2 ^ LOG2_BASE + m2 xi * m2 y := by
      rw [Nat.mul_add, Nat.mul_assoc]
    omega

theorem shapeMax_mulRows : ∀ (xs ys acc : Shape), (xs ≠ [] → xs.length + ys.length ≤ acc.length + 1) →
    shapeMax acc + shapeMax xs * shapeMax ys ≤ shapeMax (mulRows xs ys acc)
  | [], ys, acc, _ => by simp [mulRows, shapeMax]
  | xi :: xs, ys, acc, h => by
    have hl : xs.length + ys.length ≤ acc.length := by
      have := h (by simp); simp at this; omega
    have hrow := shapeMax_mulRow xi acc ys (by omega)
    have hlen := mulRow_length xi acc ys
    simp only [mulRows]
    cases hR : mulRow xi acc ys with
    | nil =>
      rw [hR] at hlen hrow
      have hacc : acc = [] := by cases acc <;> simp_all
      have hxs : xs = [] := by cases xs <;> simp_all
      have hys : ys = [] := by cases ys <;> simp_all
      subst hacc hxs hys
      simp [shapeMax]
    | cons a acc' =>
      rw [hR] at hlen hrow
      simp only [shapeMax_cons] at hrow ⊢
      have ih := shapeMax_mulRows xs ys acc' (fun _ => by simp at hlen; omega)
      have h3 := Nat.mul_le_mul_right (2 ^ LOG2_BASE) ih
      rw [Nat.add_mul] at h3
      have h4 : (shapeMax xs * 2 ^ LOG2_BASE + m2 xi) * shapeMax ys
          = shapeMax xs * shapeMax ys * 2 ^ LOG2_BASE + m2 xi * shapeMax ys := by
        rw [Nat.add_mul, Nat.mul_assoc, Nat.mul_comm (2 ^ LOG2_BASE), ← Nat.mul_assoc]
      omega

/-- The product shape bounds the product of the bounds (operands already normalised, as every
shape held in memory is). -/
theorem mulShape_max (s t r : Shape) (hs : isNormalized s = true) (ht : isNormalized t = true)
    (h : mulShape s t = .ok r) : shapeMax s * shapeMax t ≤ shapeMax r := by
  unfold mulShape at h
  rw [normalizeShape_of_normalized s hs, normalizeShape_of_normalized t ht] at h
  simp only at h
  split at h
  · cases h
  · next hne =>
    have h1 := shapeMax_mulRows s t (List.replicate (s.length + t.length - 1) 0)
      (fun _ => by simp; omega)
    rw [shapeMax_replicate_zero, Nat.zero_add] at h1
    exact Nat.le_trans h1 (normalizeShape_max _ _ h)

theorem shapeMax_boundedShape (n : Nat) (hn : n ≠ 0) : shapeMax (boundedShape n) + 1 = 2 ^ n := by
  unfold boundedShape
  rw [shapeMax_wellShaped]
  congr 1
  simp only [divCeil, LOG2_BASE]; omega

theorem shapeMax_fromBytesShape (n : Nat) (hn : n ≠ 0) : shapeMax (fromBytesShape n) + 1 = 2 ^ (8 * n) := by
  unfold fromBytesShape
  split
  · next h =>
    have hk : n / 12 = (n / 12 - 1) + 1 := by omega
    rw [List.append_nil]
    have : List.replicate (n / 12) LOG2_BASE = List.replicate (n / 12 - 1) LOG2_BASE ++ [LOG2_BASE] := by
      conv => lhs; rw [hk, List.replicate_succ']
    rw [this, shapeMax_wellShaped]
    congr 1
    simp only [LOG2_BASE]; omega
  · rw [shapeMax_wellShaped]
    congr 1
    simp only [LOG2_BASE]; omega

/-- A value bounded by the shape is below `2^nb_bits`, i.e. `check_type` against the recorded
width accepts it. -/
theorem bitLen_le_nbBits (s : Shape) (x : Nat) (h : x ≤ shapeMax s) : bitLen x ≤ nbBits s := by
  rw [bitLen_le_iff]
  have : shapeMax s < 2 ^ nbBits s := bitLen_lt_pow _
  omega

theorem assignBoundedShape_ne (n : Nat) (r : Shape) (h : assignBoundedShape n = .ok r) : n ≠ 0 := by
  unfold assignBoundedShape at h
  split at h
  · cases h
  · assumption

theorem subShape_eq (s t r : Shape) (h : subShape s t = .ok r) :
    r = boundedShape (nbBits s) ∧ nbBits s ≠ 0 := by
  unfold subShape at h
  split at h
  · cases h
  · next res hres =>
    split at h
    · cases h
    · split at h
      · cases h
      · cases h; exact ⟨assignBoundedShape_ok _ _ hres, assignBoundedShape_ne _ _ hres⟩

theorem divRemShape_eq (x y q r : Shape) (h : divRemShape x y = .ok (q, r)) :
    r = boundedShape (nbBits y) ∧ nbBits y ≠ 0 := by
  unfold divRemShape at h
  split at h
  · cases h
  · split at h
    · cases h
    · next r' hr =>
      split at h
      · cases h
      · split at h
        · cases h
        · split at h
          · cases h
          · split at h
            · cases h
            · cases h; exact ⟨assignBoundedShape_ok _ _ hr, assignBoundedShape_ne _ _ hr⟩

theorem modMulShape_eq (x y m r : Shape) (h : modMulShape x y m = .ok r) :
    r = boundedShape (nbBits m) ∧ nbBits m ≠ 0 := by
  unfold modMulShape at h
  split at h
  · cases h
  · next p hp =>
    cases hd : divRemShape p m with
    | error e' => rw [hd] at h; simp [Except.map] at h
    | ok v =>
      rw [hd] at h; simp [Except.map] at h
      obtain ⟨q, r'⟩ := v
      cases h
      exact divRemShape_eq _ _ _ _ hd

/-- The square-and-multiply loop ends with a remainder modulo `m` (the top bit of the exponent
is always a multiplication step), as long as the exponent fits the 64 iterations. -/
theorem modExpLoop_eq (m : Shape) : ∀ (fuel n : Nat) (tmp : Shape) (res : Option Shape) (r : Shape),
    1 ≤ n → n < 2 ^ fuel →
    ((tmp = boundedShape (nbBits m) ∧ nbBits m ≠ 0) ∨ 2 ≤ n) →
    modExpLoop m fuel n tmp res = .ok (some r) → r = boundedShape (nbBits m) ∧ nbBits m ≠ 0
  | 0, n, _, _, _, h1, h2, _, _ => by simp at h2; omega
  | fuel + 1, n, tmp, res, r, h1, h2, hg, h => by
    unfold modExpLoop at h
    have hn0 : ¬ n = 0 := by omega
    simp only [hn0, if_false] at h
    by_cases hn2 : n / 2 > 0
    · -- at least one more squaring: the next `tmp` is a remainder
      simp only [hn2, if_true] at h
      split at h
      · cases h
      · next res' _ =>
        split at h
        · cases h
        · next tmp' htmp' =>
          have hlt : n / 2 < 2 ^ fuel := by
            have : 2 ^ (fuel + 1) = 2 * 2 ^ fuel := by rw [Nat.pow_succ]; omega
            omega
          exact modExpLoop_eq m fuel (n / 2) tmp' res' r (by omega) hlt
            (.inl (modMulShape_eq _ _ _ _ htmp')) h
    · -- last step: n = 1
      have hn1 : n = 1 := by omega
      subst hn1
      have hgt : tmp = boundedShape (nbBits m) ∧ nbBits m ≠ 0 := by
        rcases hg with hg | hg
        · exact hg
        · omega
      simp only [hn2, if_false] at h
      cases res with
      | none =>
        simp at h
        subst h; exact hgt
      | some acc =>
        simp only [if_true] at h
        cases hmm : modMulShape acc tmp m with
        | error e' => rw [hmm] at h; simp [Except.map] at h
        | ok v =>
          rw [hmm] at h; simp [Except.map] at h
          subst h
          exact modMulShape_eq _ _ _ _ hmm

theorem modExpShape_eq (x : Shape) (n : Nat) (m r : Shape) (hn : n < 2 ^ 64)
    (h : modExpShape x n m = .ok r) : r = boundedShape (nbBits m) ∧ nbBits m ≠ 0 := by
  unfold modExpShape at h
  split at h
  · cases hd : divRemShape (fixedShape 1) m with
    | error e' => rw [hd] at h; simp [Except.map] at h
    | ok v => rw [hd] at h; simp [Except.map] at h; obtain ⟨q, r'⟩ := v; cases h; exact divRemShape_eq _ _ _ _ hd
  · split at h
    · cases hd : divRemShape x m with
      | error e' => rw [hd] at h; simp [Except.map] at h
      | ok v => rw [hd] at h; simp [Except.map] at h; obtain ⟨q, r'⟩ := v; cases h; exact divRemShape_eq _ _ _ _ hd
    · split at h
      · cases h
      · next r' hr =>
        cases h
        exact modExpLoop_eq m 64 n x none r (by omega) hn (.inr (by omega)) hr
      · cases h

end MidnightZK.C18
