import MidnightZK.Model.C18.Compare
import MidnightZK.Proofs.C18.BinBasic
import MidnightZK.Proofs.C18.Shape
/-! # C18 — the in-circuit comparison of byte arrays: per-byte conjunction vs packing -/
namespace MidnightZK.C18

theorem bytesIsEqualIn_eq_beq : ∀ (v w : List Nat), v.length = w.length →
    bytesIsEqualIn v w = (v == w)
  | [], [], _ => rfl
  | [], _ :: _, h => by simp at h
  | _ :: _, [], h => by simp at h
  | a :: v, b :: w, h => by
    have ih := bytesIsEqualIn_eq_beq v w (by simpa using h)
    simp only [bytesIsEqualIn, ih, List.cons_beq_cons]

theorem bytesIsEqualIn_iff (v w : List Nat) (h : v.length = w.length) :
    bytesIsEqualIn v w = true ↔ v = w := by
  rw [bytesIsEqualIn_eq_beq v w h]; simp

theorem bytesIsEqualCalls_eq_min : ∀ (v w : List Nat),
    bytesIsEqualCalls v w = min v.length w.length
  | [], [] => rfl
  | [], _ :: _ => by simp [bytesIsEqualCalls]
  | _ :: _, [] => by simp [bytesIsEqualCalls]
  | _ :: v, _ :: w => by
    simp only [bytesIsEqualCalls, bytesIsEqualCalls_eq_min v w, List.length_cons]; omega

theorem leBytesToNat_append_zeros : ∀ (a : List Nat) (k : Nat),
    leBytesToNat (a ++ List.replicate k 0) = leBytesToNat a
  | [], 0 => rfl
  | [], k + 1 => by
    have := leBytesToNat_append_zeros [] k
    simp only [List.nil_append] at this
    simp [List.replicate_succ, leBytesToNat, this]
  | b :: t, k => by
    simp only [List.cons_append, leBytesToNat, leBytesToNat_append_zeros t k]

theorem leBytesToNat_zeros (k : Nat) : leBytesToNat (List.replicate k 0) = 0 := by
  simpa [leBytesToNat] using leBytesToNat_append_zeros [] k

theorem leBytesToNat_injective (v w : List Nat) (hl : v.length = w.length)
    (hv : BytesWF v) (hw : BytesWF w) (h : leBytesToNat v = leBytesToNat w) : v = w := by
  rw [← leBytes_leBytesToNat v hv, ← leBytes_leBytesToNat w hw, hl, h]

/-- 256^31 < Q: a 31-byte integer is a canonical native element. -/
theorem pow_31_lt_Q : 256 ^ 31 < Q := by decide

theorem packNative_small (v : List Nat) (hv : BytesWF v) (hl : v.length ≤ 31) :
    packNative v = leBytesToNat v := by
  unfold packNative
  apply Nat.mod_eq_of_lt
  have h1 := leBytesToNat_lt v hv
  have h2 : 256 ^ v.length ≤ 256 ^ 31 := Nat.pow_le_pow_right (by omega) hl
  have := pow_31_lt_Q
  omega

/-- The 32 little-endian bytes of the native modulus. -/
def qBytes : List Nat := natToLeBytes 32 Q

theorem qBytes_wf : BytesWF qBytes := by
  unfold BytesWF; decide
theorem qBytes_value : leBytesToNat qBytes = Q := by decide

/-! ## Constant names and the chips a program needs -/


theorem splitColon_head_prefix : ∀ (l h : List Char) (t : List (List Char)),
    splitColon l = h :: t → h <+: l
  | [], h, t, e => by
    simp only [splitColon, List.cons.injEq] at e
    rw [← e.1]; exact List.nil_prefix
  | c :: rest, h, t, e => by
    simp only [splitColon] at e
    cases hs : splitColon rest with
    | nil => rw [hs] at e; simp only [List.cons.injEq] at e; rw [← e.1]; exact List.nil_prefix
    | cons h' t' =>
      rw [hs] at e
      have ih := splitColon_head_prefix rest h' t' hs
      by_cases hc : c = ':'
      · simp only [hc, if_true, List.cons.injEq] at e; rw [← e.1]; exact List.nil_prefix
      · simp only [hc, if_false, List.cons.injEq] at e
        rw [← e.1]
        exact (List.cons_prefix_cons).mpr ⟨rfl, ih⟩

/-- A name that parses as a Jubjub point or scalar constant starts with "Jubjub". -/
theorem parseConst_jubjub_prefix (name : String) (v : IrValue)
    (h : parseConst name = some v) (hv : v.type = .point ∨ v.type = .scalar) :
    "Jubjub".toList.isPrefixOf name.toList = true := by
  rw [List.isPrefixOf_iff_prefix]
  unfold parseConst at h
  split at h
  · next b hb =>
    exfalso
    split at h
    · split at h
      · cases h; simp [IrValue.type] at hv
      · split at h
        · cases h; simp [IrValue.type] at hv
        · cases h
    · obtain ⟨x, _, rfl⟩ := Option.map_eq_some_iff.mp h
      simp [IrValue.type] at hv
  · next tag payload hs =>
    have hp := splitColon_head_prefix _ _ _ hs
    split at h
    · obtain ⟨x, _, rfl⟩ := Option.map_eq_some_iff.mp h; simp [IrValue.type] at hv
    · split at h
      · obtain ⟨x, _, rfl⟩ := Option.map_eq_some_iff.mp h; simp [IrValue.type] at hv
      · split at h
        · next ht => rw [ht] at hp; exact hp
        · split at h
          · next ht =>
            rw [ht] at hp
            exact List.IsPrefix.trans (by decide : "Jubjub".toList <+: "JubjubScalar".toList) hp
          · cases h
  · cases h

theorem bytesIsEqualCalls_replicate (n : Nat) :
    bytesIsEqualCalls (List.replicate n 0) (List.replicate n 0) = n := by
  rw [bytesIsEqualCalls_eq_min]; simp

theorem boundedShape_length (nb : Nat) (h : nb ≠ 0) :
    (boundedShape nb).length = divCeil nb LOG2_BASE := by
  have : 1 ≤ divCeil nb LOG2_BASE := by
    simp only [divCeil, LOG2_BASE]; omega
  simp [boundedShape]; omega

end MidnightZK.C18
