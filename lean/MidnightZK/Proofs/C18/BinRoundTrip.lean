import MidnightZK.Proofs.C18.BinBasic
/-!
Binary round trip of a ZKIR program (C18): for every decoder of `Model/C18/BinDec.lean`

* `…_enc`   — decoding what the encoder wrote returns the value, the rest of the input and the
  exact number of bytes claimed against the limit (strict or not);
* `…_canon` — the strict decoder accepts only what the encoder writes;
* `…_lax`   — the real (lax) decoder accepts whatever the strict one accepts, same result.
-/
namespace MidnightZK.C18

/-! ## Ranges of the Rust integer types, claim accounting -/

/-- Payloads fit their Rust types: `Bytes(usize)`, `BigUint(u32)`. -/
def IrType.InRange : IrType → Prop
  | .bytes n => n < 2 ^ 64
  | .big n => n < 2 ^ 32
  | _ => True

/-- `ModExp(u64)`, `IntoBytes(usize)`. -/
def Op.InRange : Op → Prop
  | .load t => t.InRange
  | .fromBytes t => t.InRange
  | .modExp n => n < 2 ^ 64
  | .intoBytes n => n < 2 ^ 64
  | _ => True

/-- Lengths fit `usize` (always true of a Rust `Vec<String>`). -/
def NamesInRange (l : List String) : Prop :=
  l.length < 2 ^ 64 ∧ ∀ s ∈ l, (strBytes s).length < 2 ^ 64

def Instr.InRange (i : Instr) : Prop := i.op.InRange ∧ NamesInRange i.ins ∧ NamesInRange i.outs

/-- A model program that is the image of a Rust `Program` value. -/
def ProgInRange (p : Program) : Prop := p.length < 2 ^ 64 ∧ ∀ i ∈ p, i.InRange

/-- Bytes claimed by decoding a type / an operation / a name. -/
def netType : IrType → Nat
  | .bytes _ => 12
  | .big _ => 8
  | _ => 4

def netOp : Op → Nat
  | .load t => 4 + netType t
  | .fromBytes t => 4 + netType t
  | .modExp _ => 12
  | .intoBytes _ => 12
  | _ => 4

def netStr (s : String) : Nat := 8 + (strBytes s).length

def sumNetStr : List String → Nat
  | [] => 0
  | s :: t => netStr s + sumNetStr t

/-- Net claim of an instruction once decoded. -/
def netInstr (i : Instr) : Nat := netOp i.op + (8 + sumNetStr i.ins) + (8 + sumNetStr i.outs)

/-- Upper bound of the running claim while an instruction is decoded. -/
def boundInstr (P : BParams) (i : Instr) : Nat :=
  netOp i.op + (8 + i.ins.length * P.sizeString + sumNetStr i.ins)
    + (8 + i.outs.length * P.sizeString + sumNetStr i.outs)

def sumBound (P : BParams) : Program → Nat
  | [] => 0
  | i :: t => boundInstr P i + sumBound P t

/-- Upper bound of the running total of `claim_bytes_read` while `p` is decoded: the container
claim `len * size_of::<Instruction>()` plus, per instruction, the integers, the container claims
of its two name vectors and the bytes of the names. -/
def claimBound (P : BParams) (p : Program) : Nat := 8 + p.length * P.sizeInstr + sumBound P p

theorem netInstr_le_bound (P : BParams) (i : Instr) : netInstr i ≤ boundInstr P i := by
  unfold netInstr boundInstr; omega

theorem claim_ok (P : BParams) (n c : Nat) (h : c + n ≤ P.limit) : claim P n c = .ok (c + n) := by
  simp [claim]; omega

theorem claim_inv {P : BParams} {n c c' : Nat} (h : claim P n c = .ok c') : c' = c + n := by
  unfold claim at h; split at h <;> simp at h; omega

/-! ## Integers -/

theorem decU_enc (strict : Bool) (P : BParams) (w mx v : Nat) (rest : List Nat) (c : Nat)
    (hmx : mx = 252 ∨ mx = 253) (hv : v < maxOf mx) (hl : c + w ≤ P.limit) :
    decU strict P w mx ⟨encVarint v ++ rest, c⟩ = .ok (v, ⟨rest, c + w⟩) := by
  simp [decU, claim_ok P w c hl, decVarint_enc strict mx v rest hmx hv]

theorem decU_canon {P : BParams} {w mx : Nat} {s s' : DState} {v : Nat}
    (h : decU true P w mx s = .ok (v, s')) (hwf : BytesWF s.input) :
    s.input = encVarint v ++ s'.input := by
  unfold decU at h
  split at h
  · cases h
  · split at h
    · cases h
    · next v' r hv =>
      simp only [Except.ok.injEq, Prod.mk.injEq] at h
      obtain ⟨rfl, rfl⟩ := h
      exact decVarint_strict_canon mx _ _ _ hwf hv

theorem decU_lax {P : BParams} {w mx : Nat} {s : DState} {r : Nat × DState}
    (h : decU true P w mx s = .ok r) : decU false P w mx s = .ok r := by
  unfold decU at h ⊢
  split at h
  · cases h
  · next c hc =>
    split at h
    · cases h
    · next v' r' hv =>
      rw [decVarint_lax_of_strict mx _ _ hv]
      exact h

theorem decU32_enc (strict : Bool) (P : BParams) (v : Nat) (rest : List Nat) (c : Nat)
    (hv : v < 2 ^ 32) (hl : c + 4 ≤ P.limit) :
    decU32 strict P ⟨encVarint v ++ rest, c⟩ = .ok (v, ⟨rest, c + 4⟩) :=
  decU_enc strict P 4 252 v rest c (.inl rfl) (by simpa [maxOf] using hv) hl

theorem decU64_enc (strict : Bool) (P : BParams) (v : Nat) (rest : List Nat) (c : Nat)
    (hv : v < 2 ^ 64) (hl : c + 8 ≤ P.limit) :
    decU64 strict P ⟨encVarint v ++ rest, c⟩ = .ok (v, ⟨rest, c + 8⟩) :=
  decU_enc strict P 8 253 v rest c (.inr rfl) (by simpa [maxOf] using hv) hl

theorem encVarint_small (k : Nat) (h : k < 251) : encVarint k = [k] := by simp [encVarint, h]

/-- A variant index written by the encoder (one byte). -/
theorem decU32_tag (strict : Bool) (P : BParams) (k : Nat) (rest : List Nat) (c : Nat)
    (hk : k < 251) (hl : c + 4 ≤ P.limit) :
    decU32 strict P ⟨k :: rest, c⟩ = .ok (k, ⟨rest, c + 4⟩) := by
  have := decU32_enc strict P k rest c (by omega) hl
  rwa [encVarint_small k hk] at this

/-! ## Names -/

theorem decString_enc (strict : Bool) (P : BParams) (x : String) (rest : List Nat) (c : Nat)
    (hx : (strBytes x).length < 2 ^ 64) (hl : c + netStr x ≤ P.limit) :
    decString strict P ⟨encString x ++ rest, c⟩ = .ok (x, ⟨rest, c + netStr x⟩) := by
  unfold netStr at hl ⊢
  unfold decString encString
  rw [List.append_assoc, decU64_enc strict P _ _ c hx (by omega)]
  have hc := claim_ok P (strBytes x).length (c + 8) (by omega)
  simp only [hc, takeN_append, bytesStr_strBytes, Nat.add_assoc]

theorem decString_canon {P : BParams} {s s' : DState} {x : String}
    (h : decString true P s = .ok (x, s')) (hwf : BytesWF s.input) :
    s.input = encString x ++ s'.input := by
  unfold decString at h
  split at h
  · cases h
  · next len s1 h1 =>
    have e1 := decU_canon h1 hwf
    split at h
    · cases h
    · split at h
      · cases h
      · next a r htk =>
        obtain ⟨e2, hlen⟩ := takeN_ok htk
        split at h
        · cases h
        · next str hstr =>
          simp only [Except.ok.injEq, Prod.mk.injEq] at h
          obtain ⟨rfl, rfl⟩ := h
          have hwf1 : BytesWF s1.input := by rw [e1] at hwf; exact hwf.append_right
          have hawf : BytesWF a := by rw [e2] at hwf1; exact hwf1.append_left
          have := strBytes_of_bytesStr a str hawf hstr
          simp only [encString, this, hlen, e1, e2, List.append_assoc]

theorem decString_lax {P : BParams} {s : DState} {r : String × DState}
    (h : decString true P s = .ok r) : decString false P s = .ok r := by
  unfold decString at h ⊢
  split at h
  · cases h
  · next len s1 h1 =>
    rw [show decU64 false P s = .ok (len, s1) from decU_lax h1]
    exact h

theorem decStringsLoop_enc (strict : Bool) (P : BParams) :
    ∀ (xs : List String) (rest : List Nat) (c : Nat),
      (∀ s ∈ xs, (strBytes s).length < 2 ^ 64) → xs.length * P.sizeString ≤ c →
      c + sumNetStr xs ≤ P.limit →
      decStringsLoop strict P xs.length ⟨xs.flatMap encString ++ rest, c⟩
        = .ok (xs, ⟨rest, c - xs.length * P.sizeString + sumNetStr xs⟩)
  | [], rest, c, _, _, _ => by simp [decStringsLoop, sumNetStr]
  | x :: t, rest, c, hr, hc, hl => by
    have hx := hr x (List.mem_cons_self ..)
    have ht : ∀ s ∈ t, (strBytes s).length < 2 ^ 64 := fun s hs => hr s (List.mem_cons_of_mem _ hs)
    simp only [List.length_cons, Nat.succ_mul, sumNetStr] at hc hl ⊢
    simp only [decStringsLoop, List.flatMap_cons, List.append_assoc]
    rw [decString_enc strict P x _ _ hx (by omega)]
    simp only
    rw [decStringsLoop_enc strict P t rest _ ht (by omega) (by omega)]
    simp only [Except.ok.injEq, Prod.mk.injEq, DState.mk.injEq, true_and]
    omega

theorem decStringsLoop_canon {P : BParams} :
    ∀ (n : Nat) (s s' : DState) (xs : List String),
      decStringsLoop true P n s = .ok (xs, s') → BytesWF s.input →
      s.input = xs.flatMap encString ++ s'.input ∧ xs.length = n
  | 0, s, s', xs, h, _ => by
    simp only [decStringsLoop, Except.ok.injEq, Prod.mk.injEq] at h
    obtain ⟨rfl, rfl⟩ := h
    simp
  | n + 1, s, s', xs, h, hwf => by
    unfold decStringsLoop at h
    split at h
    · cases h
    · next x s1 h1 =>
      have e1 := decString_canon h1 hwf
      split at h
      · cases h
      · next ys s2 h2 =>
        simp only [Except.ok.injEq, Prod.mk.injEq] at h
        obtain ⟨rfl, rfl⟩ := h
        have hwf1 : BytesWF s1.input := by
          simp only at e1; rw [e1] at hwf; exact hwf.append_right
        obtain ⟨e2, hl⟩ := decStringsLoop_canon n s1 s2 ys h2 hwf1
        simp only at e1
        simp only [List.flatMap_cons, List.append_assoc, List.length_cons, hl, e1, e2, and_self]

theorem decStringsLoop_lax {P : BParams} :
    ∀ (n : Nat) (s : DState) (r : List String × DState),
      decStringsLoop true P n s = .ok r → decStringsLoop false P n s = .ok r
  | 0, s, r, h => by simpa [decStringsLoop] using h
  | n + 1, s, r, h => by
    unfold decStringsLoop at h ⊢
    split at h
    · cases h
    · next x s1 h1 =>
      rw [decString_lax h1]
      split at h
      · cases h
      · next ys s2 h2 =>
        simp only
        rw [decStringsLoop_lax n s1 _ h2]
        exact h

theorem decStrings_enc (strict : Bool) (P : BParams) (l : List String) (rest : List Nat) (c : Nat)
    (hr : NamesInRange l) (hl : c + (8 + l.length * P.sizeString + sumNetStr l) ≤ P.limit) :
    decStrings strict P ⟨encStrings l ++ rest, c⟩ = .ok (l, ⟨rest, c + (8 + sumNetStr l)⟩) := by
  unfold decStrings encStrings
  rw [List.append_assoc, decU64_enc strict P _ _ c hr.1 (by omega)]
  have hc := claim_ok P (l.length * P.sizeString) (c + 8) (by omega)
  simp only [hc]
  rw [decStringsLoop_enc strict P l rest _ hr.2 (by omega) (by omega)]
  simp only [Except.ok.injEq, Prod.mk.injEq, DState.mk.injEq, true_and]
  omega

theorem decStrings_canon {P : BParams} {s s' : DState} {l : List String}
    (h : decStrings true P s = .ok (l, s')) (hwf : BytesWF s.input) :
    s.input = encStrings l ++ s'.input := by
  unfold decStrings at h
  split at h
  · cases h
  · next len s1 h1 =>
    have e1 := decU_canon h1 hwf
    split at h
    · cases h
    · next c hc =>
      have hwf1 : BytesWF s1.input := by rw [e1] at hwf; exact hwf.append_right
      obtain ⟨e2, hlen⟩ := decStringsLoop_canon len ⟨s1.input, c⟩ s' l h hwf1
      simp only at e2
      simp only [encStrings, hlen, e1, e2, List.append_assoc]

theorem decStrings_lax {P : BParams} {s : DState} {r : List String × DState}
    (h : decStrings true P s = .ok r) : decStrings false P s = .ok r := by
  unfold decStrings at h ⊢
  split at h
  · cases h
  · next len s1 h1 =>
    rw [show decU64 false P s = .ok (len, s1) from decU_lax h1]
    simp only
    split at h
    · cases h
    · next c hc => exact decStringsLoop_lax _ _ _ h

/-! ## Types and operations -/

theorem decType_enc (strict : Bool) (P : BParams) (t : IrType) (rest : List Nat) (c : Nat)
    (hr : t.InRange) (hl : c + netType t ≤ P.limit) :
    decType strict P ⟨encType t ++ rest, c⟩ = .ok (t, ⟨rest, c + netType t⟩) := by
  have htag : ∀ k r, k < 251 → c + 4 ≤ P.limit →
      decU32 strict P ⟨k :: r, c⟩ = .ok (k, ⟨r, c + 4⟩) :=
    fun k r hk hl => decU32_tag strict P k r c hk hl
  cases t <;> simp only [netType, IrType.InRange] at hl hr <;>
    simp only [encType, List.cons_append, List.nil_append, decType] <;>
    rw [htag _ _ (by omega) (by omega)] <;> simp only [netType]
  · rw [decU64_enc strict P _ rest _ hr (by omega)]
  · rw [decU32_enc strict P _ rest _ hr (by omega)]

theorem decType_canon {P : BParams} {s s' : DState} {t : IrType}
    (h : decType true P s = .ok (t, s')) (hwf : BytesWF s.input) :
    s.input = encType t ++ s'.input := by
  unfold decType at h
  split at h
  · cases h
  · next tag s1 h1 =>
    have e1 := decU_canon h1 hwf
    have hwf1 : BytesWF s1.input := by rw [e1] at hwf; exact hwf.append_right
    split at h
    all_goals first
      | (simp only [Except.ok.injEq, Prod.mk.injEq] at h
         obtain ⟨rfl, rfl⟩ := h
         simpa [encType, encVarint] using e1)
      | (split at h
         · cases h
         · next n s2 h2 =>
           have e2 := decU_canon h2 hwf1
           simp only [Except.ok.injEq, Prod.mk.injEq] at h
           obtain ⟨rfl, rfl⟩ := h
           rw [e1, e2]
           simp [encType, encVarint])
      | cases h

theorem decType_lax {P : BParams} {s : DState} {r : IrType × DState}
    (h : decType true P s = .ok r) : decType false P s = .ok r := by
  unfold decType at h ⊢
  split at h
  · cases h
  · next tag s1 h1 =>
    rw [show decU32 false P s = .ok (tag, s1) from decU_lax h1]
    simp only
    split at h
    all_goals first
      | exact h
      | (split at h
         · cases h
         · next n s2 h2 =>
           first
             | rw [show decU64 false P s1 = .ok (n, s2) from decU_lax h2]
             | rw [show decU32 false P s1 = .ok (n, s2) from decU_lax h2]
           exact h)

theorem decOp_enc (strict : Bool) (P : BParams) (o : Op) (rest : List Nat) (c : Nat)
    (hr : o.InRange) (hl : c + netOp o ≤ P.limit) :
    decOp strict P ⟨encOp o ++ rest, c⟩ = .ok (o, ⟨rest, c + netOp o⟩) := by
  have htag : ∀ k r, k < 251 → c + 4 ≤ P.limit →
      decU32 strict P ⟨k :: r, c⟩ = .ok (k, ⟨r, c + 4⟩) :=
    fun k r hk hl => decU32_tag strict P k r c hk hl
  cases o <;> simp only [netOp, Op.InRange] at hl hr <;>
    simp only [encOp, List.cons_append, List.nil_append, decOp] <;>
    rw [htag _ _ (by omega) (by omega)] <;> simp only [netOp]
  · rw [decType_enc strict P _ rest _ hr (by omega)]; simp only [Nat.add_assoc]
  · rw [decU64_enc strict P _ rest _ hr (by omega)]
  · rw [decU64_enc strict P _ rest _ hr (by omega)]
  · rw [decType_enc strict P _ rest _ hr (by omega)]; simp only [Nat.add_assoc]

theorem decOp_canon {P : BParams} {s s' : DState} {o : Op}
    (h : decOp true P s = .ok (o, s')) (hwf : BytesWF s.input) :
    s.input = encOp o ++ s'.input := by
  unfold decOp at h
  split at h
  · cases h
  · next tag s1 h1 =>
    have e1 := decU_canon h1 hwf
    have hwf1 : BytesWF s1.input := by rw [e1] at hwf; exact hwf.append_right
    split at h
    all_goals first
      | (simp only [Except.ok.injEq, Prod.mk.injEq] at h
         obtain ⟨rfl, rfl⟩ := h
         simpa [encOp, encVarint] using e1)
      | (split at h
         · cases h
         · next n s2 h2 =>
           have e2 := decU_canon h2 hwf1
           simp only [Except.ok.injEq, Prod.mk.injEq] at h
           obtain ⟨rfl, rfl⟩ := h
           rw [e1, e2]
           simp [encOp, encVarint])
      | (split at h
         · cases h
         · next n s2 h2 =>
           have e2 := decType_canon h2 hwf1
           simp only [Except.ok.injEq, Prod.mk.injEq] at h
           obtain ⟨rfl, rfl⟩ := h
           rw [e1, e2]
           simp [encOp, encVarint])
      | cases h

theorem decOp_lax {P : BParams} {s : DState} {r : Op × DState}
    (h : decOp true P s = .ok r) : decOp false P s = .ok r := by
  unfold decOp at h ⊢
  split at h
  · cases h
  · next tag s1 h1 =>
    rw [show decU32 false P s = .ok (tag, s1) from decU_lax h1]
    simp only
    split at h
    all_goals first
      | exact h
      | (split at h
         · cases h
         · next n s2 h2 =>
           first
             | rw [show decU64 false P s1 = .ok (n, s2) from decU_lax h2]
             | rw [decType_lax h2]
           exact h)

/-! ## Instructions and programs -/

theorem decInstr_enc (strict : Bool) (P : BParams) (i : Instr) (rest : List Nat) (c : Nat)
    (hr : i.InRange) (hl : c + boundInstr P i ≤ P.limit) :
    decInstr strict P ⟨encInstr i ++ rest, c⟩ = .ok (i, ⟨rest, c + netInstr i⟩) := by
  obtain ⟨op, ins, outs⟩ := i
  obtain ⟨hop, hins, houts⟩ := hr
  simp only [boundInstr, netInstr] at hl ⊢
  simp only [decInstr, encInstr, List.append_assoc]
  rw [decOp_enc strict P op _ c hop (by omega)]
  simp only
  rw [decStrings_enc strict P ins _ _ hins (by omega)]
  simp only
  rw [decStrings_enc strict P outs _ _ houts (by omega)]
  simp only [Nat.add_assoc]

theorem decInstr_canon {P : BParams} {s s' : DState} {i : Instr}
    (h : decInstr true P s = .ok (i, s')) (hwf : BytesWF s.input) :
    s.input = encInstr i ++ s'.input := by
  unfold decInstr at h
  split at h
  · cases h
  · next op s1 h1 =>
    have e1 := decOp_canon h1 hwf
    have hwf1 : BytesWF s1.input := by rw [e1] at hwf; exact hwf.append_right
    split at h
    · cases h
    · next ins s2 h2 =>
      have e2 := decStrings_canon h2 hwf1
      have hwf2 : BytesWF s2.input := by rw [e2] at hwf1; exact hwf1.append_right
      split at h
      · cases h
      · next outs s3 h3 =>
        have e3 := decStrings_canon h3 hwf2
        simp only [Except.ok.injEq, Prod.mk.injEq] at h
        obtain ⟨rfl, rfl⟩ := h
        simp only [encInstr, e1, e2, e3, List.append_assoc]

theorem decInstr_lax {P : BParams} {s : DState} {r : Instr × DState}
    (h : decInstr true P s = .ok r) : decInstr false P s = .ok r := by
  unfold decInstr at h ⊢
  split at h
  · cases h
  · next op s1 h1 =>
    rw [decOp_lax h1]
    simp only
    split at h
    · cases h
    · next ins s2 h2 =>
      rw [decStrings_lax h2]
      simp only
      split at h
      · cases h
      · next outs s3 h3 =>
        rw [decStrings_lax h3]
        exact h

theorem decInstrsLoop_enc (strict : Bool) (P : BParams) :
    ∀ (xs : Program) (rest : List Nat) (c : Nat),
      (∀ i ∈ xs, i.InRange) → xs.length * P.sizeInstr ≤ c → c + sumBound P xs ≤ P.limit →
      ∃ c', decInstrsLoop strict P xs.length ⟨xs.flatMap encInstr ++ rest, c⟩ = .ok (xs, ⟨rest, c'⟩)
  | [], rest, c, _, _, _ => ⟨c, by simp [decInstrsLoop]⟩
  | x :: t, rest, c, hr, hc, hl => by
    have hx := hr x (List.mem_cons_self ..)
    have ht : ∀ i ∈ t, i.InRange := fun i hi => hr i (List.mem_cons_of_mem _ hi)
    have hnb := netInstr_le_bound P x
    simp only [List.length_cons, Nat.succ_mul, sumBound] at hc hl ⊢
    simp only [decInstrsLoop, List.flatMap_cons, List.append_assoc]
    rw [decInstr_enc strict P x _ _ hx (by omega)]
    simp only
    obtain ⟨c', hc'⟩ := decInstrsLoop_enc strict P t rest (c - P.sizeInstr + netInstr x) ht
      (by omega) (by omega)
    exact ⟨c', by rw [hc']⟩

theorem decInstrsLoop_canon {P : BParams} :
    ∀ (n : Nat) (s s' : DState) (xs : Program),
      decInstrsLoop true P n s = .ok (xs, s') → BytesWF s.input →
      s.input = xs.flatMap encInstr ++ s'.input ∧ xs.length = n
  | 0, s, s', xs, h, _ => by
    simp only [decInstrsLoop, Except.ok.injEq, Prod.mk.injEq] at h
    obtain ⟨rfl, rfl⟩ := h
    simp
  | n + 1, s, s', xs, h, hwf => by
    unfold decInstrsLoop at h
    split at h
    · cases h
    · next x s1 h1 =>
      have e1 := decInstr_canon h1 hwf
      split at h
      · cases h
      · next ys s2 h2 =>
        simp only [Except.ok.injEq, Prod.mk.injEq] at h
        obtain ⟨rfl, rfl⟩ := h
        have hwf1 : BytesWF s1.input := by
          simp only at e1; rw [e1] at hwf; exact hwf.append_right
        obtain ⟨e2, hl⟩ := decInstrsLoop_canon n s1 s2 ys h2 hwf1
        simp only at e1
        simp only [List.flatMap_cons, List.append_assoc, List.length_cons, hl, e1, e2, and_self]

theorem decInstrsLoop_lax {P : BParams} :
    ∀ (n : Nat) (s : DState) (r : Program × DState),
      decInstrsLoop true P n s = .ok r → decInstrsLoop false P n s = .ok r
  | 0, s, r, h => by simpa [decInstrsLoop] using h
  | n + 1, s, r, h => by
    unfold decInstrsLoop at h ⊢
    split at h
    · cases h
    · next x s1 h1 =>
      rw [decInstr_lax h1]
      split at h
      · cases h
      · next ys s2 h2 =>
        simp only
        rw [decInstrsLoop_lax n s1 _ h2]
        exact h

/-- Decoding what `write_relation` wrote, followed by anything, gives the program back and
leaves exactly what follows — strict or not, provided the claims stay within the limit. -/
theorem decodeBinPrefix_enc (strict : Bool) (P : BParams) (p : Program) (rest : List Nat)
    (hr : ProgInRange p) (hl : claimBound P p ≤ P.limit) :
    decodeBinPrefix strict P (encodeBin p ++ rest) = .ok (p, rest) := by
  unfold claimBound at hl
  unfold decodeBinPrefix encodeBin
  rw [List.append_assoc, decU64_enc strict P _ _ 0 hr.1 (by omega)]
  have hc := claim_ok P (p.length * P.sizeInstr) (0 + 8) (by omega)
  simp only [hc]
  obtain ⟨c', hc'⟩ := decInstrsLoop_enc strict P p rest (0 + 8 + p.length * P.sizeInstr) hr.2
    (by omega) (by omega)
  rw [hc']

/-- The strict decoder accepts only `encodeBin p` followed by the unread rest. -/
theorem decodeBinPrefix_canon {P : BParams} {bs rest : List Nat} {p : Program}
    (h : decodeBinPrefix true P bs = .ok (p, rest)) (hwf : BytesWF bs) :
    bs = encodeBin p ++ rest := by
  unfold decodeBinPrefix at h
  split at h
  · cases h
  · next len s1 h1 =>
    have e1 := decU_canon h1 hwf
    simp only at e1
    have hwf1 : BytesWF s1.input := by rw [e1] at hwf; exact hwf.append_right
    split at h
    · cases h
    · next c hc =>
      split at h
      · cases h
      · next q s2 h2 =>
        simp only [Except.ok.injEq, Prod.mk.injEq] at h
        obtain ⟨rfl, rfl⟩ := h
        obtain ⟨e2, hlen⟩ := decInstrsLoop_canon len ⟨s1.input, c⟩ s2 q h2 hwf1
        simp only at e2
        simp only [encodeBin, hlen, e1, e2, List.append_assoc]

theorem decodeBinPrefix_lax {P : BParams} {bs : List Nat} {r : Program × List Nat}
    (h : decodeBinPrefix true P bs = .ok r) : decodeBinPrefix false P bs = .ok r := by
  unfold decodeBinPrefix at h ⊢
  split at h
  · cases h
  · next len s1 h1 =>
    rw [show decU64 false P ⟨bs, 0⟩ = .ok (len, s1) from decU_lax h1]
    simp only
    split at h
    · cases h
    · next c hc =>
      split at h
      · cases h
      · next q s2 h2 =>
        rw [decInstrsLoop_lax _ _ _ h2]
        exact h

/-- Programs whose container claim alone exceeds the limit are rejected (whatever follows). -/
theorem decodeBinPrefix_limit (strict : Bool) (P : BParams) (p : Program) (rest : List Nat)
    (hlen : p.length < 2 ^ 64) (h8 : 8 ≤ P.limit) (hbig : P.limit < 8 + p.length * P.sizeInstr) :
    decodeBinPrefix strict P (encodeBin p ++ rest) = .error .limit := by
  unfold decodeBinPrefix encodeBin
  rw [List.append_assoc, decU64_enc strict P _ _ 0 hlen (by omega)]
  have : claim P (p.length * P.sizeInstr) (0 + 8) = .error .limit := by
    simp [claim]; omega
  simp only [this]

end MidnightZK.C18
