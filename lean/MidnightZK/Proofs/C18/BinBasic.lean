import MidnightZK.Model.C18.BinDec
/-! Byte-level lemmas for the binary round trip of C18: little-endian bytes, varints, strings. -/
namespace MidnightZK.C18

/-- Every element is a byte. -/
def BytesWF (bs : List Nat) : Prop := ∀ b ∈ bs, b < 256

theorem BytesWF.tail {b : Nat} {bs : List Nat} (h : BytesWF (b :: bs)) : BytesWF bs :=
  fun x hx => h x (List.mem_cons_of_mem _ hx)

theorem BytesWF.append_left {a r : List Nat} (h : BytesWF (a ++ r)) : BytesWF a :=
  fun x hx => h x (List.mem_append_left _ hx)

theorem BytesWF.append_right {a r : List Nat} (h : BytesWF (a ++ r)) : BytesWF r :=
  fun x hx => h x (List.mem_append_right _ hx)

theorem leBytes_length : ∀ (n v : Nat), (leBytes n v).length = n
  | 0, _ => rfl
  | n + 1, v => by simp [leBytes, leBytes_length n]

theorem leBytesToNat_leBytes : ∀ (n v : Nat), v < 256 ^ n → leBytesToNat (leBytes n v) = v
  | 0, v, h => by simp at h; simp [leBytes, leBytesToNat, h]
  | n + 1, v, h => by
    have : v / 256 < 256 ^ n := by
      rw [Nat.pow_succ] at h
      exact Nat.div_lt_of_lt_mul (by rw [Nat.mul_comm]; exact h)
    simp only [leBytes, leBytesToNat, leBytesToNat_leBytes n _ this]
    omega

theorem leBytesToNat_lt : ∀ (bs : List Nat), BytesWF bs → leBytesToNat bs < 256 ^ bs.length
  | [], _ => by simp [leBytesToNat]
  | b :: t, h => by
    have hb : b < 256 := h b (List.mem_cons_self ..)
    have := leBytesToNat_lt t h.tail
    simp only [leBytesToNat, List.length_cons, Nat.pow_succ]
    omega

theorem leBytes_leBytesToNat : ∀ (bs : List Nat), BytesWF bs → leBytes bs.length (leBytesToNat bs) = bs
  | [], _ => rfl
  | b :: t, h => by
    have hb : b < 256 := h b (List.mem_cons_self ..)
    have ih := leBytes_leBytesToNat t h.tail
    simp only [List.length_cons, leBytes, leBytesToNat]
    have h1 : (b + 256 * leBytesToNat t) % 256 = b := by omega
    have h2 : (b + 256 * leBytesToNat t) / 256 = leBytesToNat t := by omega
    rw [h1, h2, ih]

theorem leBytes_wf : ∀ (n v : Nat), BytesWF (leBytes n v)
  | 0, _ => by simp [leBytes, BytesWF]
  | n + 1, v => by
    intro b hb
    simp only [leBytes, List.mem_cons] at hb
    rcases hb with rfl | hb
    · omega
    · exact leBytes_wf n _ b hb

theorem takeN_append (a r : List Nat) : takeN a.length (a ++ r) = .ok (a, r) := by
  simp [takeN]

theorem takeN_append' (n : Nat) (a r : List Nat) (h : a.length = n) : takeN n (a ++ r) = .ok (a, r) := by
  subst h; exact takeN_append a r

theorem takeN_ok {n : Nat} {bs a r : List Nat} (h : takeN n bs = .ok (a, r)) :
    bs = a ++ r ∧ a.length = n := by
  unfold takeN at h
  split at h
  · next hle =>
    simp only [Except.ok.injEq, Prod.mk.injEq] at h
    obtain ⟨rfl, rfl⟩ := h
    exact ⟨(List.take_append_drop n bs).symm, by simp [List.length_take]; omega⟩
  · simp at h

theorem encVarint_wf (v : Nat) : BytesWF (encVarint v) := by
  unfold encVarint
  split
  · intro b hb; simp at hb; omega
  all_goals (repeat' split) <;>
    (intro b hb; simp only [List.mem_cons] at hb; rcases hb with rfl | hb
     · omega
     · exact leBytes_wf _ _ b hb)

theorem decVarint_nil (strict : Bool) (mx : Nat) : decVarint strict mx [] = .error .eof := rfl

theorem decVarint_cons (strict : Bool) (mx b : Nat) (rest : List Nat) :
    decVarint strict mx (b :: rest) =
      if b ≤ 250 then .ok (b, rest)
      else if b > mx ∨ b ≥ 254 then .error .varint
      else
        match takeN (if b = 251 then 2 else if b = 252 then 4 else 8) rest with
        | .error e => .error e
        | .ok (v, r) =>
          if strict && leBytesToNat v < markerMin b then .error .nonMinimal
          else .ok (leBytesToNat v, r) := rfl

/-- Upper bound of the values of the varint target type with widest marker `mx`. -/
def maxOf (mx : Nat) : Nat := if mx = 252 then 2 ^ 32 else 2 ^ 64

/-- Decoding what the encoder wrote gives the value back (strict or not), for `u32` (`mx = 252`)
and `u64`/`usize` (`mx = 253`) targets. -/
theorem decVarint_enc (strict : Bool) (mx v : Nat) (rest : List Nat) (hmx : mx = 252 ∨ mx = 253)
    (hv : v < maxOf mx) : decVarint strict mx (encVarint v ++ rest) = .ok (v, rest) := by
  unfold encVarint
  split
  · next h => simp [decVarint]; omega
  · next h =>
    split
    · next h16 =>
      have hlen : (leBytes 2 v).length = 2 := leBytes_length 2 v
      have hval : leBytesToNat (leBytes 2 v) = v := leBytesToNat_leBytes 2 v (by simpa using h16)
      have hmx' : ¬ (251 > mx) := by omega
      simp [decVarint, hmx', takeN_append' 2 _ rest hlen, hval, markerMin]
      omega
    · next h16 =>
      split
      · next h32 =>
        have hlen : (leBytes 4 v).length = 4 := leBytes_length 4 v
        have hval : leBytesToNat (leBytes 4 v) = v := leBytesToNat_leBytes 4 v (by simpa using h32)
        have hmx' : ¬ (252 > mx) := by omega
        simp [decVarint, hmx', takeN_append' 4 _ rest hlen, hval, markerMin]
        omega
      · next h32 =>
        have hmx3 : mx = 253 := by
          rcases hmx with h | h
          · simp [maxOf, h] at hv; omega
          · exact h
        subst hmx3
        have hv64 : v < 2 ^ 64 := by simpa [maxOf] using hv
        simp only [hv64, if_true]
        have hlen : (leBytes 8 v).length = 8 := leBytes_length 8 v
        have hval : leBytesToNat (leBytes 8 v) = v := leBytesToNat_leBytes 8 v (by simpa using hv64)
        simp [decVarint, takeN_append' 8 _ rest hlen, hval, markerMin]
        omega

/-- A strict varint decoder accepts only what the encoder writes. -/
theorem decVarint_strict_canon (mx : Nat) (bs : List Nat) (v : Nat) (rest : List Nat)
    (hwf : BytesWF bs) (h : decVarint true mx bs = .ok (v, rest)) : bs = encVarint v ++ rest := by
  cases bs with
  | nil => rw [decVarint_nil] at h; cases h
  | cons b t =>
    rw [decVarint_cons] at h
    split at h
    · next hb =>
      simp only [Except.ok.injEq, Prod.mk.injEq] at h
      obtain ⟨rfl, rfl⟩ := h
      have : b < 251 := by omega
      simp [encVarint, this]
    · next hb =>
      split at h
      · simp at h
      · next hm =>
        have hb3 : b = 251 ∨ b = 252 ∨ b = 253 := by omega
        split at h
        · simp at h
        · next a r htk =>
          obtain ⟨ht, hlen⟩ := takeN_ok htk
          have hawf : BytesWF a := by
            have := hwf.tail; rw [ht] at this; exact this.append_left
          have hlt := leBytesToNat_lt a hawf
          have hrt := leBytes_leBytesToNat a hawf
          split at h
          · simp at h
          · next hs =>
            simp only [Except.ok.injEq, Prod.mk.injEq] at h
            obtain ⟨rfl, rfl⟩ := h
            simp only [Bool.true_and, decide_eq_true_eq, Nat.not_lt] at hs
            rcases hb3 with rfl | rfl | rfl
            · simp only [if_true] at hlen
              rw [hlen] at hlt hrt
              simp only [markerMin, if_true] at hs
              have h1 : ¬ leBytesToNat a < 251 := by omega
              have h2 : leBytesToNat a < 2 ^ 16 := by simpa using hlt
              simp [encVarint, h1, h2, hrt, ht]
            · simp only [show ¬ (252 = 251) by omega, if_false, if_true] at hlen
              rw [hlen] at hlt hrt
              simp only [markerMin, show ¬ (252 = 251) by omega, if_false, if_true] at hs
              have h1 : ¬ leBytesToNat a < 251 := by omega
              have h2 : ¬ leBytesToNat a < 2 ^ 16 := by omega
              have h3 : leBytesToNat a < 2 ^ 32 := by simpa using hlt
              simp [encVarint, h1, h2, h3, hrt, ht]
            · simp only [show ¬ (253 = 251) by omega, show ¬ (253 = 252) by omega, if_false] at hlen
              rw [hlen] at hlt hrt
              simp only [markerMin, show ¬ (253 = 251) by omega, show ¬ (253 = 252) by omega, if_false] at hs
              have h1 : ¬ leBytesToNat a < 251 := by omega
              have h2 : ¬ leBytesToNat a < 2 ^ 16 := by omega
              have h3 : ¬ leBytesToNat a < 2 ^ 32 := by omega
              have h4 : leBytesToNat a < 2 ^ 64 := by simpa using hlt
              simp [encVarint, h1, h2, h3, h4, hrt, ht]

/-- The real (lax) decoder accepts everything the strict one accepts, with the same result. -/
theorem decVarint_lax_of_strict (mx : Nat) (bs : List Nat) (r : Nat × List Nat)
    (h : decVarint true mx bs = .ok r) : decVarint false mx bs = .ok r := by
  cases bs with
  | nil => rw [decVarint_nil] at h; cases h
  | cons b t =>
    rw [decVarint_cons] at h ⊢
    split
    · next hb => simpa [hb] using h
    · next hb =>
      simp only [hb, if_false] at h
      split
      · next hm => simp [hm] at h
      · next hm =>
        simp only [hm, if_false] at h
        split at h
        · simp at h
        · next a r' htk =>
          split at h
          · cases h
          · simpa using h

/-! ## Strings -/

theorem strBytes_wf (s : String) : BytesWF (strBytes s) := by
  intro b hb
  simp only [strBytes, List.mem_map] at hb
  obtain ⟨u, _, rfl⟩ := hb
  exact u.toNat_lt

/-- `String::from_utf8(s.as_bytes().to_vec()) = Ok(s)`. -/
theorem bytesStr_strBytes (s : String) : bytesStr? (strBytes s) = some s := by
  unfold bytesStr? strBytes
  have : (ByteArray.mk ((s.toByteArray.data.toList.map UInt8.toNat).map Nat.toUInt8).toArray)
      = s.toByteArray := by
    simp [List.map_map, Function.comp_def]
  rw [this]
  simp [String.fromUTF8?, s.isValidUTF8]
  rfl

/-- `String::from_utf8(bs) = Ok(s)` implies `s.as_bytes() = bs`. -/
theorem strBytes_of_bytesStr (bs : List Nat) (s : String) (hb : BytesWF bs)
    (h : bytesStr? bs = some s) : strBytes s = bs := by
  unfold bytesStr? String.fromUTF8? at h
  split at h
  · simp at h
    subst h
    simp [strBytes, String.fromUTF8, List.map_map, Function.comp_def]
    have : ∀ l : List Nat, BytesWF l → List.map (fun x => x % 256) l = l := by
      intro l hl
      induction l with
      | nil => rfl
      | cons a t ih =>
        simp only [List.map_cons]
        rw [ih hl.tail, Nat.mod_eq_of_lt (hl a (List.mem_cons_self ..))]
    exact this bs hb
  · simp at h

end MidnightZK.C18
