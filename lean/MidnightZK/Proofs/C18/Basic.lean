import MidnightZK.Model.C18.In
import MidnightZK.Model.C18.Bin
/-!
# C18 — helper lemmas: lists, `mapE`, `insertMany`, arity
-/
namespace MidnightZK.C18

theorem mapE_length {α β : Type} (f : α → Except Err β) :
    ∀ (l : List α) (r : List β), mapE f l = .ok r → r.length = l.length
  | [], r, h => by simp [mapE] at h; subst h; rfl
  | a :: rest, r, h => by
    unfold mapE at h
    split at h
    · cases h
    · split at h
      · cases h
      · next b _ bs hbs =>
        cases h
        simp [mapE_length f rest bs hbs]

theorem insertMany_no_panic {α : Type} :
    ∀ (names : List String) (vals : List α) (mem : List (String × α)) (s : String),
      names.length = vals.length → insertMany mem names vals ≠ .error (.panic s)
  | [], [], mem, s, _ => by simp [insertMany]
  | n :: ns, v :: vs, mem, s, h => by
    unfold insertMany
    split
    · simp
    · exact insertMany_no_panic ns vs _ s (by simpa using h)
  | [], _ :: _, _, _, h => by simp at h
  | _ :: _, [], _, _, h => by simp at h

theorem loadProgram_ok_iff (p : Program) : loadProgram p = .ok () ↔ ∀ i ∈ p, i.arityOk = true := by
  induction p with
  | nil => simp [loadProgram]
  | cons i rest ih =>
    unfold loadProgram
    by_cases h : i.arityOk = true
    · simp [h, ih]
    · simp [h]

end MidnightZK.C18
