import MidnightZK.Proofs.C18.Arity
/-! # C18 — bit and byte lengths -/
namespace MidnightZK.C18

theorem bitLen_le_iff (a m : Nat) : bitLen a ≤ m ↔ a < 2 ^ m := by
  unfold bitLen
  split
  · next h => subst h; simp [Nat.two_pow_pos]
  · next h =>
    rw [← Nat.log2_lt h]
    omega

theorem byteLen_le_iff (a n : Nat) : byteLen a ≤ n ↔ a < 2 ^ (8 * n) := by
  rw [← bitLen_le_iff]
  unfold byteLen divCeil
  omega

theorem natToLeBytes_length : ∀ (n v : Nat), (natToLeBytes n v).length = n
  | 0, _ => rfl
  | n + 1, v => by simp [natToLeBytes, natToLeBytes_length n]

end MidnightZK.C18
