import MidnightZK.Proofs.C18.Shape
/-!
# C18 — simulation between the off-circuit and the in-circuit interpreter

`Rel v cv`: the in-circuit value `cv` carries the off-circuit value `v` in a shape on which
both sides agree (`WellShaped` limb bounds; scalar bit vectors short enough to be one public
input, holding the canonical value).
-/
namespace MidnightZK.C18

inductive Rel : IrValue → CVal → Prop
  | bool (b : Bool) : Rel (.bool b) (.bool b)
  | bytes (bs : List Nat) : Rel (.bytes bs) (.bytes bs)
  | native (x : Nat) : Rel (.native x) (.native x)
  | big (s : Shape) (x : Nat) : WellShaped s → Rel (.big x) (.big s x)
  | point (u v : Nat) : Rel (.point u v) (.point u v)
  | scalar (n s : Nat) : 1 ≤ n → n ≤ FBits - 1 → s < 2 ^ n → Rel (.scalar s) (.scalar n s)

inductive ListRel : List IrValue → List CVal → Prop
  | nil : ListRel [] []
  | cons {v cv vs cvs} : Rel v cv → ListRel vs cvs → ListRel (v :: vs) (cv :: cvs)

/-- Memories built in lockstep: same names, related values, every in-circuit value known. -/
inductive MemRel : List (String × IrValue) → List (String × (CVal × Bool)) → Prop
  | nil : MemRel [] []
  | cons {n v cv m m'} : Rel v cv → MemRel m m' → MemRel ((n, v) :: m) ((n, (cv, true)) :: m')

theorem MemRel.lookup_none {m m'} (h : MemRel m m') (n : String) :
    lookup n m = none ↔ lookup n m' = none := by
  induction h with
  | nil => simp [lookup]
  | cons _ _ ih =>
    simp only [lookup]
    split <;> simp [*]

theorem MemRel.lookup_some {m m'} (h : MemRel m m') (n : String) (v : IrValue)
    (hv : lookup n m = some v) : ∃ cv, lookup n m' = some (cv, true) ∧ Rel v cv := by
  induction h with
  | nil => simp [lookup] at hv
  | cons hr _ ih =>
    simp only [lookup] at hv ⊢
    split
    · next heq => simp [heq] at hv; subst hv; exact ⟨_, rfl, hr⟩
    · next hne => simp [hne] at hv; exact ih hv

theorem RJ_lt : RJ < 2 ^ 252 := by decide

theorem bitLen_self_lt (s : Nat) : s < 2 ^ bitLen s := (bitLen_le_iff s (bitLen s)).1 (Nat.le_refl _)

theorem parseJubjubScalar_lt (p : List Char) (x : Nat) (h : parseJubjubScalar p = some x) :
    x < RJ := by
  unfold parseJubjubScalar at h
  split at h
  · cases h
  · split at h
    · cases h
    · simp only at h
      split at h
      · cases h
      · cases h; omega

theorem parseConst_scalar_lt (name : String) (s : Nat) (h : parseConst name = some (.scalar s)) :
    s < RJ := by
  unfold parseConst at h
  split at h
  · split at h
    · split at h
      · cases h
      · split at h <;> cases h
    · simp at h
  · split at h
    · simp at h
    · split at h
      · simp at h
      · split at h
        · simp at h
        · split at h
          · simp at h
            exact parseJubjubScalar_lt _ _ h
          · cases h
  · cases h

/-- A constant is carried by its in-circuit assignment. -/
theorem const_rel (name : String) (v : IrValue) (h : parseConst name = some v) :
    Rel v (constCVal v) := by
  cases v with
  | bool b => exact .bool b
  | bytes bs => exact .bytes bs
  | native x => exact .native x
  | big x => exact .big _ _ (fixedShape_wellShaped x)
  | point u v => exact .point u v
  | scalar s =>
    have hs := parseConst_scalar_lt name s h
    have hlt : s < 2 ^ 252 := Nat.lt_trans hs RJ_lt
    have hb : bitLen s ≤ 252 := (bitLen_le_iff s 252).2 hlt
    refine .scalar _ _ (by omega) (by simp [FBits]; omega) ?_
    by_cases h0 : bitLen s = 0
    · have := bitLen_self_lt s
      rw [h0] at this
      simp [h0]; omega
    · have : max (bitLen s) 1 = bitLen s := by omega
      rw [this]; exact bitLen_self_lt s

theorem resolve_sim {m m'} (h : MemRel m m') (n : String) (v : IrValue)
    (hv : resolveOff m n = .ok v) : ∃ cv, resolveIn m' n = .ok (cv, true) ∧ Rel v cv := by
  unfold resolveOff at hv
  unfold resolveIn
  split at hv
  · next v' hl =>
    cases hv
    obtain ⟨cv, hcv, hr⟩ := h.lookup_some n _ hl
    exact ⟨cv, by simp [hcv], hr⟩
  · next hl =>
    have := (h.lookup_none n).1 hl
    rw [this]
    split at hv
    · next v' hp => cases hv; exact ⟨_, by simp [hp], const_rel n _ hp⟩
    · cases hv

theorem resolveAll_sim {m m'} (h : MemRel m m') : ∀ (names : List String) (vs : List IrValue),
    mapE (resolveOff m) names = .ok vs →
    ∃ cvs, mapE (resolveIn m') names = .ok (cvs.map (fun c => (c, true))) ∧ ListRel vs cvs
  | [], vs, hv => by simp [mapE] at hv; subst hv; exact ⟨[], by simp [mapE], .nil⟩
  | n :: rest, vs, hv => by
    unfold mapE at hv
    split at hv
    · cases hv
    · next v hv1 =>
      split at hv
      · cases hv
      · next vs' hvs =>
        cases hv
        obtain ⟨cv, hcv, hr⟩ := resolve_sim h n v hv1
        obtain ⟨cvs, hcvs, hrs⟩ := resolveAll_sim h rest vs' hvs
        exact ⟨cv :: cvs, by simp [mapE, hcv, hcvs], .cons hr hrs⟩

theorem insertMany_sim : ∀ (names : List String) (outs : List IrValue) (couts : List CVal)
    {m : List (String × IrValue)} {m' : List (String × (CVal × Bool))} (m2 : List (String × IrValue)),
    MemRel m m' → ListRel outs couts → insertMany m names outs = .ok m2 →
    ∃ m2', insertMany m' names (couts.map (fun c => (c, true))) = .ok m2' ∧ MemRel m2 m2'
  | [], [], _, m, m', m2, hm, hl, h => by
    cases hl; simp [insertMany] at h ⊢; subst h; exact hm
  | n :: ns, v :: vs, _, m, m', m2, hm, hl, h => by
    cases hl with
    | cons hr hrs =>
      simp only [insertMany, List.map_cons] at h ⊢
      split at h
      · cases h
      · next hnone =>
        rw [(hm.lookup_none n).1 hnone]
        exact insertMany_sim ns vs _ m2 (.cons hr hm) hrs h
  | [], _ :: _, _, _, _, _, _, _, h => by simp [insertMany] at h
  | _ :: _, [], _, _, _, _, _, _, h => by simp [insertMany] at h

end MidnightZK.C18
