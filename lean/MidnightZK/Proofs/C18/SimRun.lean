import MidnightZK.Proofs.C18.SimOps
/-! # C18 — lockstep simulation of whole programs -/
namespace MidnightZK.C18

theorem encodePI_append : ∀ (P : List IrValue) (T : List IrType) (P' : List IrValue) (T' : List IrType)
    (pi : List Nat), P.length = T.length → encodePI (P ++ P') (T ++ T') = .ok pi →
    ∃ a b, encodePI P T = .ok a ∧ encodePI P' T' = .ok b ∧ pi = a ++ b
  | [], [], P', T', pi, _, h => ⟨[], pi, by simp [encodePI], by simpa using h, by simp⟩
  | v :: P, t :: T, P', T', pi, hl, h => by
    simp only [List.cons_append, encodePI] at h ⊢
    split at h
    · cases h
    · next f hf =>
      cases hrest : encodePI (P ++ P') (T ++ T') with
      | error e => rw [hrest] at h; simp [Except.map] at h
      | ok rest =>
        rw [hrest] at h; simp [Except.map] at h
        obtain ⟨a, b, ha, hb, hab⟩ := encodePI_append P T P' T' rest (by simpa using hl) hrest
        exact ⟨f ++ a, b, by simp [ha, Except.map], hb, by rw [← h, hab]; simp⟩
  | [], _ :: _, _, _, _, hl, _ => by simp at hl
  | _ :: _, [], _, _, _, hl, _ => by simp at hl

/-- Invariant of the lockstep run. -/
structure Inv (so : OffState) (si : InState) : Prop where
  mem : MemRel so.mem si.mem
  sat : si.sat = true
  len : si.piTypes.length = so.pis.length
  pis : ∀ pi, encodePI so.pis si.piTypes = .ok pi → pi = si.pis

theorem all_known (cvs : List CVal) : (cvs.map (fun c => (c, true))).all (·.2) = true := by
  induction cvs <;> simp_all

theorem map_fst_known (cvs : List CVal) : (cvs.map (fun c => (c, true))).map (·.1) = cvs := by
  induction cvs <;> simp_all

theorem stepSim (H : Hashes) (w : Witness) (so : OffState) (si : InState) (i : Instr)
    (so' : OffState) (hw : WitnessCanonical w) (hinv : Inv so si)
    (hreg : ∀ inps, mapE (resolveOff so.mem) i.ins = .ok inps → StepRegular i inps)
    (h : stepOff H w so i = .ok so') :
    (∃ e, stepIn H (some w) si i = .error e ∧ e.isStaticReject = true) ∨
    (∃ si', stepIn H (some w) si i = .ok si' ∧ Inv so' si') := by
  unfold stepOff at h
  split at h
  · cases h
  · next inps hin =>
    split at h
    · cases h
    · next outs pub hop =>
      split at h
      · cases h
      · next mem' hmem =>
        cases h
        obtain ⟨cvs, hcvs, hrel⟩ := resolveAll_sim hinv.mem i.ins inps hin
        have hsim := opSim H w i inps cvs outs pub hw hrel (hreg inps hin) hop
        unfold stepIn
        simp only [hcvs, all_known, map_fst_known, Option.isSome_some, Bool.true_or]
        rcases hsim with ⟨e, he, hs⟩ | ⟨couts, fs, ts, hok, hro, hlen, hpi⟩
        · exact .inl ⟨e, by simp [he], hs⟩
        · obtain ⟨m2, hm2, hmr⟩ := insertMany_sim i.outs outs couts mem' hinv.mem hro hmem
          refine .inr ⟨{ mem := m2, pis := si.pis ++ fs, piTypes := si.piTypes ++ ts, sat := si.sat },
            by simp [hok, hm2], ⟨hmr, hinv.sat, by simp [hinv.len, hlen], ?_⟩⟩
          intro pi hpi'
          obtain ⟨a, b, ha, hb, hab⟩ := encodePI_append _ _ _ _ pi hinv.len.symm hpi'
          show pi = si.pis ++ fs
          rw [hab, hinv.pis a ha, hpi b hb]


/-- Side condition of the agreement theorem along an off-circuit run: every byte string that is
turned into a Jubjub scalar has 1 to 31 bytes (see `RegularScalarBytes`). -/
def RunRegular (H : Hashes) (w : Witness) : OffState → Program → Prop
  | _, [] => True
  | so, i :: rest =>
    (∀ inps, mapE (resolveOff so.mem) i.ins = .ok inps → StepRegular i inps) ∧
    (∀ so', stepOff H w so i = .ok so' → RunRegular H w so' rest)

theorem runSim (H : Hashes) (w : Witness) (hw : WitnessCanonical w) :
    ∀ (p : Program) (so : OffState) (si : InState) (so' : OffState), Inv so si →
      RunRegular H w so p → runOff H w so p = .ok so' →
      (∃ e, runIn H (some w) si p = .error e ∧ e.isStaticReject = true) ∨
      (∃ si', runIn H (some w) si p = .ok si' ∧ Inv so' si')
  | [], so, si, so', hinv, _, h => by
    simp [runOff] at h; subst h
    exact .inr ⟨si, by simp [runIn], hinv⟩
  | i :: rest, so, si, so', hinv, hreg, h => by
    unfold runOff at h
    split at h
    · cases h
    · next so1 hstep =>
      unfold runIn
      rcases stepSim H w so si i so1 hw hinv hreg.1 hstep with ⟨e, he, hs⟩ | ⟨si1, hsi1, hinv1⟩
      · exact .inl ⟨e, by simp [he], hs⟩
      · simp only [hsi1]
        exact runSim H w hw rest so1 si1 so' hinv1 (hreg.2 so1 hstep) h

end MidnightZK.C18
