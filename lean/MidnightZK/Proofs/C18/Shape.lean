import MidnightZK.Proofs.C18.Bytes
/-! # C18 — limb-bound shapes of the in-circuit BigUint stay well-shaped -/
namespace MidnightZK.C18

/-- A well-shaped limb-bound list: all limbs 96 bits except the most significant one, whose
bound is between 1 and 96. -/
def WellShaped (s : Shape) : Prop :=
  ∃ k b, s = List.replicate k LOG2_BASE ++ [b] ∧ 1 ≤ b ∧ b ≤ LOG2_BASE

theorem shapeMax_wellShaped (k b : Nat) :
    shapeMax (List.replicate k LOG2_BASE ++ [b]) + 1 = 2 ^ (LOG2_BASE * k + b) := by
  induction k with
  | zero =>
    simp [shapeMax]
    have : 0 < 2 ^ b := Nat.two_pow_pos b
    omega
  | succ k ih =>
    simp only [List.replicate_succ, List.cons_append, shapeMax]
    have h : shapeMax (List.replicate k LOG2_BASE ++ [b]) = 2 ^ (LOG2_BASE * k + b) - 1 := by omega
    rw [h]
    have hp : 0 < 2 ^ (LOG2_BASE * k + b) := Nat.two_pow_pos _
    have h96 : 0 < 2 ^ LOG2_BASE := Nat.two_pow_pos _
    have : 2 ^ (LOG2_BASE * (k + 1) + b) = 2 ^ (LOG2_BASE * k + b) * 2 ^ LOG2_BASE := by
      rw [← Nat.pow_add]; congr 1; simp [Nat.mul_succ]; omega
    rw [this]
    have : (2 ^ (LOG2_BASE * k + b) - 1) * 2 ^ LOG2_BASE = 2 ^ (LOG2_BASE * k + b) * 2 ^ LOG2_BASE - 2 ^ LOG2_BASE := by
      rw [Nat.sub_mul]; simp
    rw [this]
    have : 2 ^ LOG2_BASE ≤ 2 ^ (LOG2_BASE * k + b) * 2 ^ LOG2_BASE := Nat.le_mul_of_pos_left _ hp
    omega

theorem bitLen_pow_sub_one (m : Nat) (hm : 1 ≤ m) : bitLen (2 ^ m - 1) = m := by
  have hp : 0 < 2 ^ m := Nat.two_pow_pos m
  have h1 : bitLen (2 ^ m - 1) ≤ m := (bitLen_le_iff _ _).2 (by omega)
  have h2 : ¬ bitLen (2 ^ m - 1) ≤ m - 1 := by
    rw [bitLen_le_iff]
    have : 2 ^ m = 2 * 2 ^ (m - 1) := by
      rw [← Nat.pow_succ']; congr 1; omega
    have : 0 < 2 ^ (m - 1) := Nat.two_pow_pos _
    omega
  omega

theorem nbBits_wellShaped (k b : Nat) (hb : 1 ≤ b) :
    nbBits (List.replicate k LOG2_BASE ++ [b]) = LOG2_BASE * k + b := by
  unfold nbBits
  have := shapeMax_wellShaped k b
  have h : shapeMax (List.replicate k LOG2_BASE ++ [b]) = 2 ^ (LOG2_BASE * k + b) - 1 := by omega
  rw [h]
  exact bitLen_pow_sub_one _ (by omega)

theorem wellShaped_length (s : Shape) (h : WellShaped s) :
    s.length = divCeil (nbBits s) LOG2_BASE ∧ isNormalized s = true ∧ nbBits s ≠ 0 := by
  obtain ⟨k, b, rfl, hb1, hb2⟩ := h
  rw [nbBits_wellShaped k b hb1]
  refine ⟨?_, ?_, by omega⟩
  · simp [divCeil, LOG2_BASE] at *
    omega
  · simp [isNormalized, List.all_append, hb2]

theorem boundedShape_wellShaped (nb : Nat) : WellShaped (boundedShape nb) :=
  ⟨divCeil nb LOG2_BASE - 1, (nb - 1) % LOG2_BASE + 1, rfl, by omega,
    by have : (nb - 1) % LOG2_BASE < LOG2_BASE := Nat.mod_lt _ (by decide); omega⟩

theorem fixedShape_wellShaped (c : Nat) : WellShaped (fixedShape c) := boundedShape_wellShaped _

theorem fromBytesShape_wellShaped (n : Nat) (hn : n ≠ 0) : WellShaped (fromBytesShape n) := by
  unfold fromBytesShape
  split
  · next h =>
    have hk : n / 12 = (n / 12 - 1) + 1 := by omega
    refine ⟨n / 12 - 1, LOG2_BASE, ?_, by decide, by decide⟩
    rw [List.append_nil]
    conv => lhs; rw [hk, List.replicate_succ']
  · next h =>
    exact ⟨n / 12, 8 * (n % 12), rfl, by omega, by simp [LOG2_BASE]; omega⟩

theorem shapeMax_pos_of_not_normalized : ∀ (s : Shape), isNormalized s = false → 2 ^ LOG2_BASE ≤ shapeMax s
  | [], h => by simp [isNormalized] at h
  | b :: rest, h => by
    simp only [shapeMax]
    by_cases hb : b ≤ LOG2_BASE
    · have : isNormalized rest = false := by
        simp [isNormalized, hb] at h ⊢
        exact h
      have ih := shapeMax_pos_of_not_normalized rest this
      have h96 : 0 < 2 ^ LOG2_BASE := Nat.two_pow_pos _
      calc 2 ^ LOG2_BASE ≤ shapeMax rest := ih
        _ ≤ shapeMax rest * 2 ^ LOG2_BASE := Nat.le_mul_of_pos_right _ h96
        _ ≤ _ := Nat.le_add_right _ _
    · have : 2 ^ (LOG2_BASE + 1) ≤ 2 ^ b := Nat.pow_le_pow_right (by decide) (by omega)
      have h2 : 2 ^ (LOG2_BASE + 1) = 2 * 2 ^ LOG2_BASE := by rw [Nat.pow_succ]; omega
      have h96 : 0 < 2 ^ LOG2_BASE := Nat.two_pow_pos _
      omega

theorem replicate_wellShaped (n : Nat) (hn : 1 ≤ n) : WellShaped (List.replicate n LOG2_BASE) := by
  refine ⟨n - 1, LOG2_BASE, ?_, by decide, by decide⟩
  have : n = (n - 1) + 1 := by omega
  conv => lhs; rw [this, List.replicate_succ']

/-- `normalize` either leaves a normalised shape alone or produces full 96-bit limbs. -/
theorem normalizeShape_cases (raw r : Shape) (h : normalizeShape raw = .ok r) :
    (r = raw ∧ isNormalized raw = true) ∨ WellShaped r := by
  unfold normalizeShape at h
  split at h
  · next hn => cases h; exact .inl ⟨rfl, hn⟩
  · next hn =>
    right
    simp only at h
    split at h
    · cases h
    · split at h
      · cases h
        apply replicate_wellShaped
        have hn' : isNormalized raw = false := by simpa using hn
        have := shapeMax_pos_of_not_normalized raw hn'
        have hb : ¬ bitLen (shapeMax raw) ≤ 0 := by
          rw [bitLen_le_iff]
          have : 0 < 2 ^ LOG2_BASE := Nat.two_pow_pos _
          omega
        unfold nbBits divCeil
        simp only [LOG2_BASE] at *
        omega
      · cases h

theorem boa_pos (a b : Nat) (ha : 1 ≤ a) (hb : 1 ≤ b) : boundOfAddition a b = 1 + max a b := by
  unfold boundOfAddition
  split
  · omega
  · split
    · omega
    · rfl

/-- A normalised sum of well-shaped shapes is well-shaped (both must be single limbs). -/
theorem addBounds_wellShaped (s t : Shape) (hs : WellShaped s) (ht : WellShaped t)
    (hn : isNormalized (addBounds s t) = true) : WellShaped (addBounds s t) := by
  obtain ⟨k, b, rfl, hb1, hb2⟩ := hs
  obtain ⟨l, c, rfl, hc1, hc2⟩ := ht
  cases k with
  | zero =>
    cases l with
    | zero =>
      simp only [List.replicate_zero, List.nil_append, addBounds] at hn ⊢
      simp [isNormalized] at hn
      exact ⟨0, boundOfAddition b c, rfl, by rw [boa_pos b c hb1 hc1]; omega, hn⟩
    | succ l =>
      simp only [List.replicate_zero, List.nil_append, List.replicate_succ, List.cons_append, addBounds] at hn
      simp [isNormalized, boa_pos b LOG2_BASE hb1 (by decide)] at hn
      simp [LOG2_BASE] at hn
      omega
  | succ k =>
    cases l with
    | zero =>
      simp only [List.replicate_zero, List.nil_append, List.replicate_succ, List.cons_append, addBounds] at hn
      simp [isNormalized, boa_pos LOG2_BASE c (by decide) hc1] at hn
      simp [LOG2_BASE] at hn
      omega
    | succ l =>
      simp only [List.replicate_succ, List.cons_append, addBounds] at hn
      simp [isNormalized, boundOfAddition, LOG2_BASE] at hn

theorem addShape_wellShaped (s t r : Shape) (hs : WellShaped s) (ht : WellShaped t)
    (h : addShape s t = .ok r) : WellShaped r := by
  unfold addShape at h
  rcases normalizeShape_cases _ _ h with ⟨rfl, hn⟩ | hw
  · exact addBounds_wellShaped s t hs ht hn
  · exact hw

theorem normalizeShape_of_normalized (s : Shape) (h : isNormalized s = true) :
    normalizeShape s = .ok s := by
  simp [normalizeShape, h]

theorem boa_zero (v : Nat) : boundOfAddition 0 v = v := by simp [boundOfAddition]

theorem wellShaped_cons (s : Shape) (h : WellShaped s) :
    ∃ s0 s', s = s0 :: s' ∧ 1 ≤ s0 ∧ s0 ≤ LOG2_BASE ∧ (s' ≠ [] → s0 = LOG2_BASE) := by
  obtain ⟨k, b, rfl, hb1, hb2⟩ := h
  cases k with
  | zero => exact ⟨b, [], rfl, hb1, hb2, by simp⟩
  | succ k => exact ⟨LOG2_BASE, List.replicate k LOG2_BASE ++ [b], by simp [List.replicate_succ], by decide, by decide, by simp⟩

theorem mulRows_head (x0 : Nat) (xs : Shape) (y0 : Nat) (ys acc : Shape) :
    ∃ tl, mulRows (x0 :: xs) (y0 :: ys) (0 :: acc) = (x0 + y0) :: tl := by
  simp [mulRows, mulRow, boa_zero]

theorem mulShape_wellShaped (s t r : Shape) (hs : WellShaped s) (ht : WellShaped t)
    (h : mulShape s t = .ok r) : WellShaped r := by
  have hs' := (wellShaped_length s hs).2.1
  have ht' := (wellShaped_length t ht).2.1
  unfold mulShape at h
  rw [normalizeShape_of_normalized s hs', normalizeShape_of_normalized t ht'] at h
  simp only at h
  split at h
  · cases h
  · rcases normalizeShape_cases _ _ h with ⟨rfl, hn⟩ | hw
    · obtain ⟨s0, s', rfl, hs1, hs2, hs3⟩ := wellShaped_cons s hs
      obtain ⟨t0, t', rfl, ht1, ht2, ht3⟩ := wellShaped_cons t ht
      have hz : List.replicate ((s0 :: s').length + (t0 :: t').length - 1) 0
          = 0 :: List.replicate (s'.length + t'.length) 0 := by
        have : (s0 :: s').length + (t0 :: t').length - 1 = (s'.length + t'.length) + 1 := by
          simp; omega
        rw [this, List.replicate_succ]
      rw [hz] at hn ⊢
      obtain ⟨tl, htl⟩ := mulRows_head s0 s' t0 t' (List.replicate (s'.length + t'.length) 0)
      have hle : s0 + t0 ≤ LOG2_BASE := by
        rw [htl] at hn
        simp [isNormalized] at hn
        exact hn.1
      have hs'' : s' = [] := by
        cases s' with
        | nil => rfl
        | cons a l => have := hs3 (by simp); omega
      have ht'' : t' = [] := by
        cases t' with
        | nil => rfl
        | cons a l => have := ht3 (by simp); omega
      subst hs'' ht''
      simp [mulRows, mulRow, boa_zero]
      exact ⟨0, s0 + t0, rfl, by omega, hle⟩
    · exact hw

theorem resizeShape_err (n : Nat) (s : Shape) (e : Err) (h : resizeShape n s = .error e) :
    e.isPanic = true := by
  unfold resizeShape at h; split at h <;> cases h; rfl

theorem normalizeShape_err (s : Shape) (e : Err) (h : normalizeShape s = .error e) :
    e.isPanic = true := by
  unfold normalizeShape at h
  split at h
  · cases h
  · simp only at h
    split at h
    · next e' he => cases h; exact resizeShape_err _ _ _ he
    · split at h <;> cases h; rfl

theorem addShape_err (s t : Shape) (e : Err) (h : addShape s t = .error e) : e.isPanic = true :=
  normalizeShape_err _ e h

theorem mulShape_err (s t : Shape) (e : Err) (h : mulShape s t = .error e) : e.isPanic = true := by
  unfold mulShape at h
  split at h
  · next e' he => cases h; exact normalizeShape_err _ _ he
  · split at h
    · next e' he => cases h; exact normalizeShape_err _ _ he
    · split at h
      · cases h; rfl
      · exact normalizeShape_err _ _ h

theorem assignBoundedShape_err (n : Nat) (e : Err) (h : assignBoundedShape n = .error e) :
    e.isPanic = true := by
  unfold assignBoundedShape at h; split at h <;> cases h; rfl

theorem assignBoundedShape_ok (n : Nat) (r : Shape) (h : assignBoundedShape n = .ok r) :
    r = boundedShape n := by
  unfold assignBoundedShape at h; split at h <;> cases h; rfl

theorem requireNormalized_err (s t : Shape) (e : Err) (h : requireNormalized s t = .error e) :
    e.isPanic = true := by
  unfold requireNormalized at h; split at h <;> cases h; rfl

theorem subShape_err (s t : Shape) (e : Err) (h : subShape s t = .error e) : e.isPanic = true := by
  unfold subShape at h
  split at h
  · next e' he => cases h; exact assignBoundedShape_err _ _ he
  · split at h
    · next e' he => cases h; exact addShape_err _ _ _ he
    · split at h
      · next e' he => cases h; exact requireNormalized_err _ _ _ he
      · cases h

theorem subShape_ok (s t r : Shape) (h : subShape s t = .ok r) : WellShaped r := by
  unfold subShape at h
  split at h
  · cases h
  · next res hres =>
    split at h
    · cases h
    · split at h
      · cases h
      · cases h; rw [assignBoundedShape_ok _ _ hres]; exact boundedShape_wellShaped _

theorem divRemShape_err (x y : Shape) (e : Err) (h : divRemShape x y = .error e) :
    e.isPanic = true := by
  unfold divRemShape at h
  split at h
  · next e' he => cases h; exact assignBoundedShape_err _ _ he
  · split at h
    · next e' he => cases h; exact assignBoundedShape_err _ _ he
    · split at h
      · next e' he => cases h; exact mulShape_err _ _ _ he
      · split at h
        · next e' he => cases h; exact addShape_err _ _ _ he
        · split at h
          · next e' he => cases h; exact requireNormalized_err _ _ _ he
          · split at h
            · next e' he => cases h; exact requireNormalized_err _ _ _ he
            · cases h

theorem divRemShape_ok (x y q r : Shape) (h : divRemShape x y = .ok (q, r)) : WellShaped r := by
  unfold divRemShape at h
  split at h
  · cases h
  · split at h
    · cases h
    · next r' hr =>
      split at h
      · cases h
      · split at h
        · cases h
        · split at h
          · cases h
          · split at h
            · cases h
            · cases h; rw [assignBoundedShape_ok _ _ hr]; exact boundedShape_wellShaped _

theorem modMulShape_err (x y m : Shape) (e : Err) (h : modMulShape x y m = .error e) :
    e.isPanic = true := by
  unfold modMulShape at h
  split at h
  · next e' he => cases h; exact mulShape_err _ _ _ he
  · next p hp =>
    cases hd : divRemShape p m with
    | error e' => rw [hd] at h; simp [Except.map] at h; cases h; exact divRemShape_err _ _ _ hd
    | ok v => rw [hd] at h; simp [Except.map] at h

theorem modMulShape_ok (x y m r : Shape) (h : modMulShape x y m = .ok r) : WellShaped r := by
  unfold modMulShape at h
  split at h
  · cases h
  · next p hp =>
    cases hd : divRemShape p m with
    | error e' => rw [hd] at h; simp [Except.map] at h
    | ok v =>
      rw [hd] at h; simp [Except.map] at h
      obtain ⟨q, r'⟩ := v
      cases h
      exact divRemShape_ok _ _ _ _ hd

theorem modExpLoop_spec (m : Shape) : ∀ (fuel n : Nat) (tmp : Shape) (res : Option Shape),
    WellShaped tmp → (∀ r, res = some r → WellShaped r) →
    (∀ e, modExpLoop m fuel n tmp res = .error e → e.isPanic = true) ∧
    (∀ r, modExpLoop m fuel n tmp res = .ok (some r) → WellShaped r)
  | 0, n, tmp, res, _, hres => by
    simp only [modExpLoop]
    constructor
    · intro e h; cases h
    · intro r h; cases h; exact hres r rfl
  | fuel + 1, n, tmp, res, htmp, hres => by
    unfold modExpLoop
    split
    · constructor
      · intro e h; cases h
      · intro r h; cases h; exact hres r rfl
    · -- the accumulated result after the optional multiplication
      have key : (∀ e, (if n % 2 = 1 then
              match res with
              | none => Except.ok (some tmp)
              | some acc => (modMulShape acc tmp m).map some
            else Except.ok res) = .error e → e.isPanic = true) ∧
          (∀ o, (if n % 2 = 1 then
              match res with
              | none => Except.ok (some tmp)
              | some acc => (modMulShape acc tmp m).map some
            else Except.ok res) = .ok o → ∀ r, o = some r → WellShaped r) := by
        split
        · cases res with
          | none =>
            constructor
            · intro e h; cases h
            · intro o h r hr; cases h; cases hr; exact htmp
          | some acc =>
            cases hmm : modMulShape acc tmp m with
            | error e' =>
              simp only [hmm]
              constructor
              · intro e h; simp [Except.map] at h; cases h; exact modMulShape_err _ _ _ _ hmm
              · intro o h; simp [Except.map] at h
            | ok v =>
              simp only [hmm]
              constructor
              · intro e h; simp [Except.map] at h
              · intro o h r hr
                simp [Except.map] at h; subst h; cases hr; exact modMulShape_ok _ _ _ _ hmm
        · constructor
          · intro e h; cases h
          · intro o h r hr; cases h; exact hres r hr
      simp only
      generalize (if n % 2 = 1 then
              match res with
              | none => Except.ok (some tmp)
              | some acc => (modMulShape acc tmp m).map some
            else Except.ok res) = res' at key
      obtain ⟨k1, k2⟩ := key
      cases res' with
      | error e' =>
        constructor
        · intro e h; cases h; exact k1 _ rfl
        · intro r h; cases h
      | ok o =>
        simp only
        split
        · split
          · next e' he =>
            constructor
            · intro e h; cases h; exact modMulShape_err _ _ _ _ he
            · intro r h; cases h
          · next tmp' htmp' =>
            exact modExpLoop_spec m fuel (n / 2) tmp' o (modMulShape_ok _ _ _ _ htmp') (k2 o rfl)
        · constructor
          · intro e h; cases h
          · intro r h
            have ho : o = some r := by injection h
            exact k2 o rfl r ho

theorem modExpShape_err (x : Shape) (n : Nat) (m : Shape) (e : Err) (hx : WellShaped x)
    (h : modExpShape x n m = .error e) : e.isPanic = true := by
  unfold modExpShape at h
  split at h
  · cases hd : divRemShape (fixedShape 1) m with
    | error e' => rw [hd] at h; simp [Except.map] at h; cases h; exact divRemShape_err _ _ _ hd
    | ok v => rw [hd] at h; simp [Except.map] at h
  · split at h
    · cases hd : divRemShape x m with
      | error e' => rw [hd] at h; simp [Except.map] at h; cases h; exact divRemShape_err _ _ _ hd
      | ok v => rw [hd] at h; simp [Except.map] at h
    · have := modExpLoop_spec m 64 n x none hx (by simp)
      split at h
      · next e' he => cases h; exact this.1 _ he
      · cases h
      · cases h; rfl

theorem modExpShape_ok (x : Shape) (n : Nat) (m r : Shape) (hx : WellShaped x)
    (h : modExpShape x n m = .ok r) : WellShaped r := by
  unfold modExpShape at h
  split at h
  · cases hd : divRemShape (fixedShape 1) m with
    | error e' => rw [hd] at h; simp [Except.map] at h
    | ok v => rw [hd] at h; simp [Except.map] at h; obtain ⟨q, r'⟩ := v; cases h; exact divRemShape_ok _ _ _ _ hd
  · split at h
    · cases hd : divRemShape x m with
      | error e' => rw [hd] at h; simp [Except.map] at h
      | ok v => rw [hd] at h; simp [Except.map] at h; obtain ⟨q, r'⟩ := v; cases h; exact divRemShape_ok _ _ _ _ hd
    · have := modExpLoop_spec m 64 n x none hx (by simp)
      split at h
      · cases h
      · next r' hr => cases h; exact this.2 _ hr
      · cases h

end MidnightZK.C18
