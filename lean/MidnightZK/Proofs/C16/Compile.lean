import MidnightZK.Model.C16.Compile
import MidnightZK.Model.C16.VK
/-!
Lemmas about the compile model (`Model/C16/Compile.lean`) and the extended-domain loop
(`Model/C16/VK.lean`), used by `Props/C16.lean`.
-/
namespace MidnightZK.C16
open Gen

theorem nativeBytes_eq : nativeBytes = 32 := by decide +kernel

/-! ### where a panic can come from -/

theorem addIn_ne_panic (x y : CTy) : addIn x y ≠ .error .panic := by
  unfold addIn; split <;> simp

theorem subIn_ne_panic (x y : CTy) : subIn x y ≠ .error .panic := by
  unfold subIn; split <;> simp

theorem mulIn_ne_panic (x y : CTy) : mulIn x y ≠ .error .panic := by
  unfold mulIn; split <;> simp

theorem negIn_ne_panic (x : CTy) : negIn x ≠ .error .panic := by
  unfold negIn; split <;> simp

theorem ipFold_ne_panic : ∀ (l : List (CTy × CTy)) (acc : CTy), ipFold acc l ≠ .error .panic
  | [], acc => by simp [ipFold]
  | (v, w) :: rest, acc => by
    unfold ipFold
    split
    · next e h =>
      intro hp
      simp only [Except.error.injEq] at hp
      subst hp
      exact mulIn_ne_panic v w h
    · next p _ =>
      split
      · next e h =>
        intro hp
        simp only [Except.error.injEq] at hp
        subst hp
        exact addIn_ne_panic acc p h
      · next acc' _ => exact ipFold_ne_panic rest acc'

theorem innerProductIn_ne_panic (v w : List CTy) : innerProductIn v w ≠ .error .panic := by
  unfold innerProductIn
  split
  · split
    · split
      · next e h =>
        intro hp
        simp only [Except.error.injEq] at hp
        subst hp
        exact mulIn_ne_panic _ _ h
      · exact ipFold_ne_panic _ _
    · split
      · next e h =>
        intro hp
        simp only [Except.error.injEq] at hp
        subst hp
        exact mulIn_ne_panic _ _ h
      · exact ipFold_ne_panic _ _
    · split <;> simp
    · simp
  · simp

theorem fromBytesIn_ne_panic (t : IrTy) (x : CTy) : fromBytesIn t x ≠ .error .panic := by
  unfold fromBytesIn
  split
  · unfold fromBytesStatic
    split <;> (try split) <;> simp
  · simp

theorem map_ne_panic {α β} (f : α → β) (r : Except CErr α) (h : r ≠ .error .panic) :
    r.map f ≠ .error .panic := by
  cases r with
  | error e => simpa [Except.map] using h
  | ok a => simp [Except.map]

theorem map_panic {α β} (f : α → β) (r : Except CErr α) (h : r.map f = .error .panic) :
    r = .error .panic := by
  cases r with
  | error e => simpa [Except.map] using h
  | ok a => simp [Except.map] at h

/-- `IntoBytes(n)` never panics: the guard keeps `n` within the 32 bytes of a field element. -/
theorem intoBytesIn_ne_panic (n : Nat) (x : CTy) : intoBytesIn n x ≠ .error .panic := by
  have hnb := nativeBytes_eq
  intro h
  unfold intoBytesIn at h
  split at h
  · next v =>
    split at h
    · simp at h
    · next hg =>
      split at h
      · next v' =>
        unfold intoBytesNativeOff at h
        split at h
        · simp at h
        · split at h
          · omega
          · split at h <;> simp at h
      · split at h
        · omega
        · simp at h
  · simp at h
  · split at h <;> simp at h
  · simp at h

/-- No operation panics. -/
theorem opTypes_ne_panic (i : CInstr) (inp : List CTy) :
    opTypes i inp ≠ .error .panic := by
  intro h
  unfold opTypes at h
  split at h
  · split at h
    · simp at h
    · split at h
      · simp at h
      · split at h <;> simp at h
  · simp at h
  · split at h <;> simp at h
  · split at h <;> simp at h
  · split at h <;> simp at h
  · exact map_ne_panic _ _ (addIn_ne_panic _ _) h
  · exact map_ne_panic _ _ (subIn_ne_panic _ _) h
  · exact map_ne_panic _ _ (mulIn_ne_panic _ _) h
  · exact map_ne_panic _ _ (negIn_ne_panic _) h
  · split at h <;> simp at h
  · exact map_ne_panic _ _ (innerProductIn_ne_panic _ _) h
  · split at h <;> simp at h
  · exact intoBytesIn_ne_panic _ _ (map_panic _ _ h)
  · split at h
    · simp at h
    · exact map_ne_panic _ _ (fromBytesIn_ne_panic _ _) h
  · split at h <;> simp at h
  · split at h <;> simp at h
  · split at h <;> simp at h
  · simp at h

theorem resolveAll_ne_panic (m : Mem) : ∀ l, resolveAll m l ≠ .error .panic
  | [] => by simp [resolveAll]
  | o :: rest => by
    unfold resolveAll
    split
    · next e h =>
      unfold resolve at h
      split at h
      · simp at h
      · split at h
        · simp at h
        · simp only [Except.error.injEq] at h
          subst h
          simp
    · split
      · next e h =>
        intro hp
        simp only [Except.error.injEq] at hp
        subst hp
        exact resolveAll_ne_panic m rest h
      · simp

theorem insertMany_ne_panic : ∀ (ns : List Bytes) (ts : List CTy) (m : Mem), insertMany m ns ts ≠ .error .panic
  | [], _, m => by simp [insertMany]
  | _ :: _, [], m => by simp [insertMany]
  | n :: ns, t :: ts, m => by
    unfold insertMany
    split
    · simp
    · exact insertMany_ne_panic ns ts _

theorem compileInstr_ne_panic (m : Mem) (i : CInstr) :
    compileInstr m i ≠ .error .panic := by
  unfold compileInstr
  split
  · next e h =>
    intro hp
    simp only [Except.error.injEq] at hp
    subst hp
    exact resolveAll_ne_panic m _ h
  · split
    · next e h =>
      intro hp
      simp only [Except.error.injEq] at hp
      subst hp
      exact opTypes_ne_panic i _ h
    · exact insertMany_ne_panic _ _ _

theorem compileFrom_ne_panic : ∀ (prog : List CInstr) (m : Mem),
    compileFrom m prog ≠ .error .panic
  | [], m => by simp [compileFrom]
  | i :: rest, m => by
    unfold compileFrom
    split
    · next e he =>
      intro hp
      simp only [Except.error.injEq] at hp
      subst hp
      exact compileInstr_ne_panic m i he
    · exact compileFrom_ne_panic rest _

/-! ### compositionality -/

theorem compileFrom_append : ∀ (p q : List CInstr) (m : Mem),
    compileFrom m (p ++ q) =
      match compileFrom m p with
      | .error e => .error e
      | .ok m' => compileFrom m' q
  | [], q, m => by simp [compileFrom]
  | i :: rest, q, m => by
    simp only [List.cons_append, compileFrom]
    split
    · rfl
    · exact compileFrom_append rest q _

/-! ### the memory: names are never rebound -/

theorem lookup_cons_ne {n n' : Bytes} {t : CTy} {m : Mem} (h : n ≠ n') :
    List.lookup n ((n', t) :: m) = List.lookup n m := by
  simp only [List.lookup]
  split
  · next heq => exact absurd (by simpa using heq) h
  · rfl

theorem insertMany_preserves : ∀ (ns : List Bytes) (ts : List CTy) (m m' : Mem),
    insertMany m ns ts = .ok m' → ∀ n t, m.lookup n = some t → m'.lookup n = some t
  | [], _, m, m', h => by
    simp only [insertMany, Except.ok.injEq] at h
    subst h
    exact fun _ _ h => h
  | _ :: _, [], m, m', h => by
    simp only [insertMany, Except.ok.injEq] at h
    subst h
    exact fun _ _ h => h
  | n0 :: ns, t0 :: ts, m, m', h => by
    unfold insertMany at h
    split at h
    · simp at h
    · next hnone =>
      intro n t hl
      apply insertMany_preserves ns ts _ m' h n t
      have hne : n ≠ n0 := by
        intro heq
        subst heq
        rw [hl] at hnone
        simp at hnone
      rw [lookup_cons_ne hne]
      exact hl

theorem compileInstr_preserves (m m' : Mem) (i : CInstr) (h : compileInstr m i = .ok m') :
    ∀ n t, m.lookup n = some t → m'.lookup n = some t := by
  unfold compileInstr at h
  split at h
  · simp at h
  · split at h
    · simp at h
    · exact insertMany_preserves _ _ _ _ h

theorem compileFrom_preserves : ∀ (prog : List CInstr) (m m' : Mem), compileFrom m prog = .ok m' →
    ∀ n t, m.lookup n = some t → m'.lookup n = some t
  | [], m, m', h => by
    simp only [compileFrom, Except.ok.injEq] at h
    subst h
    exact fun _ _ h => h
  | i :: rest, m, m', h => by
    unfold compileFrom at h
    split at h
    · simp at h
    · next m1 h1 =>
      intro n t hl
      exact compileFrom_preserves rest m1 m' h n t (compileInstr_preserves m m1 i h1 n t hl)

/-! ### the extended-domain loop is the least exponent -/

theorem extKLoop_le (k q e : Nat) (hq : 2 ^ k * q ≤ 2 ^ e) : ∀ (fuel ek : Nat), ek ≤ e →
    extKLoop fuel ek k q ≤ e
  | 0, ek, h => by simpa [extKLoop] using h
  | fuel + 1, ek, h => by
    unfold extKLoop
    split
    · next hlt =>
      have : 2 ^ ek < 2 ^ e := Nat.lt_of_lt_of_le hlt hq
      have : ek < e := (Nat.pow_lt_pow_iff_right (by omega)).mp this
      exact extKLoop_le k q e hq fuel (ek + 1) (by omega)
    · exact h

theorem extKLoop_ge : ∀ (fuel ek k q : Nat), ek ≤ extKLoop fuel ek k q
  | 0, ek, k, q => by simp [extKLoop]
  | fuel + 1, ek, k, q => by
    unfold extKLoop
    split
    · have := extKLoop_ge fuel (ek + 1) k q
      omega
    · exact Nat.le_refl _

theorem extKLoop_stop : ∀ (fuel ek k q : Nat), extKLoop fuel ek k q < ek + fuel →
    2 ^ k * q ≤ 2 ^ extKLoop fuel ek k q
  | 0, ek, k, q, h => by simp [extKLoop] at h
  | fuel + 1, ek, k, q, h => by
    unfold extKLoop at h ⊢
    split
    · next hlt =>
      rw [if_pos hlt] at h
      exact extKLoop_stop fuel (ek + 1) k q (by omega)
    · next hge => omega

end MidnightZK.C16
