import MidnightZK.Model.C16.Points
import MidnightZK.Model.C16.Arch
import MidnightZK.Model.C16.VK
import MidnightZK.Model.C16.Proof
import MidnightZK.Model.C16.IR
/-!
Helper lemmas of property C16 (core Lean only).
-/
namespace MidnightZK.C16
open Gen

theorem fpP_pos : 0 < fpP := by decide
theorem fqR_pos : 0 < fqR := by decide

theorem sqrtFp_lt {a y : Nat} (h : sqrtFp a = some y) : y < fpP := by
  unfold sqrtFp at h
  simp only at h
  split at h
  · simp only [Option.some.injEq] at h
    rw [← h, powMod_spec _ _ _ fpP_pos]
    exact Nat.mod_lt _ fpP_pos
  · simp at h

/-! ### maxima of guarded entries -/

theorem maxEntries_foldl_ge (l : List (Bool × Nat)) (m : Nat) :
    m ≤ l.foldl (fun m e => Nat.max m (if e.1 then e.2 else 0)) m := by
  induction l generalizing m with
  | nil => exact Nat.le_refl _
  | cons e t ih =>
    simp only [List.foldl_cons]
    exact Nat.le_trans (Nat.le_max_left _ _) (ih _)

theorem le_maxEntries_foldl {g : Bool} {n : Nat} (l : List (Bool × Nat)) (m : Nat)
    (hmem : (g, n) ∈ l) (hg : g = true) :
    n ≤ l.foldl (fun m e => Nat.max m (if e.1 then e.2 else 0)) m := by
  induction l generalizing m with
  | nil => simp at hmem
  | cons e t ih =>
    simp only [List.foldl_cons]
    rcases List.mem_cons.mp hmem with h | h
    · subst h
      simp only [hg, if_true]
      exact Nat.le_trans (Nat.le_max_right _ _) (maxEntries_foldl_ge t _)
    · exact ih _ h

/-- An enabled entry of the list is below the maximum. -/
theorem le_maxEntries {g : Bool} {n : Nat} {l : List (Bool × Nat)} (hmem : (g, n) ∈ l) (hg : g = true) :
    n ≤ maxEntries l := le_maxEntries_foldl l 0 hmem hg

/-! ### `readPoints` -/

variable {Pt : Type}

theorem readPoints_length {dec : Bytes → Except Err Pt} {size : Nat} :
    ∀ {n : Nat} {bs : Bytes} {l : List Pt} {r : Bytes}, readPoints dec size n bs = .ok (l, r) → l.length = n
  | 0, bs, l, r, h => by
    simp only [readPoints, Except.ok.injEq, Prod.mk.injEq] at h
    rw [← h.1]; rfl
  | n + 1, bs, l, r, h => by
    simp only [readPoints] at h
    split at h
    · simp at h
    · next a r0 _ =>
      split at h
      · simp at h
      · next p _ =>
        split at h
        · simp at h
        · next l' r' hrec =>
          simp only [Except.ok.injEq, Prod.mk.injEq] at h
          rw [← h.1, List.length_cons, readPoints_length hrec]

/-- The bytes consumed by `readPoints` are exactly `n` chunks of `size` bytes. -/
theorem readPoints_consumed {dec : Bytes → Except Err Pt} {size : Nat} :
    ∀ {n : Nat} {bs : Bytes} {l : List Pt} {r : Bytes}, readPoints dec size n bs = .ok (l, r) →
      bs.length = n * size + r.length
  | 0, bs, l, r, h => by
    simp only [readPoints, Except.ok.injEq, Prod.mk.injEq] at h
    rw [h.2]; simp
  | n + 1, bs, l, r, h => by
    simp only [readPoints] at h
    split at h
    · simp at h
    · next a r0 hr =>
      split at h
      · simp at h
      · next p _ =>
        split at h
        · simp at h
        · next l' r' hrec =>
          simp only [Except.ok.injEq, Prod.mk.injEq] at h
          have h1 := readN_ok hr
          have h2 := readPoints_consumed hrec
          rw [h1.1, List.length_append, h1.2, h2, ← h.2, Nat.succ_mul]
          omega

/-- With a canonical point decoder, `readPoints` accepts only the concatenation of the canonical
encodings of what it returns. -/
theorem readPoints_canonical {dec : Bytes → Except Err Pt} {enc : Pt → Bytes} {size : Nat}
    (hcan : ∀ a p, WF a → dec a = .ok p → enc p = a) :
    ∀ {n : Nat} {bs : Bytes} {l : List Pt} {r : Bytes}, WF bs → readPoints dec size n bs = .ok (l, r) →
      bs = l.flatMap enc ++ r
  | 0, bs, l, r, _, h => by
    simp only [readPoints, Except.ok.injEq, Prod.mk.injEq] at h
    rw [← h.1, ← h.2]; simp
  | n + 1, bs, l, r, hwf, h => by
    simp only [readPoints] at h
    split at h
    · simp at h
    · next a r0 hr =>
      split at h
      · simp at h
      · next p hp =>
        split at h
        · simp at h
        · next l' r' hrec =>
          simp only [Except.ok.injEq, Prod.mk.injEq] at h
          have h1 := readN_ok hr
          have w : WF a ∧ WF r0 := by rw [h1.1] at hwf; exact WF_append.mp hwf
          have h2 := readPoints_canonical hcan w.2 hrec
          rw [← h.1, ← h.2, List.flatMap_cons, hcan a p w.1 hp, h1.1, h2, List.append_assoc]

/-- Round trip: the concatenated encodings of `l` followed by `r` decode to `(l, r)`. -/
theorem readPoints_encode {dec : Bytes → Except Err Pt} {enc : Pt → Bytes} {size : Nat}
    (l : List Pt) (r : Bytes)
    (hdec : ∀ p ∈ l, dec (enc p) = .ok p) (hlen : ∀ p ∈ l, (enc p).length = size) :
    readPoints dec size l.length (l.flatMap enc ++ r) = .ok (l, r) := by
  induction l with
  | nil => simp [readPoints]
  | cons p t ih =>
    have hp := hdec p (by simp)
    have hl := hlen p (by simp)
    have iht := ih (fun q hq => hdec q (by simp [hq])) (fun q hq => hlen q (by simp [hq]))
    simp only [List.length_cons, readPoints, List.flatMap_cons, List.append_assoc]
    have : readN size (enc p ++ (t.flatMap enc ++ r)) = .ok (enc p, t.flatMap enc ++ r) := by
      rw [← hl]; exact readN_append _ _
    rw [this]
    simp only [hp, iht]

theorem pointsRead_le {dec : Bytes → Except Err Pt} {size : Nat} :
    ∀ (n : Nat) (bs : Bytes), pointsRead dec size n bs * size ≤ bs.length ∧ pointsRead dec size n bs ≤ n
  | 0, bs => by simp [pointsRead]
  | n + 1, bs => by
    simp only [pointsRead]
    split
    · simp
    · next a r hr =>
      split
      · simp
      · have h1 := readN_ok hr
        have ih := pointsRead_le (dec := dec) (size := size) n r
        constructor
        · rw [h1.1, List.length_append, h1.2, Nat.add_mul]
          omega
        · omega

end MidnightZK.C16

namespace MidnightZK.C16

/-! ### sign flag, zero tails, element walks -/

theorem fpP_odd : fpP = 2 * ((fpP - 1) / 2) + 1 := by decide

/-- After the conditional negation of the decompression, the sign of `y` is the sign the flag
asked for — unless `y = 0` (both flags decode to the same point then). -/
theorem sign_after_cneg (y : Nat) (s : Bool) (hy : y < fpP) :
    let y' := if signFp y != s then (fpP - y) % fpP else y
    signFp y' = s ∨ y' = 0 := by
  intro y'
  by_cases hs : signFp y = s
  · left
    have : y' = y := by simp [y', hs]
    rw [this, hs]
  · have hy' : y' = (fpP - y) % fpP := by simp [y', hs]
    by_cases h0 : y = 0
    · right; rw [hy', h0]; simp
    · left
      have hlt : fpP - y < fpP := by omega
      rw [hy', Nat.mod_eq_of_lt hlt]
      have hodd := fpP_odd
      generalize (fpP - 1) / 2 = h at hodd
      unfold signFp at hs ⊢
      rw [show (fpP - 1) / 2 = h by omega] at hs ⊢
      cases s with
      | true =>
        have : ¬ y > h := by simpa using hs
        simp; omega
      | false =>
        have : y > h := by simpa using hs
        simp; omega

theorem allZero_eq_replicate : ∀ (t : Bytes), allZero t = true → t = List.replicate t.length 0
  | [], _ => rfl
  | b :: t, h => by
    simp only [allZero, List.all_cons, Bool.and_eq_true, beq_iff_eq] at h
    have ih := allZero_eq_replicate t (by simpa [allZero] using h.2)
    rw [List.length_cons, List.replicate_succ, ← ih, h.1]

theorem scheduleLen_append (a b : List Elem) : scheduleLen (a ++ b) = scheduleLen a + scheduleLen b := by
  simp [scheduleLen, List.map_append, List.sum_append]

theorem scheduleLen_replicate (n : Nat) (e : Elem) : scheduleLen (List.replicate n e) = n * e.size := by
  induction n with
  | zero => simp [scheduleLen]
  | succ k ih =>
    simp only [List.replicate_succ, scheduleLen, List.map_cons, List.sum_cons] at ih ⊢
    rw [ih, Nat.succ_mul]; omega

/-- The element walk: what it read, and — when it stops without an error — how many bytes it used. -/
theorem parseElems_spec (decPt : Bytes → Except Err G1Pt) :
    ∀ (l : List Elem) (bs : Bytes) (n0 : Nat) (n : Nat) (e : Option Err) (rest : Bytes),
      parseElems decPt l bs n0 = (n, e, rest) →
        n0 ≤ n ∧ n ≤ n0 + l.length ∧
        (e = none → n = n0 + l.length ∧ bs.length = scheduleLen l + rest.length)
  | [], bs, n0, n, e, rest, h => by
    simp only [parseElems, Prod.mk.injEq] at h
    obtain ⟨rfl, rfl, rfl⟩ := h
    simp [scheduleLen]
  | el :: t, bs, n0, n, e, rest, h => by
    simp only [parseElems] at h
    split at h
    · simp only [Prod.mk.injEq] at h
      obtain ⟨rfl, rfl, rfl⟩ := h
      simp
    · next a r hr =>
      split at h
      · simp only [Prod.mk.injEq] at h
        obtain ⟨rfl, rfl, rfl⟩ := h
        simp
      · have ih := parseElems_spec decPt t r (n0 + 1) n e rest h
        have hr' := readN_ok hr
        refine ⟨by omega, by simp only [List.length_cons]; omega, ?_⟩
        intro he
        have := ih.2.2 he
        refine ⟨by simp only [List.length_cons]; omega, ?_⟩
        rw [hr'.1, List.length_append, hr'.2, this.2]
        simp only [scheduleLen, List.map_cons, List.sum_cons]
        omega

theorem firstArityFailure_none :
    ∀ (l : List (Nat × Nat × Nat)) (k : Nat), firstArityFailure l k = none →
      ∀ x ∈ l, checkArity x.1 x.2.1 x.2.2 = true
  | [], _, _ => by simp
  | (t, i, o) :: rest, k, h => by
    simp only [firstArityFailure] at h
    split at h
    · next hc =>
      intro x hx
      rcases List.mem_cons.mp hx with rfl | hx
      · exact hc
      · exact firstArityFailure_none rest (k + 1) h x hx
    · simp at h

/-- The `while` loop of the extended-domain computation: if it stopped before the fuel ran out,
the extended domain is large enough for the quotient polynomial. -/
theorem extKLoop_spec : ∀ (fuel ek k q : Nat), extKLoop fuel ek k q < ek + fuel →
    2 ^ k * q ≤ 2 ^ extKLoop fuel ek k q ∧ ek ≤ extKLoop fuel ek k q
  | 0, ek, k, q, h => by simp [extKLoop] at h
  | fuel + 1, ek, k, q, h => by
    unfold extKLoop at h ⊢
    split
    · next hlt =>
      rw [if_pos hlt] at h
      have := extKLoop_spec fuel (ek + 1) k q (by omega)
      exact ⟨this.1, by omega⟩
    · next hge => exact ⟨by omega, Nat.le_refl _⟩

/-! ### round trips -/

theorem leBytesToNat_append (l : Bytes) (b : Nat) :
    leBytesToNat (l ++ [b]) = leBytesToNat l + 256 ^ l.length * b := by
  induction l with
  | nil => simp [leBytesToNat]
  | cons a t ih =>
    simp only [List.cons_append, leBytesToNat, ih, List.length_cons, Nat.pow_succ]
    rw [Nat.mul_add, Nat.add_assoc]
    congr 2
    rw [Nat.mul_comm (256 ^ t.length) 256, Nat.mul_assoc]

theorem beToNat_cons (b : Nat) (t : Bytes) : beToNat (b :: t) = b * 256 ^ t.length + beToNat t := by
  unfold beToNat
  rw [List.reverse_cons, leBytesToNat_append, List.length_reverse, Nat.mul_comm]
  omega

/-- The first byte of the 48-byte big-endian encoding of a canonical coordinate has its three
flag bits clear. -/
theorem natToBe48_head_lt (x : Nat) (hx : x < fpP) : ∃ b t, natToBe 48 x = b :: t ∧ b < 32 ∧ t.length = 47 := by
  have hl := natToBe_length 48 x
  match h : natToBe 48 x, hl with
  | b :: t, hl =>
    refine ⟨b, t, rfl, ?_, by simpa using hl⟩
    have h256 : x < 256 ^ 48 := Nat.lt_trans hx (by decide)
    have hv := beToNat_natToBe 48 x h256
    rw [h, beToNat_cons] at hv
    have htl : t.length = 47 := by simpa using hl
    rw [htl] at hv
    have : fpP < 32 * 256 ^ 47 := by decide
    by_cases hb : b < 32
    · exact hb
    · exfalso
      have : 32 * 256 ^ 47 ≤ b * 256 ^ 47 := Nat.mul_le_mul_right _ (by omega)
      omega


theorem decodeBools_encode (l : List Bool) (r : Bytes) :
    decodeBools l.length (l.map (fun b => if b then 1 else 0) ++ r) = .ok (l, r) := by
  induction l with
  | nil => simp [decodeBools]
  | cons b t ih =>
    cases b <;> simp [decodeBools, decodeBool, ih]


end MidnightZK.C16
