import MidnightZK.Model.C16.Points
import MidnightZK.Model.C16.Arch
import MidnightZK.Model.C16.VK
/-!
Helper lemmas of property C16 (core Lean only).
-/
namespace MidnightZK.C16
open Gen

theorem fpP_pos : 0 < fpP := by decide
theorem fqR_pos : 0 < fqR := by decide

theorem sqrtFp_lt {a y : Nat} (h : sqrtFp a = some y) : y < fpP := by
  unfold sqrtFp at h
  simp only at h
  split at h
  · simp only [Option.some.injEq] at h
    rw [← h, powMod_spec _ _ _ fpP_pos]
    exact Nat.mod_lt _ fpP_pos
  · simp at h

/-! ### maxima of guarded entries -/

theorem maxEntries_foldl_ge (l : List (Bool × Nat)) (m : Nat) :
    m ≤ l.foldl (fun m e => Nat.max m (if e.1 then e.2 else 0)) m := by
  induction l generalizing m with
  | nil => exact Nat.le_refl _
  | cons e t ih =>
    simp only [List.foldl_cons]
    exact Nat.le_trans (Nat.le_max_left _ _) (ih _)

theorem le_maxEntries_foldl {g : Bool} {n : Nat} (l : List (Bool × Nat)) (m : Nat)
    (hmem : (g, n) ∈ l) (hg : g = true) :
    n ≤ l.foldl (fun m e => Nat.max m (if e.1 then e.2 else 0)) m := by
  induction l generalizing m with
  | nil => simp at hmem
  | cons e t ih =>
    simp only [List.foldl_cons]
    rcases List.mem_cons.mp hmem with h | h
    · subst h
      simp only [hg, if_true]
      exact Nat.le_trans (Nat.le_max_right _ _) (maxEntries_foldl_ge t _)
    · exact ih _ h

/-- An enabled entry of the list is below the maximum. -/
theorem le_maxEntries {g : Bool} {n : Nat} {l : List (Bool × Nat)} (hmem : (g, n) ∈ l) (hg : g = true) :
    n ≤ maxEntries l := le_maxEntries_foldl l 0 hmem hg

/-! ### `readPoints` -/

variable {Pt : Type}

theorem readPoints_length {dec : Bytes → Except Err Pt} {size : Nat} :
    ∀ {n : Nat} {bs : Bytes} {l : List Pt} {r : Bytes}, readPoints dec size n bs = .ok (l, r) → l.length = n
  | 0, bs, l, r, h => by
    simp only [readPoints, Except.ok.injEq, Prod.mk.injEq] at h
    rw [← h.1]; rfl
  | n + 1, bs, l, r, h => by
    simp only [readPoints] at h
    split at h
    · simp at h
    · next a r0 _ =>
      split at h
      · simp at h
      · next p _ =>
        split at h
        · simp at h
        · next l' r' hrec =>
          simp only [Except.ok.injEq, Prod.mk.injEq] at h
          rw [← h.1, List.length_cons, readPoints_length hrec]

/-- The bytes consumed by `readPoints` are exactly `n` chunks of `size` bytes. -/
theorem readPoints_consumed {dec : Bytes → Except Err Pt} {size : Nat} :
    ∀ {n : Nat} {bs : Bytes} {l : List Pt} {r : Bytes}, readPoints dec size n bs = .ok (l, r) →
      bs.length = n * size + r.length
  | 0, bs, l, r, h => by
    simp only [readPoints, Except.ok.injEq, Prod.mk.injEq] at h
    rw [h.2]; simp
  | n + 1, bs, l, r, h => by
    simp only [readPoints] at h
    split at h
    · simp at h
    · next a r0 hr =>
      split at h
      · simp at h
      · next p _ =>
        split at h
        · simp at h
        · next l' r' hrec =>
          simp only [Except.ok.injEq, Prod.mk.injEq] at h
          have h1 := readN_ok hr
          have h2 := readPoints_consumed hrec
          rw [h1.1, List.length_append, h1.2, h2, ← h.2, Nat.succ_mul]
          omega

/-- With a canonical point decoder, `readPoints` accepts only the concatenation of the canonical
encodings of what it returns. -/
theorem readPoints_canonical {dec : Bytes → Except Err Pt} {enc : Pt → Bytes} {size : Nat}
    (hcan : ∀ a p, dec a = .ok p → enc p = a) :
    ∀ {n : Nat} {bs : Bytes} {l : List Pt} {r : Bytes}, readPoints dec size n bs = .ok (l, r) →
      bs = l.flatMap enc ++ r
  | 0, bs, l, r, h => by
    simp only [readPoints, Except.ok.injEq, Prod.mk.injEq] at h
    rw [← h.1, ← h.2]; simp
  | n + 1, bs, l, r, h => by
    simp only [readPoints] at h
    split at h
    · simp at h
    · next a r0 hr =>
      split at h
      · simp at h
      · next p hp =>
        split at h
        · simp at h
        · next l' r' hrec =>
          simp only [Except.ok.injEq, Prod.mk.injEq] at h
          have h1 := readN_ok hr
          have h2 := readPoints_canonical hcan hrec
          rw [← h.1, ← h.2, List.flatMap_cons, hcan a p hp, h1.1, h2, List.append_assoc]

/-- Round trip: the concatenated encodings of `l` followed by `r` decode to `(l, r)`. -/
theorem readPoints_encode {dec : Bytes → Except Err Pt} {enc : Pt → Bytes} {size : Nat}
    (l : List Pt) (r : Bytes)
    (hdec : ∀ p ∈ l, dec (enc p) = .ok p) (hlen : ∀ p ∈ l, (enc p).length = size) :
    readPoints dec size l.length (l.flatMap enc ++ r) = .ok (l, r) := by
  induction l with
  | nil => simp [readPoints]
  | cons p t ih =>
    have hp := hdec p (by simp)
    have hl := hlen p (by simp)
    have iht := ih (fun q hq => hdec q (by simp [hq])) (fun q hq => hlen q (by simp [hq]))
    simp only [List.length_cons, readPoints, List.flatMap_cons, List.append_assoc]
    have : readN size (enc p ++ (t.flatMap enc ++ r)) = .ok (enc p, t.flatMap enc ++ r) := by
      rw [← hl]; exact readN_append _ _
    rw [this]
    simp only [hp, iht]

theorem pointsRead_le {dec : Bytes → Except Err Pt} {size : Nat} :
    ∀ (n : Nat) (bs : Bytes), pointsRead dec size n bs * size ≤ bs.length ∧ pointsRead dec size n bs ≤ n
  | 0, bs => by simp [pointsRead]
  | n + 1, bs => by
    simp only [pointsRead]
    split
    · simp
    · next a r hr =>
      split
      · simp
      · have h1 := readN_ok hr
        have ih := pointsRead_le (dec := dec) (size := size) n r
        constructor
        · rw [h1.1, List.length_append, h1.2, Nat.add_mul]
          omega
        · omega

end MidnightZK.C16
