import MidnightZK.Proofs.C03.Points
/-!
# The compressed-G1 decoder never returns a point with `y = 0`

`G1Affine::from_compressed` checks `is_torsion_free` (model `C16.inSubgroupG1`: `[r](x, y) = O` by the left-to-right
double-and-add `C16.scalarMulAffine` on Jacobian coordinates, formulas of `C16.Jac.double` / `C16.Jac.addAffine`).
For a candidate `(x, 0)`: doubling any accumulator whose `Z` is `0` or which is `(x, 0, 1)` gives `Z₃ = 2·Y·Z = 0`;
adding `(x, 0)` to an accumulator with `Z = 0` gives `(x, 0, 1)`. So after every step the accumulator is `O` if the
bit was `0` and `(x, 0, 1)` if the bit was `1`; the scalar-field modulus `r` is odd, so `[r](x, 0) = (x, 0, 1) ≠ O`
and the subgroup check fails. No number theory (no primality of the base-field modulus, no cubic-residue
computation) is needed: the statement is about the decoder, which is all the transcript reads through.
-/
namespace MidnightZK.C03
open MidnightZK MidnightZK.C16

/-- One double-and-add step of `scalarMulAffine` for the point `(x, 0)`. -/
private def stepY0 (x : Nat) (acc : Jac Nat) (bit : Bool) : Jac Nat :=
  let d := Jac.double (fpOps fpP) acc
  if bit then Jac.addAffine (fpOps fpP) d x 0 1 else d

/-- Invariant of the accumulator: it is `O` (`Z = 0`) or exactly `(x, 0, 1)`. -/
private def InvY0 (x : Nat) (acc : Jac Nat) : Prop := acc.z = 0 ∨ (acc.x = x ∧ acc.y = 0 ∧ acc.z = 1)

private theorem double_z_zero (x : Nat) (acc : Jac Nat) (h : InvY0 x acc) :
    (Jac.double (fpOps fpP) acc).z = 0 := by
  rcases h with h | ⟨_, hy, hz⟩
  · simp [Jac.double, fpOps, h]
  · simp [Jac.double, fpOps, hy, hz]

private theorem step_true (x : Nat) (acc : Jac Nat) (h : InvY0 x acc) :
    stepY0 x acc true = ⟨x, 0, 1⟩ := by
  have hz := double_z_zero x acc h
  simp only [stepY0, if_true]
  unfold Jac.addAffine
  have : (fpOps fpP).isZero (Jac.double (fpOps fpP) acc).z = true := by
    rw [hz]; simp [fpOps]
  rw [if_pos this]

private theorem step_inv (x : Nat) (acc : Jac Nat) (bit : Bool) (h : InvY0 x acc) : InvY0 x (stepY0 x acc bit) := by
  cases bit with
  | true => rw [step_true x acc h]; right; exact ⟨rfl, rfl, rfl⟩
  | false => left; simpa [stepY0] using double_z_zero x acc h

private theorem foldl_inv (x : Nat) : ∀ (bits : List Bool) (acc : Jac Nat), InvY0 x acc →
    InvY0 x (bits.foldl (stepY0 x) acc)
  | [], _, h => h
  | b :: t, acc, h => foldl_inv x t _ (step_inv x acc b h)

/-- The bit string of the scalar-field modulus `r` that the subgroup check iterates over ends with `1`. -/
private theorem r_bits_last : ∃ init, bitsMsb (fqR.log2 + 1) fqR [] = init ++ [true] := by
  refine ⟨(bitsMsb (fqR.log2 + 1) fqR []).dropLast, ?_⟩
  decide +kernel

/-- `[r](x, 0)` has `Z = 1` in the model's arithmetic: the subgroup check rejects every `(x, 0)`. -/
theorem inSubgroupG1_y0 (x : Nat) : inSubgroupG1 x 0 = false := by
  unfold inSubgroupG1 scalarMulAffine
  obtain ⟨init, hbits⟩ := r_bits_last
  simp only []
  rw [hbits, List.foldl_append]
  have hinv : InvY0 x (init.foldl (stepY0 x) ⟨x, 0, (fpOps fpP).zero⟩) :=
    foldl_inv x init _ (Or.inl rfl)
  have hstep := step_true x _ hinv
  simp only [List.foldl_cons, List.foldl_nil]
  change (fpOps fpP).isZero (stepY0 x (init.foldl (stepY0 x) ⟨x, 0, (fpOps fpP).zero⟩) true).z = false
  rw [hstep]
  show (fpOps fpP).isZero 1 = false
  decide

/-- The compressed-point decoder never returns a point of the form `(x, 0)`. -/
theorem decodeG1c_ne_y0 (a : Bytes) (x : Nat) : decodeG1c a ≠ .ok (.aff x 0) := by
  intro h
  unfold decodeG1c at h
  split at h
  · simp at h
  · split at h
    · simp at h
    · simp at h
    · next x' y' _ =>
      split at h
      · next hc =>
        simp only [Except.ok.injEq, G1Pt.aff.injEq] at h
        obtain ⟨rfl, rfl⟩ := h
        simp only [Bool.and_eq_true] at hc
        rw [inSubgroupG1_y0] at hc
        exact absurd hc.2 (by simp)
      · simp at h

/-- **Every point the transcript can read satisfies `NoOrder2`**: the side condition of the first round is a
consequence of the decoder's subgroup check. -/
theorem g1Dec_noOrder2 {bs : List Nat} {p : Pt} (h : g1Dec bs = some p) : NoOrder2 p := by
  intro x hx
  subst hx
  exact decodeG1c_ne_y0 bs x (g1Dec_some h).2

/-- `GoodPt` is just "accepted by the decoder". -/
theorem goodPt_iff (p : Pt) : GoodPt p ↔ ∃ bs, g1Dec bs = some p :=
  ⟨fun h => h.1, fun ⟨bs, h⟩ => ⟨⟨bs, h⟩, g1Dec_noOrder2 h⟩⟩

end MidnightZK.C03
