import Mathlib.Algebra.Polynomial.Roots
import Mathlib.Algebra.Polynomial.BigOperators
import Mathlib.Algebra.BigOperators.Group.Finset.Basic
import Mathlib.Data.List.GetD
import Mathlib.Tactic.Ring
import Mathlib.Tactic.FieldSimp
import Mathlib.Tactic.NormNum
import Mathlib.Tactic.IntervalCases
/-!
# C03 — the verifier's evaluation of the instance (public-input) columns binds the column

`verifier.rs: instance_evals` evaluates a plain (non-committed) instance column `a_0 … a_{m-1}` at
the challenge `x` as `Σ_i a_i · ℓ_i(x)` with the Lagrange values of
`EvaluationDomain::l_i_range` (`proofs/src/poly/domain.rs`),
`ℓ_i(x) = w_i · (x^N − 1) / (n · (x − w_i))`, `w_i = ω^i`.

This file proves that two columns that differ (as vectors padded with zeros to a common length
`m`) are evaluated differently for all but at most `m − 1` challenges `x` outside the domain
(`instEval_agree_card_le`), and that padding with zeros is *not* seen by the evaluation
(`instEval_pad`).
-/
namespace MidnightZK.C03
open Polynomial

variable {F : Type*} [Field F]

/-- One entry of `EvaluationDomain::l_i_range` (proofs/src/poly/domain.rs) for the node `w = ω^i`:
`w · (x^N − 1) · n⁻¹ · (x − w)⁻¹`. -/
def lagrangeAt (nF : F) (N : ℕ) (w x : F) : F := w * ((x ^ N - 1) * nF⁻¹) * (x - w)⁻¹

/-- `compute_inner_product(instance, l_i_s[offset .. offset + len])` of verifier.rs
`instance_evals`: the evaluation at `x` of the plain instance column `a` (padded with zeros to
`m`) on the nodes `node 0 … node (m-1)`. -/
def instEval (nF : F) (N : ℕ) (node : ℕ → F) (m : ℕ) (a : ℕ → F) (x : F) : F :=
  ∑ i ∈ Finset.range m, a i * lagrangeAt nF N (node i) x

/-- The numerator polynomial of `Σ_i d_i · w_i / (x − w_i)` over the common denominator
`∏_{j<m} (x − w_j)`. -/
noncomputable def diffPoly (node : ℕ → F) (m : ℕ) (d : ℕ → F) : F[X] :=
  ∑ i ∈ Finset.range m, C (d i * node i) * ∏ j ∈ (Finset.range m).erase i, (X - C (node j))

theorem diffPoly_natDegree_le (node : ℕ → F) (m : ℕ) (d : ℕ → F) :
    (diffPoly node m d).natDegree ≤ m - 1 := by
  unfold diffPoly
  apply natDegree_sum_le_of_forall_le
  intro i hi
  refine (natDegree_C_mul_le _ _).trans ?_
  refine (natDegree_prod_le _ _).trans ?_
  simp only [natDegree_X_sub_C]
  rw [Finset.sum_const, Finset.card_erase_of_mem hi, Finset.card_range]
  simp

theorem diffPoly_eval_node (node : ℕ → F) (m : ℕ) (d : ℕ → F) (i₀ : ℕ) (hi₀ : i₀ < m) :
    (diffPoly node m d).eval (node i₀)
      = d i₀ * node i₀ * ∏ j ∈ (Finset.range m).erase i₀, (node i₀ - node j) := by
  unfold diffPoly
  rw [eval_finsetSum, Finset.sum_eq_single i₀]
  · simp [eval_prod]
  · intro i _ hne
    rw [eval_mul, eval_prod,
      Finset.prod_eq_zero (i := i₀)
        (Finset.mem_erase.mpr ⟨fun h => hne h.symm, Finset.mem_range.mpr hi₀⟩) (by simp),
      mul_zero]
  · intro h
    exact absurd (Finset.mem_range.mpr hi₀) h

theorem diffPoly_ne_zero (node : ℕ → F) (m : ℕ) (d : ℕ → F)
    (hinj : ∀ i < m, ∀ j < m, node i = node j → i = j) (hnode0 : ∀ i < m, node i ≠ 0)
    (hd : ∃ i < m, d i ≠ 0) : diffPoly node m d ≠ 0 := by
  obtain ⟨i₀, hi₀, hdi⟩ := hd
  intro hQ
  have h := diffPoly_eval_node node m d i₀ hi₀
  rw [hQ, eval_zero] at h
  have hprod : ∏ j ∈ (Finset.range m).erase i₀, (node i₀ - node j) ≠ 0 := by
    rw [Finset.prod_ne_zero_iff]
    intro j hj
    obtain ⟨hji, hjm⟩ := Finset.mem_erase.mp hj
    rw [sub_ne_zero]
    intro hEq
    exact hji (hinj i₀ hi₀ j (Finset.mem_range.mp hjm) hEq).symm
  exact mul_ne_zero (mul_ne_zero hdi (hnode0 i₀ hi₀)) hprod h.symm

theorem diffPoly_eval_of_ne (node : ℕ → F) (m : ℕ) (d : ℕ → F) (x : F)
    (hx : ∀ i < m, x ≠ node i) :
    (diffPoly node m d).eval x
      = (∏ j ∈ Finset.range m, (x - node j))
          * ∑ i ∈ Finset.range m, d i * node i * (x - node i)⁻¹ := by
  unfold diffPoly
  rw [eval_finsetSum, Finset.mul_sum]
  apply Finset.sum_congr rfl
  intro i hi
  have hne : x - node i ≠ 0 := sub_ne_zero.mpr (hx i (Finset.mem_range.mp hi))
  rw [← Finset.mul_prod_erase _ _ hi, eval_mul, eval_C, eval_prod]
  simp only [eval_sub, eval_X, eval_C]
  field_simp

theorem instEval_sub (nF : F) (N : ℕ) (node : ℕ → F) (m : ℕ) (a b : ℕ → F) (x : F) :
    instEval nF N node m a x - instEval nF N node m b x
      = ((x ^ N - 1) * nF⁻¹)
          * ∑ i ∈ Finset.range m, (a i - b i) * node i * (x - node i)⁻¹ := by
  unfold instEval lagrangeAt
  rw [← Finset.sum_sub_distrib, Finset.mul_sum]
  apply Finset.sum_congr rfl
  intro i _
  ring

/-- Outside the domain, agreement of the two evaluations makes `x` a root of `diffPoly`. -/
theorem diffPoly_eval_eq_zero_of_agree (nF : F) (hn : nF ≠ 0) (N m : ℕ) (node : ℕ → F)
    (hnodeN : ∀ i < m, node i ^ N = 1) (a b : ℕ → F) (x : F) (hxN : x ^ N ≠ 1)
    (hEq : instEval nF N node m a x = instEval nF N node m b x) :
    (diffPoly node m (fun i => a i - b i)).eval x = 0 := by
  have hx : ∀ i < m, x ≠ node i := by
    intro i hi h
    exact hxN (h ▸ hnodeN i hi)
  have hsub := instEval_sub nF N node m a b x
  rw [hEq, sub_self] at hsub
  have hfac : (x ^ N - 1) * nF⁻¹ ≠ 0 :=
    mul_ne_zero (sub_ne_zero.mpr hxN) (inv_ne_zero hn)
  have hsum : ∑ i ∈ Finset.range m, (a i - b i) * node i * (x - node i)⁻¹ = 0 :=
    (mul_eq_zero.mp hsub.symm).resolve_left hfac
  rw [diffPoly_eval_of_ne node m _ x hx, hsum, mul_zero]

/-- MAIN THEOREM. Two instance columns that differ somewhere below `m` have the same
`instance_evals` value for at most `m − 1` challenges `x` outside the evaluation domain. -/
theorem instEval_agree_card_le (nF : F) (hn : nF ≠ 0) (N m : ℕ) (node : ℕ → F)
    (hinj : ∀ i < m, ∀ j < m, node i = node j → i = j)
    (hnode0 : ∀ i < m, node i ≠ 0) (hnodeN : ∀ i < m, node i ^ N = 1)
    (a b : ℕ → F) (hab : ∃ i < m, a i ≠ b i) (S : Finset F)
    (hS : ∀ x ∈ S, x ^ N ≠ 1 ∧ instEval nF N node m a x = instEval nF N node m b x) :
    S.card ≤ m - 1 := by
  classical
  have hQ : diffPoly node m (fun i => a i - b i) ≠ 0 := by
    apply diffPoly_ne_zero node m _ hinj hnode0
    obtain ⟨i, hi, hne⟩ := hab
    exact ⟨i, hi, sub_ne_zero.mpr hne⟩
  have hsub : S.val ⊆ (diffPoly node m (fun i => a i - b i)).roots := by
    intro x hx
    have hx' : x ∈ S := hx
    rw [mem_roots hQ]
    exact diffPoly_eval_eq_zero_of_agree nF hn N m node hnodeN a b x (hS x hx').1 (hS x hx').2
  exact (card_le_degree_of_subset_roots hsub).trans (diffPoly_natDegree_le node m _)

/-- Padding a column with zeros does not change its evaluation (so a trailing zero appended to a
public-input column is NOT caught by the evaluation; only the length prefix absorbed in the
transcript catches it). -/
theorem instEval_pad (nF : F) (N : ℕ) (node : ℕ → F) (m k : ℕ) (a : ℕ → F)
    (hz : ∀ i, m ≤ i → a i = 0) (x : F) :
    instEval nF N node (m + k) a x = instEval nF N node m a x := by
  unfold instEval
  rw [Finset.sum_range_add]
  rw [Finset.sum_eq_zero (s := Finset.range k), add_zero]
  intro i _
  rw [hz (m + i) (Nat.le_add_right m i), zero_mul]

/-- Padded list form: two columns (lists) of lengths at most `m` whose zero-paddings differ
somewhere below `m` evaluate differently outside an exceptional set of at most `m − 1` points. -/
theorem instEval_padded_lists_agree_card_le (nF : F) (hn : nF ≠ 0) (N m : ℕ) (node : ℕ → F)
    (a b : List F) (_hla : a.length ≤ m) (_hlb : b.length ≤ m)
    (hne : ∃ i < m, a.getD i 0 ≠ b.getD i 0)
    (hinj : ∀ i < m, ∀ j < m, node i = node j → i = j)
    (hnode0 : ∀ i < m, node i ≠ 0) (hnodeN : ∀ i < m, node i ^ N = 1) (S : Finset F)
    (hS : ∀ x ∈ S, x ^ N ≠ 1 ∧
      instEval nF N node m (fun i => a.getD i 0) x
        = instEval nF N node m (fun i => b.getD i 0) x) :
    S.card ≤ m - 1 :=
  instEval_agree_card_le nF hn N m node hinj hnode0 hnodeN _ _ hne S hS

/-- List form: two columns (lists) of the same length `m` that differ evaluate differently
outside an exceptional set of at most `m − 1` points. -/
theorem instEval_lists_agree_card_le (nF : F) (hn : nF ≠ 0) (N : ℕ) (node : ℕ → F)
    (a b : List F) (hlen : a.length = b.length) (hne : a ≠ b)
    (hinj : ∀ i < a.length, ∀ j < a.length, node i = node j → i = j)
    (hnode0 : ∀ i < a.length, node i ≠ 0) (hnodeN : ∀ i < a.length, node i ^ N = 1)
    (S : Finset F)
    (hS : ∀ x ∈ S, x ^ N ≠ 1 ∧
      instEval nF N node a.length (fun i => a.getD i 0) x
        = instEval nF N node a.length (fun i => b.getD i 0) x) :
    S.card ≤ a.length - 1 := by
  have hex : ∃ i < a.length, a.getD i 0 ≠ b.getD i 0 := by
    by_contra hcon
    apply hne
    apply List.ext_getElem hlen
    intro i h₁ h₂
    by_contra hi
    apply hcon
    refine ⟨i, h₁, ?_⟩
    rw [List.getD_eq_getElem _ _ h₁, List.getD_eq_getElem _ _ h₂]
    exact hi
  exact instEval_agree_card_le nF hn N a.length node hinj hnode0 hnodeN _ _ hex S hS

/-- Non-vacuity (and tightness of the bound `m − 1`) of `instEval_agree_card_le`: over `ℚ` with
`N = 2`, `n = 2`, `m = 2`, nodes `1, −1`, the columns `(1, −1)` and `(0, 0)` satisfy all
hypotheses and agree at the one point `x = 0` outside the domain
(`ℓ_0(0) = ℓ_1(0) = 1/2`, so `1·ℓ_0(0) + (−1)·ℓ_1(0) = 0`). -/
example : ∃ (nF : ℚ) (N m : ℕ) (node : ℕ → ℚ) (a b : ℕ → ℚ) (S : Finset ℚ),
    nF ≠ 0 ∧ (∀ i < m, ∀ j < m, node i = node j → i = j) ∧ (∀ i < m, node i ≠ 0) ∧
    (∀ i < m, node i ^ N = 1) ∧ (∃ i < m, a i ≠ b i) ∧ S.card = m - 1 ∧
    (∀ x ∈ S, x ^ N ≠ 1 ∧ instEval nF N node m a x = instEval nF N node m b x) := by
  refine ⟨2, 2, 2, fun i => if i = 0 then 1 else -1, fun i => if i = 0 then 1 else -1,
    fun _ => 0, {0}, by norm_num, ?_, ?_, ?_, ⟨0, by norm_num, by norm_num⟩, by simp, ?_⟩
  · intro i hi j hj h
    interval_cases i <;> interval_cases j <;> first | rfl | (norm_num at h)
  · intro i hi
    interval_cases i <;> norm_num
  · intro i hi
    interval_cases i <;> norm_num
  · intro x hx
    rw [Finset.mem_singleton] at hx
    subst hx
    refine ⟨by norm_num, ?_⟩
    simp [instEval, lagrangeAt, Finset.sum_range_succ]

end MidnightZK.C03
