import MidnightZK.Model.C03.Absorb
import MidnightZK.Model.C03.VK
/-!
Helper lemmas of property C03 (core Lean only): sizes of the encodings, typed value lists,
injectivity of the two absorbed streams for a fixed schedule, injectivity of proof parsing for a
canonical point decoder, limb decompositions.
-/
namespace MidnightZK.C03
open MidnightZK MidnightZK.C01

/-! ## sizes -/

theorem natToLeBytes_length' (n v : Nat) : (natToLeBytes n v).length = n := by
  induction n generalizing v with
  | zero => simp [natToLeBytes]
  | succ k ih => simp [natToLeBytes, ih]

theorem encodeScalar_length (v : Nat) : (encodeScalar v).length = 32 := natToLeBytes_length' 32 v

theorem encodeG1c_length (p : Pt) : (C16.encodeG1c p).length = 48 := by
  cases p with
  | inf => simp [C16.encodeG1c]
  | aff x y =>
    have h : (C16.natToBe 48 x).length = 48 := by simp [C16.natToBe, natToLeBytes_length']
    simp only [C16.encodeG1c]
    split
    · next he => rw [he] at h; simp at h
    · next b0 t he => rw [he] at h; simpa using h

theorem valBytes_length (v : Val) : (valBytes v).length = elemSize v.ty := by
  cases v with
  | F x => exact encodeScalar_length x
  | G p => exact encodeG1c_length p

theorem toLimbs_length (B n v : Nat) : (toLimbs B n v).length = n := by
  induction n generalizing v with
  | zero => rfl
  | succ k ih => simp [toLimbs, ih]

theorem fieldLimbs_length (x : Nat) : (fieldLimbs x).length = Gen.emNbLimbs := toLimbs_length _ _ _

theorem pointLimbs_length (p : Pt) : (pointLimbs p).length = 2 * Gen.emNbLimbs := by
  cases p with
  | aff x y => simp [pointLimbs, fieldLimbs_length]; omega
  | inf =>
    have h : (fieldLimbs 0 ++ fieldLimbs 0).length = 2 * Gen.emNbLimbs := by
      simp [fieldLimbs_length]; omega
    simp only [pointLimbs]
    split
    · next he => rw [he] at h; simpa using h
    · next l t he => rw [he] at h; simpa using h

/-- Number of field elements a value contributes to the Poseidon queue. -/
def fieldCount : Ty → Nat
  | .F => 1
  | .G => 2 * Gen.emNbLimbs

theorem valFields_length (v : Val) : (valFields v).length = fieldCount v.ty := by
  cases v with
  | F x => rfl
  | G p => exact pointLimbs_length p

/-! ## limbs -/

theorem fromLimbs_toLimbs (B : Nat) (hB : 0 < B) : ∀ (n v : Nat), fromLimbs B (toLimbs B n v) = v % B ^ n
  | 0, v => by simp [toLimbs, fromLimbs, Nat.mod_one]
  | n + 1, v => by
    simp only [toLimbs, fromLimbs, fromLimbs_toLimbs B hB n (v / B)]
    rw [Nat.pow_succ, Nat.mul_comm (B ^ n) B, Nat.mod_mul]

theorem toLimbs_inj (B : Nat) (hB : 0 < B) (n a b : Nat) (ha : a < B ^ n) (hb : b < B ^ n)
    (h : toLimbs B n a = toLimbs B n b) : a = b := by
  have := congrArg (fromLimbs B) h
  rwa [fromLimbs_toLimbs B hB, fromLimbs_toLimbs B hB, Nat.mod_eq_of_lt ha, Nat.mod_eq_of_lt hb] at this

theorem toLimbs_head_lt (B : Nat) (hB : 0 < B) (n v : Nat) : ∀ l ∈ (toLimbs B n v).head?, l < B := by
  cases n with
  | zero => simp [toLimbs]
  | succ k => simp [toLimbs]; exact Nat.mod_lt _ hB

/-! ## typed value lists -/

/-- `vals` lists one value of the right type for every non-squeeze event of the schedule.
(Made irreducible at the end of this file: elaboration must not try to evaluate it on a symbolic schedule.) -/
def Typed : List Ev → List Val → Prop
  | [], vs => vs = []
  | e :: t, vs =>
    if e.kind = .squeeze then Typed t vs
    else match vs with
      | [] => False
      | v :: r => v.ty = e.ty ∧ Typed t r

theorem Typed_nil (vs : List Val) : Typed [] vs ↔ vs = [] := by simp [Typed]

theorem Typed_cons (e : Ev) (t : List Ev) (vs : List Val) :
    Typed (e :: t) vs ↔
      if e.kind = .squeeze then Typed t vs
      else match vs with
        | [] => False
        | v :: r => v.ty = e.ty ∧ Typed t r := by
  conv => lhs; unfold Typed

/-! ## BLAKE2b stream -/

/-- For a fixed schedule the BLAKE2b stream determines the values, provided the byte encoding is
injective among the values considered (`P`) of one type. -/
theorem blakeStream_inj_of (P : Val → Prop)
    (hinj : ∀ a b, P a → P b → a.ty = b.ty → valBytes a = valBytes b → a = b) :
    ∀ (evs : List Ev) (a b : List Val), Typed evs a → Typed evs b →
      (∀ v ∈ a, P v) → (∀ v ∈ b, P v) → blakeStream evs a = blakeStream evs b → a = b
  | [], a, b, ha, hb, _, _, _ => by simp only [Typed] at ha hb; rw [ha, hb]
  | e :: t, a, b, ha, hb, pa, pb, h => by
    unfold Typed at ha hb
    unfold blakeStream at h
    by_cases hk : e.kind = .squeeze
    · simp only [hk, if_true] at ha hb h
      exact blakeStream_inj_of P hinj t a b ha hb pa pb (List.cons.inj h).2
    · simp only [hk, if_false] at ha hb h
      match a, b, ha, hb, pa, pb, h with
      | [], _, ha, _, _, _, _ => exact absurd ha (by simp)
      | _ :: _, [], _, hb, _, _, _ => exact absurd hb (by simp)
      | va :: ra, vb :: rb, ha, hb, pa, pb, h =>
        simp only at ha hb h
        have hty : va.ty = vb.ty := by rw [ha.1, hb.1]
        have hlen : (valBytes va).length = (valBytes vb).length := by
          rw [valBytes_length, valBytes_length, hty]
        have h2 := List.append_inj (List.cons.inj h).2 hlen
        have hv : va = vb :=
          hinj va vb (pa va (by simp)) (pb vb (by simp)) hty h2.1
        have hr := blakeStream_inj_of P hinj t ra rb ha.2 hb.2
          (fun v hv => pa v (by simp [hv])) (fun v hv => pb v (by simp [hv])) h2.2
        rw [hv, hr]

/-! ## Poseidon blocks -/

theorem poseidonBlocks_inj_of (P : Val → Prop)
    (hinj : ∀ a b, P a → P b → a.ty = b.ty → valFields a = valFields b → a = b) :
    ∀ (evs : List Ev) (a b : List Val) (c1 c2 : List Nat) (sq : Nat), Typed evs a → Typed evs b →
      (∀ v ∈ a, P v) → (∀ v ∈ b, P v) → c1.length = c2.length →
      poseidonBlocks evs a c1 sq = poseidonBlocks evs b c2 sq → c1 = c2 ∧ a = b
  | [], a, b, c1, c2, sq, ha, hb, _, _, _, h => by
    simp only [Typed] at ha hb
    simp only [poseidonBlocks, List.cons.injEq, and_true] at h
    exact ⟨h, by rw [ha, hb]⟩
  | e :: t, a, b, c1, c2, sq, ha, hb, pa, pb, hl, h => by
    unfold Typed at ha hb
    unfold poseidonBlocks at h
    by_cases hk : e.kind = .squeeze
    · simp only [hk, if_true] at ha hb h
      by_cases hs : sq > 0
      · simp only [hs, if_true] at h
        exact poseidonBlocks_inj_of P hinj t a b c1 c2 _ ha hb pa pb hl h
      · simp only [hs, if_false] at h
        have h1 := List.cons.inj h
        have hc : c1 = c2 := (List.append_inj h1.1 hl).1
        exact ⟨hc, (poseidonBlocks_inj_of P hinj t a b [] [] _ ha hb pa pb rfl h1.2).2⟩
    · simp only [hk, if_false] at ha hb h
      match a, b, ha, hb, pa, pb, h with
      | [], _, ha, _, _, _, _ => exact absurd ha (by simp)
      | _ :: _, [], _, hb, _, _, _ => exact absurd hb (by simp)
      | va :: ra, vb :: rb, ha, hb, pa, pb, h =>
        simp only at ha hb h
        have hty : va.ty = vb.ty := by rw [ha.1, hb.1]
        have hlen : (valFields va).length = (valFields vb).length := by
          rw [valFields_length, valFields_length, hty]
        have hl' : (c1 ++ valFields va).length = (c2 ++ valFields vb).length := by
          simp [hl, hlen]
        have ih := poseidonBlocks_inj_of P hinj t ra rb _ _ 0 ha.2 hb.2
          (fun v hv => pa v (by simp [hv])) (fun v hv => pb v (by simp [hv])) hl' h
        have h2 := List.append_inj ih.1 hl
        have hv : va = vb := hinj va vb (pa va (by simp)) (pb vb (by simp)) hty h2.2
        exact ⟨h2.1, by rw [hv, ih.2]⟩

/-! ## parsing -/

/-- What C03 needs from the compressed-G1 decoder: fixed size and canonicity (two accepted byte strings
with the same point are the same string). Discharged for the model of `G1Affine::from_compressed` by
`C16.decode_canonical` (see `g1Dec_canonical` in `Proofs/C03/Points.lean`) up to points with `y = 0`. -/
structure CanonicalPointDecoder (dec : List Nat → Option Pt) (ok : Pt → Prop) : Prop where
  size : ∀ bs p, dec bs = some p → bs.length = 48
  canonical : ∀ a b p, ok p → dec a = some p → dec b = some p → a = b

/-- Values whose points satisfy `ok`. -/
def ValOk (ok : Pt → Prop) : Val → Prop
  | .F _ => True
  | .G p => ok p

theorem leBytesToNat_inj' : ∀ (a b : List Nat), a.length = b.length →
    a.all (· < 256) = true → b.all (· < 256) = true → leBytesToNat a = leBytesToNat b → a = b
  | [], [], _, _, _, _ => rfl
  | [], _ :: _, h, _, _, _ => by simp at h
  | _ :: _, [], h, _, _, _ => by simp at h
  | x :: s, y :: t, hl, ha, hb, h => by
    simp only [List.all_cons, Bool.and_eq_true, decide_eq_true_eq] at ha hb
    simp only [leBytesToNat] at h
    have hxy : x = y := by omega
    have hst : leBytesToNat s = leBytesToNat t := by omega
    rw [hxy, leBytesToNat_inj' s t (by simpa using hl) ha.2 hb.2 hst]

theorem decodeScalar_inj (a b : List Nat) (x : Nat)
    (ha : decodeScalar a = some x) (hb : decodeScalar b = some x) : a = b := by
  unfold decodeScalar at ha hb
  by_cases h1 : a.length = 32 ∧ a.all (· < 256) = true
  · by_cases h2 : b.length = 32 ∧ b.all (· < 256) = true
    · simp only [h1, h2, and_self, if_true] at ha hb
      by_cases c1 : leBytesToNat a < rModulus
      · by_cases c2 : leBytesToNat b < rModulus
        · simp only [c1, c2, if_true, Option.some.injEq] at ha hb
          exact leBytesToNat_inj' a b (by omega) h1.2 h2.2 (by omega)
        · simp [c2] at hb
      · simp [c1] at ha
    · rw [if_neg h2] at hb; exact absurd hb (by simp)
  · rw [if_neg h1] at ha; exact absurd ha (by simp)

theorem decodeElemWith_inj {dec : List Nat → Option Pt} {ok : Pt → Prop}
    (hd : CanonicalPointDecoder dec ok) (ty : Ty) (a b : List Nat) (v : Val) (hv : ValOk ok v)
    (ha : decodeElemWith dec ty a = some v) (hb : decodeElemWith dec ty b = some v) : a = b := by
  cases ty with
  | F =>
    simp only [decodeElemWith, Option.map_eq_some_iff] at ha hb
    obtain ⟨x, hx, rfl⟩ := ha
    obtain ⟨y, hy, hxy⟩ := hb
    cases hxy
    exact decodeScalar_inj a b _ hx hy
  | G =>
    simp only [decodeElemWith, Option.map_eq_some_iff] at ha hb
    obtain ⟨p, hp, rfl⟩ := ha
    obtain ⟨q, hq, hpq⟩ := hb
    cases hpq
    exact hd.canonical a b _ hv hp hq

/-- Reading element after element is injective: same types, same elements, same rest ⇒ same bytes. -/
theorem parseElemsWith_inj {dec : List Nat → Option Pt} {ok : Pt → Prop}
    (hd : CanonicalPointDecoder dec ok) :
    ∀ (tys : List Ty) (a b : List Nat) (vs : List Val) (r : List Nat), (∀ v ∈ vs, ValOk ok v) →
      parseElemsWith dec tys a = some (vs, r) → parseElemsWith dec tys b = some (vs, r) → a = b
  | [], a, b, vs, r, _, ha, hb => by
    simp only [parseElemsWith, Option.some.injEq, Prod.mk.injEq] at ha hb
    rw [ha.2, hb.2]
  | ty :: t, a, b, vs, r, hok, ha, hb => by
    unfold parseElemsWith at ha hb
    by_cases la : a.length < elemSize ty
    · simp [la] at ha
    by_cases lb : b.length < elemSize ty
    · simp [lb] at hb
    simp only [la, lb, if_false] at ha hb
    split at ha
    · simp at ha
    · next va hva =>
      split at hb
      · simp at hb
      · next vb hvb =>
        simp only [Option.map_eq_some_iff, Prod.mk.injEq] at ha hb
        obtain ⟨⟨vsa, ra⟩, hpa, h1, h2⟩ := ha
        obtain ⟨⟨vsb, rb⟩, hpb, h3, h4⟩ := hb
        simp only at h1 h2 h3 h4
        subst h2 h4
        rw [← h1] at h3
        have h5 := List.cons.inj h3
        have hvv : vb = va := h5.1
        have hvs : vsb = vsa := h5.2
        subst hvv hvs
        have hokv : ValOk ok vb := hok vb (by rw [← h1]; simp)
        have htake : a.take (elemSize ty) = b.take (elemSize ty) :=
          decodeElemWith_inj hd ty _ _ vb hokv hva hvb
        have hdrop : a.drop (elemSize ty) = b.drop (elemSize ty) :=
          parseElemsWith_inj hd t _ _ vsb _ (fun v hv => hok v (by rw [← h1]; simp [hv])) hpa hpb
        rw [← List.take_append_drop (elemSize ty) a, ← List.take_append_drop (elemSize ty) b, htake, hdrop]

/-- A successful parse consumes exactly the bytes of the element sizes. -/
theorem parseElemsWith_length {dec : List Nat → Option Pt} :
    ∀ (tys : List Ty) (a : List Nat) (vs : List Val) (r : List Nat),
      parseElemsWith dec tys a = some (vs, r) →
      a.length = (tys.map elemSize).foldl (· + ·) 0 + r.length ∧ vs.length = tys.length
  | [], a, vs, r, h => by
    simp only [parseElemsWith, Option.some.injEq, Prod.mk.injEq] at h
    simp [← h.1, ← h.2]
  | ty :: t, a, vs, r, h => by
    unfold parseElemsWith at h
    by_cases la : a.length < elemSize ty
    · simp [la] at h
    simp only [la, if_false] at h
    split at h
    · simp at h
    · next v hv =>
      simp only [Option.map_eq_some_iff, Prod.mk.injEq] at h
      obtain ⟨⟨vs', r'⟩, hp, h1, h2⟩ := h
      simp only at h1 h2
      subst h2
      have ih := parseElemsWith_length t _ vs' r' hp
      have hfold : ∀ (l : List Nat) (acc : Nat), l.foldl (· + ·) acc = acc + l.foldl (· + ·) 0 := by
        intro l
        induction l with
        | nil => intro acc; simp
        | cons x xs ihx => intro acc; simp only [List.foldl_cons]; rw [ihx (acc + x), ihx (0 + x)]; omega
      constructor
      · simp only [List.map_cons, List.foldl_cons]
        rw [hfold]
        have := ih.1
        simp only [List.length_drop] at this
        omega
      · rw [← h1]; simp [ih.2]

/-! ## the vk buffer -/

theorem encodeG1u_length (p : Pt) : (C16.encodeG1u p).length = 96 := by
  cases p with
  | inf => simp [C16.encodeG1u]
  | aff x y => simp [C16.encodeG1u, C16.natToBe, natToLeBytes_length']

theorem rawPoints_length : ∀ (l : List Pt), (rawPoints l).length = 96 * l.length
  | [] => rfl
  | p :: t => by simp [rawPoints, encodeG1u_length, rawPoints_length t]; omega

theorem rawPoints_inj_of (P : Pt → Prop)
    (hinj : ∀ p q, P p → P q → C16.encodeG1u p = C16.encodeG1u q → p = q) :
    ∀ (a b : List Pt) (ra rb : List Nat), a.length = b.length → (∀ p ∈ a, P p) → (∀ p ∈ b, P p) →
      rawPoints a ++ ra = rawPoints b ++ rb → a = b ∧ ra = rb
  | [], [], ra, rb, _, _, _, h => by simpa [rawPoints] using h
  | [], _ :: _, _, _, hl, _, _, _ => by simp at hl
  | _ :: _, [], _, _, hl, _, _, _ => by simp at hl
  | p :: s, q :: t, ra, rb, hl, pa, pb, h => by
    simp only [rawPoints, List.append_assoc] at h
    have h2 := List.append_inj h (by rw [encodeG1u_length, encodeG1u_length])
    have hpq := hinj p q (pa p (by simp)) (pb q (by simp)) h2.1
    have ih := rawPoints_inj_of P hinj s t ra rb (by simpa using hl)
      (fun x hx => pa x (by simp [hx])) (fun x hx => pb x (by simp [hx])) h2.2
    exact ⟨by rw [hpq, ih.1], ih.2⟩

theorem natToLeBytes_inj (n a b : Nat) (ha : a < 256 ^ n) (hb : b < 256 ^ n)
    (h : natToLeBytes n a = natToLeBytes n b) : a = b := by
  induction n generalizing a b with
  | zero => simp at ha hb; omega
  | succ k ih =>
    simp only [natToLeBytes, List.cons.injEq] at h
    have := ih (a / 256) (b / 256) (by rw [Nat.pow_succ] at ha; omega) (by rw [Nat.pow_succ] at hb; omega) h.2
    omega

attribute [irreducible] Typed

end MidnightZK.C03
