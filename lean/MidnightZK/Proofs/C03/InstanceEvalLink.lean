import MidnightZK.Proofs.C03.InstanceEval
import MidnightZK.Proofs.C02.Lagrange
/-!
# C03 — the executable `C02.instanceEvals` computes the field-level `instEval` (mod `p`)

`Model/C02/Identities.lean: instanceEvals` is the executable (natural numbers mod `p`) mirror of
`verifier.rs: instance_evals` that the C02 correspondence runs against the real verifier on every proof.
`Proofs/C03/InstanceEval.lean: instEval` is the field-level expression `Σ_i a_i·ℓ_i(x)` of which
`instance_eval_binds` is a theorem. This file proves that the first, cast to `ZMod p`, IS the second — on the nodes
`ω^i`, at the point `ω^rot·x` for a query at rotation `rot` — and transports the binding theorem to the executable
function: two plain instance tables that differ in a queried column are evaluated differently by `instanceEvals`
for all but at most `m − 1` challenges off the domain.
-/
namespace MidnightZK.C03
open Polynomial Finset MidnightZK MidnightZK.C02.Ids MidnightZK.C02.Lag MidnightZK.C01.Dom MidnightZK.C01.Asm

variable (f : C02.Ids.Fld) [hf : Fact f.p.Prime]

/-- The barycentric weight of C01's domain lemmas is the `lagrangeAt` of this property (argument order aside). -/
theorem lagrangeAt_eq {F : Type} [Field F] (ω : F) (n : ℕ) (x : F) (i : ℕ) :
    C01.Dom.lagrangeAt ω n x i = lagrangeAt (n : F) n (ω ^ i) x := by
  unfold C01.Dom.lagrangeAt lagrangeAt
  ring

/-- **The executable instance evaluation is `instEval`.** For a plain instance column queried at rotation `rot`, the
entry of `C02.instanceEvals` (naturals mod `p`), cast to `ZMod p`, equals `instEval` with `nF = N = 2^k`, nodes
`ω^i`, the column's own length and values, at the point `ω^rot · x`. -/
theorem instanceEvals_eq_instEval (hp2 : 2 < f.p) (cs : VCS)
    (hω : IsPrimitiveRoot (omegaZ f cs.k) (2 ^ cs.k))
    (nCommitted x maxLen : ℕ) (plain : List (List ℕ)) (cev : ℕ → ℕ)
    (hx : (x : ZMod f.p) ^ (2 ^ cs.k) ≠ 1) (qi : ℕ) (hqi : qi < cs.instanceQueries.length)
    (hplain : nCommitted ≤ (cs.instanceQueries[qi]).1)
    (hlen : (plain.getD ((cs.instanceQueries[qi]).1 - nCommitted) []).length ≤ maxLen)
    (hln : (plain.getD ((cs.instanceQueries[qi]).1 - nCommitted) []).length ≤ 2 ^ cs.k) :
    (((instanceEvals f cs nCommitted x (xnOf f.p cs.k x) maxLen plain cev).getD qi 0 : ℕ) : ZMod f.p) =
      instEval (((2 ^ cs.k : ℕ) : ZMod f.p)) (2 ^ cs.k) (fun i => (omegaZ f cs.k) ^ i)
        (plain.getD ((cs.instanceQueries[qi]).1 - nCommitted) []).length
        (fun i => (((plain.getD ((cs.instanceQueries[qi]).1 - nCommitted) []).getD i 0 : ℕ) : ZMod f.p))
        ((omegaZ f cs.k) ^ (cs.instanceQueries[qi]).2 * (x : ZMod f.p)) := by
  rw [instance_eval_is_poly_eval f hp2 cs hω nCommitted x maxLen plain cev hx qi hqi hplain hlen hln]
  set inst := plain.getD ((cs.instanceQueries[qi]).1 - nCommitted) [] with hinst
  have hn : 0 < 2 ^ cs.k := Nat.pos_of_ne_zero (by positivity)
  have hx' : ((omegaZ f cs.k) ^ (cs.instanceQueries[qi]).2 * (x : ZMod f.p)) ^ (2 ^ cs.k) ≠ 1 := by
    rw [mul_pow, zpow_node_pow hω, one_mul]; exact hx
  unfold C01.Asm.colPoly
  rw [eval_interpolate_domain hω hn _ hx']
  -- the sum over the whole domain is the sum over the column's length (the rest is zero)
  obtain ⟨d, hd⟩ : ∃ d, 2 ^ cs.k = inst.length + d := ⟨2 ^ cs.k - inst.length, by omega⟩
  have hpad := instEval_pad (((2 ^ cs.k : ℕ) : ZMod f.p)) (2 ^ cs.k) (fun i => (omegaZ f cs.k) ^ i) inst.length d
    (fun i => (((inst.getD i 0 : ℕ)) : ZMod f.p))
    (fun i hi => by
      rw [List.getD_eq_getElem?_getD, List.getElem?_eq_none hi]; simp)
    ((omegaZ f cs.k) ^ (cs.instanceQueries[qi]).2 * (x : ZMod f.p))
  rw [← hpad, ← hd]
  unfold instEval
  apply sum_congr rfl
  intro i _
  rw [lagrangeAt_eq]
  congr 1
  simp only [List.getD_eq_getElem?_getD, List.getElem?_map]
  cases inst[i]? <;> simp

/-- **`instance_eval_binds` for the executable function.** Two tables of plain instance columns whose column behind
query `qi` differs (same length `m`, canonical values `< p`) are given the same evaluation by `C02.instanceEvals`
for at most `m − 1` challenges `x < p` off the domain. The set is a set of natural numbers: the statement is
entirely about the executable model that the correspondence of C02 compares with the real verifier. -/
theorem instanceEvals_binds (hp2 : 2 < f.p) (cs : VCS)
    (hω : IsPrimitiveRoot (omegaZ f cs.k) (2 ^ cs.k))
    (nCommitted maxLen : ℕ) (plainA plainB : List (List ℕ)) (cev : ℕ → ℕ)
    (qi : ℕ) (hqi : qi < cs.instanceQueries.length) (hplain : nCommitted ≤ (cs.instanceQueries[qi]).1)
    (colA colB : List ℕ)
    (hA : plainA.getD ((cs.instanceQueries[qi]).1 - nCommitted) [] = colA)
    (hB : plainB.getD ((cs.instanceQueries[qi]).1 - nCommitted) [] = colB)
    (hlenEq : colA.length = colB.length) (hlen : colA.length ≤ maxLen) (hln : colA.length ≤ 2 ^ cs.k)
    (hvA : ∀ v ∈ colA, v < f.p) (hvB : ∀ v ∈ colB, v < f.p) (hne : colA ≠ colB)
    (S : Finset ℕ)
    (hS : ∀ x ∈ S, x < f.p ∧ (x : ZMod f.p) ^ (2 ^ cs.k) ≠ 1 ∧
      (instanceEvals f cs nCommitted x (xnOf f.p cs.k x) maxLen plainA cev).getD qi 0
        = (instanceEvals f cs nCommitted x (xnOf f.p cs.k x) maxLen plainB cev).getD qi 0) :
    S.card ≤ colA.length - 1 := by
  set ω := omegaZ f cs.k with hωdef
  set rot := (cs.instanceQueries[qi]).2 with hrot
  have hn : 0 < 2 ^ cs.k := Nat.pos_of_ne_zero (by positivity)
  have hω0 : ω ≠ 0 := hω.ne_zero (by omega)
  -- the image of `S` under `x ↦ ω^rot · x`
  have hcastinj : ∀ x ∈ S, ∀ y ∈ S, ((x : ℕ) : ZMod f.p) = (y : ZMod f.p) → x = y := by
    intro x hx y hy h
    have h1 := congrArg ZMod.val h
    rwa [ZMod.val_cast_of_lt (hS x hx).1, ZMod.val_cast_of_lt (hS y hy).1] at h1
  let g : ℕ → ZMod f.p := fun x => ω ^ rot * (x : ZMod f.p)
  have hginj : Set.InjOn g (S : Set ℕ) := by
    intro x hx y hy h
    have : ((x : ℕ) : ZMod f.p) = (y : ZMod f.p) := mul_left_cancel₀ (zpow_ne_zero _ hω0) h
    exact hcastinj x hx y hy this
  rw [← Finset.card_image_of_injOn hginj]
  -- the differing index
  have hab : ∃ i < colA.length, ((colA.getD i 0 : ℕ) : ZMod f.p) ≠ ((colB.getD i 0 : ℕ) : ZMod f.p) := by
    by_contra hcon
    push Not at hcon
    apply hne
    apply List.ext_getElem hlenEq
    intro i h1 h2
    have h := hcon i h1
    rw [List.getD_eq_getElem?_getD, List.getD_eq_getElem?_getD, List.getElem?_eq_getElem h1,
      List.getElem?_eq_getElem h2] at h
    simp only [Option.getD_some] at h
    have h3 := congrArg ZMod.val h
    rwa [ZMod.val_cast_of_lt (hvA _ (List.getElem_mem h1)), ZMod.val_cast_of_lt (hvB _ (List.getElem_mem h2))] at h3
  have hnF : (((2 ^ cs.k : ℕ)) : ZMod f.p) ≠ 0 := by
    intro h0
    rw [ZMod.natCast_eq_zero_iff] at h0
    have := (Nat.Prime.dvd_of_dvd_pow hf.out h0)
    have := Nat.le_of_dvd (by norm_num) this
    omega
  refine instEval_agree_card_le (((2 ^ cs.k : ℕ)) : ZMod f.p) hnF (2 ^ cs.k) colA.length (fun i => ω ^ i)
    ?_ ?_ ?_ (fun i => ((colA.getD i 0 : ℕ) : ZMod f.p)) (fun i => ((colB.getD i 0 : ℕ) : ZMod f.p)) hab _ ?_
  · intro i hi j hj hij
    exact hω.pow_inj (by omega) (by omega) hij
  · intro i _
    exact pow_ne_zero _ hω0
  · intro i _
    rw [← pow_mul, mul_comm, pow_mul, hω.pow_eq_one, one_pow]
  · intro y hy
    obtain ⟨x, hxS, rfl⟩ := Finset.mem_image.mp hy
    obtain ⟨_, hxN, hEq⟩ := hS x hxS
    refine ⟨?_, ?_⟩
    · show (ω ^ rot * (x : ZMod f.p)) ^ (2 ^ cs.k) ≠ 1
      rw [mul_pow, zpow_node_pow hω, one_mul]; exact hxN
    · have eA := instanceEvals_eq_instEval f hp2 cs hω nCommitted x maxLen plainA cev hxN qi hqi hplain
        (by rw [hA]; exact hlen) (by rw [hA]; exact hln)
      have eB := instanceEvals_eq_instEval f hp2 cs hω nCommitted x maxLen plainB cev hxN qi hqi hplain
        (by rw [hB, ← hlenEq]; exact hlen) (by rw [hB, ← hlenEq]; exact hln)
      rw [hA] at eA
      rw [hB, ← hlenEq] at eB
      show instEval _ _ _ _ _ (ω ^ rot * (x : ZMod f.p)) = instEval _ _ _ _ _ (ω ^ rot * (x : ZMod f.p))
      rw [← eA, ← eB, hEq]

end MidnightZK.C03
