import MidnightZK.Proofs.C03.Stream
import MidnightZK.Props.C16
/-!
Point-level facts of property C03, obtained from the decoder model and the canonicity theorem of
property C16 (`C16.decode_canonical`, `C16.accepted_points_valid`): the compressed-G1 decoder used by
both transcript readers is canonical, the compressed / uncompressed / limb encodings are injective
on the points it accepts.
-/
namespace MidnightZK.C03
open MidnightZK MidnightZK.C01

/-- `p` is not a point of order two (`y = 0`). No such point lies on `y² = x³ + 4` over the BLS12-381 base
field (the group order is odd); that fact is not proved here nor in C16, so it is carried as a side condition. -/
def NoOrder2 (p : Pt) : Prop := ∀ x, p ≠ .aff x 0

/-- Points the transcript can read from a proof: accepted by the decoder (on the curve, in the subgroup,
canonical coordinates), and not of order two. -/
def GoodPt (p : Pt) : Prop := (∃ bs, g1Dec bs = some p) ∧ NoOrder2 p

theorem g1Dec_some {bs : List Nat} {p : Pt} (h : g1Dec bs = some p) :
    C16.WF bs ∧ C16.decodeG1c bs = .ok p := by
  unfold g1Dec at h
  split at h
  · next hb =>
    constructor
    · intro b hbm
      have := List.all_eq_true.mp hb b hbm
      simpa using this
    · split at h
      · next q hq => simp only [Option.some.injEq] at h; rw [← h]; exact hq
      · simp at h
  · simp at h

theorem g1Dec_length {bs : List Nat} {p : Pt} (h : g1Dec bs = some p) : bs.length = 48 := by
  have h2 := (g1Dec_some h).2
  unfold C16.decodeG1c at h2
  split at h2
  · simp at h2
  · next hl => simpa using hl

/-- The decoder accepts only the canonical encoding of the point it returns. -/
theorem g1Dec_encode {bs : List Nat} {p : Pt} (h : g1Dec bs = some p) (hp : NoOrder2 p) :
    C16.encodeG1c p = bs := by
  obtain ⟨hwf, hd⟩ := g1Dec_some h
  rcases C16.decode_canonical bs p hwf hd with h1 | ⟨x, hx⟩
  · exact h1
  · exact absurd hx (hp x)

/-- `CanonicalPointDecoder` holds for the model of `G1Affine::from_compressed`. -/
theorem g1Dec_canonical : CanonicalPointDecoder g1Dec NoOrder2 where
  size := fun _ _ h => g1Dec_length h
  canonical := fun a b p hp ha hb => by rw [← g1Dec_encode ha hp, ← g1Dec_encode hb hp]

theorem encodeG1c_inj_good (p q : Pt) (hp : GoodPt p) (hq : GoodPt q)
    (h : C16.encodeG1c p = C16.encodeG1c q) : p = q := by
  obtain ⟨⟨a, ha⟩, np⟩ := hp
  obtain ⟨⟨b, hb⟩, nq⟩ := hq
  have h1 := g1Dec_encode ha np
  have h2 := g1Dec_encode hb nq
  have hab : a = b := by rw [← h1, ← h2, h]
  rw [hab, hb] at ha
  exact (Option.some.inj ha).symm

/-- Canonical coordinates. -/
def CanonPt : Pt → Prop
  | .inf => True
  | .aff x y => x < Gen.fpModulus ∧ y < Gen.fpModulus

theorem fpModulus_agree : C16.fpP = Gen.fpModulus := by decide
theorem fqModulus_agree : C16.fqR = Gen.fqModulus ∧ rModulus = Gen.fqModulus := by decide

theorem good_canon (p : Pt) (hp : GoodPt p) : CanonPt p := by
  cases p with
  | inf => trivial
  | aff x y =>
    obtain ⟨⟨a, ha⟩, _⟩ := hp
    have := C16.accepted_points_valid a x y (g1Dec_some ha).2
    rw [fpModulus_agree] at this
    exact ⟨this.1, this.2.1⟩

/-! ## limbs of a point (Poseidon input) -/

theorem shift_inj (p x x' : Nat) (hx : x < p) (hx' : x' < p)
    (h : (x + p - 1) % p = (x' + p - 1) % p) : x = x' := by
  have key : ∀ z, z < p → (z + p - 1) % p = if z = 0 then p - 1 else z - 1 := by
    intro z hz
    split
    · next h0 => subst h0; simp only [Nat.zero_add]; exact Nat.mod_eq_of_lt (by omega)
    · next h0 =>
      have : z + p - 1 = (z - 1) + p := by omega
      rw [this, Nat.add_mod_right, Nat.mod_eq_of_lt (by omega)]
  rw [key x hx, key x' hx'] at h
  split at h <;> split at h <;> omega

theorem fpModulus_lt_limbs : Gen.fpModulus < limbBase ^ Gen.emNbLimbs := by decide
theorem fpModulus_pos : 0 < Gen.fpModulus := by decide
theorem limbBase_pos : 0 < limbBase := by decide

theorem fieldLimbs_inj (x x' : Nat) (hx : x < Gen.fpModulus) (hx' : x' < Gen.fpModulus)
    (h : fieldLimbs x = fieldLimbs x') : x = x' := by
  unfold fieldLimbs at h
  rw [Nat.mod_eq_of_lt hx, Nat.mod_eq_of_lt hx'] at h
  have hb : ∀ z, (z + Gen.fpModulus - 1) % Gen.fpModulus < limbBase ^ Gen.emNbLimbs :=
    fun z => Nat.lt_trans (Nat.mod_lt _ fpModulus_pos) fpModulus_lt_limbs
  exact shift_inj _ x x' hx hx' (toLimbs_inj limbBase limbBase_pos _ _ _ (hb x) (hb x') h)

theorem fieldLimbs_cons (x : Nat) : ∃ l t, fieldLimbs x = l :: t ∧ l < limbBase := by
  have h7 : Gen.emNbLimbs = 6 + 1 := by decide
  unfold fieldLimbs
  rw [h7]
  exact ⟨_, _, rfl, Nat.mod_lt _ limbBase_pos⟩

/-- `as_public_input` of a point is injective on points with canonical coordinates (the identity flag
is separated from the limbs of `x` by their range). -/
theorem pointLimbs_inj (p q : Pt) (hp : CanonPt p) (hq : CanonPt q) (h : pointLimbs p = pointLimbs q) :
    p = q := by
  cases p with
  | inf =>
    cases q with
    | inf => rfl
    | aff x y =>
      exfalso
      obtain ⟨l0, t0, e0, _⟩ := fieldLimbs_cons 0
      obtain ⟨l, t, e, hl⟩ := fieldLimbs_cons x
      simp only [pointLimbs, e0, e, List.cons_append, List.cons.injEq] at h
      omega
  | aff x y =>
    cases q with
    | inf =>
      exfalso
      obtain ⟨l0, t0, e0, _⟩ := fieldLimbs_cons 0
      obtain ⟨l, t, e, hl⟩ := fieldLimbs_cons x
      simp only [pointLimbs, e0, e, List.cons_append, List.cons.injEq] at h
      omega
    | aff x' y' =>
      simp only [pointLimbs] at h
      have h2 := List.append_inj h (by rw [fieldLimbs_length, fieldLimbs_length])
      rw [fieldLimbs_inj x x' hp.1 hq.1 h2.1, fieldLimbs_inj y y' hp.2 hq.2 h2.2]

/-! ## values -/

/-- Values the transcript can hold: canonical scalars and decodable points. -/
def GoodVal : Val → Prop
  | .F v => v < rModulus
  | .G p => GoodPt p

theorem valBytes_inj_good (a b : Val) (ha : GoodVal a) (hb : GoodVal b) (hty : a.ty = b.ty)
    (h : valBytes a = valBytes b) : a = b := by
  cases a with
  | F x =>
    cases b with
    | F y =>
      have hr : rModulus < 256 ^ 32 := by decide
      simp only [GoodVal] at ha hb
      have := natToLeBytes_inj 32 x y (Nat.lt_trans ha hr) (Nat.lt_trans hb hr) h
      rw [this]
    | G q => simp [Val.ty] at hty
  | G p =>
    cases b with
    | F y => simp [Val.ty] at hty
    | G q => rw [encodeG1c_inj_good p q ha hb h]

theorem valFields_inj_good (a b : Val) (ha : GoodVal a) (hb : GoodVal b) (hty : a.ty = b.ty)
    (h : valFields a = valFields b) : a = b := by
  cases a with
  | F x =>
    cases b with
    | F y => simp only [valFields, List.cons.injEq, and_true] at h; rw [h]
    | G q => simp [Val.ty] at hty
  | G p =>
    cases b with
    | F y => simp [Val.ty] at hty
    | G q => rw [pointLimbs_inj p q (good_canon p ha) (good_canon q hb) h]

/-! ## uncompressed encoding (verifying-key buffer) -/

theorem natToBe_inj (n a b : Nat) (ha : a < 256 ^ n) (hb : b < 256 ^ n)
    (h : C16.natToBe n a = C16.natToBe n b) : a = b := by
  unfold C16.natToBe at h
  exact natToLeBytes_inj n a b ha hb (by simpa using congrArg List.reverse h)

theorem encodeG1u_inj (p q : Pt) (hp : CanonPt p) (hq : CanonPt q)
    (h : C16.encodeG1u p = C16.encodeG1u q) : p = q := by
  have hpl : Gen.fpModulus < 256 ^ 48 := by decide
  cases p with
  | inf =>
    cases q with
    | inf => rfl
    | aff x y =>
      exfalso
      obtain ⟨b, t, e, hb, _⟩ := C16.natToBe48_head_lt x (by rw [fpModulus_agree]; exact hq.1)
      simp only [C16.encodeG1u, e, List.cons_append, List.cons.injEq] at h
      omega
  | aff x y =>
    cases q with
    | inf =>
      exfalso
      obtain ⟨b, t, e, hb, _⟩ := C16.natToBe48_head_lt x (by rw [fpModulus_agree]; exact hp.1)
      simp only [C16.encodeG1u, e, List.cons_append, List.cons.injEq] at h
      omega
    | aff x' y' =>
      simp only [C16.encodeG1u] at h
      have h2 := List.append_inj h (by simp [C16.natToBe, natToLeBytes_length'])
      rw [natToBe_inj 48 x x' (Nat.lt_trans hp.1 hpl) (Nat.lt_trans hq.1 hpl) h2.1,
        natToBe_inj 48 y y' (Nat.lt_trans hp.2 hpl) (Nat.lt_trans hq.2 hpl) h2.2]

end MidnightZK.C03
