import MidnightZK.Model.C02.CsParams
/-!
# `ConstraintSystem::degree()` covers the degree of every identity polynomial
Core Lean only. Degrees are counted in units of a column polynomial (degree `≤ n − 1`): a query has
degree 1, `l_0`, `l_last`, `l_blind` have degree 1, constants and challenges degree 0.
-/
namespace MidnightZK.C02.Ids
open MidnightZK MidnightZK.C02

/-- Degree of the θ-compression `θ^{m−1}·e_0 + … + e_{m−1}` of a list of expressions: the largest
degree of a member (0 for the empty list). -/
def compressedDegree (es : List Expr) : Nat := es.foldl (fun d e => max d (exprDegree e)) 0

/-- Degrees of the five identities of one lookup (`lookup.rs: Evaluated::expressions`):
`l_0·(1 − z)`; `l_last·(z² − z)`;
`(1 − (l_last + l_blind))·(z(ωX)(a' + β)(s' + γ) − z(X)(A_θ + β)(S_θ + γ))` with `A_θ`, `S_θ` the
compressed input / table expressions; `l_0·(a' − s')`;
`(1 − (l_last + l_blind))·(a' − s')(a' − a'(ω⁻¹X))`. -/
def lookupIdDegrees (arg : List Expr × List Expr) : List Nat :=
  [2, 3, 1 + max 3 (1 + compressedDegree arg.1 + compressedDegree arg.2), 2, 3]

/-- Degree of `compressed − (1 − q)·trash` (`trash.rs: Evaluated::expressions`). -/
def trashIdDegree (arg : Expr × List Expr) : Nat := max (compressedDegree arg.2) (exprDegree arg.1 + 1)

/-- Degrees of the permutation identities (`permutation.rs: expressions`) for the column sets
`columns.chunks(degree − 2)`: `l_0·(1 − z_0)`, `l_last·(z_l² − z_l)`, and per set the chain rule
`l_0·(z_s − z_{s−1}(ω^last X))` and the product rule
`(1 − (l_last + l_blind))·(z_s(ωX)·∏_{set}(v + βσ + γ) − z_s(X)·∏_{set}(v + δ^jβX + γ))`. -/
def permIdDegrees (cs : VCS) : List Nat :=
  if cs.permCols.isEmpty then []
  else [2, 3] ++ (chunks (csDegree cs - 2) cs.permCols).flatMap fun set => [2, 2 + set.length]

/-- The degree of every identity polynomial of the prover's numerator / the verifier's
`expected_h_eval`, class by class (gates, permutation, lookups, trash). -/
def identityDegrees (cs : VCS) : List Nat :=
  cs.gates.flatten.map exprDegree ++ permIdDegrees cs ++ cs.lookups.flatMap lookupIdDegrees ++
    cs.trash.map trashIdDegree

/-- The "per-column" variant of `required_degree` (the largest `deg input_i + deg table_i`
instead of `max deg input + max deg table`). -/
def lookupRequiredDegreePerColumn (arg : List Expr × List Expr) : Nat :=
  max 4 (2 + (arg.1.zip arg.2).foldl (fun d (p : Expr × Expr) => max d (max 1 (exprDegree p.1) + max 1 (exprDegree p.2))) 2)

theorem le_foldl_max (l : List Nat) (a : Nat) : a ≤ l.foldl max a := by
  induction l generalizing a with
  | nil => exact Nat.le_refl _
  | cons x t ih => exact Nat.le_trans (Nat.le_max_left a x) (ih (max a x))

theorem mem_le_foldl_max (l : List Nat) (a x : Nat) (h : x ∈ l) : x ≤ l.foldl max a := by
  induction l generalizing a with
  | nil => cases h
  | cons y t ih =>
    cases h with
    | head => exact Nat.le_trans (Nat.le_max_right a x) (le_foldl_max t (max a x))
    | tail _ h' => exact ih (max a y) h'

theorem le_foldl_maxf {α : Type} (f : α → Nat) (l : List α) (a : Nat) :
    a ≤ l.foldl (fun d e => max d (f e)) a := by
  induction l generalizing a with
  | nil => exact Nat.le_refl _
  | cons x t ih => exact Nat.le_trans (Nat.le_max_left a (f x)) (ih (max a (f x)))

theorem foldl_maxf_mono {α : Type} (f : α → Nat) (l : List α) (a b : Nat) (h : a ≤ b) :
    l.foldl (fun d e => max d (f e)) a ≤ l.foldl (fun d e => max d (f e)) b := by
  induction l generalizing a b with
  | nil => exact h
  | cons x t ih =>
    exact ih _ _ (Nat.max_le.mpr ⟨Nat.le_trans h (Nat.le_max_left _ _), Nat.le_max_right _ _⟩)

theorem maxOpt_ge (l : List Nat) (m x : Nat) (hm : maxOpt l = some m) (hx : x ∈ l) : x ≤ m := by
  cases l with
  | nil => cases hx
  | cons a t =>
    simp only [maxOpt, Option.some.injEq] at hm
    subst hm
    cases hx with
    | head => exact le_foldl_max t x
    | tail _ h' => exact mem_le_foldl_max t a x h'

theorem maxOpt_isSome_of_mem (l : List Nat) (x : Nat) (hx : x ∈ l) : ∃ m, maxOpt l = some m := by
  cases l with
  | nil => cases hx
  | cons a t => exact ⟨_, rfl⟩

/-- Every component of `ConstraintSystem::degree()` is below the result. -/
theorem csDegree_ge_component (cs : VCS) (o : Option Nat) (v : Nat) (hv : o = some v)
    (ho : o ∈ [some 3, maxOpt (cs.lookups.map lookupRequiredDegree),
      maxOpt (cs.trash.map trashRequiredDegree), maxOpt (cs.gates.flatten.map exprDegree)]) :
    v ≤ csDegree cs := by
  unfold csDegree
  apply mem_le_foldl_max
  rw [List.mem_filterMap]
  exact ⟨o, ho, by simp [hv]⟩

theorem csDegree_ge_gate (cs : VCS) (g : Expr) (hg : g ∈ cs.gates.flatten) : exprDegree g ≤ csDegree cs := by
  have hmem : exprDegree g ∈ cs.gates.flatten.map exprDegree := List.mem_map.mpr ⟨g, hg, rfl⟩
  obtain ⟨m, hm⟩ := maxOpt_isSome_of_mem _ _ hmem
  exact Nat.le_trans (maxOpt_ge _ m _ hm hmem) (csDegree_ge_component cs _ m hm (by simp))

theorem csDegree_ge_lookup (cs : VCS) (l : List Expr × List Expr) (hl : l ∈ cs.lookups) :
    lookupRequiredDegree l ≤ csDegree cs := by
  have hmem : lookupRequiredDegree l ∈ cs.lookups.map lookupRequiredDegree := List.mem_map.mpr ⟨l, hl, rfl⟩
  obtain ⟨m, hm⟩ := maxOpt_isSome_of_mem _ _ hmem
  exact Nat.le_trans (maxOpt_ge _ m _ hm hmem) (csDegree_ge_component cs _ m hm (by simp))

theorem csDegree_ge_trash (cs : VCS) (t : Expr × List Expr) (ht : t ∈ cs.trash) :
    trashRequiredDegree t ≤ csDegree cs := by
  have hmem : trashRequiredDegree t ∈ cs.trash.map trashRequiredDegree := List.mem_map.mpr ⟨t, ht, rfl⟩
  obtain ⟨m, hm⟩ := maxOpt_isSome_of_mem _ _ hmem
  exact Nat.le_trans (maxOpt_ge _ m _ hm hmem) (csDegree_ge_component cs _ m hm (by simp))

theorem csDegree_ge_3 (cs : VCS) : 3 ≤ csDegree cs := csDegree_ge_component cs _ 3 rfl (by simp)

theorem chunksFuel_length_le {α : Type} (m fuel : Nat) (l : List α) :
    ∀ c ∈ chunksFuel m fuel l, c.length ≤ m := by
  induction fuel generalizing l with
  | zero => intro c hc; simp [chunksFuel] at hc
  | succ k ih =>
    intro c hc
    simp only [chunksFuel] at hc
    split at hc
    · cases hc
    · cases hc with
      | head => rw [List.length_take]; exact Nat.min_le_left _ _
      | tail _ h' => exact ih _ c h'

theorem lookupIdDegrees_le (arg : List Expr × List Expr) :
    ∀ d ∈ lookupIdDegrees arg, d ≤ lookupRequiredDegree arg := by
  have h1 : compressedDegree arg.1 ≤ arg.1.foldl (fun d e => max d (exprDegree e)) 1 :=
    foldl_maxf_mono exprDegree arg.1 0 1 (by omega)
  have h2 : compressedDegree arg.2 ≤ arg.2.foldl (fun d e => max d (exprDegree e)) 1 :=
    foldl_maxf_mono exprDegree arg.2 0 1 (by omega)
  intro d hd
  simp only [lookupIdDegrees, List.mem_cons, List.mem_nil_iff, or_false] at hd
  unfold lookupRequiredDegree
  simp only []
  omega

theorem trashIdDegree_le (arg : Expr × List Expr) (hq : exprDegree arg.1 ≤ 1) :
    trashIdDegree arg ≤ trashRequiredDegree arg := by
  unfold trashIdDegree trashRequiredDegree compressedDegree
  omega

end MidnightZK.C02.Ids
