import MidnightZK.Model.C02.Fill
/-!
# `fill_from_row`, `assign_fixed` and the poisoned rows: what the mirrors of `Model/C02/Fill.lean` compute
Core Lean only.
-/
namespace MidnightZK.C02.Fill
open MidnightZK MidnightZK.C02

/-- The loop writes `v` exactly on the rows `row ≤ i < row + count` that exist. -/
theorem fillLoop_getElem? {α : Type} (col : List α) (row : Nat) (v : α) (count i : Nat) :
    (fillLoop col row v count)[i]? =
      if row ≤ i ∧ i < row + count ∧ i < col.length then some v else col[i]? := by
  induction count generalizing col row with
  | zero =>
    simp only [fillLoop]
    have : ¬ (row ≤ i ∧ i < row + 0 ∧ i < col.length) := by omega
    rw [if_neg this]
  | succ k ih =>
    simp only [fillLoop]
    rw [ih, List.getElem?_set, List.length_set]
    by_cases h1 : row = i
    · subst h1
      have a : ¬ (row + 1 ≤ row ∧ row < row + 1 + k ∧ row < col.length) := by omega
      rw [if_neg a, if_pos rfl]
      by_cases h2 : row < col.length
      · have b : row ≤ row ∧ row < row + (k + 1) ∧ row < col.length := ⟨Nat.le_refl _, by omega, h2⟩
        rw [if_pos b, if_pos h2]
      · have b : ¬ (row ≤ row ∧ row < row + (k + 1) ∧ row < col.length) := by omega
        have c : col[row]? = none := List.getElem?_eq_none (by omega)
        rw [if_neg b, if_neg h2, c]
    · by_cases h3 : row + 1 ≤ i ∧ i < row + 1 + k ∧ i < col.length
      · have b : row ≤ i ∧ i < row + (k + 1) ∧ i < col.length := by omega
        rw [if_pos h3, if_pos b]
      · have b : ¬ (row ≤ i ∧ i < row + (k + 1) ∧ i < col.length) := by omega
        rw [if_neg h3, if_neg b, if_neg h1]

theorem fillLoop_length {α : Type} (col : List α) (row : Nat) (v : α) (count : Nat) :
    (fillLoop col row v count).length = col.length := by
  induction count generalizing col row with
  | zero => rfl
  | succ k ih => simp only [fillLoop]; rw [ih, List.length_set]

/-- `fill_from_row` on one column: every usable row `≥ from_row` holds the filler afterwards —
the LAST usable row `usable − 1` included —, every other row is untouched. -/
theorem fillCol_getElem? {α : Type} (col : List α) (fromRow usable : Nat) (v : α) (i : Nat)
    (hlen : usable ≤ col.length) :
    (fillCol col fromRow usable v)[i]? = if fromRow ≤ i ∧ i < usable then some v else col[i]? := by
  unfold fillCol
  rw [fillLoop_getElem?]
  by_cases h : fromRow ≤ i ∧ i < usable
  · have : fromRow ≤ i ∧ i < fromRow + (usable - fromRow) ∧ i < col.length := by omega
    rw [if_pos h, if_pos this]
  · have : ¬ (fromRow ≤ i ∧ i < fromRow + (usable - fromRow) ∧ i < col.length) := by omega
    rw [if_neg h, if_neg this]

theorem fillLoop_map {α β : Type} (f : α → β) (col : List α) (row : Nat) (v : α) (count : Nat) :
    (fillLoop col row v count).map f = fillLoop (col.map f) row (f v) count := by
  induction count generalizing col row with
  | zero => rfl
  | succ k ih => simp only [fillLoop]; rw [ih, List.map_set]

/-! ## key generation and the mock checker hold the same fixed columns -/

/-- The mock checker's columns read as field elements (`Unassigned` reads `0`). -/
def erase (mcols : List (List Cell)) : List (List Nat) := mcols.map (List.map cellNat)

theorem keyStep_mockStep (usable : Nat) (mcols : List (List Cell)) (op : FixedOp) :
    (mockStep usable mcols op).map erase = keyStep usable (erase mcols) op := by
  cases op with
  | assign c r v =>
    simp only [mockStep, keyStep, mockAssign, keyAssign, erase, List.getElem?_map]
    by_cases hr : r < usable
    · simp only [hr, not_true_eq_false, if_false]
      cases hc : mcols[c]? with
      | none => simp
      | some col =>
        simp only [Option.map_some, List.length_map]
        by_cases hl : r < col.length
        · simp only [hl, if_true, Option.map_some]
          simp only [erase, List.map_set, cellNat]
        · simp [hl]
    · simp [hr]
  | fill c r v =>
    simp only [mockStep, keyStep, mockFill, keyFill, erase, List.getElem?_map]
    by_cases hr : r < usable
    · simp only [hr, not_true_eq_false, if_false]
      cases hc : mcols[c]? with
      | none => simp
      | some col =>
        simp only [Option.map_some, fillCol]
        simp only [erase, List.map_set, fillLoop_map, cellNat]
    · simp [hr]

theorem foldlM_key_mock (usable : Nat) (ops : List FixedOp) (mcols : List (List Cell)) :
    (ops.foldlM (mockStep usable) mcols).map erase = ops.foldlM (keyStep usable) (erase mcols) := by
  induction ops generalizing mcols with
  | nil => rfl
  | cons op t ih =>
    simp only [List.foldlM_cons]
    have h := keyStep_mockStep usable mcols op
    cases hm : mockStep usable mcols op with
    | none => rw [hm] at h; simp only [Option.map_none] at h; rw [← h]; rfl
    | some m' =>
      rw [hm] at h; simp only [Option.map_some] at h
      rw [← h]
      simpa using ih m'

/-! ## `MockProver::run`: poisoned rows -/

theorem mockAdviceInit_length (n usable : Nat) : (mockAdviceInit n usable).length = n := by
  simp [mockAdviceInit]

theorem mockAdviceInit_getElem? (n usable i : Nat) (hi : i < n) :
    (mockAdviceInit n usable)[i]? = some (if usable ≤ i then Cell.poison i else Cell.unassigned) := by
  simp [mockAdviceInit, List.getElem?_map, List.getElem?_range hi]

end MidnightZK.C02.Fill
